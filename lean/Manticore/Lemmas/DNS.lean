/-
  Lemmas about the RFC 1035 grammar of `Manticore/Spec/DNS.lean` itself (no Go model involved):
  literal labels / root octet / pointer are read back; reading is stable under appending bytes;
  `parse (serialize pl m ++ e) = m` for every admissible pointer placement `pl` (the grammar is
  unambiguous); the uncompressed form is one of the admissible serializations.
  Used by C09 (LLMNR) and C10 (NBNS).
-/
import Manticore.Spec.DNS
import Manticore.Lemmas.Endian
namespace Manticore.Spec.DNS
open Manticore

theorem ofNat_toNat_of_le63 (n : Nat) (h : n ≤ 63) : (UInt8.ofNat n).toNat = n := by
  simp [UInt8.toNat_ofNat']; omega

theorem labelsWire_cons (l : Label) (ls : Name) : labelsWire (l :: ls) = UInt8.ofNat l.length :: (l ++ labelsWire ls) := by
  simp [labelsWire, labelWire]

/-- literal labels are read back, then reading continues behind them -/
theorem readLabels_labels (ls : Name) (hv : ∀ l ∈ ls, ValidLabel l) (rest : Bytes) (pos : Nat) :
    readLabels (labelsWire ls ++ rest) pos =
      (match readLabels rest (pos + (labelsWire ls).length) with
       | .ok (ls', t) => .ok (ls ++ ls', t)
       | .error e => .error e) := by
  induction ls generalizing pos with
  | nil =>
    simp only [labelsWire, List.flatMap_nil, List.nil_append, List.length_nil, Nat.add_zero]
    rcases readLabels rest pos with e | ⟨ls', t⟩ <;> rfl
  | cons l ls ih =>
    obtain ⟨h1, h2⟩ := hv l (by simp)
    have hb := ofNat_toNat_of_le63 l.length h2
    rw [labelsWire_cons, List.cons_append, readLabels.eq_2]
    have hne : UInt8.ofNat l.length ≠ 0 := by
      intro h
      have h0 : (UInt8.ofNat l.length).toNat = 0 := by rw [h]; rfl
      omega
    rw [if_neg hne, if_pos (by rw [hb]; omega), if_neg (by simp [hb])]
    rw [hb, List.append_assoc, List.drop_left, List.take_left, ih (fun x hx => hv x (by simp [hx]))]
    have : pos + 1 + l.length + (labelsWire ls).length = pos + (UInt8.ofNat l.length :: (l ++ labelsWire ls)).length := by
      simp; omega
    rw [this]
    rcases readLabels rest _ with e | ⟨ls', t⟩ <;> rfl

theorem readLabels_root (rest : Bytes) (pos : Nat) : readLabels (0 :: rest) pos = .ok ([], .root pos) := by
  rw [readLabels.eq_2]; simp

theorem ptrBytes_fst (t : Nat) (h : t < 16384) : (UInt8.ofNat (192 + t / 256)).toNat = 192 + t / 256 := by
  simp [UInt8.toNat_ofNat']; omega

theorem readLabels_ptr (t : Nat) (h : t < 16384) (rest : Bytes) (pos : Nat) :
    readLabels (ptrBytes t ++ rest) pos = .ok ([], .ptr pos t) := by
  have h1 := ptrBytes_fst t h
  have hne : UInt8.ofNat (192 + t / 256) ≠ 0 := by
    intro e
    have h0 : (UInt8.ofNat (192 + t / 256)).toNat = 0 := by rw [e]; rfl
    omega
  simp only [ptrBytes, List.cons_append, List.nil_append]
  rw [readLabels.eq_2, if_neg hne, if_neg (by rw [h1]; omega), if_neg (by rw [h1]; omega)]
  simp only [List.head?_cons, h1]
  have : (UInt8.ofNat (t % 256)).toNat = t % 256 := by simp [UInt8.toNat_ofNat']
  rw [this]
  have : (192 + t / 256 - 192) * 256 + t % 256 = t := by omega
  rw [this]

/-- reading is not disturbed by bytes appended behind the data -/
theorem readLabels_append (r : Bytes) (pos : Nat) (x : List Label × Tail) (e : Bytes) :
    readLabels r pos = .ok x → readLabels (r ++ e) pos = .ok x := by
  fun_induction readLabels r pos generalizing x with
  | case1 => intro h; cases h
  | case2 rest pos => intro h; rw [List.cons_append, readLabels_root]; exact h
  | case3 b rest pos hb h64 hlen => intro h; cases h
  | case4 b rest pos hb h64 hlen ls t hrec ih =>
    intro h
    rw [List.cons_append, readLabels.eq_2, if_neg hb, if_pos h64, if_neg (by simp; omega)]
    have hd : (rest ++ e).drop b.toNat = rest.drop b.toNat ++ e := by
      rw [List.drop_append_of_le_length (by omega)]
    have ht : (rest ++ e).take b.toNat = rest.take b.toNat := by
      rw [List.take_append_of_le_length (by omega)]
    rw [hd, ht, ih _ hrec]
    exact h
  | case5 b rest pos hb h64 hlen err hrec => intro h; cases h
  | case6 => intro h; cases h
  | case7 => intro h; cases h
  | case8 b rest pos hb h64 h192 c hc =>
    intro h
    rw [List.cons_append, readLabels.eq_2, if_neg hb, if_neg h64, if_neg h192]
    have : (rest ++ e).head? = some c := by
      cases rest with
      | nil => simp at hc
      | cons a r => simpa using hc
    rw [this]; exact h

theorem readLabels_ok_ne_nil {r : Bytes} {pos : Nat} {x} (h : readLabels r pos = .ok x) : r ≠ [] := by
  intro e; subst e; rw [readLabels.eq_1] at h; cases h

theorem drop_append_of_readLabels {d e : Bytes} {off : Nat} {x} (h : readLabels (d.drop off) off = .ok x) :
    (d ++ e).drop off = d.drop off ++ e := by
  have hne := readLabels_ok_ne_nil h
  have : off ≤ d.length := by
    apply Nat.le_of_lt; apply Nat.lt_of_not_le; intro hle
    exact hne (List.drop_eq_nil_of_le hle)
  exact List.drop_append_of_le_length this

/-- a name read from `d` is read identically from any extension of `d` -/
theorem parseName_append (d : Bytes) (off : Nat) (x : Name × Nat) (e : Bytes) :
    parseName d off = .ok x → parseName (d ++ e) off = .ok x := by
  fun_induction parseName d off generalizing x with
  | case1 off err hr => intro h; cases h
  | case2 off ls p hr =>
    intro h
    rw [parseName, drop_append_of_readLabels hr, readLabels_append _ _ _ e hr]; exact h
  | case3 off ls p t hr ht s snd hs ih =>
    intro h
    rw [parseName, drop_append_of_readLabels hr, readLabels_append _ _ _ e hr]
    simp only [ht, dite_true, ih _ hs]; exact h
  | case4 off ls p t hr ht err hs ih => intro h; cases h
  | case5 off ls p t hr ht => intro h; cases h


theorem putName_prefix {out : Bytes} {n : Name} {c : Choice} {o : Bytes} (h : putName out n c = some o) : out <+: o := by
  cases c with
  | none => simp only [putName, Option.some.injEq] at h; subst h; exact List.prefix_append _ _
  | some kt =>
    obtain ⟨k, t⟩ := kt
    simp only [putName] at h
    split at h
    · simp only [Option.some.injEq] at h; subst h; rw [List.append_assoc]; exact List.prefix_append _ _
    · cases h

theorem take_valid {n : Name} (hv : ∀ l ∈ n, ValidLabel l) (k : Nat) : ∀ l ∈ n.take k, ValidLabel l :=
  fun l hl => hv l (List.mem_of_mem_take hl)

/-- what `putName` appends is read back as the name, whatever follows -/
theorem parseName_putName (out : Bytes) (n : Name) (c : Choice) (o : Bytes) (hv : ∀ l ∈ n, ValidLabel l)
    (h : putName out n c = some o) (D : Bytes) (hD : o <+: D) :
    parseName D out.length = .ok (n, o.length) := by
  obtain ⟨e, rfl⟩ := hD
  cases c with
  | none =>
    simp only [putName, Option.some.injEq] at h; subst h
    have hd : (out ++ nameWire n ++ e).drop out.length = labelsWire n ++ (0 :: e) := by
      simp [nameWire, List.append_assoc]
    rw [parseName, hd, readLabels_labels n hv, readLabels_root]
    simp [nameWire]; omega
  | some kt =>
    obtain ⟨k, t⟩ := kt
    simp only [putName] at h
    split at h
    · rename_i hc
      obtain ⟨hk, ht, ht2, hp⟩ := hc
      simp only [Option.some.injEq] at h; subst h
      have hd : (out ++ labelsWire (n.take k) ++ ptrBytes t ++ e).drop out.length
          = labelsWire (n.take k) ++ (ptrBytes t ++ e) := by
        simp [List.append_assoc]
      rw [parseName, hd, readLabels_labels _ (take_valid hv k), readLabels_ptr t ht2]
      simp only [ht, dite_true]
      unfold priorOccurrence at hp
      split at hp
      · rename_i s' nx hs
        have hs' : s' = n.drop k := by simpa using hp
        subst hs'
        have := parseName_append out t _ (labelsWire (n.take k) ++ (ptrBytes t ++ e)) hs
        rw [List.append_assoc, List.append_assoc, this]
        simp [ptrBytes]; omega
      · cases hp
    · cases h


theorem parseNameChecked_putName (out : Bytes) (n : Name) (c : Choice) (o : Bytes) (hv : ValidName n)
    (h : putName out n c = some o) (D : Bytes) (hD : o <+: D) :
    parseNameChecked D out.length = .ok (n, o.length) := by
  unfold parseNameChecked
  rw [parseName_putName out n c o hv.1 h D hD]
  simp [hv.2]

theorem drop_of_prefix_append {o tail D : Bytes} (hD : (o ++ tail) <+: D) : ∃ e, D.drop o.length = tail ++ e := by
  obtain ⟨e, rfl⟩ := hD
  exact ⟨e, by simp [List.append_assoc]⟩

theorem prefix_of_prefix_append {o tail D : Bytes} (hD : (o ++ tail) <+: D) : o <+: D :=
  List.IsPrefix.trans (List.prefix_append _ _) hD

theorem parseQuestion_put (out : Bytes) (q : Question) (c : Choice) (o : Bytes) (hv : ValidName q.name)
    (h : putName out q.name c = some o) (D : Bytes) (hD : (o ++ questionTail q) <+: D) :
    parseQuestion D out.length = .ok (q, (o ++ questionTail q).length) := by
  unfold parseQuestion
  rw [parseNameChecked_putName out q.name c o hv h D (prefix_of_prefix_append hD)]
  obtain ⟨e, he⟩ := drop_of_prefix_append hD
  simp only [he, questionTail, putBe16, List.cons_append, List.nil_append, be16_bytes]
  simp

theorem ofNat16_toNat (n : Nat) (h : n ≤ 65535) : (UInt16.ofNat n).toNat = n := by
  simp [UInt16.toNat_ofNat']; omega

theorem parseRR_put (out : Bytes) (r : RR) (c : Choice) (o : Bytes) (hv : ValidRR r)
    (h : putName out r.name c = some o) (D : Bytes) (hD : (o ++ rrTail r) <+: D) :
    parseRR D out.length = .ok (r, (o ++ rrTail r).length) := by
  unfold parseRR
  rw [parseNameChecked_putName out r.name c o hv.1 h D (prefix_of_prefix_append hD)]
  obtain ⟨e, he⟩ := drop_of_prefix_append hD
  have hl := ofNat16_toNat r.rdata.length hv.2
  simp only [he, rrTail, putBe16, putBe32, List.cons_append, List.nil_append, be16_bytes, be32_bytes, hl]
  simp [List.take_left']
  rw [if_neg (by omega)]
  congr 2
  omega


theorem putEntries_prefix (pl : Nat → Choice) : ∀ (es : List (Name × Bytes)) (i : Nat) (out o : Bytes),
    putEntries pl es i out = some o → out <+: o := by
  intro es
  induction es with
  | nil => intro i out o h; simp only [putEntries, Option.some.injEq] at h; subst h; exact List.prefix_refl _
  | cons e es ih =>
    intro i out o h
    obtain ⟨n, tail⟩ := e
    simp only [putEntries] at h
    split at h
    · cases h
    · rename_i o1 h1
      exact List.IsPrefix.trans (List.IsPrefix.trans (putName_prefix h1) (List.prefix_append _ _)) (ih _ _ _ h)

theorem parseMany_putEntries {α} (entry : α → Name × Bytes) (parseX : Bytes → Nat → Except Reject (α × Nat))
    (P : α → Prop)
    (item : ∀ (out : Bytes) (x : α) (c : Choice) (o : Bytes), P x → putName out (entry x).1 c = some o →
      ∀ D, (o ++ (entry x).2) <+: D → parseX D out.length = .ok (x, (o ++ (entry x).2).length))
    (pl : Nat → Choice) : ∀ (xs : List α) (i : Nat) (out o : Bytes), (∀ x ∈ xs, P x) →
      putEntries pl (xs.map entry) i out = some o → ∀ D, o <+: D →
      parseMany parseX D xs.length out.length = .ok (xs, o.length) := by
  intro xs
  induction xs with
  | nil =>
    intro i out o _ h D _
    simp only [List.map_nil, putEntries, Option.some.injEq] at h; subst h
    rfl
  | cons x xs ih =>
    intro i out o hP h D hD
    simp only [List.map_cons] at h
    rw [show entry x = ((entry x).1, (entry x).2) from rfl] at h
    simp only [putEntries] at h
    split at h
    · cases h
    · rename_i o1 h1
      have hpre := putEntries_prefix pl _ _ _ _ h
      have h2 := item out x (pl i) o1 (hP x (by simp)) h1 D (List.IsPrefix.trans hpre hD)
      simp only [List.length_cons, parseMany, h2]
      rw [ih (i + 1) _ o (fun y hy => hP y (by simp [hy])) h D hD]


theorem parse_header (m : Message) (hv : ValidMessage m) (r : Bytes) :
    parse (header m ++ r) = parseSections (header m ++ r) m.id m.flags m.qd.length m.an.length m.ns.length m.ar.length := by
  obtain ⟨_, _, _, _, h1, h2, h3, h4⟩ := hv
  simp only [header, putBe16, List.cons_append, List.nil_append, parse, be16_bytes,
    ofNat16_toNat _ h1, ofNat16_toNat _ h2, ofNat16_toNat _ h3, ofNat16_toNat _ h4]

theorem header_length (m : Message) : (header m).length = 12 := by simp [header, putBe16]

/-- **the grammar is unambiguous**: every admissible serialization of a valid message, followed by
    anything, reads back as that message -/
theorem parse_serialize (pl : Nat → Choice) (m : Message) (hv : ValidMessage m) (w : Bytes)
    (h : serialize pl m = some w) (e : Bytes) : parse (w ++ e) = .ok m := by
  unfold serialize at h
  split at h
  · cases h
  rename_i o1 h1
  split at h
  · cases h
  rename_i o2 h2
  split at h
  · cases h
  rename_i o3 h3
  have p1 := putEntries_prefix _ _ _ _ _ h1
  have p2 := putEntries_prefix _ _ _ _ _ h2
  have p3 := putEntries_prefix _ _ _ _ _ h3
  have p4 := putEntries_prefix _ _ _ _ _ h
  have pw : w <+: w ++ e := List.prefix_append _ _
  obtain ⟨r, hr⟩ := List.IsPrefix.trans p1 (List.IsPrefix.trans p2 (List.IsPrefix.trans p3 (List.IsPrefix.trans p4 pw)))
  rw [← hr, parse_header m hv, hr]
  obtain ⟨vq, va, vn, vr, _⟩ := hv
  have q := parseMany_putEntries qEntry parseQuestion (fun q => ValidName q.name)
    (fun out x c o hx hp D hD => parseQuestion_put out x c o hx hp D hD) pl m.qd 0 (header m) o1 vq h1 (w ++ e)
    (List.IsPrefix.trans p2 (List.IsPrefix.trans p3 (List.IsPrefix.trans p4 pw)))
  have a := parseMany_putEntries rEntry parseRR ValidRR
    (fun out x c o hx hp D hD => parseRR_put out x c o hx hp D hD) pl m.an _ o1 o2 va h2 (w ++ e)
    (List.IsPrefix.trans p3 (List.IsPrefix.trans p4 pw))
  have n := parseMany_putEntries rEntry parseRR ValidRR
    (fun out x c o hx hp D hD => parseRR_put out x c o hx hp D hD) pl m.ns _ o2 o3 vn h3 (w ++ e)
    (List.IsPrefix.trans p4 pw)
  have x := parseMany_putEntries rEntry parseRR ValidRR
    (fun out x c o hx hp D hD => parseRR_put out x c o hx hp D hD) pl m.ar _ o3 w vr h (w ++ e) pw
  rw [header_length] at q
  simp only [parseSections, q, a, n, x]


theorem putEntries_none (es : List (Name × Bytes)) (i : Nat) (out : Bytes) :
    putEntries (fun _ => none) es i out = some (out ++ es.flatMap (fun e => nameWire e.1 ++ e.2)) := by
  induction es generalizing i out with
  | nil => simp [putEntries]
  | cons e es ih =>
    obtain ⟨n, tail⟩ := e
    simp only [putEntries, putName, ih, List.flatMap_cons, List.append_assoc]

/-- writing every name out in full is one of the admissible serializations -/
theorem serialize_plain (m : Message) : serialize (fun _ => none) m = some (plain m) := by
  simp only [serialize, putEntries_none, plain, List.flatMap_map, qEntry, rEntry, List.append_assoc]

end Manticore.Spec.DNS
