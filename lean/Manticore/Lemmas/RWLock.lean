/-
  Lemmas about the readers–writer-lock machine of `Model/RWLock.lean`.

  Proof route (forward simulation, linearization point = the acquire event):
  four invariants of every reachable configuration, each preserved by `Config.step`:

  * `Shape`   – the threads run the program; a thread never starts more calls than it has.
  * `LockOk`  – the lock word counts the threads inside: `readers` = number of threads inside under the
                read lock, `writer` ↔ exactly one thread inside under the write lock, and then no reader.
  * `LogOk`   – book-keeping of the trace: which acquire / release events have happened, no acquire twice,
                and a call that was released before another was acquired stands before it in the acquire log.
  * `Sim`     – the simulation: let `Q` be the *sequential* run of the calls in acquire order.  If no writer
                is inside, the shared state is `Q`'s state; if a writer is inside, finishing its remaining
                micro-steps alone leads to `Q`'s state; finishing any thread inside alone from the current
                shared state yields the result `Q` gives that call; completed calls have `Q`'s results.
                (Needs the discipline: under the read lock only reads.)
-/
import Manticore.Model.RWLock
namespace Manticore.RWLock

variable {σ ω ρ : Type}

/-! ### lists -/

theorem getElem?_set_of_some {α} {l : List α} {t : Nat} {a : α} (h : l[t]? = some a) (b : α) (u : Nat) :
    (l.set t b)[u]? = if t = u then some b else l[u]? := by
  rw [List.getElem?_set]
  have : t < l.length := by
    rcases Nat.lt_or_ge t l.length with h' | h'
    · exact h'
    · rw [List.getElem?_eq_none h'] at h; cases h
  simp [this]

theorem countP_set_of_some {α} (p : α → Bool) {l : List α} {t : Nat} {a : α} (h : l[t]? = some a) (b : α) :
    List.countP p (l.set t b) + (if p a then 1 else 0) = List.countP p l + (if p b then 1 else 0) := by
  induction l generalizing t with
  | nil => simp at h
  | cons x xs ih =>
    cases t with
    | zero =>
      simp only [List.getElem?_cons_zero, Option.some.injEq] at h
      subst h
      simp only [List.set_cons_zero, List.countP_cons]
      omega
    | succ t =>
      simp only [List.getElem?_cons_succ] at h
      have := ih h
      simp only [List.set_cons_succ, List.countP_cons]
      omega

theorem countP_pos_of_getElem? {α} (p : α → Bool) {l : List α} {t : Nat} {a : α} (h : l[t]? = some a)
    (hp : p a = true) : 0 < List.countP p l :=
  List.countP_pos_iff.mpr ⟨a, List.mem_of_getElem? h, hp⟩

theorem unique_of_countP_le_one {α} (p : α → Bool) {l : List α} (hc : List.countP p l ≤ 1) {t u : Nat} {a b : α}
    (ha : l[t]? = some a) (hb : l[u]? = some b) (pa : p a = true) (pb : p b = true) : t = u := by
  induction l generalizing t u with
  | nil => simp at ha
  | cons x xs ih =>
    simp only [List.countP_cons] at hc
    cases t with
    | zero =>
      cases u with
      | zero => rfl
      | succ u =>
        simp only [List.getElem?_cons_zero, Option.some.injEq] at ha
        simp only [List.getElem?_cons_succ] at hb
        subst ha
        have := countP_pos_of_getElem? p hb pb
        simp only [pa, ↓reduceIte] at hc
        omega
    | succ t =>
      cases u with
      | zero =>
        simp only [List.getElem?_cons_zero, Option.some.injEq] at hb
        simp only [List.getElem?_cons_succ] at ha
        subst hb
        have := countP_pos_of_getElem? p ha pa
        simp only [pb, ↓reduceIte] at hc
        omega
      | succ u =>
        simp only [List.getElem?_cons_succ] at ha hb
        have : List.countP p xs ≤ 1 := by omega
        rw [ih this ha hb]

/-- position of an event that is already in the trace does not change when the trace grows -/
theorem idxOf_snoc_of_mem {l : List Event} {e x : Event} (h : e ∈ l) : (l ++ [x]).idxOf e = l.idxOf e := by
  rw [List.idxOf_append]; simp [h]

/-- an event that is not yet in the trace has a position at or beyond the present end, also later -/
theorem le_idxOf_snoc_of_not_mem {l : List Event} {e x : Event} (h : e ∉ l) : l.length ≤ (l ++ [x]).idxOf e := by
  rw [List.idxOf_append]; simp [h]

theorem idxOf_lt_of_mem {l : List Event} {e : Event} (h : e ∈ l) : l.idxOf e < l.length :=
  List.idxOf_lt_length_iff.mpr h

/-! ### the acquire log -/

theorem acqLog_append (l₁ l₂ : List Event) : acqLog (l₁ ++ l₂) = acqLog l₁ ++ acqLog l₂ := by
  induction l₁ with
  | nil => rfl
  | cons e es ih => cases e <;> simp [acqLog, ih]

theorem mem_acqLog {l : List Event} {t k : Nat} : (t, k) ∈ acqLog l ↔ Event.acq t k ∈ l := by
  induction l with
  | nil => simp [acqLog]
  | cons e es ih => cases e <;> simp [acqLog, ih]

/-! ### micro-steps -/

/-- a micro-step that hands the shared state back untouched -/
def ReadOnly (f : Step σ ω) : Prop := ∀ obs s, (f obs s).1 = s

/-- the discipline: under the read lock only reads -/
def RawCall.Disciplined (c : RawCall σ ω ρ) : Prop := c.mode = .read → ∀ f ∈ c.steps, ReadOnly f

def Program.Disciplined (P : Program σ ω ρ) : Prop := ∀ calls ∈ P, ∀ c ∈ calls, RawCall.Disciplined c

theorem readStep_readOnly (f : List ω → σ → ω) : ReadOnly (readStep f) := fun _ _ => rfl

/-- a `Call` keeps the discipline because of its type -/
theorem Call.raw_disciplined (c : Call σ ω ρ) : c.raw.Disciplined := by
  cases c with
  | reader steps res =>
    intro _ f hf
    simp only [Call.raw, List.mem_map] at hf
    obtain ⟨g, _, rfl⟩ := hf
    exact readStep_readOnly g
  | writer steps res => intro h; cases h

theorem compile_disciplined (P : List (List (Call σ ω ρ))) : Program.Disciplined (compile P) := by
  intro calls hc c hcc
  simp only [compile, List.mem_map] at hc
  obtain ⟨cs, _, rfl⟩ := hc
  simp only [List.mem_map] at hcc
  obtain ⟨c0, _, rfl⟩ := hcc
  exact c0.raw_disciplined

/-- reads only: running them leaves the shared state alone -/
theorem runSteps_readOnly (rem : List (Step σ ω)) (h : ∀ f ∈ rem, ReadOnly f) (obs : List ω) (s : σ) :
    (runSteps rem obs s).1 = s := by
  induction rem generalizing obs s with
  | nil => rfl
  | cons f fs ih =>
    simp only [runSteps]
    rw [h f (by simp) obs s]
    exact ih (fun g hg => h g (by simp [hg])) _ _

/-! ### sequential runs -/

theorem seqRun_snoc (P : Program σ ω ρ) (s0 : σ) (order : List CallId) (id : CallId) :
    seqRun P s0 (order ++ [id]) = seqStep P (seqRun P s0 order) id := by
  simp [seqRun, List.foldl_append]

theorem seqRun_snoc_of_call (P : Program σ ω ρ) (s0 : σ) (order : List CallId) (id : CallId) (c : RawCall σ ω ρ)
    (hc : callAt P id = some c) :
    seqRun P s0 (order ++ [id]) =
      ((c.exec (seqRun P s0 order).1).1, (seqRun P s0 order).2 ++ [(id, (c.exec (seqRun P s0 order).1).2)]) := by
  rw [seqRun_snoc]; simp [seqStep, hc]

private theorem foldl_seqStep_acc (P : Program σ ω ρ) (order : List CallId) (s : σ) (acc : List (CallId × ρ)) :
    order.foldl (seqStep P) (s, acc) =
      ((order.foldl (seqStep P) (s, [])).1, acc ++ (order.foldl (seqStep P) (s, [])).2) := by
  induction order generalizing s acc with
  | nil => simp
  | cons id ids ih =>
    simp only [List.foldl_cons]
    cases h : callAt P id with
    | none => simp only [seqStep, h]; exact ih s acc
    | some c =>
      simp only [seqStep, h]
      rw [ih, ih (acc := [] ++ _)]
      simp

/-- head form of the sequential run: the first call acts on the initial state, the rest on what it leaves -/
theorem seqRun_cons_of_call (P : Program σ ω ρ) (s0 : σ) (id : CallId) (ids : List CallId) (c : RawCall σ ω ρ)
    (hc : callAt P id = some c) :
    seqRun P s0 (id :: ids) =
      ((seqRun P (c.exec s0).1 ids).1, (id, (c.exec s0).2) :: (seqRun P (c.exec s0).1 ids).2) := by
  simp only [seqRun, List.foldl_cons, seqStep, hc]
  rw [foldl_seqStep_acc]
  simp

/-! ### what one schedule entry does -/

def Thread.started (th : Thread σ ω ρ) : Nat := th.done.length + (if th.cur.isSome then 1 else 0)

/-- the four kinds of move of `Config.step` -/
inductive Move (cfg : Config σ ω ρ) (t : Nat) : Config σ ω ρ → Prop
  | skip : Move cfg t { cfg with trace := cfg.trace ++ [.skip t] }
  | acquire (th : Thread σ ω ρ) (c : RawCall σ ω ρ) (ht : cfg.threads[t]? = some th)
      (hc : th.calls[th.done.length]? = some c) (hcur : th.cur = none) (hl : cfg.lock.canAcquire c.mode = true) :
      Move cfg t ⟨cfg.shared, cfg.lock.acquire c.mode, cfg.threads.set t { th with cur := some (c.steps, []) },
        cfg.trace ++ [.acq t th.done.length]⟩
  | micro (th : Thread σ ω ρ) (c : RawCall σ ω ρ) (f : Step σ ω) (rem : List (Step σ ω)) (obs : List ω)
      (ht : cfg.threads[t]? = some th) (hc : th.calls[th.done.length]? = some c) (hcur : th.cur = some (f :: rem, obs)) :
      Move cfg t ⟨(f obs cfg.shared).1, cfg.lock,
        cfg.threads.set t { th with cur := some (rem, obs ++ [(f obs cfg.shared).2]) }, cfg.trace ++ [.step t]⟩
  | release (th : Thread σ ω ρ) (c : RawCall σ ω ρ) (obs : List ω)
      (ht : cfg.threads[t]? = some th) (hc : th.calls[th.done.length]? = some c) (hcur : th.cur = some ([], obs)) :
      Move cfg t ⟨cfg.shared, cfg.lock.release c.mode,
        cfg.threads.set t { th with cur := none, done := th.done ++ [c.result obs] },
        cfg.trace ++ [.rel t th.done.length]⟩

theorem step_move (cfg : Config σ ω ρ) (t : Nat) : Move cfg t (cfg.step t) := by
  unfold Config.step
  cases ht : cfg.threads[t]? with
  | none => exact .skip
  | some th =>
    simp only
    unfold Thread.next
    cases hc : th.calls[th.done.length]? with
    | none => exact .skip
    | some c =>
      simp only
      cases hcur : th.cur with
      | none =>
        simp only
        by_cases hl : cfg.lock.canAcquire c.mode = true
        · simp only [hl, ↓reduceIte]
          exact .acquire th c ht hc hcur hl
        · simp only [hl]
          exact .skip
      | some p =>
        obtain ⟨rem, obs⟩ := p
        cases rem with
        | nil => exact .release th c obs ht hc hcur
        | cons f rem => exact .micro th c f rem obs ht hc hcur

/-- an invariant of `Config.step` holds in every reachable configuration -/
theorem run_induction {P : Program σ ω ρ} {s0 : σ} (I : Config σ ω ρ → Prop) (h0 : I (Config.init P s0))
    (hs : ∀ cfg t, I cfg → I (cfg.step t)) (sched : List Nat) : I (run P s0 sched) := by
  unfold run
  generalize Config.init P s0 = c at h0
  induction sched generalizing c with
  | nil => exact h0
  | cons t ts ih => exact ih _ (hs c t h0)

theorem init_threads_get (P : Program σ ω ρ) (s0 : σ) (t : Nat) (th : Thread σ ω ρ)
    (h : (Config.init P s0).threads[t]? = some th) : ∃ calls, P[t]? = some calls ∧ th = ⟨calls, none, []⟩ := by
  simp only [Config.init, List.getElem?_map, Option.map_eq_some_iff] at h
  obtain ⟨calls, hc, rfl⟩ := h
  exact ⟨calls, hc, rfl⟩

/-! ### invariant 1: shape -/

structure Shape (P : Program σ ω ρ) (cfg : Config σ ω ρ) : Prop where
  calls : ∀ t : Nat, (cfg.threads[t]?).map Thread.calls = P[t]?
  bound : ∀ (t : Nat) th, cfg.threads[t]? = some th → th.started ≤ th.calls.length

theorem shape_init (P : Program σ ω ρ) (s0 : σ) : Shape P (Config.init P s0) := by
  constructor
  · intro t; simp [Config.init, List.getElem?_map, Option.map_map, Function.comp_def]
  · intro t th h
    obtain ⟨calls, _, rfl⟩ := init_threads_get P s0 t th h
    simp [Thread.started]

theorem lt_of_getElem?_some {α} {l : List α} {i : Nat} {a : α} (h : l[i]? = some a) : i < l.length := by
  rcases Nat.lt_or_ge i l.length with h' | h'
  · exact h'
  · rw [List.getElem?_eq_none h'] at h; cases h

theorem shape_move (P : Program σ ω ρ) (cfg cfg' : Config σ ω ρ) (t : Nat) (hm : Move cfg t cfg') (h : Shape P cfg) :
    Shape P cfg' := by
  have key : ∀ (th th' : Thread σ ω ρ), cfg.threads[t]? = some th → th'.calls = th.calls →
      th'.started ≤ th'.calls.length →
      ∀ (l : Lock) (s : σ) (tr : List Event), Shape P ⟨s, l, cfg.threads.set t th', tr⟩ := by
    intro th th' ht hcalls hb l s tr
    constructor
    · intro u
      show ((cfg.threads.set t th')[u]?).map Thread.calls = P[u]?
      rw [getElem?_set_of_some ht]
      by_cases e : t = u
      · subst e; simp only [↓reduceIte, Option.map_some, hcalls]; rw [← h.calls t, ht]; rfl
      · simp only [e, ↓reduceIte]; exact h.calls u
    · intro u thu hu
      change (cfg.threads.set t th')[u]? = some thu at hu
      rw [getElem?_set_of_some ht] at hu
      by_cases e : t = u
      · subst e; simp only [↓reduceIte, Option.some.injEq] at hu; subst hu; exact hb
      · simp only [e, ↓reduceIte] at hu; exact h.bound u thu hu
  cases hm with
  | skip => exact ⟨h.calls, h.bound⟩
  | acquire th c ht hc hcur hl =>
    refine key th _ ht ?_ ?_ _ _ _
    · rfl
    have := lt_of_getElem?_some hc
    simp only [Thread.started, Option.isSome_some, ↓reduceIte]; omega
  | micro th c f rem obs ht hc hcur =>
    refine key th _ ht ?_ ?_ _ _ _
    · rfl
    have := h.bound t th ht
    simpa [Thread.started, hcur] using this
  | release th c obs ht hc hcur =>
    refine key th _ ht ?_ ?_ _ _ _
    · rfl
    have := h.bound t th ht
    simp only [Thread.started, hcur, Option.isSome_some, ↓reduceIte] at this
    simpa [Thread.started] using this

/-! ### invariant 2: the lock word counts the threads inside (mutual exclusion) -/

def Thread.isR (th : Thread σ ω ρ) : Bool := decide (th.inside = some .read)
def Thread.isW (th : Thread σ ω ρ) : Bool := decide (th.inside = some .write)

structure LockOk (cfg : Config σ ω ρ) : Prop where
  readers : cfg.threads.countP Thread.isR = cfg.lock.readers
  writers : cfg.threads.countP Thread.isW = if cfg.lock.writer then 1 else 0
  excl : cfg.lock.writer = true → cfg.lock.readers = 0

theorem inside_of_cur_none {th : Thread σ ω ρ} (h : th.cur = none) : th.inside = none := by
  simp [Thread.inside, h]

theorem inside_of_cur_some {th : Thread σ ω ρ} {x} {c : RawCall σ ω ρ} (h : th.cur = some x)
    (hc : th.calls[th.done.length]? = some c) : th.inside = some c.mode := by
  simp [Thread.inside, h, hc]

theorem lockOk_init (P : Program σ ω ρ) (s0 : σ) : LockOk (Config.init P s0) := by
  have h0 : ∀ p : Thread σ ω ρ → Bool, (∀ th ∈ (Config.init P s0).threads, ¬ p th = true) →
      (Config.init P s0).threads.countP p = 0 := fun p h => List.countP_eq_zero.mpr h
  have hin : ∀ th ∈ (Config.init P s0).threads, th.inside = none := by
    intro th hth
    simp only [Config.init, List.mem_map] at hth
    obtain ⟨calls, _, rfl⟩ := hth
    exact inside_of_cur_none rfl
  constructor
  · rw [h0]; · rfl
    intro th hth; simp [Thread.isR, hin th hth]
  · rw [h0]; · rfl
    intro th hth; simp [Thread.isW, hin th hth]
  · intro h; cases h

theorem counts_set {l : List (Thread σ ω ρ)} {t : Nat} {th : Thread σ ω ρ} (ht : l[t]? = some th)
    (th' : Thread σ ω ρ) :
    List.countP Thread.isR (l.set t th') + (if th.inside = some .read then 1 else 0) =
      List.countP Thread.isR l + (if th'.inside = some .read then 1 else 0) ∧
    List.countP Thread.isW (l.set t th') + (if th.inside = some .write then 1 else 0) =
      List.countP Thread.isW l + (if th'.inside = some .write then 1 else 0) := by
  have er := countP_set_of_some Thread.isR ht th'
  have ew := countP_set_of_some Thread.isW ht th'
  simp only [Thread.isR, Thread.isW, decide_eq_true_eq] at er ew
  exact ⟨er, ew⟩

theorem lockOk_move (cfg cfg' : Config σ ω ρ) (t : Nat) (hm : Move cfg t cfg') (h : LockOk cfg) : LockOk cfg' := by
  obtain ⟨hr, hw, hx⟩ := h
  cases hm with
  | skip => exact ⟨hr, hw, hx⟩
  | acquire th c ht hc hcur hl =>
    have i0 : th.inside = none := inside_of_cur_none hcur
    have i1 : ({ th with cur := some (c.steps, []) } : Thread σ ω ρ).inside = some c.mode :=
      inside_of_cur_some (th := { th with cur := some (c.steps, []) }) rfl hc
    obtain ⟨er, ew⟩ := counts_set ht { th with cur := some (c.steps, []) }
    rw [i0, i1] at er ew
    cases hmode : c.mode with
    | read =>
      rw [hmode] at er ew hl
      simp [Lock.canAcquire] at hl er ew
      refine ⟨?_, ?_, ?_⟩
      · show List.countP _ (cfg.threads.set t _) = cfg.lock.readers + 1; omega
      · show List.countP _ (cfg.threads.set t _) = if cfg.lock.writer = true then 1 else 0; omega
      · intro hh; change cfg.lock.writer = true at hh; rw [hl] at hh; cases hh
    | write =>
      rw [hmode] at er ew hl
      simp [Lock.canAcquire] at hl er ew
      refine ⟨?_, ?_, ?_⟩
      · show List.countP _ (cfg.threads.set t _) = cfg.lock.readers; omega
      · show List.countP _ (cfg.threads.set t _) = 1
        simp only [hl.2, Bool.false_eq_true, ↓reduceIte] at hw; omega
      · intro _; exact hl.1
  | micro th c f rem obs ht hc hcur =>
    have i0 : th.inside = some c.mode := inside_of_cur_some hcur hc
    have i1 : ({ th with cur := some (rem, obs ++ [(f obs cfg.shared).2]) } : Thread σ ω ρ).inside = some c.mode :=
      inside_of_cur_some (th := { th with cur := some (rem, obs ++ [(f obs cfg.shared).2]) }) rfl hc
    obtain ⟨er, ew⟩ := counts_set ht { th with cur := some (rem, obs ++ [(f obs cfg.shared).2]) }
    rw [i0, i1] at er ew
    refine ⟨?_, ?_, hx⟩
    · show List.countP _ (cfg.threads.set t _) = cfg.lock.readers; omega
    · show List.countP _ (cfg.threads.set t _) = if cfg.lock.writer = true then 1 else 0; omega
  | release th c obs ht hc hcur =>
    have i0 : th.inside = some c.mode := inside_of_cur_some hcur hc
    have i1 : ({ th with cur := none, done := th.done ++ [c.result obs] } : Thread σ ω ρ).inside = none :=
      inside_of_cur_none rfl
    obtain ⟨er, ew⟩ := counts_set ht { th with cur := none, done := th.done ++ [c.result obs] }
    rw [i0, i1] at er ew
    cases hmode : c.mode with
    | read =>
      rw [hmode] at er ew
      simp at er ew
      have hwf : cfg.lock.writer = false := by
        cases hwr : cfg.lock.writer with
        | false => rfl
        | true => have := hx hwr; omega
      refine ⟨?_, ?_, ?_⟩
      · show List.countP _ (cfg.threads.set t _) = cfg.lock.readers - 1; omega
      · show List.countP _ (cfg.threads.set t _) = if cfg.lock.writer = true then 1 else 0; omega
      · intro hh; change cfg.lock.writer = true at hh; rw [hwf] at hh; cases hh
    | write =>
      rw [hmode] at er ew
      simp at er ew
      refine ⟨?_, ?_, ?_⟩
      · show List.countP _ (cfg.threads.set t _) = cfg.lock.readers; omega
      · show List.countP _ (cfg.threads.set t _) = 0
        cases hwr : cfg.lock.writer <;> simp only [hwr, Bool.false_eq_true, ↓reduceIte] at hw <;> omega
      · intro hh; cases hh

/-- a thread inside under the write lock: the lock word says so -/
theorem LockOk.writer_of_inside {cfg : Config σ ω ρ} (h : LockOk cfg) {t : Nat} {th : Thread σ ω ρ}
    (ht : cfg.threads[t]? = some th) (hi : th.inside = some .write) : cfg.lock.writer = true := by
  have := countP_pos_of_getElem? Thread.isW ht (by simp [Thread.isW, hi])
  have hw := h.writers
  cases hwr : cfg.lock.writer with
  | true => rfl
  | false => simp only [hwr, Bool.false_eq_true, ↓reduceIte] at hw; omega

/-- **mutual exclusion, pointwise**: a thread inside under the write lock is the only thread inside -/
theorem LockOk.alone_of_writer {cfg : Config σ ω ρ} (h : LockOk cfg) {t u : Nat} {th thu : Thread σ ω ρ} {m : Mode}
    (ht : cfg.threads[t]? = some th) (hi : th.inside = some .write)
    (hu : cfg.threads[u]? = some thu) (hiu : thu.inside = some m) : u = t := by
  have hwr := h.writer_of_inside ht hi
  have hw := h.writers
  simp only [hwr, ↓reduceIte] at hw
  cases m with
  | write =>
    exact unique_of_countP_le_one Thread.isW (by omega) hu ht (by simp [Thread.isW, hiu]) (by simp [Thread.isW, hi])
  | read =>
    have := countP_pos_of_getElem? Thread.isR hu (by simp [Thread.isR, hiu])
    have := h.readers
    have := h.excl hwr
    omega

/-- the lock word says "no writer": every thread inside is a reader -/
theorem LockOk.read_of_no_writer {cfg : Config σ ω ρ} (h : LockOk cfg) (hw : cfg.lock.writer = false)
    {t : Nat} {th : Thread σ ω ρ} {m : Mode} (ht : cfg.threads[t]? = some th) (hi : th.inside = some m) : m = .read := by
  cases m with
  | read => rfl
  | write => have := h.writer_of_inside ht hi; rw [hw] at this; cases this

/-- the lock word says "free": no thread is inside -/
theorem LockOk.nobody_of_free {cfg : Config σ ω ρ} (h : LockOk cfg) (hw : cfg.lock.writer = false)
    (hr : cfg.lock.readers = 0) {t : Nat} {th : Thread σ ω ρ} (ht : cfg.threads[t]? = some th) : th.inside = none := by
  cases hi : th.inside with
  | none => rfl
  | some m =>
    have hm := h.read_of_no_writer hw ht hi
    subst hm
    have := countP_pos_of_getElem? Thread.isR ht (by simp [Thread.isR, hi])
    have := h.readers
    omega

/-! ### invariant 3: the trace -/

/-- "`b` was not released before `a` was acquired", by positions in the trace -/
def NotBefore (tr : List Event) (a b : CallId) : Prop := ¬ tr.idxOf (.rel b.1 b.2) < tr.idxOf (.acq a.1 a.2)

structure LogOk (cfg : Config σ ω ρ) : Prop where
  acq : ∀ t k : Nat, Event.acq t k ∈ cfg.trace ↔ ∃ th, cfg.threads[t]? = some th ∧ k < th.started
  rel : ∀ t k : Nat, Event.rel t k ∈ cfg.trace ↔ ∃ th, cfg.threads[t]? = some th ∧ k < th.done.length
  ord : ∀ t k : Nat, Event.rel t k ∈ cfg.trace → cfg.trace.idxOf (.acq t k) < cfg.trace.idxOf (.rel t k)
  nodup : (acqLog cfg.trace).Nodup
  rt : (acqLog cfg.trace).Pairwise (NotBefore cfg.trace)

theorem logOk_init (P : Program σ ω ρ) (s0 : σ) : LogOk (Config.init P s0) := by
  constructor
  · intro t k
    constructor
    · intro h; simp [Config.init] at h
    · rintro ⟨th, ht, hk⟩
      obtain ⟨calls, _, rfl⟩ := init_threads_get P s0 t th ht
      simp [Thread.started] at hk
  · intro t k
    constructor
    · intro h; simp [Config.init] at h
    · rintro ⟨th, ht, hk⟩
      obtain ⟨calls, _, rfl⟩ := init_threads_get P s0 t th ht
      simp at hk
  · intro t k h; simp [Config.init] at h
  · simp [Config.init, acqLog]
  · simp [Config.init, acqLog]

theorem notBefore_snoc {tr : List Event} {e : Event} {a b : CallId} (ha : Event.acq a.1 a.2 ∈ tr)
    (h : NotBefore tr a b) : NotBefore (tr ++ [e]) a b := by
  unfold NotBefore at *
  rw [idxOf_snoc_of_mem ha]
  by_cases hb : Event.rel b.1 b.2 ∈ tr
  · rw [idxOf_snoc_of_mem hb]; exact h
  · have := le_idxOf_snoc_of_not_mem (x := e) hb
    have := idxOf_lt_of_mem ha
    omega

theorem rt_snoc {tr : List Event} {e : Event} (h : (acqLog tr).Pairwise (NotBefore tr)) :
    (acqLog tr).Pairwise (NotBefore (tr ++ [e])) :=
  h.imp_of_mem (fun {a _} ha _ hab => notBefore_snoc (mem_acqLog.mp (show (a.1, a.2) ∈ acqLog tr from ha)) hab)

/-- an old release keeps its place, and so does its acquire -/
theorem ord_snoc {tr : List Event} {e : Event} {t k : Nat} (hin : Event.rel t k ∈ tr)
    (h : tr.idxOf (.acq t k) < tr.idxOf (.rel t k)) :
    (tr ++ [e]).idxOf (.acq t k) < (tr ++ [e]).idxOf (.rel t k) := by
  have h1 := idxOf_lt_of_mem hin
  have hacq : Event.acq t k ∈ tr := List.idxOf_lt_length_iff.mp (by omega)
  rw [idxOf_snoc_of_mem hin, idxOf_snoc_of_mem hacq]; exact h

/-- the scheduled thread's record changes, no acquire happens: what has to be checked -/
theorem logOk_of_no_acq (cfg : Config σ ω ρ) (h : LogOk cfg) (t : Nat) (th th' : Thread σ ω ρ) (e : Event)
    (ht : cfg.threads[t]? = some th) (hs : th'.started = th.started) (hd : th.done.length ≤ th'.done.length)
    (hd' : th'.done.length ≤ th.started)
    (he : ∀ u k, e ≠ .acq u k)
    (hr : ∀ u k, e = .rel u k ↔ (u = t ∧ th.done.length ≤ k ∧ k < th'.done.length))
    (l : Lock) (s : σ) : LogOk ⟨s, l, cfg.threads.set t th', cfg.trace ++ [e]⟩ := by
  have hlog : acqLog (cfg.trace ++ [e]) = acqLog cfg.trace := by
    rw [acqLog_append]; cases e <;> first | exact absurd rfl (he _ _) | simp [acqLog]
  have hrel : ∀ u k, Event.rel u k ∈ cfg.trace ++ [e] ↔
      ∃ thu, (cfg.threads.set t th')[u]? = some thu ∧ k < thu.done.length := by
    intro u k
    rw [getElem?_set_of_some ht]
    simp only [List.mem_append, List.mem_singleton]
    rw [h.rel u k, eq_comm, hr u k]
    by_cases eq : t = u
    · subst eq
      simp only [↓reduceIte, ht, Option.some.injEq, exists_eq_left', true_and]
      omega
    · simp only [eq, ↓reduceIte]
      constructor
      · rintro (h1 | ⟨e1, _⟩)
        · exact h1
        · exact absurd e1.symm eq
      · exact Or.inl
  constructor
  · intro u k
    show Event.acq u k ∈ cfg.trace ++ [e] ↔ ∃ thu, (cfg.threads.set t th')[u]? = some thu ∧ k < thu.started
    rw [getElem?_set_of_some ht]
    have : Event.acq u k ∈ cfg.trace ++ [e] ↔ Event.acq u k ∈ cfg.trace := by
      simp only [List.mem_append, List.mem_singleton]
      exact ⟨fun h => h.elim id (fun h => absurd h.symm (he u k)), Or.inl⟩
    rw [this, h.acq u k]
    by_cases eq : t = u
    · subst eq; simp only [↓reduceIte, ht, Option.some.injEq, exists_eq_left', hs]
    · simp only [eq, ↓reduceIte]
  · exact hrel
  · intro u k hm
    show (cfg.trace ++ [e]).idxOf (.acq u k) < (cfg.trace ++ [e]).idxOf (.rel u k)
    by_cases hold : Event.rel u k ∈ cfg.trace
    · exact ord_snoc hold (h.ord u k hold)
    · have hm' : Event.rel u k ∈ cfg.trace ++ [e] := hm
      simp only [List.mem_append, List.mem_singleton, hold, false_or] at hm'
      obtain ⟨rfl, hk1, hk2⟩ := (hr u k).mp hm'.symm
      have hacq : Event.acq u k ∈ cfg.trace := (h.acq u k).mpr ⟨th, ht, by omega⟩
      rw [idxOf_snoc_of_mem hacq]
      have := le_idxOf_snoc_of_not_mem (x := e) hold
      have := idxOf_lt_of_mem hacq
      omega
  · show (acqLog (cfg.trace ++ [e])).Nodup
    rw [hlog]; exact h.nodup
  · show (acqLog (cfg.trace ++ [e])).Pairwise (NotBefore (cfg.trace ++ [e]))
    rw [hlog]; exact rt_snoc h.rt

theorem logOk_move (cfg cfg' : Config σ ω ρ) (t : Nat) (hm : Move cfg t cfg') (h : LogOk cfg) : LogOk cfg' := by
  cases hm with
  | skip =>
    have hlog : acqLog (cfg.trace ++ [Event.skip t]) = acqLog cfg.trace := by rw [acqLog_append]; simp [acqLog]
    constructor
    · intro u k
      show Event.acq u k ∈ cfg.trace ++ [Event.skip t] ↔ _
      rw [← h.acq u k]; simp
    · intro u k
      show Event.rel u k ∈ cfg.trace ++ [Event.skip t] ↔ _
      rw [← h.rel u k]; simp
    · intro u k hm
      have hold : Event.rel u k ∈ cfg.trace := by simpa using hm
      exact ord_snoc hold (h.ord u k hold)
    · show (acqLog (cfg.trace ++ [Event.skip t])).Nodup
      rw [hlog]; exact h.nodup
    · show (acqLog (cfg.trace ++ [Event.skip t])).Pairwise (NotBefore (cfg.trace ++ [Event.skip t]))
      rw [hlog]; exact rt_snoc h.rt
  | micro th c f rem obs ht hc hcur =>
    apply logOk_of_no_acq cfg h t th _ _ ht
    · simp [Thread.started, hcur]
    · exact Nat.le_refl _
    · simp [Thread.started]
    · intro u k e; cases e
    · intro u k
      constructor
      · intro e; cases e
      · rintro ⟨_, h1, h2⟩; simp at h2; omega
  | release th c obs ht hc hcur =>
    apply logOk_of_no_acq cfg h t th _ _ ht
    · simp [Thread.started, hcur]
    · simp
    · simp [Thread.started, hcur]
    · intro u k e; cases e
    · intro u k
      simp only [Event.rel.injEq, List.length_append, List.length_cons, List.length_nil]
      omega
  | acquire th c ht hc hcur hl =>
    have hst : th.started = th.done.length := by simp [Thread.started, hcur]
    have hnew : Event.acq t th.done.length ∉ cfg.trace := by
      intro hin
      obtain ⟨th0, h0, hk⟩ := (h.acq t th.done.length).mp hin
      rw [ht] at h0; cases h0; omega
    have hnrel : Event.rel t th.done.length ∉ cfg.trace := by
      intro hin
      obtain ⟨th0, h0, hk⟩ := (h.rel t th.done.length).mp hin
      rw [ht] at h0; cases h0; omega
    have hlog : acqLog (cfg.trace ++ [Event.acq t th.done.length]) = acqLog cfg.trace ++ [(t, th.done.length)] := by
      rw [acqLog_append]; rfl
    constructor
    · intro u k
      show Event.acq u k ∈ cfg.trace ++ [Event.acq t th.done.length] ↔
        ∃ thu, (cfg.threads.set t { th with cur := some (c.steps, []) })[u]? = some thu ∧ k < thu.started
      rw [getElem?_set_of_some ht]
      simp only [List.mem_append, List.mem_singleton, Event.acq.injEq]
      rw [h.acq u k]
      by_cases eq : t = u
      · subst eq
        simp only [↓reduceIte, ht, Option.some.injEq, exists_eq_left', true_and, Thread.started, hcur,
          Option.isSome_none, Bool.false_eq_true, Option.isSome_some]
        omega
      · simp only [eq, ↓reduceIte]
        constructor
        · rintro (h1 | ⟨e1, _⟩)
          · exact h1
          · exact absurd e1.symm eq
        · exact Or.inl
    · intro u k
      show Event.rel u k ∈ cfg.trace ++ [Event.acq t th.done.length] ↔
        ∃ thu, (cfg.threads.set t { th with cur := some (c.steps, []) })[u]? = some thu ∧ k < thu.done.length
      rw [getElem?_set_of_some ht]
      have : Event.rel u k ∈ cfg.trace ++ [Event.acq t th.done.length] ↔ Event.rel u k ∈ cfg.trace := by simp
      rw [this, h.rel u k]
      by_cases eq : t = u
      · subst eq; simp only [↓reduceIte, ht, Option.some.injEq, exists_eq_left']
      · simp only [eq, ↓reduceIte]
    · intro u k hm
      have hold : Event.rel u k ∈ cfg.trace := by simpa using hm
      exact ord_snoc hold (h.ord u k hold)
    · show (acqLog (cfg.trace ++ [Event.acq t th.done.length])).Nodup
      rw [hlog]
      refine List.nodup_append.mpr ⟨h.nodup, by simp, ?_⟩
      intro a ha b hb e
      simp only [List.mem_singleton] at hb
      subst hb; subst e
      exact hnew (mem_acqLog.mp ha)
    · show (acqLog (cfg.trace ++ [Event.acq t th.done.length])).Pairwise
        (NotBefore (cfg.trace ++ [Event.acq t th.done.length]))
      rw [hlog]
      refine List.pairwise_append.mpr ⟨rt_snoc h.rt, List.pairwise_singleton _ _, ?_⟩
      intro a ha b hb
      simp only [List.mem_singleton] at hb
      subst hb
      have hain : Event.acq a.1 a.2 ∈ cfg.trace := mem_acqLog.mp (show (a.1, a.2) ∈ acqLog cfg.trace from ha)
      unfold NotBefore
      rw [idxOf_snoc_of_mem hain]
      have := le_idxOf_snoc_of_not_mem (x := Event.acq t th.done.length) hnrel
      have := idxOf_lt_of_mem hain
      show ¬ List.idxOf (Event.rel t th.done.length) _ < _
      omega

/-! ### invariant 4: the simulation by the sequential run in acquire order -/

structure Sim (P : Program σ ω ρ) (s0 : σ) (cfg : Config σ ω ρ) : Prop where
  /-- nobody writes: the shared state is the sequential one -/
  free : cfg.lock.writer = false → cfg.shared = (seqRun P s0 (acqLog cfg.trace)).1
  /-- a writer is inside: what it has still to do leads to the sequential state -/
  wr : ∀ (t : Nat) th rem obs c, cfg.threads[t]? = some th → th.cur = some (rem, obs) →
    th.calls[th.done.length]? = some c → c.mode = .write →
    (runSteps rem obs cfg.shared).1 = (seqRun P s0 (acqLog cfg.trace)).1
  /-- a thread inside, finished alone from here, gets the sequential result of its call -/
  res : ∀ (t : Nat) th rem obs c, cfg.threads[t]? = some th → th.cur = some (rem, obs) →
    th.calls[th.done.length]? = some c →
    ((t, th.done.length), c.result (runSteps rem obs cfg.shared).2) ∈ (seqRun P s0 (acqLog cfg.trace)).2
  /-- completed calls have their sequential results -/
  done : ∀ (t : Nat) th k r, cfg.threads[t]? = some th → th.done[k]? = some r →
    ((t, k), r) ∈ (seqRun P s0 (acqLog cfg.trace)).2
  /-- what a reader has still to do are reads -/
  ro : ∀ (t : Nat) th rem obs c, cfg.threads[t]? = some th → th.cur = some (rem, obs) →
    th.calls[th.done.length]? = some c → c.mode = .read → ∀ f ∈ rem, ReadOnly f
  /-- the sequential run produced one result per acquired call, in acquire order -/
  keys : (seqRun P s0 (acqLog cfg.trace)).2.map (·.1) = acqLog cfg.trace

theorem sim_init (P : Program σ ω ρ) (s0 : σ) : Sim P s0 (Config.init P s0) := by
  have hcur : ∀ (t : Nat) th, (Config.init P s0).threads[t]? = some th → th.cur = none ∧ th.done = [] := by
    intro t th h
    obtain ⟨calls, _, rfl⟩ := init_threads_get P s0 t th h
    exact ⟨rfl, rfl⟩
  constructor
  · intro _; rfl
  · intro t th rem obs c ht hc; rw [(hcur t th ht).1] at hc; cases hc
  · intro t th rem obs c ht hc; rw [(hcur t th ht).1] at hc; cases hc
  · intro t th k r ht hk; rw [(hcur t th ht).2] at hk; simp at hk
  · intro t th rem obs c ht hc; rw [(hcur t th ht).1] at hc; cases hc
  · rfl

theorem Shape.callAt {P : Program σ ω ρ} {cfg : Config σ ω ρ} (h : Shape P cfg) {t : Nat} {th : Thread σ ω ρ}
    (ht : cfg.threads[t]? = some th) (k : Nat) : callAt P (t, k) = th.calls[k]? := by
  have := h.calls t
  rw [ht] at this
  simp only [Option.map_some] at this
  simp [RWLock.callAt, ← this]

theorem sim_move (P : Program σ ω ρ) (s0 : σ) (hP : Program.Disciplined P) (cfg cfg' : Config σ ω ρ) (t : Nat)
    (hm : Move cfg t cfg') (hsh : Shape P cfg) (hlk : LockOk cfg) (h : Sim P s0 cfg) : Sim P s0 cfg' := by
  cases hm with
  | skip =>
    have hlog : acqLog (cfg.trace ++ [Event.skip t]) = acqLog cfg.trace := by rw [acqLog_append]; simp [acqLog]
    constructor
    · show _ → cfg.shared = (seqRun P s0 (acqLog (cfg.trace ++ [Event.skip t]))).1
      rw [hlog]; exact h.free
    · show ∀ (u : Nat) th rem obs c, cfg.threads[u]? = some th → _ → _ → _ →
        (runSteps rem obs cfg.shared).1 = (seqRun P s0 (acqLog (cfg.trace ++ [Event.skip t]))).1
      rw [hlog]; exact h.wr
    · show ∀ (u : Nat) th rem obs (c : RawCall σ ω ρ), cfg.threads[u]? = some th → _ → _ →
        (_, c.result (runSteps rem obs cfg.shared).2) ∈ (seqRun P s0 (acqLog (cfg.trace ++ [Event.skip t]))).2
      rw [hlog]; exact h.res
    · show ∀ (u : Nat) th k r, cfg.threads[u]? = some th → _ →
        (_, r) ∈ (seqRun P s0 (acqLog (cfg.trace ++ [Event.skip t]))).2
      rw [hlog]; exact h.done
    · exact h.ro
    · show (seqRun P s0 (acqLog (cfg.trace ++ [Event.skip t]))).2.map (·.1) = acqLog (cfg.trace ++ [Event.skip t])
      rw [hlog]; exact h.keys
  | acquire th c ht hc hcur hl =>
    have hlog : acqLog (cfg.trace ++ [Event.acq t th.done.length]) = acqLog cfg.trace ++ [(t, th.done.length)] := by
      rw [acqLog_append]; rfl
    have hcall : callAt P (t, th.done.length) = some c := by rw [hsh.callAt ht]; exact hc
    have hQ := seqRun_snoc_of_call P s0 (acqLog cfg.trace) (t, th.done.length) c hcall
    -- the lock was not held by a writer
    have hnw : cfg.lock.writer = false := by
      cases hmode : c.mode <;> rw [hmode] at hl <;> simp [Lock.canAcquire] at hl
      · exact hl
      · exact hl.2
    have hs := h.free hnw
    have hdisc : RawCall.Disciplined c := by
      have hPt : P[t]? = some th.calls := by
        have := hsh.calls t; rw [ht] at this; exact this.symm
      exact hP th.calls (List.mem_of_getElem? hPt) c (List.mem_of_getElem? hc)
    constructor
    · show (cfg.lock.acquire c.mode).writer = false →
        cfg.shared = (seqRun P s0 (acqLog (cfg.trace ++ [Event.acq t th.done.length]))).1
      intro hw'
      have hmode : c.mode = .read := by
        cases hmode : c.mode with
        | read => rfl
        | write => rw [hmode] at hw'; simp [Lock.acquire] at hw'
      rw [hlog, hQ, ← hs]
      exact (runSteps_readOnly c.steps (hdisc hmode) [] cfg.shared).symm
    · show ∀ (u : Nat) thu rem obs cu, (cfg.threads.set t { th with cur := some (c.steps, []) })[u]? = some thu → _ → _ → _ →
        (runSteps rem obs cfg.shared).1 = (seqRun P s0 (acqLog (cfg.trace ++ [Event.acq t th.done.length]))).1
      intro u thu rem obs cu hu hcu hcc hmode
      rw [getElem?_set_of_some ht] at hu
      by_cases eq : t = u
      · subst eq
        simp only [↓reduceIte, Option.some.injEq] at hu
        subst hu
        simp only [Option.some.injEq, Prod.mk.injEq] at hcu
        obtain ⟨rfl, rfl⟩ := hcu
        rw [hlog, hQ, ← hs]; rfl
      · simp only [eq, ↓reduceIte] at hu
        have := hlk.writer_of_inside hu (by rw [inside_of_cur_some hcu hcc, hmode])
        rw [hnw] at this; cases this
    · show ∀ (u : Nat) thu rem obs (cu : RawCall σ ω ρ), (cfg.threads.set t { th with cur := some (c.steps, []) })[u]? = some thu → _ → _ →
        (_, cu.result (runSteps rem obs cfg.shared).2) ∈
          (seqRun P s0 (acqLog (cfg.trace ++ [Event.acq t th.done.length]))).2
      intro u thu rem obs cu hu hcu hcc
      rw [getElem?_set_of_some ht] at hu
      rw [hlog, hQ]
      by_cases eq : t = u
      · subst eq
        simp only [↓reduceIte, Option.some.injEq] at hu
        subst hu
        simp only [Option.some.injEq, Prod.mk.injEq] at hcu
        obtain ⟨rfl, rfl⟩ := hcu
        have : cu = c := by
          have : some cu = some c := by rw [← hcc, ← hc]
          exact Option.some.inj this
        subst this
        rw [← hs]
        exact List.mem_append_right _ (List.mem_singleton.mpr rfl)
      · simp only [eq, ↓reduceIte] at hu
        exact List.mem_append_left _ (h.res u thu rem obs cu hu hcu hcc)
    · show ∀ (u : Nat) thu k r, (cfg.threads.set t { th with cur := some (c.steps, []) })[u]? = some thu → _ →
        (_, r) ∈ (seqRun P s0 (acqLog (cfg.trace ++ [Event.acq t th.done.length]))).2
      intro u thu k r hu hk
      rw [getElem?_set_of_some ht] at hu
      rw [hlog, hQ]
      by_cases eq : t = u
      · subst eq
        simp only [↓reduceIte, Option.some.injEq] at hu
        subst hu
        exact List.mem_append_left _ (h.done t th k r ht hk)
      · simp only [eq, ↓reduceIte] at hu
        exact List.mem_append_left _ (h.done u thu k r hu hk)
    · show ∀ (u : Nat) thu rem obs cu, (cfg.threads.set t { th with cur := some (c.steps, []) })[u]? = some thu → _
      intro u thu rem obs cu hu hcu hcc hmode
      rw [getElem?_set_of_some ht] at hu
      by_cases eq : t = u
      · subst eq
        simp only [↓reduceIte, Option.some.injEq] at hu
        subst hu
        simp only [Option.some.injEq, Prod.mk.injEq] at hcu
        obtain ⟨rfl, rfl⟩ := hcu
        have : cu = c := by
          have : some cu = some c := by rw [← hcc, ← hc]
          exact Option.some.inj this
        subst this
        exact hdisc hmode
      · simp only [eq, ↓reduceIte] at hu
        exact h.ro u thu rem obs cu hu hcu hcc hmode
    · show (seqRun P s0 (acqLog (cfg.trace ++ [Event.acq t th.done.length]))).2.map (·.1) =
        acqLog (cfg.trace ++ [Event.acq t th.done.length])
      rw [hlog, hQ]
      simp [h.keys]
  | micro th c f rem obs ht hc hcur =>
    have hlog : acqLog (cfg.trace ++ [Event.step t]) = acqLog cfg.trace := by rw [acqLog_append]; simp [acqLog]
    have hin : th.inside = some c.mode := inside_of_cur_some hcur hc
    -- another thread inside, or the lock word without writer: the micro-step was a read
    have hA : ∀ (u : Nat) thu x cu, t ≠ u → cfg.threads[u]? = some thu → thu.cur = some x →
        thu.calls[thu.done.length]? = some cu → (f obs cfg.shared).1 = cfg.shared := by
      intro u thu x cu hne hu hcu hcc
      cases hmode : c.mode with
      | read => exact h.ro t th (f :: rem) obs c ht hcur hc hmode f (by simp) obs cfg.shared
      | write =>
        rw [hmode] at hin
        exact absurd (hlk.alone_of_writer ht hin hu (inside_of_cur_some hcu hcc)).symm hne
    have hB : cfg.lock.writer = false → (f obs cfg.shared).1 = cfg.shared := by
      intro hw
      have hmode := hlk.read_of_no_writer hw ht hin
      exact h.ro t th (f :: rem) obs c ht hcur hc hmode f (by simp) obs cfg.shared
    constructor
    · show cfg.lock.writer = false → (f obs cfg.shared).1 = (seqRun P s0 (acqLog (cfg.trace ++ [Event.step t]))).1
      intro hw
      rw [hlog, hB hw]; exact h.free hw
    · show ∀ (u : Nat) thu rem' obs' cu,
        (cfg.threads.set t { th with cur := some (rem, obs ++ [(f obs cfg.shared).2]) })[u]? = some thu → _ → _ → _ →
        (runSteps rem' obs' (f obs cfg.shared).1).1 = (seqRun P s0 (acqLog (cfg.trace ++ [Event.step t]))).1
      intro u thu rem' obs' cu hu hcu hcc hmode
      rw [getElem?_set_of_some ht] at hu
      rw [hlog]
      by_cases eq : t = u
      · subst eq
        simp only [↓reduceIte, Option.some.injEq] at hu
        subst hu
        simp only [Option.some.injEq, Prod.mk.injEq] at hcu
        obtain ⟨rfl, rfl⟩ := hcu
        exact h.wr t th (f :: rem) obs cu ht hcur hcc hmode
      · simp only [eq, ↓reduceIte] at hu
        rw [hA u thu _ cu eq hu hcu hcc]
        exact h.wr u thu rem' obs' cu hu hcu hcc hmode
    · show ∀ (u : Nat) thu rem' obs' (cu : RawCall σ ω ρ),
        (cfg.threads.set t { th with cur := some (rem, obs ++ [(f obs cfg.shared).2]) })[u]? = some thu → _ → _ →
        (_, cu.result (runSteps rem' obs' (f obs cfg.shared).1).2) ∈
          (seqRun P s0 (acqLog (cfg.trace ++ [Event.step t]))).2
      intro u thu rem' obs' cu hu hcu hcc
      rw [getElem?_set_of_some ht] at hu
      rw [hlog]
      by_cases eq : t = u
      · subst eq
        simp only [↓reduceIte, Option.some.injEq] at hu
        subst hu
        simp only [Option.some.injEq, Prod.mk.injEq] at hcu
        obtain ⟨rfl, rfl⟩ := hcu
        exact h.res t th (f :: rem) obs cu ht hcur hcc
      · simp only [eq, ↓reduceIte] at hu
        rw [hA u thu _ cu eq hu hcu hcc]
        exact h.res u thu rem' obs' cu hu hcu hcc
    · show ∀ (u : Nat) thu k r,
        (cfg.threads.set t { th with cur := some (rem, obs ++ [(f obs cfg.shared).2]) })[u]? = some thu → _ →
        (_, r) ∈ (seqRun P s0 (acqLog (cfg.trace ++ [Event.step t]))).2
      intro u thu k r hu hk
      rw [getElem?_set_of_some ht] at hu
      rw [hlog]
      by_cases eq : t = u
      · subst eq
        simp only [↓reduceIte, Option.some.injEq] at hu
        subst hu
        exact h.done t th k r ht hk
      · simp only [eq, ↓reduceIte] at hu
        exact h.done u thu k r hu hk
    · show ∀ (u : Nat) thu rem' obs' cu,
        (cfg.threads.set t { th with cur := some (rem, obs ++ [(f obs cfg.shared).2]) })[u]? = some thu → _
      intro u thu rem' obs' cu hu hcu hcc hmode
      rw [getElem?_set_of_some ht] at hu
      by_cases eq : t = u
      · subst eq
        simp only [↓reduceIte, Option.some.injEq] at hu
        subst hu
        simp only [Option.some.injEq, Prod.mk.injEq] at hcu
        obtain ⟨rfl, rfl⟩ := hcu
        intro g hg
        exact h.ro t th (f :: rem) obs cu ht hcur hcc hmode g (by simp [hg])
      · simp only [eq, ↓reduceIte] at hu
        exact h.ro u thu rem' obs' cu hu hcu hcc hmode
    · show (seqRun P s0 (acqLog (cfg.trace ++ [Event.step t]))).2.map (·.1) = acqLog (cfg.trace ++ [Event.step t])
      rw [hlog]; exact h.keys
  | release th c obs ht hc hcur =>
    have hlog : acqLog (cfg.trace ++ [Event.rel t th.done.length]) = acqLog cfg.trace := by
      rw [acqLog_append]; simp [acqLog]
    have hin : th.inside = some c.mode := inside_of_cur_some hcur hc
    constructor
    · show (cfg.lock.release c.mode).writer = false →
        cfg.shared = (seqRun P s0 (acqLog (cfg.trace ++ [Event.rel t th.done.length]))).1
      intro hw'
      rw [hlog]
      cases hmode : c.mode with
      | write => exact h.wr t th [] obs c ht hcur hc hmode
      | read =>
        rw [hmode] at hw'
        exact h.free hw'
    · show ∀ (u : Nat) thu rem' obs' cu,
        (cfg.threads.set t { th with cur := none, done := th.done ++ [c.result obs] })[u]? = some thu → _ → _ → _ →
        (runSteps rem' obs' cfg.shared).1 = (seqRun P s0 (acqLog (cfg.trace ++ [Event.rel t th.done.length]))).1
      intro u thu rem' obs' cu hu hcu hcc hmode
      rw [getElem?_set_of_some ht] at hu
      rw [hlog]
      by_cases eq : t = u
      · subst eq
        simp only [↓reduceIte, Option.some.injEq] at hu
        subst hu
        cases hcu
      · simp only [eq, ↓reduceIte] at hu
        exact h.wr u thu rem' obs' cu hu hcu hcc hmode
    · show ∀ (u : Nat) thu rem' obs' (cu : RawCall σ ω ρ),
        (cfg.threads.set t { th with cur := none, done := th.done ++ [c.result obs] })[u]? = some thu → _ → _ →
        (_, cu.result (runSteps rem' obs' cfg.shared).2) ∈
          (seqRun P s0 (acqLog (cfg.trace ++ [Event.rel t th.done.length]))).2
      intro u thu rem' obs' cu hu hcu hcc
      rw [getElem?_set_of_some ht] at hu
      rw [hlog]
      by_cases eq : t = u
      · subst eq
        simp only [↓reduceIte, Option.some.injEq] at hu
        subst hu
        cases hcu
      · simp only [eq, ↓reduceIte] at hu
        exact h.res u thu rem' obs' cu hu hcu hcc
    · show ∀ (u : Nat) thu k r,
        (cfg.threads.set t { th with cur := none, done := th.done ++ [c.result obs] })[u]? = some thu → _ →
        (_, r) ∈ (seqRun P s0 (acqLog (cfg.trace ++ [Event.rel t th.done.length]))).2
      intro u thu k r hu hk
      rw [getElem?_set_of_some ht] at hu
      rw [hlog]
      by_cases eq : t = u
      · subst eq
        simp only [↓reduceIte, Option.some.injEq] at hu
        subst hu
        simp only [List.getElem?_append] at hk
        split at hk
        · exact h.done t th k r ht hk
        · rename_i hge
          have hk0 : k = th.done.length := by
            rcases Nat.lt_or_ge (k - th.done.length) 1 with h1 | h1
            · omega
            · rw [List.getElem?_eq_none (by simpa using h1)] at hk; cases hk
          subst hk0
          simp only [Nat.sub_self, List.getElem?_cons_zero, Option.some.injEq] at hk
          subst hk
          exact h.res t th [] obs c ht hcur hc
      · simp only [eq, ↓reduceIte] at hu
        exact h.done u thu k r hu hk
    · show ∀ (u : Nat) thu rem' obs' cu,
        (cfg.threads.set t { th with cur := none, done := th.done ++ [c.result obs] })[u]? = some thu → _
      intro u thu rem' obs' cu hu hcu hcc hmode
      rw [getElem?_set_of_some ht] at hu
      by_cases eq : t = u
      · subst eq
        simp only [↓reduceIte, Option.some.injEq] at hu
        subst hu
        cases hcu
      · simp only [eq, ↓reduceIte] at hu
        exact h.ro u thu rem' obs' cu hu hcu hcc hmode
    · show (seqRun P s0 (acqLog (cfg.trace ++ [Event.rel t th.done.length]))).2.map (·.1) =
        acqLog (cfg.trace ++ [Event.rel t th.done.length])
      rw [hlog]; exact h.keys

/-! ### all four, for every schedule -/

structure Reach (P : Program σ ω ρ) (s0 : σ) (cfg : Config σ ω ρ) : Prop where
  shape : Shape P cfg
  lock : LockOk cfg
  log : LogOk cfg
  sim : Sim P s0 cfg

theorem reach_run (P : Program σ ω ρ) (s0 : σ) (hP : Program.Disciplined P) (sched : List Nat) :
    Reach P s0 (run P s0 sched) := by
  apply run_induction (Reach P s0)
  · exact ⟨shape_init P s0, lockOk_init P s0, logOk_init P s0, sim_init P s0⟩
  · intro cfg t h
    have hm := step_move cfg t
    exact ⟨shape_move P _ _ t hm h.shape, lockOk_move _ _ t hm h.lock, logOk_move _ _ t hm h.log,
      sim_move P s0 hP _ _ t hm h.shape h.lock h.sim⟩

/-- shape, lock and trace invariants do not need the discipline -/
theorem reach_run_undisciplined (P : Program σ ω ρ) (s0 : σ) (sched : List Nat) :
    Shape P (run P s0 sched) ∧ LockOk (run P s0 sched) ∧ LogOk (run P s0 sched) := by
  apply run_induction (fun cfg => Shape P cfg ∧ LockOk cfg ∧ LogOk cfg)
  · exact ⟨shape_init P s0, lockOk_init P s0, logOk_init P s0⟩
  · intro cfg t h
    have hm := step_move cfg t
    exact ⟨shape_move P _ _ t hm h.1, lockOk_move _ _ t hm h.2.1, logOk_move _ _ t hm h.2.2⟩

theorem move_trace_length {cfg cfg' : Config σ ω ρ} {t : Nat} (hm : Move cfg t cfg') :
    cfg'.trace.length = cfg.trace.length + 1 := by
  cases hm <;> simp

theorem trace_length_run (P : Program σ ω ρ) (s0 : σ) (sched : List Nat) :
    (run P s0 sched).trace.length = sched.length := by
  unfold run
  have : (Config.init P s0).trace.length = 0 := rfl
  generalize Config.init P s0 = c at this
  suffices ∀ (c : Config σ ω ρ), (sched.foldl Config.step c).trace.length = c.trace.length + sched.length by
    rw [this c]; omega
  clear this c
  induction sched with
  | nil => intro c; rfl
  | cons t ts ih =>
    intro c
    simp only [List.foldl_cons, ih, List.length_cons]
    have : (c.step t).trace.length = c.trace.length + 1 := move_trace_length (step_move c t)
    omega

/-! ### the calls of a program -/

theorem mem_allCalls (P : Program σ ω ρ) (t k : Nat) :
    (t, k) ∈ allCalls P ↔ ∃ calls, P[t]? = some calls ∧ k < calls.length := by
  simp only [allCalls, List.mem_flatMap, List.mem_range, List.mem_map, Prod.mk.injEq]
  constructor
  · rintro ⟨t', ht', k', hk', rfl, rfl⟩
    rw [List.getElem?_eq_getElem ht'] at hk'
    exact ⟨P[t'], List.getElem?_eq_getElem ht', by simpa using hk'⟩
  · rintro ⟨calls, hc, hk⟩
    refine ⟨t, lt_of_getElem?_some hc, k, ?_, rfl, rfl⟩
    rw [hc]; exact hk

theorem nodup_allCalls (P : Program σ ω ρ) : (allCalls P).Nodup := by
  unfold allCalls List.Nodup
  rw [List.pairwise_flatMap]
  constructor
  · intro t _
    rw [List.pairwise_map]
    exact (List.nodup_range (n := (P[t]?.getD []).length)).imp (fun h e => h (Prod.mk.inj e).2)
  · exact (List.nodup_range (n := P.length)).imp (fun {a b} h x hx y hy e => by
      simp only [List.mem_map] at hx hy
      obtain ⟨_, _, rfl⟩ := hx
      obtain ⟨_, _, rfl⟩ := hy
      exact h (Prod.mk.inj e).1)

/-- a table with distinct keys that contains, for every key, the value a function gives it, is that
    function tabulated -/
theorem table_eq {α β} (tbl : List (α × β)) (order : List α) (f : α → Option β)
    (hk : tbl.map (·.1) = order) (hn : order.Nodup) (hf : ∀ a ∈ order, ∃ b, f a = some b ∧ (a, b) ∈ tbl) :
    tbl.map (fun p => (p.1, some p.2)) = order.map (fun a => (a, f a)) := by
  induction tbl generalizing order with
  | nil => subst hk; rfl
  | cons p tl ih =>
    obtain ⟨a0, b0⟩ := p
    subst hk
    simp only [List.map_cons, List.nodup_cons] at hn
    have hnot : ∀ b, (a0, b) ∉ tl := fun b hb => hn.1 (List.mem_map.mpr ⟨(a0, b), hb, rfl⟩)
    simp only [List.map_cons, List.cons.injEq, Prod.mk.injEq, true_and]
    constructor
    · obtain ⟨b, hb, hm⟩ := hf a0 (by simp)
      rcases List.mem_cons.mp hm with e | hm
      · rw [hb]; cases e; rfl
      · exact absurd hm (hnot b)
    · apply ih _ rfl hn.2
      intro a ha
      obtain ⟨b, hb, hm⟩ := hf a (by simp [ha])
      refine ⟨b, hb, ?_⟩
      rcases List.mem_cons.mp hm with e | hm
      · cases e; exact absurd ha hn.1
      · exact hm

/-! ### complete runs -/

theorem complete_thread {cfg : Config σ ω ρ} (hc : cfg.Complete) {t : Nat} {th : Thread σ ω ρ}
    (ht : cfg.threads[t]? = some th) : th.cur = none ∧ th.calls.length ≤ th.done.length := by
  have := List.all_eq_true.mp hc th (List.mem_of_getElem? ht)
  simp only [Thread.finished, Bool.and_eq_true, Option.isNone_iff_eq_none, decide_eq_true_eq] at this
  exact this

/-- **serializability of complete runs**, machine level (programs that keep the discipline) -/
theorem serializable_raw (P : Program σ ω ρ) (s0 : σ) (hP : Program.Disciplined P) (sched : List Nat)
    (hc : (run P s0 sched).Complete) :
    (acqLog (run P s0 sched).trace).Perm (allCalls P) ∧
    (run P s0 sched).shared = (seqRun P s0 (acqLog (run P s0 sched).trace)).1 ∧
    (seqRun P s0 (acqLog (run P s0 sched).trace)).2.map (fun p => (p.1, some p.2)) =
      (acqLog (run P s0 sched).trace).map (fun id => (id, (run P s0 sched).resultOf id)) ∧
    (acqLog (run P s0 sched).trace).Pairwise
      (fun a b => ¬ (run P s0 sched).relTime b < (run P s0 sched).acqTime a) ∧
    (∀ id ∈ allCalls P, (run P s0 sched).acqTime id < (run P s0 sched).relTime id ∧
      (run P s0 sched).relTime id < sched.length) := by
  have hR := reach_run P s0 hP sched
  have hlen := trace_length_run P s0 sched
  generalize run P s0 sched = cfg at *
  -- every thread has done exactly its calls and is outside
  have hdone : ∀ (t : Nat) th, cfg.threads[t]? = some th →
      th.cur = none ∧ th.done.length = th.calls.length ∧ th.started = th.calls.length := by
    intro t th ht
    obtain ⟨h1, h2⟩ := complete_thread hc ht
    have hb := hR.shape.bound t th ht
    have hst : th.started = th.done.length := by simp [Thread.started, h1]
    rw [hst] at hb ⊢
    exact ⟨h1, by omega, by omega⟩
  have hmem : ∀ t k, (t, k) ∈ acqLog cfg.trace ↔ (t, k) ∈ allCalls P := by
    intro t k
    rw [mem_acqLog, hR.log.acq, mem_allCalls]
    constructor
    · rintro ⟨th, ht, hk⟩
      refine ⟨th.calls, ?_, by rw [← (hdone t th ht).2.2]; exact hk⟩
      rw [← hR.shape.calls t, ht]; rfl
    · rintro ⟨calls, hcalls, hk⟩
      have := hR.shape.calls t
      rw [hcalls] at this
      obtain ⟨th, ht, hth⟩ := Option.map_eq_some_iff.mp this
      exact ⟨th, ht, by rw [(hdone t th ht).2.2, hth]; exact hk⟩
  have hnw : cfg.lock.writer = false := by
    cases hw : cfg.lock.writer with
    | false => rfl
    | true =>
      have h1 := hR.lock.writers
      rw [hw] at h1
      have : List.countP Thread.isW cfg.threads = 0 := by
        apply List.countP_eq_zero.mpr
        intro th hth
        obtain ⟨t, ht⟩ := List.getElem?_of_mem hth
        simp [Thread.isW, inside_of_cur_none (hdone t th ht).1]
      simp at h1; omega
  refine ⟨?_, hR.sim.free hnw, ?_, hR.log.rt, ?_⟩
  · exact (List.perm_ext_iff_of_nodup hR.log.nodup (nodup_allCalls P)).mpr (fun ⟨t, k⟩ => hmem t k)
  · apply table_eq _ _ _ hR.sim.keys hR.log.nodup
    rintro ⟨t, k⟩ hid
    obtain ⟨th, ht, hk⟩ := (hR.log.acq t k).mp (mem_acqLog.mp hid)
    rw [(hdone t th ht).2.2, ← (hdone t th ht).2.1] at hk
    refine ⟨th.done[k], ?_, hR.sim.done t th k _ ht (List.getElem?_eq_getElem hk)⟩
    simp [Config.resultOf, ht, List.getElem?_eq_getElem hk]
  · rintro ⟨t, k⟩ hid
    obtain ⟨th, ht, hk⟩ := (hR.log.acq t k).mp (mem_acqLog.mp ((hmem t k).mpr hid))
    rw [(hdone t th ht).2.2, ← (hdone t th ht).2.1] at hk
    have hrel : Event.rel t k ∈ cfg.trace := (hR.log.rel t k).mpr ⟨th, ht, hk⟩
    refine ⟨hR.log.ord t k hrel, ?_⟩
    rw [← hlen]
    exact idxOf_lt_of_mem hrel

end Manticore.RWLock
