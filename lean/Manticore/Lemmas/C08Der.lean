/-
  Helper lemmas for C08 (DER): big-endian digits, the length loops of `encodeLength`, what
  `parseTagAndLength` reads from a DER header.
-/
import Manticore.Model.C08
import Manticore.Lemmas.C08Layout
namespace Manticore.C08
open Manticore

theorem natBe_succ (k n : Nat) : natBe (k+1) n = natBe k (n / 256) ++ [UInt8.ofNat (n % 256)] := by
  simp [natBe, natLe]

theorem natBe_length (k n : Nat) : (natBe k n).length = k := by
  induction k generalizing n with
  | zero => rfl
  | succ k ih => rw [natBe_succ]; simp [ih]

theorem fillBytes_eq_natBe (k n : Nat) : fillBytes k n = natBe k n := by
  induction k generalizing n with
  | zero => rfl
  | succ k ih => rw [natBe_succ, fillBytes, ih]

theorem beNat_snoc (xs : Bytes) (x : UInt8) : beNat (xs ++ [x]) = beNat xs * 256 + x.toNat := by
  simp [beNat, List.foldl_append]

theorem beNat_natBe (k n : Nat) (h : n < 256 ^ k) : beNat (natBe k n) = n := by
  induction k generalizing n with
  | zero => simp at h; subst h; rfl
  | succ k ih =>
    rw [natBe_succ, beNat_snoc, ih (n / 256) (by rw [Nat.pow_succ] at h; omega)]
    simp [UInt8.toNat_ofNat']; omega

theorem numBytes_zero : numBytes 0 = 0 := by rw [numBytes]; simp
theorem numBytes_pos (n : Nat) (h : 0 < n) : numBytes n = numBytes (n / 256) + 1 := by
  rw [numBytes]; simp [Nat.pos_iff_ne_zero.mp h]

theorem numBytes_le (k : Nat) : ∀ n, n < 256 ^ k → numBytes n ≤ k := by
  induction k with
  | zero => intro n h; simp at h; subst h; rw [numBytes_zero]; omega
  | succ k ih =>
    intro n h
    by_cases h0 : n = 0
    · subst h0; rw [numBytes_zero]; omega
    · rw [numBytes_pos n (by omega)]
      have := ih (n / 256) (by rw [Nat.pow_succ] at h; omega)
      omega

theorem numBytes_spec (n : Nat) : n < 256 ^ numBytes n := by
  induction n using Nat.strongRecOn with
  | _ n ih =>
    by_cases h0 : n = 0
    · subst h0; rw [numBytes_zero]; simp
    · rw [numBytes_pos n (by omega), Nat.pow_succ]
      have := ih (n / 256) (by omega)
      omega

theorem numBytes_lower (n : Nat) (h : 0 < n) : 256 ^ (numBytes n - 1) ≤ n := by
  induction n using Nat.strongRecOn with
  | _ n ih =>
    rw [numBytes_pos n h]
    simp only [Nat.add_sub_cancel]
    by_cases h1 : n / 256 = 0
    · rw [h1, numBytes_zero]; simp; omega
    · have := ih (n / 256) (by omega) (by omega)
      have hp := numBytes_pos (n/256) (by omega)
      have e : numBytes (n / 256) = (numBytes (n/256) - 1) + 1 := by omega
      rw [e, Nat.pow_succ]
      omega

theorem base256_eq_natBe (n : Nat) : base256 n = natBe (numBytes n) n := by
  induction n using Nat.strongRecOn with
  | _ n ih =>
    by_cases h0 : n = 0
    · subst h0; rw [base256, numBytes_zero]; simp [natBe, natLe]
    · rw [base256, dif_neg h0, numBytes_pos n (by omega), natBe_succ, ih (n / 256) (by omega)]

theorem encodeLength_long (n : Nat) (h : 128 ≤ n) : encodeLength n = natBe (numBytes n) n := by
  rw [encodeLength, if_neg (by omega), fillBytes_eq_natBe]

theorem tag_long (k : Nat) (hk : 1 ≤ k ∧ k ≤ 4) :
    (0x80 ||| UInt8.ofNat k).toNat = 128 + k ∧ UInt8.ofNat (0x80 + k) = 0x80 ||| UInt8.ofNat k ∧
    (UInt8.ofNat (0x80 + k)) &&& 0x80 ≠ 0 ∧ ((UInt8.ofNat (0x80 + k)) &&& 0x7f).toNat = k := by
  obtain ⟨h1, h4⟩ := hk
  have : k = 1 ∨ k = 2 ∨ k = 3 ∨ k = 4 := by omega
  rcases this with rfl | rfl | rfl | rfl <;> decide

theorem numBytes_range (n : Nat) (h : 128 ≤ n) (hn : n < 4294967296) : 1 ≤ numBytes n ∧ numBytes n ≤ 4 := by
  constructor
  · rw [numBytes_pos n (by omega)]; omega
  · exact numBytes_le 4 n (by simpa using hn)

theorem gssLength_long (n : Nat) (h : 128 ≤ n) :
    gssLength n = (0x80 ||| UInt8.ofNat (numBytes n)) :: natBe (numBytes n) n := by
  rw [gssLength, if_neg (by omega)]
  simp only [encodeLength_long n h, natBe_length]

theorem derLen_long (n : Nat) (h : 128 ≤ n) :
    derLen n = UInt8.ofNat (0x80 + numBytes n) :: natBe (numBytes n) n := by
  rw [derLen, if_neg (by omega), base256_eq_natBe, natBe_length]

theorem decodeLength_long (k n : Nat) (hk : 1 ≤ k ∧ k ≤ 4) (hn : n < 256 ^ k) (rest : Bytes) :
    Spec.decodeLength ((0x80 ||| UInt8.ofNat k) :: natBe k n ++ rest) = some (n, rest) := by
  have ht := (tag_long k hk).1
  simp only [List.cons_append, Spec.decodeLength, ht]
  rw [if_neg (by omega)]
  simp only [Nat.add_sub_cancel_left]
  rw [if_neg (by simp [natBe_length]; omega)]
  have : (natBe k n ++ rest).take k = natBe k n := List.take_left' (natBe_length k n)
  have hd : (natBe k n ++ rest).drop k = rest := List.drop_left' (natBe_length k n)
  rw [this, hd, beNat_natBe k n hn]

theorem small_byte (n : Nat) (h : n < 128) :
    (UInt8.ofNat n).toNat = n ∧ (UInt8.ofNat n) &&& 0x80 = 0 ∧ ((UInt8.ofNat n) &&& 0x7f).toNat = n := by
  have : ∀ m : Fin 128, (UInt8.ofNat m.val).toNat = m.val ∧ (UInt8.ofNat m.val) &&& 0x80 = 0 ∧
      ((UInt8.ofNat m.val) &&& 0x7f).toNat = m.val := by decide
  exact this ⟨n, h⟩


theorem natBe1 (n : Nat) : natBe 1 n = [UInt8.ofNat (n % 256)] := rfl
theorem natBe2 (n : Nat) : natBe 2 n = [UInt8.ofNat (n / 256 % 256), UInt8.ofNat (n % 256)] := rfl
theorem natBe3 (n : Nat) : natBe 3 n = [UInt8.ofNat (n / 256 / 256 % 256), UInt8.ofNat (n / 256 % 256), UInt8.ofNat (n % 256)] := rfl
theorem natBe4 (n : Nat) : natBe 4 n = [UInt8.ofNat (n / 256 / 256 / 256 % 256), UInt8.ofNat (n / 256 / 256 % 256), UInt8.ofNat (n / 256 % 256), UInt8.ofNat (n % 256)] := rfl

theorem toNat_ofNat_mod (n : Nat) : (UInt8.ofNat (n % 256)).toNat = n % 256 := by
  simp [UInt8.toNat_ofNat']

/-- the long-form loop of `parseTagAndLength` reads back the minimal big-endian digits of a length
    between 128 and 2^31 -/
theorem parseLongLen_natBe (n : Nat) (h : 128 ≤ n) (hn : n < 2147483648) (rest : Bytes) :
    parseLongLen (numBytes n) 0 (natBe (numBytes n) n ++ rest) = some (n, rest) := by
  have hr := numBytes_range n h (by omega)
  have hlo := numBytes_lower n (by omega)
  have hhi := numBytes_spec n
  generalize numBytes n = k at *
  have : k = 1 ∨ k = 2 ∨ k = 3 ∨ k = 4 := by omega
  rcases this with rfl | rfl | rfl | rfl
  · simp only [natBe1, List.cons_append, List.nil_append, parseLongLen, toNat_ofNat_mod]
    simp at hhi hlo
    rw [if_neg (by omega), if_neg (by omega)]
    congr 2; omega
  · simp only [natBe2, List.cons_append, List.nil_append, parseLongLen, toNat_ofNat_mod]
    simp at hhi hlo
    rw [if_neg (by omega), if_neg (by omega), if_neg (by omega), if_neg (by omega)]
    congr 2; omega
  · simp only [natBe3, List.cons_append, List.nil_append, parseLongLen, toNat_ofNat_mod]
    simp at hhi hlo
    rw [if_neg (by omega), if_neg (by omega), if_neg (by omega), if_neg (by omega), if_neg (by omega), if_neg (by omega)]
    congr 2; omega
  · simp only [natBe4, List.cons_append, List.nil_append, parseLongLen, toNat_ofNat_mod]
    simp at hhi hlo
    rw [if_neg (by omega), if_neg (by omega), if_neg (by omega), if_neg (by omega), if_neg (by omega), if_neg (by omega),
      if_neg (by omega), if_neg (by omega)]
    congr 2; omega

/-- `parseTagAndLength` on a low-tag-number identifier octet followed by DER length octets -/
theorem parseTL_header (tag : UInt8) (htag : tag &&& 0x1f ≠ 0x1f) (n : Nat) (hn : n < 2147483648) (rest : Bytes) :
    parseTL (tag :: derLen n ++ rest) =
      some ({ cls := (tag >>> 6).toNat, compound := decide (tag &&& 0x20 = 0x20), tag := (tag &&& 0x1f).toNat, len := n }, rest) := by
  by_cases h : n < 128
  · have hs := small_byte n h
    simp only [derLen, if_pos h, List.cons_append, List.nil_append, parseTL, if_neg htag, hs.2.1, hs.2.2]
    simp
  · have hr := numBytes_range n (by omega) (by omega)
    have ht := tag_long _ hr
    rw [derLen_long n (by omega)]
    simp only [List.cons_append, parseTL, if_neg htag, if_neg ht.2.2.1, ht.2.2.2]
    rw [if_neg (by omega), parseLongLen_natBe n (by omega) hn rest]
    simp only [if_neg h]

theorem parseTL_header' (tag : UInt8) (htag : tag &&& 0x1f ≠ 0x1f) (n : Nat) (hn : n < 2147483648) (rest : Bytes) :
    parseTL (tag :: (derLen n ++ rest)) =
      some ({ cls := (tag >>> 6).toNat, compound := decide (tag &&& 0x20 = 0x20), tag := (tag &&& 0x1f).toNat, len := n }, rest) := by
  rw [← List.cons_append]; exact parseTL_header tag htag n hn rest

theorem derLen_length (n : Nat) (hn : n < 4294967296) : 1 ≤ (derLen n).length ∧ (derLen n).length ≤ 5 := by
  by_cases h : n < 128
  · simp [derLen, h]
  · have hr := numBytes_range n (by omega) hn
    rw [derLen_long n (by omega)]
    simp [natBe_length]; omega

theorem tlv_eq (tag : UInt8) (c : Bytes) : tlv tag c = tag :: (derLen c.length ++ c) := by
  simp [tlv]

theorem tlv_length (tag : UInt8) (c : Bytes) (hn : c.length < 4294967296) :
    c.length + 2 ≤ (tlv tag c).length ∧ (tlv tag c).length ≤ c.length + 6 := by
  have := derLen_length c.length hn
  simp [tlv_eq]; omega

/-- a universal-class member (no explicit tag) at the head of the input -/
theorem parseField_plain {α} (t : UInt8) (opt : Bool) (utag : Nat) (compound : Bool)
    (content : Bytes → Option α) (c rest : Bytes) (v : α)
    (h1 : t &&& 0x1f ≠ 0x1f) (hc : (t >>> 6).toNat = 0) (ht : (t &&& 0x1f).toNat = utag)
    (hk : decide (t &&& 0x20 = 0x20) = compound)
    (hsz : c.length < 2147483648) (hv : content c = some v) :
    parseField none opt utag compound content (t :: (derLen c.length ++ (c ++ rest))) = some (some v, rest) := by
  simp only [parseField, parseTL_header' t h1 c.length hsz, hc, ht, hk]
  simp [hv]

/-- an `explicit,tag:e` member at the head of the input -/
theorem parseField_explicit {α} (e : Nat) (t1 t2 : UInt8) (opt : Bool) (utag : Nat) (compound : Bool)
    (content : Bytes → Option α) (c rest : Bytes) (v : α)
    (h1 : t1 &&& 0x1f ≠ 0x1f) (h1c : (t1 >>> 6).toNat = 2) (h1t : (t1 &&& 0x1f).toNat = e)
    (h1k : decide (t1 &&& 0x20 = 0x20) = true)
    (h2 : t2 &&& 0x1f ≠ 0x1f) (h2c : (t2 >>> 6).toNat = 0) (h2t : (t2 &&& 0x1f).toNat = utag)
    (h2k : decide (t2 &&& 0x20 = 0x20) = compound)
    (hsz : c.length + 6 < 2147483648) (hv : content c = some v) :
    parseField (some e) opt utag compound content
      (t1 :: (derLen (tlv t2 c).length ++ (t2 :: (derLen c.length ++ (c ++ rest))))) = some (some v, rest) := by
  have hl := tlv_length t2 c (by omega)
  simp only [parseField, parseTL_header' t1 h1 _ (by omega : (tlv t2 c).length < 2147483648), h1c, h1t, h1k]
  simp only [parseTL_header' t2 h2 c.length (by omega), h2c, h2t, h2k]
  have hpos : (tlv t2 c).length > 0 := by omega
  simp [hv, hpos]

/-- an optional `explicit,tag:e` member is absent when the next element carries another context tag -/
theorem parseField_explicit_absent {α} (e : Nat) (t1 : UInt8) (utag : Nat) (compound : Bool)
    (content : Bytes → Option α) (n : Nat) (x : UInt8) (rest : Bytes)
    (h1 : t1 &&& 0x1f ≠ 0x1f) (h1t : (t1 &&& 0x1f).toNat ≠ e) (hn : n < 2147483648) :
    parseField (some e) true utag compound content (t1 :: (derLen n ++ (x :: rest))) =
      some (none, t1 :: (derLen n ++ (x :: rest))) := by
  simp only [parseField, parseTL_header' t1 h1 n hn]
  rw [if_neg (by simp), if_neg (by intro h; exact h1t h.2.1)]
  simp

theorem mechTypes_eq : tlv 0xA0 (tlv 0x30 ntlmOidTLV) =
    0xA0 :: (derLen (tlv 0x30 ntlmOidTLV).length ++ (0x30 :: (derLen ntlmOidTLV.length ++ (ntlmOidTLV ++ [])))) := by
  simp [tlv_eq]

theorem parseOidSeq_ntlm : parseOidSeq ntlmOidTLV = some [ntlmOid] := by decide
theorem parseOid_spnego : parseOid [0x2b, 0x06, 0x01, 0x05, 0x05, 0x02] = some spnegoOid := by decide

theorem unmarshalOidRest_spnego (rest : Bytes) : unmarshalOidRest (spnegoOidTLV ++ rest) = some rest := by
  have e : spnegoOidTLV ++ rest = 0x06 :: (derLen ([0x2b, 0x06, 0x01, 0x05, 0x05, 0x02] : Bytes).length ++ ([0x2b, 0x06, 0x01, 0x05, 0x05, 0x02] ++ rest)) := by
    simp [spnegoOidTLV, derLen]
  have hp := parseField_plain 0x06 false 6 false parseOid [0x2b, 0x06, 0x01, 0x05, 0x05, 0x02] rest spnegoOid
    (by decide) (by decide) (by decide) (by decide) (by decide) parseOid_spnego
  simp only [unmarshalOidRest, e, hp]

theorem parseInitFields_token (t : Bytes) (ht : t.length + 64 < 2147483648) :
    parseInitFields (tlv 0xA0 (tlv 0x30 ntlmOidTLV) ++ optOctets 0xA2 (some t)) =
      some { mechTypes := [ntlmOid], reqFlags := none, mechToken := t, mechTokenMIC := [] } := by
  have hB : optOctets 0xA2 (some t) = 0xA2 :: (derLen (tlv 0x04 t).length ++ (0x04 :: (derLen t.length ++ (t ++ [])))) := by
    simp [optOctets, tlv_eq]
  have h0 : parseField (some 0) false 16 true parseOidSeq
      (tlv 0xA0 (tlv 0x30 ntlmOidTLV) ++ optOctets 0xA2 (some t)) = some (some [ntlmOid], optOctets 0xA2 (some t)) := by
    have := parseField_explicit 0 0xA0 0x30 false 16 true parseOidSeq ntlmOidTLV (optOctets 0xA2 (some t)) [ntlmOid]
      (by decide) (by decide) (by decide) (by decide) (by decide) (by decide) (by decide) (by decide) (by decide) parseOidSeq_ntlm
    rw [← this]; simp [tlv_eq]
  have h1 : parseField (some 1) true 3 false parseBitString (optOctets 0xA2 (some t)) = some (none, optOctets 0xA2 (some t)) := by
    rw [hB]
    exact parseField_explicit_absent 1 0xA2 3 false parseBitString _ _ _ (by decide) (by decide)
      (by have := tlv_length 0x04 t (by omega); omega)
  have h2 : parseField (some 2) true 4 false someBytes (optOctets 0xA2 (some t)) = some (some t, []) := by
    rw [hB]
    exact parseField_explicit 2 0xA2 0x04 true 4 false someBytes t [] t
      (by decide) (by decide) (by decide) (by decide) (by decide) (by decide) (by decide) (by decide) (by omega) rfl
  have h3 : parseField (some 3) true 4 false someBytes ([] : Bytes) = some (none, []) := rfl
  simp only [parseInitFields, h0, h1, h2, h3, bind, Option.bind, pure, Option.getD]

theorem gssPrologue_of (b1 : UInt8) (tl inner : Bytes) (k : Nat)
    (hk : gssOffset b1 = 2 + k)
    (hdrop : tl.drop k = spnegoOidTLV ++ inner) (hle : k ≤ tl.length) :
    gssPrologue (0x60 :: b1 :: tl) = .ok inner := by
  simp only [gssPrologue]
  rw [if_neg (by decide), hk, if_neg (by simp only [List.length_cons]; omega)]
  have : sliceFrom (0x60 :: b1 :: tl) (2 + k) = .ok (spnegoOidTLV ++ inner) := by
    unfold sliceFrom
    rw [if_pos (by simp only [List.length_cons]; omega), Nat.add_comm]
    simp only [List.drop_succ_cons, hdrop]
  simp only [this, bind, Outcome.bind, unmarshalOidRest_spnego]

theorem gssPrologue_wrap (inner : Bytes) (h : inner.length + 8 < 4294967296) :
    gssPrologue (gssWrap inner) = .ok inner := by
  unfold gssWrap
  generalize hL : spnegoOidTLV.length + inner.length = L
  have hLn : L < 4294967296 := by rw [← hL]; simp [spnegoOidTLV]; omega
  by_cases hs : L < 128
  · have hb := small_byte L hs
    simp only [gssLength, if_pos hs, List.cons_append, List.nil_append]
    exact gssPrologue_of _ _ inner 0 (by rw [gssOffset, if_neg (by simp [hb.2.1])]) rfl (by omega)
  · have hr := numBytes_range L (by omega) hLn
    have ht := tag_long _ hr
    rw [gssLength_long L (by omega), ← ht.2.1]
    simp only [List.cons_append]
    exact gssPrologue_of _ _ inner (numBytes L) (by rw [gssOffset, if_pos ht.2.2.1, ht.2.2.2])
      (by rw [List.append_assoc]; exact List.drop_left' (natBe_length _ _)) (by simp [natBe_length])


theorem octets_eq_numBytes (n : Nat) (h : 0 < n) : Spec.octets n = numBytes n := by
  induction n using Nat.strongRecOn with
  | _ n ih =>
    rw [Spec.octets, numBytes_pos n h]
    by_cases h1 : n < 256
    · rw [dif_pos h1]
      have : n / 256 = 0 := by omega
      rw [this, numBytes_zero]
    · rw [dif_neg h1, ih (n / 256) (by omega) (by omega)]

theorem derLen_eq_spec (n : Nat) : derLen n = Spec.derLength n := by
  by_cases h : n < 128
  · simp [derLen, Spec.derLength, h]
  · rw [derLen_long n (by omega), Spec.derLength, if_neg h, octets_eq_numBytes n (by omega)]

theorem tlv_eq_spec (tag : UInt8) (c : Bytes) : tlv tag c = Spec.der tag c := by
  simp [tlv, Spec.der, derLen_eq_spec]

theorem gssLength_eq_spec (n : Nat) (hn : n < 4294967296) : gssLength n = Spec.derLength n := by
  by_cases h : n < 128
  · simp [gssLength, Spec.derLength, h]
  · have hr := numBytes_range n (by omega) hn
    rw [gssLength_long n (by omega), ← (tag_long _ hr).2.1, ← derLen_long n (by omega), derLen_eq_spec]

theorem payloadField_no_panic (d : Bytes) (l : UInt16) (o : UInt32) : payloadField d l o ≠ .panic := by
  unfold payloadField
  split
  · rename_i h
    unfold slice
    rw [if_pos ⟨by omega, h.2⟩]
    intro h; cases h
  · intro h; cases h

theorem gssPrologue_no_panic (d : Bytes) : gssPrologue d ≠ .panic := by
  unfold gssPrologue
  split
  · split
    · intro h; cases h
    · split
      · intro h; cases h
      · rename_i hle
        unfold sliceFrom
        rw [if_pos (by omega)]
        simp only [bind, Outcome.bind]
        split <;> (intro h; cases h)
  · intro h; cases h


end Manticore.C08
