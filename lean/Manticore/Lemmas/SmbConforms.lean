/-
  Soundness of the static predicate `Conforms` (Model/SmbConforms.lean) with respect to the MS-CIFS
  encoder `Spec.Cifs.encode`: helper lemmas and the three layers of the proof.

    (1) `run_block`   — a straight-line marshal program accepted by `ConformsCore` appends to each
                        block exactly the specification's encoding of the declared fields of that
                        block (evaluated on the environment *after* the run), by induction over the
                        statement list with the state as accumulator;
    (2) `encBlock_eq` — the specification's `foldlM` over the declared fields is that concatenation;
    (3) `paramBlock_eq_spec`, `dataBlock_eq_spec` — the fixed epilogue equals
                        `WordCount, Words, ByteCount(LE), Bytes`.

  Nothing here is a property clause; the property theorems are in `Props/C05.lean`.
-/
import Manticore.Model.SmbConforms
namespace Manticore.SmbIR
open Manticore Manticore.Spec.Cifs

/-! ### environments -/

theorem Env.get_set_eq (env : Env) (f : String) (v : Val) : (env.set f v).get f = some v := by
  unfold Env.set Env.get
  split
  · rename_i h
    induction env with
    | nil => simp at h
    | cons p r ih =>
      simp only [List.map_cons, List.find?_cons]
      by_cases hp : p.1 == f
      · simp [hp]
      · simp only [hp, Bool.false_eq_true, ↓reduceIte]
        simp only [List.any_cons, hp, Bool.false_or] at h
        exact ih h
  · rename_i h
    simp only [List.find?_append]
    have : List.find? (fun x => x.1 == f) env = none := by
      simp only [List.find?_eq_none]
      intro x hx hxf
      exact h (List.any_eq_true.2 ⟨x, hx, hxf⟩)
    simp [this]

private theorem find_map_ne (env : Env) (f g : String) (v : Val) (h : g ≠ f) :
    ((env.map (fun p => if p.1 == f then (f, v) else p)).find? (·.1 == g)).map (·.2)
      = (env.find? (·.1 == g)).map (·.2) := by
  induction env with
  | nil => rfl
  | cons p r ih =>
    simp only [List.map_cons, List.find?_cons]
    have h2 : (f == g) = false := by simp [Ne.symm h]
    by_cases hp : p.1 == f
    · have hp' : p.1 = f := by simpa using hp
      have h3 : (p.1 == g) = false := by simp [hp', Ne.symm h]
      simp only [hp, ↓reduceIte, h2, h3]
      exact ih
    · simp only [hp, Bool.false_eq_true, ↓reduceIte]
      cases hg : p.1 == g
      · exact ih
      · rfl

theorem Env.get_set_ne (env : Env) (f g : String) (v : Val) (h : g ≠ f) :
    (env.set f v).get g = env.get g := by
  unfold Env.set Env.get
  split
  · exact find_map_ne env f g v h
  · simp only [List.find?_append]
    have h2 : (f == g) = false := by simp [Ne.symm h]
    simp [h2]

/-! ### outcomes -/

theorem Outcome.bind_eq_ok {α β} {x : Outcome α} {f : α → Outcome β} {y : β}
    (h : (x >>= f) = .ok y) : ∃ a, x = .ok a ∧ f a = .ok y := by
  cases x with
  | ok a => exact ⟨a, rfl, h⟩
  | err => cases h
  | panic => cases h

theorem getN_eq_ok {env : Env} {f : String} {x : Nat} (h : getN env f = .ok x) :
    env.get f = some (.n x) := by
  unfold getN at h
  split at h
  · rename_i y hy
    cases h
    exact hy
  · cases h

/-! ### the state -/

def MState.blk (s : MState) : Blk → Bytes
  | .P => s.P
  | .D => s.D

theorem blk_app (s : MState) (b b0 : Blk) (bs : Bytes) :
    (s.app b bs).blk b0 = if b = b0 then s.blk b0 ++ bs else s.blk b0 := by
  cases b <;> cases b0 <;> simp [MState.app, MState.blk]

/-! ### straight-line statements -/

/-- the statements `layoutM` accepts -/
def straight : MStmt → Bool
  | .int .. | .quad .. | .u8 .. | .bytes .. | .arr .. | .sub .. | .setFmt .. | .assignLen .. => true
  | _ => false

theorem layoutM_cons {st : MStmt} {r : List MStmt} (h : (layoutM (st :: r)).isSome) :
    straight st = true ∧ (layoutM r).isSome := by
  cases st <;> simp_all [layoutM, straight]

/-- what one emitting statement contributes: the bytes `bs` it appended and the value `v` the field
    holds afterwards -/
def StepOut (C : Codecs) : MStmt → Bytes → Val → Prop
  | .int _ w e _, bs, v => ∃ x, v = .n x ∧ bs = intBytes w e x
  | .quad _ w e _, bs, v => ∃ x, v = .n x ∧ bs = intBytes w e x
  | .u8 _ _, bs, v => ∃ x, v = .n x ∧ bs = [UInt8.ofNat x]
  | .bytes _ _, bs, v => v = .b bs
  | .arr _ _, bs, v => v = .b bs
  | .sub _ _ typ, bs, v => ∃ v0 v', v = .t v' ∧ C.enc typ v0 = .ok (bs, v')
  | _, _, _ => False

/-- one emitting statement: it appends `bs` to its block, leaves the other block and the head alone,
    and the field it emitted holds `v` afterwards -/
theorem step_emit (C : Codecs) (andx : Bool) (s s1 : MState) (st : MStmt) (b : Blk) (f : String)
    (hst : straight st = true) (he : emittedField st = some (b, f))
    (hrun : runMStmt C andx s st = .ok s1) :
    ∃ bs v, (∀ b0, s1.blk b0 = (s.app b bs).blk b0) ∧ s1.head = s.head ∧
      s1.env.get f = some v ∧ StepOut C st bs v ∧
      (∀ g, writesField st ≠ some g → s1.env.get g = s.env.get g) := by
  cases st with
  | int b' w e f' =>
    simp only [emittedField, Option.some.injEq, Prod.mk.injEq] at he
    obtain ⟨rfl, rfl⟩ := he
    simp only [runMStmt] at hrun
    obtain ⟨x, hx, hs⟩ := Outcome.bind_eq_ok hrun
    cases hs
    exact ⟨intBytes w e x, .n x, fun _ => rfl, by cases b' <;> rfl,
      by cases b' <;> exact getN_eq_ok hx, ⟨x, rfl, rfl⟩, fun g _ => by cases b' <;> rfl⟩
  | quad b' w e f' =>
    simp only [emittedField, Option.some.injEq, Prod.mk.injEq] at he
    obtain ⟨rfl, rfl⟩ := he
    simp only [runMStmt] at hrun
    obtain ⟨x, hx, hs⟩ := Outcome.bind_eq_ok hrun
    cases hs
    exact ⟨intBytes w e x, .n x, fun _ => rfl, by cases b' <;> rfl,
      by cases b' <;> exact getN_eq_ok hx, ⟨x, rfl, rfl⟩, fun g _ => by cases b' <;> rfl⟩
  | u8 b' f' =>
    simp only [emittedField, Option.some.injEq, Prod.mk.injEq] at he
    obtain ⟨rfl, rfl⟩ := he
    simp only [runMStmt] at hrun
    obtain ⟨x, hx, hs⟩ := Outcome.bind_eq_ok hrun
    cases hs
    exact ⟨[UInt8.ofNat x], .n x, fun _ => rfl, by cases b' <;> rfl,
      by cases b' <;> exact getN_eq_ok hx, ⟨x, rfl, rfl⟩, fun g _ => by cases b' <;> rfl⟩
  | bytes b' f' =>
    simp only [emittedField, Option.some.injEq, Prod.mk.injEq] at he
    obtain ⟨rfl, rfl⟩ := he
    simp only [runMStmt] at hrun
    split at hrun
    · rename_i bs hbs
      cases hrun
      exact ⟨bs, .b bs, fun _ => rfl, by cases b' <;> rfl, by cases b' <;> exact hbs, rfl,
        fun g _ => by cases b' <;> rfl⟩
    · cases hrun
  | arr b' f' =>
    simp only [emittedField, Option.some.injEq, Prod.mk.injEq] at he
    obtain ⟨rfl, rfl⟩ := he
    simp only [runMStmt] at hrun
    split at hrun
    · rename_i bs hbs
      cases hrun
      exact ⟨bs, .b bs, fun _ => rfl, by cases b' <;> rfl, by cases b' <;> exact hbs, rfl,
        fun g _ => by cases b' <;> rfl⟩
    · cases hrun
  | sub b' f' typ =>
    simp only [emittedField, Option.some.injEq, Prod.mk.injEq] at he
    obtain ⟨rfl, rfl⟩ := he
    simp only [runMStmt] at hrun
    split at hrun
    · rename_i v0 hv0
      obtain ⟨⟨bs, v'⟩, henc, hs⟩ := Outcome.bind_eq_ok hrun
      cases hs
      refine ⟨bs, .t v', fun b0 => by cases b' <;> cases b0 <;> rfl, by cases b' <;> rfl,
        Env.get_set_eq _ _ _, ⟨v0, v', rfl, henc⟩, fun g hg => ?_⟩
      have : g ≠ f' := fun h => hg (by simp [writesField, h])
      exact Env.get_set_ne _ _ _ _ this
    · cases hrun
  | setFmt _ _ => simp [emittedField] at he
  | assignLen _ _ _ => simp [emittedField] at he
  | _ => simp [straight] at hst

/-- a straight-line statement that emits nothing only touches the environment, and there only the
    field it assigns -/
theorem step_noemit (C : Codecs) (andx : Bool) (s s1 : MState) (st : MStmt)
    (hst : straight st = true) (he : emittedField st = none)
    (hrun : runMStmt C andx s st = .ok s1) :
    (∀ b0, s1.blk b0 = s.blk b0) ∧ s1.head = s.head ∧
      (∀ g, writesField st ≠ some g → s1.env.get g = s.env.get g) := by
  cases st with
  | setFmt f k =>
    simp only [runMStmt] at hrun
    split at hrun
    · cases hrun
      refine ⟨fun b0 => by cases b0 <;> rfl, rfl, fun g hg => ?_⟩
      have : g ≠ f := fun h => hg (by simp [writesField, h])
      exact Env.get_set_ne _ _ _ _ this
    · cases hrun
  | assignLen f g' w =>
    simp only [runMStmt] at hrun
    split at hrun
    all_goals first
      | cases hrun; done
      | (cases hrun
         refine ⟨fun b0 => by cases b0 <;> rfl, rfl, fun g hg => ?_⟩
         have : g ≠ f := fun h => hg (by simp [writesField, h])
         exact Env.get_set_ne _ _ _ _ this)
  | int _ _ _ _ => simp [emittedField] at he
  | quad _ _ _ _ => simp [emittedField] at he
  | u8 _ _ => simp [emittedField] at he
  | bytes _ _ => simp [emittedField] at he
  | arr _ _ => simp [emittedField] at he
  | sub _ _ _ => simp [emittedField] at he
  | _ => simp [straight] at hst

/-- a straight-line statement: blocks only grow, the head is untouched, fields it does not assign
    keep their value -/
theorem step_frame (C : Codecs) (andx : Bool) (s s1 : MState) (st : MStmt)
    (hst : straight st = true) (hrun : runMStmt C andx s st = .ok s1) :
    s1.head = s.head ∧ (∀ g, writesField st ≠ some g → s1.env.get g = s.env.get g) := by
  cases he : emittedField st with
  | none => exact ⟨(step_noemit C andx s s1 st hst he hrun).2.1, (step_noemit C andx s s1 st hst he hrun).2.2⟩
  | some bf =>
    obtain ⟨b, f⟩ := bf
    obtain ⟨_, _, _, h2, _, _, h5⟩ := step_emit C andx s s1 st b f hst he hrun
    exact ⟨h2, h5⟩

theorem runMStmts_cons {C : Codecs} {andx : Bool} {s s' : MState} {st : MStmt} {r : List MStmt}
    (h : runMStmts C andx s (st :: r) = .ok s') :
    ∃ s1, runMStmt C andx s st = .ok s1 ∧ runMStmts C andx s1 r = .ok s' := by
  simp only [runMStmts] at h
  exact Outcome.bind_eq_ok h

/-- a straight-line program never puts anything ahead of the parameter block -/
theorem run_head (C : Codecs) (andx : Bool) :
    ∀ (stmts : List MStmt) (s s' : MState), (layoutM stmts).isSome →
      runMStmts C andx s stmts = .ok s' → s'.head = s.head := by
  intro stmts
  induction stmts with
  | nil => intro s s' _ h; simp only [runMStmts] at h; cases h; rfl
  | cons st r ih =>
    intro s s' hl h
    obtain ⟨hst, hlr⟩ := layoutM_cons hl
    obtain ⟨s1, h1, h2⟩ := runMStmts_cons h
    rw [ih s1 s' hlr h2, (step_frame C andx s s1 st hst h1).1]

/-- a field no statement of a straight-line program assigns has the same value after the run -/
theorem run_env_stable (C : Codecs) (andx : Bool) (f : String) :
    ∀ (stmts : List MStmt) (s s' : MState), (layoutM stmts).isSome →
      stmts.all (fun s' => writesField s' != some f) = true →
      runMStmts C andx s stmts = .ok s' → s'.env.get f = s.env.get f := by
  intro stmts
  induction stmts with
  | nil => intro s s' _ _ h; simp only [runMStmts] at h; cases h; rfl
  | cons st r ih =>
    intro s s' hl hw h
    obtain ⟨hst, hlr⟩ := layoutM_cons hl
    obtain ⟨s1, h1, h2⟩ := runMStmts_cons h
    simp only [List.all_cons, Bool.and_eq_true, bne_iff_ne, ne_eq] at hw
    rw [ih s1 s' hlr hw.2 h2, (step_frame C andx s s1 st hst h1).2 f hw.1]

/-! ### the specification's encoding of a list of declared fields -/

/-- `encBlock` without the accumulator -/
def encDecls (env : Env) : List (String × String) → Option Bytes
  | [] => some []
  | (f, t) :: r => do
    let v ← env.get f
    let bs ← encField t v
    let rest ← encDecls env r
    pure (bs ++ rest)

theorem foldlM_encDecls (env : Env) (ds : List (String × String)) (acc : Bytes) :
    ds.foldlM (fun acc (ft : String × String) => do
        let v ← env.get ft.1
        let bs ← encField ft.2 v
        pure (acc ++ bs)) acc = (encDecls env ds).map (acc ++ ·) := by
  induction ds generalizing acc with
  | nil => simp [encDecls]
  | cons ft r ih =>
    obtain ⟨f, t⟩ := ft
    simp only [List.foldlM_cons, encDecls, Option.bind_eq_bind, Option.pure_def]
    cases hv : env.get f with
    | none => simp
    | some v =>
      simp only [Option.bind_some]
      cases hb : encField t v with
      | none => simp
      | some bs =>
        have ih' := ih (acc ++ bs)
        simp only [Option.bind_eq_bind, Option.pure_def] at ih'
        simp only [Option.bind_some, ih']
        cases encDecls env r <;> simp

theorem encBlock_eq (c : Cmd) (env : Env) (b : Blk) :
    encBlock c env b = encDecls env (c.fields.filter (fun ft => blockOf c ft.1 == some b)) := by
  unfold encBlock
  have := foldlM_encDecls env (c.fields.filter (fun ft => blockOf c ft.1 == some b)) []
  simp only [List.nil_append, Option.map_id'] at this
  exact this

/-! ### one emission against the specification -/

theorem natLe_one (x : Nat) : natLe 1 x = [UInt8.ofNat x] := by
  simp only [natLe, List.cons.injEq, and_true]
  apply UInt8.toNat_inj.1
  simp

/-- the bytes an emitting statement appended are the specification's encoding of the value the field
    holds, whenever the specification has one -/
theorem stepOut_spec (C : Codecs) (c : Cmd) (st : MStmt) (b : Blk) (f t : String) (bs : Bytes) (v : Val)
    (hc : conformsStmt c st = true) (ht : typedStmt c st = true)
    (he : emittedField st = some (b, f)) (hty : c.typeOf f = some t)
    (ho : StepOut C st bs v)
    (hn : ∀ b' f' typ v', st = .sub b' f' typ → v = .t v' → NestedConformsAt C typ v')
    (sb : Bytes) (hs : encField t v = some sb) : sb = bs := by
  cases st with
  | int b' w e f' =>
    simp only [emittedField, Option.some.injEq, Prod.mk.injEq] at he
    obtain ⟨rfl, rfl⟩ := he
    obtain ⟨x, rfl, rfl⟩ := ho
    simp only [conformsStmt, hty, Option.bind_some, Bool.and_eq_true, beq_iff_eq] at hc
    obtain ⟨rfl, hw⟩ := hc
    simp only [encField, fieldEnc, hw] at hs
    split at hs
    · cases hs; rfl
    · cases hs
  | quad b' w e f' =>
    simp only [emittedField, Option.some.injEq, Prod.mk.injEq] at he
    obtain ⟨rfl, rfl⟩ := he
    obtain ⟨x, rfl, rfl⟩ := ho
    simp only [conformsStmt, hty, Option.bind_some, Bool.and_eq_true, beq_iff_eq] at hc
    obtain ⟨rfl, hw⟩ := hc
    simp only [encField, fieldEnc, hw] at hs
    split at hs
    · cases hs; rfl
    · cases hs
  | u8 b' f' =>
    simp only [emittedField, Option.some.injEq, Prod.mk.injEq] at he
    obtain ⟨rfl, rfl⟩ := he
    obtain ⟨x, rfl, rfl⟩ := ho
    simp only [conformsStmt, hty, Option.bind_some, beq_iff_eq] at hc
    simp only [encField, fieldEnc, hc] at hs
    split at hs
    · cases hs; exact natLe_one x
    · cases hs
  | bytes b' f' =>
    simp only [emittedField, Option.some.injEq, Prod.mk.injEq] at he
    obtain ⟨rfl, rfl⟩ := he
    cases ho
    simp only [typedStmt, hty, Option.bind_some, beq_iff_eq] at ht
    simp only [encField, ht] at hs
    cases hs; rfl
  | arr b' f' =>
    simp only [emittedField, Option.some.injEq, Prod.mk.injEq] at he
    obtain ⟨rfl, rfl⟩ := he
    cases ho
    simp only [typedStmt, hty, Option.bind_some, beq_iff_eq] at ht
    simp only [encField, ht] at hs
    cases hs; rfl
  | sub b' f' typ =>
    obtain ⟨v0, v', rfl, henc⟩ := ho
    simp only [emittedField, Option.some.injEq, Prod.mk.injEq] at he
    obtain ⟨rfl, rfl⟩ := he
    simp only [typedStmt, hty, Option.bind_some, beq_iff_eq] at ht
    simp only [encField, ht] at hs
    exact (hn b' f' typ v' rfl rfl v0 bs henc sb hs).symm
  | _ => simp [StepOut] at ho

/-! ### layer (1): the run of a straight-line conforming program, block by block -/

theorem emittedNames_cons_some (b0 b : Blk) (f : String) (st : MStmt) (r : List MStmt)
    (he : emittedField st = some (b, f)) :
    emittedNames b0 (st :: r) = if b = b0 then f :: emittedNames b0 r else emittedNames b0 r := by
  simp only [emittedNames, List.filterMap_cons, he, List.filter_cons]
  by_cases h : b = b0
  · simp [h]
  · have : (b == b0) = false := by simpa using h
    simp [h, this]

theorem emittedNames_cons_none (b0 : Blk) (st : MStmt) (r : List MStmt)
    (he : emittedField st = none) : emittedNames b0 (st :: r) = emittedNames b0 r := by
  simp only [emittedNames, List.filterMap_cons, he]

/-- Layer (1).  Running a straight-line program whose statements pass the per-statement checks,
    which never assigns a field after emitting it, and whose emissions into block `b0` are the
    declared fields `d` in order: block `b0` grows by exactly what the specification's field-by-field
    encoder gives for `d` on the final environment. -/
theorem run_block (C : Codecs) (c : Cmd) (andx : Bool) (b0 : Blk) :
    ∀ (stmts : List MStmt) (d : List (String × String)) (s s' : MState),
      (layoutM stmts).isSome → conformsStmts c stmts = true → stmts.all (typedStmt c) = true →
      noWriteAfterEmit stmts = true →
      emittedNames b0 stmts = d.map (·.1) → (∀ ft ∈ d, c.typeOf ft.1 = some ft.2) →
      runMStmts C andx s stmts = .ok s' →
      (∀ b f typ, MStmt.sub b f typ ∈ stmts → ∀ v', s'.env.get f = some (.t v') → NestedConformsAt C typ v') →
      ∃ x, s'.blk b0 = s.blk b0 ++ x ∧ ∀ sb, encDecls s'.env d = some sb → sb = x := by
  intro stmts
  induction stmts with
  | nil =>
    intro d s s' _ _ _ _ hd _ hrun _
    simp only [runMStmts] at hrun
    cases hrun
    have : d = [] := by
      cases d with
      | nil => rfl
      | cons _ _ => simp [emittedNames] at hd
    subst this
    exact ⟨[], by simp, fun sb h => by simp only [encDecls] at h; cases h; rfl⟩
  | cons st r ih =>
    intro d s s' hl hc ht hw hd hty hrun hn
    obtain ⟨hst, hlr⟩ := layoutM_cons hl
    obtain ⟨s1, h1, h2⟩ := runMStmts_cons hrun
    simp only [conformsStmts, Bool.and_eq_true] at hc
    simp only [List.all_cons, Bool.and_eq_true] at ht
    simp only [noWriteAfterEmit, Bool.and_eq_true] at hw
    have hn' : ∀ b f typ, MStmt.sub b f typ ∈ r → ∀ v', s'.env.get f = some (.t v') →
        NestedConformsAt C typ v' := fun b f typ hm => hn b f typ (List.mem_cons_of_mem _ hm)
    cases he : emittedField st with
    | none =>
      rw [emittedNames_cons_none b0 st r he] at hd
      obtain ⟨x, hx, hsp⟩ := ih d s1 s' hlr hc.2 ht.2 hw.2 hd hty h2 hn'
      exact ⟨x, by rw [hx, (step_noemit C andx s s1 st hst he h1).1 b0], hsp⟩
    | some bf =>
      obtain ⟨b, f⟩ := bf
      obtain ⟨bs, v, hblk, _, hget, hout, _⟩ := step_emit C andx s s1 st b f hst he h1
      have hstable : s'.env.get f = some v := by
        have := hw.1
        simp only [he] at this
        rw [run_env_stable C andx f r s1 s' hlr this h2, hget]
      rw [emittedNames_cons_some b0 b f st r he] at hd
      by_cases hb : b = b0
      · simp only [hb, ↓reduceIte] at hd
        cases d with
        | nil => simp at hd
        | cons ft d' =>
          obtain ⟨f', t⟩ := ft
          simp only [List.map_cons, List.cons.injEq] at hd
          obtain ⟨rfl, hd'⟩ := hd
          obtain ⟨x, hx, hsp⟩ := ih d' s1 s' hlr hc.2 ht.2 hw.2 hd'
            (fun ft hm => hty ft (List.mem_cons_of_mem _ hm)) h2 hn'
          refine ⟨bs ++ x, ?_, ?_⟩
          · rw [hx, hblk b0, blk_app, if_pos hb, List.append_assoc]
          · intro sb hsb
            simp only [encDecls, hstable, Option.bind_eq_bind, Option.bind_some] at hsb
            cases hf : encField t v with
            | none => simp [hf] at hsb
            | some sb0 =>
              cases hr : encDecls s'.env d' with
              | none => simp [hf, hr] at hsb
              | some sb' =>
                simp only [hf, hr, Option.bind_some, Option.pure_def, Option.some.injEq] at hsb
                have e1 : sb0 = bs :=
                  stepOut_spec C c st b f t bs v hc.1 ht.1 he (hty (f, t) (List.mem_cons_self ..)) hout
                    (fun b' f' typ v' hs hv => by
                      subst hs
                      simp only [emittedField, Option.some.injEq, Prod.mk.injEq] at he
                      obtain ⟨_, rfl⟩ := he
                      exact hn b' f' typ (List.mem_cons_self ..) v' (by rw [hstable, hv]))
                    sb0 hf
                rw [← hsb, e1, hsp sb' hr]
      · simp only [hb, ↓reduceIte] at hd
        obtain ⟨x, hx, hsp⟩ := ih d s1 s' hlr hc.2 ht.2 hw.2 hd hty h2 hn'
        exact ⟨x, by rw [hx, hblk b0, blk_app, if_neg hb], hsp⟩

/-! ### declared names -/

theorem typeOf_of_mem (c : Cmd) (hnd : nodupNames (c.fields.map (·.1)) = true) :
    ∀ ft ∈ c.fields, c.typeOf ft.1 = some ft.2 := by
  unfold Cmd.typeOf
  generalize c.fields = l at *
  induction l with
  | nil => intro ft h; cases h
  | cons p r ih =>
    intro ft hm
    simp only [List.map_cons, nodupNames, Bool.and_eq_true, Bool.not_eq_true'] at hnd
    simp only [List.find?_cons]
    rcases List.mem_cons.1 hm with rfl | hm'
    · simp
    · have : (p.1 == ft.1) = false := by
        cases hp : p.1 == ft.1
        · rfl
        · have hp' : p.1 = ft.1 := by simpa using hp
          have : (r.map (·.1)).contains p.1 = true := by
            rw [hp']
            exact List.contains_iff_mem.2 (List.mem_map_of_mem hm')
          rw [this] at hnd
          exact absurd hnd.1 (by simp)
      simp only [this]
      exact ih hnd.2 ft hm'

/-! ### layers (1)+(2) for a whole command -/

/-- both blocks and the head of a conforming straight-line command, against `encBlock` -/
theorem runM_blocks (C : Codecs) (c : Cmd) (hc : ConformsCore c = true)
    (hl : (layoutM c.marshal).isSome) (env : Env) (s' : MState) (hrun : runM C c env = .ok s')
    (hn : ∀ b f typ, MStmt.sub b f typ ∈ c.marshal → ∀ v', s'.env.get f = some (.t v') →
      NestedConformsAt C typ v') :
    s'.head = [] ∧ (∀ sb, encBlock c s'.env .P = some sb → sb = s'.P) ∧
      (∀ sb, encBlock c s'.env .D = some sb → sb = s'.D) := by
  simp only [ConformsCore, Bool.and_eq_true, beq_iff_eq] at hc
  obtain ⟨⟨⟨⟨⟨⟨h1, h2⟩, h3⟩, h4⟩, h5⟩, h6⟩, _⟩ := hc
  have hty := typeOf_of_mem c h3
  unfold runM at hrun
  refine ⟨run_head C c.isAndX c.marshal _ s' hl hrun, ?_, ?_⟩
  · intro sb hsb
    rw [encBlock_eq] at hsb
    obtain ⟨x, hx, hsp⟩ := run_block C c c.isAndX .P c.marshal
      (c.fields.filter (fun ft => blockOf c ft.1 == some .P)) _ s' hl h1 h2 h6
      (by simpa [emittedIn, declaredIn] using h4)
      (fun ft hm => hty ft (List.mem_filter.1 hm).1) hrun hn
    rw [hsp sb hsb]
    simpa [MState.blk] using hx.symm
  · intro sb hsb
    rw [encBlock_eq] at hsb
    obtain ⟨x, hx, hsp⟩ := run_block C c c.isAndX .D c.marshal
      (c.fields.filter (fun ft => blockOf c ft.1 == some .D)) _ s' hl h1 h2 h6
      (by simpa [emittedIn, declaredIn] using h5)
      (fun ft hm => hty ft (List.mem_filter.1 hm).1) hrun hn
    rw [hsp sb hsb]
    simpa [MState.blk] using hx.symm

/-! ### layer (3): the parameter and data blocks -/

theorem wordsBytes_even : ∀ (l : Bytes), l.length % 2 = 0 → wordsBytes l = l
  | [], _ => rfl
  | [_], h => by simp at h
  | a :: b :: rest, h => by
    have : rest.length % 2 = 0 := by simp only [List.length_cons] at h; omega
    simp only [wordsBytes, wordsBytes_even rest this]

/-- outside the finding `be:AndXOffset` the AndX words the code writes are the AndX block of MS-CIFS
    (`env2`: the command after `Marshal`, which the specification reads; `env1`: the command when the
    prologue wrote the words) -/
theorem andxBlock_eq (andx : Bool) (env1 env2 : Env) (ax : Bytes)
    (hget : env2.get andxField = env1.get andxField)
    (hbe : andxOffsetBigEndian andx env2 = false) (hs : andxBlock andx env2 = some ax) :
    andxBytesOf andx env1 = ax ∧ ax.length = 2 * andxWords andx := by
  cases andx with
  | false =>
    simp only [andxBlock, Bool.false_eq_true, if_false, Option.some.injEq] at hs
    subst hs
    exact ⟨rfl, rfl⟩
  | true =>
    unfold andxBlock at hs
    unfold andxOffsetBigEndian at hbe
    unfold andxBytesOf
    rw [← hget]
    simp only [if_true, Bool.true_and] at hs hbe ⊢
    split at hs
    · rename_i hnone
      rw [hnone]
      simp only [Option.some.injEq] at hs
      subst hs
      exact ⟨rfl, rfl⟩
    · rename_i c r o hsome
      rw [hsome] at hbe ⊢
      simp only [bne_eq_false_iff_eq] at hbe
      split at hs
      · rename_i hb
        simp only [Option.some.injEq] at hs
        subst hs
        have h1 : o / 256 % 256 = o / 256 := Nat.mod_eq_of_lt (by omega)
        refine ⟨?_, rfl⟩
        simp only [natLe, List.cons_append, List.nil_append]
        rw [← hbe, h1]
      · cases hs
    · cases hs

/-- the parameter block the code builds is `WordCount, Words` of the specification whenever the
    words (AndX block first) are an even number of bytes and at most 255 words -/
theorem paramBlock_eq_spec (andx : Bool) (ax P : Bytes) (hlen : ax.length = 2 * andxWords andx)
    (h1 : (ax ++ P).length % 2 = 0) (h2 : (ax ++ P).length / 2 ≤ 255) :
    paramBlock andx ax P = UInt8.ofNat ((ax ++ P).length / 2) :: (ax ++ P) := by
  simp only [List.length_append, hlen] at h1 h2
  have hP : P.length % 2 = 0 := by omega
  have hwc : wordCountOf andx P % 256 = (ax ++ P).length / 2 := by
    simp only [wordCountOf, List.length_append, hlen]
    omega
  simp only [paramBlock, hwc, wordsBytes_even P hP]
  split
  · rfl
  · rename_i h0
    have : (ax ++ P).length = 0 := by
      simp only [List.length_append, hlen] at h0 ⊢
      omega
    have : ax ++ P = [] := List.eq_nil_of_length_eq_zero this
    rw [this]

/-- the data block the code builds is `ByteCount` (little-endian) and the bytes, up to 65535 bytes -/
theorem dataBlock_eq_spec (D : Bytes) (h : D.length ≤ 65535) : dataBlock D = natLe 2 D.length ++ D := by
  simp only [dataBlock]
  rw [Nat.mod_eq_of_lt (by omega)]

/-! ### the whole command -/

theorem ConformsCore_of_Conforms {c : Cmd} (h : Conforms c = true) : ConformsCore c = true := by
  simp only [Conforms, Bool.and_eq_true] at h
  simp only [ConformsCore, Bool.and_eq_true]
  obtain ⟨⟨⟨⟨⟨⟨⟨⟨h1, _⟩, h3⟩, h4⟩, h5⟩, h6⟩, h7⟩, h8⟩, _⟩ := h
  exact ⟨⟨⟨⟨⟨⟨h1, h3⟩, h4⟩, h5⟩, h6⟩, h7⟩, h8⟩

/-- soundness of `ConformsCore`, the nested encoders being required to conform only at the values
    the fields hold after `Marshal`; outside the finding `be:AndXOffset` -/
theorem conformsCore_sound_at (C : Codecs) (c : Cmd) (hc : ConformsCore c = true)
    (env : Env) (bs : Bytes) (env' : Env) (sb : Bytes)
    (hn : ∀ b f typ, MStmt.sub b f typ ∈ c.marshal → ∀ v', env'.get f = some (.t v') →
      NestedConformsAt C typ v')
    (hbe : andxOffsetBigEndian c.isAndX env' = false)
    (he : encodeCmd C c env = .ok bs) (ha : envAfterMarshal C c env = .ok env')
    (hs : Spec.Cifs.encode c env' = some sb) : bs = sb := by
  unfold encodeCmd at he
  unfold envAfterMarshal at ha
  cases hrun : runM C c env with
  | err => simp [hrun] at he
  | panic => simp [hrun] at he
  | ok s =>
    simp only [hrun, Outcome.ok.injEq] at he ha
    subst ha
    unfold Spec.Cifs.encode at hs
    cases hp : encBlock c s.env .P with
    | none => simp [hp] at hs
    | some p =>
      cases hd : encBlock c s.env .D with
      | none => simp [hp, hd] at hs
      | some d =>
        cases hax : andxBlock c.isAndX s.env with
        | none => simp [hp, hd, hax] at hs
        | some ax =>
          simp only [hp, hd, hax, Option.bind_eq_bind, Option.bind_some, Option.pure_def] at hs
          split at hs
          · cases hs
          · rename_i hlim
            split at hs
            · cases hs
            · rename_i hl
              have hl' : (layoutM c.marshal).isSome := by
                cases h : layoutM c.marshal <;> simp_all
              obtain ⟨hh, hP, hD⟩ := runM_blocks C c hc hl' env s hrun hn
              have eP := hP p hp
              have eD := hD d hd
              subst eP eD
              -- the AndX block did not change after the prologue wrote it
              have hunt : andxUntouched c.marshal = true := by
                simp only [ConformsCore, Bool.and_eq_true] at hc; exact hc.2
              have hframe : s.env.get andxField = (prologueEnv c.isAndX env).get andxField :=
                run_env_stable C c.isAndX andxField c.marshal { env := prologueEnv c.isAndX env } s hl' hunt hrun
              obtain ⟨hab, hlen⟩ := andxBlock_eq c.isAndX (prologueEnv c.isAndX env) s.env ax hframe hbe hax
              simp only [Option.some.injEq] at hs
              rw [← hs, ← he, hh, hab]
              have h1 : (ax ++ s.P).length % 2 = 0 := by omega
              have h2 : (ax ++ s.P).length / 2 ≤ 255 := by omega
              have h3 : s.D.length ≤ 65535 := by omega
              rw [paramBlock_eq_spec _ _ _ hlen h1 h2, dataBlock_eq_spec _ h3]
              simp

/-! ### no declared field is left out -/

theorem emittedDeep_straight : ∀ (ms : List MStmt), (layoutM ms).isSome →
    emittedDeep ms = (ms.filterMap emittedField).map (·.2) := by
  intro ms
  induction ms with
  | nil => intro _; simp [emittedDeep]
  | cons st r ih =>
    intro hl
    obtain ⟨hst, hlr⟩ := layoutM_cons hl
    simp only [emittedDeep, ih hlr]
    cases st <;> simp_all [straight, emittedStmt, emittedField, List.filterMap_cons]

theorem blockOf_isSome_of_emitted (c : Cmd) (hl : (layoutM c.marshal).isSome) (f : String)
    (h : (emittedDeep c.marshal).contains f = true) : (blockOf c f).isSome = true := by
  rw [emittedDeep_straight c.marshal hl] at h
  obtain ⟨bf, hm, rfl⟩ := List.mem_map.1 (List.contains_iff_mem.1 h)
  unfold blockOf
  simp only [Option.isSome_map, List.find?_isSome]
  exact ⟨bf, hm, by simp⟩

end Manticore.SmbIR
