/-
  C18 helper lemmas for `Model/C18Stop.lean`: association lists, the invariants of the client read loop (A), of the
  TCP connection registry (B), of the WaitGroup (C), of the copy placement (D) and of the mutex (E).
-/
import Manticore.Model.C18Stop
import Manticore.Lemmas.C18
namespace Manticore.C18
open Manticore

theorem alookup_aerase {α : Type} (l : List (Nat × α)) (n m : Nat) :
    alookup (aerase l n) m = if m = n then none else alookup l m := by
  induction l with
  | nil => simp [aerase, alookup]
  | cons p l ih =>
    obtain ⟨k, v⟩ := p
    simp only [aerase, List.filter_cons] at ih ⊢
    by_cases hk : k = n
    · subst hk
      simp only [ne_eq, not_true_eq_false, decide_false, Bool.false_eq_true, ↓reduceIte, alookup]
      rw [ih]
      by_cases hm : m = k
      · simp [hm]
      · have : k ≠ m := fun e => hm e.symm
        simp [hm, this]
    · simp only [ne_eq, hk, not_false_eq_true, decide_true, ↓reduceIte, alookup]
      rw [ih]
      by_cases hm : m = n
      · subst hm; simp [hk]
      · simp [hm]

theorem alookup_aput {α : Type} (l : List (Nat × α)) (n m : Nat) (v : α) :
    alookup (aput l n v) m = if m = n then some v else alookup l m := by
  simp only [aput, alookup, alookup_aerase]
  by_cases hm : m = n
  · subst hm; simp
  · have : n ≠ m := fun e => hm e.symm
    simp [hm, this]

theorem alookup_mem {α : Type} (l : List (Nat × α)) (k : Nat) (v : α) (h : alookup l k = some v) : (k, v) ∈ l := by
  induction l with
  | nil => simp [alookup] at h
  | cons p l ih =>
    obtain ⟨k', v'⟩ := p
    simp only [alookup] at h
    split at h
    · rename_i e; subst e; simp only [Option.some.injEq] at h; subst h; simp
    · exact List.mem_cons_of_mem _ (ih h)

/-! ### A -/

theorem cstep_nb_parked (c : Client) (e : CEv) (h : c.parked = none) : (cstep true c e).parked = none := by
  cases e with
  | store id => simp [cstep, orphan, h]
  | delete id => simp [cstep, orphan, h]
  | close => simp [cstep, h]
  | take id =>
    simp only [cstep, h]
    split
    · rfl
    · exact h
  | recv m =>
    simp only [cstep, h]
    split
    · exact h
    · split
      · exact h
      · split <;> simp [h]

theorem crun_nb_parked (evs : List CEv) : ∀ c, c.parked = none → (crun true c evs).parked = none := by
  induction evs with
  | nil => intro c h; exact h
  | cons e evs ih => intro c h; exact ih _ (cstep_nb_parked c e h)

theorem wedged_step (nb : Bool) (c : Client) (e : CEv) (h : wedged c = true) : wedged (cstep nb c e) = true := by
  unfold wedged at h
  cases hp : c.parked with
  | none => simp [hp] at h
  | some p =>
    obtain ⟨m, live⟩ := p
    simp only [hp] at h
    cases e with
    | close => simpa [cstep, wedged, hp] using h
    | recv x => simpa [cstep, wedged, hp] using h
    | store id =>
      simp only [cstep, wedged, hp, orphan, Option.map_some]
      by_cases hid : m.id = id
      · simp [hid]
      · have : id ≠ m.id := fun e => hid e.symm
        simpa [hid, alookup_aput, this] using h
    | delete id =>
      simp only [cstep, wedged, hp, orphan, Option.map_some]
      by_cases hid : m.id = id
      · simp [hid]
      · simpa [hid, alookup_aerase] using h
    | take id =>
      simp only [cstep]
      split
      · rename_i b hl
        cases live with
        | false => simp [hp, wedged]
        | true =>
          simp only [hp]
          by_cases hid : m.id = id
          · subst hid
            simp [hl] at h
          · simp only [hid, ↓reduceIte, wedged, alookup_aput]
            simpa [hid] using h
      · simpa [wedged, hp] using h

theorem wedged_run (nb : Bool) (evs : List CEv) : ∀ c, wedged c = true → wedged (crun nb c evs) = true := by
  induction evs with
  | nil => intro c h; exact h
  | cons e evs ih => intro c h; exact ih _ (wedged_step nb c e h)

theorem wedged_parked (c : Client) (h : wedged c = true) : c.parked.isSome = true ∧ loopCanExit c = false := by
  unfold wedged at h
  cases hp : c.parked with
  | none => simp [hp] at h
  | some p => simp [loopCanExit, hp]

/-! ### B -/

structure TInv (t : Tcp) : Prop where
  uniq : ∀ i j, i ≠ j → (t.conn i).pc ≠ .exited → (t.conn j).pc ≠ .exited → (t.conn i).key ≠ (t.conn j).key
  reg : ∀ i, (t.conn i).pc = .atSelect ∨ (t.conn i).pc = .inRead → alookup t.reg (t.conn i).key = some i
  fresh : ∀ j, t.n ≤ j → (t.conn j).pc = .exited

theorem tinv_init : TInv tinit :=
  ⟨fun i j _ h => absurd rfl h, fun i h => (by rcases h with h | h <;> cases h), fun j _ => rfl⟩

theorem upd_same {α : Type} (f : Nat → α) (i : Nat) (v : α) : upd f i v i = v := by simp [upd]
theorem upd_other {α : Type} (f : Nat → α) (i j : Nat) (v : α) (h : j ≠ i) : upd f i v j = f j := by simp [upd, h]

/-- a step that changes only connection `i`, keeps its key, keeps it live, and registers / keeps it registered -/
theorem tinv_pc (t : Tcp) (i : Nat) (pc' : HPc) (reg' : List (Nat × Nat)) (h : TInv t)
    (hlive : (t.conn i).pc ≠ .exited)
    (hreg : ∀ k, k ≠ (t.conn i).key → alookup reg' k = alookup t.reg k)
    (hreg' : pc' = .atSelect ∨ pc' = .inRead → alookup reg' (t.conn i).key = some i) :
    TInv { t with reg := reg', conn := upd t.conn i { t.conn i with pc := pc' } } := by
  refine ⟨?_, ?_, ?_⟩
  · intro a b hab ha hb
    have ha' : (t.conn a).pc ≠ .exited := by
      by_cases e : a = i
      · subst e; exact hlive
      · simpa [upd, e] using ha
    have hb' : (t.conn b).pc ≠ .exited := by
      by_cases e : b = i
      · subst e; exact hlive
      · simpa [upd, e] using hb
    have := h.uniq a b hab ha' hb'
    by_cases ea : a = i <;> by_cases eb : b = i <;> simp [upd, ea, eb] <;> simp_all
  · intro a ha
    by_cases e : a = i
    · subst e
      simp only [upd_same] at ha ⊢
      exact hreg' ha
    · simp only [upd_other _ _ _ _ e] at ha ⊢
      have hk : (t.conn a).key ≠ (t.conn i).key :=
        h.uniq a i e (by cases ha <;> rename_i ha <;> simp [ha]) hlive
      rw [hreg _ hk]
      exact h.reg a ha
  · intro j hj
    have : j ≠ i := by
      intro e; subst e
      exact hlive (h.fresh j hj)
    simp only [upd_other _ _ _ _ this]
    exact h.fresh j hj

theorem tinv_exit (t : Tcp) (i : Nat) (h : TInv t) (hlive : (t.conn i).pc ≠ .exited) : TInv (texit t i) := by
  unfold texit
  refine ⟨?_, ?_, ?_⟩
  · intro a b hab ha hb
    have ea : a ≠ i := by intro e; subst e; simp [upd] at ha
    have eb : b ≠ i := by intro e; subst e; simp [upd] at hb
    simp only [upd_other _ _ _ _ ea, upd_other _ _ _ _ eb] at ha hb ⊢
    exact h.uniq a b hab ha hb
  · intro a ha
    have ea : a ≠ i := by intro e; subst e; simp [upd] at ha
    simp only [upd_other _ _ _ _ ea] at ha ⊢
    have hk : (t.conn a).key ≠ (t.conn i).key :=
      h.uniq a i ea (by cases ha <;> rename_i ha <;> simp [ha]) hlive
    rw [alookup_aerase]
    simp only [hk, ↓reduceIte]
    exact h.reg a ha
  · intro j hj
    by_cases e : j = i
    · subst e; simp [upd]
    · simp only [upd_other _ _ _ _ e]; exact h.fresh j hj

theorem tinv_step (t : Tcp) (e : TEv) (h : TInv t) (hv : tvalid t e) : TInv (tstep t e) := by
  cases e with
  | closeQuit => exact ⟨h.uniq, h.reg, h.fresh⟩
  | rangeClose =>
    refine ⟨?_, ?_, ?_⟩
    · intro a b hab ha hb
      have e1 : ∀ j, ((tstep t .rangeClose).conn j).pc = (t.conn j).pc := by
        intro j; simp only [tstep]; split <;> rfl
      have e2 : ∀ j, ((tstep t .rangeClose).conn j).key = (t.conn j).key := by
        intro j; simp only [tstep]; split <;> rfl
      rw [e1] at ha hb; rw [e2, e2]
      exact h.uniq a b hab ha hb
    · intro a ha
      have e1 : ((tstep t .rangeClose).conn a).pc = (t.conn a).pc := by
        simp only [tstep]; split <;> rfl
      have e2 : ((tstep t .rangeClose).conn a).key = (t.conn a).key := by
        simp only [tstep]; split <;> rfl
      rw [e1] at ha; rw [e2]
      exact h.reg a ha
    · intro j hj
      have e1 : ((tstep t .rangeClose).conn j).pc = (t.conn j).pc := by
        simp only [tstep]; split <;> rfl
      rw [e1]; exact h.fresh j hj
  | accept k =>
    simp only [tvalid] at hv
    have hn : (t.conn t.n).pc = .exited := h.fresh _ (Nat.le_refl _)
    simp only [tstep]
    refine ⟨?_, ?_, ?_⟩
    · intro a b hab ha hb
      by_cases ea : a = t.n
      · subst ea
        have eb : b ≠ t.n := fun e => hab e.symm
        simp only [upd_same, upd_other _ _ _ _ eb] at hb ⊢
        exact fun e => hv b hb e.symm
      · by_cases eb : b = t.n
        · subst eb
          simp only [upd_same, upd_other _ _ _ _ ea] at ha ⊢
          exact hv a ha
        · simp only [upd_other _ _ _ _ ea, upd_other _ _ _ _ eb] at ha hb ⊢
          exact h.uniq a b hab ha hb
    · intro a ha
      by_cases ea : a = t.n
      · subst ea; simp [upd] at ha
      · simp only [upd_other _ _ _ _ ea] at ha ⊢
        exact h.reg a ha
    · intro j hj
      have hj' : t.n + 1 ≤ j := hj
      have : j ≠ t.n := by omega
      simp only [upd_other _ _ _ _ this]
      exact h.fresh j (by omega)
  | hstep i ok =>
    simp only [tstep]
    cases hp : (t.conn i).pc with
    | exited => exact h
    | atStore =>
      simp only
      apply tinv_pc t i .atSelect _ h (by simp [hp])
      · intro k hk; rw [alookup_aput]; simp [hk]
      · intro _; rw [alookup_aput]; simp
    | atSelect =>
      simp only
      split
      · exact tinv_exit t i h (by simp [hp])
      · have := tinv_pc t i .inRead t.reg h (by simp [hp]) (fun _ _ => rfl) (fun _ => h.reg i (by simp [hp]))
        exact this
    | inRead =>
      simp only
      split
      · have := tinv_pc t i .atSelect t.reg h (by simp [hp]) (fun _ _ => rfl) (fun _ => h.reg i (by simp [hp]))
        exact this
      · exact tinv_exit t i h (by simp [hp])


/-- after `Stop` has closed the quit channel and ranged over the registry: no handler is blocked in a read on an
    open connection -/
structure TJ (t : Tcp) : Prop where
  quit : t.quit = true
  closed : ∀ i, (t.conn i).pc = .inRead → (t.conn i).closed = true

theorem tj_establish (t : Tcp) (h : TInv t) (hq : t.quit = true) : TJ (tstep t .rangeClose) := by
  refine ⟨hq, ?_⟩
  intro i hi
  simp only [tstep] at hi ⊢
  have hpc : (t.conn i).pc = .inRead := by
    split at hi <;> exact hi
  have hm := alookup_mem _ _ _ (h.reg i (Or.inr hpc))
  have : t.reg.any (fun p => p.2 == i) = true := List.any_eq_true.mpr ⟨_, hm, by simp⟩
  simp [this]

theorem tj_step (t : Tcp) (e : TEv) (h : TJ t) : TJ (tstep t e) := by
  cases e with
  | closeQuit => exact ⟨rfl, h.closed⟩
  | rangeClose =>
    refine ⟨h.quit, ?_⟩
    intro i hi
    simp only [tstep] at hi ⊢
    split
    · rfl
    · rename_i hn
      simp only [hn] at hi
      exact h.closed i hi
  | accept k =>
    refine ⟨h.quit, ?_⟩
    intro i hi
    simp only [tstep] at hi ⊢
    by_cases e : i = t.n
    · subst e; simp [upd] at hi
    · simp only [upd_other _ _ _ _ e] at hi ⊢; exact h.closed i hi
  | hstep j ok =>
    have hq := h.quit
    have other : ∀ (c : HConn) (reg' : List (Nat × Nat)), c.pc ≠ .inRead →
        TJ { t with reg := reg', conn := upd t.conn j c } := by
      intro c reg' hc
      refine ⟨hq, ?_⟩
      intro i hi
      by_cases e : i = j
      · subst e; simp only [upd_same] at hi; exact absurd hi hc
      · simp only [upd_other _ _ _ _ e] at hi ⊢; exact h.closed i hi
    simp only [tstep]
    cases hp : (t.conn j).pc with
    | exited => exact h
    | atStore => exact other _ _ (by simp)
    | atSelect => simp only [hq, ↓reduceIte]; exact other _ _ (by simp)
    | inRead =>
      simp only
      split
      · exact other _ _ (by simp)
      · exact other _ _ (by simp)

def hdist : HPc → Nat
  | .exited => 0
  | .atSelect => 1
  | .inRead => 1
  | .atStore => 2

theorem tdist_step (t : Tcp) (e : TEv) (i : Nat) (h : TJ t)
    (hi : i < t.n) (hv : tvalid t e) :
    hdist ((tstep t e).conn i).pc = hdist (t.conn i).pc - hsteps i [e] ∧ i < (tstep t e).n := by
  cases e with
  | closeQuit => exact ⟨rfl, hi⟩
  | rangeClose =>
    refine ⟨?_, hi⟩
    simp only [tstep, hsteps]
    split <;> rfl
  | accept k =>
    have : i ≠ t.n := by omega
    refine ⟨?_, by simp only [tstep]; omega⟩
    simp only [tstep, hsteps, upd_other _ _ _ _ this]; rfl
  | hstep j ok =>
    refine ⟨?_, by simp only [tstep]; split <;> (try split) <;> exact hi⟩
    simp only [tvalid] at hv
    by_cases e : j = i
    · subst e
      simp only [hsteps, ↓reduceIte, tstep]
      cases hp : (t.conn j).pc with
      | exited => simp [hp, hdist]
      | atStore => simp [upd, hdist]
      | atSelect => simp [h.quit, texit, upd, hdist]
      | inRead =>
        have := hv hp (h.closed j hp)
        subst this
        simp [texit, upd, hdist]
    · have e' : i ≠ j := fun x => e x.symm
      simp only [hsteps, e, ↓reduceIte, tstep]
      cases hp : (t.conn j).pc with
      | exited => simp
      | atStore => simp [upd, e']
      | atSelect => simp [h.quit, texit, upd, e']
      | inRead => simp only; split <;> simp [texit, upd, e']

theorem tdist_run (i : Nat) (post : List TEv) : ∀ t, TJ t → i < t.n →
    TValid t post → hdist ((trun t post).conn i).pc = hdist (t.conn i).pc - hsteps i post := by
  induction post with
  | nil => intro t _ _ _; rfl
  | cons e es ih =>
    intro t hj hi hv
    obtain ⟨h1, h2⟩ := tdist_step t e i hj hi hv.1
    have := ih (tstep t e) (tj_step t e hj) h2 hv.2
    simp only [trun, List.foldl_cons] at this ⊢
    rw [this, h1]
    cases e <;> simp [hsteps] <;> omega

theorem tvalid_append (a b : List TEv) : ∀ t, TValid t (a ++ b) → TValid t a ∧ TValid (trun t a) b := by
  induction a with
  | nil => intro t h; exact ⟨trivial, h⟩
  | cons e a ih =>
    intro t h
    obtain ⟨h1, h2⟩ := ih _ h.2
    exact ⟨⟨h.1, h1⟩, h2⟩

theorem tinv_run (evs : List TEv) : ∀ t, TInv t → TValid t evs → TInv (trun t evs) := by
  induction evs with
  | nil => intro t h _; exact h
  | cons e es ih => intro t h hv; exact ih _ (tinv_step t e h hv.1) hv.2

theorem tquit_run (evs : List TEv) : ∀ t, t.quit = true → (trun t evs).quit = true := by
  induction evs with
  | nil => intro t h; exact h
  | cons e es ih =>
    intro t h
    apply ih
    cases e with
    | closeQuit => rfl
    | rangeClose => exact h
    | accept k => exact h
    | hstep i ok => simp only [tstep]; split <;> (try split) <;> exact h

theorem stop_closes_gen (pre mid post : List TEv)
    (hv : TValid tinit (pre ++ .closeQuit :: (mid ++ .rangeClose :: post))) :
    (∀ i, ((trun tinit (pre ++ .closeQuit :: (mid ++ [.rangeClose]))).conn i).pc = .inRead →
        ((trun tinit (pre ++ .closeQuit :: (mid ++ [.rangeClose]))).conn i).closed = true) ∧
    (∀ i, i < (trun tinit (pre ++ .closeQuit :: (mid ++ [.rangeClose]))).n → 2 ≤ hsteps i post →
        ((trun tinit (pre ++ .closeQuit :: (mid ++ .rangeClose :: post))).conn i).pc = .exited) := by
  obtain ⟨v1, v2⟩ := tvalid_append pre _ _ hv
  have i1 := tinv_run pre _ tinv_init v1
  obtain ⟨_, v3⟩ := v2
  obtain ⟨v4, v5⟩ := tvalid_append mid _ _ v3
  have i2 := tinv_step _ .closeQuit i1 trivial
  have i3 := tinv_run mid _ i2 v4
  have q3 : (trun (tstep (trun tinit pre) .closeQuit) mid).quit = true := tquit_run mid _ rfl
  have j4 := tj_establish _ i3 q3
  have e1 : trun tinit (pre ++ .closeQuit :: (mid ++ [.rangeClose]))
      = tstep (trun (tstep (trun tinit pre) .closeQuit) mid) .rangeClose := by
    simp [trun, List.foldl_append]
  have e2 : trun tinit (pre ++ .closeQuit :: (mid ++ .rangeClose :: post))
      = trun (tstep (trun (tstep (trun tinit pre) .closeQuit) mid) .rangeClose) post := by
    simp [trun, List.foldl_append]
  rw [e1, e2]
  refine ⟨j4.closed, ?_⟩
  intro i hi h2
  have := tdist_run i post _ j4 hi v5.2
  have hd : hdist ((tstep (trun (tstep (trun tinit pre) .closeQuit) mid) .rangeClose).conn i).pc ≤ 2 := by
    generalize ((tstep (trun (tstep (trun tinit pre) .closeQuit) mid) .rangeClose).conn i).pc = pc
    cases pc <;> simp [hdist]
  have h0 : hdist ((trun (tstep (trun (tstep (trun tinit pre) .closeQuit) mid) .rangeClose) post).conn i).pc = 0 := by omega
  generalize ((trun (tstep (trun (tstep (trun tinit pre) .closeQuit) mid) .rangeClose) post).conn i).pc = pc at h0
  cases pc <;> simp [hdist] at h0
  rfl

/-! ### C -/

def alive : SPc → Nat
  | .exited => 0
  | _ => 1
def pending : SPc → Nat
  | .added => 1
  | _ => 0

/-- with the Add before the `go`: the counter counts exactly the serve goroutine, a goroutine about to be started,
    the running goroutines and the counts leaked by goroutines that returned without `Done` -/
structure WInv (w : WG) : Prop where
  count : w.counter = alive w.serve + pending w.serve + w.working + w.leaked
  born : w.born = 0
  misuse : w.misuse = false
  ret : w.returned = true → w.serve = .exited ∧ w.working = 0 ∧ w.leaked = 0

theorem winv_init : WInv wginit := ⟨rfl, rfl, rfl, by intro h; cases h⟩

theorem winv_step (da : Bool) (w : WG) (e : WEv) (h : WInv w) : WInv (wgstep true da w e) := by
  obtain ⟨hc, hb, hm, hr⟩ := h
  cases e with
  | stopClose => exact ⟨hc, hb, hm, hr⟩
  | waitStart => simp only [wgstep]; split <;> exact ⟨hc, hb, hm, hr⟩
  | waitReturn =>
    simp only [wgstep]
    split
    · rename_i hw
      simp only [Bool.and_eq_true, beq_iff_eq] at hw
      refine ⟨hc, hb, hm, fun _ => ?_⟩
      have h0 := hw.2
      rw [hc] at h0
      show w.serve = .exited ∧ w.working = 0 ∧ w.leaked = 0
      cases hs : w.serve with
      | exited => exact ⟨rfl, by omega, by omega⟩
      | running => simp [hs, alive] at h0
      | added => simp [hs, alive] at h0
    · exact ⟨hc, hb, hm, hr⟩
  | hstart => simp only [wgstep, hb, ↓reduceIte]; exact ⟨hc, hb, hm, hr⟩
  | hfinish early =>
    simp only [wgstep]
    split
    · exact ⟨hc, hb, hm, hr⟩
    · rename_i hw
      have hret : w.returned = false := by
        cases hr' : w.returned
        · rfl
        · exact absurd (hr hr').2.1 hw
      split
      · exact ⟨by simp only; omega, hb, hm, by simp [hret]⟩
      · refine ⟨by simp only [wgDone]; omega, hb, ?_, by simp [wgDone, hret]⟩
        simp only [wgDone, hm, Bool.false_or, beq_eq_false_iff_ne]
        omega
  | serve exit =>
    simp only [wgstep]
    cases hs : w.serve with
    | exited => simp only; exact ⟨by rw [hc, hs], hb, hm, hr⟩
    | added =>
      simp only
      have hret : w.returned = false := by
        cases hr' : w.returned
        · rfl
        · have := (hr hr').1; rw [hs] at this; cases this
      exact ⟨by simp only [alive, pending]; rw [hc, hs]; simp only [alive, pending]; omega, hb, hm, by simp [hret]⟩
    | running =>
      simp only
      have hret : w.returned = false := by
        cases hr' : w.returned
        · rfl
        · have := (hr hr').1; rw [hs] at this; cases this
      rw [hs] at hc
      simp only [alive, pending] at hc
      split
      · refine ⟨by simp only [wgDone, alive, pending]; omega, hb, ?_, by simp [wgDone, hret]⟩
        simp only [wgDone, hm, Bool.false_or, beq_eq_false_iff_ne]
        omega
      · refine ⟨by simp only [wgAdd, alive, pending, ↓reduceIte]; omega, hb, ?_, by simp [wgAdd, hret]⟩
        simp only [↓reduceIte, wgAdd, hm, Bool.false_or]
        have : (w.counter == 0) = false := by simp; omega
        simp [this]

theorem winv_run (da : Bool) (evs : List WEv) : ∀ w, WInv w → WInv (wgrun true da w evs) := by
  induction evs with
  | nil => intro w h; exact h
  | cons e es ih => intro w h; exact ih _ (winv_step da w e h)

/-- with `Done` on every path nothing leaks -/
theorem noleak_run (evs : List WEv) : ∀ w, w.leaked = 0 → (wgrun true true w evs).leaked = 0 := by
  induction evs with
  | nil => intro w h; exact h
  | cons e es ih =>
    intro w h
    apply ih
    cases e with
    | stopClose => exact h
    | waitStart => simp only [wgstep]; split <;> exact h
    | waitReturn => simp only [wgstep]; split <;> exact h
    | hstart => simp only [wgstep]; split <;> simp [wgAdd, h]
    | hfinish early =>
      simp only [wgstep]
      split
      · exact h
      · simp [wgDone, h]
    | serve exit =>
      simp only [wgstep]
      split
      · exact h
      · split <;> simp [wgDone, wgAdd, h]
      · exact h

/-- a leaked count is never given back, and `Wait` cannot return while it is there -/
theorem leaked_run (da : Bool) (evs : List WEv) : ∀ w, WInv w → 1 ≤ w.leaked → w.returned = false →
    1 ≤ (wgrun true da w evs).leaked ∧ (wgrun true da w evs).returned = false := by
  induction evs with
  | nil => intro w _ h1 h2; exact ⟨h1, h2⟩
  | cons e es ih =>
    intro w hi h1 h2
    have hi' := winv_step da w e hi
    have hl : 1 ≤ (wgstep true da w e).leaked := by
      cases e with
      | stopClose => exact h1
      | waitStart => simp only [wgstep]; split <;> exact h1
      | waitReturn => simp only [wgstep]; split <;> exact h1
      | hstart => simp only [wgstep]; split <;> simp [wgAdd, h1]
      | hfinish early => simp only [wgstep]; split <;> (try split) <;> first | omega | (simp only [wgDone]; omega)
      | serve exit =>
        simp only [wgstep]
        split
        · exact h1
        · split
          · simp [wgDone, h1]
          · simp [wgAdd, h1]
        · exact h1
    refine ih _ hi' hl ?_
    cases hr : (wgstep true da w e).returned
    · rfl
    · have := (hi'.ret hr).2.2
      omega

/-! ### D -/

theorem isolated_step2 {σ : Type} (respond : σ → Bytes → σ × Bytes) (w : World σ) (st : Step2)
    (h : Isolated respond w) : Isolated respond (wstep2 respond true w st) := by
  cases st with
  | recv c d => exact isolated_step respond w (.recv c d) h
  | run i => exact isolated_step respond w (.run i) h
  | copy i =>
    simp only [wstep2]
    split
    · rename_i c n hi
      obtain ⟨b, hb, _⟩ := h.tasks _ (List.mem_of_getElem? hi)
      cases hb
    · exact h

theorem isolated_run2 {σ : Type} (respond : σ → Bytes → σ × Bytes) (sched : List Step2) :
    ∀ w, Isolated respond w → Isolated respond (wrun2 respond true w sched) := by
  induction sched with
  | nil => intro w h; exact h
  | cons st sched ih => intro w h; exact ih _ (isolated_step2 respond w st h)

/-! ### E -/

def linit (progs : Nat → List LInstr) : LState := ⟨none, progs⟩

/-- every thread's remaining program is well nested from where it stands (holding the mutex or not) -/
def LInv (s : LState) : Prop := ∀ t, wellNested (decide (s.owner = some t)) (s.prog t) = true

theorem linv_step (s : LState) (t : Nat) (h : LInv s) : LInv (lstep s t) := by
  unfold lstep
  cases hp : s.prog t with
  | nil => exact h
  | cons i rest =>
    have ht := h t
    rw [hp] at ht
    cases i with
    | work =>
      intro u
      by_cases e : u = t
      · subst e
        simp only [upd_same]
        cases hd : decide (s.owner = some u) <;> simp only [hd, wellNested] at ht ⊢ <;> exact ht
      · have := h u
        simpa [upd, e] using this
    | acquire =>
      simp only
      split
      · rename_i hn
        have hn' : s.owner = none := by simpa using hn
        intro u
        by_cases e : u = t
        · subst e
          simp only [upd_same]
          simp only [hn', reduceCtorEq, decide_false, wellNested] at ht
          simpa using ht
        · have := h u
          have e' : t ≠ u := fun x => e x.symm
          simpa [upd, e, e', hn'] using this
      · exact h
    | release =>
      have ho : s.owner = some t := by
        by_cases e : s.owner = some t
        · exact e
        · simp [e, wellNested] at ht
      intro u
      by_cases e : u = t
      · subst e
        simp only [ho, upd_same, ↓reduceIte]
        simpa [ho, wellNested] using ht
      · have := h u
        have e' : t ≠ u := fun x => e x.symm
        simpa [upd, e, e', ho] using this

theorem linv_run (sched : List Nat) : ∀ s, LInv s → LInv (lrun s sched) := by
  induction sched with
  | nil => intro s h; exact h
  | cons t ts ih => intro s h; exact ih _ (linv_step s t h)

theorem linv_enabled (s : LState) (h : LInv s) (t : Nat) (ht : s.prog t ≠ []) : ∃ u, lenabled s u = true := by
  cases ho : s.owner with
  | none =>
    refine ⟨t, ?_⟩
    unfold lenabled
    cases hp : s.prog t with
    | nil => exact absurd hp ht
    | cons i rest => cases i <;> simp [ho]
  | some o =>
    refine ⟨o, ?_⟩
    have := h o
    unfold lenabled
    cases hp : s.prog o with
    | nil => simp [ho, hp, wellNested] at this
    | cons i rest =>
      cases i with
      | acquire => simp [ho, hp, wellNested] at this
      | release => rfl
      | work => rfl

/-- the thread that waits for the mutex it holds never moves again, the mutex is never released, and no thread
    waiting for it ever gets it -/
theorem self_deadlock_run (t : Nat) (r : List LInstr) (sched : List Nat) : ∀ s : LState, s.owner = some t →
    s.prog t = .acquire :: r →
    (lrun s sched).owner = some t ∧ (lrun s sched).prog t = .acquire :: r ∧
    ∀ u r', s.prog u = .acquire :: r' → (lrun s sched).prog u = .acquire :: r' := by
  induction sched with
  | nil => intro s ho hp; exact ⟨ho, hp, fun _ _ h => h⟩
  | cons v vs ih =>
    intro s ho hp
    have key : (lstep s v).owner = some t ∧ (lstep s v).prog t = .acquire :: r ∧
        ∀ u r', s.prog u = .acquire :: r' → (lstep s v).prog u = .acquire :: r' := by
      unfold lstep
      cases hv : s.prog v with
      | nil => exact ⟨ho, hp, fun _ _ h => h⟩
      | cons i rest =>
        cases i with
        | acquire =>
          have hn : s.owner.isNone = false := by simp [ho]
          simp only [hn, Bool.false_eq_true, ↓reduceIte]
          exact ⟨ho, hp, fun _ _ h => h⟩
        | release =>
          have hvt : v ≠ t := by intro e; subst e; rw [hp] at hv; cases hv
          have hvt' : t ≠ v := fun e => hvt e.symm
          refine ⟨by simp [ho, hvt'], by simp [upd, hvt', hp], ?_⟩
          intro u r' hu
          have : u ≠ v := by intro e; subst e; rw [hu] at hv; cases hv
          simp [upd, this, hu]
        | work =>
          have hvt : v ≠ t := by intro e; subst e; rw [hp] at hv; cases hv
          have hvt' : t ≠ v := fun e => hvt e.symm
          refine ⟨ho, by simp [upd, hvt', hp], ?_⟩
          intro u r' hu
          have : u ≠ v := by intro e; subst e; rw [hu] at hv; cases hv
          simp [upd, this, hu]
    obtain ⟨k1, k2, k3⟩ := key
    obtain ⟨a, b, c⟩ := ih (lstep s v) k1 k2
    exact ⟨a, b, fun u r' hu => c u r' (k3 u r' hu)⟩

theorem wellNested_calls (calls : List (String × Bool)) :
    wellNested true (calls.flatMap (fun c => if c.2 then [LInstr.acquire, .work, .release] else [.work]) ++ [.release])
      = calls.all (fun c => !c.2) := by
  induction calls with
  | nil => rfl
  | cons c cs ih =>
    obtain ⟨f, a⟩ := c
    cases a
    · simpa [wellNested] using ih
    · simp [wellNested]

end Manticore.C18
