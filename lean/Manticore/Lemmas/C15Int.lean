/-
  Int64/UInt64 arithmetic kit for C15: wrap-around, truncating division and their unbounded readings.
-/
import Manticore.Model.C15
namespace Manticore.C15
open Manticore

theorem bmod_of_range (x : Int) (h1 : -9223372036854775808 ≤ x) (h2 : x < 9223372036854775808) :
    x.bmod (2^64) = x := by
  rw [Int.bmod_def]
  simp only [Nat.reducePow]
  omega

theorem tdiv_eq (a b : Int) : a.tdiv b = if 0 ≤ a then a / b else -((-a) / b) := by
  split
  · rename_i h; exact Int.tdiv_eq_ediv_of_nonneg h
  · rename_i h
    have : a = -(-a) := by omega
    rw [this, Int.neg_tdiv, Int.tdiv_eq_ediv_of_nonneg (by omega)]
    simp

theorem tmod_eq (a b : Int) : a.tmod b = if 0 ≤ a then a % b else -((-a) % b) := by
  split
  · rename_i h; exact Int.tmod_eq_emod_of_nonneg h
  · rename_i h
    have : a = -(-a) := by omega
    rw [this, Int.neg_tmod, Int.tmod_eq_emod_of_nonneg (by omega)]
    simp

theorem i64_range (x : Int64) : -9223372036854775808 ≤ x.toInt ∧ x.toInt < 9223372036854775808 := by
  have h1 := x.le_toInt; have h2 := x.toInt_lt
  constructor <;> omega

/-- division by a positive literal never overflows -/
theorem toInt_div_lit (a : Int64) (b : Int64) (hb : 1 ≤ b.toInt) : (a / b).toInt = a.toInt.tdiv b.toInt := by
  rw [Int64.toInt_div]
  have ⟨h1, h2⟩ := i64_range a
  apply bmod_of_range
  · rw [tdiv_eq]
    split
    · have := Int.ediv_nonneg (a := a.toInt) (b := b.toInt) (by omega) (by omega); omega
    · have : (-a.toInt) / b.toInt ≤ -a.toInt := Int.ediv_le_self _ (by omega)
      omega
  · rw [tdiv_eq]
    split
    · have : a.toInt / b.toInt ≤ a.toInt := Int.ediv_le_self _ (by omega)
      omega
    · have := Int.ediv_nonneg (a := -a.toInt) (b := b.toInt) (by omega) (by omega); omega

theorem lit_1e7 : (10000000 : Int64).toInt = 10000000 := by decide
theorem lit_1e9 : (1000000000 : Int64).toInt = 1000000000 := by decide
theorem lit_100 : (100 : Int64).toInt = 100 := by decide
theorem lit_0 : (0 : Int64).toInt = 0 := by decide
theorem lit_1 : (1 : Int64).toInt = 1 := by decide
theorem lit_epoch : epochTicks.toInt = 116444736000000000 := by decide
theorem lit_epochSec : (epochTicks / 10000000).toInt = 11644473600 := by decide

theorem toInt_add_of (a b : Int64) (h1 : -9223372036854775808 ≤ a.toInt + b.toInt)
    (h2 : a.toInt + b.toInt < 9223372036854775808) : (a + b).toInt = a.toInt + b.toInt := by
  rw [Int64.toInt_add]; exact bmod_of_range _ h1 h2
theorem toInt_sub_of (a b : Int64) (h1 : -9223372036854775808 ≤ a.toInt - b.toInt)
    (h2 : a.toInt - b.toInt < 9223372036854775808) : (a - b).toInt = a.toInt - b.toInt := by
  rw [Int64.toInt_sub]; exact bmod_of_range _ h1 h2
theorem toInt_mul_of (a b : Int64) (h1 : -9223372036854775808 ≤ a.toInt * b.toInt)
    (h2 : a.toInt * b.toInt < 9223372036854775808) : (a * b).toInt = a.toInt * b.toInt := by
  rw [Int64.toInt_mul]; exact bmod_of_range _ h1 h2

/-- `time.Unix(sec, nsec)` for a nanosecond argument of magnitude below one second -/
theorem goUnix_small (sec nsec : Int64) (hs1 : -4611686018427387904 ≤ sec.toInt) (hs2 : sec.toInt ≤ 4611686018427387904)
    (hn1 : -1000000000 < nsec.toInt) (hn2 : nsec.toInt < 1000000000) :
    toTime (goUnix sec nsec) =
      if nsec.toInt < 0 then ⟨sec.toInt - 1, (nsec.toInt + 1000000000).toNat⟩ else ⟨sec.toInt, nsec.toInt.toNat⟩ := by
  unfold goUnix
  have hlt : (nsec < 0) ↔ nsec.toInt < 0 := by rw [Int64.lt_iff_toInt_lt, lit_0]
  have hge : (nsec ≥ 1000000000) ↔ 1000000000 ≤ nsec.toInt := by
    rw [ge_iff_le, Int64.le_iff_toInt_le, lit_1e9]
  by_cases hneg : nsec.toInt < 0
  · have c1 : (decide (nsec < 0) || decide (nsec ≥ 1000000000)) = true := by simp [hlt.mpr hneg]
    rw [if_pos c1, if_pos hneg]
    have hn : nsec / 1000000000 = 0 := by
      rw [← Int64.toInt_inj, toInt_div_lit _ _ (by rw [lit_1e9]; omega), lit_1e9, lit_0, tdiv_eq, if_neg (by omega)]
      omega
    simp only [hn, Int64.add_zero, Int64.zero_mul, Int64.sub_zero]
    rw [if_pos (hlt.mpr hneg)]
    unfold toTime
    simp only
    rw [toInt_sub_of _ _ (by rw [lit_1]; omega) (by rw [lit_1]; omega), lit_1,
      toInt_add_of _ _ (by rw [lit_1e9]; omega) (by rw [lit_1e9]; omega), lit_1e9]
  · have c1 : (decide (nsec < 0) || decide (nsec ≥ 1000000000)) = false := by
      have a1 : ¬ (nsec < 0) := fun h => hneg (hlt.mp h)
      have a2 : ¬ (nsec ≥ 1000000000) := fun h => by have := hge.mp h; omega
      simp [a1, a2]
    rw [c1, if_neg hneg]
    simp [toTime]

/-- the split "whole seconds / remaining ticks" of a signed tick count, normalised by `time.Unix` -/
theorem split_time (ticks : Int64) (e : Int64) (he1 : 0 ≤ e.toInt) (he2 : e.toInt ≤ 100000000000000) :
    toTime (goUnix (ticks / 10000000 - e) ((ticks % 10000000) * 100)) = Spec.timeOfTicks e.toInt ticks.toInt := by
  have ⟨r1, r2⟩ := i64_range ticks
  have hq : (ticks / 10000000).toInt = ticks.toInt.tdiv 10000000 := by
    rw [toInt_div_lit _ _ (by rw [lit_1e7]; omega), lit_1e7]
  have hm : (ticks % 10000000).toInt = ticks.toInt.tmod 10000000 := by rw [Int64.toInt_mod, lit_1e7]
  rw [tdiv_eq] at hq
  rw [tmod_eq] at hm
  have hsec : (ticks / 10000000 - e).toInt = (ticks / 10000000).toInt - e.toInt := by
    apply toInt_sub_of <;> (rw [hq]; split <;> omega)
  have hns : ((ticks % 10000000) * 100).toInt = (ticks % 10000000).toInt * 100 := by
    rw [toInt_mul_of _ _ (by rw [lit_100, hm]; split <;> omega) (by rw [lit_100, hm]; split <;> omega), lit_100]
  rw [goUnix_small _ _ (by rw [hsec, hq]; split <;> omega) (by rw [hsec, hq]; split <;> omega)
    (by rw [hns, hm]; split <;> omega) (by rw [hns, hm]; split <;> omega)]
  rw [hns, hsec, hq, hm]
  unfold Spec.timeOfTicks
  by_cases h0 : 0 ≤ ticks.toInt
  · rw [if_pos h0, if_pos h0, if_neg (by omega)]
    congr 1
    omega
  · rw [if_neg h0, if_neg h0]
    split
    · congr 1 <;> omega
    · congr 1 <;> omega



theorem div100_ofInt (nsec : Int64) (h : 0 ≤ nsec.toInt) : nsec / 100 = Int64.ofInt (nsec.toInt / 100) := by
  rw [← Int64.toInt_inj, toInt_div_lit _ _ (by rw [lit_100]; omega), lit_100, tdiv_eq, if_pos h]
  have ⟨_, r2⟩ := i64_range nsec
  rw [Int64.toInt_ofInt_of_le (by omega) (by omega)]

/-- ticks of a time: `(sec + c) * 10⁷ + nsec / 100` computed in `int64` is the unbounded value
    reduced modulo 2⁶⁴ — intermediate wrap-around cancels -/
theorem ticks_ofInt (sec nsec c : Int64) (h : 0 ≤ nsec.toInt) :
    (sec + c) * 10000000 + nsec / 100 = Int64.ofInt ((sec.toInt + c.toInt) * 10000000 + nsec.toInt / 100) := by
  rw [div100_ofInt nsec h, Int64.ofInt_add, Int64.ofInt_mul, Int64.ofInt_add, Int64.ofInt_toInt, Int64.ofInt_toInt]
  rfl

theorem filetimeOfTime_ofInt (sec nsec : Int64) (h : 0 ≤ nsec.toInt) :
    filetimeOfTime sec nsec = Int64.ofInt (Spec.ticksOfTime Spec.sec1601 ⟨sec.toInt, nsec.toInt.toNat⟩) := by
  unfold filetimeOfTime Spec.ticksOfTime Spec.sec1601
  simp only
  rw [div100_ofInt nsec h]
  have e : ((nsec.toInt.toNat : Nat) : Int) = nsec.toInt := Int.toNat_of_nonneg h
  rw [e]
  rw [show (sec.toInt + 11644473600) * 10000000 + nsec.toInt / 100
      = sec.toInt * 10000000 + nsec.toInt / 100 + 116444736000000000 by omega]
  rw [Int64.ofInt_add, Int64.ofInt_add, Int64.ofInt_mul, Int64.ofInt_toInt]
  rfl

theorem toUInt64_ofInt_toNat (T : Int) (h1 : 0 ≤ T) (h2 : T < 18446744073709551616) :
    (Int64.ofInt T).toUInt64.toNat = T.toNat := by
  have : (Int64.ofInt T).toUInt64.toNat = (Int64.ofInt T).toBitVec.toNat := rfl
  rw [this, Int64.toBitVec_ofInt, BitVec.toNat_ofInt]
  simp only [Nat.reducePow]
  have : T % ((18446744073709551616 : Nat) : Int) = T := Int.emod_eq_of_lt h1 (by omega)
  rw [this]

theorem toInt_toInt64_small (u : UInt64) (h : u.toNat < 9223372036854775808) : u.toInt64.toInt = u.toNat := by
  have : u.toInt64.toInt = u.toInt64.toBitVec.toInt := rfl
  rw [this, UInt64.toBitVec_toInt64, BitVec.toInt_eq_toNat_bmod, UInt64.toNat_toBitVec]
  exact bmod_of_range _ (by omega) (by omega)

theorem ulit_1e7 : (10000000 : UInt64).toNat = 10000000 := by decide

theorem split_time_u (ts : UInt64) (c : Int64) (hc1 : 0 ≤ c.toInt) (hc2 : c.toInt ≤ 100000000000000) :
    toTime (goUnix ((ts / 10000000).toInt64 - c) ((ts % 10000000).toInt64 * 100))
      = Spec.timeOfTicks c.toInt ts.toNat := by
  have hts := ts.toNat_lt
  have hq : (ts / 10000000).toInt64.toInt = (ts.toNat / 10000000 : Nat) := by
    rw [toInt_toInt64_small _ (by rw [UInt64.toNat_div, ulit_1e7]; omega), UInt64.toNat_div, ulit_1e7]
  have hm : (ts % 10000000).toInt64.toInt = (ts.toNat % 10000000 : Nat) := by
    rw [toInt_toInt64_small _ (by rw [UInt64.toNat_mod, ulit_1e7]; omega), UInt64.toNat_mod, ulit_1e7]
  have hsec : ((ts / 10000000).toInt64 - c).toInt = (ts.toNat / 10000000 : Nat) - c.toInt := by
    rw [toInt_sub_of _ _ (by rw [hq]; omega) (by rw [hq]; omega), hq]
  have hns : ((ts % 10000000).toInt64 * 100).toInt = (ts.toNat % 10000000 : Nat) * 100 := by
    rw [toInt_mul_of _ _ (by rw [lit_100, hm]; omega) (by rw [lit_100, hm]; omega), lit_100, hm]
  rw [goUnix_small _ _ (by rw [hsec]; omega) (by rw [hsec]; omega) (by rw [hns]; omega) (by rw [hns]; omega)]
  rw [hns, hsec, if_neg (by omega)]
  unfold Spec.timeOfTicks
  congr 1 <;> omega

theorem ticks_u (sec nsec c : Int64) (h : 0 ≤ nsec.toInt)
    (h1 : 0 ≤ (sec.toInt + c.toInt) * 10000000 + nsec.toInt / 100)
    (h2 : (sec.toInt + c.toInt) * 10000000 + nsec.toInt / 100 < 18446744073709551616) :
    ((sec + c).toUInt64 * 10000000 + (nsec / 100).toUInt64).toNat
      = ((sec.toInt + c.toInt) * 10000000 + nsec.toInt / 100).toNat := by
  have e : (sec + c).toUInt64 * 10000000 + (nsec / 100).toUInt64 = ((sec + c) * 10000000 + nsec / 100).toUInt64 := by
    symm; rw [Int64.toUInt64_add, Int64.toUInt64_mul, Int64.toUInt64_add]; rfl
  rw [e, ticks_ofInt sec nsec c h, toUInt64_ofInt_toNat _ h1 h2]
end Manticore.C15
