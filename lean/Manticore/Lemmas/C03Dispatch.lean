/-
  C03 — the 512 rows of the dispatch property, evaluated by the kernel on the REGENERATED tables
  (`Gen/SmbDispatch.lean`).  Kept in its own module so that it is rebuilt only when the tables change.
-/
import Manticore.Model.C03
namespace Manticore.C03
open Manticore
open Manticore.Gen.SmbDispatch (Kind)

/-- one row of the dispatch property as an executable check: a command returned by the factory has the
    requested code as its own code, is an AndX type exactly for the MS-CIFS AndX codes, and is the Go type
    MS-CIFS names for this code and direction; an error is returned exactly when the code is not a `case`
    of the factory's switch; the factory never panics -/
def dispatchRowOK (reply : Bool) (code : UInt8) : Bool :=
  match factory reply code with
  | .ok k => k.ownCode == code && k.isAndX == Spec.andxCodes.contains code && Spec.typeName reply code == some k.goName
      && ((caseTable reply).map (·.1)).contains code
  | .err => !((caseTable reply).map (·.1)).contains code
  | .panic => false

theorem dispatch_rows_ok : ∀ n : Fin 256,
    dispatchRowOK true (UInt8.ofNat n.val) = true ∧ dispatchRowOK false (UInt8.ofNat n.val) = true := by
  decide +kernel

theorem dispatchRowOK_all (reply : Bool) (code : UInt8) : dispatchRowOK reply code = true := by
  have h := dispatch_rows_ok ⟨code.toNat, code.toNat_lt⟩
  simp only [UInt8.ofNat_toNat] at h
  cases reply
  · exact h.2
  · exact h.1

end Manticore.C03
