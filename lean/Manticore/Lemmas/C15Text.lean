/-
  Decimal text of 64-bit integers (C15): `fmt %d` and `strconv.ParseInt` are inverse.
-/
import Manticore.Lemmas.C15Int
import Manticore.Lemmas.C20Port
namespace Manticore.C15
open Manticore

theorem dec_head (n : Nat) : ∃ c rest, C20.dec n = c :: rest ∧ c ≠ 43 ∧ c ≠ 45 := by
  match hd : C20.dec n with
  | [] => exact absurd hd (C20.dec_ne_nil n)
  | c :: rest =>
    refine ⟨c, rest, rfl, ?_, ?_⟩
    all_goals
      have := C20.dec_all_digits n c (by rw [hd]; simp)
      rw [C20.isDigit_iff] at this
      intro e; subst e; simp at this

/-- **decimal strings**: every `int64` prints (`%d`) to a string that `ParseInt` reads back -/
theorem parseInt64_showInt64 (v : Int64) : parseInt64 (showInt64 v) = some v := by
  have ⟨r1, r2⟩ := i64_range v
  unfold showInt64
  by_cases hneg : v < 0
  · rw [if_pos hneg]
    have hn : v.toInt < 0 := by rw [Int64.lt_iff_toInt_lt, lit_0] at hneg; exact hneg
    unfold parseInt64
    simp only [beq_self_eq_true, Bool.or_true, if_true, Bool.not_true, Bool.false_and, Bool.true_and]
    have hp : C20.parseUint 10 64 (C20.dec (-v.toInt).toNat) = some (-v.toInt).toNat :=
      C20.parseUint_showNum 10 64 _ (by omega) (by omega) (by omega)
    rw [hp]
    simp only [Bool.false_eq_true, if_false, decide_eq_true_eq]
    rw [if_neg (by omega)]
    congr 1
    rw [Int.toNat_of_nonneg (by omega)]
    simp
  · rw [if_neg hneg]
    have hn : 0 ≤ v.toInt := by
      rw [Int64.lt_iff_toInt_lt, lit_0] at hneg; omega
    obtain ⟨c, rest, hd, h43, h45⟩ := dec_head v.toInt.toNat
    unfold parseInt64
    rw [hd]
    have e1 : (c == 45) = false := by simp [h45]
    have e2 : (c == 43) = false := by simp [h43]
    simp only [e1, e2, Bool.or_false, Bool.false_eq_true, if_false, Bool.not_false, Bool.true_and, Bool.false_and]
    have hp : C20.parseUint 10 64 (C20.dec v.toInt.toNat) = some v.toInt.toNat :=
      C20.parseUint_showNum 10 64 _ (by omega) (by omega) (by omega)
    rw [← hd, hp]
    simp only [decide_eq_true_eq]
    rw [if_neg (by omega)]
    congr 1
    rw [Int.toNat_of_nonneg hn]
    simp

theorem showInt64_ne_nil (v : Int64) : (showInt64 v).length ≠ 0 := by
  unfold showInt64
  split
  · simp
  · have := C20.dec_ne_nil v.toInt.toNat
    cases h : C20.dec v.toInt.toNat with
    | nil => exact absurd h this
    | cons _ _ => simp

theorem ldapToUnix_of_parse (s : Bytes) (v : Int64) (h : parseInt64 s = some v) (hne : s.length ≠ 0) :
    (ldapToUnix s).toInt = Spec.ldapToUnix v.toInt := by
  have ⟨r1, r2⟩ := i64_range v
  unfold ldapToUnix Spec.ldapToUnix Spec.sec1601
  rw [if_pos hne, h]
  simp only
  have hlt : v < epochTicks ↔ v.toInt < 116444736000000000 := by rw [Int64.lt_iff_toInt_lt, lit_epoch]
  by_cases hv : v.toInt < 116444736000000000
  · rw [if_pos (hlt.mpr hv), if_pos (by omega), lit_0]
  · rw [if_neg (fun h => hv (hlt.mp h)), if_neg (by omega)]
    have hs : (v - epochTicks).toInt = v.toInt - 116444736000000000 := by
      rw [toInt_sub_of _ _ (by rw [lit_epoch]; omega) (by rw [lit_epoch]; omega), lit_epoch]
    rw [toInt_div_lit _ _ (by rw [lit_1e7]; omega), lit_1e7, hs, tdiv_eq, if_pos (by omega)]
    omega

theorem ldapDur_of_parse (s : Bytes) (v : Int64) (h : parseInt64 s = some v) (hne : s.length ≠ 0) :
    (ldapDurationToSeconds s).toInt = Spec.durationToSeconds v.toInt := by
  have ⟨r1, r2⟩ := i64_range v
  unfold ldapDurationToSeconds Spec.durationToSeconds
  rw [if_pos hne, h]
  simp only
  have hq : (v / 10000000).toInt = v.toInt.tdiv 10000000 := by
    rw [toInt_div_lit _ _ (by rw [lit_1e7]; omega), lit_1e7]
  rw [tdiv_eq] at hq
  have hlt : v / 10000000 < 0 ↔ (v / 10000000).toInt < 0 := by rw [Int64.lt_iff_toInt_lt, lit_0]
  by_cases h0 : 0 ≤ v.toInt
  · rw [if_pos h0] at hq
    rw [if_neg (by rw [hlt, hq]; omega), hq]
    omega
  · rw [if_neg h0] at hq
    by_cases hz : (v / 10000000).toInt < 0
    · rw [if_pos (hlt.mpr hz), Int64.toInt_neg, bmod_of_range _ (by rw [hq]; omega) (by rw [hq]; omega), hq]
      omega
    · rw [if_neg (fun h => hz (hlt.mp h)), hq]
      rw [hq] at hz
      omega

theorem unixToLdap_ofInt (sec : Int64) : unixToLdap sec = Int64.ofInt (Spec.unixToLdap sec.toInt) := by
  unfold unixToLdap Spec.unixToLdap Spec.sec1601
  rw [Int64.ofInt_add, Int64.ofInt_mul, Int64.ofInt_toInt]; rfl

theorem showInt64_spec (v : Int64) : showInt64 v = Spec.showInt v.toInt := by
  unfold showInt64 Spec.showInt
  have hlt : v < 0 ↔ v.toInt < 0 := by rw [Int64.lt_iff_toInt_lt, lit_0]
  by_cases h : v.toInt < 0
  · rw [if_pos (hlt.mpr h), if_pos h]
    congr 2; omega
  · rw [if_neg (fun hh => h (hlt.mp hh)), if_neg h]
end Manticore.C15
