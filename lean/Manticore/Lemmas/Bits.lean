/-
  Kernel-only bit-level reasoning (no `bv_decide`): a goal `a = b` on `BitVec n` / `UIntN` is reduced
  to its bits, the bit index is split into its concrete values, and `simp` evaluates each.
-/
namespace Manticore

/-- case split `i < 8` into its 8 values -/
theorem cases_lt_8 (i : Nat) (hi : i < 8) : i = 0 ∨ i = 1 ∨ i = 2 ∨ i = 3 ∨ i = 4 ∨ i = 5 ∨ i = 6 ∨ i = 7 := by omega

/-- case split `i < 16` into its 16 values -/
theorem cases_lt_16 (i : Nat) (hi : i < 16) : i = 0 ∨ i = 1 ∨ i = 2 ∨ i = 3 ∨ i = 4 ∨ i = 5 ∨ i = 6 ∨ i = 7 ∨ i = 8 ∨ i = 9 ∨ i = 10 ∨ i = 11 ∨ i = 12 ∨ i = 13 ∨ i = 14 ∨ i = 15 := by omega

/-- case split `i < 32` into its 32 values -/
theorem cases_lt_32 (i : Nat) (hi : i < 32) : i = 0 ∨ i = 1 ∨ i = 2 ∨ i = 3 ∨ i = 4 ∨ i = 5 ∨ i = 6 ∨ i = 7 ∨ i = 8 ∨ i = 9 ∨ i = 10 ∨ i = 11 ∨ i = 12 ∨ i = 13 ∨ i = 14 ∨ i = 15 ∨ i = 16 ∨ i = 17 ∨ i = 18 ∨ i = 19 ∨ i = 20 ∨ i = 21 ∨ i = 22 ∨ i = 23 ∨ i = 24 ∨ i = 25 ∨ i = 26 ∨ i = 27 ∨ i = 28 ∨ i = 29 ∨ i = 30 ∨ i = 31 := by omega

/-- case split `i < 64` into its 64 values -/
theorem cases_lt_64 (i : Nat) (hi : i < 64) : i = 0 ∨ i = 1 ∨ i = 2 ∨ i = 3 ∨ i = 4 ∨ i = 5 ∨ i = 6 ∨ i = 7 ∨ i = 8 ∨ i = 9 ∨ i = 10 ∨ i = 11 ∨ i = 12 ∨ i = 13 ∨ i = 14 ∨ i = 15 ∨ i = 16 ∨ i = 17 ∨ i = 18 ∨ i = 19 ∨ i = 20 ∨ i = 21 ∨ i = 22 ∨ i = 23 ∨ i = 24 ∨ i = 25 ∨ i = 26 ∨ i = 27 ∨ i = 28 ∨ i = 29 ∨ i = 30 ∨ i = 31 ∨ i = 32 ∨ i = 33 ∨ i = 34 ∨ i = 35 ∨ i = 36 ∨ i = 37 ∨ i = 38 ∨ i = 39 ∨ i = 40 ∨ i = 41 ∨ i = 42 ∨ i = 43 ∨ i = 44 ∨ i = 45 ∨ i = 46 ∨ i = 47 ∨ i = 48 ∨ i = 49 ∨ i = 50 ∨ i = 51 ∨ i = 52 ∨ i = 53 ∨ i = 54 ∨ i = 55 ∨ i = 56 ∨ i = 57 ∨ i = 58 ∨ i = 59 ∨ i = 60 ∨ i = 61 ∨ i = 62 ∨ i = 63 := by omega

/-- close `x = y` on `BitVec 8` bit by bit -/
macro "bv_bits8" : tactic => `(tactic|
  (apply BitVec.eq_of_getLsbD_eq
   intro i hi
   rcases cases_lt_8 i hi with h | h | h | h | h | h | h | h <;> subst h <;> simp))

/-- close `x = y` on `BitVec 16` bit by bit -/
macro "bv_bits16" : tactic => `(tactic|
  (apply BitVec.eq_of_getLsbD_eq
   intro i hi
   rcases cases_lt_16 i hi with h | h | h | h | h | h | h | h | h | h | h | h | h | h | h | h <;> subst h <;> simp))

/-- close `x = y` on `BitVec 32` bit by bit -/
macro "bv_bits32" : tactic => `(tactic|
  (apply BitVec.eq_of_getLsbD_eq
   intro i hi
   rcases cases_lt_32 i hi with h | h | h | h | h | h | h | h | h | h | h | h | h | h | h | h | h | h | h | h | h | h | h | h | h | h | h | h | h | h | h | h <;> subst h <;> simp))

/-- close `x = y` on `BitVec 64` bit by bit -/
macro "bv_bits64" : tactic => `(tactic|
  (apply BitVec.eq_of_getLsbD_eq
   intro i hi
   rcases cases_lt_64 i hi with h | h | h | h | h | h | h | h | h | h | h | h | h | h | h | h | h | h | h | h | h | h | h | h | h | h | h | h | h | h | h | h | h | h | h | h | h | h | h | h | h | h | h | h | h | h | h | h | h | h | h | h | h | h | h | h | h | h | h | h | h | h | h | h <;> subst h <;> simp))

end Manticore
