/-
  C04 helper lemmas for the loop fragment (`Model/SmbLoops.lean`), marshal side and the loops themselves:
  `runMStmts_layoutL` — the two raw streams `runM` builds for a program `layoutML` accepts are the
  `layoutBytes` of that layout (the proof of `runMStmts_layout` with the two loop statements added);
  `readInts_layout`, `readSubsCounted_layout` — the unmarshal loops read back the concatenation of the
  elements' encodings.
-/
import Manticore.Lemmas.SmbMarshal
import Manticore.Model.SmbLoops
namespace Manticore.SmbIR
open Manticore

/-- the statements `layoutML` accepts -/
inductive MStmt.FragL : MStmt → Prop
  | frag {st} (h : st.Frag) : FragL st
  | forInt (b w e f) : FragL (.forInt b w e f)
  | forSub (b f t) : FragL (.forSub b f t)
  | ifNonZero (f b w e) : FragL (.ifNonZero f [.int b w e f])
  | ifNonZeroArr (f b w e) : FragL (.ifNonZeroArr f [.forInt b w e f])

/-- the slots a statement of the loop fragment contributes -/
def MStmt.slotsL : MStmt → List Slot
  | .int b w e f => [.int b w e f]
  | .quad b w e f => [.int b w e f]
  | .u8 b f => [.u8 b f]
  | .bytes b f => [.bytes b f none]
  | .arr b f => [.arr b f]
  | .sub b f t => [.sub b f t none]
  | .forInt b w e f => [.ints b w e f none]
  | .forSub b f t => [.subs b f t none none]
  | .ifNonZero f [.int b w e _] => [.opt b w e f none]
  | .ifNonZeroArr f [.forInt b w e _] => [.optInts b w e f 0 none]
  | _ => []

theorem bind_ok' {α β} {x : Outcome α} {f : α → Outcome β} {y : β}
    (h : (x >>= f) = .ok y) : ∃ a, x = .ok a ∧ f a = .ok y := by
  cases x with
  | ok a => exact ⟨a, rfl, h⟩
  | err => cases h
  | panic => cases h

theorem layoutML_ifNonZero {f : String} {body r : List MStmt} {m : List Slot}
    (h : layoutML (.ifNonZero f body :: r) = some m) :
    ∃ b w e, body = [.int b w e f] ∧ ∃ m', layoutML r = some m' ∧ m = .opt b w e f none :: m' := by
  cases body with
  | nil => simp [layoutML] at h
  | cons x t =>
    cases t with
    | cons y t' => simp [layoutML] at h
    | nil =>
      cases x <;> try (simp [layoutML] at h; done)
      rename_i b w e g
      simp only [layoutML] at h
      split at h
      · rename_i hfg
        subst hfg
        simp only [Option.map_eq_some_iff] at h
        obtain ⟨m', h1, h2⟩ := h
        exact ⟨b, w, e, rfl, m', h1, h2.symm⟩
      · cases h

theorem layoutML_ifNonZeroArr {f : String} {body r : List MStmt} {m : List Slot}
    (h : layoutML (.ifNonZeroArr f body :: r) = some m) :
    ∃ b w e, body = [.forInt b w e f] ∧ ∃ m', layoutML r = some m' ∧ m = .optInts b w e f 0 none :: m' := by
  cases body with
  | nil => simp [layoutML] at h
  | cons x t =>
    cases t with
    | cons y t' => simp [layoutML] at h
    | nil =>
      cases x <;> try (simp [layoutML] at h; done)
      rename_i b w e g
      simp only [layoutML] at h
      split at h
      · rename_i hfg
        subst hfg
        simp only [Option.map_eq_some_iff] at h
        obtain ⟨m', h1, h2⟩ := h
        exact ⟨b, w, e, rfl, m', h1, h2.symm⟩
      · cases h

theorem layoutML_cons {st : MStmt} {r : List MStmt} {m : List Slot} (h : layoutML (st :: r) = some m) :
    st.FragL ∧ ∃ m', layoutML r = some m' ∧ m = st.slotsL ++ m' := by
  cases st
  case forInt b w e f =>
    simp only [layoutML, Option.map_eq_some_iff] at h
    obtain ⟨m', h1, h2⟩ := h
    exact ⟨.forInt b w e f, m', h1, by simp [MStmt.slotsL, ← h2]⟩
  case forSub b f t =>
    simp only [layoutML, Option.map_eq_some_iff] at h
    obtain ⟨m', h1, h2⟩ := h
    exact ⟨.forSub b f t, m', h1, by simp [MStmt.slotsL, ← h2]⟩
  case ifNonZero f body =>
    obtain ⟨b, w, e, rfl, m', h1, h2⟩ := layoutML_ifNonZero h
    exact ⟨.ifNonZero f b w e, m', h1, by simp [MStmt.slotsL, h2]⟩
  case ifNonZeroArr f body =>
    obtain ⟨b, w, e, rfl, m', h1, h2⟩ := layoutML_ifNonZeroArr h
    exact ⟨.ifNonZeroArr f b w e, m', h1, by simp [MStmt.slotsL, h2]⟩
  all_goals
    simp only [layoutML, Option.map_eq_some_iff] at h
    first
      | (obtain ⟨m', h1, h2⟩ := h; exact ⟨.frag (by constructor), m', h1, by simp [MStmt.slotsL, ← h2]⟩)
      | exact ⟨.frag (by constructor), m, h, by simp [MStmt.slotsL]⟩
      | cases h

/-- `layoutML` extends `layoutM` -/
theorem layoutML_of_layoutM : ∀ (stmts : List MStmt) (m : List Slot), layoutM stmts = some m → layoutML stmts = some m
  | [], m, h => by simpa [layoutM, layoutML] using h
  | st :: r, m, h => by
    obtain ⟨hf, m', hl', hm⟩ := layoutM_cons h
    have ih := layoutML_of_layoutM r m' hl'
    cases hf <;> simp only [List.nil_append, List.cons_append] at hm <;> subst hm <;> simp [layoutML, ih]

/-- one statement of the loop fragment changes at most the field it `modifies`, and keeps `head` -/
theorem runMStmt_frameL (C : Codecs) (andx : Bool) (s s' : MState) (st : MStmt) (hf : st.FragL)
    (h : runMStmt C andx s st = .ok s') (f : String) (hm : st.modifies ≠ some f) :
    s'.env.get f = s.env.get f := by
  cases hf with
  | frag hf => exact runMStmt_frame C andx s s' st hf h f hm
  | forInt b w e g =>
    rw [runMStmt] at h
    split at h <;> try cases h
    cases b <;> rfl
  | forSub b g t =>
    rw [runMStmt] at h
    split at h <;> try cases h
    obtain ⟨bs, _, hs⟩ := bind_ok' h
    cases hs
    cases b <;> rfl
  | ifNonZero g b w e =>
    rw [runMStmt] at h
    obtain ⟨x, hx, hif⟩ := bind_ok' h
    split at hif
    · simp only [runMStmts, runMStmt, hx, Outcome.bind_ok, Outcome.pure_eq, Outcome.ok.injEq] at hif
      subst hif; cases b <;> rfl
    · cases hif; rfl
  | ifNonZeroArr g b w e =>
    rw [runMStmt] at h
    split at h <;> try cases h
    rename_i xs hxs
    split at h
    · simp only [runMStmts, runMStmt, hxs, Outcome.bind_ok, Outcome.pure_eq, Outcome.ok.injEq] at h
      subst h; cases b <;> rfl
    · cases h; rfl

theorem runMStmts_frameL (C : Codecs) (andx : Bool) (stmts : List MStmt) :
    ∀ (m : List Slot) (s s' : MState), layoutML stmts = some m →
      runMStmts C andx s stmts = .ok s' → ∀ f, stmts.all (fun st => st.modifies != some f) = true →
      s'.env.get f = s.env.get f := by
  induction stmts with
  | nil => intro m s s' _ h f _; rw [runMStmts] at h; cases h; rfl
  | cons st r ih =>
    intro m s s' hl h f hall
    obtain ⟨hfrag, m', hl', _⟩ := layoutML_cons hl
    rw [runMStmts] at h
    cases h1 : runMStmt C andx s st <;> simp [h1] at h
    rename_i s1
    simp only [List.all_cons, Bool.and_eq_true, bne_iff_ne, ne_eq] at hall
    rw [ih m' s1 s' hl' h f hall.2]
    exact runMStmt_frameL C andx s s1 st hfrag h1 f hall.1

/-! ### the marshal loops -/

/-- bytes of one list element as `slotBytes` writes them -/
def encBytes (C : Codecs) (typ : String) (v : Tup) : Bytes :=
  match C.enc typ v with
  | .ok (bs, _) => bs
  | _ => []

theorem slotBytes_subs (C : Codecs) (env : Env) (b : Blk) (f typ : String) (cnt : Option String) (size : Option Nat)
    (vs : List Tup) (h : env.get f = some (.ts vs)) :
    slotBytes C env (.subs b f typ cnt size) = vs.flatMap (encBytes C typ) := by
  simp only [slotBytes, h]; rfl

/-- the `range` loop over nested values appends the elements' encodings in order; every element encodes -/
theorem forSub_fold (C : Codecs) (typ : String) : ∀ (vs : List Tup) (acc bs : Bytes),
    vs.foldlM (fun acc v => do let (x, _) ← C.enc typ v; pure (acc ++ x)) acc = Outcome.ok bs →
      bs = acc ++ vs.flatMap (encBytes C typ) ∧ ∀ v ∈ vs, ∃ x v', C.enc typ v = .ok (x, v') := by
  intro vs
  induction vs with
  | nil =>
    intro acc bs h
    simp only [List.foldlM_nil, Outcome.pure_eq, Outcome.ok.injEq] at h
    subst h
    exact ⟨by simp, fun v hv => by cases hv⟩
  | cons v r ih =>
    intro acc bs h
    simp only [List.foldlM_cons] at h
    cases he : C.enc typ v with
    | ok p =>
      obtain ⟨x, v'⟩ := p
      simp only [he, Outcome.bind_ok, Outcome.pure_eq] at h
      obtain ⟨h1, h2⟩ := ih (acc ++ x) bs h
      refine ⟨by simp [h1, encBytes, he], ?_⟩
      intro w hw
      rcases List.mem_cons.mp hw with rfl | hw
      · exact ⟨x, v', he⟩
      · exact h2 w hw
    | err => simp [he] at h
    | panic => simp [he] at h

/-! ### Marshal is the layout -/

theorem runMStmts_layoutL {C : Codecs} {T : String → Prop} (hC : LawfulCodecs C T) (andx : Bool)
    (stmts : List MStmt) :
    ∀ (m : List Slot) (s s' : MState), layoutML stmts = some m → stableM stmts = true →
      (∀ b f t, MStmt.sub b f t ∈ stmts → T t) → (∀ b f t, MStmt.forSub b f t ∈ stmts → T t) →
      runMStmts C andx s stmts = .ok s' → intsFit s'.env stmts = true →
      s'.P = s.P ++ layoutBytes C s'.env (m.filter (·.blk == .P)) ∧
      s'.D = s.D ++ layoutBytes C s'.env (m.filter (·.blk == .D)) ∧
      s'.head = s.head ∧ ∀ sl ∈ m, SlotFit C T s'.env sl := by
  induction stmts with
  | nil =>
    intro m s s' hl _ _ _ h _
    rw [runMStmts] at h; cases h
    simp only [layoutML, Option.some.injEq] at hl; subst hl
    simp [layoutBytes_nil]
  | cons st r ih =>
    intro m s s' hl hst hT hTl h hfit
    obtain ⟨hfragL, m', hl', hm⟩ := layoutML_cons hl
    rw [runMStmts] at h
    cases h1 : runMStmt C andx s st <;> simp [h1] at h
    rename_i s1
    rw [stableM, Bool.and_eq_true] at hst
    have hT' : ∀ b f t, MStmt.sub b f t ∈ r → T t := fun b f t hmem => hT b f t (List.mem_cons_of_mem _ hmem)
    have hTl' : ∀ b f t, MStmt.forSub b f t ∈ r → T t := fun b f t hmem => hTl b f t (List.mem_cons_of_mem _ hmem)
    have hfit' : intsFit s'.env r = true := by
      cases hfragL with
      | frag hfrag => cases hfrag <;> simp [intsFit] at hfit <;> first | exact hfit.2 | exact hfit
      | forInt b w e f => simp [intsFit] at hfit; exact hfit.2
      | forSub b f t => simpa [intsFit] using hfit
      | ifNonZero f b w e => simp [intsFit] at hfit; exact hfit.2
      | ifNonZeroArr f b w e => simp [intsFit] at hfit; exact hfit.2
    obtain ⟨hP, hD, hH, hS⟩ := ih m' s1 s' hl' hst.2 hT' hTl' h hfit'
    have hframe := fun f => runMStmts_frameL C andx r m' s1 s' hl' h f
    cases hfragL with
    | forInt b w e f =>
      simp only [MStmt.slotsL, List.cons_append, List.nil_append] at hm; subst hm
      rw [runMStmt] at h1
      split at h1 <;> try cases h1
      rename_i xs hg
      have hst1 := hst.1; simp only [emittedField] at hst1
      have hget : s'.env.get f = some (.ns xs) := by
        rw [hframe f hst1]; cases b <;> exact hg
      have hx : ∀ x ∈ xs, x < 256 ^ w := by
        simp only [intsFit, hget, Bool.and_eq_true, List.all_eq_true, decide_eq_true_eq] at hfit; exact hfit.1
      obtain ⟨g1, g2⟩ := layout_step C s'.env b (.ints b w e f none) rfl m' s _ s' (xs.flatMap (intBytes w e)) rfl rfl hP hD
        (by simp [slotBytes, hget])
      refine ⟨g1, g2, by rw [hH]; cases b <;> rfl, ?_⟩
      intro sl hsl
      rcases List.mem_cons.mp hsl with rfl | hsl
      · exact ⟨xs, hget, hx⟩
      · exact hS sl hsl
    | forSub b f t =>
      simp only [MStmt.slotsL, List.cons_append, List.nil_append] at hm; subst hm
      rw [runMStmt] at h1
      split at h1 <;> try cases h1
      rename_i vs hg
      obtain ⟨bs, hfo, hs1⟩ := bind_ok' h1
      cases hs1
      obtain ⟨hbs, henc⟩ := forSub_fold C t vs [] bs hfo
      simp only [List.nil_append] at hbs
      have hst1 := hst.1; simp only [emittedField] at hst1
      have hget : s'.env.get f = some (.ts vs) := by
        rw [hframe f hst1]; cases b <;> exact hg
      obtain ⟨g1, g2⟩ := layout_step C s'.env b (.subs b f t none none) rfl m' s _ s' bs rfl rfl hP hD
        (by rw [slotBytes_subs C s'.env b f t none none vs hget, hbs])
      refine ⟨g1, g2, by rw [hH]; cases b <;> rfl, ?_⟩
      intro sl hsl
      rcases List.mem_cons.mp hsl with rfl | hsl
      · exact ⟨vs, hget, hTl b f t (List.mem_cons_self ..), henc⟩
      · exact hS sl hsl
    | ifNonZero f b w e =>
      simp only [MStmt.slotsL, List.cons_append, List.nil_append] at hm; subst hm
      rw [runMStmt] at h1
      obtain ⟨x, hg, hif⟩ := bind_ok' h1
      have hst1 := hst.1; simp only [emittedField] at hst1
      have hx : x < 256 ^ w := by
        have hs1 : s1.env.get f = some (.n x) := by
          split at hif
          · simp only [runMStmts, runMStmt, hg, Outcome.bind_ok, Outcome.pure_eq, Outcome.ok.injEq] at hif
            subst hif; cases b <;> exact getN_ok hg
          · cases hif; exact getN_ok hg
        have hget : s'.env.get f = some (.n x) := by rw [hframe f hst1]; exact hs1
        simp [intsFit, hget] at hfit; exact hfit.1
      have hbytes : ∃ bytes, s1.P = (s.app b bytes).P ∧ s1.D = (s.app b bytes).D ∧ s1.head = s.head ∧
          s1.env.get f = some (.n x) ∧ bytes = (if x = 0 then [] else intBytes w e x) := by
        by_cases hx0 : x = 0
        · subst hx0
          simp only [bne_self_eq_false, Bool.false_eq_true, ↓reduceIte, Outcome.pure_eq, Outcome.ok.injEq] at hif
          subst hif
          exact ⟨[], by cases b <;> simp [MState.app], by cases b <;> simp [MState.app], rfl, getN_ok hg, by simp⟩
        · have hne : (x != 0) = true := by simpa using hx0
          simp only [hne, ↓reduceIte, runMStmts, runMStmt, hg, Outcome.bind_ok, Outcome.pure_eq, Outcome.ok.injEq] at hif
          subst hif
          exact ⟨intBytes w e x, rfl, rfl, by cases b <;> rfl, by cases b <;> exact getN_ok hg, by simp [hx0]⟩
      obtain ⟨bytes, e1, e2, e3, hs1, hb⟩ := hbytes
      have hget : s'.env.get f = some (.n x) := by rw [hframe f hst1]; exact hs1
      obtain ⟨g1, g2⟩ := layout_step C s'.env b (.opt b w e f none) rfl m' s _ s' bytes e1 e2 hP hD
        (by simp [slotBytes, hget, hb])
      refine ⟨g1, g2, by rw [hH, e3], ?_⟩
      intro sl hsl
      rcases List.mem_cons.mp hsl with rfl | hsl
      · exact ⟨x, hget, hx⟩
      · exact hS sl hsl
    | ifNonZeroArr f b w e =>
      simp only [MStmt.slotsL, List.cons_append, List.nil_append] at hm; subst hm
      rw [runMStmt] at h1
      split at h1 <;> try cases h1
      rename_i xs hg
      have hst1 := hst.1; simp only [emittedField] at hst1
      have hbytes : ∃ bytes, s1.P = (s.app b bytes).P ∧ s1.D = (s.app b bytes).D ∧ s1.head = s.head ∧
          s1.env.get f = some (.ns xs) ∧ bytes = (if xs.any (· != 0) then xs.flatMap (intBytes w e) else []) := by
        by_cases hany : xs.any (· != 0) = true
        · simp only [hany, ↓reduceIte, runMStmts, runMStmt, hg, Outcome.bind_ok, Outcome.pure_eq, Outcome.ok.injEq] at h1
          subst h1
          exact ⟨xs.flatMap (intBytes w e), rfl, rfl, by cases b <;> rfl, by cases b <;> exact hg, by simp [hany]⟩
        · simp only [hany, Bool.false_eq_true, ↓reduceIte, Outcome.ok.injEq] at h1
          subst h1
          exact ⟨[], by cases b <;> simp [MState.app], by cases b <;> simp [MState.app], rfl, hg, by simp [hany]⟩
      obtain ⟨bytes, e1, e2, e3, hs1, hb⟩ := hbytes
      have hget : s'.env.get f = some (.ns xs) := by rw [hframe f hst1]; exact hs1
      have hx : ∀ x ∈ xs, x < 256 ^ w := by
        simp only [intsFit, hget, Bool.and_eq_true, List.all_eq_true, decide_eq_true_eq, Bool.and_true] at hfit; exact hfit.1
      obtain ⟨g1, g2⟩ := layout_step C s'.env b (.optInts b w e f 0 none) rfl m' s _ s' bytes e1 e2 hP hD
        (by simp [slotBytes, hget, hb])
      refine ⟨g1, g2, by rw [hH, e3], ?_⟩
      intro sl hsl
      rcases List.mem_cons.mp hsl with rfl | hsl
      · exact ⟨xs, hget, hx⟩
      · exact hS sl hsl
    | frag hfrag =>
    cases hfrag <;> rw [runMStmt] at h1 <;> simp only [MStmt.slotsL, List.nil_append, List.cons_append] at hm <;> subst hm
    case int b w e f =>
      cases hg : getN s.env f <;> simp [hg] at h1
      rename_i x
      subst h1
      have hst1 := hst.1; simp only [emittedField] at hst1
      have hget : s'.env.get f = some (.n x) := by
        rw [hframe f hst1]; cases b <;> exact getN_ok hg
      have hx : x < 256 ^ w := by simp [intsFit, hget] at hfit; exact hfit.1
      obtain ⟨h1, h2⟩ := layout_step C s'.env b (.int b w e f) rfl m' s _ s' (intBytes w e x) rfl rfl hP hD
        (by simp [slotBytes, hget])
      refine ⟨h1, h2, by rw [hH]; cases b <;> rfl, ?_⟩
      intro sl hsl
      rcases List.mem_cons.mp hsl with rfl | hsl
      · exact ⟨x, hget, hx⟩
      · exact hS sl hsl
    case quad b w e f =>
      cases hg : getN s.env f <;> simp [hg] at h1
      rename_i x
      subst h1
      have hst1 := hst.1; simp only [emittedField] at hst1
      have hget : s'.env.get f = some (.n x) := by
        rw [hframe f hst1]; cases b <;> exact getN_ok hg
      have hx : x < 256 ^ w := by simp [intsFit, hget] at hfit; exact hfit.1
      obtain ⟨h1, h2⟩ := layout_step C s'.env b (.int b w e f) rfl m' s _ s' (intBytes w e x) rfl rfl hP hD
        (by simp [slotBytes, hget])
      refine ⟨h1, h2, by rw [hH]; cases b <;> rfl, ?_⟩
      intro sl hsl
      rcases List.mem_cons.mp hsl with rfl | hsl
      · exact ⟨x, hget, hx⟩
      · exact hS sl hsl
    case u8 b f =>
      cases hg : getN s.env f <;> simp [hg] at h1
      rename_i x
      subst h1
      have hst1 := hst.1; simp only [emittedField] at hst1
      have hget : s'.env.get f = some (.n x) := by
        rw [hframe f hst1]; cases b <;> exact getN_ok hg
      have hx : x < 256 := by simp [intsFit, hget] at hfit; exact hfit.1
      obtain ⟨h1, h2⟩ := layout_step C s'.env b (.u8 b f) rfl m' s _ s' [UInt8.ofNat x] rfl rfl hP hD
        (by simp [slotBytes, hget])
      refine ⟨h1, h2, by rw [hH]; cases b <;> rfl, ?_⟩
      intro sl hsl
      rcases List.mem_cons.mp hsl with rfl | hsl
      · exact ⟨x, hget, hx⟩
      · exact hS sl hsl
    case bytes b f =>
      split at h1 <;> try cases h1
      rename_i bs hg
      have hst1 := hst.1; simp only [emittedField] at hst1
      have hget : s'.env.get f = some (.b bs) := by
        rw [hframe f hst1]; cases b <;> exact hg
      obtain ⟨h1, h2⟩ := layout_step C s'.env b (.bytes b f none) rfl m' s _ s' bs rfl rfl hP hD
        (by simp [slotBytes, hget])
      refine ⟨h1, h2, by rw [hH]; cases b <;> rfl, ?_⟩
      intro sl hsl
      rcases List.mem_cons.mp hsl with rfl | hsl
      · exact ⟨bs, hget⟩
      · exact hS sl hsl
    case arr b f =>
      split at h1 <;> try cases h1
      rename_i bs hg
      have hst1 := hst.1; simp only [emittedField] at hst1
      have hget : s'.env.get f = some (.b bs) := by
        rw [hframe f hst1]; cases b <;> exact hg
      obtain ⟨h1, h2⟩ := layout_step C s'.env b (.arr b f) rfl m' s _ s' bs rfl rfl hP hD
        (by simp [slotBytes, hget])
      refine ⟨h1, h2, by rw [hH]; cases b <;> rfl, ?_⟩
      intro sl hsl
      rcases List.mem_cons.mp hsl with rfl | hsl
      · exact ⟨bs, hget⟩
      · exact hS sl hsl
    case sub b f t =>
      split at h1 <;> try cases h1
      rename_i v hg
      cases he : C.enc t v <;> simp [he] at h1
      rename_i r1
      obtain ⟨bs, v'⟩ := r1
      subst h1
      have hTt : T t := hT b f t (List.mem_cons_self ..)
      have hidem := hC.idem t v bs v' hTt he
      have hst1 := hst.1; simp only [emittedField] at hst1
      have hget : s'.env.get f = some (.t v') := by
        rw [hframe f hst1]; cases b <;> simp [MState.app, Env.get_set_self]
      obtain ⟨h1, h2⟩ := layout_step C s'.env b (.sub b f t none) rfl m' s _ s' bs
        (by cases b <;> rfl) (by cases b <;> rfl) hP hD (by simp [slotBytes, hget, hidem])
      refine ⟨h1, h2, by rw [hH]; cases b <;> rfl, ?_⟩
      intro sl hsl
      rcases List.mem_cons.mp hsl with rfl | hsl
      · exact ⟨v', bs, hget, hidem, hTt⟩
      · exact hS sl hsl
    case setFmt f k =>
      split at h1 <;> try cases h1
      exact ⟨hP, hD, hH, hS⟩
    case assignLen f g w =>
      split at h1 <;> try cases h1
      all_goals exact ⟨hP, hD, hH, hS⟩

/-! ### the unmarshal loops read back the concatenation of the elements' encodings -/

theorem readInts_layout (w : Nat) (e : End) (ext post : Bytes) : ∀ (xs : List Nat) (pre : Bytes) (acc : List Nat),
    (∀ x ∈ xs, x < 256 ^ w) →
    readInts (pre ++ (xs.flatMap (intBytes w e) ++ post)) ext w e xs.length pre.length acc =
      .ok (acc ++ xs, pre.length + w * xs.length) := by
  intro xs
  induction xs with
  | nil => intro pre acc _; simp [readInts]
  | cons x r ih =>
    intro pre acc hx
    have hx0 : x < 256 ^ w := hx x (List.mem_cons_self ..)
    have hs : sliceC (pre ++ ((x :: r).flatMap (intBytes w e) ++ post)) ext pre.length (pre.length + w) =
        .ok (intBytes w e x) := by
      rw [List.flatMap_cons, List.append_assoc]
      exact sliceC_mid pre (intBytes w e x) _ ext w (intBytes_length w e x).symm
    rw [List.length_cons, readInts, hs]
    simp only [intVal_intBytes w e x hx0]
    have hpre : pre ++ ((x :: r).flatMap (intBytes w e) ++ post) =
        (pre ++ intBytes w e x) ++ (r.flatMap (intBytes w e) ++ post) := by
      simp [List.flatMap_cons, List.append_assoc]
    have hlen : pre.length + w = (pre ++ intBytes w e x).length := by simp [intBytes_length]
    rw [hpre, hlen, ih (pre ++ intBytes w e x) (acc ++ [x]) (fun y hy => hx y (List.mem_cons_of_mem _ hy))]
    simp only [List.length_append, intBytes_length, List.append_assoc, List.singleton_append, Outcome.ok.injEq,
      Prod.mk.injEq, true_and]
    rw [Nat.mul_succ]; omega

theorem readSubsCounted_layout (C : Codecs) (typ : String) (size : Nat) (ext post : Bytes) :
    ∀ (vs : List Tup) (pre : Bytes) (acc : List Tup),
      (∀ v ∈ vs, ∃ bs, C.enc typ v = .ok (bs, v) ∧ bs.length = size ∧ C.dec typ bs = .ok (v, bs.length)) →
      readSubsCounted C typ (pre ++ (vs.flatMap (encBytes C typ) ++ post)) ext size vs.length pre.length acc =
        .ok (acc ++ vs, pre.length + size * vs.length) := by
  intro vs
  induction vs with
  | nil => intro pre acc _; simp [readSubsCounted]
  | cons v r ih =>
    intro pre acc hv
    obtain ⟨bs, henc, hlen, hdec⟩ := hv v (List.mem_cons_self ..)
    have heb : encBytes C typ v = bs := by simp [encBytes, henc]
    have hblk : pre ++ ((v :: r).flatMap (encBytes C typ) ++ post) = pre ++ (bs ++ (r.flatMap (encBytes C typ) ++ post)) := by
      simp [List.flatMap_cons, heb, List.append_assoc]
    have hs : sliceC (pre ++ (bs ++ (r.flatMap (encBytes C typ) ++ post))) ext pre.length (pre.length + size) = .ok bs :=
      sliceC_mid pre bs _ ext size hlen.symm
    rw [List.length_cons, readSubsCounted, hblk]
    rw [if_neg (by simp only [List.length_append]; omega), hs]
    simp only [hdec]
    have hpre : pre ++ (bs ++ (r.flatMap (encBytes C typ) ++ post)) = (pre ++ bs) ++ (r.flatMap (encBytes C typ) ++ post) := by
      simp [List.append_assoc]
    have hl2 : pre.length + bs.length = (pre ++ bs).length := by simp
    rw [hpre, hl2, ih (pre ++ bs) (acc ++ [v]) (fun y hy => hv y (List.mem_cons_of_mem _ hy))]
    simp only [List.length_append, List.append_assoc, List.singleton_append, Outcome.ok.injEq, Prod.mk.injEq, true_and]
    rw [Nat.mul_succ, hlen]; omega

end Manticore.SmbIR
