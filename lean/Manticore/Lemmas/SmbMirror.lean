/-
  C04 helper lemmas, glue: agreeing layouts encode to the same bytes; the envelope around the two
  raw streams (`paramBlock` / `dataBlock` vs `splitParams` / `splitData`); and the generic round trip
  of a command whose programs satisfy `Mirror`.
-/
import Manticore.Lemmas.SmbUnmarshal
import Manticore.Lemmas.SmbReencode
namespace Manticore.SmbIR
open Manticore

/-! ### agreeing layouts -/

theorem agrees_bytes {C : Codecs} {T : String → Prop} {env : Env} {a b : Slot} (h : a.agrees b = true) :
    slotBytes C env a = slotBytes C env b ∧ (SlotFit C T env a → SlotFit C T env b) := by
  cases a <;> cases b <;> simp only [Slot.agrees, Bool.and_eq_true, beq_iff_eq, Bool.false_eq_true] at h
  all_goals
    first
      | (obtain ⟨⟨⟨rfl, rfl⟩, rfl⟩, rfl⟩ := h; exact ⟨rfl, id⟩)
      | (obtain ⟨⟨rfl, rfl⟩, rfl⟩ := h; exact ⟨rfl, id⟩)
      | (obtain ⟨rfl, rfl⟩ := h; exact ⟨rfl, id⟩)

theorem agreeAll_bytes {C : Codecs} {T : String → Prop} {env : Env} :
    ∀ (ms us : List Slot), agreeAll ms us = true →
      layoutBytes C env ms = layoutBytes C env us ∧
      ((∀ sl ∈ ms, SlotFit C T env sl) → ∀ sl ∈ us, SlotFit C T env sl) ∧ (ms = [] → us = [])
  | [], [] => fun _ => ⟨rfl, fun h => h, fun _ => rfl⟩
  | [], _ :: _ => fun h => by simp [agreeAll] at h
  | _ :: _, [] => fun h => by simp [agreeAll] at h
  | a :: ms, b :: us => fun h => by
    simp only [agreeAll, Bool.and_eq_true] at h
    obtain ⟨h1, h2, _⟩ := agreeAll_bytes (C := C) (T := T) (env := env) ms us h.2
    obtain ⟨g1, g2⟩ := agrees_bytes (C := C) (T := T) (env := env) h.1
    refine ⟨by rw [layoutBytes_cons, layoutBytes_cons, g1, h1], ?_, fun e => by cases e⟩
    intro hfit sl hsl
    rcases List.mem_cons.mp hsl with rfl | hsl
    · exact g2 (hfit _ (List.mem_cons_self ..))
    · exact h2 (fun s hs => hfit s (List.mem_cons_of_mem _ hs)) sl hsl

/-! ### the envelope -/

theorem wordsBytes_even : ∀ (p : Bytes), p.length % 2 = 0 → wordsBytes p = p
  | [], _ => rfl
  | [_], h => by simp at h
  | a :: b :: rest, h => by
    rw [wordsBytes, wordsBytes_even rest (by simp only [List.length_cons] at h; omega)]

/-! ### the AndX block on both sides -/

theorem andxBytesOf_congr (b : Bool) (e1 e2 : Env) (h : e1.get andxField = e2.get andxField) :
    andxBytesOf b e1 = andxBytesOf b e2 := by
  unfold andxBytesOf; rw [h]

theorem andxBytesOf_length (b : Bool) (env : Env) : (andxBytesOf b env).length = (andxBytes b).length := by
  unfold andxBytesOf andxBytes
  cases b
  · rfl
  · simp only [if_true]
    split <;> rfl

/-- a well-formed AndX block goes out as four bytes that `AndX.Unmarshal` reads back to the same block -/
theorem andxOk_decode (env : Env) (h : andxOk true env = true) :
    ∃ a b c d, andxBytesOf true (prologueEnv true env) = [a, b, c, d] ∧
      (prologueEnv true env).get andxField = some (andxVal a b c d) := by
  unfold andxOk at h
  simp only [Bool.not_true, Bool.false_or] at h
  split at h
  · rename_i c r o hget
    simp only [Bool.and_eq_true, decide_eq_true_eq] at h
    obtain ⟨⟨hc, hr⟩, ho⟩ := h
    refine ⟨UInt8.ofNat c, UInt8.ofNat r, UInt8.ofNat (o / 256), UInt8.ofNat (o % 256), ?_, ?_⟩
    · unfold andxBytesOf; rw [hget]; rfl
    · rw [hget]
      unfold andxVal
      rw [toNat_ofNat_lt c hc, toNat_ofNat_lt r hr, toNat_ofNat_lt (o / 256) (by omega),
        toNat_ofNat_lt (o % 256) (by omega)]
      have : 256 * (o / 256) + o % 256 = o := by omega
      rw [this]
  · cases h

/-- the prologue leaves a command that holds an AndX block (or is no AndX command) as it is -/
theorem prologueEnv_id (b : Bool) (env : Env) (h : b = true → (env.get andxField).isSome = true) :
    prologueEnv b env = env := by
  unfold prologueEnv
  cases b
  · simp
  · have := h rfl
    cases hg : env.get andxField <;> simp [hg] at this ⊢

theorem splitParams_paramBlock (andx : Bool) (ax p rest : Bytes) (heven : p.length % 2 = 0)
    (hwc : wordCountOf andx p ≤ 255) (hax : ax.length = (andxBytes andx).length) :
    splitParams (paramBlock andx ax p ++ rest) = .ok (wordCountOf andx p, ax ++ p, rest) := by
  cases andx with
  | true =>
    obtain ⟨a, b, c, d, rfl⟩ : ∃ a b c d, ax = [a, b, c, d] := by
      match ax, hax with
      | [a, b, c, d], _ => exact ⟨a, b, c, d, rfl⟩
    have hw : wordCountOf true p = 2 + p.length / 2 := by simp [wordCountOf, andxWords]; omega
    rw [hw] at hwc ⊢
    have hmod : (2 + p.length / 2) % 256 = 2 + p.length / 2 := Nat.mod_eq_of_lt (by omega)
    have htn : (UInt8.ofNat (2 + p.length / 2)).toNat = 2 + p.length / 2 := toNat_ofNat_lt _ (by omega)
    have hpos : 2 + p.length / 2 > 0 := by omega
    simp only [paramBlock, hw, hmod, hpos, if_true, wordsBytes_even p heven, List.cons_append,
      List.nil_append, splitParams, htn]
    rw [if_neg (by simp; omega)]
    have h2 : 2 * (2 + p.length / 2) = p.length + 4 := by omega
    simp [h2, List.take_succ_cons, List.drop_succ_cons]
  | false =>
    have hax0 : ax = [] := List.eq_nil_of_length_eq_zero (by simpa [andxBytes] using hax)
    subst hax0
    have hw : wordCountOf false p = p.length / 2 := by simp [wordCountOf, andxWords]; omega
    rw [hw] at hwc ⊢
    have hmod : p.length / 2 % 256 = p.length / 2 := Nat.mod_eq_of_lt (by omega)
    by_cases hz : p.length / 2 > 0
    · have htn : (UInt8.ofNat (p.length / 2)).toNat = p.length / 2 := toNat_ofNat_lt _ (by omega)
      simp only [paramBlock, hw, hmod, hz, if_true, List.nil_append,
        wordsBytes_even p heven, List.cons_append, splitParams, htn]
      rw [if_neg (by simp; omega)]
      have h2 : 2 * (p.length / 2) = p.length := by omega
      simp [h2]
    · have hp : p = [] := List.eq_nil_of_length_eq_zero (by omega)
      subst hp
      simp [paramBlock, wordCountOf, andxWords, splitParams]

theorem splitData_dataBlock (d : Bytes) (h : d.length ≤ 65535) : splitData (dataBlock d) = .ok (d, []) := by
  have hmod : d.length % 65536 = d.length := Nat.mod_eq_of_lt (by omega)
  simp only [dataBlock, hmod, natLe, List.cons_append, List.nil_append, splitData]
  have h0 : (UInt8.ofNat (d.length % 256)).toNat = d.length % 256 := toNat_ofNat_lt _ (by omega)
  have h1 : (UInt8.ofNat (d.length / 256 % 256)).toNat = d.length / 256 := by
    rw [toNat_ofNat_lt _ (by omega)]; omega
  rw [h0, h1]
  have hbc : d.length % 256 + 256 * (d.length / 256) = d.length := by omega
  rw [hbc]
  by_cases hz : d.length > 0
  · simp [hz]
  · have hd : d = [] := List.eq_nil_of_length_eq_zero (by omega)
    subst hd; simp

theorem mem_subTypes {c : Cmd} {b : Blk} {f t : String} (h : MStmt.sub b f t ∈ c.marshal) : t ∈ c.subTypes := by
  unfold Cmd.subTypes
  exact List.mem_filterMap.mpr ⟨_, h, rfl⟩

theorem mem_filter_blk (u : List Slot) (sl : Slot) (h : sl ∈ u) : sl ∈ u.filter (·.blk == sl.blk) :=
  List.mem_filter.mpr ⟨h, by simp⟩

/-! ### what `Mirror` and `consistent` give, unpacked -/

structure MirrorFacts (c : Cmd) (body : List UStmt) (m u : List Slot) : Prop where
  hbody : bodyN c = some body
  lm : layoutM c.marshal = some m
  lu : layoutU body = some u
  agP : agreeAll (m.filter (·.blk == .P)) (u.filter (·.blk == .P)) = true
  agD : agreeAll (m.filter (·.blk == .D)) (u.filter (·.blk == .D)) = true
  lastP : restOnlyLast (u.filter (·.blk == .P)) = true
  lastD : restOnlyLast (u.filter (·.blk == .D)) = true
  stable : stableM c.marshal = true
  noAndx : c.marshal.all (fun s => s.modifies != some andxField) = true
  ok : okU (!(u.filter (·.blk == .P)).isEmpty) (!(u.filter (·.blk == .D)).isEmpty) {}
    (if c.isAndX then [andxField] else []) body = true
  covered : ∀ f ∈ c.fields.map (·.1), f ∈ u.map Slot.field

theorem mirror_facts {c : Cmd} (hm : Mirror c = true) : ∃ body m u, MirrorFacts c body m u := by
  unfold Mirror at hm
  split at hm
  · cases hm
  · rename_i body hbody
    split at hm
    · rename_i m u hlm hlu
      simp only [mirrorSlots, Bool.and_eq_true, List.all_eq_true, List.contains_iff_mem] at hm
      obtain ⟨⟨⟨⟨⟨⟨⟨h1, h2⟩, h3⟩, h4⟩, h6⟩, h6a⟩, h7⟩, h8⟩ := hm
      exact ⟨body, m, u, hbody, hlm, hlu, h1, h2, h3, h4, h6, List.all_eq_true.mpr h6a, h7, h8⟩
    · cases hm

theorem agrees_field {a b : Slot} (h : a.agrees b = true) : a.field = b.field := by
  cases a <;> cases b <;> simp only [Slot.agrees, Bool.and_eq_true, beq_iff_eq, Bool.false_eq_true] at h
  all_goals
    first
      | exact h.2
      | exact h.1.2

theorem agreeAll_fields : ∀ (ms us : List Slot), agreeAll ms us = true → ms.map Slot.field = us.map Slot.field
  | [], [] => fun _ => rfl
  | [], _ :: _ => fun h => by simp [agreeAll] at h
  | _ :: _, [] => fun h => by simp [agreeAll] at h
  | a :: ms, b :: us => fun h => by
    simp only [agreeAll, Bool.and_eq_true] at h
    rw [List.map_cons, List.map_cons, agrees_field h.1, agreeAll_fields ms us h.2]

/-- the AndX bytes a command goes out with -/
def axOf (c : Cmd) (env : Env) : Bytes := andxBytesOf c.isAndX (prologueEnv c.isAndX env)

/-- everything the round trip establishes, for the two corollaries -/
theorem mirror_roundtrip_full {C : Codecs} {T : String → Prop} (hC : LawfulCodecs C T) (c : Cmd)
    (hm : Mirror c = true) (hT : ∀ t ∈ c.subTypes, T t) (env0 env : Env) (hc : consistent C c env = true) :
    ∃ (body : List UStmt) (m u : List Slot) (sM : MState) (d : Env),
      MirrorFacts c body m u ∧ runM C c env = .ok sM ∧ sM.head = [] ∧
      sM.P = layoutBytes C sM.env (m.filter (·.blk == .P)) ∧ sM.D = layoutBytes C sM.env (m.filter (·.blk == .D)) ∧
      (∀ sl ∈ m, SlotFit C T sM.env sl) ∧
      decodeCmd C c env0 (paramBlock c.isAndX (axOf c env) sM.P ++ dataBlock sM.D) = .ok d ∧
      sM.env.get andxField = (prologueEnv c.isAndX env).get andxField ∧
      (c.isAndX = true → d.get andxField = sM.env.get andxField ∧ (sM.env.get andxField).isSome = true) ∧
      ((∀ f ∈ u.map Slot.field, d.get f = sM.env.get f) ∨ c.fields = []) := by
  obtain ⟨body, m, u, F⟩ := mirror_facts hm
  unfold consistent at hc
  rw [Bool.and_eq_true] at hc
  obtain ⟨haok, hc⟩ := hc
  split at hc
  case h_2 => cases hc
  rename_i sM hrun
  simp only [Bool.and_eq_true, decide_eq_true_eq, beq_iff_eq, Bool.or_eq_true, List.isEmpty_iff] at hc
  obtain ⟨⟨⟨⟨⟨hints, hrel⟩, heven⟩, hwc⟩, hdl⟩, hne⟩ := hc
  -- marshal side
  have hTm : ∀ b f t, MStmt.sub b f t ∈ c.marshal → T t := fun b f t h => hT t (mem_subTypes h)
  obtain ⟨hP, hD, hH, hfitM⟩ := runMStmts_layout hC c.isAndX c.marshal m { env := prologueEnv c.isAndX env } sM F.lm
    F.stable hTm hrun hints
  -- a program of the fragment puts nothing ahead of the parameter block
  have hhead : sM.head = [] := hH
  simp only [List.nil_append] at hP hD
  have hframe : sM.env.get andxField = (prologueEnv c.isAndX env).get andxField :=
    runMStmts_frame C c.isAndX c.marshal m { env := prologueEnv c.isAndX env } sM F.lm hrun andxField F.noAndx
  obtain ⟨hbP, hfP, hnilP⟩ := agreeAll_bytes (C := C) (T := T) (env := sM.env) _ _ F.agP
  obtain ⟨hbD, hfD, _⟩ := agreeAll_bytes (C := C) (T := T) (env := sM.env) _ _ F.agD
  have hfitU : ∀ sl ∈ u, SlotFit C T sM.env sl := by
    intro sl hsl
    cases hb : sl.blk
    · exact hfP (fun s hs => hfitM s (List.mem_filter.mp hs).1) sl (by have := mem_filter_blk u sl hsl; rwa [hb] at this)
    · exact hfD (fun s hs => hfitM s (List.mem_filter.mp hs).1) sl (by have := mem_filter_blk u sl hsl; rwa [hb] at this)
  have hsp := splitParams_paramBlock c.isAndX (axOf c env) sM.P (dataBlock sM.D) heven hwc
    (andxBytesOf_length c.isAndX _)
  have hsd := splitData_dataBlock sM.D hdl
  -- unmarshal side
  have hrestU : ∀ b, restOnlyLast (u.filter (·.blk == b)) = true := by
    intro b; cases b
    · exact F.lastP
    · exact F.lastD
  let s0 : UState :=
    { P := axOf c env ++ sM.P, D := sM.D,
      Pext := List.replicate (streamCap (axOf c env ++ sM.P).length - (axOf c env ++ sM.P).length) 0,
      Dext := [], wordCount := wordCountOf c.isAndX sM.P, env := env0 }
  -- the AndX stanza (if any) stores the AndX block and hands the command's own parameters to the rest of the program
  have hgo : ∃ (s1 : UState), s1.P = sM.P ∧ s1.D = sM.D ∧ s1.offset = 0 ∧
      runU.go C s0 c.unmarshal = runU.go C s1 body ∧ relationsHold C sM.env sM.P.length 0 body = true ∧
      Agree (if c.isAndX then [andxField] else []) s1.env sM.env ∧
      (c.isAndX = true → (sM.env.get andxField).isSome = true) := by
    have hb := F.hbody
    unfold bodyN bodyU at hb
    cases ha : c.isAndX with
    | false =>
      rw [ha] at hb
      simp only [Bool.false_eq_true, if_false, Option.map_some, Option.some.injEq] at hb
      subst hb
      rw [← relationsHold_normWhole C sM.env sM.P.length c.unmarshal 0] at hrel
      rw [← go_normWhole C c.unmarshal s0]
      exact ⟨s0, by simp [s0, axOf, ha, andxBytesOf], rfl, rfl, rfl, hrel, fun f hf => by simp at hf,
        fun h => by cases h⟩
    | true =>
      rw [ha] at hb haok hframe
      simp only [if_true, Option.map_eq_some_iff] at hb
      obtain ⟨body0, hb, rfl⟩ := hb
      obtain ⟨a, b, cc, dd, hax, hval⟩ := andxOk_decode env haok
      have h0 : s0.P = a :: b :: cc :: dd :: sM.P := by simp [s0, axOf, ha, hax]
      refine ⟨afterAndX s0 a b cc dd sM.P, rfl, rfl, rfl,
        (go_andx_prefix C a b cc dd sM.P c.unmarshal body0 s0 hb h0).trans (go_normWhole C body0 _).symm, ?_, ?_, fun _ => ?_⟩
      · rw [relationsHold_normWhole, ← relationsHold_splitAndX C sM.env sM.P.length c.unmarshal body0 0 hb]; exact hrel
      · intro f hf
        have : f = andxField := by simpa using hf
        subst this
        show (env0.set andxField (andxVal a b cc dd)).get andxField = _
        rw [Env.get_set_self, hframe, hval]
      · rw [hframe, hval]; rfl
  obtain ⟨s1, h1P, h1D, h1o, hgo, hrelB, hag1, hseenA⟩ := hgo
  have hinv : Inv C sM.env {} s1.P s1.D s1.offset u := by
    rw [h1P, h1D, h1o]
    refine ⟨?_, ?_, fun _ => rfl⟩
    · intro b _
      right
      cases b
      · show sM.P = _
        rw [hP, hbP]
      · show sM.D = _
        rw [hD, hbD]
    · intro b hb; cases hb
  obtain ⟨d, hd, hseen, hagree⟩ := runU_go_layout hC sM.env sM.P.length _ _ body u {} _ s1 0 F.lu
    F.ok hrelB hfitU hrestU hinv hag1
  rw [h1P, h1D] at hagree
  have hdec : decodeCmd C c env0 (paramBlock c.isAndX (axOf c env) sM.P ++ dataBlock sM.D) = .ok d := by
    unfold decodeCmd
    rw [hsp]
    simp only []
    rw [hsd]
    exact hgo.trans hd
  refine ⟨body, m, u, sM, d, F, hrun, hhead, hP, hD, hfitM, hdec, hframe,
    fun ha => ⟨hseen andxField (by rw [ha]; simp), hseenA ha⟩, ?_⟩
  rcases hne with (hp | hdd) | hemp
  · left
    intro f hf
    have hPne : sM.P ≠ [] := by intro e; rw [e] at hp; simp at hp
    refine hagree (Or.inl ⟨?_, ?_⟩) f (Or.inr hf)
    · have : u.filter (·.blk == .P) ≠ [] := by
        intro e; apply hPne; rw [hP, hbP, e]; rfl
      simpa using this
    · exact hPne
  · left
    intro f hf
    have hDne : sM.D ≠ [] := by intro e; rw [e] at hdd; simp at hdd
    refine hagree (Or.inr ⟨?_, hDne⟩) f (Or.inr hf)
    have : u.filter (·.blk == .D) ≠ [] := by
      intro e; apply hDne; rw [hD, hbD, e]; rfl
    simpa using this
  · exact Or.inr hemp

/-- **Generic round trip of a mirror-image command** (the property theorem `Manticore.C04.mirror_roundtrip`
    is this statement). -/
theorem mirror_roundtrip_core {C : Codecs} {T : String → Prop} (hC : LawfulCodecs C T) (c : Cmd)
    (hm : Mirror c = true) (hT : ∀ t ∈ c.subTypes, T t) (env0 env : Env) (hc : consistent C c env = true) :
    ∃ bs env' d, encodeCmd C c env = .ok bs ∧ envAfterMarshal C c env = .ok env' ∧
      decodeCmd C c env0 bs = .ok d ∧ ∀ f ∈ c.roundTripFields, d.get f = env'.get f := by
  obtain ⟨_, m, u, sM, d, F, hrun, hhead, _, _, _, hdec, _, hax, hag⟩ := mirror_roundtrip_full hC c hm hT env0 env hc
  refine ⟨paramBlock c.isAndX (axOf c env) sM.P ++ dataBlock sM.D, sM.env, d, ?_, ?_, hdec, ?_⟩
  · simp only [encodeCmd, hrun, hhead, List.nil_append, axOf]
  · simp only [envAfterMarshal, hrun]
  · intro f hf
    unfold Cmd.roundTripFields at hf
    rcases List.mem_append.mp hf with hf | hf
    · rcases hag with h | h
      · exact h f (F.covered f hf)
      · rw [h] at hf; cases hf
    · cases ha : c.isAndX with
      | false => rw [ha] at hf; cases hf
      | true =>
        rw [ha] at hf
        have : f = andxField := List.mem_singleton.mp hf
        subst this
        exact (hax ha).1

/-- **Re-encoding**: marshalling the decoded fields again yields the same bytes. -/
theorem mirror_reencode_core {C : Codecs} {T F : String → Prop} (hC : LawfulCodecs C T) (hF : LawfulFmt C F) (c : Cmd)
    (hm : Mirror c = true) (hre : Reencodable c = true) (hT : ∀ t ∈ c.subTypes, T t) (hFt : ∀ t ∈ c.fmtTypes, F t)
    (env0 env : Env) (hc : consistent C c env = true) :
    ∃ bs d, encodeCmd C c env = .ok bs ∧ decodeCmd C c env0 bs = .ok d ∧ encodeCmd C c d = .ok bs := by
  obtain ⟨_, m, u, sM, d, Fc, hrun, hhead, hP, hD, hfit, hdec, hframe, hax, hag⟩ :=
    mirror_roundtrip_full hC c hm hT env0 env hc
  have henc : encodeCmd C c env = .ok (paramBlock c.isAndX (axOf c env) sM.P ++ dataBlock sM.D) := by
    simp only [encodeCmd, hrun, hhead, List.nil_append, axOf]
  refine ⟨_, d, henc, hdec, ?_⟩
  -- the decoded command holds the sender's AndX block: its prologue changes nothing, and the same four bytes go out
  have hpd : prologueEnv c.isAndX d = d :=
    prologueEnv_id c.isAndX d (fun ha => by rw [(hax ha).1]; exact (hax ha).2)
  have haxd : axOf c d = axOf c env := by
    unfold axOf
    rw [hpd]
    cases ha : c.isAndX with
    | false => rfl
    | true =>
      apply andxBytesOf_congr
      rw [ha] at hframe
      rw [(hax ha).1, hframe]
  unfold Reencodable at hre
  rw [Fc.lm, Bool.and_eq_true, Bool.and_eq_true] at hre
  obtain ⟨⟨hreM, hlenD⟩, hdecl⟩ := hre
  simp only [List.all_eq_true, List.contains_iff_mem] at hlenD
  rcases hag with hag | hemp
  · -- the decoded fields agree with the sender's on every slot of the layout
    have hmem : ∀ sl ∈ m, sl.field ∈ u.map Slot.field := by
      intro sl hsl
      have h1 : sl.field ∈ (m.filter (·.blk == sl.blk)).map Slot.field :=
        List.mem_map_of_mem (mem_filter_blk m sl hsl)
      have h2 : (m.filter (·.blk == sl.blk)).map Slot.field = (u.filter (·.blk == sl.blk)).map Slot.field := by
        cases sl.blk
        · exact agreeAll_fields _ _ Fc.agP
        · exact agreeAll_fields _ _ Fc.agD
      rw [h2] at h1
      obtain ⟨sl', hsl', he⟩ := List.mem_map.mp h1
      exact List.mem_map.mpr ⟨sl', (List.mem_filter.mp hsl').1, he⟩
    obtain ⟨t', hr, _, hP', hD', hH'⟩ := runMStmts_again (T := T) hF c.isAndX c.marshal m
      { env := prologueEnv c.isAndX env } sM { env := d }
      (u.map Slot.field) Fc.lm Fc.stable hreM hFt (fun g hg => Fc.covered g (hlenD g hg)) hrun hfit hmem hag
    simp only [List.nil_append] at hP' hD'
    have hrun' : runM C c d = .ok t' := by unfold runM; rw [hpd]; exact hr
    have := haxd
    unfold axOf at this
    simp only [encodeCmd, hrun', hH', hP', hD', ← hP, ← hD, List.nil_append, this, axOf]
  · -- no declared field: the marshal program is empty
    have hm0 : m = [] := by
      rw [hemp] at hdecl
      cases m with
      | nil => rfl
      | cons a _ => simp at hdecl
    subst hm0
    have hlen0 : lenFieldsM c.marshal = [] := by
      cases hl : lenFieldsM c.marshal with
      | nil => rfl
      | cons a _ =>
        have := hlenD a (by rw [hl]; exact List.mem_cons_self ..)
        rw [hemp] at this; cases this
    have hnil := layoutM_nil_reencodable c.marshal Fc.lm hreM hlen0
    have h1 : runM C c d = .ok { env := prologueEnv c.isAndX d } := by unfold runM; rw [hnil, runMStmts]
    have h2 : runM C c env = .ok { env := prologueEnv c.isAndX env } := by unfold runM; rw [hnil, runMStmts]
    rw [h2] at hrun
    injection hrun with hrun
    subst hrun
    have := haxd
    unfold axOf at this
    simp only [encodeCmd, h1, List.nil_append, this, axOf]

end Manticore.SmbIR
