/-
  Soundness of the static predicates `ConformsLists` and `ConformsOptional` (Model/SmbConforms.lean)
  with respect to the MS-CIFS encoders `Spec.Cifs.encodeLists` and `Spec.Cifs.encodeOptional`: the
  proof of `Lemmas/SmbConforms.lean` redone over the extended fragment — straight-line statements, the
  two `range` loops over list fields, and `if c.F != 0 { emit F }` for the names of a list `opt`.

    (1) `step_ext`      — one emitting statement: the bytes it appends, the value the field holds, and
                          either "optional, zero, nothing appended" or "these are the specification's
                          bytes for that value";
    (2) `run_block_ext` — induction over the program: block `b0` grows by the specification's encoding
                          of its declared fields minus the optional fields that are zero;
    (3) `assemble`      — the fixed epilogue (shared with the straight-line proof).

  Nothing here is a property clause; the property theorems are in `Props/C05.lean`.
-/
import Manticore.Lemmas.SmbConforms
namespace Manticore.SmbIR
open Manticore Manticore.Spec.Cifs

/-! ### optional fields -/

/-- the field holds a zero (`0`, or an array of zeros) -/
def zeroAt (env : Env) (f : String) : Bool :=
  match env.get f with
  | some v => isZeroVal v
  | none => false

/-- a declared field the specification lays out: every one but an optional field holding zero -/
def keepDecl (env : Env) (opt : List String) (ft : String × String) : Bool :=
  !(opt.contains ft.1 && zeroAt env ft.1)

/-! ### the loop over a list of nested values -/

/-- `for _, x := range c.F { b, _ := x.Marshal(); raw = append(raw, b...) }` against the specification's
    element-by-element encoding of the list -/
theorem forSub_spec (C : Codecs) (typ : String) (hn : NestedConformsIn C typ) :
    ∀ (vs : List Tup) (acc bs : Bytes),
      vs.foldlM (fun acc v => do let (x, _) ← C.enc typ v; pure (acc ++ x)) acc = Outcome.ok bs →
      ∀ sbs, vs.mapM (nestedEnc typ) = some sbs → bs = acc ++ sbs.flatten := by
  intro vs
  induction vs with
  | nil =>
    intro acc bs h sbs hs
    simp only [List.foldlM_nil, Outcome.pure_eq, Outcome.ok.injEq] at h
    simp only [List.mapM_nil, Option.pure_def, Option.some.injEq] at hs
    subst h hs
    simp
  | cons v r ih =>
    intro acc bs h sbs hs
    simp only [List.foldlM_cons] at h
    obtain ⟨acc1, h1, h2⟩ := Outcome.bind_eq_ok h
    obtain ⟨⟨x, v'⟩, henc, hp⟩ := Outcome.bind_eq_ok h1
    simp only [Outcome.pure_eq, Outcome.ok.injEq] at hp
    subst hp
    simp only [List.mapM_cons, Option.bind_eq_bind, Option.pure_def] at hs
    cases hv : nestedEnc typ v with
    | none => simp [hv] at hs
    | some sb =>
      cases hr : r.mapM (nestedEnc typ) with
      | none => simp [hv, hr] at hs
      | some sbr =>
        simp only [hv, hr, Option.bind_some, Option.some.injEq] at hs
        subst hs
        rw [ih (acc ++ x) bs h2 sbr hr, hn v x v' henc sb hv]
        simp

/-! ### one emitting statement of the extended fragment -/

/-- the conclusion of `step_ext` about the bytes `bs` appended for field `f` holding `v` afterwards -/
def ExtSpec (C : Codecs) (c : Cmd) (opt : List String) (st : MStmt) (f : String) (bs : Bytes) (v : Val) : Prop :=
  (opt.contains f = true ∧ isZeroVal v = true ∧ bs = []) ∨
  ((opt.contains f && isZeroVal v) = false ∧
    ∀ t sb, conformsStmt c st = true → typedStmt c st = true → typedLoop c st = true → c.typeOf f = some t →
      (∀ b' f' typ v', st = .sub b' f' typ → v = .t v' → NestedConformsAt C typ v') →
      (∀ b' f' typ, st = .forSub b' f' typ → NestedConformsIn C typ) →
      encField t v = some sb → sb = bs)

theorem extShape_straight {opt : List String} {st : MStmt} {b : Blk} {f : String}
    (hst : straight st = true) (hsh : extShape opt st = true) (he : emittedField st = some (b, f)) :
    opt.contains f = false := by
  cases st <;> simp_all [straight, extShape, emittedField]

private theorem runMStmts_single {C : Codecs} {andx : Bool} {s s1 : MState} {st : MStmt}
    (h : runMStmts C andx s [st] = .ok s1) : runMStmt C andx s st = .ok s1 := by
  obtain ⟨s2, h1, h2⟩ := runMStmts_cons h
  simp only [runMStmts, Outcome.ok.injEq] at h2
  rw [h1, h2]

/-- the integer loop against the specification's `USHORT[]` / `ULONG[]` -/
private theorem forInt_spec (c : Cmd) (w : Nat) (f t : String) (xs : List Nat) (sb : Bytes)
    (ha : arrTyped c w f = true) (hty : c.typeOf f = some t) (hs : encField t (.ns xs) = some sb) :
    sb = xs.flatMap (intBytes w .le) := by
  simp only [arrTyped, hty, Option.bind_some, beq_iff_eq] at ha
  simp only [encField, ha] at hs
  split at hs
  · cases hs; rfl
  · cases hs

theorem step_ext (C : Codecs) (c : Cmd) (andx : Bool) (opt : List String) (s s1 : MState) (st : MStmt)
    (b : Blk) (f : String) (hsh : extShape opt st = true) (he : emittedField st = some (b, f))
    (hrun : runMStmt C andx s st = .ok s1) :
    ∃ bs v, (∀ b0, s1.blk b0 = (s.app b bs).blk b0) ∧ s1.head = s.head ∧ s1.env.get f = some v ∧
      (∀ g, writesField st ≠ some g → s1.env.get g = s.env.get g) ∧ ExtSpec C c opt st f bs v := by
  by_cases hst : straight st = true
  · obtain ⟨bs, v, h1, h2, h3, h4, h5⟩ := step_emit C andx s s1 st b f hst he hrun
    refine ⟨bs, v, h1, h2, h3, h5, Or.inr ⟨by rw [extShape_straight hst hsh he, Bool.false_and], ?_⟩⟩
    intro t sb hc ht _ hty hn _ hs
    exact stepOut_spec C c st b f t bs v hc ht he hty h4 hn sb hs
  · cases st with
    | forInt b' w e f' =>
      simp only [emittedField, Option.some.injEq, Prod.mk.injEq] at he
      obtain ⟨rfl, rfl⟩ := he
      simp only [extShape, Bool.not_eq_true'] at hsh
      simp only [runMStmt] at hrun
      split at hrun
      · rename_i xs hxs
        cases hrun
        refine ⟨xs.flatMap (intBytes w e), .ns xs, fun _ => rfl, by cases b' <;> rfl,
          by cases b' <;> exact hxs, fun g _ => by cases b' <;> rfl, Or.inr ⟨by rw [hsh, Bool.false_and], ?_⟩⟩
        intro t sb hc _ hl hty _ _ hs
        simp only [conformsStmt, hty, Bool.and_eq_true, beq_iff_eq] at hc
        obtain ⟨rfl, _⟩ := hc
        exact forInt_spec c w f' t xs sb hl hty hs
      · cases hrun
    | forSub b' f' typ =>
      simp only [emittedField, Option.some.injEq, Prod.mk.injEq] at he
      obtain ⟨rfl, rfl⟩ := he
      simp only [extShape, Bool.not_eq_true'] at hsh
      simp only [runMStmt] at hrun
      split at hrun
      · rename_i vs hvs
        obtain ⟨bs, hfold, hs1⟩ := Outcome.bind_eq_ok hrun
        cases hs1
        refine ⟨bs, .ts vs, fun _ => rfl, by cases b' <;> rfl,
          by cases b' <;> exact hvs, fun g _ => by cases b' <;> rfl, Or.inr ⟨by rw [hsh, Bool.false_and], ?_⟩⟩
        intro t sb _ ht _ hty _ hnl hs
        simp only [typedStmt, hty, Option.bind_some, beq_iff_eq] at ht
        simp only [encField, ht] at hs
        cases hm : vs.mapM (nestedEnc typ) with
        | none => simp [hm] at hs
        | some sbs =>
          simp only [hm, Option.map_some, Option.some.injEq] at hs
          rw [← hs, forSub_spec C typ (hnl b' f' typ rfl) vs [] bs hfold sbs hm]
          simp
      · cases hrun
    | ifNonZero f' body =>
      simp only [emittedField, Option.some.injEq, Prod.mk.injEq] at he
      obtain ⟨rfl, rfl⟩ := he
      simp only [extShape, Bool.and_eq_true] at hsh
      obtain ⟨hopt, hbody⟩ := hsh
      obtain ⟨w, e, rfl⟩ : ∃ w e, body = [.int .P w e f'] := by
        unfold optBody at hbody
        split at hbody
        · rename_i w e g
          simp only [beq_iff_eq] at hbody
          subst hbody
          exact ⟨w, e, rfl⟩
        · cases hbody
      simp only [runMStmt] at hrun
      obtain ⟨x, hx, hif⟩ := Outcome.bind_eq_ok hrun
      have hget := getN_eq_ok hx
      by_cases hx0 : x = 0
      · subst hx0
        simp only [bne_self_eq_false, Bool.false_eq_true, ↓reduceIte, Outcome.pure_eq, Outcome.ok.injEq] at hif
        subst hif
        exact ⟨[], .n 0, fun b0 => by cases b0 <;> simp [MState.app, MState.blk], rfl, hget, fun _ _ => rfl,
          Or.inl ⟨hopt, rfl, rfl⟩⟩
      · have hne : (x != 0) = true := by simpa using hx0
        simp only [hne, ↓reduceIte] at hif
        have h1 := runMStmts_single hif
        simp only [runMStmt, hx, Outcome.bind_ok, Outcome.pure_eq, Outcome.ok.injEq] at h1
        subst h1
        refine ⟨intBytes w e x, .n x, fun _ => rfl, rfl, hget, fun _ _ => rfl, Or.inr ⟨?_, ?_⟩⟩
        · simp [isZeroVal, hx0]
        · intro t sb hc _ _ hty _ _ hs
          simp only [conformsStmt, conformsStmts, hty, Option.bind_some, Bool.and_eq_true, beq_iff_eq, Bool.and_true] at hc
          obtain ⟨rfl, hw⟩ := hc
          simp only [encField, fieldEnc, hw] at hs
          split at hs
          · cases hs; rfl
          · cases hs
    | ifNonZeroArr f' body =>
      simp only [emittedField, Option.some.injEq, Prod.mk.injEq] at he
      obtain ⟨rfl, rfl⟩ := he
      simp only [extShape, Bool.and_eq_true] at hsh
      obtain ⟨hopt, hbody⟩ := hsh
      obtain ⟨w, e, rfl⟩ : ∃ w e, body = [.forInt .P w e f'] := by
        unfold optBodyArr at hbody
        split at hbody
        · rename_i w e g
          simp only [beq_iff_eq] at hbody
          subst hbody
          exact ⟨w, e, rfl⟩
        · cases hbody
      simp only [runMStmt] at hrun
      split at hrun
      · rename_i xs hxs
        by_cases hany : xs.any (· != 0) = true
        · simp only [hany, ↓reduceIte] at hrun
          have h1 := runMStmts_single hrun
          simp only [runMStmt, hxs, Outcome.ok.injEq] at h1
          subst h1
          refine ⟨xs.flatMap (intBytes w e), .ns xs, fun _ => rfl, rfl, hxs, fun _ _ => rfl, Or.inr ⟨?_, ?_⟩⟩
          · have : xs.all (· == 0) = false := by
              rw [← Bool.not_eq_true, List.all_eq_true]
              intro hall
              obtain ⟨y, hy, hy0⟩ := List.any_eq_true.1 hany
              have := hall y hy
              simp_all
            simp [isZeroVal, this]
          · intro t sb hc _ hl hty _ _ hs
            simp only [conformsStmt, conformsStmts, hty, Bool.and_eq_true, beq_iff_eq, Bool.and_true] at hc
            obtain ⟨rfl, _⟩ := hc
            simp only [typedLoop, List.all_cons, List.all_nil, Bool.and_true] at hl
            exact forInt_spec c w f' t xs sb hl hty hs
        · simp only [hany, Bool.false_eq_true, ↓reduceIte, Outcome.ok.injEq] at hrun
          subst hrun
          refine ⟨[], .ns xs, fun b0 => by cases b0 <;> simp [MState.app, MState.blk], rfl, hxs, fun _ _ => rfl,
            Or.inl ⟨hopt, ?_, rfl⟩⟩
          simp only [isZeroVal, List.all_eq_true, beq_iff_eq]
          intro y hy
          by_cases hy0 : y = 0
          · exact hy0
          · exact absurd (List.any_eq_true.2 ⟨y, hy, by simpa using hy0⟩) hany
      · cases hrun
    | ifWordCount _ _ => simp [extShape] at hsh
    | subHead _ _ => simp [extShape] at hsh
    | zeros _ _ => simp [extShape] at hsh
    | _ => simp [straight] at hst

/-- a statement of the extended fragment that emits nothing is a straight-line one -/
theorem extShape_noemit {opt : List String} {st : MStmt} (hsh : extShape opt st = true)
    (he : emittedField st = none) : straight st = true := by
  cases st <;> simp_all [straight, extShape, emittedField]

/-- a statement of the extended fragment: the head is untouched, fields it does not assign keep their value -/
theorem step_frame_ext (C : Codecs) (andx : Bool) (opt : List String) (s s1 : MState) (st : MStmt)
    (hsh : extShape opt st = true) (hrun : runMStmt C andx s st = .ok s1) :
    s1.head = s.head ∧ (∀ g, writesField st ≠ some g → s1.env.get g = s.env.get g) := by
  cases he : emittedField st with
  | none => exact step_frame C andx s s1 st (extShape_noemit hsh he) hrun
  | some bf =>
    obtain ⟨b, f⟩ := bf
    obtain ⟨_, _, _, h2, _, h4, _⟩ := step_ext C default andx opt s s1 st b f hsh he hrun
    exact ⟨h2, h4⟩

theorem run_head_ext (C : Codecs) (andx : Bool) (opt : List String) :
    ∀ (stmts : List MStmt) (s s' : MState), stmts.all (extShape opt) = true →
      runMStmts C andx s stmts = .ok s' → s'.head = s.head := by
  intro stmts
  induction stmts with
  | nil => intro s s' _ h; simp only [runMStmts] at h; cases h; rfl
  | cons st r ih =>
    intro s s' hl h
    simp only [List.all_cons, Bool.and_eq_true] at hl
    obtain ⟨s1, h1, h2⟩ := runMStmts_cons h
    rw [ih s1 s' hl.2 h2, (step_frame_ext C andx opt s s1 st hl.1 h1).1]

theorem run_env_stable_ext (C : Codecs) (andx : Bool) (opt : List String) (f : String) :
    ∀ (stmts : List MStmt) (s s' : MState), stmts.all (extShape opt) = true →
      stmts.all (fun s' => writesField s' != some f) = true →
      runMStmts C andx s stmts = .ok s' → s'.env.get f = s.env.get f := by
  intro stmts
  induction stmts with
  | nil => intro s s' _ _ h; simp only [runMStmts] at h; cases h; rfl
  | cons st r ih =>
    intro s s' hl hw h
    simp only [List.all_cons, Bool.and_eq_true] at hl
    obtain ⟨s1, h1, h2⟩ := runMStmts_cons h
    simp only [List.all_cons, Bool.and_eq_true, bne_iff_ne, ne_eq] at hw
    rw [ih s1 s' hl.2 hw.2 h2, (step_frame_ext C andx opt s s1 st hl.1 h1).2 f hw.1]

/-! ### layer (2): the run of a conforming program of the extended fragment, block by block -/

theorem keepDecl_of_not_opt {env : Env} {opt : List String} {ft : String × String}
    (h : (opt.contains ft.1 && zeroAt env ft.1) = false) : keepDecl env opt ft = true := by
  simp only [keepDecl, h, Bool.not_false]

/-- Running a program of the extended fragment whose statements pass the per-statement checks, which
    never assigns a field after emitting it, and whose emissions into block `b0` are the declared fields
    `d` in order: block `b0` grows by exactly what the specification's field-by-field encoder gives for
    `d` without the optional fields that hold zero, on the final environment. -/
theorem run_block_ext (C : Codecs) (c : Cmd) (andx : Bool) (opt : List String) (b0 : Blk) :
    ∀ (stmts : List MStmt) (d : List (String × String)) (s s' : MState),
      stmts.all (extShape opt) = true → conformsStmts c stmts = true → stmts.all (typedStmt c) = true →
      stmts.all (typedLoop c) = true → noWriteAfterEmit stmts = true →
      emittedNames b0 stmts = d.map (·.1) → (∀ ft ∈ d, c.typeOf ft.1 = some ft.2) →
      runMStmts C andx s stmts = .ok s' →
      (∀ b f typ, MStmt.sub b f typ ∈ stmts → ∀ v', s'.env.get f = some (.t v') → NestedConformsAt C typ v') →
      (∀ b f typ, MStmt.forSub b f typ ∈ stmts → NestedConformsIn C typ) →
      ∃ x, s'.blk b0 = s.blk b0 ++ x ∧
        ∀ sb, encDecls s'.env (d.filter (keepDecl s'.env opt)) = some sb → sb = x := by
  intro stmts
  induction stmts with
  | nil =>
    intro d s s' _ _ _ _ _ hd _ hrun _ _
    simp only [runMStmts] at hrun
    cases hrun
    have : d = [] := by
      cases d with
      | nil => rfl
      | cons _ _ => simp [emittedNames] at hd
    subst this
    exact ⟨[], by simp, fun sb h => by simp only [List.filter_nil, encDecls] at h; cases h; rfl⟩
  | cons st r ih =>
    intro d s s' hl hc ht htl hw hd hty hrun hn hnl
    simp only [List.all_cons, Bool.and_eq_true] at hl
    obtain ⟨s1, h1, h2⟩ := runMStmts_cons hrun
    simp only [conformsStmts, Bool.and_eq_true] at hc
    simp only [List.all_cons, Bool.and_eq_true] at ht htl
    simp only [noWriteAfterEmit, Bool.and_eq_true] at hw
    have hn' : ∀ b f typ, MStmt.sub b f typ ∈ r → ∀ v', s'.env.get f = some (.t v') →
        NestedConformsAt C typ v' := fun b f typ hm => hn b f typ (List.mem_cons_of_mem _ hm)
    have hnl' : ∀ b f typ, MStmt.forSub b f typ ∈ r → NestedConformsIn C typ :=
      fun b f typ hm => hnl b f typ (List.mem_cons_of_mem _ hm)
    cases he : emittedField st with
    | none =>
      rw [emittedNames_cons_none b0 st r he] at hd
      obtain ⟨x, hx, hsp⟩ := ih d s1 s' hl.2 hc.2 ht.2 htl.2 hw.2 hd hty h2 hn' hnl'
      exact ⟨x, by rw [hx, (step_noemit C andx s s1 st (extShape_noemit hl.1 he) he h1).1 b0], hsp⟩
    | some bf =>
      obtain ⟨b, f⟩ := bf
      obtain ⟨bs, v, hblk, _, hget, _, hout⟩ := step_ext C c andx opt s s1 st b f hl.1 he h1
      have hstable : s'.env.get f = some v := by
        have := hw.1
        simp only [he] at this
        rw [run_env_stable_ext C andx opt f r s1 s' hl.2 this h2, hget]
      have hzero : zeroAt s'.env f = isZeroVal v := by simp only [zeroAt, hstable]
      rw [emittedNames_cons_some b0 b f st r he] at hd
      by_cases hb : b = b0
      · simp only [hb, ↓reduceIte] at hd
        cases d with
        | nil => simp at hd
        | cons ft d' =>
          obtain ⟨f', t⟩ := ft
          simp only [List.map_cons, List.cons.injEq] at hd
          obtain ⟨rfl, hd'⟩ := hd
          obtain ⟨x, hx, hsp⟩ := ih d' s1 s' hl.2 hc.2 ht.2 htl.2 hw.2 hd'
            (fun ft hm => hty ft (List.mem_cons_of_mem _ hm)) h2 hn' hnl'
          rcases hout with ⟨ho1, ho2, rfl⟩ | ⟨hk, hspec⟩
          · -- optional, zero: nothing was appended, and the specification leaves the field out
            refine ⟨x, ?_, ?_⟩
            · rw [hx, hblk b0, blk_app, if_pos hb, List.append_nil]
            · intro sb hsb
              have hdrop : keepDecl s'.env opt (f, t) = false := by
                simp only [keepDecl, ho1, hzero, ho2, Bool.and_self, Bool.not_true]
              rw [List.filter_cons_of_neg (by simp [hdrop])] at hsb
              exact hsp sb hsb
          · refine ⟨bs ++ x, ?_, ?_⟩
            · rw [hx, hblk b0, blk_app, if_pos hb, List.append_assoc]
            · intro sb hsb
              have hkeep : keepDecl s'.env opt (f, t) = true :=
                keepDecl_of_not_opt (by rw [hzero]; exact hk)
              rw [List.filter_cons_of_pos hkeep] at hsb
              simp only [encDecls, hstable, Option.bind_eq_bind, Option.bind_some] at hsb
              cases hf : encField t v with
              | none => simp [hf] at hsb
              | some sb0 =>
                cases hr : encDecls s'.env (d'.filter (keepDecl s'.env opt)) with
                | none => simp [hf, hr] at hsb
                | some sb' =>
                  simp only [hf, hr, Option.bind_some, Option.pure_def, Option.some.injEq] at hsb
                  have e1 : sb0 = bs :=
                    hspec t sb0 hc.1 ht.1 htl.1 (hty (f, t) (List.mem_cons_self ..))
                      (fun b' f'' typ v' hs hv => by
                        subst hs
                        simp only [emittedField, Option.some.injEq, Prod.mk.injEq] at he
                        obtain ⟨_, rfl⟩ := he
                        exact hn b' f'' typ (List.mem_cons_self ..) v' (by rw [hstable, hv]))
                      (fun b' f'' typ hs => by
                        subst hs
                        exact hnl b' f'' typ (List.mem_cons_self ..))
                      hf
                  rw [← hsb, e1, hsp sb' hr]
      · simp only [hb, ↓reduceIte] at hd
        obtain ⟨x, hx, hsp⟩ := ih d s1 s' hl.2 hc.2 ht.2 htl.2 hw.2 hd hty h2 hn' hnl'
        exact ⟨x, by rw [hx, hblk b0, blk_app, if_neg hb], hsp⟩

/-- both blocks and the head of a conforming command of the extended fragment, against the
    specification's field-by-field encoder on the declared fields minus the zero optional ones -/
theorem runM_blocks_ext (C : Codecs) (c : Cmd) (opt : List String) (hc : ConformsCore c = true)
    (hl : c.marshal.all (extShape opt) = true) (htl : c.marshal.all (typedLoop c) = true)
    (env : Env) (s' : MState) (hrun : runM C c env = .ok s')
    (hn : ∀ b f typ, MStmt.sub b f typ ∈ c.marshal → ∀ v', s'.env.get f = some (.t v') →
      NestedConformsAt C typ v')
    (hnl : ∀ b f typ, MStmt.forSub b f typ ∈ c.marshal → NestedConformsIn C typ) :
    s'.head = [] ∧
      (∀ b sb, encDecls s'.env ((c.fields.filter (fun ft => blockOf c ft.1 == some b)).filter (keepDecl s'.env opt)) = some sb →
        sb = s'.blk b) := by
  simp only [ConformsCore, Bool.and_eq_true, beq_iff_eq] at hc
  obtain ⟨⟨⟨⟨⟨⟨h1, h2⟩, h3⟩, h4⟩, h5⟩, h6⟩, _⟩ := hc
  have hty := typeOf_of_mem c h3
  unfold runM at hrun
  refine ⟨run_head_ext C c.isAndX opt c.marshal _ s' hl hrun, ?_⟩
  intro b sb hsb
  obtain ⟨x, hx, hsp⟩ := run_block_ext C c c.isAndX opt b c.marshal
    (c.fields.filter (fun ft => blockOf c ft.1 == some b)) _ s' hl h1 h2 htl h6
    (by cases b
        · simpa [emittedIn, declaredIn] using h4
        · simpa [emittedIn, declaredIn] using h5)
    (fun ft hm => hty ft (List.mem_filter.1 hm).1) hrun hn hnl
  rw [hsp sb hsb]
  cases b <;> simpa [MState.blk] using hx.symm

/-! ### layer (3): the fixed epilogue -/

/-- the bytes of the command from the two raw streams, once the specification's AndX block and limits are known -/
theorem assemble (C : Codecs) (c : Cmd) (env : Env) (s : MState) (bs ax : Bytes)
    (hrun : runM C c env = .ok s) (he : encodeCmd C c env = .ok bs) (hh : s.head = [])
    (hframe : s.env.get andxField = (prologueEnv c.isAndX env).get andxField)
    (hbe : andxOffsetBigEndian c.isAndX s.env = false) (hax : andxBlock c.isAndX s.env = some ax)
    (hlim : ¬ ((ax ++ s.P).length % 2 = 1 ∨ (ax ++ s.P).length / 2 > 255 ∨ s.D.length > 65535)) :
    bs = UInt8.ofNat ((ax ++ s.P).length / 2) :: (ax ++ s.P) ++ natLe 2 s.D.length ++ s.D := by
  unfold encodeCmd at he
  simp only [hrun, Outcome.ok.injEq] at he
  obtain ⟨hab, hlen⟩ := andxBlock_eq c.isAndX (prologueEnv c.isAndX env) s.env ax hframe hbe hax
  rw [← he, hh, hab]
  have h1 : (ax ++ s.P).length % 2 = 0 := by omega
  have h2 : (ax ++ s.P).length / 2 ≤ 255 := by omega
  have h3 : s.D.length ≤ 65535 := by omega
  rw [paramBlock_eq_spec _ _ _ hlen h1 h2, dataBlock_eq_spec _ h3]
  simp

/-! ### loops over list fields -/

theorem extShape_of_loopsOnly : ∀ (ms : List MStmt), loopsOnly ms = true → ms.all (extShape []) = true := by
  intro ms
  induction ms with
  | nil => intro _; rfl
  | cons st r ih =>
    intro h
    cases st <;> simp_all [loopsOnly, extShape]

theorem filter_keepDecl_nil (env : Env) (d : List (String × String)) : d.filter (keepDecl env []) = d := by
  simp [keepDecl]

theorem ConformsCore_of_ConformsLists {c : Cmd} (h : ConformsLists c = true) : ConformsCore c = true := by
  simp only [ConformsLists, Bool.and_eq_true] at h
  exact ConformsCore_of_Conforms h.1.1

/-- soundness of `ConformsLists`, the nested encoders of the non-list fields being required to conform
    only at the values the fields hold after `Marshal`; outside the finding `be:AndXOffset` -/
theorem conformsLists_sound_at (C : Codecs) (c : Cmd) (hc : ConformsLists c = true)
    (env : Env) (bs : Bytes) (env' : Env) (sb : Bytes)
    (hn : ∀ b f typ, MStmt.sub b f typ ∈ c.marshal → ∀ v', env'.get f = some (.t v') →
      NestedConformsAt C typ v')
    (hnl : ∀ b f typ, MStmt.forSub b f typ ∈ c.marshal → NestedConformsIn C typ)
    (hbe : andxOffsetBigEndian c.isAndX env' = false)
    (he : encodeCmd C c env = .ok bs) (ha : envAfterMarshal C c env = .ok env')
    (hs : Spec.Cifs.encodeLists c env' = some sb) : bs = sb := by
  have hcore := ConformsCore_of_ConformsLists hc
  simp only [ConformsLists, Bool.and_eq_true] at hc
  obtain ⟨⟨_, hlo⟩, htl⟩ := hc
  have hsh := extShape_of_loopsOnly c.marshal hlo
  unfold envAfterMarshal at ha
  cases hrun : runM C c env with
  | err => simp [hrun] at ha
  | panic => simp [hrun] at ha
  | ok s =>
    simp only [hrun, Outcome.ok.injEq] at ha
    subst ha
    obtain ⟨hh, hblk⟩ := runM_blocks_ext C c [] hcore hsh htl env s hrun hn hnl
    unfold Spec.Cifs.encodeLists at hs
    cases hp : encBlock c s.env .P with
    | none => simp [hp] at hs
    | some p =>
      cases hd : encBlock c s.env .D with
      | none => simp [hp, hd] at hs
      | some d =>
        cases hax : andxBlock c.isAndX s.env with
        | none => simp [hp, hd, hax] at hs
        | some ax =>
          simp only [hp, hd, hax, Option.bind_eq_bind, Option.bind_some, Option.pure_def] at hs
          split at hs
          · cases hs
          · rename_i hlim
            split at hs
            · cases hs
            · have eP := hblk .P p (by rw [filter_keepDecl_nil, ← encBlock_eq]; exact hp)
              have eD := hblk .D d (by rw [filter_keepDecl_nil, ← encBlock_eq]; exact hd)
              simp only [MState.blk] at eP eD
              subst eP eD
              have hunt : andxUntouched c.marshal = true := by
                simp only [ConformsCore, Bool.and_eq_true] at hcore; exact hcore.2
              have hframe : s.env.get andxField = (prologueEnv c.isAndX env).get andxField :=
                run_env_stable_ext C c.isAndX [] andxField c.marshal { env := prologueEnv c.isAndX env } s hsh hunt hrun
              simp only [Option.some.injEq] at hs
              rw [← hs]
              exact assemble C c env s bs ax hrun he hh hframe hbe hax hlim

/-! ### one optional parameter field -/

theorem keepDecl_single (env : Env) (f : String) (v : Val) (hv : env.get f = some v) :
    keepDecl env [f] = fun ft => !(isZeroVal v && ft.1 == f) := by
  funext ft
  simp only [keepDecl, List.contains_cons, List.contains_nil, Bool.or_false]
  by_cases h : ft.1 = f
  · simp [h, zeroAt, hv]
  · have hf : (ft.1 == f) = false := by simpa using h
    simp [hf]

/-- the field list `Spec.Cifs.encodeOptional` lays out for a block is the block's declared list minus
    the optional field when it holds zero -/
theorem optional_fields_eq (c : Cmd) (env : Env) (f : String) (v : Val) (hv : env.get f = some v) (b : Blk) :
    (if isZeroVal v = true then c.fields.filter (fun x => x.1 != f) else c.fields).filter
        (fun x => blockOf c x.1 == some b) =
      (c.fields.filter (fun ft => blockOf c ft.1 == some b)).filter (keepDecl env [f]) := by
  rw [keepDecl_single env f v hv]
  cases hz : isZeroVal v
  · simp
  · simp only [↓reduceIte, List.filter_filter, Bool.true_and]
    congr 1
    funext x
    rw [Bool.and_comm]
    rfl

theorem ConformsCore_of_ConformsOptional {c : Cmd} (h : ConformsOptional c = true) : ConformsCore c = true := by
  simp only [ConformsOptional, Bool.and_eq_true] at h
  exact ConformsCore_of_Conforms h.1.1.1

/-- a command that passes `ConformsOptional` has the shape `Spec.Cifs.encodeOptional` asks for: apart from
    the one optional emission, straight-line statements and loops -/
theorem loopsOnly_withoutOptional (opt : List String) : ∀ (ms : List MStmt), ms.all (extShape opt) = true →
    loopsOnly (withoutOptional ms) = true := by
  intro ms
  induction ms with
  | nil => intro _; rfl
  | cons st r ih =>
    intro h
    simp only [List.all_cons, Bool.and_eq_true] at h
    cases st <;> simp_all [loopsOnly, withoutOptional, extShape]

/-- soundness of `ConformsOptional`, the nested encoders of the non-list fields being required to
    conform only at the values the fields hold after `Marshal`; outside the finding `be:AndXOffset` -/
theorem conformsOptional_sound_at (C : Codecs) (c : Cmd) (hc : ConformsOptional c = true)
    (env : Env) (bs : Bytes) (env' : Env) (sb : Bytes)
    (hn : ∀ b f typ, MStmt.sub b f typ ∈ c.marshal → ∀ v', env'.get f = some (.t v') →
      NestedConformsAt C typ v')
    (hnl : ∀ b f typ, MStmt.forSub b f typ ∈ c.marshal → NestedConformsIn C typ)
    (hbe : andxOffsetBigEndian c.isAndX env' = false)
    (he : encodeCmd C c env = .ok bs) (ha : envAfterMarshal C c env = .ok env')
    (hs : Spec.Cifs.encodeOptional c env' = some sb) : bs = sb := by
  have hcore := ConformsCore_of_ConformsOptional hc
  simp only [ConformsOptional, Bool.and_eq_true, beq_iff_eq] at hc
  obtain ⟨⟨⟨_, hlen⟩, hsh⟩, htl⟩ := hc
  obtain ⟨f, hopt⟩ : ∃ f, optionalFields c.marshal = [f] := by
    cases h : optionalFields c.marshal with
    | nil => simp [h] at hlen
    | cons a r =>
      cases r with
      | nil => exact ⟨a, rfl⟩
      | cons _ _ => simp [h] at hlen
  rw [hopt] at hsh
  unfold envAfterMarshal at ha
  cases hrun : runM C c env with
  | err => simp [hrun] at ha
  | panic => simp [hrun] at ha
  | ok s =>
    simp only [hrun, Outcome.ok.injEq] at ha
    subst ha
    obtain ⟨hh, hblk⟩ := runM_blocks_ext C c [f] hcore hsh htl env s hrun hn hnl
    unfold Spec.Cifs.encodeOptional at hs
    simp only [hopt, List.head?_cons, Option.bind_eq_bind, Option.bind_some] at hs
    split at hs
    · cases hs
    · cases hv : s.env.get f with
      | none => simp [hv] at hs
      | some v =>
        simp only [hv, Option.bind_some, optional_fields_eq c s.env f v hv] at hs
        have hfold := fun (b : Blk) =>
          foldlM_encDecls s.env ((c.fields.filter (fun ft => blockOf c ft.1 == some b)).filter (keepDecl s.env [f])) []
        simp only [List.nil_append, Option.map_id', Option.bind_eq_bind] at hfold
        rw [hfold .P, hfold .D] at hs
        cases hp : encDecls s.env ((c.fields.filter (fun ft => blockOf c ft.1 == some .P)).filter (keepDecl s.env [f])) with
        | none => rw [hp] at hs; simp at hs
        | some p =>
          rw [hp] at hs
          cases hd : encDecls s.env ((c.fields.filter (fun ft => blockOf c ft.1 == some .D)).filter (keepDecl s.env [f])) with
          | none => rw [hd] at hs; simp at hs
          | some d =>
            rw [hd] at hs
            cases hax : andxBlock c.isAndX s.env with
            | none => rw [hax] at hs; simp at hs
            | some ax =>
              rw [hax] at hs
              simp only [Option.bind_some, Option.pure_def] at hs
              split at hs
              · cases hs
              · rename_i hlim
                have eP := hblk .P p hp
                have eD := hblk .D d hd
                simp only [MState.blk] at eP eD
                subst eP eD
                have hunt : andxUntouched c.marshal = true := by
                  simp only [ConformsCore, Bool.and_eq_true] at hcore; exact hcore.2
                have hframe : s.env.get andxField = (prologueEnv c.isAndX env).get andxField :=
                  run_env_stable_ext C c.isAndX [f] andxField c.marshal { env := prologueEnv c.isAndX env } s hsh hunt hrun
                simp only [Option.some.injEq] at hs
                rw [← hs]
                exact assemble C c env s bs ax hrun he hh hframe hbe hax hlim

end Manticore.SmbIR
