/-
  C12 helper lemmas — round trips of the standard-library primitives as modelled in `Prim`:
  base64 (encode then decode, with the padding stripped and restored), UTF-8, UTF-16, 16-byte blocks, CBC.
-/
import Manticore.Model.C12
import Manticore.Lemmas.Endian
namespace Manticore.C12.Prim
open Manticore

/-! ## base64 -/

theorem b64Val_b64Char : ∀ v, v < 64 → b64Val (b64Char v) = some v := by decide +kernel

theorem b64Val_pad : b64Val 61 = none := by decide
theorem isNL_pad : isNL 61 = false := by decide

/-- one full quantum is consumed and its three bytes are emitted -/
theorem decode_quantum (c0 c1 c2 c3 : UInt8) (v0 v1 v2 v3 : Nat) (rest out : Bytes)
    (h0 : b64Val c0 = some v0) (h1 : b64Val c1 = some v1) (h2 : b64Val c2 = some v2) (h3 : b64Val c3 = some v3) :
    b64DecodeAux (c0 :: c1 :: c2 :: c3 :: rest) [] out = b64DecodeAux rest [] (out ++ b64Bytes [v0, v1, v2, v3]) := by
  simp [b64DecodeAux, h0, h1, h2, h3]

theorem b64Bytes4 (v0 v1 v2 v3 : Nat) : b64Bytes [v0, v1, v2, v3] =
    [UInt8.ofNat ((v0 * 262144 + v1 * 4096 + v2 * 64 + v3) / 65536),
     UInt8.ofNat ((v0 * 262144 + v1 * 4096 + v2 * 64 + v3) / 256 % 256),
     UInt8.ofNat ((v0 * 262144 + v1 * 4096 + v2 * 64 + v3) % 256)] := rfl
theorem b64Bytes3 (v0 v1 v2 : Nat) : b64Bytes [v0, v1, v2] =
    [UInt8.ofNat ((v0 * 262144 + v1 * 4096 + v2 * 64) / 65536),
     UInt8.ofNat ((v0 * 262144 + v1 * 4096 + v2 * 64) / 256 % 256)] := rfl
theorem b64Bytes2 (v0 v1 : Nat) : b64Bytes [v0, v1] =
    [UInt8.ofNat ((v0 * 262144 + v1 * 4096) / 65536)] := rfl

theorem recombine (n : Nat) :
    n / 262144 * 262144 + n / 4096 % 64 * 4096 + n / 64 % 64 * 64 + n % 64 = n := by
  have h1 : n / 4096 = n / 64 / 64 := by rw [Nat.div_div_eq_div_mul]
  have h2 : n / 262144 = n / 64 / 64 / 64 := by rw [Nat.div_div_eq_div_mul, Nat.div_div_eq_div_mul]
  rw [h1, h2]
  omega

theorem bytes3 (a b c : UInt8) :
    b64Bytes [(a.toNat * 65536 + b.toNat * 256 + c.toNat) / 262144,
              (a.toNat * 65536 + b.toNat * 256 + c.toNat) / 4096 % 64,
              (a.toNat * 65536 + b.toNat * 256 + c.toNat) / 64 % 64,
              (a.toNat * 65536 + b.toNat * 256 + c.toNat) % 64] = [a, b, c] := by
  have ha := a.toNat_lt; have hb := b.toNat_lt; have hc := c.toNat_lt
  generalize hn : a.toNat * 65536 + b.toNat * 256 + c.toNat = n
  rw [b64Bytes4]
  have e := recombine n
  rw [e]
  have e1 : n / 65536 = a.toNat := by omega
  have e2 : n / 256 % 256 = b.toNat := by omega
  have e3 : n % 256 = c.toNat := by omega
  rw [e1, e2, e3, UInt8.ofNat_toNat, UInt8.ofNat_toNat, UInt8.ofNat_toNat]

theorem bytes2 (a b : UInt8) :
    b64Bytes [(a.toNat * 65536 + b.toNat * 256) / 262144,
              (a.toNat * 65536 + b.toNat * 256) / 4096 % 64,
              (a.toNat * 65536 + b.toNat * 256) / 64 % 64] = [a, b] := by
  have ha := a.toNat_lt; have hb := b.toNat_lt
  generalize hn : a.toNat * 65536 + b.toNat * 256 = n
  rw [b64Bytes3]
  have e : n / 262144 * 262144 + n / 4096 % 64 * 4096 + n / 64 % 64 * 64 = n := by
    have hr := recombine n
    have h0 : n % 64 = 0 := by omega
    rw [h0, Nat.add_zero] at hr
    exact hr
  rw [e]
  have e1 : n / 65536 = a.toNat := by omega
  have e2 : n / 256 % 256 = b.toNat := by omega
  rw [e1, e2, UInt8.ofNat_toNat, UInt8.ofNat_toNat]

theorem bytes1 (a : UInt8) :
    b64Bytes [(a.toNat * 65536) / 262144, (a.toNat * 65536) / 4096 % 64] = [a] := by
  have ha := a.toNat_lt
  generalize hn : a.toNat * 65536 = n
  rw [b64Bytes2]
  have e : n / 262144 * 262144 + n / 4096 % 64 * 4096 = n := by
    have hr := recombine n
    have h0 : n % 64 = 0 := by omega
    have h1 : n / 64 % 64 = 0 := by omega
    rw [h0, h1, Nat.zero_mul, Nat.add_zero] at hr
    exact hr
  rw [e]
  have e1 : n / 65536 = a.toNat := by omega
  rw [e1, UInt8.ofNat_toNat]

/-- `DecodeString(EncodeToString(data)) = data` -/
theorem b64_decode_encode : ∀ (data out : Bytes), b64DecodeAux (b64Encode data) [] out = some (out ++ data)
  | a :: b :: c :: rest, out => by
    have ha := a.toNat_lt; have hb := b.toNat_lt; have hc := c.toNat_lt
    rw [b64Encode]
    rw [decode_quantum _ _ _ _ _ _ _ _ _ _
      (b64Val_b64Char _ (by omega)) (b64Val_b64Char _ (by omega)) (b64Val_b64Char _ (by omega))
      (b64Val_b64Char _ (by omega))]
    rw [bytes3, b64_decode_encode rest]
    simp
  | [a, b], out => by
    have ha := a.toNat_lt; have hb := b.toNat_lt
    rw [b64Encode]
    simp only [b64DecodeAux, b64Val_b64Char _ (show (a.toNat * 65536 + b.toNat * 256) / 262144 < 64 by omega),
      b64Val_b64Char _ (show (a.toNat * 65536 + b.toNat * 256) / 4096 % 64 < 64 by omega),
      b64Val_b64Char _ (show (a.toNat * 65536 + b.toNat * 256) / 64 % 64 < 64 by omega),
      b64Val_pad, isNL_pad]
    simp [bytes2]
  | [a], out => by
    have ha := a.toNat_lt
    rw [b64Encode]
    simp only [b64DecodeAux, b64Val_b64Char _ (show (a.toNat * 65536) / 262144 < 64 by omega),
      b64Val_b64Char _ (show (a.toNat * 65536) / 4096 % 64 < 64 by omega),
      b64Val_pad, isNL_pad]
    simp [bytes1, isNL_pad]
  | [], out => by simp [b64Encode, b64DecodeAux]

theorem b64Decode_encode (data : Bytes) : b64Decode (b64Encode data) = some data := by
  simpa [b64Decode] using b64_decode_encode data []

/-- number of '=' characters at the end of the encoding -/
def padCount (data : Bytes) : Nat := (3 - data.length % 3) % 3

theorem b64Encode_shape : ∀ data : Bytes,
    (b64Encode data).length % 4 = 0 ∧ ∃ body, b64Encode data = body ++ List.replicate (padCount data) 61
  | a :: b :: c :: rest => by
    obtain ⟨h1, body, h2⟩ := b64Encode_shape rest
    rw [b64Encode]
    simp only [List.length_cons]
    have hpc : padCount (a :: b :: c :: rest) = padCount rest := by simp [padCount]; omega
    refine ⟨by omega, ?_⟩
    rw [h2, hpc]
    exact ⟨_ :: _ :: _ :: _ :: body, rfl⟩
  | [a, b] => by
    rw [b64Encode]
    exact ⟨by simp, [_, _, _], rfl⟩
  | [a] => by
    rw [b64Encode]
    exact ⟨by simp, [_, _], rfl⟩
  | [] => by
    rw [b64Encode]
    exact ⟨rfl, [], rfl⟩

/-! ## UTF-8 -/

theorem runes_cons (s : Bytes) (h : s ≠ []) :
    runesOfString s = (decodeRune s).1 :: runesOfString (s.drop (decodeRune s).2) := by
  rw [runesOfString, dif_neg h]

theorem runes_nil : runesOfString [] = [] := by rw [runesOfString]; simp

open GPP.Spec (IsScalar)

theorem toNat_ofNat_lt (n : Nat) (h : n < 256) : (UInt8.ofNat n).toNat = n := by
  simp [UInt8.toNat_ofNat']; omega

theorem decodeRune_encodeRune (c : Nat) (hc : IsScalar c) (rest : Bytes) :
    decodeRune (encodeRune c ++ rest) = (c, (encodeRune c).length) := by
  unfold GPP.Spec.IsScalar at hc
  unfold encodeRune
  by_cases h1 : c < 0x80
  · simp only [h1, if_true, List.cons_append, List.nil_append, decodeRune, toNat_ofNat_lt c (by omega)]
    simp
  · simp only [h1, if_false]
    by_cases h2 : c < 0x800
    · simp only [h2, if_true, List.cons_append, List.nil_append, decodeRune,
        toNat_ofNat_lt (0xC0 + c / 64) (by omega)]
      rw [if_neg (by omega), if_neg (by omega), if_pos (by omega)]
      simp only [dec2, isCont, toNat_ofNat_lt (0x80 + c % 64) (by omega)]
      rw [if_pos (by simp; omega)]
      simp only [List.length_cons, List.length_nil, Prod.mk.injEq, and_true]
      omega
    · simp only [h2, if_false]
      rw [if_neg (by omega)]
      by_cases h3 : c < 0x10000
      · simp only [h3, if_true, List.cons_append, List.nil_append, decodeRune,
          toNat_ofNat_lt (0xE0 + c / 4096) (by omega)]
        rw [if_neg (by omega), if_neg (by omega), if_neg (by omega), if_pos (by omega)]
        simp only [dec3, isCont, toNat_ofNat_lt (0x80 + c / 64 % 64) (by omega),
          toNat_ofNat_lt (0x80 + c % 64) (by omega)]
        rw [if_pos (by
          refine ⟨?_, ?_, ?_⟩
          · split <;> omega
          · split <;> omega
          · simp; omega)]
        simp only [List.length_cons, List.length_nil, Prod.mk.injEq, and_true]
        omega
      · simp only [h3, if_false, List.cons_append, List.nil_append, decodeRune,
          toNat_ofNat_lt (0xF0 + c / 262144) (by omega)]
        rw [if_neg (by omega), if_neg (by omega), if_neg (by omega), if_neg (by omega), if_pos (by omega)]
        simp only [dec4, isCont, toNat_ofNat_lt (0x80 + c / 4096 % 64) (by omega),
          toNat_ofNat_lt (0x80 + c / 64 % 64) (by omega), toNat_ofNat_lt (0x80 + c % 64) (by omega)]
        rw [if_pos (by
          refine ⟨?_, ?_, ?_, ?_⟩
          · split <;> omega
          · split <;> omega
          · simp; omega
          · simp; omega)]
        simp only [List.length_cons, List.length_nil, Prod.mk.injEq, and_true]
        omega

theorem encodeRune_ne_nil (c : Nat) : encodeRune c ≠ [] := by
  unfold encodeRune; repeat' split
  all_goals simp

/-- `[]rune(string(cps)) = cps` for Unicode scalar values -/
theorem runes_string : ∀ cps : List Nat, (∀ c ∈ cps, IsScalar c) → runesOfString (stringOfRunes cps) = cps
  | [], _ => by simp [stringOfRunes, runes_nil]
  | c :: cs, h => by
    have hc := h c List.mem_cons_self
    have e : stringOfRunes (c :: cs) = encodeRune c ++ stringOfRunes cs := by simp [stringOfRunes]
    rw [e, runes_cons _ (by simp [encodeRune_ne_nil]), decodeRune_encodeRune c hc]
    simp only [List.drop_left']
    rw [runes_string cs (fun x hx => h x (List.mem_cons_of_mem _ hx))]

/-! ## UTF-16 -/

theorem utf16Decode_single (r : UInt16) (tl : List UInt16) (h : r.toNat < 0xD800 ∨ 0xE000 ≤ r.toNat) :
    utf16Decode (r :: tl) = r.toNat :: utf16Decode tl := by
  cases tl with
  | nil => simp [utf16Decode, h]
  | cons r2 rest => simp [utf16Decode, h]

theorem utf16Decode_pair (r r2 : UInt16) (tl : List UInt16)
    (h1 : 0xD800 ≤ r.toNat ∧ r.toNat < 0xDC00) (h2 : 0xDC00 ≤ r2.toNat ∧ r2.toNat < 0xE000) :
    utf16Decode (r :: r2 :: tl) = ((r.toNat - 0xD800) * 1024 + (r2.toNat - 0xDC00) + 0x10000) :: utf16Decode tl := by
  rw [utf16Decode, if_neg (by omega), if_pos (by omega)]

theorem toNat16_ofNat_lt (n : Nat) (h : n < 65536) : (UInt16.ofNat n).toNat = n := by
  simp [UInt16.toNat_ofNat']; omega

/-- `utf16.Decode(utf16.Encode(cps)) = cps` for Unicode scalar values -/
theorem utf16_decode_encode : ∀ cps : List Nat, (∀ c ∈ cps, IsScalar c) → utf16Decode (utf16Encode cps) = cps
  | [], _ => rfl
  | c :: cs, h => by
    have hc := h c List.mem_cons_self
    have ih := utf16_decode_encode cs (fun x hx => h x (List.mem_cons_of_mem _ hx))
    unfold GPP.Spec.IsScalar at hc
    rw [utf16Encode]
    by_cases h1 : c < 0xD800 ∨ (0xE000 ≤ c ∧ c < 0x10000)
    · rw [if_pos h1, utf16Decode_single _ _ (by rw [toNat16_ofNat_lt c (by omega)]; omega),
        toNat16_ofNat_lt c (by omega), ih]
    · rw [if_neg h1, if_pos (by omega)]
      simp only
      rw [utf16Decode_pair _ _ _
        (by rw [toNat16_ofNat_lt _ (by omega)]; omega) (by rw [toNat16_ofNat_lt _ (by omega)]; omega),
        toNat16_ofNat_lt _ (by omega), toNat16_ofNat_lt _ (by omega), ih]
      congr 1
      omega

/-! ## 16-byte blocks and CBC -/

theorem blocks16_short (l : Bytes) (h : l.length < 16) : blocks16 l = [] := by
  rw [blocks16, dif_neg (by omega)]

theorem blocks16_long (l : Bytes) (h : 16 ≤ l.length) : blocks16 l = l.take 16 :: blocks16 (l.drop 16) := by
  rw [blocks16, dif_pos h]

/-- cutting the concatenation of 16-byte blocks gives the blocks back -/
theorem blocks16_flatten : ∀ bs : List Bytes, (∀ b ∈ bs, b.length = 16) → blocks16 bs.flatten = bs
  | [], _ => by simp [blocks16_short]
  | b :: bs, h => by
    have hb := h b List.mem_cons_self
    rw [List.flatten_cons, blocks16_long _ (by simp; omega)]
    rw [List.take_left' hb, List.drop_left' hb, blocks16_flatten bs (fun x hx => h x (List.mem_cons_of_mem _ hx))]

/-- a whole number of blocks is the concatenation of its blocks, each 16 bytes long -/
theorem flatten_blocks16 (l : Bytes) (h : l.length % 16 = 0) :
    (blocks16 l).flatten = l ∧ ∀ b ∈ blocks16 l, b.length = 16 := by
  induction l using blocks16.induct with
  | case1 l hl ih =>
    have := ih (by simp only [List.length_drop]; omega)
    rw [blocks16_long l hl]
    constructor
    · rw [List.flatten_cons, this.1, List.take_append_drop]
    · intro b hb
      rcases List.mem_cons.mp hb with rfl | hb
      · simp; omega
      · exact this.2 b hb
  | case2 l hl =>
    have : l = [] := by
      apply List.length_eq_zero_iff.mp; omega
    subst this
    simp [blocks16_short]

theorem xorBytes_cancel : ∀ (p iv : Bytes), p.length ≤ iv.length → xorBytes (xorBytes p iv) iv = p
  | [], _, _ => by simp [xorBytes]
  | a :: p, [], h => by simp at h
  | a :: p, b :: iv, h => by
    simp only [xorBytes, List.zipWith_cons_cons, List.cons.injEq]
    refine ⟨?_, xorBytes_cancel p iv (by simpa using h)⟩
    rw [UInt8.xor_assoc, UInt8.xor_self, UInt8.xor_zero]

theorem xorBytes_length (a b : Bytes) : (xorBytes a b).length = min a.length b.length := by
  simp [xorBytes]

/-- CBC decryption undoes CBC encryption when `D` undoes `E` on blocks -/
theorem cbc_dec_enc (E D : Bytes → Bytes)
    (hE : ∀ x, x.length = 16 → (E x).length = 16) (hDE : ∀ x, x.length = 16 → D (E x) = x) :
    ∀ (ps : List Bytes) (iv : Bytes), iv.length = 16 → (∀ p ∈ ps, p.length = 16) →
      cbcDecBlocks D iv (cbcEncBlocks E iv ps) = ps ∧ ∀ c ∈ cbcEncBlocks E iv ps, c.length = 16
  | [], _, _, _ => ⟨rfl, by simp [cbcEncBlocks]⟩
  | p :: ps, iv, hiv, h => by
    have hp := h p List.mem_cons_self
    have hx : (xorBytes p iv).length = 16 := by rw [xorBytes_length]; omega
    have ih := cbc_dec_enc E D hE hDE ps (E (xorBytes p iv)) (hE _ hx) (fun x hx => h x (List.mem_cons_of_mem _ hx))
    simp only [cbcEncBlocks, cbcDecBlocks]
    constructor
    · rw [hDE _ hx, xorBytes_cancel p iv (by omega), ih.1]
    · intro c hc
      rcases List.mem_cons.mp hc with rfl | hc
      · exact hE _ hx
      · exact ih.2 c hc

theorem flatten_length16 : ∀ bs : List Bytes, (∀ b ∈ bs, b.length = 16) → bs.flatten.length = 16 * bs.length
  | [], _ => rfl
  | b :: bs, h => by
    rw [List.flatten_cons, List.length_append, h b List.mem_cons_self,
      flatten_length16 bs (fun x hx => h x (List.mem_cons_of_mem _ hx)), List.length_cons]
    omega

end Manticore.C12.Prim
