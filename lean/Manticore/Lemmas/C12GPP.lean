/-
  C12 helper lemmas — GPP: the pieces of `GPPPEncrypt` / `GPPPDecryptBase64` compose to the identity, and the
  model's encryption is the specification's AES-256-CBC formula.
-/
import Manticore.Model.C12
import Manticore.Lemmas.C12Prim
import Manticore.Lemmas.C12PKCS7
namespace Manticore.C12.GPP
open Manticore Prim
open GPP.Spec (IsScalar)

theorem length_putLe16 : ∀ us : List UInt16, (us.flatMap putLe16).length = 2 * us.length
  | [] => rfl
  | u :: us => by simp [List.flatMap_cons, putLe16, length_putLe16 us]; omega

theorem unitsLE_putLe16 : ∀ us : List UInt16, unitsLE (us.flatMap putLe16) = .ok us
  | [] => rfl
  | u :: us => by
    simp only [List.flatMap_cons, putLe16, List.cons_append, List.nil_append, unitsLE, unitsLE_putLe16 us,
      le16_bytes]

/-- `DecodeUTF16LE(EncodeUTF16LE(s)) = s` for a string of Unicode scalar values -/
theorem decode_encode_utf16le (cps : List Nat) (h : ∀ c ∈ cps, IsScalar c) :
    decodeUTF16LE (encodeUTF16LE (stringOfRunes cps)) = .ok (stringOfRunes cps) := by
  unfold decodeUTF16LE encodeUTF16LE
  rw [runes_string cps h, unitsLE_putLe16]
  simp only [utf16_decode_encode cps h]

theorem encodeUTF16LE_even (s : Bytes) : (encodeUTF16LE s).length % 2 = 0 := by
  unfold encodeUTF16LE; rw [length_putLe16]; omega

/-! ### re-padding -/

theorem repad_mod4 (s : Bytes) (h : s.length % 4 = 0) : repad s = s := by
  unfold repad; simp [h]

theorem padCount_le (c : Bytes) : padCount c ≤ 2 := by unfold padCount; omega

/-- dropping up to all of the trailing '=' and re-padding gives the canonical text back -/
theorem repad_strip (body : Bytes) (k j : Nat) (hk : k ≤ 2) (hj : j ≤ k)
    (hlen : (body ++ List.replicate k (61 : UInt8)).length % 4 = 0) :
    repad ((body ++ List.replicate k 61).take ((body ++ List.replicate k 61).length - j))
      = body ++ List.replicate k 61 := by
  have e : (body ++ List.replicate k (61 : UInt8)).take ((body ++ List.replicate k (61 : UInt8)).length - j)
      = body ++ List.replicate (k - j) 61 := by
    rw [List.take_append]
    simp only [List.length_append, List.length_replicate]
    rw [List.take_of_length_le (by omega), show body.length + k - j - body.length = k - j by omega,
      List.take_replicate, Nat.min_eq_left (by omega)]
  rw [e]
  simp only [List.length_append, List.length_replicate] at hlen
  unfold repad
  simp only [List.length_append, List.length_replicate]
  have hj2 : j = 0 ∨ j = 1 ∨ j = 2 := by omega
  rcases hj2 with rfl | rfl | rfl
  · simp [hlen]
  · have hm : (body.length + (k - 1)) % 4 = 3 := by omega
    rw [hm]
    simp only [show ¬ (3 = 1) by omega, if_false, List.append_assoc]
    rw [List.replicate_append_replicate]
    simp
    congr 2; omega
  · have hm : (body.length + (k - 2)) % 4 = 2 := by omega
    rw [hm]
    simp only [show ¬ (2 = 1) by omega, if_false, List.append_assoc]
    rw [List.replicate_append_replicate]
    simp
    congr 2; omega

/-! ### padding to 16 -/

theorem pad16 (u : Bytes) : PKCS7.pad u 16 = .ok (PKCS7.Spec.pad u 16) := by
  unfold PKCS7.pad PKCS7.Spec.pad
  rw [if_neg (by decide)]
  rfl

theorem pad16_length (u : Bytes) : (PKCS7.Spec.pad u 16).length % 16 = 0 := by
  simp only [PKCS7.Spec.pad, List.length_append, List.length_replicate]; omega

theorem pad16_valid (u : Bytes) : PKCS7.Spec.Valid (PKCS7.Spec.pad u 16) u :=
  ⟨16 - u.length % 16, by omega, by omega, rfl⟩

/-! ### CBC: loop form = SP 800-38A recurrence -/

theorem cbc_foldl (E : Bytes → Bytes) : ∀ (bs : List Bytes) (iv : Bytes) (acc : List Bytes),
    (bs.foldl (fun (a : Bytes × List Bytes) p => (E (xorBytes p a.1), a.2 ++ [E (xorBytes p a.1)])) (iv, acc)).2
      = acc ++ cbcEncBlocks E iv bs
  | [], _, _ => by simp [cbcEncBlocks]
  | b :: bs, iv, acc => by
    simp only [List.foldl_cons, cbcEncBlocks]
    rw [cbc_foldl E bs]
    simp

theorem cbcEnc_eq_spec (E : Bytes → Bytes) (iv : Bytes) (bs : List Bytes) :
    cbcEncBlocks E iv bs = Spec.cbcEncrypt E iv bs := by
  unfold Spec.cbcEncrypt
  rw [cbc_foldl]; simp

/-! ### UTF-16LE: Go's encoder = Unicode D91 on scalar values -/

theorem u16_lo (n : Nat) (_h : n < 65536) : (UInt16.ofNat n).toUInt8 = UInt8.ofNat (n % 256) := by
  apply UInt8.toNat_inj.mp
  simp [UInt8.toNat_ofNat']

theorem u16_hi (n : Nat) (h : n < 65536) : ((UInt16.ofNat n) >>> 8).toUInt8 = UInt8.ofNat (n / 256) := by
  apply UInt8.toNat_inj.mp
  simp [UInt16.toNat_toUInt8, UInt16.toNat_shiftRight, UInt16.toNat_ofNat', UInt8.toNat_ofNat',
    Nat.shiftRight_eq_div_pow]
  omega

theorem utf16le_eq_spec : ∀ cps : List Nat, (∀ c ∈ cps, IsScalar c) →
    (utf16Encode cps).flatMap putLe16 = Spec.utf16le cps
  | [], _ => rfl
  | c :: cs, h => by
    have hc := h c List.mem_cons_self
    have ih := utf16le_eq_spec cs (fun x hx => h x (List.mem_cons_of_mem _ hx))
    unfold GPP.Spec.IsScalar at hc
    simp only [Spec.utf16le, List.flatMap_cons] at ih ⊢
    rw [utf16Encode]
    by_cases h1 : c < 0xD800 ∨ (0xE000 ≤ c ∧ c < 0x10000)
    · rw [if_pos h1]
      simp only [List.flatMap_cons, putLe16, Spec.utf16leOf, if_pos (show c < 0x10000 by omega),
        u16_lo c (by omega), u16_hi c (by omega), ih]
    · rw [if_neg h1, if_pos (by omega)]
      have e1 : 0xD800 + (c - 0x10000) / 1024 % 1024 = 0xD800 + (c - 0x10000) / 1024 := by omega
      simp only [List.flatMap_cons, putLe16, Spec.utf16leOf, if_neg (show ¬ c < 0x10000 by omega), e1,
        u16_lo _ (show 0xD800 + (c - 0x10000) / 1024 < 65536 by omega),
        u16_hi _ (show 0xD800 + (c - 0x10000) / 1024 < 65536 by omega),
        u16_lo _ (show 0xDC00 + (c - 0x10000) % 1024 < 65536 by omega),
        u16_hi _ (show 0xDC00 + (c - 0x10000) % 1024 < 65536 by omega), ih]
      rfl

/-! ### decryption never panics; the strict UTF-16LE reading agrees with Go's lenient decoder -/

theorem unitsLE_even : ∀ u : Bytes, u.length % 2 = 0 → ∃ us, unitsLE u = .ok us
  | [], _ => ⟨[], rfl⟩
  | [_], h => by simp at h
  | a :: b :: rest, h => by
    obtain ⟨us, hus⟩ := unitsLE_even rest (by simp only [List.length_cons] at h; omega)
    exact ⟨le16 a b :: us, by simp [unitsLE, hus]⟩

theorem le16_toNat (b0 b1 : UInt8) : (le16 b0 b1).toNat = b0.toNat + 256 * b1.toNat := by
  have h0 := b0.toNat_lt; have h1 := b1.toNat_lt
  simp only [le16, UInt16.toNat_or, UInt16.toNat_shiftLeft, UInt8.toNat_toUInt16]
  have e : (8 : UInt16).toNat % 16 = 8 := rfl
  rw [e, Nat.shiftLeft_eq, Nat.mod_eq_of_lt (by omega), Nat.or_comm]
  have := Nat.shiftLeft_add_eq_or_of_lt (show b0.toNat < 2 ^ 8 from h0) b1.toNat
  rw [Nat.shiftLeft_eq] at this
  rw [← this]
  omega

theorem strict_units : ∀ (u : Bytes) (ns : List Nat), Spec.unitsLE? u = some ns →
    ∃ us, unitsLE u = .ok us ∧ us.map UInt16.toNat = ns
  | [], ns, h => by
    simp only [Spec.unitsLE?, Option.some.injEq] at h; subst h; exact ⟨[], rfl, rfl⟩
  | [_], _, h => by simp [Spec.unitsLE?] at h
  | b0 :: b1 :: rest, ns, h => by
    rw [Spec.unitsLE?] at h
    cases hr : Spec.unitsLE? rest with
    | none => rw [hr] at h; cases h
    | some tl =>
      rw [hr] at h
      simp only [Option.map_eq_map, Option.map_some, Option.some.injEq] at h
      obtain ⟨us, hus, hm⟩ := strict_units rest tl hr
      exact ⟨le16 b0 b1 :: us, by simp [unitsLE, hus], by simp [le16_toNat, hm, ← h]⟩

theorem strict_scalars : ∀ (us : List UInt16) (cps : List Nat),
    Spec.scalars? (us.map UInt16.toNat) = some cps → utf16Decode us = cps
  | [], cps, h => by
    simp only [List.map_nil, Spec.scalars?, Option.some.injEq] at h; subst h; rfl
  | [r], cps, h => by
    simp only [List.map_cons, List.map_nil, Spec.scalars?] at h
    by_cases h1 : r.toNat < 0xD800 ∨ 0xE000 ≤ r.toNat
    · rw [if_pos h1] at h
      simp only [Option.some.injEq] at h; subst h
      simp [utf16Decode, h1]
    · rw [if_neg h1] at h; cases h
  | r :: r2 :: rest, cps, h => by
    simp only [List.map_cons, Spec.scalars?] at h
    by_cases h1 : r.toNat < 0xD800 ∨ 0xE000 ≤ r.toNat
    · rw [if_pos h1] at h
      cases hr : Spec.scalars? (r2.toNat :: rest.map UInt16.toNat) with
      | none => rw [hr] at h; cases h
      | some tl =>
        rw [hr] at h
        simp only [Option.map_eq_map, Option.map_some, Option.some.injEq] at h
        have := strict_scalars (r2 :: rest) tl (by simpa using hr)
        rw [utf16Decode_single _ _ h1, this, ← h]
    · rw [if_neg h1] at h
      by_cases h2 : r.toNat < 0xDC00 ∧ 0xDC00 ≤ r2.toNat ∧ r2.toNat < 0xE000
      · rw [if_pos h2] at h
        cases hr : Spec.scalars? (rest.map UInt16.toNat) with
        | none => rw [hr] at h; cases h
        | some tl =>
          rw [hr] at h
          simp only [Option.map_eq_map, Option.map_some, Option.some.injEq] at h
          have := strict_scalars rest tl hr
          rw [utf16Decode_pair _ _ _ (by omega) ⟨h2.2.1, h2.2.2⟩, this, ← h]
      · rw [if_neg h2] at h; cases h

/-- on well-formed UTF-16LE the strict specification decoder and the library path agree -/
theorem strict_utf16 (u : Bytes) (cps : List Nat) (h : Spec.utf16leDecode? u = some cps) :
    ∃ us, unitsLE u = .ok us ∧ utf16Decode us = cps := by
  unfold Spec.utf16leDecode? at h
  cases hu : Spec.unitsLE? u with
  | none => rw [hu] at h; cases h
  | some ns =>
    rw [hu] at h
    obtain ⟨us, hus, hm⟩ := strict_units u ns hu
    refine ⟨us, hus, strict_scalars us cps ?_⟩
    rw [hm]; exact h

theorem unitsLE_length : ∀ (u : Bytes) (us : List UInt16), unitsLE u = .ok us → u.length / 2 = us.length
  | [], us, h => by
    simp only [unitsLE, Outcome.ok.injEq] at h; subst h; rfl
  | [_], us, h => by
    simp only [unitsLE, Outcome.ok.injEq] at h; subst h; simp
  | a :: b :: rest, us, h => by
    simp only [unitsLE] at h
    cases hr : unitsLE rest with
    | ok us' =>
      rw [hr] at h
      simp only [Outcome.ok.injEq] at h; subst h
      have := unitsLE_length rest us' hr
      simp only [List.length_cons]; omega
    | err => rw [hr] at h; cases h
    | panic => rw [hr] at h; cases h

/-- `DecodeUTF16LE` reads `len(b)/2` code units from any byte string: it never panics -/
theorem unitsLE_ok : ∀ u : Bytes, ∃ us, unitsLE u = .ok us
  | [] => ⟨[], rfl⟩
  | [_] => ⟨[], rfl⟩
  | a :: b :: rest => by
    obtain ⟨us, hus⟩ := unitsLE_ok rest
    exact ⟨le16 a b :: us, by simp [unitsLE, hus]⟩

theorem spec_unitsLE_length : ∀ (u : Bytes) (ns : List Nat), Spec.unitsLE? u = some ns → u.length = 2 * ns.length
  | [], ns, h => by
    simp only [Spec.unitsLE?, Option.some.injEq] at h; subst h; rfl
  | [_], _, h => by simp [Spec.unitsLE?] at h
  | a :: b :: rest, ns, h => by
    rw [Spec.unitsLE?] at h
    cases hr : Spec.unitsLE? rest with
    | none => rw [hr] at h; simp at h
    | some ns' =>
      rw [hr] at h
      simp only [Option.map_eq_map, Option.map_some, Option.some.injEq] at h
      subst h
      have := spec_unitsLE_length rest ns' hr
      simp only [List.length_cons]; omega

theorem strict_utf16_even (u : Bytes) (cps : List Nat) (h : Spec.utf16leDecode? u = some cps) :
    u.length % 2 = 0 := by
  unfold Spec.utf16leDecode? at h
  cases hu : Spec.unitsLE? u with
  | none => rw [hu] at h; cases h
  | some ns => rw [spec_unitsLE_length u ns hu]; omega

end Manticore.C12.GPP
