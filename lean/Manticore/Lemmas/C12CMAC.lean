/-
  C12 helper lemmas — CMAC: the lazy streaming state represents the SP 800-38B chaining value for every
  message written so far (byte-at-a-time ⇒ every chunking).  Adapted from DESIGN-appendix-sketches §L.
-/
import Manticore.Model.C12
namespace Manticore.C12.CMAC
open Manticore
open Spec

variable {n : Nat} (E : Block n → Block n)

theorem chain_short (X : Block n) (m : Bytes) (hn : 0 < n) (h : m.length ≤ n) :
    chain E X m hn = (X, m) := by rw [chain]; simp [h]

theorem chain_long (X : Block n) (m : Bytes) (hn : 0 < n) (h : n < m.length) :
    chain E X m hn = chain E (E (vxor X (padTo (m.take n)))) (m.drop n) hn := by
  rw [chain]; simp [show ¬ m.length ≤ n by omega]

theorem chain_tail_le (X : Block n) (m : Bytes) (hn : 0 < n) : (chain E X m hn).2.length ≤ n := by
  induction X, m using chain.induct E hn with
  | case1 X m h => rw [chain_short E X m hn h]; exact h
  | case2 X m h ih => rw [chain_long E X m hn (by omega)]; exact ih

/-- appending one byte to the message -/
theorem chain_snoc (X : Block n) (m : Bytes) (c : UInt8) (hn : 0 < n) :
    chain E X (m ++ [c]) hn =
      if (chain E X m hn).2.length < n then ((chain E X m hn).1, (chain E X m hn).2 ++ [c])
      else (E (vxor (chain E X m hn).1 (padTo (chain E X m hn).2)), [c]) := by
  induction X, m using chain.induct E hn with
  | case1 X m h =>
    rw [chain_short E X m hn h]
    by_cases hlt : m.length < n
    · simp only [hlt, if_true]
      exact chain_short E X (m ++ [c]) hn (by simp; omega)
    · have he : m.length = n := by omega
      simp only [hlt, if_false]
      rw [chain_long E X (m ++ [c]) hn (by simp; omega)]
      have t : (m ++ [c]).take n = m := by rw [← he]; simp
      have d : (m ++ [c]).drop n = [c] := by rw [← he]; simp
      rw [t, d]
      exact chain_short E _ [c] hn (by simp; omega)
  | case2 X m h ih =>
    have hl : n < m.length := by omega
    rw [chain_long E X m hn hl, chain_long E X (m ++ [c]) hn (by simp; omega)]
    have t : (m ++ [c]).take n = m.take n := List.take_append_of_le_length (by omega)
    have d : (m ++ [c]).drop n = m.drop n ++ [c] := List.drop_append_of_le_length (by omega)
    rw [t, d]; exact ih

@[simp] theorem vxor_get (a b : Block n) (i : Nat) (h : i < n) : (vxor a b)[i] = a[i] ^^^ b[i] := by
  simp [vxor]
@[simp] theorem padTo_get (t : Bytes) (i : Nat) (h : i < n) : (padTo (n := n) t)[i] = t.getD i 0 := by
  simp [padTo]

/-- xor-ing one more byte into position |t| of `X ⊕ pad t` gives `X ⊕ pad (t ++ [c])` -/
theorem set_snoc (X : Block n) (t : Bytes) (c : UInt8) (h : t.length < n) :
    (vxor X (padTo t)).set t.length ((vxor X (padTo t))[t.length] ^^^ c) = vxor X (padTo (t ++ [c])) := by
  apply Vector.ext
  intro i hi
  simp only [Vector.getElem_set, vxor_get, padTo_get]
  by_cases e : t.length = i
  · subst e; simp [List.getD_eq_getElem?_getD]
  · simp only [e, if_false]
    congr 1
    simp only [List.getD_eq_getElem?_getD]
    by_cases hlt : i < t.length
    · rw [List.getElem?_append_left hlt]
    · rw [List.getElem?_append_right (by omega)]
      have : i - t.length ≠ 0 := by omega
      rw [List.getElem?_eq_none (by omega)]
      cases hk : i - t.length with
      | zero => omega
      | succ k => simp

/-- the streaming state `s` represents the message `m` written since New / the last Reset -/
structure Rep (hn : 0 < n) (s : State n) (m : Bytes) : Prop where
  p : s.p = (chain E zero m hn).2.length
  ci : s.ci = vxor (chain E zero m hn).1 (padTo (chain E zero m hn).2)

theorem rep_init (hn : 0 < n) (s : State n) (hp : s.p = 0) (hci : s.ci = zero) : Rep E hn s [] := by
  constructor
  · rw [chain_short E zero [] hn (by simp)]; simpa using hp
  · rw [chain_short E zero [] hn (by simp), hci]
    apply Vector.ext; intro i hi; simp [zero]

theorem writeByte_lt (s : State n) (c : UInt8) (h : s.p < n) :
    writeByte E s c = .ok { s with ci := s.ci.set s.p (s.ci[s.p] ^^^ c), p := s.p + 1 } := by
  unfold writeByte
  have : ¬ n ≤ s.p := by omega
  simp only [if_neg this, dif_pos h]

theorem writeByte_full (hn : 0 < n) (s : State n) (c : UInt8) (h : n ≤ s.p) :
    writeByte E s c = .ok { s with ci := (E s.ci).set 0 ((E s.ci)[0] ^^^ c), p := 1 } := by
  unfold writeByte
  simp only [if_pos h, dif_pos hn]

theorem rep_step (hn : 0 < n) (s : State n) (m : Bytes) (c : UInt8) (h : Rep E hn s m) :
    ∃ s', writeByte E s c = .ok s' ∧ Rep E hn s' (m ++ [c]) ∧ s'.k1 = s.k1 ∧ s'.k2 = s.k2 := by
  obtain ⟨hp, hci⟩ := h
  have hle := chain_tail_le E zero m hn
  have hs := chain_snoc E zero m c hn
  rcases hch : chain E zero m hn with ⟨X, t⟩
  rw [hch] at hp hci hle hs
  simp only at hp hci hle hs
  by_cases hlt : t.length < n
  · simp only [hlt, if_true] at hs
    rw [writeByte_lt E s c (by omega)]
    refine ⟨_, rfl, ⟨?_, ?_⟩, rfl, rfl⟩
    · rw [hs]; simp [hp]
    · rw [hs]; simp only
      rw [← set_snoc X t c hlt]
      simp only [hci, hp]
  · simp only [hlt, if_false] at hs
    rw [writeByte_full E hn s c (by omega)]
    refine ⟨_, rfl, ⟨?_, ?_⟩, rfl, rfl⟩
    · rw [hs]; simp
    · rw [hs]; simp only
      have := set_snoc (E (vxor X (padTo t))) [] c (by simpa using hn)
      have hz : vxor (E (vxor X (padTo t))) (padTo []) = E (vxor X (padTo t)) := by
        apply Vector.ext; intro i hi; simp
      rw [hci]
      simpa [hz] using this

theorem rep_write (hn : 0 < n) (p : Bytes) : ∀ (s : State n) (m : Bytes), Rep E hn s m →
    ∃ s', write E s p = .ok s' ∧ Rep E hn s' (m ++ p) ∧ s'.k1 = s.k1 ∧ s'.k2 = s.k2 := by
  induction p with
  | nil => intro s m h; exact ⟨s, rfl, by simpa using h, rfl, rfl⟩
  | cons c cs ih =>
    intro s m h
    obtain ⟨s1, h1, r1, ka, kb⟩ := rep_step E hn s m c h
    obtain ⟨s2, h2, r2, kc, kd⟩ := ih s1 (m ++ [c]) r1
    refine ⟨s2, ?_, ?_, by rw [kc, ka], by rw [kd, kb]⟩
    · simp only [write, h1, h2]
    · simpa [List.append_assoc] using r2

theorem sum_eq_spec (hn : 0 < n) (s : State n) (m pfx : Bytes) (h : Rep E hn s m) :
    (sum E s pfx).2 = pfx ++ (cmacWith E s.k1 s.k2 m hn).toList := by
  obtain ⟨hp, hci⟩ := h
  have hle := chain_tail_le E zero m hn
  unfold cmacWith
  rcases hch : chain E zero m hn with ⟨X, t⟩
  rw [hch] at hp hci hle
  simp only at hp hci hle ⊢
  unfold sum final
  simp only
  by_cases hlt : t.length < n
  · have hpn : s.p < n := by omega
    simp only [dif_pos hpn, if_pos hpn, if_neg (show t.length ≠ n by omega)]
    congr 3
    apply Vector.ext; intro i hi
    simp only [Vector.getElem_set, vxor_get, padTo_get, hci, hp]
    by_cases e : t.length = i
    · subst e
      simp only [if_true, List.getD_eq_getElem?_getD]
      rw [List.getElem?_eq_none (by omega), List.getElem?_append_right (by omega)]
      simp only [Nat.sub_self, List.getElem?_cons_zero, Option.getD_some, Option.getD_none, UInt8.xor_zero]
      rw [UInt8.xor_assoc, UInt8.xor_comm s.k2[t.length], ← UInt8.xor_assoc]
    · simp only [e, if_false]
      congr 2
      simp only [List.getD_eq_getElem?_getD]
      by_cases hl : i < t.length
      · rw [List.getElem?_append_left hl]
      · rw [List.getElem?_append_right (by omega), List.getElem?_eq_none (by omega)]
        cases hk : i - t.length with
        | zero => omega
        | succ k => simp
  · have hpe : ¬ s.p < n := by omega
    simp only [dif_neg hpe, if_neg hpe, if_pos (show t.length = n by omega), hci]

theorem rep_sum (hn : 0 < n) (s : State n) (m pfx : Bytes) (h : Rep E hn s m) :
    Rep E hn (sum E s pfx).1 m := ⟨h.p, h.ci⟩

/-- the whole history: every Sum returns the spec value for what was written since the last Reset -/
theorem run_spec (hn : 0 < n) (ops : List Op) : ∀ (s : State n) (m : Bytes), Rep E hn s m →
    s.k1 = (subkeys E).1 → s.k2 = (subkeys E).2 →
    run E s ops = .ok (history E hn ops m) := by
  induction ops with
  | nil => intro s m _ _ _; rfl
  | cons op ops ih =>
    intro s m h hk1 hk2
    cases op with
    | write b =>
      obtain ⟨s', hw, hr, ka, kb⟩ := rep_write E hn b s m h
      simp only [run, hw, history]
      exact ih s' (m ++ b) hr (by rw [ka, hk1]) (by rw [kb, hk2])
    | sum pfx =>
      have := ih (sum E s pfx).1 m (rep_sum E hn s m pfx h) hk1 hk2
      simp only [run, this, history]
      rw [sum_eq_spec E hn s m pfx h, hk1, hk2]
      rfl
    | reset =>
      simp only [run, history]
      exact ih (reset s) [] (rep_init E hn _ rfl rfl) hk1 hk2

end Manticore.C12.CMAC
