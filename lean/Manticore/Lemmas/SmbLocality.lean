/-
  C04 helper lemmas, slot locality: two runs of a marshal program of the straight-line fragment on
  field assignments that differ in one field only, which exactly one statement touches (the emission
  of a fixed-width parameter slot), produce streams that differ in that slot only.
-/
import Manticore.Lemmas.SmbMarshal
namespace Manticore.SmbIR
open Manticore

/-- the environments agree except possibly on `f` -/
def AgreeOff (f : String) (e1 e2 : Env) : Prop := ∀ g, g ≠ f → e1.get g = e2.get g

theorem AgreeOff.set {f : String} {e1 e2 : Env} (h : AgreeOff f e1 e2) (g : String) (v : Val) :
    AgreeOff f (e1.set g v) (e2.set g v) := by
  intro k hk
  rw [Env.get_set, Env.get_set]
  by_cases hkg : k = g
  · simp [hkg]
  · simp [hkg, h k hk]

/-- slots a statement of the fragment contributes to the layout -/
def MStmt.slots : MStmt → List Slot
  | .int b w e f => [.int b w e f]
  | .quad b w e f => [.int b w e f]
  | .u8 b f => [.u8 b f]
  | .bytes b f => [.bytes b f none]
  | .arr b f => [.arr b f]
  | .sub b f t => [.sub b f t none]
  | .forInt b w e f => [.ints b w e f none]
  | _ => []

/-- the statements `layoutZ` accepts: the straight-line fragment, literal zero bytes in the data block, and `range`
    loops over integer arrays -/
def MStmt.FragZ (st : MStmt) : Prop := st.Frag ∨ (∃ n, st = .zeros .D n) ∨ (∃ b w e f, st = .forInt b w e f)

theorem layoutM_cons' {st : MStmt} {r : List MStmt} {m : List Slot} (h : layoutZ (st :: r) = some m) :
    st.FragZ ∧ ∃ m', layoutZ r = some m' ∧ m = st.slots ++ m' := by
  cases st with
  | int b w e f =>
    simp only [layoutZ, Option.map_eq_some_iff] at h; obtain ⟨m', h1, rfl⟩ := h
    exact ⟨Or.inl (.int b w e f), m', h1, rfl⟩
  | quad b w e f =>
    simp only [layoutZ, Option.map_eq_some_iff] at h; obtain ⟨m', h1, rfl⟩ := h
    exact ⟨Or.inl (.quad b w e f), m', h1, rfl⟩
  | u8 b f =>
    simp only [layoutZ, Option.map_eq_some_iff] at h; obtain ⟨m', h1, rfl⟩ := h
    exact ⟨Or.inl (.u8 b f), m', h1, rfl⟩
  | bytes b f =>
    simp only [layoutZ, Option.map_eq_some_iff] at h; obtain ⟨m', h1, rfl⟩ := h
    exact ⟨Or.inl (.bytes b f), m', h1, rfl⟩
  | arr b f =>
    simp only [layoutZ, Option.map_eq_some_iff] at h; obtain ⟨m', h1, rfl⟩ := h
    exact ⟨Or.inl (.arr b f), m', h1, rfl⟩
  | sub b f t =>
    simp only [layoutZ, Option.map_eq_some_iff] at h; obtain ⟨m', h1, rfl⟩ := h
    exact ⟨Or.inl (.sub b f t), m', h1, rfl⟩
  | setFmt f k => simp only [layoutZ] at h; exact ⟨Or.inl (.setFmt f k), m, h, rfl⟩
  | assignLen f g w => simp only [layoutZ] at h; exact ⟨Or.inl (.assignLen f g w), m, h, rfl⟩
  | zeros b n =>
    cases b with
    | P => simp [layoutZ] at h
    | D => simp only [layoutZ] at h; exact ⟨Or.inr (Or.inl ⟨n, rfl⟩), m, h, rfl⟩
  | forSub _ _ _ => simp [layoutZ] at h
  | forInt b w e f =>
    simp only [layoutZ, Option.map_eq_some_iff] at h; obtain ⟨m', h1, rfl⟩ := h
    exact ⟨Or.inr (Or.inr ⟨b, w, e, f, rfl⟩), m', h1, rfl⟩
  | ifNonZero _ _ => simp [layoutZ] at h
  | ifNonZeroArr _ _ => simp [layoutZ] at h
  | ifWordCount _ _ => simp [layoutZ] at h
  | subHead _ _ => simp [layoutZ] at h

theorem slotAt_mem (f : String) : ∀ (l : List Slot) (off : Nat) (r : Nat × Nat), slotAt f l off = some r →
    f ∈ l.map Slot.field
  | [], _, _, h => by simp [slotAt] at h
  | sl :: l, off, r, h => by
    cases sl <;> simp only [slotAt] at h <;> try cases h
    · rename_i b w e g
      by_cases hg : (g == f) = true
      · have : g = f := by simpa using hg
        simp [Slot.field, this]
      · simp only [hg, if_false, Bool.false_eq_true] at h
        exact List.mem_cons_of_mem _ (slotAt_mem f l _ r h)
    · rename_i b g
      by_cases hg : (g == f) = true
      · have : g = f := by simpa using hg
        simp [Slot.field, this]
      · simp only [hg, if_false, Bool.false_eq_true] at h
        exact List.mem_cons_of_mem _ (slotAt_mem f l _ r h)

/-- a field of the layout is mentioned by some statement -/
theorem layout_field_mentioned (f : String) : ∀ (stmts : List MStmt) (m : List Slot), layoutZ stmts = some m →
    f ∈ m.map Slot.field → ∃ st ∈ stmts, st.mentions f = true
  | [], m, h, hf => by simp only [layoutZ, Option.some.injEq] at h; subst h; simp at hf
  | st :: r, m, h, hf => by
    obtain ⟨hfrag, m', hl', rfl⟩ := layoutM_cons' h
    rw [List.map_append, List.mem_append] at hf
    rcases hf with hf | hf
    · refine ⟨st, List.mem_cons_self .., ?_⟩
      rcases hfrag with hfrag | ⟨n, rfl⟩ | ⟨b, w, e, g, rfl⟩
      · cases hfrag <;> simp [MStmt.slots, Slot.field] at hf <;> simp [MStmt.mentions, hf]
      · simp [MStmt.slots] at hf
      · simp [MStmt.slots, Slot.field] at hf; simp [MStmt.mentions, hf]
    · obtain ⟨st', h1, h2⟩ := layout_field_mentioned f r m' hl' hf
      exact ⟨st', List.mem_cons_of_mem _ h1, h2⟩

theorem slotAt_none_of_not_mentioned (f : String) (r : List MStmt) (m' : List Slot) (hl : layoutZ r = some m')
    (hno : r.filter (·.mentions f) = []) (off : Nat) : slotAt f (m'.filter (·.blk == .P)) off = none := by
  cases h : slotAt f (m'.filter (·.blk == .P)) off with
  | none => rfl
  | some res =>
    exfalso
    have h1 := slotAt_mem f _ _ _ h
    obtain ⟨sl, hsl, he⟩ := List.mem_map.mp h1
    have h2 : f ∈ m'.map Slot.field := List.mem_map.mpr ⟨sl, (List.mem_filter.mp hsl).1, he⟩
    obtain ⟨st, hst, hm⟩ := layout_field_mentioned f r m' hl h2
    have : st ∈ r.filter (·.mentions f) := List.mem_filter.mpr ⟨hst, hm⟩
    rw [hno] at this; cases this

/-- one statement that does not touch `f`, run on two assignments that differ on `f` only -/
theorem same_step_frag (C : Codecs) (andx : Bool) (f : String) (st : MStmt) (hfrag : st.Frag)
    (hno : st.mentions f = false) (sa sb sa' sb' : MState) (hag : AgreeOff f sa.env sb.env)
    (ha : runMStmt C andx sa st = .ok sa') (hb : runMStmt C andx sb st = .ok sb') :
    AgreeOff f sa'.env sb'.env ∧ ∃ pb db, sa'.P = sa.P ++ pb ∧ sb'.P = sb.P ++ pb ∧
      sa'.D = sa.D ++ db ∧ sb'.D = sb.D ++ db ∧ sa'.head = sa.head ∧ sb'.head = sb.head ∧
      (∀ m' off r, slotAt f ((st.slots ++ m').filter (·.blk == .P)) off = some r →
        slotAt f (m'.filter (·.blk == .P)) (off + pb.length) = some r) := by
  cases hfrag <;> rw [runMStmt] at ha hb
  case int b w e g =>
    have hgf : g ≠ f := by simpa [MStmt.mentions] using hno
    have hb0 : (g == f) = false := by simpa using hgf
    cases hga : getN sa.env g <;> simp [hga] at ha
    cases hgb : getN sb.env g <;> simp [hgb] at hb
    rename_i xa xb
    have : xa = xb := by
      have h1 := getN_ok hga; have h2 := getN_ok hgb
      rw [hag g hgf, h2] at h1; injection h1 with h1; injection h1 with h1; exact h1.symm
    subst this ha hb
    refine ⟨by cases b <;> exact hag, ?_⟩
    cases b
    · refine ⟨intBytes w e xa, [], rfl, rfl, by simp [MState.app], by simp [MState.app], rfl, rfl, ?_⟩
      intro m' off r h
      simpa [MStmt.slots, Slot.blk, slotAt, hb0, intBytes_length] using h
    · refine ⟨[], intBytes w e xa, by simp [MState.app], by simp [MState.app], rfl, rfl, rfl, rfl, ?_⟩
      intro m' off r h
      simpa [MStmt.slots, Slot.blk] using h
  case quad b w e g =>
    have hgf : g ≠ f := by simpa [MStmt.mentions] using hno
    have hb0 : (g == f) = false := by simpa using hgf
    cases hga : getN sa.env g <;> simp [hga] at ha
    cases hgb : getN sb.env g <;> simp [hgb] at hb
    rename_i xa xb
    have : xa = xb := by
      have h1 := getN_ok hga; have h2 := getN_ok hgb
      rw [hag g hgf, h2] at h1; injection h1 with h1; injection h1 with h1; exact h1.symm
    subst this ha hb
    refine ⟨by cases b <;> exact hag, ?_⟩
    cases b
    · refine ⟨intBytes w e xa, [], rfl, rfl, by simp [MState.app], by simp [MState.app], rfl, rfl, ?_⟩
      intro m' off r h
      simpa [MStmt.slots, Slot.blk, slotAt, hb0, intBytes_length] using h
    · refine ⟨[], intBytes w e xa, by simp [MState.app], by simp [MState.app], rfl, rfl, rfl, rfl, ?_⟩
      intro m' off r h
      simpa [MStmt.slots, Slot.blk] using h
  case u8 b g =>
    have hgf : g ≠ f := by simpa [MStmt.mentions] using hno
    have hb0 : (g == f) = false := by simpa using hgf
    cases hga : getN sa.env g <;> simp [hga] at ha
    cases hgb : getN sb.env g <;> simp [hgb] at hb
    rename_i xa xb
    have : xa = xb := by
      have h1 := getN_ok hga; have h2 := getN_ok hgb
      rw [hag g hgf, h2] at h1; injection h1 with h1; injection h1 with h1; exact h1.symm
    subst this ha hb
    refine ⟨by cases b <;> exact hag, ?_⟩
    cases b
    · refine ⟨[UInt8.ofNat xa], [], rfl, rfl, by simp [MState.app], by simp [MState.app], rfl, rfl, ?_⟩
      intro m' off r h
      simpa [MStmt.slots, Slot.blk, slotAt, hb0] using h
    · refine ⟨[], [UInt8.ofNat xa], by simp [MState.app], by simp [MState.app], rfl, rfl, rfl, rfl, ?_⟩
      intro m' off r h
      simpa [MStmt.slots, Slot.blk] using h
  case bytes b g =>
    have hgf : g ≠ f := by simpa [MStmt.mentions] using hno
    rw [hag g hgf] at ha
    split at hb <;> try cases hb
    rename_i bs hg
    rw [hg] at ha
    simp only [Outcome.ok.injEq] at ha
    subst ha
    refine ⟨by cases b <;> exact hag, ?_⟩
    cases b
    · refine ⟨bs, [], rfl, rfl, by simp [MState.app], by simp [MState.app], rfl, rfl, ?_⟩
      intro m' off r h
      simp [MStmt.slots, Slot.blk, slotAt] at h
    · refine ⟨[], bs, by simp [MState.app], by simp [MState.app], rfl, rfl, rfl, rfl, ?_⟩
      intro m' off r h
      simpa [MStmt.slots, Slot.blk] using h
  case arr b g =>
    have hgf : g ≠ f := by simpa [MStmt.mentions] using hno
    rw [hag g hgf] at ha
    split at hb <;> try cases hb
    rename_i bs hg
    rw [hg] at ha
    simp only [Outcome.ok.injEq] at ha
    subst ha
    refine ⟨by cases b <;> exact hag, ?_⟩
    cases b
    · refine ⟨bs, [], rfl, rfl, by simp [MState.app], by simp [MState.app], rfl, rfl, ?_⟩
      intro m' off r h
      simp [MStmt.slots, Slot.blk, slotAt] at h
    · refine ⟨[], bs, by simp [MState.app], by simp [MState.app], rfl, rfl, rfl, rfl, ?_⟩
      intro m' off r h
      simpa [MStmt.slots, Slot.blk] using h
  case sub b g t =>
    have hgf : g ≠ f := by simpa [MStmt.mentions] using hno
    rw [hag g hgf] at ha
    split at hb <;> try cases hb
    rename_i v hg
    rw [hg] at ha
    cases he : C.enc t v <;> simp [he] at ha hb
    rename_i pr
    obtain ⟨bs, v'⟩ := pr
    subst ha hb
    refine ⟨by cases b <;> exact hag.set g (.t v'), ?_⟩
    cases b
    · refine ⟨bs, [], rfl, rfl, by simp [MState.app], by simp [MState.app], rfl, rfl, ?_⟩
      intro m' off r h
      simp [MStmt.slots, Slot.blk, slotAt] at h
    · refine ⟨[], bs, by simp [MState.app], by simp [MState.app], rfl, rfl, rfl, rfl, ?_⟩
      intro m' off r h
      simpa [MStmt.slots, Slot.blk] using h
  case setFmt g k =>
    have hgf : g ≠ f := by simpa [MStmt.mentions] using hno
    rw [hag g hgf] at ha
    split at hb <;> try cases hb
    rename_i v hg
    rw [hg] at ha
    simp only [Outcome.ok.injEq] at ha
    subst ha
    refine ⟨hag.set g _, [], [], by simp, by simp, by simp, by simp, rfl, rfl, ?_⟩
    intro m' off r h
    simpa [MStmt.slots] using h
  case assignLen g g' w =>
    have hgf : g ≠ f ∧ g' ≠ f := by simpa [MStmt.mentions] using hno
    rw [hag g' hgf.2] at ha
    split at hb <;> try cases hb
    all_goals
      rename_i hg
      rw [hg] at ha
      simp only [Outcome.ok.injEq] at ha
      subst ha
      refine ⟨hag.set g _, [], [], by simp, by simp, by simp, by simp, rfl, rfl, ?_⟩
      intro m' off r h
      simpa [MStmt.slots] using h

/-- `same_step` for every statement `layoutZ` accepts: literal zero bytes are the same in both runs -/
theorem same_step (C : Codecs) (andx : Bool) (f : String) (st : MStmt) (hfrag : st.FragZ)
    (hno : st.mentions f = false) (sa sb sa' sb' : MState) (hag : AgreeOff f sa.env sb.env)
    (ha : runMStmt C andx sa st = .ok sa') (hb : runMStmt C andx sb st = .ok sb') :
    AgreeOff f sa'.env sb'.env ∧ ∃ pb db, sa'.P = sa.P ++ pb ∧ sb'.P = sb.P ++ pb ∧
      sa'.D = sa.D ++ db ∧ sb'.D = sb.D ++ db ∧ sa'.head = sa.head ∧ sb'.head = sb.head ∧
      (∀ m' off r, slotAt f ((st.slots ++ m').filter (·.blk == .P)) off = some r →
        slotAt f (m'.filter (·.blk == .P)) (off + pb.length) = some r) := by
  rcases hfrag with hfrag | ⟨n, rfl⟩ | ⟨b, w, e, g, rfl⟩
  · exact same_step_frag C andx f st hfrag hno sa sb sa' sb' hag ha hb
  · rw [runMStmt] at ha hb
    simp only [Outcome.ok.injEq] at ha hb
    subst ha hb
    refine ⟨hag, [], List.replicate n 0, by simp [MState.app], by simp [MState.app], rfl, rfl, rfl, rfl, ?_⟩
    intro m' off r h
    simpa [MStmt.slots] using h
  · -- a loop over another field's integers: both runs see the same list
    have hgf : g ≠ f := by simpa [MStmt.mentions] using hno
    rw [runMStmt] at ha hb
    rw [hag g hgf] at ha
    split at hb <;> try cases hb
    rename_i xs hg
    rw [hg] at ha
    simp only [Outcome.ok.injEq] at ha
    subst ha
    refine ⟨by cases b <;> exact hag, ?_⟩
    cases b
    · refine ⟨xs.flatMap (intBytes w e), [], rfl, rfl, by simp [MState.app], by simp [MState.app], rfl, rfl, ?_⟩
      intro m' off r h
      simp [MStmt.slots, Slot.blk, slotAt] at h
    · refine ⟨[], xs.flatMap (intBytes w e), by simp [MState.app], by simp [MState.app], rfl, rfl, rfl, rfl, ?_⟩
      intro m' off r h
      simpa [MStmt.slots, Slot.blk] using h

/-- statements none of which touches `f` append the same bytes in both runs -/
theorem same_run (C : Codecs) (andx : Bool) (f : String) (stmts : List MStmt) :
    ∀ (m : List Slot) (sa sb sa' sb' : MState), layoutZ stmts = some m → stmts.filter (·.mentions f) = [] →
      AgreeOff f sa.env sb.env →
      runMStmts C andx sa stmts = .ok sa' → runMStmts C andx sb stmts = .ok sb' →
      ∃ pb db, sa'.P = sa.P ++ pb ∧ sb'.P = sb.P ++ pb ∧ sa'.D = sa.D ++ db ∧ sb'.D = sb.D ++ db ∧
        sa'.head = sa.head ∧ sb'.head = sb.head := by
  induction stmts with
  | nil =>
    intro m sa sb sa' sb' _ _ _ ha hb
    rw [runMStmts] at ha hb; cases ha; cases hb
    exact ⟨[], [], by simp, by simp, by simp, by simp, rfl, rfl⟩
  | cons st r ih =>
    intro m sa sb sa' sb' hl hno hag ha hb
    obtain ⟨hfrag, m', hl', _⟩ := layoutM_cons' hl
    rw [runMStmts] at ha hb
    cases ha1 : runMStmt C andx sa st <;> simp [ha1] at ha
    cases hb1 : runMStmt C andx sb st <;> simp [hb1] at hb
    rename_i sa1 sb1
    have hst : st.mentions f = false := by
      cases hmen : st.mentions f
      · rfl
      · simp [List.filter_cons, hmen] at hno
    have hno' : r.filter (·.mentions f) = [] := by simpa [List.filter_cons, hst] using hno
    obtain ⟨hag1, pb, db, h1, h2, h3, h4, h5, h6, _⟩ := same_step C andx f st hfrag hst sa sb sa1 sb1 hag ha1 hb1
    obtain ⟨pb', db', g1, g2, g3, g4, g5, g6⟩ := ih m' sa1 sb1 sa' sb' hl' hno' hag1 ha hb
    exact ⟨pb ++ pb', db ++ db', by rw [g1, h1, List.append_assoc], by rw [g2, h2, List.append_assoc],
      by rw [g3, h3, List.append_assoc], by rw [g4, h4, List.append_assoc], by rw [g5, h5], by rw [g6, h6]⟩

theorem filterP_cons_P (sl : Slot) (l : List Slot) (h : sl.blk = .P) :
    (sl :: l).filter (·.blk == .P) = sl :: l.filter (·.blk == .P) := by
  simp [List.filter_cons, h]

theorem filterP_cons_D (sl : Slot) (l : List Slot) (h : sl.blk = .D) :
    (sl :: l).filter (·.blk == .P) = l.filter (·.blk == .P) := by
  simp [List.filter_cons, h]

/-- if the slot of `f` is found although the rest of the program does not touch `f`, the first
    statement emits it as a fixed-width parameter slot -/
theorem slotAt_first_stmt_frag (f : String) (st : MStmt) (hfrag : st.Frag) (m' : List Slot)
    (hnone : ∀ off, slotAt f (m'.filter (·.blk == .P)) off = none) (off0 off w : Nat)
    (h : slotAt f ((st.slots ++ m').filter (·.blk == .P)) off0 = some (off, w)) :
    off = off0 ∧ ((∃ e, st = .int .P w e f) ∨ (∃ e, st = .quad .P w e f) ∨ (st = .u8 .P f ∧ w = 1)) := by
  cases hfrag <;> simp only [MStmt.slots, List.cons_append, List.nil_append] at h
  case int b w' e g =>
    cases b
    · rw [filterP_cons_P _ _ rfl, slotAt] at h
      by_cases hg : (g == f) = true
      · simp only [hg, if_true, Option.some.injEq, Prod.mk.injEq] at h
        have : g = f := by simpa using hg
        subst this
        obtain ⟨rfl, rfl⟩ := h
        exact ⟨rfl, Or.inl ⟨e, rfl⟩⟩
      · simp only [hg, Bool.false_eq_true, if_false, hnone] at h; cases h
    · rw [filterP_cons_D _ _ rfl, hnone] at h; cases h
  case quad b w' e g =>
    cases b
    · rw [filterP_cons_P _ _ rfl, slotAt] at h
      by_cases hg : (g == f) = true
      · simp only [hg, if_true, Option.some.injEq, Prod.mk.injEq] at h
        have : g = f := by simpa using hg
        subst this
        obtain ⟨rfl, rfl⟩ := h
        exact ⟨rfl, Or.inr (Or.inl ⟨e, rfl⟩)⟩
      · simp only [hg, Bool.false_eq_true, if_false, hnone] at h; cases h
    · rw [filterP_cons_D _ _ rfl, hnone] at h; cases h
  case u8 b g =>
    cases b
    · rw [filterP_cons_P _ _ rfl, slotAt] at h
      by_cases hg : (g == f) = true
      · simp only [hg, if_true, Option.some.injEq, Prod.mk.injEq] at h
        have : g = f := by simpa using hg
        subst this
        obtain ⟨rfl, rfl⟩ := h
        exact ⟨rfl, Or.inr (Or.inr ⟨rfl, rfl⟩)⟩
      · simp only [hg, Bool.false_eq_true, if_false, hnone] at h; cases h
    · rw [filterP_cons_D _ _ rfl, hnone] at h; cases h
  case bytes b g =>
    cases b
    · rw [filterP_cons_P _ _ rfl] at h; simp [slotAt] at h
    · rw [filterP_cons_D _ _ rfl, hnone] at h; cases h
  case arr b g =>
    cases b
    · rw [filterP_cons_P _ _ rfl] at h; simp [slotAt] at h
    · rw [filterP_cons_D _ _ rfl, hnone] at h; cases h
  case sub b g t =>
    cases b
    · rw [filterP_cons_P _ _ rfl] at h; simp [slotAt] at h
    · rw [filterP_cons_D _ _ rfl, hnone] at h; cases h
  case setFmt g k => rw [hnone] at h; cases h
  case assignLen g g' k => rw [hnone] at h; cases h

theorem slotAt_first_stmt (f : String) (st : MStmt) (hfrag : st.FragZ) (m' : List Slot)
    (hnone : ∀ off, slotAt f (m'.filter (·.blk == .P)) off = none) (off0 off w : Nat)
    (h : slotAt f ((st.slots ++ m').filter (·.blk == .P)) off0 = some (off, w)) :
    off = off0 ∧ ((∃ e, st = .int .P w e f) ∨ (∃ e, st = .quad .P w e f) ∨ (st = .u8 .P f ∧ w = 1)) := by
  rcases hfrag with hfrag | ⟨n, rfl⟩ | ⟨b, w', e, g, rfl⟩
  · exact slotAt_first_stmt_frag f st hfrag m' hnone off0 off w h
  · simp only [MStmt.slots, List.nil_append] at h
    rw [hnone] at h; cases h
  · simp only [MStmt.slots, List.cons_append, List.nil_append] at h
    cases b
    · rw [filterP_cons_P _ _ rfl] at h; simp [slotAt] at h
    · rw [filterP_cons_D _ _ rfl, hnone] at h; cases h

/-- the two runs up to, through and after the one statement that touches `f` -/
theorem locality_run (C : Codecs) (andx : Bool) (f : String) (stmts : List MStmt) :
    ∀ (m : List Slot) (sa sb sa' sb' : MState) (off0 off w : Nat), layoutZ stmts = some m →
      (stmts.filter (·.mentions f)).length = 1 →
      slotAt f (m.filter (·.blk == .P)) off0 = some (off, w) →
      AgreeOff f sa.env sb.env → sa.P = sb.P → sa.P.length = off0 → sa.D = sb.D → sa.head = sb.head →
      runMStmts C andx sa stmts = .ok sa' → runMStmts C andx sb stmts = .ok sb' →
      ∃ X A B Y, sa'.P = X ++ A ++ Y ∧ sb'.P = X ++ B ++ Y ∧ X.length = off ∧ A.length = w ∧ B.length = w ∧
        sa'.D = sb'.D ∧ sa'.head = sb'.head := by
  induction stmts with
  | nil => intro m sa sb sa' sb' off0 off w _ hc; simp at hc
  | cons st r ih =>
    intro m sa sb sa' sb' off0 off w hl hcount hslot hag hP hlen hD hH ha hb
    obtain ⟨hfrag, m', hl', rfl⟩ := layoutM_cons' hl
    rw [runMStmts] at ha hb
    cases ha1 : runMStmt C andx sa st <;> simp [ha1] at ha
    cases hb1 : runMStmt C andx sb st <;> simp [hb1] at hb
    rename_i sa1 sb1
    cases hmen : st.mentions f
    · -- not the statement: both runs append the same bytes
      have hcount' : (r.filter (·.mentions f)).length = 1 := by simpa [List.filter_cons, hmen] using hcount
      obtain ⟨hag1, pb, db, h1, h2, h3, h4, h5, h6, hs⟩ := same_step C andx f st hfrag hmen sa sb sa1 sb1 hag ha1 hb1
      exact ih m' sa1 sb1 sa' sb' (off0 + pb.length) off w hl' hcount' (hs m' off0 _ hslot) hag1
        (by rw [h1, h2, hP]) (by rw [h1, List.length_append, hlen]) (by rw [h3, h4, hD]) (by rw [h5, h6, hH]) ha hb
    · -- the statement: the rest does not touch `f`
      have hno : r.filter (·.mentions f) = [] := by
        have : (r.filter (·.mentions f)).length = 0 := by simpa [List.filter_cons, hmen] using hcount
        exact List.eq_nil_of_length_eq_zero this
      have hnone := slotAt_none_of_not_mentioned f r m' hl' hno
      obtain ⟨rfl, hkind⟩ := slotAt_first_stmt f st hfrag m' hnone off0 off w hslot
      -- an integer emission leaves the fields as they are
      have hstep : ∃ A B, A.length = w ∧ B.length = w ∧ sa1 = sa.app .P A ∧ sb1 = sb.app .P B := by
        rcases hkind with ⟨e, rfl⟩ | ⟨e, rfl⟩ | ⟨rfl, rfl⟩ <;> rw [runMStmt] at ha1 hb1
        · cases h1 : getN sa.env f <;> simp [h1] at ha1
          cases h2 : getN sb.env f <;> simp [h2] at hb1
          exact ⟨_, _, intBytes_length .., intBytes_length .., ha1.symm, hb1.symm⟩
        · cases h1 : getN sa.env f <;> simp [h1] at ha1
          cases h2 : getN sb.env f <;> simp [h2] at hb1
          exact ⟨_, _, intBytes_length .., intBytes_length .., ha1.symm, hb1.symm⟩
        · cases h1 : getN sa.env f <;> simp [h1] at ha1
          cases h2 : getN sb.env f <;> simp [h2] at hb1
          exact ⟨_, _, rfl, rfl, ha1.symm, hb1.symm⟩
      obtain ⟨A, B, hA, hB, rfl, rfl⟩ := hstep
      obtain ⟨pb, db, g1, g2, g3, g4, g5, g6⟩ := same_run C andx f r m' (sa.app .P A) (sb.app .P B) sa' sb' hl' hno hag ha hb
      refine ⟨sa.P, A, B, pb, ?_, ?_, hlen, hA, hB, ?_, ?_⟩
      · rw [g1]; simp [MState.app]
      · rw [g2, hP]; simp [MState.app]
      · rw [g3, g4]; simp [MState.app, hD]
      · rw [g5, g6]; simp [MState.app, hH]

/-! ### the envelope, and the statement about encoded commands -/

theorem runMStmt_head_frag (C : Codecs) (andx : Bool) (s s' : MState) (st : MStmt) (hf : st.Frag)
    (h : runMStmt C andx s st = .ok s') : s'.head = s.head := by
  cases hf <;> rw [runMStmt] at h
  case int b w e g => cases hg : getN s.env g <;> simp [hg] at h; subst h; cases b <;> rfl
  case quad b w e g => cases hg : getN s.env g <;> simp [hg] at h; subst h; cases b <;> rfl
  case u8 b g => cases hg : getN s.env g <;> simp [hg] at h; subst h; cases b <;> rfl
  case bytes b g => split at h <;> try cases h
                    cases b <;> rfl
  case arr b g => split at h <;> try cases h
                  cases b <;> rfl
  case sub b g t =>
    split at h <;> try cases h
    rename_i v _
    cases he : C.enc t v <;> simp [he] at h
    subst h; cases b <;> rfl
  case setFmt g k => split at h <;> try cases h
                     rfl
  case assignLen g g' w => split at h <;> try cases h
                           all_goals rfl

theorem runMStmt_head (C : Codecs) (andx : Bool) (s s' : MState) (st : MStmt) (hf : st.FragZ)
    (h : runMStmt C andx s st = .ok s') : s'.head = s.head := by
  rcases hf with hf | ⟨n, rfl⟩ | ⟨b, w, e, g, rfl⟩
  · exact runMStmt_head_frag C andx s s' st hf h
  · rw [runMStmt] at h
    simp only [Outcome.ok.injEq] at h
    subst h; rfl
  · rw [runMStmt] at h
    split at h <;> try cases h
    cases b <;> rfl

theorem runMStmts_head (C : Codecs) (andx : Bool) (stmts : List MStmt) :
    ∀ (m : List Slot) (s s' : MState), layoutZ stmts = some m → runMStmts C andx s stmts = .ok s' →
      s'.head = s.head := by
  induction stmts with
  | nil => intro m s s' _ h; rw [runMStmts] at h; cases h; rfl
  | cons st r ih =>
    intro m s s' hl h
    obtain ⟨hfrag, m', hl', _⟩ := layoutM_cons' hl
    rw [runMStmts] at h
    cases h1 : runMStmt C andx s st <;> simp [h1] at h
    rw [ih m' _ s' hl' h, runMStmt_head C andx s _ st hfrag h1]

theorem wordsBytes_eq : ∀ (p : Bytes), wordsBytes p = p ++ (if p.length % 2 = 1 then [0] else [])
  | [] => rfl
  | [_] => rfl
  | a :: b :: rest => by
    rw [wordsBytes, wordsBytes_eq rest]
    have : (a :: b :: rest).length % 2 = rest.length % 2 := by simp only [List.length_cons]; omega
    rw [this]; rfl

theorem diff_getElem {α} (pre A B post : List α) (h : A.length = B.length) :
    (pre ++ A ++ post).length = (pre ++ B ++ post).length ∧
      ∀ i, (i < pre.length ∨ pre.length + A.length ≤ i) → (pre ++ A ++ post)[i]? = (pre ++ B ++ post)[i]? := by
  refine ⟨by simp [h], ?_⟩
  intro i hi
  rcases hi with hi | hi
  · rw [List.append_assoc, List.append_assoc, List.getElem?_append_left hi, List.getElem?_append_left hi]
  · rw [List.getElem?_append_right (by simp; omega), List.getElem?_append_right (by simp; omega)]
    simp [h]

/-- setting a field other than the AndX block commutes with the prologue, as far as reads go -/
theorem prologueEnv_set_get (b : Bool) (env : Env) (f : String) (v : Val) (hf : f ≠ andxField) (g : String) :
    (prologueEnv b (env.set f v)).get g = ((prologueEnv b env).set f v).get g := by
  have hax : (env.set f v).get andxField = env.get andxField := Env.get_set_ne env f andxField v (Ne.symm hf)
  unfold prologueEnv
  rw [hax]
  split
  · simp only [Env.get_set]
    by_cases h1 : g = andxField
    · subst h1; simp [Ne.symm hf]
    · simp [h1]
  · rfl

/-- **Slot locality** (the property theorem `Manticore.C04.slot_locality` is this statement). -/
theorem slot_locality_core (C : Codecs) (c : Cmd) (f : String) (lo hi : Nat) (h : slotRange c f = some (lo, hi))
    (env : Env) (v : Val) (a b : Bytes) (ha : encodeCmd C c env = .ok a) (hb : encodeCmd C c (env.set f v) = .ok b) :
    a.length = b.length ∧ ∀ i, (i < lo ∨ hi ≤ i) → a[i]? = b[i]? := by
  unfold slotRange at h
  split at h
  · cases h
  · rename_i hcount
    simp only [Bool.or_eq_true, beq_iff_eq, bne_iff_ne, ne_eq, not_or, Decidable.not_not] at hcount
    obtain ⟨hfa, hcount'⟩ := hcount
    split at h
    · cases h
    · rename_i m hl
      split at h
      · rename_i off w hslot
        simp only [Option.some.injEq, Prod.mk.injEq] at h
        obtain ⟨rfl, rfl⟩ := h
        unfold encodeCmd at ha hb
        split at ha <;> try cases ha
        rename_i sa' hra
        split at hb <;> try cases hb
        rename_i sb' hrb
        have hag : AgreeOff f (prologueEnv c.isAndX env) (prologueEnv c.isAndX (env.set f v)) := by
          intro g hg
          rw [prologueEnv_set_get c.isAndX env f v hfa g]
          exact (Env.get_set_ne _ f g v hg).symm
        -- the same AndX bytes go out in both runs
        have hax : andxBytesOf c.isAndX (prologueEnv c.isAndX (env.set f v)) =
            andxBytesOf c.isAndX (prologueEnv c.isAndX env) := by
          unfold andxBytesOf
          rw [← hag andxField (Ne.symm hfa)]
        have haxl : (andxBytesOf c.isAndX (prologueEnv c.isAndX env)).length = (andxBytes c.isAndX).length := by
          unfold andxBytesOf andxBytes
          cases c.isAndX
          · rfl
          · simp only [if_true]; split <;> rfl
        rw [hax]
        generalize andxBytesOf c.isAndX (prologueEnv c.isAndX env) = ax at haxl ⊢
        obtain ⟨X, A, B, Y, hPa, hPb, hX, hA, hB, hD, _⟩ := locality_run C c.isAndX f c.marshal m
          { env := prologueEnv c.isAndX env }
          { env := prologueEnv c.isAndX (env.set f v) } sa' sb' 0 off w hl hcount' hslot hag rfl rfl rfl rfl hra hrb
        have hha : sa'.head = [] := runMStmts_head C c.isAndX c.marshal m { env := prologueEnv c.isAndX env } sa' hl hra
        have hhb : sb'.head = [] :=
          runMStmts_head C c.isAndX c.marshal m { env := prologueEnv c.isAndX (env.set f v) } sb' hl hrb
        have hlenP : sa'.P.length = sb'.P.length := by rw [hPa, hPb]; simp [hA, hB]
        have hwc : wordCountOf c.isAndX sa'.P = wordCountOf c.isAndX sb'.P := by simp [wordCountOf, hlenP]
        rw [hha, hhb, hD] at *
        simp only [List.nil_append, paramBlock, hwc, wordsBytes_eq, hlenP]
        by_cases hz : wordCountOf c.isAndX sb'.P % 256 > 0
        · simp only [hz, if_true]
          rw [hPa, hPb]
          have e1 : ∀ Z : Bytes, (UInt8.ofNat (wordCountOf c.isAndX sb'.P % 256) ::
              (ax ++ (X ++ Z ++ Y ++ if sb'.P.length % 2 = 1 then [0] else []))) ++ dataBlock sb'.D =
              (UInt8.ofNat (wordCountOf c.isAndX sb'.P % 256) :: (ax ++ X)) ++ Z ++
                (Y ++ (if sb'.P.length % 2 = 1 then [0] else []) ++ dataBlock sb'.D) := by
            intro Z; simp [List.append_assoc]
          rw [hPb] at e1
          rw [e1 A, e1 B]
          have := diff_getElem (UInt8.ofNat (wordCountOf c.isAndX sb'.P % 256) :: (ax ++ X)) A B
            (Y ++ (if (X ++ B ++ Y).length % 2 = 1 then [0] else []) ++ dataBlock sb'.D) (by rw [hA, hB])
          rw [← hPb] at this ⊢
          refine ⟨this.1, fun i hi => this.2 i ?_⟩
          simp only [List.length_cons, List.length_append, hX, hA, haxl] at hi ⊢
          omega
        · simp only [hz, if_false]
          exact ⟨trivial, fun _ _ => trivial⟩
      · cases h

end Manticore.SmbIR
