/-
  C04 helper lemmas, marshal side: for a marshal program of the straight-line fragment (`layoutM`
  accepts it) that does not change a field after emitting it (`stableM`), the two raw streams `runM`
  builds are the `layoutBytes` of the layout, evaluated on the field values Marshal leaves behind.
-/
import Manticore.Lemmas.SmbBasics
namespace Manticore.SmbIR
open Manticore

/-- what the round trip needs to know about a slot and the field values: the field is there with a
    value of the slot's kind, integers fit, a nested value is a fixed point of its encoder -/
def SlotFit (C : Codecs) (T : String → Prop) (env : Env) : Slot → Prop
  | .int _ w _ f => ∃ x, env.get f = some (.n x) ∧ x < 256 ^ w
  | .u8 _ f => ∃ x, env.get f = some (.n x) ∧ x < 256
  | .bytes _ f _ => ∃ bs, env.get f = some (.b bs)
  | .arr _ f => ∃ bs, env.get f = some (.b bs)
  | .sub _ f typ _ => ∃ v bs, env.get f = some (.t v) ∧ C.enc typ v = .ok (bs, v) ∧ T typ
  | .ints _ w _ f _ => ∃ xs, env.get f = some (.ns xs) ∧ ∀ x ∈ xs, x < 256 ^ w
  | .subs _ f typ _ _ => ∃ vs, env.get f = some (.ts vs) ∧ T typ ∧ ∀ v ∈ vs, ∃ bs v', C.enc typ v = .ok (bs, v')
  | .opt _ w _ f _ => ∃ x, env.get f = some (.n x) ∧ x < 256 ^ w
  | .optInts _ w _ f _ _ => ∃ xs, env.get f = some (.ns xs) ∧ ∀ x ∈ xs, x < 256 ^ w

theorem layoutBytes_nil (C : Codecs) (env : Env) : layoutBytes C env [] = [] := rfl
theorem layoutBytes_cons (C : Codecs) (env : Env) (sl : Slot) (l : List Slot) :
    layoutBytes C env (sl :: l) = slotBytes C env sl ++ layoutBytes C env l := by
  simp [layoutBytes]

theorem getN_ok {env : Env} {f : String} {x : Nat} (h : getN env f = .ok x) : env.get f = some (.n x) := by
  unfold getN at h
  split at h
  · injection h with h; subst h; assumption
  · cases h

/-- the statements of the fragment -/
inductive MStmt.Frag : MStmt → Prop
  | int (b w e f) : Frag (.int b w e f)
  | quad (b w e f) : Frag (.quad b w e f)
  | u8 (b f) : Frag (.u8 b f)
  | bytes (b f) : Frag (.bytes b f)
  | arr (b f) : Frag (.arr b f)
  | sub (b f t) : Frag (.sub b f t)
  | setFmt (f k) : Frag (.setFmt f k)
  | assignLen (f g w) : Frag (.assignLen f g w)

theorem layoutM_cons {st : MStmt} {r : List MStmt} {m : List Slot} (h : layoutM (st :: r) = some m) :
    st.Frag ∧ ∃ m', layoutM r = some m' ∧
      m = (match st with
        | .int b w e f => [Slot.int b w e f]
        | .quad b w e f => [Slot.int b w e f]
        | .u8 b f => [Slot.u8 b f]
        | .bytes b f => [Slot.bytes b f none]
        | .arr b f => [Slot.arr b f]
        | .sub b f t => [Slot.sub b f t none]
        | _ => []) ++ m' := by
  cases st <;> simp only [layoutM, Option.map_eq_some_iff] at h <;>
    first
      | (obtain ⟨m', h1, h2⟩ := h; exact ⟨by constructor, m', h1, by simp [← h2]⟩)
      | exact ⟨by constructor, m, h, by simp⟩
      | cases h

/-- one statement of the fragment changes at most the field it `modifies`, and keeps `head` -/
theorem runMStmt_frame (C : Codecs) (andx : Bool) (s s' : MState) (st : MStmt) (hf : st.Frag)
    (h : runMStmt C andx s st = .ok s') (f : String) (hm : st.modifies ≠ some f) :
    s'.env.get f = s.env.get f := by
  cases hf <;> rw [runMStmt] at h
  case int b w e g =>
    cases hg : getN s.env g <;> simp [hg] at h
    subst h; cases b <;> rfl
  case quad b w e g =>
    cases hg : getN s.env g <;> simp [hg] at h
    subst h; cases b <;> rfl
  case u8 b g =>
    cases hg : getN s.env g <;> simp [hg] at h
    subst h; cases b <;> rfl
  case bytes b g =>
    split at h <;> try cases h
    cases b <;> rfl
  case arr b g =>
    split at h <;> try cases h
    cases b <;> rfl
  case sub b g t =>
    split at h <;> try cases h
    rename_i v hv
    cases he : C.enc t v <;> simp [he] at h
    subst h
    have : f ≠ g := fun e => hm (by simp [MStmt.modifies, e])
    cases b <;> simp [Env.get_set_ne _ _ _ _ this]
  case setFmt g k =>
    split at h <;> try cases h
    have : f ≠ g := fun e => hm (by simp [MStmt.modifies, e])
    simp [Env.get_set_ne _ _ _ _ this]
  case assignLen g g' w =>
    have : f ≠ g := fun e => hm (by simp [MStmt.modifies, e])
    split at h <;> try cases h
    all_goals simp [Env.get_set_ne _ _ _ _ this]

theorem runMStmts_frame (C : Codecs) (andx : Bool) (stmts : List MStmt) :
    ∀ (m : List Slot) (s s' : MState), layoutM stmts = some m →
      runMStmts C andx s stmts = .ok s' → ∀ f, stmts.all (fun st => st.modifies != some f) = true →
      s'.env.get f = s.env.get f := by
  induction stmts with
  | nil => intro m s s' _ h f _; rw [runMStmts] at h; cases h; rfl
  | cons st r ih =>
    intro m s s' hl h f hall
    obtain ⟨hfrag, m', hl', _⟩ := layoutM_cons hl
    rw [runMStmts] at h
    cases h1 : runMStmt C andx s st <;> simp [h1] at h
    rename_i s1
    simp only [List.all_cons, Bool.and_eq_true, bne_iff_ne, ne_eq] at hall
    rw [ih m' s1 s' hl' h f hall.2]
    exact runMStmt_frame C andx s s1 st hfrag h1 f hall.1

/-- prepending the slot a statement emitted into block `b` -/
theorem layout_step (C : Codecs) (env' : Env) (b : Blk) (sl : Slot) (hb : sl.blk = b) (m' : List Slot)
    (s s1 s' : MState) (bytes : Bytes) (h1P : s1.P = (s.app b bytes).P) (h1D : s1.D = (s.app b bytes).D)
    (hP : s'.P = s1.P ++ layoutBytes C env' (m'.filter (·.blk == .P)))
    (hD : s'.D = s1.D ++ layoutBytes C env' (m'.filter (·.blk == .D)))
    (hsb : slotBytes C env' sl = bytes) :
    s'.P = s.P ++ layoutBytes C env' ((sl :: m').filter (·.blk == .P)) ∧
    s'.D = s.D ++ layoutBytes C env' ((sl :: m').filter (·.blk == .D)) := by
  subst hb
  cases hbl : sl.blk <;> simp [hbl, MState.app] at h1P h1D <;>
    simp [hbl, layoutBytes_cons, hP, hD, h1P, h1D, hsb]

theorem runMStmts_layout {C : Codecs} {T : String → Prop} (hC : LawfulCodecs C T) (andx : Bool)
    (stmts : List MStmt) :
    ∀ (m : List Slot) (s s' : MState), layoutM stmts = some m → stableM stmts = true →
      (∀ b f t, MStmt.sub b f t ∈ stmts → T t) →
      runMStmts C andx s stmts = .ok s' → intsFit s'.env stmts = true →
      s'.P = s.P ++ layoutBytes C s'.env (m.filter (·.blk == .P)) ∧
      s'.D = s.D ++ layoutBytes C s'.env (m.filter (·.blk == .D)) ∧
      s'.head = s.head ∧ ∀ sl ∈ m, SlotFit C T s'.env sl := by
  induction stmts with
  | nil =>
    intro m s s' hl _ _ h _
    rw [runMStmts] at h; cases h
    simp only [layoutM, Option.some.injEq] at hl; subst hl
    simp [layoutBytes_nil]
  | cons st r ih =>
    intro m s s' hl hst hT h hfit
    obtain ⟨hfrag, m', hl', hm⟩ := layoutM_cons hl
    rw [runMStmts] at h
    cases h1 : runMStmt C andx s st <;> simp [h1] at h
    rename_i s1
    rw [stableM, Bool.and_eq_true] at hst
    have hT' : ∀ b f t, MStmt.sub b f t ∈ r → T t := fun b f t hmem => hT b f t (List.mem_cons_of_mem _ hmem)
    have hfit' : intsFit s'.env r = true := by
      cases hfrag <;> simp [intsFit] at hfit <;> first | exact hfit.2 | exact hfit
    obtain ⟨hP, hD, hH, hS⟩ := ih m' s1 s' hl' hst.2 hT' h hfit'
    have hframe := fun f => runMStmts_frame C andx r m' s1 s' hl' h f
    cases hfrag <;> rw [runMStmt] at h1 <;> simp only [List.nil_append, List.cons_append] at hm <;> subst hm
    case int b w e f =>
      cases hg : getN s.env f <;> simp [hg] at h1
      rename_i x
      subst h1
      have hst1 := hst.1; simp only [emittedField] at hst1
      have hget : s'.env.get f = some (.n x) := by
        rw [hframe f hst1]; cases b <;> exact getN_ok hg
      have hx : x < 256 ^ w := by simp [intsFit, hget] at hfit; exact hfit.1
      obtain ⟨h1, h2⟩ := layout_step C s'.env b (.int b w e f) rfl m' s _ s' (intBytes w e x) rfl rfl hP hD
        (by simp [slotBytes, hget])
      refine ⟨h1, h2, by rw [hH]; cases b <;> rfl, ?_⟩
      intro sl hsl
      rcases List.mem_cons.mp hsl with rfl | hsl
      · exact ⟨x, hget, hx⟩
      · exact hS sl hsl
    case quad b w e f =>
      cases hg : getN s.env f <;> simp [hg] at h1
      rename_i x
      subst h1
      have hst1 := hst.1; simp only [emittedField] at hst1
      have hget : s'.env.get f = some (.n x) := by
        rw [hframe f hst1]; cases b <;> exact getN_ok hg
      have hx : x < 256 ^ w := by simp [intsFit, hget] at hfit; exact hfit.1
      obtain ⟨h1, h2⟩ := layout_step C s'.env b (.int b w e f) rfl m' s _ s' (intBytes w e x) rfl rfl hP hD
        (by simp [slotBytes, hget])
      refine ⟨h1, h2, by rw [hH]; cases b <;> rfl, ?_⟩
      intro sl hsl
      rcases List.mem_cons.mp hsl with rfl | hsl
      · exact ⟨x, hget, hx⟩
      · exact hS sl hsl
    case u8 b f =>
      cases hg : getN s.env f <;> simp [hg] at h1
      rename_i x
      subst h1
      have hst1 := hst.1; simp only [emittedField] at hst1
      have hget : s'.env.get f = some (.n x) := by
        rw [hframe f hst1]; cases b <;> exact getN_ok hg
      have hx : x < 256 := by simp [intsFit, hget] at hfit; exact hfit.1
      obtain ⟨h1, h2⟩ := layout_step C s'.env b (.u8 b f) rfl m' s _ s' [UInt8.ofNat x] rfl rfl hP hD
        (by simp [slotBytes, hget])
      refine ⟨h1, h2, by rw [hH]; cases b <;> rfl, ?_⟩
      intro sl hsl
      rcases List.mem_cons.mp hsl with rfl | hsl
      · exact ⟨x, hget, hx⟩
      · exact hS sl hsl
    case bytes b f =>
      split at h1 <;> try cases h1
      rename_i bs hg
      have hst1 := hst.1; simp only [emittedField] at hst1
      have hget : s'.env.get f = some (.b bs) := by
        rw [hframe f hst1]; cases b <;> exact hg
      obtain ⟨h1, h2⟩ := layout_step C s'.env b (.bytes b f none) rfl m' s _ s' bs rfl rfl hP hD
        (by simp [slotBytes, hget])
      refine ⟨h1, h2, by rw [hH]; cases b <;> rfl, ?_⟩
      intro sl hsl
      rcases List.mem_cons.mp hsl with rfl | hsl
      · exact ⟨bs, hget⟩
      · exact hS sl hsl
    case arr b f =>
      split at h1 <;> try cases h1
      rename_i bs hg
      have hst1 := hst.1; simp only [emittedField] at hst1
      have hget : s'.env.get f = some (.b bs) := by
        rw [hframe f hst1]; cases b <;> exact hg
      obtain ⟨h1, h2⟩ := layout_step C s'.env b (.arr b f) rfl m' s _ s' bs rfl rfl hP hD
        (by simp [slotBytes, hget])
      refine ⟨h1, h2, by rw [hH]; cases b <;> rfl, ?_⟩
      intro sl hsl
      rcases List.mem_cons.mp hsl with rfl | hsl
      · exact ⟨bs, hget⟩
      · exact hS sl hsl
    case sub b f t =>
      split at h1 <;> try cases h1
      rename_i v hg
      cases he : C.enc t v <;> simp [he] at h1
      rename_i r1
      obtain ⟨bs, v'⟩ := r1
      subst h1
      have hTt : T t := hT b f t (List.mem_cons_self ..)
      have hidem := hC.idem t v bs v' hTt he
      have hst1 := hst.1; simp only [emittedField] at hst1
      have hget : s'.env.get f = some (.t v') := by
        rw [hframe f hst1]; cases b <;> simp [MState.app, Env.get_set_self]
      obtain ⟨h1, h2⟩ := layout_step C s'.env b (.sub b f t none) rfl m' s _ s' bs
        (by cases b <;> rfl) (by cases b <;> rfl) hP hD (by simp [slotBytes, hget, hidem])
      refine ⟨h1, h2, by rw [hH]; cases b <;> rfl, ?_⟩
      intro sl hsl
      rcases List.mem_cons.mp hsl with rfl | hsl
      · exact ⟨v', bs, hget, hidem, hTt⟩
      · exact hS sl hsl
    case setFmt f k =>
      split at h1 <;> try cases h1
      exact ⟨hP, hD, hH, hS⟩
    case assignLen f g w =>
      split at h1 <;> try cases h1
      all_goals exact ⟨hP, hD, hH, hS⟩

end Manticore.SmbIR
