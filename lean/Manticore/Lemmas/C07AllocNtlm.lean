/-
  C07, allocation clause, for the NTLMSSP / SPNEGO decoders (hand models of C08):
  `ntlm.ParseTargetInfo`, `ntlm.ParseChallengeMessage`, `spnego.ExtractNTLMToken`,
  `spnego.ParseNegTokenResp`, `AuthContext.ProcessChallengeToken`.

  For every input: what the decoder returns is no bigger than a small multiple of the input
  (`*_alloc_bound`), and where memory is sized by a number read from the input (`ParseTargetInfo`'s
  map assignments, the content copies of `encoding/asn1`) the function `…AllocOf` of
  Model/C08Alloc.lean, which follows the Go statements, is bounded on ALL inputs and dominates the
  returned value; the eager variants (allocation in front of the length check) break the bound on
  four- and six-byte inputs (`example`s).  Core Lean only.
-/
import Manticore.Model.C08Alloc
import Manticore.Lemmas.SmbCodecsAlloc
import Manticore.Lemmas.C07Total
import Manticore.Props.C08
namespace Manticore.C07A.Ntlm
open Manticore Manticore.C08 Manticore.C06

/-! ## `ParseTargetInfo` -/

private theorem avInsert_size (k : UInt16) (v : Bytes) : ∀ m : AvMap,
    avMapSize (avInsert k v m) ≤ avMapSize m + 8 + v.length ∧ (avInsert k v m).length ≤ m.length + 1
  | [] => by simp [avInsert, avMapSize]
  | (k', v') :: t => by
    have ih := avInsert_size k v t
    unfold avInsert
    split
    · simp only [avMapSize, List.map_cons, List.sum_cons, List.length_cons]; omega
    · split
      · simp only [avMapSize, List.map_cons, List.sum_cons, List.length_cons]; omega
      · simp only [avMapSize, List.map_cons, List.sum_cons, List.length_cons] at ih ⊢; omega

/-- the loop: the map it returns is within what the assignments were charged, and every entry was
    paid for with four bytes of framing -/
private theorem loop_size : ∀ (fuel : Nat) (rest : Bytes) (acc m : AvMap) (n : Nat),
    parseTargetInfoLoop fuel rest acc = .ok m → avMapSize acc ≤ n →
      avMapSize m ≤ parseTargetInfoAllocLoop fuel rest n ∧ m.length * 4 ≤ acc.length * 4 + rest.length
  | 0, rest, acc, m, n, h, hn => by
    simp only [parseTargetInfoLoop, Outcome.ok.injEq] at h
    subst h; simp only [parseTargetInfoAllocLoop]; omega
  | fuel+1, rest, acc, m, n, h, hn => by
    unfold parseTargetInfoLoop at h
    unfold parseTargetInfoAllocLoop
    split at h
    · simp only [Outcome.ok.injEq] at h; subst h; simp only []; omega
    · cases h
    · cases h
    · cases h
    · rename_i i0 i1 l0 l1 body
      simp only [] at h ⊢
      split at h
      · cases h
      · rename_i hfit
        rw [if_neg hfit]
        have hins := avInsert_size (le16 i0 i1) (body.take (le16 l0 l1).toNat) acc
        have htl : (body.take (le16 l0 l1).toNat).length = (le16 l0 l1).toNat := by
          rw [List.length_take]; omega
        by_cases hz : le16 i0 i1 = 0
        · simp only [hz, ne_eq, not_true_eq_false, if_false, if_true, Outcome.ok.injEq] at h ⊢
          subst h; simp only [List.length_cons]; omega
        · simp only [hz, ne_eq, not_false_eq_true, if_true, if_false] at h ⊢
          have ih := loop_size fuel _ _ m (n + 8 + (le16 l0 l1).toNat) h (by omega)
          simp only [List.length_drop, List.length_cons] at ih ⊢
          omega

private theorem allocLoop_le : ∀ (fuel : Nat) (rest : Bytes) (n : Nat),
    parseTargetInfoAllocLoop fuel rest n ≤ n + 2 * rest.length
  | 0, rest, n => by simp only [parseTargetInfoAllocLoop]; omega
  | fuel+1, rest, n => by
    unfold parseTargetInfoAllocLoop
    split
    · omega
    · omega
    · omega
    · omega
    · rename_i i0 i1 l0 l1 body
      simp only []
      split
      · omega
      · rename_i hfit
        split
        · split <;> (simp only [List.length_cons]; omega)
        · have ih := allocLoop_le fuel (body.drop (le16 l0 l1).toNat)
          have := ih (n + 8 + (le16 l0 l1).toNat)
          simp only [List.length_drop, List.length_cons] at this ⊢; omega

/-- **what `ntlm.ParseTargetInfo` puts into its map is at most twice its input, on EVERY input**
    (error returns included).  Linear, `c1 = 2`, `c0 = 0`: an assignment `result[avId] = …` is
    charged 8 + `avLen` and is reached only behind `offset+int(avLen) > len(targetInfo)`, i.e. after
    4 + `avLen` bytes of the input were seen to be there. -/
theorem parseTargetInfoAllocOf_le (ti : Bytes) : parseTargetInfoAllocOf ti ≤ 2 * ti.length := by
  have := allocLoop_le (ti.length + 1) ti 0
  unfold parseTargetInfoAllocOf; omega

/-- the map that is returned is within what the assignments were charged (later assignments to
    the same key replace earlier ones, so it may be smaller), and it has at most one entry per four
    input bytes -/
theorem parseTargetInfo_alloc (ti : Bytes) (m : AvMap) (h : parseTargetInfo ti = .ok m) :
    avMapSize m ≤ parseTargetInfoAllocOf ti ∧ m.length * 4 ≤ ti.length := by
  have := loop_size (ti.length + 1) ti [] m 0 h (by simp [avMapSize])
  simpa [parseTargetInfoAllocOf] using this

/-- **`ntlm.ParseTargetInfo` (ntlm.go:642), `map[uint16][]byte`.**  Size `avMapSize` = Σ over the
    entries (8 for the key + length of the value).  Linear: entries ≤ |ti| / 4 and
    size ≤ 2·|ti| (`c1 = 2`, `c0 = 0`).  The values are pieces of the input in Go; they are charged
    as if copied. -/
theorem parseTargetInfo_alloc_bound (ti : Bytes) (m : AvMap) (h : parseTargetInfo ti = .ok m) :
    m.length * 4 ≤ ti.length ∧ avMapSize m ≤ 2 * ti.length := by
  have h1 := parseTargetInfo_alloc ti m h
  have h2 := parseTargetInfoAllocOf_le ti
  omega

/-- non-vacuity of the clause: with the value allocated in front of the truncation check a
    four-byte input costs 65543 (the bound is 8); as the code is, it costs nothing -/
example : parseTargetInfoAllocEager [1, 0, 0xff, 0xff] = 65543 := by decide
example : parseTargetInfoAllocOf [1, 0, 0xff, 0xff] = 0 := by decide
example : parseTargetInfo [1, 0, 2, 0, 65, 66, 0, 0, 0, 0] = .ok [(1, [65, 66])] := by decide
example : parseTargetInfoAllocOf [1, 0, 2, 0, 65, 66, 0, 0, 0, 0] = 10 := by decide
/-- an error return after a successful assignment: the first pair is in the map, the second is truncated -/
example : parseTargetInfo [1, 0, 1, 0, 65, 2, 0, 9, 0] = .err ∧ parseTargetInfoAllocOf [1, 0, 1, 0, 65, 2, 0, 9, 0] = 9 := by decide
/-- a duplicate key: two assignments (charged 18), one entry (size 9) -/
example : parseTargetInfo [1, 0, 1, 0, 65, 1, 0, 1, 0, 66] = .ok [(1, [66])] ∧
    parseTargetInfoAllocOf [1, 0, 1, 0, 65, 1, 0, 1, 0, 66] = 18 := by decide

/-! ## `ParseChallengeMessage` -/

private theorem payloadField_length (d : Bytes) (len : UInt16) (off : UInt32) (f : Bytes)
    (h : payloadField d len off = .ok f) : f.length = len.toNat ∧ f.length ≤ d.length ∨ f = [] := by
  unfold payloadField at h
  split at h
  · have := slice_length h
    left; omega
  · simp only [Outcome.ok.injEq] at h; right; exact h.symm

private theorem versionRoundTrip_length (v : Bytes) : (versionRoundTrip v).length = 8 := rfl

/-- **`ntlm.ParseChallengeMessage` (ntlm.go:195), `*ChallengeMessage`.**  Size `challengeSize` =
    16 (signature, message type) + 8 (flags) + the three 8-byte arrays + |TargetName| + |TargetInfo|.
    Linear, size ≤ 2·|d| + 48 (`c1 = 2` because the two payload fields may designate the same
    bytes), and in fact capped: each field is at most 65535 bytes, so size ≤ 131118.  The function
    has no `make`; both fields are slice expressions behind
    `uint64(off)+uint64(len) <= uint64(len(data))`, so Go allocates the fixed-size structure only. -/
theorem parseChallenge_alloc_bound (d : Bytes) (c : Challenge) (h : parseChallenge d = .ok c) :
    c.targetName.length ≤ d.length ∧ c.targetName.length ≤ 65535 ∧
    c.targetInfo.length ≤ d.length ∧ c.targetInfo.length ≤ 65535 ∧
    c.serverChallenge.length = 8 ∧ c.reserved.length = 8 ∧ c.version.length = 8 ∧
    challengeSize c ≤ 2 * d.length + 48 := by
  unfold parseChallenge at h
  split at h
  · cases h
  · rename_i hlen
    split at h
    · cases h
    · split at h
      · cases h
      · obtain ⟨tn, htn, h⟩ := bind_ok_inv h
        obtain ⟨ti, hti, h⟩ := bind_ok_inv h
        simp only [Outcome.pure_eq, Outcome.ok.injEq] at h
        subst h
        have h1 := payloadField_length _ _ _ _ htn
        have h2 := payloadField_length _ _ _ _ hti
        have l1 := (u16At d 12).toNat_lt
        have l2 := (u16At d 40).toNat_lt
        have a1 : tn.length ≤ d.length ∧ tn.length ≤ 65535 := by
          rcases h1 with h1 | h1
          · omega
          · subst h1; simp
        have a2 : ti.length ≤ d.length ∧ ti.length ≤ 65535 := by
          rcases h2 with h2 | h2
          · omega
          · subst h2; simp
        have hv : (if u32At d 20 &&& F_VERSION ≠ 0 ∧ d.length ≥ 56 then versionRoundTrip ((d.drop 48).take 8) else zeros 8).length = 8 := by
          split
          · rfl
          · simp [zeros]
        have hs : ((d.drop 24).take 8).length = 8 := by simp only [List.length_take, List.length_drop]; omega
        have hr : ((d.drop 32).take 8).length = 8 := by simp only [List.length_take, List.length_drop]; omega
        simp only [challengeSize]
        omega

example : parseChallenge ([78, 84, 76, 77, 83, 83, 80, 0, 2, 0, 0, 0] ++ List.replicate 44 0) =
    .ok { flags := 0, serverChallenge := zeros 8, reserved := zeros 8, targetName := [], targetInfo := [],
          version := zeros 8 } := by decide
/-- two payload fields designating the same bytes: the structure counts them twice -/
example : (parseChallenge ([78, 84, 76, 77, 83, 83, 80, 0, 2, 0, 0, 0, 2, 0, 2, 0, 56, 0, 0, 0] ++ List.replicate 20 0 ++
    [2, 0, 2, 0, 56, 0, 0, 0] ++ List.replicate 8 0 ++ [65, 66])).map' challengeSize = .ok 52 := by decide

/-! ## `encoding/asn1`: every header costs two bytes, every content is a piece of the input -/

private theorem parseBase128Loop_rest : ∀ (b : Bytes) (s acc v : Nat) (r : Bytes),
    parseBase128Loop s acc b = some (v, r) → r.length + 1 ≤ b.length
  | [], s, acc, v, r, h => by simp [parseBase128Loop] at h
  | x :: rest, s, acc, v, r, h => by
    unfold parseBase128Loop at h
    split at h
    · cases h
    · split at h
      · cases h
      · simp only [] at h
        split at h
        · split at h
          · cases h
          · simp only [Option.some.injEq, Prod.mk.injEq] at h
            rw [← h.2]; simp
        · have := parseBase128Loop_rest rest _ _ v r h
          simp only [List.length_cons]; omega

private theorem parseLongLen_rest : ∀ (n acc : Nat) (b : Bytes) (v : Nat) (r : Bytes),
    parseLongLen n acc b = some (v, r) → r.length ≤ b.length
  | 0, acc, b, v, r, h => by
    simp only [parseLongLen, Option.some.injEq, Prod.mk.injEq] at h; rw [← h.2]; omega
  | n+1, acc, b, v, r, h => by
    unfold parseLongLen at h
    split at h
    · cases h
    · split at h
      · cases h
      · simp only [] at h
        split at h
        · cases h
        · have := parseLongLen_rest n _ _ v r h
          simp only [List.length_cons]; omega

/-- `parseTagAndLength` consumes at least the identifier octet and one length octet -/
private theorem parseTL_rest (b : Bytes) (t : TL) (r : Bytes) (h : parseTL b = some (t, r)) :
    r.length + 2 ≤ b.length := by
  unfold parseTL at h
  split at h
  · cases h
  · rename_i b0 r0
    simp only [] at h
    split at h
    · cases h
    · rename_i tag r1 htag
      have hr1 : r1.length ≤ r0.length := by
        split at htag
        · split at htag
          · rename_i tt rr hb
            split at htag
            · cases htag
            · simp only [Option.some.injEq, Prod.mk.injEq] at htag
              have := parseBase128Loop_rest _ _ _ _ _ hb
              rw [← htag.2]; omega
          · cases htag
        · simp only [Option.some.injEq, Prod.mk.injEq] at htag
          rw [← htag.2]; omega
      split at h
      · cases h
      · rename_i l0 r2
        simp only [List.length_cons] at hr1 ⊢
        split at h
        · simp only [Option.some.injEq, Prod.mk.injEq] at h
          rw [← h.2]; omega
        · split at h
          · cases h
          · split at h
            · cases h
            · rename_i len r3 hl
              have := parseLongLen_rest _ _ _ _ _ hl
              split at h
              · cases h
              · simp only [Option.some.injEq, Prod.mk.injEq] at h
                rw [← h.2]; omega

private theorem header_of_inner (e : Option Nat) (utag : Nat) (comp : Bool) (b : Bytes) (t : TL) (r : Bytes)
    (t' : TL) (r' : Bytes) (hne : b ≠ []) (htl : parseTL b = some (t, r))
    (hcls : ¬(t'.cls ≠ 0 ∨ t'.tag ≠ utag ∨ t'.compound ≠ comp)) :
    (match e with
      | none => some (some (t, r))
      | some e =>
        if r = [] then none
        else if t.cls = 2 ∧ t.tag = e ∧ (t.len = 0 ∨ t.compound) then
          if t.len > 0 then (match parseTL r with | none => none | some x => some (some x))
          else none
        else some none) = some (some (t', r')) →
    parseFieldHeader e utag comp b = some (t', r') := by
  intro hinner
  unfold parseFieldHeader
  cases b with
  | nil => exact absurd rfl hne
  | cons x xs =>
    simp only [htl]
    cases e with
    | none =>
      simp only [Option.some.injEq, Prod.mk.injEq] at hinner
      simp only [hinner.1, hinner.2, if_neg hcls]
    | some e =>
      simp only [] at hinner ⊢
      split at hinner
      · cases hinner
      · rename_i hr0; rw [if_neg hr0]
        split at hinner
        · rename_i hc; rw [if_pos hc]
          split at hinner
          · rename_i hp; rw [if_pos hp]
            split at hinner
            · cases hinner
            · rename_i x hx
              simp only [Option.some.injEq] at hinner
              rw [hx, hinner]
              simp only [if_neg hcls]
          · cases hinner
        · cases hinner

/-- a member that is present: its content `c` is what the content parser saw, and content, the
    bytes behind it and two bytes of header all fit into the input; a member that is absent
    leaves the input where it was -/
private theorem parseField_inv {α} (e : Option Nat) (opt : Bool) (utag : Nat) (comp : Bool)
    (content : Bytes → Option α) (b : Bytes) (ov : Option α) (rest : Bytes)
    (h : parseField e opt utag comp content b = some (ov, rest)) :
    (ov = none ∧ rest = b) ∨
    (∃ c v, ov = some v ∧ content c = some v ∧ c.length + rest.length + 2 ≤ b.length ∧
      c.length = parseFieldAllocOf e utag comp b) := by
  unfold parseField at h
  simp only [] at h
  split at h
  · split at h
    · simp only [Option.some.injEq, Prod.mk.injEq] at h; left; exact ⟨h.1.symm, h.2.symm⟩
    · cases h
  · rename_i hne
    split at h
    · cases h
    · rename_i t r htl
      have hr := parseTL_rest _ _ _ htl
      have habs : ∀ {x : Option (Option α × Bytes)}, x = some (ov, rest) →
          x = (if opt then some (none, b) else none) → (ov = none ∧ rest = b) := by
        intro x hx hx'
        rw [hx'] at hx
        split at hx
        · simp only [Option.some.injEq, Prod.mk.injEq] at hx; exact ⟨hx.1.symm, hx.2.symm⟩
        · cases hx
      split at h
      · cases h
      · left; exact habs h rfl
      · rename_i t' r' hinner
        have hr' : r'.length + 2 ≤ b.length := by
          split at hinner
          · simp only [Option.some.injEq, Prod.mk.injEq] at hinner
            rw [← hinner.2]; exact hr
          · split at hinner
            · cases hinner
            · split at hinner
              · split at hinner
                · split at hinner
                  · cases hinner
                  · rename_i x hx
                    simp only [Option.some.injEq] at hinner
                    subst hinner
                    have := parseTL_rest _ _ _ hx
                    omega
                · cases hinner
              · cases hinner
        split at h
        · left; exact habs h rfl
        · rename_i hcls
          split at h
          · cases h
          · rename_i hfit
            split at h
            · cases h
            · rename_i v hv
              simp only [Option.some.injEq, Prod.mk.injEq] at h
              right
              refine ⟨r'.take t'.len, v, h.1.symm, hv, ?_, ?_⟩
              · rw [← h.2]; simp only [List.length_take, List.length_drop]; omega
              · have hhdr := header_of_inner e utag comp b t r t' r' (fun hb => hne hb) htl hcls hinner
                simp only [parseFieldAllocOf, hhdr, if_neg hfit, List.length_take]
                omega

private theorem parseFieldHeader_rest (e : Option Nat) (utag : Nat) (comp : Bool) (b : Bytes) (t : TL) (r : Bytes)
    (h : parseFieldHeader e utag comp b = some (t, r)) : r.length + 2 ≤ b.length := by
  unfold parseFieldHeader at h
  split at h
  · cases h
  · split at h
    · cases h
    · rename_i t0 r0 htl
      have hr := parseTL_rest _ _ _ htl
      simp only [] at h
      split at h
      · cases h
      · rename_i t1 r1 hin
        split at h
        · cases h
        · simp only [Option.some.injEq, Prod.mk.injEq] at h
          rw [← h.2]
          split at hin
          · simp only [Option.some.injEq, Prod.mk.injEq] at hin; rw [← hin.2]; exact hr
          · split at hin
            · cases hin
            · split at hin
              · split at hin
                · have := parseTL_rest _ _ _ hin; omega
                · cases hin
              · cases hin

/-- **`encoding/asn1` `parseField` copies no more than it is given**, on every input -/
theorem parseFieldAllocOf_le (e : Option Nat) (utag : Nat) (comp : Bool) (b : Bytes) :
    parseFieldAllocOf e utag comp b ≤ b.length := by
  unfold parseFieldAllocOf
  split
  · omega
  · rename_i t r h
    have := parseFieldHeader_rest _ _ _ _ _ _ h
    split <;> omega

/-- the content a present member was parsed from is exactly what was copied -/
theorem parseField_alloc {α} (e : Option Nat) (opt : Bool) (utag : Nat) (comp : Bool)
    (content : Bytes → Option α) (b : Bytes) (v : α) (rest : Bytes)
    (h : parseField e opt utag comp content b = some (some v, rest)) :
    ∃ c, content c = some v ∧ c.length = parseFieldAllocOf e utag comp b := by
  rcases parseField_inv _ _ _ _ _ _ _ _ h with ⟨h0, _⟩ | ⟨c, v', hv, hc, _, hl⟩
  · cases h0
  · simp only [Option.some.injEq] at hv; subst hv; exact ⟨c, hc, hl⟩

/-- the announced length of an OCTET STRING is 2^31 − 1, six bytes are there -/
example : parseFieldAllocEager none 4 false [0x04, 0x84, 0x7f, 0xff, 0xff, 0xff] = 2147483647 := by decide
example : parseFieldAllocOf none 4 false [0x04, 0x84, 0x7f, 0xff, 0xff, 0xff] = 0 := by decide
example : parseFieldAllocOf (some 2) 4 false [0xA2, 0x04, 0x04, 0x02, 65, 66] = 2 := by decide
example : parseField (some 2) true 4 false someBytes [0xA2, 0x04, 0x04, 0x02, 65, 66] = some (some [65, 66], []) := by decide

/-! ## OBJECT IDENTIFIER: at most one arc per content byte, plus one -/

private theorem parseOidArcs_length : ∀ (fuel : Nat) (b : Bytes) (l : List Nat),
    parseOidArcs fuel b = some l → l.length ≤ b.length
  | 0, b, l, h => by simp [parseOidArcs] at h
  | fuel+1, b, l, h => by
    unfold parseOidArcs at h
    split at h
    · simp only [Option.some.injEq] at h; subst h; simp
    · split at h
      · cases h
      · rename_i v rest hb
        have hr := parseBase128Loop_rest _ _ _ _ _ hb
        cases hrec : parseOidArcs fuel rest with
        | none => rw [hrec] at h; cases h
        | some l' =>
          rw [hrec] at h
          simp only [Option.map_some, Option.some.injEq] at h
          subst h
          have := parseOidArcs_length fuel rest l' hrec
          simp only [List.length_cons]; omega

private theorem parseOid_length (c : Bytes) (arcs : List Nat) (h : parseOid c = some arcs) :
    arcs.length ≤ c.length + 1 := by
  unfold parseOid at h
  split at h
  · cases h
  · split at h
    · rename_i v rest hl
      have := parseOidArcs_length _ _ _ hl
      simp only [Option.some.injEq] at h
      subst h
      simp only [List.length_cons] at this
      split <;> (simp only [List.length_cons]; omega)
    · cases h

/-! ## the two structures and the GSS-API prologue -/

/-- an OCTET STRING member (`getD []` of what `parseField` gives): its bytes and the bytes behind
    it fit into the input -/
private theorem octets_inv (e : Option Nat) (b : Bytes) (ov : Option Bytes) (rest : Bytes)
    (h : parseField e true 4 false someBytes b = some (ov, rest)) :
    (ov.getD []).length + rest.length ≤ b.length := by
  rcases parseField_inv _ _ _ _ _ _ _ _ h with ⟨h0, h1⟩ | ⟨c, v, hv, hc, hl, _⟩
  · subst h0; subst h1; simp
  · subst hv
    simp only [someBytes, Option.some.injEq] at hc
    subst hc
    simp only [Option.getD_some]; omega

private theorem rest_le {α} (e : Option Nat) (opt : Bool) (utag : Nat) (comp : Bool)
    (content : Bytes → Option α) (b : Bytes) (ov : Option α) (rest : Bytes)
    (h : parseField e opt utag comp content b = some (ov, rest)) : rest.length ≤ b.length := by
  rcases parseField_inv _ _ _ _ _ _ _ _ h with ⟨_, h1⟩ | ⟨c, v, _, _, hl, _⟩
  · subst h1; omega
  · omega

private theorem parseRespFields_size (b : Bytes) (r : NegTokenResp) (h : parseRespFields b = some r) :
    r.supportedMech.length + r.responseToken.length + r.mechListMIC.length ≤ b.length := by
  cases h0 : parseField (some 0) true 10 false parseInt32 b with
  | none => simp [parseRespFields, h0] at h
  | some p0 =>
    obtain ⟨s, b1⟩ := p0
    cases h1 : parseField (some 1) true 6 false parseOid b1 with
    | none => simp [parseRespFields, h0, h1] at h
    | some p1 =>
      obtain ⟨m, b2⟩ := p1
      cases h2 : parseField (some 2) true 4 false someBytes b2 with
      | none => simp [parseRespFields, h0, h1, h2] at h
      | some p2 =>
        obtain ⟨t, b3⟩ := p2
        cases h3 : parseField (some 3) true 4 false someBytes b3 with
        | none => simp [parseRespFields, h0, h1, h2, h3] at h
        | some p3 =>
          obtain ⟨c, b4⟩ := p3
          simp only [parseRespFields, h0, h1, h2, h3, bind, Option.bind, pure, Option.some.injEq] at h
          subst h
          have a0 := rest_le _ _ _ _ _ _ _ _ h0
          have a2 := octets_inv _ _ _ _ h2
          have a3 := octets_inv _ _ _ _ h3
          have a1 : (m.getD []).length + b2.length ≤ b1.length := by
            rcases parseField_inv _ _ _ _ _ _ _ _ h1 with ⟨e0, e1⟩ | ⟨c', v, hv, hc, hl, _⟩
            · subst e0; subst e1; simp
            · subst hv
              have := parseOid_length _ _ hc
              simp only [Option.getD_some]; omega
          simp only []
          omega

private theorem parseInitFields_size (b : Bytes) (i : NegTokenInit) (h : parseInitFields b = some i) :
    i.mechToken.length ≤ b.length := by
  cases h0 : parseField (some 0) false 16 true parseOidSeq b with
  | none => simp [parseInitFields, h0] at h
  | some p0 =>
    obtain ⟨s, b1⟩ := p0
    cases h1 : parseField (some 1) true 3 false parseBitString b1 with
    | none => simp [parseInitFields, h0, h1] at h
    | some p1 =>
      obtain ⟨m, b2⟩ := p1
      cases h2 : parseField (some 2) true 4 false someBytes b2 with
      | none => simp [parseInitFields, h0, h1, h2] at h
      | some p2 =>
        obtain ⟨t, b3⟩ := p2
        cases h3 : parseField (some 3) true 4 false someBytes b3 with
        | none => simp [parseInitFields, h0, h1, h2, h3] at h
        | some p3 =>
          obtain ⟨c, b4⟩ := p3
          simp only [parseInitFields, h0, h1, h2, h3, bind, Option.bind, pure, Option.some.injEq] at h
          subst h
          have a0 := rest_le _ _ _ _ _ _ _ _ h0
          have a1 := rest_le _ _ _ _ _ _ _ _ h1
          have a2 := octets_inv _ _ _ _ h2
          simp only []
          omega

private theorem unmarshalStruct_inv {α} (fields : Bytes → Option α) (b : Bytes) (v : α)
    (h : unmarshalStruct fields b = some v) : ∃ c, fields c = some v ∧ c.length + 2 ≤ b.length := by
  unfold unmarshalStruct at h
  split at h
  · rename_i v' rest hp
    simp only [Option.some.injEq] at h; subst h
    rcases parseField_inv _ _ _ _ _ _ _ _ hp with ⟨h0, _⟩ | ⟨c, v, hv, hc, hl, _⟩
    · cases h0
    · simp only [Option.some.injEq] at hv; subst hv
      exact ⟨c, hc, by omega⟩
  · cases h

/-- header check, the skipped length octets and the object identifier cost at least four bytes -/
private theorem gssPrologue_rest (d rest : Bytes) (h : gssPrologue d = .ok rest) : rest.length + 4 ≤ d.length := by
  unfold gssPrologue at h
  split at h
  · rename_i b0 b1 tl
    split at h
    · cases h
    · split at h
      · cases h
      · obtain ⟨tail, ht, h⟩ := bind_ok_inv h
        have htl : tail.length + 2 ≤ (b0 :: b1 :: tl).length := by
          unfold sliceFrom at ht
          split at ht
          · simp only [Outcome.ok.injEq] at ht
            subst ht
            have : 2 ≤ gssOffset b1 := by unfold gssOffset; split <;> omega
            simp only [List.length_drop]; omega
          · cases ht
        split at h
        · cases h
        · rename_i r hu
          simp only [Outcome.ok.injEq] at h; subst h
          unfold unmarshalOidRest at hu
          split at hu
          · rename_i v' rest' hp
            simp only [Option.some.injEq] at hu; subst hu
            rcases parseField_inv _ _ _ _ _ _ _ _ hp with ⟨h0, _⟩ | ⟨c, v, _, _, hl, _⟩
            · cases h0
            · omega
          · cases hu
  · cases h

private theorem respOf (rest : Bytes) (r : NegTokenResp) (h : unmarshalStruct parseRespFields rest = some r) :
    r.supportedMech.length + r.responseToken.length + r.mechListMIC.length + 2 ≤ rest.length := by
  obtain ⟨c, hc, hl⟩ := unmarshalStruct_inv _ _ _ h
  have := parseRespFields_size _ _ hc
  omega

/-- **`spnego.ParseNegTokenResp` (spnego.go:96), `*NegTokenResp`.**  Size `negTokenRespSize` =
    8 (`NegState`) + 8 per arc of `SupportedMech` (`[]int`) + |ResponseToken| + |MechListMIC|.
    Linear: arcs + |ResponseToken| + |MechListMIC| + 6 ≤ |d|, hence size ≤ 8·|d| (`c1 = 8` is the
    width of an `int` arc against one content byte, `c0 = 0`: the 8 of `NegState` is paid for by the
    six bytes of GSS header, object identifier and SEQUENCE header in front of the members). -/
theorem parseNegTokenResp_alloc_bound (d : Bytes) (r : NegTokenResp) (h : parseNegTokenResp d = .ok r) :
    r.supportedMech.length + r.responseToken.length + r.mechListMIC.length + 6 ≤ d.length ∧
    negTokenRespSize r ≤ 8 * d.length := by
  unfold parseNegTokenResp at h
  obtain ⟨rest, hrest, h⟩ := bind_ok_inv h
  have hg := gssPrologue_rest _ _ hrest
  split at h
  · rename_i r' hr
    simp only [Outcome.ok.injEq] at h; subst h
    have := respOf _ _ hr
    simp only [negTokenRespSize, oidSize]
    omega
  · cases h

/-- **`spnego.ExtractNTLMToken` (spnego.go:198), `[]byte`.**  The token it returns (`MechToken` of a
    NegTokenInit or `ResponseToken` of a NegTokenResp, a copy `encoding/asn1` made of an OCTET STRING
    whose length it had checked, `parseFieldAllocOf_le`) is shorter than the input by at least the
    six bytes of GSS header, object identifier and SEQUENCE header: |t| + 6 ≤ |d| (`c1 = 1`). -/
theorem extractNTLMToken_alloc_bound (d t : Bytes) (h : extractNTLMToken d = .ok t) :
    0 < t.length ∧ t.length + 6 ≤ d.length := by
  unfold extractNTLMToken at h
  obtain ⟨rest, hrest, h⟩ := bind_ok_inv h
  have hg := gssPrologue_rest _ _ hrest
  have hresp : ∀ t, (match unmarshalStruct parseRespFields rest with
      | some r => if r.responseToken.length > 0 then Outcome.ok r.responseToken else .err
      | none => .err) = .ok t → 0 < t.length ∧ t.length + 6 ≤ d.length := by
    intro t h
    split at h
    · rename_i r hr
      have := respOf _ _ hr
      split at h
      · simp only [Outcome.ok.injEq] at h; subst h; omega
      · cases h
    · cases h
  split at h
  · rename_i i hi
    split at h
    · rename_i hpos
      simp only [Outcome.ok.injEq] at h; subst h
      obtain ⟨c, hc, hl⟩ := unmarshalStruct_inv _ _ _ hi
      have := parseInitFields_size _ _ hc
      omega
    · exact hresp t h
  · exact hresp t h

/-- non-vacuity: a NegTokenResp (accept-incomplete, NTLMSSP, a two-byte token) in its GSS framing -/
example : parseNegTokenResp [96, 35, 6, 6, 43, 6, 1, 5, 5, 2, 48, 25, 160, 3, 10, 1, 1, 161, 12, 6, 10, 43, 6, 1, 4, 1,
    130, 55, 2, 2, 10, 162, 4, 4, 2, 65, 66] =
    .ok { negState := 1, supportedMech := [1, 3, 6, 1, 4, 1, 311, 2, 2, 10], responseToken := [65, 66], mechListMIC := [] } := by
  decide
example : extractNTLMToken [96, 35, 6, 6, 43, 6, 1, 5, 5, 2, 48, 25, 160, 3, 10, 1, 1, 161, 12, 6, 10, 43, 6, 1, 4, 1,
    130, 55, 2, 2, 10, 162, 4, 4, 2, 65, 66] = .ok [65, 66] := by decide
/-- … and a NegTokenInit -/
example : extractNTLMToken [96, 32, 6, 6, 43, 6, 1, 5, 5, 2, 48, 22, 160, 14, 48, 12, 6, 10, 43, 6, 1, 4, 1, 130, 55, 2,
    2, 10, 162, 4, 4, 2, 65, 66] = .ok [65, 66] := by decide

/-! ## `ProcessChallengeToken`: the answer is the credentials plus a constant -/

private theorem createAuthenticate_length (upper utf16 : Bytes → Bytes) (flags : UInt32) (lm nt user domain ws : Bytes) :
    (createAuthenticate upper utf16 flags lm nt user domain ws).length =
      88 + lm.length + nt.length + (authNames upper utf16 flags user domain ws).domain.length +
        (authNames upper utf16 flags user domain ws).user.length +
        (authNames upper utf16 flags user domain ws).workstation.length := by
  have hv : (if flags &&& F_VERSION ≠ 0 then defaultVersion else zeros 8).length = 8 := by
    split
    · rfl
    · simp [zeros]
  simp only [createAuthenticate, List.length_append, hv, descriptor_length, putLe32_length, signature_length,
    zeros_length]

private theorem gssLength_le (n : Nat) (hn : n < 4294967296) : (gssLength n).length ≤ 5 := by
  by_cases h : n < 128
  · simp [gssLength, h]
  · have hr := numBytes_range n (by omega) hn
    rw [gssLength_long n (by omega)]
    simp only [List.length_cons, natBe_length]; omega

private theorem wrapInit_length (m : Bytes) (hm : m.length < 4294967000) :
    (wrapInit (some m)).length ≤ m.length + 48 := by
  have e1 : (tlv 0xA0 (tlv 0x30 ntlmOidTLV)).length = 16 := by decide
  have e2 : spnegoOidTLV.length = 8 := rfl
  have h04 := tlv_length 0x04 m (by omega)
  have hA2 := tlv_length 0xA2 (tlv 0x04 m) (by omega)
  have h30 := tlv_length 0x30 (tlv 0xA0 (tlv 0x30 ntlmOidTLV) ++ tlv 0xA2 (tlv 0x04 m))
    (by simp only [List.length_append, e1]; omega)
  simp only [List.length_append, e1] at h30
  have hg := gssLength_le (spnegoOidTLV.length + (tlv 0x30 (tlv 0xA0 (tlv 0x30 ntlmOidTLV) ++ tlv 0xA2 (tlv 0x04 m))).length)
    (by rw [e2]; omega)
  simp only [wrapInit, gssWrap, marshalNegTokenInit, optOctets, List.length_cons, List.length_append]
  rw [e2] at hg ⊢
  omega

private theorem authNames_le (upper utf16 : Bytes → Bytes) (flags : UInt32) (user domain ws : Bytes) :
    (authNames upper utf16 flags user domain ws).domain.length ≤ (utf16 domain).length + domain.length ∧
    (authNames upper utf16 flags user domain ws).user.length ≤ (utf16 user).length + user.length ∧
    (authNames upper utf16 flags user domain ws).workstation.length ≤
      (utf16 (upper ws)).length + (upper ws).length := by
  unfold authNames
  split <;> (simp only []; omega)

/-- the exact form: the flags of the server's CHALLENGE select the character set of the names
    (`authNames`); 136 = 88 (AUTHENTICATE header) + 48 (GSS header, object identifier, the DER
    headers of the NegTokenInit and its mechanism list) -/
theorem processChallengeToken_alloc_flags (upper utf16 : Bytes → Bytes) (token user domain ws lm nt out : Bytes)
    (h : processChallengeToken upper utf16 token user domain ws lm nt = .ok out) :
    ∃ flags : UInt32,
      out.length ≤ lm.length + nt.length + (authNames upper utf16 flags user domain ws).domain.length +
        (authNames upper utf16 flags user domain ws).user.length +
        (authNames upper utf16 flags user domain ws).workstation.length + 136 ∧
      out.length ≤ 327811 := by
  unfold processChallengeToken at h
  obtain ⟨resp, _, h⟩ := bind_ok_inv h
  split at h
  · cases h
  · obtain ⟨inner, _, h⟩ := bind_ok_inv h
    obtain ⟨c, _, h⟩ := bind_ok_inv h
    obtain ⟨m, hm, h⟩ := bind_ok_inv h
    simp only [Outcome.pure_eq, Outcome.ok.injEq] at h
    subst h
    refine ⟨c.flags, ?_⟩
    unfold createAuthenticateMessage at hm
    simp only [] at hm
    split at hm
    · cases hm
    · rename_i hfit
      simp only [Outcome.ok.injEq] at hm
      subst hm
      simp only [List.any_cons, List.any_nil, Bool.or_false, Bool.or_eq_true, decide_eq_true_eq, not_or,
        Nat.not_lt] at hfit
      have hl := createAuthenticate_length upper utf16 c.flags lm nt user domain ws
      have hw := wrapInit_length (createAuthenticate upper utf16 c.flags lm nt user domain ws) (by omega)
      omega

/-- **`AuthContext.ProcessChallengeToken` (auth.go:45), the AUTHENTICATE token.**  A builder: its
    output is the five payload fields, an 88-byte header and at most 48 bytes of GSS / DER framing.
    Linear in the credentials and the two responses with coefficient 1, and INDEPENDENT of |token|
    (the CHALLENGE contributes its flags only): |out| ≤ |lm| + |nt| + (|utf16 domain| + |domain|) +
    (|utf16 user| + |user|) + (|utf16 (upper ws)| + |upper ws|) + 136, where each bracket is an upper
    bound for whichever of the two encodings the flags select.  And capped: the guard
    `len(field) > 0xFFFF` of `CreateAuthenticateMessage` makes |out| ≤ 88 + 5·65535 + 48 = 327811.
    In the model `lm`, `nt` are arguments (property C02); in Go the NTLMv2 `nt` is
    16 + 28 + |TargetInfo| + 4 bytes with |TargetInfo| ≤ min(|token|, 65535)
    (`parseChallenge_alloc_bound`), which is where |token| enters, linearly. -/
theorem processChallengeToken_alloc_bound (upper utf16 : Bytes → Bytes) (token user domain ws lm nt out : Bytes)
    (h : processChallengeToken upper utf16 token user domain ws lm nt = .ok out) :
    out.length ≤ lm.length + nt.length + ((utf16 domain).length + domain.length) +
        ((utf16 user).length + user.length) + ((utf16 (upper ws)).length + (upper ws).length) + 136 ∧
    out.length ≤ 327811 := by
  obtain ⟨flags, h1, h2⟩ := processChallengeToken_alloc_flags upper utf16 token user domain ws lm nt out h
  have := authNames_le upper utf16 flags user domain ws
  omega

set_option maxRecDepth 8192 in
/-- non-vacuity: a 56-byte CHALLENGE (UNICODE flag) in a NegTokenResp, user "U", identity for the
    two text functions: the answer has 89 + 32 bytes -/
example : (processChallengeToken id id [96, 75, 6, 6, 43, 6, 1, 5, 5, 2, 48, 65, 160, 3, 10, 1, 1, 162, 58, 4, 56,
    78, 84, 76, 77, 83, 83, 80, 0, 2, 0, 0, 0, 0, 0, 0, 0, 0, 0, 0, 0, 1, 0, 0, 0, 1, 2, 3, 4, 5, 6, 7, 8,
    0, 0, 0, 0, 0, 0, 0, 0, 0, 0, 0, 0, 0, 0, 0, 0, 0, 0, 0, 0, 0, 0, 0, 0] [85] [] [] [] []).map' List.length = .ok 121 := by
  decide

end Manticore.C07A.Ntlm
