/-
  Helper lemmas for property C03 (SMB1 envelope).  Nothing here is a property clause; the
  property theorems are in `Manticore/Props/C03.lean`.
-/
import Manticore.Model.C03
import Manticore.Lemmas.Endian
namespace Manticore.C03
open Manticore

/-! ### numbers and bytes -/

theorem natLe_leNat (bs : Bytes) : natLe bs.length (leNat bs) = bs := by
  induction bs with
  | nil => rfl
  | cons b bs ih =>
    have hb := b.toNat_lt
    simp only [List.length_cons, natLe, leNat]
    rw [show (b.toNat + 256 * leNat bs) % 256 = b.toNat by omega,
      show (b.toNat + 256 * leNat bs) / 256 = leNat bs by omega, ih]
    simp

theorem leNat_natLe (n x : Nat) (h : x < 256 ^ n) : leNat (natLe n x) = x := by
  induction n generalizing x with
  | zero => simp [natLe, leNat] at *; omega
  | succ n ih =>
    have h' : x / 256 < 256 ^ n := by
      rw [Nat.pow_succ] at h
      exact Nat.div_lt_of_lt_mul (by rwa [Nat.mul_comm] at h)
    simp only [natLe, leNat, ih _ h', UInt8.toNat_ofNat']
    omega

theorem natLe_length (n x : Nat) : (natLe n x).length = n := by
  induction n generalizing x with
  | zero => rfl
  | succ n ih => simp [natLe, ih]

theorem leNat_le16 (x : UInt16) : leNat (putLe16 x) = x.toNat := by
  have := x.toNat_lt
  simp [putLe16, leNat, Nat.shiftRight_eq_div_pow]
  omega

theorem leNat_le32 (x : UInt32) : leNat (putLe32 x) = x.toNat := by
  have := x.toNat_lt
  simp [putLe32, leNat, Nat.shiftRight_eq_div_pow]
  omega

theorem natLe2 (x : UInt16) : natLe 2 x.toNat = putLe16 x := by
  have := natLe_leNat (putLe16 x)
  rwa [leNat_le16] at this

theorem natLe4 (x : UInt32) : natLe 4 x.toNat = putLe32 x := by
  have := natLe_leNat (putLe32 x)
  rwa [leNat_le32] at this

theorem natLe1 (x : UInt8) : natLe 1 x.toNat = [x] := by
  have := natLe_leNat [x]
  simpa [leNat] using this

theorem natLe1_16 (x : UInt16) : natLe 1 x.toNat = [x.toUInt8] := by
  simp [natLe]
  apply UInt8.toNat_inj.1
  simp

theorem natLe4_leNat (a b c d : UInt8) : natLe 4 (leNat [a, b, c, d]) = [a, b, c, d] := natLe_leNat [a, b, c, d]
theorem natLe8_leNat (a b c d e f g h : UInt8) :
    natLe 8 (leNat [a, b, c, d, e, f, g, h]) = [a, b, c, d, e, f, g, h] := natLe_leNat [a, b, c, d, e, f, g, h]

/-- `byte(x)` of a 16-bit value, widened again, keeps the low 8 bits -/
theorem toUInt8_toUInt16 (x : UInt16) : x.toUInt8.toUInt16 = x &&& 0xFF := by
  apply UInt16.eq_of_toBitVec_eq
  simp only [UInt8.toBitVec_toUInt16, UInt16.toBitVec_toUInt8, UInt16.toBitVec_and, UInt16.toBitVec_ofNat]
  bv_bits16

theorem and_ff_of_le (x : UInt16) (hf : x ≤ 0xFF) : x &&& 0xFF = x := by
  rw [← toUInt8_toUInt16]
  apply UInt16.toNat_inj.1
  have : x.toNat ≤ 255 := by simpa [UInt16.le_iff_toNat_le] using hf
  simp
  omega

theorem toUInt16_toUInt8 (a : UInt8) : a.toUInt16.toUInt8 = a := by
  apply UInt8.toNat_inj.1
  simp

theorem lo_byte (w : UInt16) : (w &&& 0xFF).toUInt8 = w.toUInt8 := by
  apply UInt8.eq_of_toBitVec_eq
  simp only [UInt16.toBitVec_toUInt8, UInt16.toBitVec_and, UInt16.toBitVec_ofNat]
  bv_bits8

theorem putBe16_pair (a b : UInt8) : putBe16 ((a.toUInt16 <<< 8) ||| b.toUInt16) = [a, b] := by
  have := putBe16_be16 a b
  simp only [be16] at this
  rw [UInt16.or_comm]; exact this

theorem putBe16_hi (b : UInt8) : putBe16 (b.toUInt16 <<< 8) = [b, 0] := by
  have := putBe16_pair b 0
  simpa using this

/-! ### slices of concatenations -/

theorem slice_append_left (a b : List α) : slice (a ++ b) 0 a.length = .ok a := by
  simp [slice]

theorem sliceFrom_append (a b : List α) : sliceFrom (a ++ b) a.length = .ok b := by
  simp [sliceFrom]

/-! ### header -/

/-- the 32 bytes `Header.Marshal` produces, written out -/
def headerBytes (h : Header) : Bytes :=
  [h.protocol.b0, h.protocol.b1, h.protocol.b2, h.protocol.b3, h.command,
   h.status.toUInt8, (h.status >>> 8).toUInt8, (h.status >>> 16).toUInt8, (h.status >>> 24).toUInt8,
   h.flags.toUInt8, h.flags2.toUInt8, (h.flags2 >>> 8).toUInt8, h.pidHigh.toUInt8, (h.pidHigh >>> 8).toUInt8,
   h.sec.bytes.b0, h.sec.bytes.b1, h.sec.bytes.b2, h.sec.bytes.b3,
   h.sec.bytes.b4, h.sec.bytes.b5, h.sec.bytes.b6, h.sec.bytes.b7,
   h.reserved.toUInt8, (h.reserved >>> 8).toUInt8, h.tid.toUInt8, (h.tid >>> 8).toUInt8,
   h.pidLow.toUInt8, (h.pidLow >>> 8).toUInt8, h.uid.toUInt8, (h.uid >>> 8).toUInt8,
   h.mid.toUInt8, (h.mid >>> 8).toUInt8]

theorem headerBytes_length (h : Header) : (headerBytes h).length = 32 := rfl

theorem sec_marshal (s : SecFeat) : s.marshal = .ok s.bytes.toList := by
  cases s <;> simp [SecFeat.marshal, SecFeat.bytes, Arr8.toList, putLe32, putLe16]

theorem marshalHeader_eq (h : Header) : marshalHeader h = .ok (headerBytes h) := by
  simp [marshalHeader, sec_marshal, headerBytes, Arr4.toList, Arr8.toList, putLe32, putLe16]

theorem unmarshal_headerBytes (h : Header) :
    unmarshalHeader (headerBytes h) = .ok ({ h with flags := h.flags &&& 0xFF, sec := .reserved h.sec.bytes }, 32) := by
  have e : h.flags % 256 = h.flags &&& 255 := by rw [← toUInt8_toUInt16]; simp
  simp [unmarshalHeader, headerBytes, rdArr4, rdLe16, rdLe32, rdArr8, slice, index, SecFeat.unmarshalAs,
    le16_bytes, le32_bytes, e]

theorem secNat_eq (s : SecFeat) : Spec.secNat s = leNat s.bytes.toList := by
  cases s with
  | reserved a => rfl
  | signature a => rfl
  | connectionless key cid seq =>
    have := key.toNat_lt; have := cid.toNat_lt; have := seq.toNat_lt
    simp [Spec.secNat, SecFeat.bytes, Arr8.toList, leNat, Nat.shiftRight_eq_div_pow]
    omega

theorem encodeHeader_eq (h : Header) : Spec.encodeHeader h = headerBytes h := by
  simp only [Spec.encodeHeader, Spec.headerTable, List.flatMap_cons, List.flatMap_nil, Spec.fieldNat,
    natLe2, natLe4, natLe1, natLe1_16, secNat_eq, Arr4.toList, Arr8.toList, natLe4_leNat, natLe8_leNat]
  simp [headerBytes, putLe16, putLe32]

theorem headerBytes_slot (h : Header) : ∀ s ∈ Spec.headerTable,
    slice (headerBytes h) s.offset (s.offset + s.width) = .ok (natLe s.width (Spec.fieldNat h s.field)) := by
  intro s hs
  simp only [Spec.headerTable, List.mem_cons, List.not_mem_nil, or_false] at hs
  rcases hs with rfl | rfl | rfl | rfl | rfl | rfl | rfl | rfl | rfl | rfl | rfl | rfl <;>
    simp [slice, headerBytes, Spec.fieldNat, natLe2, natLe4, natLe1, natLe1_16, secNat_eq, natLe4_leNat, natLe8_leNat,
      Arr4.toList, Arr8.toList, putLe16, putLe32]

/-! ### parameters -/

theorem wordBytes_wordsOfStream (s : Bytes) : Spec.wordBytes (wordsOfStream s) = Spec.padEven s := by
  induction s using wordsOfStream.induct with
  | case1 => simp [wordsOfStream, Spec.wordBytes, Spec.padEven]
  | case2 b => simp [wordsOfStream, Spec.wordBytes, Spec.padEven, putBe16_hi]
  | case3 a b rest ih =>
    simp only [Spec.wordBytes] at ih
    simp only [wordsOfStream, Spec.wordBytes, List.flatMap_cons, putBe16_pair, ih, Spec.padEven, List.length_cons]
    split <;> split <;> first | rfl | omega

theorem wordsOfStream_length (s : Bytes) : (wordsOfStream s).length = (s.length + 1) / 2 := by
  induction s using wordsOfStream.induct with
  | case1 => rfl
  | case2 b => simp [wordsOfStream]
  | case3 a b rest ih => simp only [wordsOfStream, List.length_cons, ih]; omega

theorem bytesStream_eq (p : Params) : p.bytesStream = Spec.wordBytes p.words := by
  simp only [Params.bytesStream, Spec.wordBytes, lo_byte]
  rfl

theorem wordBytes_length (ws : List UInt16) : (Spec.wordBytes ws).length = 2 * ws.length := by
  induction ws with
  | nil => rfl
  | cons w ws ih => simp [Spec.wordBytes, putBe16] at *; omega

theorem wordBytes_append (a b : List UInt16) : Spec.wordBytes (a ++ b) = Spec.wordBytes a ++ Spec.wordBytes b := by
  simp [Spec.wordBytes]

theorem wordBytes_andx (a : AndX) : Spec.wordBytes a.words = Spec.andxBytes a := by
  simp [Spec.wordBytes, AndX.words, Spec.andxBytes, putBe16_pair]

theorem padEven_length (p : Bytes) : (Spec.padEven p).length = 2 * ((p.length + 1) / 2) := by
  unfold Spec.padEven
  split
  · simp; omega
  · omega

theorem addStream_marshal (p : Params) (s : Bytes) :
    (p.addStream s).marshal = .ok (UInt8.ofNat (p.words ++ wordsOfStream s).length ::
      (if UInt8.ofNat (p.words ++ wordsOfStream s).length > 0 then (p.words ++ wordsOfStream s).flatMap putBe16 else [])) := by
  simp [Params.addStream, Params.marshal]

theorem addStream_eq (p : Params) (s : Bytes) :
    p.addStream s = ⟨UInt8.ofNat (p.words ++ wordsOfStream s).length, p.words ++ wordsOfStream s⟩ := rfl

theorem foldl_addWord_words (ws : List UInt16) (p : Params) : (ws.foldl Params.addWord p).words = p.words ++ ws := by
  induction ws generalizing p with
  | nil => simp
  | cons w ws ih => simp [List.foldl_cons, ih, Params.addWord]

/-! ### the command template -/

theorem paramsAfterAndX_words (c : Cmd) (p0 : Params) : (c.paramsAfterAndX p0).words = p0.words ++ c.andxWords := by
  cases hx : c.isAndX <;> cases ha : c.andx <;>
    simp [Cmd.paramsAfterAndX, Cmd.andxAfter, Cmd.andxWords, Cmd.effAndX, hx, ha, foldl_addWord_words]

theorem andxAfter_eq (c : Cmd) : c.andxAfter = if c.isAndX then some c.effAndX else c.andx := by
  cases hx : c.isAndX <;> cases ha : c.andx <;> simp [Cmd.andxAfter, Cmd.effAndX, hx, ha]

/-- one `Marshal` of a command whose blocks are empty: the new state and the bytes -/
theorem cmdMarshal_fresh (c : Cmd) :
    cmdMarshal { c with params := some Params.new, data := some DataBlk.new } =
      ({ c with andx := if c.isAndX then some c.effAndX else c.andx,
                params := some ⟨UInt8.ofNat c.words.length, c.words⟩,
                data := some ⟨UInt16.ofNat c.rawD.length, c.rawD⟩ }, .ok c.frame) := by
  have hw : ∀ pp dd, ((Cmd.paramsAfterAndX { c with params := pp, data := dd } Params.new).words
      ++ wordsOfStream c.rawP) = c.words := by
    intro pp dd
    rw [paramsAfterAndX_words]; simp [Cmd.words, Cmd.andxWords, Cmd.effAndX, Params.new]
  have he : ∀ pp dd, Cmd.effAndX { c with params := pp, data := dd } = c.effAndX := fun _ _ => rfl
  simp only [cmdMarshal, addStream_marshal]
  simp only [addStream_eq, hw, he, DataBlk.marshal, DataBlk.add, DataBlk.new, List.nil_append,
    andxAfter_eq, Cmd.frame, List.cons_append]

/-! ### decoding side -/

theorem rdBe16_at (pre : Bytes) (a b : UInt8) (post : Bytes) (i : Nat) (hi : pre.length = i * 2) :
    rdBe16 (pre ++ a :: b :: post) (i * 2) = .ok (be16 a b) := by
  unfold rdBe16 slice
  rw [if_pos (by simp; omega), ← hi, List.drop_left]
  simp

theorem readWords_spec (extra : Bytes) : ∀ (ws done : List UInt16),
    readWords (Spec.wordBytes (done ++ ws) ++ extra) done.length ws.length = .ok ws := by
  intro ws
  induction ws with
  | nil => intro done; rfl
  | cons w ws ih =>
    intro done
    have e : Spec.wordBytes (done ++ w :: ws) ++ extra
        = Spec.wordBytes done ++ (w >>> 8).toUInt8 :: w.toUInt8 :: (Spec.wordBytes ws ++ extra) := by
      simp [Spec.wordBytes, putBe16]
    have hr := rdBe16_at (Spec.wordBytes done) (w >>> 8).toUInt8 w.toUInt8 (Spec.wordBytes ws ++ extra) done.length
      (by rw [wordBytes_length]; omega)
    have := ih (done ++ [w])
    simp only [List.length_append, List.length_cons, List.length_nil, List.append_assoc,
      List.cons_append, List.nil_append] at this
    simp only [readWords, List.length_cons]
    rw [e] at *
    rw [hr, this, be16_bytes]

theorem rdBe16_ok (d : Bytes) (lo : Nat) (h : lo + 2 ≤ d.length) : ∃ w, rdBe16 d lo = .ok w := by
  unfold rdBe16 slice
  rw [if_pos (by omega)]
  have : ((d.drop lo).take (lo + 2 - lo)).length = 2 := by simp; omega
  match hd : (d.drop lo).take (lo + 2 - lo), this with
  | [a, b], _ => exact ⟨_, rfl⟩

theorem readWords_ok (d : Bytes) : ∀ (n i : Nat), i * 2 + n * 2 ≤ d.length →
    ∃ ws, readWords d i n = .ok ws ∧ ws.length = n := by
  intro n
  induction n with
  | zero => intro i _; exact ⟨[], rfl, rfl⟩
  | succ n ih =>
    intro i h
    obtain ⟨w, hw⟩ := rdBe16_ok d (i * 2) (by omega)
    obtain ⟨ws, hws, hl⟩ := ih (i + 1) (by omega)
    exact ⟨w :: ws, by simp [readWords, hw, hws], by simp [hl]⟩

theorem ofNat8_toNat (n : Nat) (h : n ≤ 255) : (UInt8.ofNat n).toNat = n := by
  simp [UInt8.toNat_ofNat']; omega
theorem ofNat16_toNat (n : Nat) (h : n ≤ 65535) : (UInt16.ofNat n).toNat = n := by
  simp [UInt16.toNat_ofNat']; omega

theorem u8_pos_iff (x : UInt8) : x > 0 ↔ x.toNat ≠ 0 := by
  rw [gt_iff_lt, UInt8.lt_iff_toNat_lt]; simp; omega
theorem u16_pos_iff (x : UInt16) : x > 0 ↔ x.toNat ≠ 0 := by
  rw [gt_iff_lt, UInt16.lt_iff_toNat_lt]; simp; omega

theorem params_unmarshal_spec (ws : List UInt16) (extra : Bytes) (h : ws.length ≤ 255) :
    Params.unmarshal (UInt8.ofNat ws.length :: (Spec.wordBytes ws ++ extra)) =
      .ok (⟨UInt8.ofNat ws.length, ws⟩, 1 + 2 * ws.length) := by
  have hn := ofNat8_toNat ws.length h
  unfold Params.unmarshal
  by_cases h0 : ws.length = 0
  · have : ws = [] := List.eq_nil_of_length_eq_zero h0
    subst this
    simp
  · have hpos : UInt8.ofNat ws.length > 0 := (u8_pos_iff _).2 (by omega)
    have := readWords_spec extra ws []
    simp only [List.nil_append, List.length_nil] at this
    simp only [hpos, if_true, hn, this]
    rw [if_neg (by simp [wordBytes_length]; omega)]
    simp; omega

theorem params_unmarshal_total (data : Bytes) :
    Params.unmarshal data = .err ∨ ∃ p n, Params.unmarshal data = .ok (p, n) ∧ n ≤ data.length ∧
      n = 1 + 2 * p.words.length ∧ p.wordCount.toNat = p.words.length := by
  unfold Params.unmarshal
  match data with
  | [] => exact .inl rfl
  | wc :: rest =>
    by_cases hpos : wc > 0
    · simp only [hpos, if_true]
      by_cases hlen : rest.length < wc.toNat * 2
      · simp [hlen]
      · obtain ⟨ws, hws, hl⟩ := readWords_ok rest wc.toNat 0 (by omega)
        simp only [hlen, if_false, hws]
        exact .inr ⟨_, _, rfl, by simp; omega, by simp [hl]; omega, by simp [hl]⟩
    · simp only [hpos, if_false]
      have : wc.toNat = 0 := Classical.byContradiction fun hne => hpos ((u8_pos_iff wc).2 hne)
      exact .inr ⟨_, _, rfl, by simp, by simp, by simp [this]⟩

theorem rdLe16_putLe16 (x : UInt16) (rest : Bytes) : rdLe16 (putLe16 x ++ rest) 0 = .ok x := by
  simp [rdLe16, slice, putLe16, le16_bytes]

theorem data_unmarshal_spec (bs extra : Bytes) (h : bs.length ≤ 65535) :
    DataBlk.unmarshal (putLe16 (UInt16.ofNat bs.length) ++ (bs ++ extra)) =
      .ok (⟨UInt16.ofNat bs.length, bs⟩, 2 + bs.length) := by
  have hn := ofNat16_toNat bs.length h
  have hr := rdLe16_putLe16 (UInt16.ofNat bs.length) (bs ++ extra)
  unfold DataBlk.unmarshal
  rw [if_neg (by simp [putLe16]), hr]
  have hs : sliceFrom (putLe16 (UInt16.ofNat bs.length) ++ (bs ++ extra)) 2 = .ok (bs ++ extra) :=
    sliceFrom_append (putLe16 (UInt16.ofNat bs.length)) (bs ++ extra)
  simp only [hs]
  by_cases h0 : bs.length = 0
  · have : bs = [] := List.eq_nil_of_length_eq_zero h0
    subst this
    simp
  · have hpos : UInt16.ofNat bs.length > 0 := (u16_pos_iff _).2 (by omega)
    simp only [hpos, if_true, hn]
    rw [if_neg (by simp)]
    have := slice_append_left bs extra
    simp only [this]

theorem data_unmarshal_total (data : Bytes) :
    DataBlk.unmarshal data = .err ∨ ∃ d n, DataBlk.unmarshal data = .ok (d, n) := by
  unfold DataBlk.unmarshal
  by_cases hl : data.length < 2
  · simp [hl]
  · simp only [hl, if_false]
    match data, hl with
    | [], h => exact absurd (by simp) h
    | [_], h => exact absurd (by simp) h
    | a :: b :: rest, _ =>
      have h1 : rdLe16 (a :: b :: rest) 0 = .ok (le16 a b) := by simp [rdLe16, slice]
      have h2 : sliceFrom (a :: b :: rest) 2 = .ok rest := by simp [sliceFrom]
      simp only [h1, h2]
      by_cases hpos : le16 a b > 0
      · simp only [hpos, if_true]
        by_cases hlen : rest.length < (le16 a b).toNat
        · simp [hlen]
        · have h3 : slice rest 0 (le16 a b).toNat = .ok (rest.take (le16 a b).toNat) := by
            simp [slice]; omega
          simp only [hlen, if_false, h3]
          exact .inr ⟨_, _, rfl⟩
      · simp only [hpos, if_false]
        exact .inr ⟨_, _, rfl⟩

/-! ### every 32-byte prefix is a header -/

theorem cons_of_le (d : List α) (n : Nat) (h : n + 1 ≤ d.length) : ∃ a r, d = a :: r ∧ n ≤ r.length := by
  cases d with
  | nil => simp at h
  | cons a r => exact ⟨a, r, rfl, by simpa using h⟩

theorem split32 (d : Bytes) (h : 32 ≤ d.length) :
    ∃ a0 a1 a2 a3 a4 a5 a6 a7 a8 a9 a10 a11 a12 a13 a14 a15 a16 a17 a18 a19 a20 a21 a22 a23 a24 a25 a26 a27 a28 a29 a30 a31 rest,
      d = a0 :: a1 :: a2 :: a3 :: a4 :: a5 :: a6 :: a7 :: a8 :: a9 :: a10 :: a11 :: a12 :: a13 :: a14 :: a15 :: a16 :: a17 :: a18 :: a19 :: a20 :: a21 :: a22 :: a23 :: a24 :: a25 :: a26 :: a27 :: a28 :: a29 :: a30 :: a31 :: rest := by
  obtain ⟨a0, r0, rfl, g0⟩ := cons_of_le d 31 h
  obtain ⟨a1, r1, rfl, g1⟩ := cons_of_le r0 30 g0
  obtain ⟨a2, r2, rfl, g2⟩ := cons_of_le r1 29 g1
  obtain ⟨a3, r3, rfl, g3⟩ := cons_of_le r2 28 g2
  obtain ⟨a4, r4, rfl, g4⟩ := cons_of_le r3 27 g3
  obtain ⟨a5, r5, rfl, g5⟩ := cons_of_le r4 26 g4
  obtain ⟨a6, r6, rfl, g6⟩ := cons_of_le r5 25 g5
  obtain ⟨a7, r7, rfl, g7⟩ := cons_of_le r6 24 g6
  obtain ⟨a8, r8, rfl, g8⟩ := cons_of_le r7 23 g7
  obtain ⟨a9, r9, rfl, g9⟩ := cons_of_le r8 22 g8
  obtain ⟨a10, r10, rfl, g10⟩ := cons_of_le r9 21 g9
  obtain ⟨a11, r11, rfl, g11⟩ := cons_of_le r10 20 g10
  obtain ⟨a12, r12, rfl, g12⟩ := cons_of_le r11 19 g11
  obtain ⟨a13, r13, rfl, g13⟩ := cons_of_le r12 18 g12
  obtain ⟨a14, r14, rfl, g14⟩ := cons_of_le r13 17 g13
  obtain ⟨a15, r15, rfl, g15⟩ := cons_of_le r14 16 g14
  obtain ⟨a16, r16, rfl, g16⟩ := cons_of_le r15 15 g15
  obtain ⟨a17, r17, rfl, g17⟩ := cons_of_le r16 14 g16
  obtain ⟨a18, r18, rfl, g18⟩ := cons_of_le r17 13 g17
  obtain ⟨a19, r19, rfl, g19⟩ := cons_of_le r18 12 g18
  obtain ⟨a20, r20, rfl, g20⟩ := cons_of_le r19 11 g19
  obtain ⟨a21, r21, rfl, g21⟩ := cons_of_le r20 10 g20
  obtain ⟨a22, r22, rfl, g22⟩ := cons_of_le r21 9 g21
  obtain ⟨a23, r23, rfl, g23⟩ := cons_of_le r22 8 g22
  obtain ⟨a24, r24, rfl, g24⟩ := cons_of_le r23 7 g23
  obtain ⟨a25, r25, rfl, g25⟩ := cons_of_le r24 6 g24
  obtain ⟨a26, r26, rfl, g26⟩ := cons_of_le r25 5 g25
  obtain ⟨a27, r27, rfl, g27⟩ := cons_of_le r26 4 g26
  obtain ⟨a28, r28, rfl, g28⟩ := cons_of_le r27 3 g27
  obtain ⟨a29, r29, rfl, g29⟩ := cons_of_le r28 2 g28
  obtain ⟨a30, r30, rfl, g30⟩ := cons_of_le r29 1 g29
  obtain ⟨a31, r31, rfl, g31⟩ := cons_of_le r30 0 g30
  exact ⟨a0, a1, a2, a3, a4, a5, a6, a7, a8, a9, a10, a11, a12, a13, a14, a15, a16, a17, a18, a19, a20, a21, a22, a23, a24, a25, a26, a27, a28, a29, a30, a31, r31, rfl⟩

theorem unmarshalHeader_ok (d : Bytes) (h : 32 ≤ d.length) :
    ∃ hd, unmarshalHeader d = .ok (hd, 32) ∧ marshalHeader hd = .ok (d.take 32) := by
  obtain ⟨a0, a1, a2, a3, a4, a5, a6, a7, a8, a9, a10, a11, a12, a13, a14, a15, a16, a17, a18, a19, a20, a21, a22, a23, a24, a25, a26, a27, a28, a29, a30, a31, rest, rfl⟩ := split32 d h
  refine ⟨{ protocol := ⟨a0, a1, a2, a3⟩, command := a4, status := le32 a5 a6 a7 a8, flags := UInt8.toUInt16 a9, flags2 := le16 a10 a11, pidHigh := le16 a12 a13, sec := .reserved ⟨a14, a15, a16, a17, a18, a19, a20, a21⟩, reserved := le16 a22 a23, tid := le16 a24 a25, pidLow := le16 a26 a27, uid := le16 a28 a29, mid := le16 a30 a31 }, ?_, ?_⟩
  · simp [unmarshalHeader, rdArr4, rdLe16, rdLe32, rdArr8, slice, index, SecFeat.unmarshalAs]
  · rw [marshalHeader_eq]
    have e16 := putLe16_le16
    have e32 := putLe32_le32
    simp only [putLe16, putLe32, List.cons.injEq, and_true] at e16 e32
    simp [headerBytes, SecFeat.bytes, e16, e32]

end Manticore.C03
