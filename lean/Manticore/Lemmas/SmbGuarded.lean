/-
  Soundness of the static predicate `Guarded` (Model/SmbCmd.lean) for the semantics `runU`
  (Model/SmbIR.lean): a program accepted by `guardedStmts` never reaches `Step.panic`, whatever
  the two byte streams, their spare capacity and the initial field values are — provided the nested
  decoders are honest (`HonestCodecs`: they do not panic, report no more bytes than they were given,
  and consume at least one byte of a non-empty window).

  The proof gives `Known` (what the analysis knows about `offset`) a meaning at a run-time state
  (`KnownOK`) and shows that every statement the analysis accepts preserves it.  Core Lean only.
-/
import Manticore.Model.SmbCmd
namespace Manticore.SmbIR
open Manticore

/-- what the nested decoders must satisfy (proved for the concrete table in Props/C07.lean) -/
structure HonestCodecs (C : Codecs) : Prop where
  /-- no decoder panics -/
  dec_no_panic : ∀ typ b, C.dec typ b ≠ .panic
  /-- a decoder consumes no more than it was given -/
  dec_bounded : ∀ typ b v k, C.dec typ b = .ok (v, k) → k ≤ b.length
  /-- a decoder that succeeds on a non-empty window consumes something (otherwise the loop
      `for offset+size <= len(blk)` of `whileFitsSub` would never end) -/
  dec_progress : ∀ typ b v k, C.dec typ b = .ok (v, k) → b ≠ [] → 0 < k

/-! ## environments -/

private theorem find_map_set (env : Env) (f g : String) (v : Val) (h : g ≠ f) :
    ((env.map (fun p => if p.1 == f then (f, v) else p)).find? (·.1 == g)).map (·.2)
      = (env.find? (·.1 == g)).map (·.2) := by
  have hfg : (f == g) = false := by simp; exact fun h' => h h'.symm
  induction env with
  | nil => rfl
  | cons p rest ih =>
    simp only [List.map_cons, List.find?_cons]
    by_cases hp : p.1 = f
    · have hpg : (p.1 == g) = false := by rw [hp]; exact hfg
      simp only [hp, beq_self_eq_true, if_true, hfg]
      rw [hp] at hpg
      simpa [hpg] using ih
    · have hpf : (p.1 == f) = false := by simp [hp]
      simp only [hpf, Bool.false_eq_true, if_false]
      cases hpg : (p.1 == g)
      · simpa using ih
      · simp

theorem Env.get_set_ne (env : Env) (f g : String) (v : Val) (h : g ≠ f) :
    (env.set f v).get g = env.get g := by
  unfold Env.set Env.get
  split
  · exact find_map_set env f g v h
  · rw [List.find?_append]
    have : List.find? (fun x => x.1 == g) [(f, v)] = none := by
      simp; exact fun h' => h h'.symm
    rw [this, Option.or_none]

/-! ## expressions -/

/-- an expression sees the state only through `pad` and the fields it mentions -/
theorem evalExpr_congr (s s' : UState) (e : Expr) (hp : s'.pad = s.pad)
    (henv : ∀ g, e.mentions g = true → s'.env.get g = s.env.get g) :
    evalExpr s' e = evalExpr s e := by
  induction e with
  | lit n => rfl
  | fint f => simp only [evalExpr, henv f (by simp [Expr.mentions])]
  | flen f => simp only [evalExpr, henv f (by simp [Expr.mentions])]
  | fsub f i => simp only [evalExpr, henv f (by simp [Expr.mentions])]
  | pad => simp only [evalExpr, hp]
  | add a b iha ihb =>
    simp only [evalExpr]
    rw [iha (fun g hg => henv g (by simp [Expr.mentions, hg])),
        ihb (fun g hg => henv g (by simp [Expr.mentions, hg]))]
  | mul k e ih =>
    simp only [evalExpr]
    rw [ih (fun g hg => henv g (by simp [Expr.mentions, hg]))]

/-- assigning field `f` does not change an expression that does not mention `f` -/
theorem evalExpr_set (s s' : UState) (e : Expr) (f : String) (v : Val) (hp : s'.pad = s.pad)
    (he : s'.env = s.env.set f v) (hm : e.mentions f = false) : evalExpr s' e = evalExpr s e := by
  apply evalExpr_congr s s' e hp
  intro g hg
  rw [he]
  apply Env.get_set_ne
  intro hgf; rw [hgf, hm] at hg; cases hg

/-- the syntactic order is a numeric order -/
theorem exprLe_sound (s : UState) (need hav : Expr) (h : exprLe need hav = true) (n : Nat)
    (hn : evalExpr s hav = some n) : ∃ m, evalExpr s need = some m ∧ m ≤ n := by
  unfold exprLe at h
  split at h
  · rename_i a b
    simp only [evalExpr, Option.some.injEq] at hn
    exact ⟨a, rfl, by simp at h; omega⟩
  · have : need = hav := by simpa using h
    exact ⟨n, this ▸ hn, Nat.le_refl n⟩

/-! ## meaning of `Known` at a state -/

/-- what `k` claims about the state `s` -/
def KnownOK (k : Known) (s : UState) : Prop :=
  (∀ b e, k.get b = some e → ∃ n, evalExpr s e = some n ∧ s.offset + n ≤ (s.blk b).length) ∧
  (∀ b, k.le b = true → s.offset ≤ (s.blk b).length) ∧
  (∀ b, k.sub = some b → s.offset + s.bytesRead ≤ (s.blk b).length) ∧
  k.minP ≤ s.P.length

theorem KnownOK.nothing (s : UState) : KnownOK Known.none s := by
  refine ⟨?_, ?_, ?_, Nat.zero_le _⟩
  · intro b e h; cases b <;> cases h
  · intro b h; cases b <;> cases h
  · intro b h; cases h

/-- `Known.zero` holds whenever `offset = 0` -/
theorem KnownOK.zero (s : UState) (h : s.offset = 0) : KnownOK Known.zero s := by
  refine ⟨?_, ?_, ?_, Nat.zero_le _⟩
  · intro b e h; cases b <;> cases h
  · intro b _; rw [h]; exact Nat.zero_le _
  · intro b h; cases h

theorem KnownOK.covered {k : Known} {s : UState} (h : KnownOK k s) {b : Blk} {need : Expr}
    (hc : covered k b need = true) : ∃ m, evalExpr s need = some m ∧ s.offset + m ≤ (s.blk b).length := by
  unfold SmbIR.covered at hc
  split at hc
  · rename_i hv hget
    obtain ⟨n, hn, hle⟩ := h.1 b hv hget
    obtain ⟨m, hm, hmn⟩ := exprLe_sound s need hv hc n hn
    exact ⟨m, hm, by omega⟩
  · cases hc

theorem KnownOK.covered_lit {k : Known} {s : UState} (h : KnownOK k s) {b : Blk} {w : Nat}
    (hc : SmbIR.covered k b (.lit w) = true) : s.offset + w ≤ (s.blk b).length := by
  obtain ⟨m, hm, hle⟩ := h.covered hc
  simp only [evalExpr, Option.some.injEq] at hm
  omega

private theorem forget_get (k : Known) (f : String) (sb : Option Blk) (b : Blk) (e : Expr)
    (h : Known.get { (k.forget f) with sub := sb } b = some e) : k.get b = some e ∧ e.mentions f = false := by
  cases b <;> simp only [Known.get, Known.forget, Option.filter_eq_some_iff] at h <;>
    exact ⟨h.1, by simpa using h.2⟩

private theorem forget_le (k : Known) (f : String) (sb : Option Blk) (b : Blk)
    (h : Known.le { (k.forget f) with sub := sb } b = true) : k.le b = true := by
  cases b <;> simp only [Known.le, Known.forget, Bool.or_eq_true] at h ⊢ <;>
  · rcases h with h | h
    · exact h
    · right
      revert h
      first
        | cases k.P <;> simp [Option.filter] <;> done
        | cases k.D <;> simp [Option.filter]

/-- assigning field `f` (and possibly `bytesRead`): what did not mention `f` is still known -/
theorem KnownOK.forget_set {k : Known} {s : UState} (h : KnownOK k s) (f : String) (v : Val)
    (br : Nat) (sb : Option Blk) (hsb : ∀ b, sb = some b → s.offset + br ≤ (s.blk b).length) :
    KnownOK { (k.forget f) with sub := sb } { s with env := s.env.set f v, bytesRead := br } := by
  refine ⟨?_, ?_, ?_, h.2.2.2⟩
  · intro b e hg
    obtain ⟨hk, hm⟩ := forget_get k f sb b e hg
    obtain ⟨n, hn, hle⟩ := h.1 b e hk
    refine ⟨n, ?_, ?_⟩
    · exact (evalExpr_set s { s with env := s.env.set f v, bytesRead := br } e f v rfl rfl hm).trans hn
    · cases b <;> exact hle
  · intro b hb
    have := h.2.1 b (forget_le k f sb b hb)
    cases b <;> exact this
  · intro b hb
    have := hsb b hb
    cases b <;> exact this

/-- weakening: dropping everything but `offset ≤ len` -/
theorem KnownOK.le_only {k : Known} {s s' : UState} (h : KnownOK k s)
    (ho : s'.offset = s.offset) (hP : s'.P = s.P) (hD : s'.D = s.D) :
    KnownOK { leP := k.le .P, leD := k.le .D } s' := by
  refine ⟨?_, ?_, ?_, Nat.zero_le _⟩
  · intro b e hg; cases b <;> cases hg
  · intro b hb
    have : k.le b = true := by cases b <;> simpa [Known.le] using hb
    have := h.2.1 b this
    cases b <;> simp only [UState.blk, ho, hP, hD] at this ⊢ <;> exact this
  · intro b hb; cases hb

/-! ## slices and loops -/

/-- a slice inside the length succeeds (capacity only adds room) and has the requested size -/
theorem sliceC_ok (b ext : Bytes) (lo hi : Nat) (h1 : lo ≤ hi) (h2 : hi ≤ b.length) :
    ∃ w, sliceC b ext lo hi = .ok w ∧ w.length = hi - lo := by
  refine ⟨((b ++ ext).drop lo).take (hi - lo), ?_, ?_⟩
  · unfold sliceC; rw [if_pos ⟨h1, by omega⟩]
  · simp only [List.length_take, List.length_drop, List.length_append]; omega

theorem sliceFrom_ok (b : Bytes) (lo : Nat) (h : lo ≤ b.length) :
    sliceFrom b lo = .ok (b.drop lo) := by
  unfold sliceFrom; rw [if_pos h]

theorem index_ok (b : Bytes) (i : Nat) (h : i < b.length) : ∃ x, index b i = .ok x := by
  unfold index
  rw [List.getElem?_eq_getElem h]
  exact ⟨_, rfl⟩

/-- the counted integer loop stays inside a block that has room for `count` integers -/
theorem readInts_no_panic (blk ext : Bytes) (w : Nat) (e : End) :
    ∀ (count off : Nat) (acc : List Nat), off + w * count ≤ blk.length →
      readInts blk ext w e count off acc ≠ .panic := by
  intro count
  induction count with
  | zero => intro off acc _; simp [readInts]
  | succ n ih =>
    intro off acc h
    have h' : off + w + w * n ≤ blk.length := by rw [Nat.mul_succ] at h; omega
    obtain ⟨bs, hbs, _⟩ := sliceC_ok blk ext off (off + w) (by omega) (by omega)
    simp only [readInts, hbs]
    exact ih (off + w) _ h'

/-- the guarded counted loop of nested values never panics -/
theorem readSubsCounted_no_panic (C : Codecs) (hC : HonestCodecs C) (typ : String) (blk ext : Bytes)
    (size : Nat) : ∀ (count off : Nat) (acc : List Tup),
      readSubsCounted C typ blk ext size count off acc ≠ .panic := by
  intro count
  induction count with
  | zero => intro off acc; simp [readSubsCounted]
  | succ n ih =>
    intro off acc
    simp only [readSubsCounted]
    split
    · simp
    · rename_i hlt
      obtain ⟨w, hw, _⟩ := sliceC_ok blk ext off (off + size) (by omega) (by omega)
      simp only [hw]
      cases hd : C.dec typ w with
      | ok r => obtain ⟨v, k⟩ := r; exact ih _ _
      | err => simp
      | panic => exact absurd hd (hC.dec_no_panic typ w)

/-- the `for offset+size <= len(blk)` loop ends before the fuel does: every round advances -/
theorem readSubsWhile_no_panic (C : Codecs) (hC : HonestCodecs C) (typ : String) (blk ext : Bytes)
    (size : Nat) (hsize : 0 < size) : ∀ (fuel off : Nat) (acc : List Tup), blk.length + 1 ≤ fuel + off →
      readSubsWhile C typ blk ext size fuel off acc ≠ .panic := by
  intro fuel
  induction fuel with
  | zero =>
    intro off acc h
    simp only [readSubsWhile]
    rw [if_neg (by omega)]; simp
  | succ n ih =>
    intro off acc h
    simp only [readSubsWhile]
    split
    · rename_i hfit
      obtain ⟨w, hw, hlen⟩ := sliceC_ok blk ext off (off + size) (by omega) hfit
      simp only [hw]
      cases hd : C.dec typ w with
      | ok r =>
        obtain ⟨v, k⟩ := r
        have hk : 0 < k := hC.dec_progress typ w v k hd (by
          intro hnil; rw [hnil] at hlen; simp at hlen; omega)
        exact ih _ _ (by omega)
      | err => simp
      | panic => exact absurd hd (hC.dec_no_panic typ w)
    · simp

/-! ## one statement, a list of statements -/

/-- the outcome of a statement is acceptable: no panic, and `k'` holds if execution goes on -/
def StepOK (k' : Known) : Step UState → Prop
  | .next s' => KnownOK k' s'
  | .panic => False
  | _ => True

theorem StepOK.weaken_none {k : Known} {r : Step UState} (h : StepOK k r) : StepOK Known.none r := by
  cases r <;> simp only [StepOK] at *
  exact KnownOK.nothing _

/-- nothing assigned (an unchecked failing nested decoder): forgetting is a weakening -/
theorem KnownOK.forget_weaken {k : Known} {s : UState} (h : KnownOK k s) (f : String) :
    KnownOK { (k.forget f) with sub := none } s := by
  refine ⟨?_, ?_, ?_, h.2.2.2⟩
  · intro b e hg
    exact h.1 b e (forget_get k f none b e hg).1
  · intro b hb
    exact h.2.1 b (forget_le k f none b hb)
  · intro b hb; cases hb

private theorem known_empty_get (lp ld : Bool) (b : Blk) (e : Expr)
    (h : Known.get { leP := lp, leD := ld } b = some e) : False := by
  cases b <;> cases h

mutual
theorem guardedStmt_sound (C : Codecs) (hC : HonestCodecs C) :
    ∀ (st : UStmt) (k k' : Known) (s : UState), guardedStmt k st = some k' → KnownOK k s →
      StepOK k' (runUStmt C s st)
  | .retIfEmpty p d, k, k', s, hg, hk => by
    simp only [guardedStmt, Option.some.injEq] at hg; subst hg
    simp only [runUStmt]
    split
    · trivial
    · exact hk
  | .resetOffset, k, k', s, hg, hk => by
    simp only [guardedStmt, Option.some.injEq] at hg; subst hg
    simp only [runUStmt, StepOK]
    exact KnownOK.zero _ rfl
  | .guard b e, k, k', s, hg, hk => by
    simp only [guardedStmt, Option.some.injEq] at hg; subst hg
    simp only [runUStmt]
    cases he : evalExpr s e with
    | none => trivial
    | some n =>
      simp only []
      split
      · trivial
      · rename_i hlt
        simp only [StepOK]
        refine ⟨?_, ?_, ?_, by cases b <;> exact hk.2.2.2⟩
        · intro b' e' hg'
          by_cases hb : b' = b
          · subst hb
            have : e' = e := by cases b' <;> simpa [Known.setGuard, Known.get] using hg'.symm
            subst this
            exact ⟨n, he, by omega⟩
          · have : k.get b' = some e' := by
              cases b <;> cases b' <;> first | exact absurd rfl hb | simpa [Known.setGuard, Known.get] using hg'
            exact hk.1 b' e' this
        · intro b' hb'
          by_cases hb : b' = b
          · subst hb; omega
          · have : k.le b' = true := by
              cases b <;> cases b' <;> first | exact absurd rfl hb | simpa [Known.setGuard, Known.le] using hb'
            exact hk.2.1 b' this
        · intro b' hb'
          cases b <;> cases hb'
  | .readInt b w e f, k, k', s, hg, hk => by
    simp only [guardedStmt] at hg
    split at hg
    · rename_i hc
      cases hg
      have hle := hk.covered_lit hc
      obtain ⟨bs, hbs, _⟩ := sliceC_ok (s.blk b) (s.ext b) s.offset (s.offset + w) (by omega) hle
      simp only [runUStmt, hbs, liftO, StepOK]
      exact hk.forget_set f _ s.bytesRead none (fun _ h => by cases h)
    · cases hg
  | .readQuad b w e f, k, k', s, hg, hk => by
    simp only [guardedStmt] at hg
    split at hg
    · rename_i hc
      cases hg
      have hle := hk.covered_lit hc
      obtain ⟨bs, hbs, _⟩ := sliceC_ok (s.blk b) (s.ext b) s.offset (s.offset + w) (by omega) hle
      simp only [runUStmt, hbs, liftO, StepOK]
      exact hk.forget_set f _ s.bytesRead none (fun _ h => by cases h)
    · cases hg
  | .readU8 b f, k, k', s, hg, hk => by
    simp only [guardedStmt] at hg
    split at hg
    · rename_i hc
      cases hg
      have hle := hk.covered_lit hc
      obtain ⟨x, hx⟩ := index_ok (s.blk b) s.offset (by omega)
      simp only [runUStmt, hx, liftO, StepOK]
      exact hk.forget_set f _ s.bytesRead none (fun _ h => by cases h)
    · cases hg
  | .readBytes b f n, k, k', s, hg, hk => by
    simp only [guardedStmt] at hg
    split at hg
    · rename_i hc
      cases hg
      obtain ⟨m, hm, hle⟩ := hk.covered hc
      obtain ⟨bs, hbs, _⟩ := sliceC_ok (s.blk b) (s.ext b) s.offset (s.offset + m) (by omega) hle
      simp only [runUStmt, hm, hbs, liftO, StepOK]
      exact hk.forget_set f _ s.bytesRead none (fun _ h => by cases h)
    · cases hg
  | .readRest b f, k, k', s, hg, hk => by
    simp only [guardedStmt] at hg
    split at hg
    · rename_i hc
      cases hg
      have hle := hk.2.1 b hc
      simp only [runUStmt, sliceFrom_ok _ _ hle, liftO, StepOK]
      exact hk.forget_set f _ s.bytesRead none (fun _ h => by cases h)
    · cases hg
  | .readArr b f n, k, k', s, hg, hk => by
    simp only [guardedStmt] at hg
    split at hg
    · rename_i hc
      cases hg
      have hle := hk.covered_lit hc
      obtain ⟨bs, hbs, _⟩ := sliceC_ok (s.blk b) (s.ext b) s.offset (s.offset + n) (by omega) hle
      simp only [runUStmt, hbs, liftO, StepOK]
      exact hk.forget_set f _ s.bytesRead none (fun _ h => by cases h)
    · cases hg
  | .readSub b f typ win whole checked stores, k, k', s, hg, hk => by
    simp only [guardedStmt] at hg
    simp only [runUStmt]
    cases whole with
    | true =>
      simp only [if_true, Option.some.injEq] at hg; subst hg
      simp only [if_true]
      cases hd : C.dec typ (s.blk b) with
      | ok r =>
        obtain ⟨v, n⟩ := r
        simp only [StepOK]
        exact hk.forget_set f _ _ none (fun _ h => by cases h)
      | err =>
        simp only []
        split
        · trivial
        · split
          · simp only [StepOK]
            exact hk.forget_set f _ _ none (fun _ h => by cases h)
          · exact hk.forget_weaken f
      | panic => exact absurd hd (hC.dec_no_panic typ _)
    | false =>
      simp only [Bool.false_eq_true, if_false] at hg ⊢
      cases win with
      | some n =>
        simp only [] at hg ⊢
        split at hg
        · rename_i hc
          cases hg
          have hle := hk.covered_lit hc
          obtain ⟨w, hw, hwl⟩ := sliceC_ok (s.blk b) (s.ext b) s.offset (s.offset + n) (by omega) hle
          simp only [hw]
          cases hd : C.dec typ w with
          | ok r =>
            obtain ⟨v, kk⟩ := r
            have hb := hC.dec_bounded typ w v kk hd
            simp only [StepOK]
            apply hk.forget_set f
            intro b' hb'
            cases stores <;> cases checked <;> simp at hb'
            subst hb'
            simp only [if_true]; omega
          | err =>
            simp only []
            cases checked
            · simp only [Bool.and_false, Bool.false_eq_true, if_false]
              split
              · simp only [StepOK]
                exact hk.forget_set f _ _ none (fun _ h => by cases h)
              · simp only [StepOK]
                exact hk.forget_weaken f
            · trivial
          | panic => exact absurd hd (hC.dec_no_panic typ _)
        · cases hg
      | none =>
        simp only [] at hg ⊢
        split at hg
        · rename_i hc
          cases hg
          have hle := hk.2.1 b hc
          simp only [sliceFrom_ok _ _ hle]
          cases hd : C.dec typ ((s.blk b).drop s.offset) with
          | ok r =>
            obtain ⟨v, kk⟩ := r
            have hb := hC.dec_bounded typ _ v kk hd
            simp only [List.length_drop] at hb
            simp only [StepOK]
            apply hk.forget_set f
            intro b' hb'
            cases stores <;> cases checked <;> simp at hb'
            subst hb'
            simp only [if_true]; omega
          | err =>
            simp only []
            cases checked
            · simp only [Bool.and_false, Bool.false_eq_true, if_false]
              split
              · simp only [StepOK]
                exact hk.forget_set f _ _ none (fun _ h => by cases h)
              · simp only [StepOK]
                exact hk.forget_weaken f
            · trivial
          | panic => exact absurd hd (hC.dec_no_panic typ _)
        · cases hg
  | .advance e, k, k', s, hg, hk => by
    simp only [guardedStmt, Option.some.injEq] at hg; subst hg
    simp only [runUStmt]
    cases he : evalExpr s e with
    | none => trivial
    | some n =>
      simp only [StepOK]
      refine ⟨fun b e' h => (known_empty_get _ _ b e' h).elim, ?_, (fun b h => by cases h), Nat.zero_le _⟩
      intro b hb
      have hc : covered k b e = true := by cases b <;> simpa [Known.le] using hb
      obtain ⟨m, hm, hle⟩ := hk.covered hc
      rw [he] at hm; cases hm
      cases b <;> exact hle
  | .advanceRead, k, k', s, hg, hk => by
    simp only [guardedStmt] at hg
    simp only [runUStmt, StepOK]
    split at hg <;> cases hg
    · rename_i hsub
      refine ⟨fun b e' h => (known_empty_get _ _ b e' h).elim, ?_, (fun b h => by cases h), Nat.zero_le _⟩
      intro b hb
      cases b
      · exact hk.2.2.1 .P hsub
      · simp [Known.le] at hb
    · rename_i hsub
      refine ⟨fun b e' h => (known_empty_get _ _ b e' h).elim, ?_, (fun b h => by cases h), Nat.zero_le _⟩
      intro b hb
      cases b
      · simp [Known.le] at hb
      · exact hk.2.2.1 .D hsub
    · exact KnownOK.nothing _
  | .setPad e, k, k', s, hg, hk => by
    simp only [guardedStmt, Option.some.injEq] at hg; subst hg
    simp only [runUStmt]
    cases he : evalExpr s e with
    | none => trivial
    | some n => exact hk.le_only rfl rfl rfl
  | .padRoundUp, k, k', s, hg, hk => by
    simp only [guardedStmt, Option.some.injEq] at hg; subst hg
    simp only [runUStmt]
    exact hk.le_only rfl rfl rfl
  | .padIfPOdd, k, k', s, hg, hk => by
    simp only [guardedStmt, Option.some.injEq] at hg; subst hg
    simp only [runUStmt]
    exact hk.le_only rfl rfl rfl
  | .resliceD, k, k', s, hg, hk => by
    simp only [guardedStmt] at hg
    split at hg
    · rename_i hc
      cases hg
      have hle : s.offset ≤ s.D.length := hk.2.1 .D hc
      simp only [runUStmt, sliceFrom_ok _ _ hle, liftO, StepOK]
      exact KnownOK.nothing _
    · cases hg
  | .ifWordCount n body, k, k', s, hg, hk => by
    simp only [guardedStmt] at hg
    split at hg
    · rename_i k'' hbody
      cases hg
      simp only [runUStmt]
      split
      · exact (guardedStmts_sound C hC body k k'' s hbody hk).weaken_none
      · exact KnownOK.nothing s
    · cases hg
  | .clear f, k, k', s, hg, hk => by
    simp only [guardedStmt, Option.some.injEq] at hg; subst hg
    simp only [runUStmt, StepOK]
    exact hk.forget_set f _ s.bytesRead k.sub (fun b h => hk.2.2.1 b h)
  | .zeroInt f, k, k', s, hg, hk => by
    simp only [guardedStmt, Option.some.injEq] at hg; subst hg
    simp only [runUStmt, StepOK]
    exact hk.forget_set f _ s.bytesRead k.sub (fun b h => hk.2.2.1 b h)
  | .zeroInts f n, k, k', s, hg, hk => by
    simp only [guardedStmt, Option.some.injEq] at hg; subst hg
    simp only [runUStmt, StepOK]
    exact hk.forget_set f _ s.bytesRead k.sub (fun b h => hk.2.2.1 b h)
  | .makeInts f g, k, k', s, hg, hk => by
    simp only [guardedStmt, Option.some.injEq] at hg; subst hg
    simp only [runUStmt]
    split
    · exact hk.forget_set f _ s.bytesRead k.sub (fun b h => hk.2.2.1 b h)
    · trivial
  | .forCountInt b w e f g, k, k', s, hg, hk => by
    simp only [guardedStmt] at hg
    split at hg
    · rename_i hc
      cases hg
      obtain ⟨m, hm, hle⟩ := hk.covered hc
      simp only [runUStmt]
      split
      · rename_i x hget
        simp only [evalExpr, hget] at hm
        cases hm
        have := readInts_no_panic (s.blk b) (s.ext b) w e x s.offset [] hle
        split
        · exact KnownOK.nothing _
        · trivial
        · rename_i hp; exact this hp
      · trivial
    · cases hg
  | .forRangeInt b w e f, k, k', s, hg, hk => by
    simp only [guardedStmt] at hg
    split at hg
    · rename_i hc
      cases hg
      obtain ⟨m, hm, hle⟩ := hk.covered hc
      simp only [runUStmt]
      split
      · rename_i old hget
        simp only [evalExpr, hget] at hm
        cases hm
        have := readInts_no_panic (s.blk b) (s.ext b) w e old.length s.offset [] hle
        split
        · exact KnownOK.nothing _
        · trivial
        · rename_i hp; exact this hp
      · trivial
    · cases hg
  | .forCountSub b f g typ size, k, k', s, hg, hk => by
    simp only [guardedStmt, Option.some.injEq] at hg; subst hg
    simp only [runUStmt]
    split
    · rename_i x old _ _
      have := readSubsCounted_no_panic C hC typ (s.blk b) (s.ext b) size x s.offset old
      split
      · exact KnownOK.nothing _
      · trivial
      · rename_i hp; exact this hp
    · trivial
  | .whileFitsSub b f typ size, k, k', s, hg, hk => by
    simp only [guardedStmt] at hg
    split at hg
    · rename_i hsize
      cases hg
      simp only [runUStmt]
      split
      · rename_i old _
        have := readSubsWhile_no_panic C hC typ (s.blk b) (s.ext b) size hsize
          ((s.blk b).length + 1) s.offset old (by omega)
        split
        · exact KnownOK.nothing _
        · trivial
        · rename_i hp; exact this hp
      · trivial
    · cases hg
  | .cstrUnicode f, k, k', s, hg, hk => by
    simp only [guardedStmt, Option.some.injEq] at hg; subst hg
    simp only [runUStmt, StepOK]
    refine ⟨fun b e' h => (known_empty_get _ _ b e' h).elim, ?_, (fun b h => by cases h), Nat.zero_le _⟩
    intro b hb
    cases b
    · simp [Known.le] at hb
    · show (cstrUnicode s.D).2 ≤ s.D.length
      unfold cstrUnicode; exact Nat.min_le_right _ _
  | .readArr3 b f, k, k', s, hg, hk => by
    simp only [guardedStmt] at hg
    split at hg
    · rename_i hc
      cases hg
      have hle := hk.covered_lit hc
      obtain ⟨x, hx, _⟩ := sliceC_ok (s.blk b) (s.ext b) s.offset (s.offset + 4) (by omega) (by omega)
      obtain ⟨y, hy, _⟩ := sliceC_ok (s.blk b) (s.ext b) (s.offset + 4) (s.offset + 8) (by omega) (by omega)
      obtain ⟨z, hz, _⟩ := sliceC_ok (s.blk b) (s.ext b) (s.offset + 8) (s.offset + 12) (by omega) (by omega)
      simp only [runUStmt, hx, hy, hz, StepOK]
      exact hk.forget_set f _ s.bytesRead none (fun _ h => by cases h)
    · cases hg
  | .readAndX, k, k', s, hg, hk => by
    simp only [guardedStmt, Option.some.injEq] at hg; subst hg
    simp only [runUStmt]
    split
    · rename_i a b c d rest hP
      simp only [StepOK]
      have h := hk.forget_set andxField (andxVal a b c d) s.bytesRead k.sub (fun b h => hk.2.2.1 b h)
      refine ⟨h.1, h.2.1, h.2.2.1, ?_⟩
      show max k.minP 4 ≤ s.P.length
      have := hk.2.2.2
      rw [hP] at this ⊢
      simp only [List.length_cons] at this ⊢
      omega
    · trivial
  | .resliceP n, k, k', s, hg, hk => by
    simp only [guardedStmt] at hg
    split at hg
    · rename_i hn
      cases hg
      have hle : n ≤ s.P.length := Nat.le_trans hn hk.2.2.2
      simp only [runUStmt, sliceFrom_ok _ _ hle, liftO, StepOK]
      refine ⟨?_, ?_, ?_, ?_⟩
      · intro b e hg
        cases b
        · cases hg
        · obtain ⟨m, hm, hle'⟩ := hk.1 .D e hg
          exact ⟨m, (evalExpr_congr s { s with P := List.drop n s.P } e rfl (fun _ _ => rfl)).trans hm, hle'⟩
      · intro b hb
        cases b
        · simp [Known.resliceP, Known.le] at hb
        · have : k.le .D = true := by simpa [Known.resliceP, Known.le] using hb
          exact hk.2.1 .D this
      · intro b hb
        cases b
        · exfalso; revert hb; simp only [Known.resliceP]; split <;> simp
        · have : k.sub = some .D := by
            revert hb; simp only [Known.resliceP]; split
            · rename_i h; intro _; simpa using h
            · simp
          exact hk.2.2.1 .D this
      · show k.minP - n ≤ (s.P.drop n).length
        have := hk.2.2.2
        simp only [List.length_drop]; omega
    · cases hg
theorem guardedStmts_sound (C : Codecs) (hC : HonestCodecs C) :
    ∀ (l : List UStmt) (k k' : Known) (s : UState), guardedStmts k l = some k' → KnownOK k s →
      StepOK k' (runUStmts C s l)
  | [], k, k', s, hg, hk => by
    simp only [guardedStmts, Option.some.injEq] at hg; subst hg
    simp only [runUStmts, StepOK]; exact hk
  | st :: rest, k, k', s, hg, hk => by
    simp only [guardedStmts] at hg
    split at hg
    · rename_i k1 h1
      have h := guardedStmt_sound C hC st k k1 s h1 hk
      simp only [runUStmts]
      cases hr : runUStmt C s st with
      | next s' => rw [hr] at h; exact guardedStmts_sound C hC rest k1 k' s' hg h
      | ret => trivial
      | err => trivial
      | panic => rw [hr] at h; exact h.elim
      | stuck => trivial
    · cases hg
end

/-! ## the whole program -/

/-- the driver loop of `runU` follows `runUStmts` -/
theorem runU_go_no_panic (C : Codecs) (hC : HonestCodecs C) :
    ∀ (l : List UStmt) (k k' : Known) (s : UState), guardedStmts k l = some k' → KnownOK k s →
      runU.go C s l ≠ .panic
  | [], k, k', s, hg, hk => by simp [runU.go]
  | st :: rest, k, k', s, hg, hk => by
    simp only [guardedStmts] at hg
    split at hg
    · rename_i k1 h1
      have h := guardedStmt_sound C hC st k k1 s h1 hk
      simp only [runU.go]
      cases hr : runUStmt C s st with
      | next s' => rw [hr] at h; exact runU_go_no_panic C hC rest k1 k' s' hg h
      | ret => simp
      | err => simp
      | panic => rw [hr] at h; exact h.elim
      | stuck => simp
    · cases hg

/-- **soundness of `Guarded`**: a guarded unmarshal program never panics -/
theorem runU_no_panic (C : Codecs) (hC : HonestCodecs C) (c : Cmd) (hg : Guarded c = true)
    (env0 : Env) (wc : Nat) (P D Pext Dext : Bytes) : runU C c env0 wc P D Pext Dext ≠ .panic := by
  unfold Guarded at hg
  obtain ⟨k', hk'⟩ := Option.isSome_iff_exists.mp hg
  unfold runU
  exact runU_go_no_panic C hC c.unmarshal Known.zero k' _ hk' (KnownOK.zero _ rfl)

end Manticore.SmbIR
