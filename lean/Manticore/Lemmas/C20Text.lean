import Manticore.Model.C20
namespace Manticore.C20
open Manticore

theorem splitOn_no_sep (sep : UInt8) (x : Bytes) (h : ∀ c ∈ x, c ≠ sep) : splitOn sep x = [x] := by
  induction x with
  | nil => rfl
  | cons c x ih =>
    have hc : c ≠ sep := h c (by simp)
    rw [splitOn, if_neg hc, ih (fun y hy => h y (by simp [hy]))]

theorem splitOn_append (sep : UInt8) (x y : Bytes) (h : ∀ c ∈ x, c ≠ sep) :
    splitOn sep (x ++ sep :: y) = x :: splitOn sep y := by
  induction x with
  | nil => simp [splitOn]
  | cons c x ih =>
    have hc : c ≠ sep := h c (by simp)
    rw [List.cons_append, splitOn, if_neg hc, ih (fun y hy => h y (by simp [hy]))]

theorem digitVal_digitChar (d : Nat) (h : d < 16) : digitVal (digitChar d) = some d := by
  have : d = 0 ∨ d = 1 ∨ d = 2 ∨ d = 3 ∨ d = 4 ∨ d = 5 ∨ d = 6 ∨ d = 7 ∨ d = 8 ∨ d = 9 ∨ d = 10 ∨ d = 11 ∨ d = 12 ∨ d = 13 ∨ d = 14 ∨ d = 15 := by omega
  rcases this with h | h | h | h | h | h | h | h | h | h | h | h | h | h | h | h <;> subst h <;> decide

theorem lsdAux_eq (b : Nat) (hb : 2 ≤ b) : ∀ (f1 f2 n : Nat), n ≤ f1 → n ≤ f2 → lsdAux b f1 n = lsdAux b f2 n := by
  intro f1
  induction f1 with
  | zero =>
    intro f2 n h1 h2
    have : n = 0 := by omega
    subst this
    cases f2 with
    | zero => rfl
    | succ f2 => simp [lsdAux]; omega
  | succ f1 ih =>
    intro f2 n h1 h2
    cases f2 with
    | zero =>
      have : n = 0 := by omega
      subst this
      simp [lsdAux]; omega
    | succ f2 =>
      simp only [lsdAux]
      split
      · rfl
      · have hlt : n / b < n := Nat.div_lt_self (by omega) (by omega)
        rw [ih f2 (n / b) (by omega) (by omega)]

/-- the defining equation of the digit list -/
theorem lsd_step (b : Nat) (hb : 2 ≤ b) (n : Nat) :
    lsd b n = if n < b then [n] else (n % b) :: lsd b (n / b) := by
  unfold lsd
  cases n with
  | zero => simp [lsdAux]; omega
  | succ k =>
    simp only [lsdAux]
    split
    · rfl
    · have hlt : (k + 1) / b < k + 1 := Nat.div_lt_self (by omega) (by omega)
      rw [lsdAux_eq b hb k ((k + 1) / b) ((k + 1) / b) (by omega) (by omega)]

theorem lsd_lt (b : Nat) (hb : 2 ≤ b) (n : Nat) : ∀ d ∈ lsd b n, d < b := by
  induction n using Nat.strongRecOn with
  | _ n ih =>
    rw [lsd_step b hb]
    split
    · intro d hd; simp at hd; omega
    · intro d hd
      simp only [List.mem_cons] at hd
      cases hd with
      | inl e => subst e; exact Nat.mod_lt _ (by omega)
      | inr m => exact ih (n / b) (Nat.div_lt_self (by omega) (by omega)) d m

def valueLsd (b : Nat) : List Nat → Nat
  | [] => 0
  | d :: t => d + b * valueLsd b t

theorem valueLsd_lsd (b : Nat) (hb : 2 ≤ b) (n : Nat) : valueLsd b (lsd b n) = n := by
  induction n using Nat.strongRecOn with
  | _ n ih =>
    rw [lsd_step b hb]
    split
    · simp [valueLsd]
    · have hlt : n / b < n := Nat.div_lt_self (by omega) (by omega)
      simp only [valueLsd, ih (n / b) hlt]
      exact Nat.mod_add_div n b

theorem lsd_ne_nil (b n : Nat) : lsd b n ≠ [] := by
  unfold lsd
  cases n with
  | zero => simp [lsdAux]
  | succ k => simp only [lsdAux]; split <;> simp

theorem accDigits_map (b : Nat) (hb : b ≤ 16) (ds : List Nat) (h : ∀ d ∈ ds, d < b) (acc : Nat) :
    accDigits b (ds.map digitChar) acc = some (ds.foldl (fun a d => a * b + d) acc) := by
  induction ds generalizing acc with
  | nil => rfl
  | cons d t ih =>
    have hd := h d (by simp)
    simp only [List.map_cons, accDigits, digitVal_digitChar d (by omega), hd, if_true, List.foldl_cons]
    exact ih (fun x hx => h x (by simp [hx])) _

theorem foldl_reverse_value (b : Nat) (l : List Nat) :
    l.reverse.foldl (fun a d => a * b + d) 0 = valueLsd b l := by
  induction l with
  | nil => rfl
  | cons d t ih =>
    simp only [List.reverse_cons, List.foldl_append, List.foldl_cons, List.foldl_nil, valueLsd, ih]
    rw [Nat.mul_comm, Nat.add_comm]

theorem parseUint_showNum (b bits n : Nat) (hb : 2 ≤ b) (hb' : b ≤ 16) (hn : n < 2 ^ bits) :
    parseUint b bits (showNum b n) = some n := by
  unfold parseUint showNum
  have hne : ((lsd b n).reverse.map digitChar).isEmpty = false := by
    have := lsd_ne_nil b n
    cases h : lsd b n with
    | nil => exact absurd h this
    | cons a t => simp
  rw [hne]
  simp only [Bool.false_eq_true, if_false]
  rw [accDigits_map b hb' _ (fun d hd => lsd_lt b hb n d (by simpa using hd)), foldl_reverse_value, valueLsd_lsd b hb]
  simp [hn]

theorem digitChar_props (d : Nat) (h : d < 16) :
    digitChar d ≠ 46 ∧ digitChar d ≠ 47 ∧ digitChar d ≠ 58 ∧ digitChar d ≠ 45 ∧ isAsciiSpace (digitChar d) = false
    ∧ digitChar d < 128 := by
  have : d = 0 ∨ d = 1 ∨ d = 2 ∨ d = 3 ∨ d = 4 ∨ d = 5 ∨ d = 6 ∨ d = 7 ∨ d = 8 ∨ d = 9 ∨ d = 10 ∨ d = 11 ∨ d = 12 ∨ d = 13 ∨ d = 14 ∨ d = 15 := by omega
  rcases this with h | h | h | h | h | h | h | h | h | h | h | h | h | h | h | h <;> subst h <;> decide

theorem showNum_mem (b n : Nat) (hb : 2 ≤ b) (c : UInt8) (hc : c ∈ showNum b n) :
    ∃ d, d < b ∧ c = digitChar d := by
  unfold showNum at hc
  simp only [List.mem_map, List.mem_reverse] at hc
  obtain ⟨d, hd, rfl⟩ := hc
  exact ⟨d, lsd_lt b hb n d hd, rfl⟩

theorem dec_no (n : Nat) (sep : UInt8) (hs : sep = 46 ∨ sep = 47 ∨ sep = 58 ∨ sep = 45) : ∀ c ∈ dec n, c ≠ sep := by
  intro c hc
  obtain ⟨d, hd, rfl⟩ := showNum_mem 10 n (by omega) c hc
  have := digitChar_props d (by omega)
  rcases hs with h | h | h | h <;> subst h <;> simp [this]

theorem hex_no (n : Nat) (sep : UInt8) (hs : sep = 46 ∨ sep = 47 ∨ sep = 58 ∨ sep = 45) : ∀ c ∈ hex n, c ≠ sep := by
  intro c hc
  obtain ⟨d, hd, rfl⟩ := showNum_mem 16 n (by omega) c hc
  have := digitChar_props d (by omega)
  rcases hs with h | h | h | h <;> subst h <;> simp [this]

end Manticore.C20
