/-
  C14 helper lemmas, blob level: byte-level round trips of the parts (RSA key material, GUID, ticks),
  one step of the entry loops, the loops on a freshly serialised credential, and the pure walks used
  by the tampering theorem.  Core Lean only.
-/
import Manticore.Model.C14
import Manticore.Lemmas.Endian
import Manticore.Lemmas.C14Text
namespace Manticore.C14
open Manticore

/-! ### parts -/

theorem putLe16_ofNat_toNat (n : Nat) (h : n ≤ 65535) :
    ∃ l0 l1, putLe16 (UInt16.ofNat n) = [l0, l1] ∧ (le16 l0 l1).toNat = n := by
  refine ⟨_, _, rfl, ?_⟩
  rw [le16_bytes]
  simp [UInt16.toNat_ofNat']; omega

theorem expFold (e : UInt32) :
    ([(e >>> 24).toUInt8, (e >>> 16).toUInt8, (e >>> 8).toUInt8, e.toUInt8].foldl
      (fun (acc : UInt32) x => (acc <<< 8) ||| x.toUInt32) 0) = e := by
  simp only [List.foldl_cons, List.foldl_nil]
  apply UInt32.eq_of_toBitVec_eq
  simp only [UInt32.toBitVec_or, UInt32.toBitVec_shiftLeft, UInt8.toBitVec_toUInt32,
    UInt32.toBitVec_toUInt8, UInt32.toBitVec_shiftRight]
  bv_bits32

theorem dropTake_at (pre mid post : Bytes) (lo n : Nat) (h1 : lo = pre.length) (h2 : n = mid.length) :
    ((pre ++ (mid ++ post)).drop lo).take n = mid := by
  subst h1 h2
  simp

def rsaHeader (m : RSAKeyMaterial) : Bytes :=
  magicRSA1 ++ putLe32 m.keySize ++ putLe32 4 ++ putLe32 (UInt32.ofNat m.modulus.length) ++
    putLe32 (UInt32.ofNat m.prime1.length) ++ putLe32 (UInt32.ofNat m.prime2.length) ++ putBe32 m.exponent

theorem rsa_rt (rk0 m : RSAKeyMaterial) (extra : Bytes)
    (hm : m.modulus.length < 2 ^ 32) (h1 : m.prime1.length < 2 ^ 32) (h2 : m.prime2.length < 2 ^ 32) :
    RSAKeyMaterial.fromBytes rk0 m.toBytes extra =
      .ok ({ keySize := m.keySize, exponent := m.exponent, modulus := m.modulus, prime1 := m.prime1,
             prime2 := m.prime2, rawBytes := m.toBytes }, false) := by
  have hlen : m.toBytes.length = 28 + m.modulus.length + m.prime1.length + m.prime2.length := by
    simp [RSAKeyMaterial.toBytes, magicRSA1, putLe32, putBe32]; omega
  have hfull : m.toBytes =
      82 :: 83 :: 65 :: 49 :: (putLe32 m.keySize ++ (putLe32 4 ++ (putLe32 (UInt32.ofNat m.modulus.length) ++
      (putLe32 (UInt32.ofNat m.prime1.length) ++ (putLe32 (UInt32.ofNat m.prime2.length) ++ (putBe32 m.exponent ++
      (m.modulus ++ (m.prime1 ++ m.prime2)))))))) := by
    simp [RSAKeyMaterial.toBytes, magicRSA1]
  have k1 : le32At m.toBytes 4 = m.keySize := by
    rw [hfull]; simp only [le32At, putLe32, List.drop_succ_cons, List.drop_zero, List.cons_append, le32_bytes]
  have k2 : le32At m.toBytes 8 = 4 := by
    rw [hfull]; simp only [le32At, putLe32, List.drop_succ_cons, List.drop_zero, List.cons_append, le32_bytes, List.nil_append]
  have k3 : le32At m.toBytes 12 = UInt32.ofNat m.modulus.length := by
    rw [hfull]; simp only [le32At, putLe32, List.drop_succ_cons, List.drop_zero, List.cons_append, le32_bytes, List.nil_append]
  have k4 : le32At m.toBytes 16 = UInt32.ofNat m.prime1.length := by
    rw [hfull]; simp only [le32At, putLe32, List.drop_succ_cons, List.drop_zero, List.cons_append, le32_bytes, List.nil_append]
  have k5 : le32At m.toBytes 20 = UInt32.ofNat m.prime2.length := by
    rw [hfull]; simp only [le32At, putLe32, List.drop_succ_cons, List.drop_zero, List.cons_append, le32_bytes, List.nil_append]
  unfold RSAKeyMaterial.fromBytes
  simp only [k1, k2, k3, k4, k5]
  have n4 : UInt32.toNat 4 = 4 := by decide
  have nm : (UInt32.ofNat m.modulus.length).toNat = m.modulus.length := by simp [UInt32.toNat_ofNat']; omega
  have n1 : (UInt32.ofNat m.prime1.length).toNat = m.prime1.length := by simp [UInt32.toNat_ofNat']; omega
  have n2 : (UInt32.ofNat m.prime2.length).toNat = m.prime2.length := by simp [UInt32.toNat_ofNat']; omega
  have hl : (rsaHeader m).length = 28 := by simp [rsaHeader, magicRSA1, putLe32, putBe32]
  have hf : m.toBytes = rsaHeader m ++ (m.modulus ++ (m.prime1 ++ m.prime2)) := by
    simp [RSAKeyMaterial.toBytes, rsaHeader]
  have s1 : (m.toBytes.drop 28).take m.modulus.length = m.modulus := by
    rw [hf]; exact dropTake_at _ _ _ _ _ hl.symm rfl
  have s2 : (m.toBytes.drop (28 + m.modulus.length)).take m.prime1.length = m.prime1 := by
    have : m.toBytes = (rsaHeader m ++ m.modulus) ++ (m.prime1 ++ m.prime2) := by
      rw [hf]; simp
    rw [this]; exact dropTake_at _ _ _ _ _ (by simp [hl]) rfl
  have s3 : (m.toBytes.drop (28 + m.modulus.length + m.prime1.length)).take m.prime2.length = m.prime2 := by
    have : m.toBytes = (rsaHeader m ++ m.modulus ++ m.prime1) ++ (m.prime2 ++ []) := by
      rw [hf]; simp
    rw [this]; exact dropTake_at _ _ _ _ _ (by simp [hl]; omega) rfl
  have he : List.take 4 (List.drop 24 m.toBytes) =
      [(m.exponent >>> 24).toUInt8, (m.exponent >>> 16).toUInt8, (m.exponent >>> 8).toUInt8, m.exponent.toUInt8] := by
    simp [RSAKeyMaterial.toBytes, magicRSA1, putLe32, putBe32]
  have hmag : List.take 4 m.toBytes = magicRSA1 := by
    rw [hfull]; rfl
  simp only [n4, nm, n1, n2, s1, s2, s3, he, expFold, hmag]
  rw [if_neg (by omega), if_neg (by simp), if_neg (by omega)]

theorem mask48 (e : UInt64) (h : e.toNat < 2 ^ 48) : e &&& 0xFFFFFFFFFFFF = e := by
  apply UInt64.toNat_inj.mp
  rw [UInt64.toNat_and]
  have : (0xFFFFFFFFFFFF : UInt64).toNat = 2 ^ 48 - 1 := by decide
  rw [this, Nat.and_two_pow_sub_one_eq_mod, Nat.mod_eq_of_lt h]

theorem e48_masked (e : UInt64) :
    (((e &&& 0xFFFFFFFFFFFF) >>> 40).toUInt8.toUInt64 <<< 40) ||| (((e &&& 0xFFFFFFFFFFFF) >>> 32).toUInt8.toUInt64 <<< 32) |||
    (((e &&& 0xFFFFFFFFFFFF) >>> 24).toUInt8.toUInt64 <<< 24) ||| (((e &&& 0xFFFFFFFFFFFF) >>> 16).toUInt8.toUInt64 <<< 16) |||
    (((e &&& 0xFFFFFFFFFFFF) >>> 8).toUInt8.toUInt64 <<< 8) ||| (e &&& 0xFFFFFFFFFFFF).toUInt8.toUInt64 = e &&& 0xFFFFFFFFFFFF := by
  apply UInt64.eq_of_toBitVec_eq
  simp only [UInt64.toBitVec_or, UInt64.toBitVec_shiftLeft, UInt8.toBitVec_toUInt64,
    UInt64.toBitVec_toUInt8, UInt64.toBitVec_shiftRight, UInt64.toBitVec_and]
  bv_bits64

theorem e48 (e : UInt64) (h : e.toNat < 2 ^ 48) :
    ((e >>> 40).toUInt8.toUInt64 <<< 40) ||| ((e >>> 32).toUInt8.toUInt64 <<< 32) |||
    ((e >>> 24).toUInt8.toUInt64 <<< 24) ||| ((e >>> 16).toUInt8.toUInt64 <<< 16) |||
    ((e >>> 8).toUInt8.toUInt64 <<< 8) ||| e.toUInt8.toUInt64 = e := by
  have := e48_masked e
  rw [mask48 e h] at this
  exact this

theorem guid_rt (g : Guid) (he : g.e.toNat < 2 ^ 48) (rest : Bytes) :
    Guid.fromRawBytes (g.toBytes ++ rest) = .ok g := by
  simp only [Guid.toBytes, putLe32, putLe16, putBe16, List.cons_append, List.nil_append, Guid.fromRawBytes,
    le32_bytes, le16_bytes, be16_bytes, e48 g.e he]

theorem readTicks_rt (t : UInt64) (rest : Bytes) : readTicks (putLe64 t ++ rest) = .ok t := by
  simp only [putLe64, List.cons_append, List.nil_append, readTicks, le64_bytes]

/-! ### one step of the loops -/

theorem writeEntry_cons (t : UInt8) (d : Bytes) (h : d.length ≤ 65535) :
    ∃ l0 l1, writeEntry t d = l0 :: l1 :: t :: d ∧ (le16 l0 l1).toNat = d.length := by
  refine ⟨(UInt16.ofNat d.length).toUInt8, ((UInt16.ofNat d.length) >>> 8).toUInt8, ?_, ?_⟩
  · simp [writeEntry, putLe16]
  · rw [le16_bytes]; simp [UInt16.toNat_ofNat']; omega

theorem parseLoop_entry (k : KeyCredential) (t : UInt8) (d rest : Bytes)
    (h : d.length ≤ 65535) (hne : 0 < d.length + rest.length) :
    parseLoop k (writeEntry t d ++ rest) =
      match applyEntry k t d rest with
      | .ok k' => parseLoop k' rest
      | .err => .err
      | .panic => .panic := by
  obtain ⟨l0, l1, hw, hn⟩ := writeEntry_cons t d h
  rw [hw]
  have hdr : d ++ rest ≠ [] := by
    intro e; have := congrArg List.length e; rw [List.length_append, List.length_nil] at this; omega
  obtain ⟨x, r', hx⟩ := List.exists_cons_of_ne_nil hdr
  have e1 : (l0 :: l1 :: t :: d) ++ rest = l0 :: l1 :: t :: x :: r' := by simp [hx]
  rw [e1, parseLoop]
  simp only [hn, ← hx]
  rw [if_neg (by simp)]
  simp only [List.take_left', List.drop_left']
  cases applyEntry k t d rest <;> rfl

theorem hashLoop_entry (t : UInt8) (d rest data : Bytes)
    (h : d.length ≤ 65535) (hne : 0 < d.length + rest.length) :
    hashLoop (writeEntry t d ++ rest) data = hashLoop rest (if t = 2 then data ++ rest else data) := by
  obtain ⟨l0, l1, hw, hn⟩ := writeEntry_cons t d h
  rw [hw]
  have hdr : d ++ rest ≠ [] := by
    intro e; have := congrArg List.length e; rw [List.length_append, List.length_nil] at this; omega
  obtain ⟨x, r', hx⟩ := List.exists_cons_of_ne_nil hdr
  have e1 : (l0 :: l1 :: t :: d) ++ rest = l0 :: l1 :: t :: x :: r' := by simp [hx]
  rw [e1, hashLoop]
  simp only [hn, ← hx]
  rw [if_neg (by simp)]
  simp


/-! ### the entries after KeyHash of a fresh credential -/

theorem parseLoop_entry' (k : KeyCredential) (t : UInt8) (d rest : Bytes)
    (h : d.length ≤ 65535) (hd : 0 < d.length) :
    parseLoop k (writeEntry t d ++ rest) =
      match applyEntry k t d rest with
      | .ok k' => parseLoop k' rest
      | .err => .err
      | .panic => .panic := parseLoop_entry k t d rest h (by omega)

theorem hashLoop_entry' (t : UInt8) (d rest data : Bytes) (h : d.length ≤ 65535) (hd : 0 < d.length) :
    hashLoop (writeEntry t d ++ rest) data = hashLoop rest (if t = 2 then data ++ rest else data) :=
  hashLoop_entry t d rest data h (by omega)

theorem hashLoop_nil (data : Bytes) : hashLoop [] data = .ok data := by
  unfold hashLoop; rfl

theorem parseLoop_nil (k : KeyCredential) : parseLoop k [] = .ok k := by
  unfold parseLoop; rfl

def rsaParsed (m : RSAKeyMaterial) : RSAKeyMaterial :=
  { keySize := m.keySize, exponent := m.exponent, modulus := m.modulus, prime1 := m.prime1,
    prime2 := m.prime2, rawBytes := m.toBytes }

/-- the credential `NewKeyCredential` assembles before it hashes -/
def fresh0 (v : UInt32) (ids : Bytes) (m : RSAKeyMaterial) (g : Guid) (t1 t2 : UInt64) : KeyCredential :=
  { version := v, identifier := ids, keyHash := [], material := m, usage := 1, legacyUsage := [],
    source := 0, cki := { version := 1, flags := 0 }, deviceId := g, lastLogon := t1, creation := t2,
    rawBytes := [] }

/-- the entries after KeyHash of such a credential -/
def freshTail (m : RSAKeyMaterial) (g : Guid) (t1 t2 : UInt64) : Bytes :=
  writeEntry 3 m.toBytes ++ (writeEntry 4 [1] ++ (writeEntry 5 [0] ++ (writeEntry 6 g.toBytes ++
    (writeEntry 7 [1, 0] ++ (writeEntry 8 (putLe64 t1) ++ (writeEntry 9 (putLe64 t2) ++ []))))))

def idPart (idb : Bytes) : Bytes := if idb = [] then [] else writeEntry 1 idb

theorem rsa_toBytes_length (m : RSAKeyMaterial) :
    m.toBytes.length = 28 + m.modulus.length + m.prime1.length + m.prime2.length := by
  simp [RSAKeyMaterial.toBytes, magicRSA1, putLe32, putBe32]; omega

theorem guid_toBytes_length (g : Guid) : g.toBytes.length = 16 := by
  simp [Guid.toBytes, putLe32, putLe16, putBe16]

theorem tailBytes_fresh (k : KeyCredential) (hl : k.legacyUsage = []) (hc : k.cki.toBytes = [1, 0])
    (hu : k.usage = 1) (hs : k.source = 0) :
    k.tailBytes = freshTail k.material k.deviceId k.lastLogon k.creation := by
  simp [KeyCredential.tailBytes, freshTail, hl, hc, hu, hs]

theorem hashLoop_freshTail (m : RSAKeyMaterial) (g : Guid) (t1 t2 : UInt64) (data : Bytes)
    (hm : 28 + m.modulus.length + m.prime1.length + m.prime2.length ≤ 65535) :
    hashLoop (freshTail m g t1 t2) data = .ok data := by
  have h3 : m.toBytes.length ≤ 65535 := by rw [rsa_toBytes_length]; exact hm
  have hg := guid_toBytes_length g
  unfold freshTail
  rw [hashLoop_entry' 3 _ _ _ h3 (by rw [rsa_toBytes_length]; omega), if_neg (by decide)]
  rw [hashLoop_entry' 4 _ _ _ (by simp) (by simp), if_neg (by decide)]
  rw [hashLoop_entry' 5 _ _ _ (by simp) (by simp), if_neg (by decide)]
  rw [hashLoop_entry' 6 _ _ _ (by omega) (by omega), if_neg (by decide)]
  rw [hashLoop_entry' 7 _ _ _ (by simp) (by simp), if_neg (by decide)]
  rw [hashLoop_entry' 8 _ _ _ (by simp [putLe64]) (by simp [putLe64]), if_neg (by decide)]
  rw [hashLoop_entry' 9 _ _ _ (by simp [putLe64]) (by simp [putLe64]), if_neg (by decide)]
  exact hashLoop_nil data

/-- what `FromBytes` makes of the entries after KeyHash -/
def parsedTail (k : KeyCredential) (m : RSAKeyMaterial) (g : Guid) (t1 t2 : UInt64) : KeyCredential :=
  { k with
    material := rsaParsed m,
    usage := 1, source := 0, deviceId := g,
    cki := (k.cki.fromBytes [1, 0]).1, lastLogon := t1, creation := t2 }

theorem parseLoop_freshTail (k : KeyCredential) (m : RSAKeyMaterial) (g : Guid) (t1 t2 : UInt64)
    (hm : 28 + m.modulus.length + m.prime1.length + m.prime2.length ≤ 65535) (hg : g.e.toNat < 2 ^ 48) :
    parseLoop k (freshTail m g t1 t2) = .ok (parsedTail k m g t1 t2) := by
  have h3 : m.toBytes.length ≤ 65535 := by rw [rsa_toBytes_length]; exact hm
  have hgl := guid_toBytes_length g
  unfold freshTail
  rw [parseLoop_entry' _ 3 _ _ h3 (by rw [rsa_toBytes_length]; omega)]
  have a3 : ∀ (k : KeyCredential) (extra : Bytes), applyEntry k 3 m.toBytes extra =
      .ok { k with material := rsaParsed m } := by
    intro k extra
    have := rsa_rt k.material m extra (by omega) (by omega) (by omega)
    simp [applyEntry, this, rsaParsed]
  rw [a3]; simp only []
  rw [parseLoop_entry' _ 4 _ _ (by simp) (by simp)]
  have a4 : ∀ (k : KeyCredential) (extra : Bytes), applyEntry k 4 [1] extra = .ok { k with usage := 1 } := by
    intro k extra; simp [applyEntry]
  rw [a4]; simp only []
  rw [parseLoop_entry' _ 5 _ _ (by simp) (by simp)]
  have a5 : ∀ (k : KeyCredential) (extra : Bytes), applyEntry k 5 [0] extra = .ok { k with source := 0 } := by
    intro k extra; simp [applyEntry]
  rw [a5]; simp only []
  rw [parseLoop_entry' _ 6 _ _ (by omega) (by omega)]
  have a6 : ∀ (k : KeyCredential) (extra : Bytes), applyEntry k 6 g.toBytes extra = .ok { k with deviceId := g } := by
    intro k extra
    have := guid_rt g hg []
    rw [List.append_nil] at this
    simp [applyEntry, this, hgl]
  rw [a6]; simp only []
  rw [parseLoop_entry' _ 7 _ _ (by simp) (by simp)]
  have a7 : ∀ (k : KeyCredential) (extra : Bytes), applyEntry k 7 [1, 0] extra = .ok { k with cki := (k.cki.fromBytes [1, 0]).1 } := by
    intro k extra; simp [applyEntry]
  rw [a7]; simp only []
  rw [parseLoop_entry' _ 8 _ _ (by simp [putLe64]) (by simp [putLe64])]
  have a8 : ∀ (k : KeyCredential) (extra : Bytes), applyEntry k 8 (putLe64 t1) extra = .ok { k with lastLogon := t1 } := by
    intro k extra
    have := readTicks_rt t1 []
    rw [List.append_nil] at this
    have hl8 : (putLe64 t1).length = 8 := by simp [putLe64]
    simp [applyEntry, this, hl8]
  rw [a8]; simp only []
  rw [parseLoop_entry' _ 9 _ _ (by simp [putLe64]) (by simp [putLe64])]
  have a9 : ∀ (k : KeyCredential) (extra : Bytes), applyEntry k 9 (putLe64 t2) extra = .ok { k with creation := t2 } := by
    intro k extra
    have := readTicks_rt t2 []
    rw [List.append_nil] at this
    have hl8 : (putLe64 t2).length = 8 := by simp [putLe64]
    simp [applyEntry, this, hl8]
  rw [a9]; simp only []
  rw [parseLoop_nil]
  rfl


/-! ### the whole blob of a fresh-shaped credential -/

def zeros32 : Bytes := List.replicate 32 0

/-- the blob of a fresh-shaped credential whose KeyHash entry carries `h` -/
def freshBlob (v : UInt32) (idb h : Bytes) (m : RSAKeyMaterial) (g : Guid) (t1 t2 : UInt64) : Bytes :=
  putLe32 v ++ (idPart idb ++ (writeEntry 2 h ++ freshTail m g t1 t2))

theorem fresh0_cki_toBytes : ({ version := 1, flags := 0 } : CKI).toBytes = [1, 0] := by decide

theorem toBytes_freshShape (k : KeyCredential) (idb : Bytes)
    (hid : k.identifier = fromBinaryId idb k.version)
    (hl : k.legacyUsage = []) (hc : k.cki.toBytes = [1, 0]) (hu : k.usage = 1) (hs : k.source = 0) :
    k.toBytes = .ok (freshBlob k.version idb (if k.keyHash.length > 0 then k.keyHash else zeros32)
      k.material k.deviceId k.lastLogon k.creation) := by
  unfold KeyCredential.toBytes
  rw [tailBytes_fresh k hl hc hu hs, hid, toBinaryId_fromBinaryId]
  by_cases he : idb = []
  · subst he
    have : fromBinaryId [] k.version = [] := (fromBinaryId_eq_nil _ _).mpr rfl
    simp [this, freshBlob, idPart, zeros32]
  · have hne : fromBinaryId idb k.version ≠ [] := fun e => he ((fromBinaryId_eq_nil _ _).mp e)
    have hpos : (fromBinaryId idb k.version).length > 0 := List.length_pos_iff.mpr hne
    simp [hpos, freshBlob, idPart, he, zeros32]

theorem hashLoop_afterVersion (idb h c data : Bytes) (hi : idb.length ≤ 65535)
    (hh : h.length ≤ 65535) (hpos : 0 < h.length) :
    hashLoop (idPart idb ++ (writeEntry 2 h ++ c)) data = hashLoop c (data ++ c) := by
  unfold idPart
  by_cases he : idb = []
  · simp only [he, if_true, List.nil_append]
    rw [hashLoop_entry' 2 _ _ _ hh hpos, if_pos rfl]
  · simp only [he, if_false]
    rw [hashLoop_entry' 1 _ _ _ hi (List.length_pos_iff.mpr he), if_neg (by decide)]
    rw [hashLoop_entry' 2 _ _ _ hh hpos, if_pos rfl]

theorem parseLoop_afterVersion (k : KeyCredential) (idb h c : Bytes) (hi : idb.length ≤ 65535)
    (hh : h.length ≤ 65535) (hpos : 0 < h.length) :
    parseLoop k (idPart idb ++ (writeEntry 2 h ++ c)) =
      parseLoop { k with identifier := if idb = [] then k.identifier else fromBinaryId idb k.version, keyHash := h } c := by
  unfold idPart
  by_cases he : idb = []
  · simp only [he, if_true, List.nil_append]
    rw [parseLoop_entry' _ 2 _ _ hh hpos]
    simp [applyEntry]
  · simp only [he, if_false]
    rw [parseLoop_entry' _ 1 _ _ hi (List.length_pos_iff.mpr he)]
    simp only [applyEntry, if_true]
    rw [parseLoop_entry' _ 2 _ _ hh hpos]
    simp [applyEntry]

theorem fromBytes_blob (k0 : KeyCredential) (v : UInt32) (rest : Bytes) :
    KeyCredential.fromBytes k0 (putLe32 v ++ rest) =
      parseLoop { k0 with rawBytes := putLe32 v ++ rest, version := v } rest := by
  simp only [putLe32, List.cons_append, List.nil_append, KeyCredential.fromBytes, le32_bytes]



/-! ### ComputeKeyHash / CheckIntegrity in closed form -/

theorem computeKeyHash_eq (H : Bytes → Bytes) (k : KeyCredential) :
    computeKeyHash H k =
      match hashInput k with
      | .ok (k', some data) => .ok (H data, k')
      | .ok (k', none) => .ok ([], k')
      | .err => .err
      | .panic => .panic := by
  unfold computeKeyHash computeKeyHashA
  cases hashInput k with
  | ok p => obtain ⟨k', o⟩ := p; cases o <;> rfl
  | err => rfl
  | panic => rfl

theorem checkIntegrity_eq (H : Bytes → Bytes) (k : KeyCredential) :
    checkIntegrity H k =
      match computeKeyHash H k with
      | .ok (h, k') => .ok (h == k'.keyHash, k')
      | .err => .err
      | .panic => .panic := by
  unfold checkIntegrity checkIntegrityA computeKeyHash
  rw [Ask.run_bind]
  generalize Ask.run H (computeKeyHashA k) = r
  cases r with
  | ok p => rfl
  | err => rfl
  | panic => rfl

theorem newKeyCredential_eq (H : Bytes → Bytes) (v : UInt32) (ids : Bytes) (m : RSAKeyMaterial) (g : Guid) (t1 t2 : UInt64) :
    newKeyCredential H v ids m g t1 t2 =
      match computeKeyHash H (fresh0 v ids m g t1 t2) with
      | .ok (h, k') => .ok { k' with keyHash := h }
      | .err => .err
      | .panic => .panic := by
  unfold newKeyCredential newKeyCredentialA computeKeyHash
  show Ask.run H (computeKeyHashA (fresh0 v ids m g t1 t2) >>= _) = _
  rw [Ask.run_bind]
  generalize Ask.run H (computeKeyHashA (fresh0 v ids m g t1 t2)) = r
  cases r with
  | ok p => rfl
  | err => rfl
  | panic => rfl

theorem sliceFrom_putLe32 (v : UInt32) (rest : Bytes) : sliceFrom (putLe32 v ++ rest) 4 = .ok rest := by
  simp [sliceFrom, putLe32]

/-- the bytes hashed for a credential whose `RawBytes` is a blob `version ++ [KeyID] ++ KeyHash ++ c` -/
theorem hashInput_raw (k : KeyCredential) (v : UInt32) (idb h c : Bytes) (hi : idb.length ≤ 65535)
    (hh : h.length ≤ 65535) (hpos : 0 < h.length)
    (hraw : k.rawBytes = putLe32 v ++ (idPart idb ++ (writeEntry 2 h ++ c))) :
    hashInput k = match hashLoop c c with
      | .ok data => .ok (k, some data)
      | .err => .err
      | .panic => .panic := by
  unfold hashInput
  have hlen : ¬ k.rawBytes.length < 4 := by rw [hraw]; simp [putLe32]
  rw [if_neg hlen]
  simp only [hraw, sliceFrom_putLe32]
  rw [hashLoop_afterVersion idb h c [] hi hh hpos, List.nil_append]
  cases hashLoop c c <;> rfl


/-! ### the pure walks behind `FromBytes` and `ComputeKeyHash` -/

/-- what `ComputeKeyHash` accumulates over `rem` (total version of `hashLoop`) -/
def coveredWalk (rem data : Bytes) : Bytes :=
  match rem with
  | l0 :: l1 :: t :: x :: rest' =>
    let rest := x :: rest'
    let n := (le16 l0 l1).toNat
    if n > rest.length then data
    else coveredWalk (rest.drop n) (if t = 2 then data ++ rest.drop n else data)
  | _ => data
termination_by rem.length
decreasing_by simp [List.length_drop]; omega

/-- the `KeyHash` field `FromBytes` ends with after walking `rem` -/
def hashWalk (rem kh : Bytes) : Bytes :=
  match rem with
  | l0 :: l1 :: t :: x :: rest' =>
    let rest := x :: rest'
    let n := (le16 l0 l1).toNat
    if n > rest.length then kh
    else hashWalk (rest.drop n) (if t = 2 then rest.take n else kh)
  | _ => kh
termination_by rem.length
decreasing_by simp [List.length_drop]; omega

theorem applyEntry_raw_hash (k k' : KeyCredential) (t : UInt8) (d e : Bytes) (h : applyEntry k t d e = .ok k') :
    k'.rawBytes = k.rawBytes ∧ k'.keyHash = (if t = 2 then d else k.keyHash) := by
  unfold applyEntry at h
  repeat' split at h
  all_goals first
    | (cases h; done)
    | (cases h; exact ⟨rfl, by simp_all⟩)

abbrev Short (rem : Bytes) : Prop := ∀ (l0 l1 t x : UInt8) (rest' : List UInt8), rem = l0 :: l1 :: t :: x :: rest' → False

theorem coveredWalk_short (rem data : Bytes) (h : Short rem) : coveredWalk rem data = data := by
  unfold coveredWalk; split
  · next l0 l1 t x rest' => exact (h l0 l1 t x rest' rfl).elim
  · rfl
theorem hashWalk_short (rem kh : Bytes) (h : Short rem) : hashWalk rem kh = kh := by
  unfold hashWalk; split
  · next l0 l1 t x rest' => exact (h l0 l1 t x rest' rfl).elim
  · rfl
theorem walkTypes_short (rem : Bytes) (h : Short rem) : walkTypes rem = [] := by
  unfold walkTypes; split
  · next l0 l1 t x rest' => exact (h l0 l1 t x rest' rfl).elim
  · rfl
theorem hashLoop_short (rem data : Bytes) (h : Short rem) : hashLoop rem data = .ok data := by
  unfold hashLoop; split
  · next l0 l1 t x rest' => exact (h l0 l1 t x rest' rfl).elim
  · rfl
theorem parseLoop_short (k : KeyCredential) (rem : Bytes) (h : Short rem) : parseLoop k rem = .ok k := by
  unfold parseLoop; split
  · next l0 l1 t x rest' => exact (h l0 l1 t x rest' rfl).elim
  · rfl

/-- a successful `FromBytes` walk: `ComputeKeyHash` walks the same entries without panicking, and the
    KeyHash field / RawBytes are what the pure walks say -/
theorem parseLoop_ok_walks (rem : Bytes) : ∀ (k k' : KeyCredential) (data : Bytes), parseLoop k rem = .ok k' →
    hashLoop rem data = .ok (coveredWalk rem data) ∧ k'.keyHash = hashWalk rem k.keyHash ∧
      k'.rawBytes = k.rawBytes := by
  induction rem using walkTypes.induct with
  | case1 l0 l1 t x rest' rest n hn =>
    intro k k' data h
    rw [parseLoop] at h
    rw [if_pos hn] at h
    cases h
  | case2 l0 l1 t x rest' rest n hn ih =>
    intro k k' data h
    rw [parseLoop] at h
    rw [if_neg hn] at h
    rw [hashLoop, coveredWalk, hashWalk]
    rw [if_neg hn, if_neg hn, if_neg hn]
    cases ha : applyEntry k t (List.take n rest) (List.drop n rest) with
    | ok k'' =>
      have ha' : applyEntry k t (List.take (le16 l0 l1).toNat (x :: rest')) (List.drop (le16 l0 l1).toNat (x :: rest')) = .ok k'' := ha
      rw [ha'] at h
      have h' : parseLoop k'' (List.drop n rest) = .ok k' := h
      obtain ⟨h1, h2, h3⟩ := ih k'' k' (if t = 2 then data ++ List.drop n rest else data) h'
      obtain ⟨r1, r2⟩ := applyEntry_raw_hash k k'' t _ _ ha
      exact ⟨h1, by rw [h2, r2], by rw [h3, r1]⟩
    | err =>
      have ha' : applyEntry k t (List.take (le16 l0 l1).toNat (x :: rest')) (List.drop (le16 l0 l1).toNat (x :: rest')) = .err := ha
      rw [ha'] at h; cases h
    | panic =>
      have ha' : applyEntry k t (List.take (le16 l0 l1).toNat (x :: rest')) (List.drop (le16 l0 l1).toNat (x :: rest')) = .panic := ha
      rw [ha'] at h; cases h
  | case3 rem hs =>
    intro k k' data h
    rw [parseLoop_short k rem hs] at h
    cases h
    rw [hashLoop_short _ _ hs, coveredWalk_short _ _ hs, hashWalk_short _ _ hs]
    exact ⟨rfl, rfl, rfl⟩

theorem coveredWalk_prefix (rem : Bytes) : ∀ data : Bytes, data <+: coveredWalk rem data := by
  induction rem using walkTypes.induct with
  | case1 l0 l1 t x rest' rest n hn =>
    intro data; rw [coveredWalk]; rw [if_pos hn]; exact List.prefix_refl _
  | case2 l0 l1 t x rest' rest n hn ih =>
    intro data; rw [coveredWalk]; rw [if_neg hn]
    refine List.IsPrefix.trans ?_ (ih _)
    split
    · exact List.prefix_append _ _
    · exact List.prefix_refl _
  | case3 rem hs => intro data; rw [coveredWalk_short _ _ hs]; exact List.prefix_refl _

/-- either the walk meets no KeyHash-typed entry (nothing is accumulated, the KeyHash field is
    untouched), or the final KeyHash field is a contiguous part of the walked bytes -/
theorem walk_dichotomy (rem : Bytes) : ∀ data kh : Bytes,
    (coveredWalk rem data = data ∧ hashWalk rem kh = kh) ∨ hashWalk rem kh <:+: rem := by
  induction rem using walkTypes.induct with
  | case1 l0 l1 t x rest' rest n hn =>
    intro data kh; left
    rw [coveredWalk, hashWalk]; rw [if_pos hn, if_pos hn]; exact ⟨rfl, rfl⟩
  | case2 l0 l1 t x rest' rest n hn ih =>
    intro data kh
    rw [coveredWalk, hashWalk]; rw [if_neg hn, if_neg hn]
    have hsuf : List.drop n rest <:+ l0 :: l1 :: t :: x :: rest' :=
      List.IsSuffix.trans (List.drop_suffix n rest) ⟨[l0, l1, t], rfl⟩
    by_cases ht : t = 2
    · right
      subst ht
      simp only [if_true]
      rcases ih (data ++ List.drop n rest) (List.take n rest) with ⟨_, h2⟩ | h
      · rw [h2]
        exact List.IsInfix.trans (List.take_prefix n rest).isInfix (List.IsSuffix.isInfix ⟨[l0, l1, 2], rfl⟩)
      · exact List.IsInfix.trans h hsuf.isInfix
    · simp only [ht, if_false]
      rcases ih data kh with h | h
      · left; exact h
      · right; exact List.IsInfix.trans h hsuf.isInfix
  | case3 rem hs =>
    intro data kh; left
    rw [coveredWalk_short _ _ hs, hashWalk_short _ _ hs]; exact ⟨rfl, rfl⟩

theorem hashFree_walks (rem : Bytes) : ∀ data kh : Bytes, (walkTypes rem).contains 2 = false →
    coveredWalk rem data = data ∧ hashWalk rem kh = kh := by
  induction rem using walkTypes.induct with
  | case1 l0 l1 t x rest' rest n hn =>
    intro data kh _
    rw [coveredWalk, hashWalk]; rw [if_pos hn, if_pos hn]; exact ⟨rfl, rfl⟩
  | case2 l0 l1 t x rest' rest n hn ih =>
    intro data kh h
    rw [walkTypes] at h; rw [if_neg hn] at h
    simp only [List.contains_cons, Bool.or_eq_false_iff] at h
    have ht : t ≠ 2 := by
      intro e; subst e; simp at h
    rw [coveredWalk, hashWalk]; rw [if_neg hn, if_neg hn]
    simp only [ht, if_false]
    exact ih data kh h.2
  | case3 rem hs =>
    intro data kh _
    rw [coveredWalk_short _ _ hs, hashWalk_short _ _ hs]; exact ⟨rfl, rfl⟩


/-! ### single-bit corruption -/

theorem xor_bit_ne (x : UInt8) (i : Nat) (hi : i < 8) : x ^^^ (1 <<< UInt8.ofNat i) ≠ x := by
  intro h
  have h1 : x.toBitVec ^^^ (1 <<< UInt8.ofNat i : UInt8).toBitVec = x.toBitVec ^^^ 0#8 := by
    rw [← UInt8.toBitVec_xor, h]; simp
  have h2 := (BitVec.xor_right_inj x.toBitVec).mp h1
  have h3 : (1 <<< UInt8.ofNat i : UInt8) = 0 := UInt8.eq_of_toBitVec_eq h2
  have : i = 0 ∨ i = 1 ∨ i = 2 ∨ i = 3 ∨ i = 4 ∨ i = 5 ∨ i = 6 ∨ i = 7 := by omega
  rcases this with rfl | rfl | rfl | rfl | rfl | rfl | rfl | rfl <;> exact absurd h3 (by decide)

theorem flipBit_length (c : Bytes) : ∀ i, (flipBit c i).length = c.length := by
  induction c with
  | nil => intro i; rfl
  | cons x xs ih =>
    intro i; unfold flipBit; split
    · rfl
    · simp [ih]

theorem flipBit_ne (c : Bytes) : ∀ i, i < 8 * c.length → flipBit c i ≠ c := by
  induction c with
  | nil => intro i h; simp at h
  | cons x xs ih =>
    intro i h; unfold flipBit; split
    · next hi => intro e; exact xor_bit_ne x i hi (List.cons.inj e).1
    · next hi =>
      intro e
      exact ih (i - 8) (by simp at h; omega) (List.cons.inj e).2

theorem flipBit_append (p c : Bytes) : ∀ i, 8 * p.length ≤ i → flipBit (p ++ c) i = p ++ flipBit c (i - 8 * p.length) := by
  induction p with
  | nil => intro i _; simp
  | cons x xs ih =>
    intro i h
    simp only [List.length_cons] at h
    rw [List.cons_append, flipBit, if_neg (by omega), ih (i - 8) (by omega)]
    have : i - 8 - 8 * xs.length = i - 8 * (xs.length + 1) := by omega
    rw [this]; rfl


/-! ### fixed-width integers as the standard's byte strings -/

theorem putLe16_nat (v : UInt16) : putLe16 v = natLe 2 v.toNat := by
  simp only [putLe16, natLe, List.cons.injEq, and_true]
  refine ⟨?_, ?_⟩ <;> apply UInt8.toNat_inj.mp <;>
    simp [UInt16.toNat_toUInt8, UInt16.toNat_shiftRight, Nat.shiftRight_eq_div_pow] <;> omega

theorem putLe32_nat (v : UInt32) : putLe32 v = natLe 4 v.toNat := by
  simp only [putLe32, natLe, List.cons.injEq, and_true]
  refine ⟨?_, ?_, ?_, ?_⟩ <;> apply UInt8.toNat_inj.mp <;>
    simp [UInt32.toNat_toUInt8, UInt32.toNat_shiftRight, Nat.shiftRight_eq_div_pow] <;> omega

theorem putLe64_nat (v : UInt64) : putLe64 v = natLe 8 v.toNat := by
  simp only [putLe64, natLe, List.cons.injEq, and_true]
  refine ⟨?_, ?_, ?_, ?_, ?_, ?_, ?_, ?_⟩ <;> apply UInt8.toNat_inj.mp <;>
    simp [UInt64.toNat_toUInt8, UInt64.toNat_shiftRight, Nat.shiftRight_eq_div_pow] <;> omega

theorem putBe32_nat (v : UInt32) : putBe32 v = natBe 4 v.toNat := by
  have := putLe32_nat v
  simp only [putLe32, natLe, List.cons.injEq, and_true] at this
  simp only [putBe32, natBe, natLe, List.reverse_cons, List.reverse_nil, List.nil_append, List.cons_append, List.cons.injEq, and_true]
  exact ⟨this.2.2.2, this.2.2.1, this.2.1, this.1⟩

theorem putBe16_nat (v : UInt16) : putBe16 v = natBe 2 v.toNat := by
  have := putLe16_nat v
  simp only [putLe16, natLe, List.cons.injEq, and_true] at this
  simp only [putBe16, natBe, natLe, List.reverse_cons, List.reverse_nil, List.nil_append, List.cons_append, List.cons.injEq, and_true]
  exact ⟨this.2, this.1⟩

theorem e48_nat (e : UInt64) :
    [(e >>> 40).toUInt8, (e >>> 32).toUInt8, (e >>> 24).toUInt8, (e >>> 16).toUInt8, (e >>> 8).toUInt8, e.toUInt8]
      = natBe 6 e.toNat := by
  have := putLe64_nat e
  simp only [putLe64, natLe, List.cons.injEq, and_true] at this
  simp only [natBe, natLe, List.reverse_cons, List.reverse_nil, List.nil_append, List.cons_append, List.cons.injEq, and_true]
  exact ⟨this.2.2.2.2.2.1, this.2.2.2.2.1, this.2.2.2.1, this.2.2.1, this.2.1, this.1⟩


/-! ### NewKeyCredential, ToBytes, FromBytes, CheckIntegrity on a fresh credential, in closed form -/

theorem zeros32_length : zeros32.length = 32 := by simp [zeros32]

theorem hashInput_fresh0 (v : UInt32) (idb : Bytes) (m : RSAKeyMaterial) (g : Guid) (t1 t2 : UInt64)
    (hf : Fits idb m g) :
    hashInput (fresh0 v (fromBinaryId idb v) m g t1 t2) =
      .ok ({ fresh0 v (fromBinaryId idb v) m g t1 t2 with rawBytes := freshBlob v idb zeros32 m g t1 t2 },
           some (freshTail m g t1 t2)) := by
  have htb := toBytes_freshShape (fresh0 v (fromBinaryId idb v) m g t1 t2) idb rfl rfl fresh0_cki_toBytes rfl rfl
  have hk : (fresh0 v (fromBinaryId idb v) m g t1 t2).keyHash = [] := rfl
  simp only [hk, List.length_nil, Nat.lt_irrefl, if_false] at htb
  unfold hashInput
  have hr : (fresh0 v (fromBinaryId idb v) m g t1 t2).rawBytes.length < 4 := by simp [fresh0]
  rw [if_pos hr, htb]
  simp only [fresh0, freshBlob, sliceFrom_putLe32]
  rw [hashLoop_afterVersion idb zeros32 _ [] hf.id (by simp [zeros32]) (by simp [zeros32]), List.nil_append,
    hashLoop_freshTail m g t1 t2 _ hf.mat]

/-- the credential `NewKeyCredential` returns -/
def builtCred (H : Bytes → Bytes) (v : UInt32) (idb : Bytes) (m : RSAKeyMaterial) (g : Guid) (t1 t2 : UInt64) : KeyCredential :=
  { fresh0 v (fromBinaryId idb v) m g t1 t2 with
    rawBytes := freshBlob v idb zeros32 m g t1 t2, keyHash := H (freshTail m g t1 t2) }

theorem newKeyCredential_closed (H : Bytes → Bytes) (v : UInt32) (idb : Bytes) (m : RSAKeyMaterial) (g : Guid)
    (t1 t2 : UInt64) (hf : Fits idb m g) :
    newKeyCredential H v (fromBinaryId idb v) m g t1 t2 = .ok (builtCred H v idb m g t1 t2) := by
  rw [newKeyCredential_eq, computeKeyHash_eq, hashInput_fresh0 v idb m g t1 t2 hf]
  rfl

theorem builtCred_tailBytes (H : Bytes → Bytes) (v : UInt32) (idb : Bytes) (m : RSAKeyMaterial) (g : Guid) (t1 t2 : UInt64) :
    (builtCred H v idb m g t1 t2).tailBytes = freshTail m g t1 t2 :=
  tailBytes_fresh _ rfl fresh0_cki_toBytes rfl rfl

theorem toBytes_built (H : Bytes → Bytes) (hH : HashLen32 H) (v : UInt32) (idb : Bytes) (m : RSAKeyMaterial) (g : Guid) (t1 t2 : UInt64) :
    (builtCred H v idb m g t1 t2).toBytes = .ok (freshBlob v idb (H (freshTail m g t1 t2)) m g t1 t2) := by
  have := toBytes_freshShape (builtCred H v idb m g t1 t2) idb rfl rfl fresh0_cki_toBytes rfl rfl
  have hk : (builtCred H v idb m g t1 t2).keyHash = H (freshTail m g t1 t2) := rfl
  rw [hk, hH] at this
  simp only [show (32 : Nat) > 0 by decide, if_true] at this
  exact this

/-- what `FromBytes` (on a zero value) makes of a fresh-shaped blob -/
def parsedCred (v : UInt32) (idb h : Bytes) (m : RSAKeyMaterial) (g : Guid) (t1 t2 : UInt64) : KeyCredential :=
  { version := v, identifier := fromBinaryId idb v, keyHash := h, material := rsaParsed m, usage := 1,
    legacyUsage := [], source := 0,
    cki := { version := 1, flags := 0, rawBytes := [1, 0], rawBytesSize := 2 },
    deviceId := g, lastLogon := t1, creation := t2, rawBytes := freshBlob v idb h m g t1 t2 }

theorem fromBytes_freshBlob (v : UInt32) (idb h : Bytes) (m : RSAKeyMaterial) (g : Guid) (t1 t2 : UInt64)
    (hf : Fits idb m g) (hh : h.length ≤ 65535) (hpos : 0 < h.length) :
    KeyCredential.fromBytes {} (freshBlob v idb h m g t1 t2) = .ok (parsedCred v idb h m g t1 t2) := by
  unfold freshBlob
  rw [fromBytes_blob, parseLoop_afterVersion _ idb h _ hf.id hh hpos, parseLoop_freshTail _ m g t1 t2 hf.mat hf.guid]
  have hid : (if idb = [] then ([] : Bytes) else fromBinaryId idb v) = fromBinaryId idb v := by
    split
    · next he => rw [he]; exact ((fromBinaryId_eq_nil _ _).mpr rfl).symm
    · rfl
  simp only [parsedTail, parsedCred, hid, freshBlob]
  rfl

theorem toBytes_parsed (v : UInt32) (idb h : Bytes) (m : RSAKeyMaterial) (g : Guid) (t1 t2 : UInt64) (hpos : 0 < h.length) :
    (parsedCred v idb h m g t1 t2).toBytes = .ok (freshBlob v idb h m g t1 t2) := by
  have hc : (parsedCred v idb h m g t1 t2).cki.toBytes = [1, 0] := by
    show ({ version := 1, flags := 0, rawBytes := [1, 0], rawBytesSize := 2 } : CKI).toBytes = [1, 0]
    decide
  have := toBytes_freshShape (parsedCred v idb h m g t1 t2) idb rfl rfl hc rfl rfl
  have hk : (parsedCred v idb h m g t1 t2).keyHash = h := rfl
  rw [hk, if_pos hpos] at this
  exact this

/-- `CheckIntegrity` on a credential whose `RawBytes` is a fresh-shaped blob: the hash of the
    entries after KeyHash is compared with the field -/
theorem checkIntegrity_freshShape (H : Bytes → Bytes) (k : KeyCredential) (v : UInt32) (idb h : Bytes)
    (m : RSAKeyMaterial) (g : Guid) (t1 t2 : UInt64) (hf : Fits idb m g) (hh : h.length ≤ 65535) (hpos : 0 < h.length)
    (hraw : k.rawBytes = freshBlob v idb h m g t1 t2) :
    checkIntegrity H k = .ok (H (freshTail m g t1 t2) == k.keyHash, k) := by
  rw [checkIntegrity_eq, computeKeyHash_eq, hashInput_raw k v idb h _ hf.id hh hpos hraw,
    hashLoop_freshTail m g t1 t2 _ hf.mat]



/-! ### the serialisation is the MS-ADTS grammar -/

theorem writeEntry_spec (t : UInt8) (d : Bytes) (h : d.length ≤ 65535) :
    writeEntry t d = Spec.entryBytes ⟨t, d⟩ := by
  have : (UInt16.ofNat d.length).toNat = d.length := by simp [UInt16.toNat_ofNat']; omega
  simp only [writeEntry, Spec.entryBytes, putLe16_nat, this]

theorem putLe32_ofNat (n : Nat) (h : n < 2 ^ 32) : putLe32 (UInt32.ofNat n) = natLe 4 n := by
  have : (UInt32.ofNat n).toNat = n := by simp [UInt32.toNat_ofNat']; omega
  rw [putLe32_nat, this]

theorem rsa_toBytes_spec (m : RSAKeyMaterial) (hm : m.modulus.length < 2 ^ 32) (h1 : m.prime1.length < 2 ^ 32)
    (h2 : m.prime2.length < 2 ^ 32) :
    m.toBytes = Spec.bcryptRsaBlob m.keySize.toNat 4 m.exponent.toNat m.modulus m.prime1 m.prime2 := by
  have h4 : putLe32 4 = natLe 4 4 := by decide
  simp only [RSAKeyMaterial.toBytes, Spec.bcryptRsaBlob, magicRSA1, putLe32_nat m.keySize, h4,
    putLe32_ofNat _ hm, putLe32_ofNat _ h1, putLe32_ofNat _ h2, putBe32_nat]

theorem guid_toBytes_spec (g : Guid) :
    g.toBytes = Spec.guidPacket g.a.toNat g.b.toNat g.c.toNat g.d.toNat g.e.toNat := by
  simp only [Guid.toBytes, Spec.guidPacket, putLe32_nat, putLe16_nat, putBe16_nat, e48_nat]

/-- the standard's view of the inputs of `NewKeyCredential` -/
def specCred (v : UInt32) (idb : Bytes) (m : RSAKeyMaterial) (g : Guid) (t1 t2 : UInt64) : Spec.Cred :=
  { version := v.toNat, keyId := idb, bitLength := m.keySize.toNat, exponent := m.exponent.toNat,
    modulus := m.modulus, prime1 := m.prime1, prime2 := m.prime2,
    deviceId := Spec.guidPacket g.a.toNat g.b.toNat g.c.toNat g.d.toNat g.e.toNat,
    lastLogon := t1.toNat, creation := t2.toNat }

theorem freshTail_spec (v : UInt32) (idb : Bytes) (m : RSAKeyMaterial) (g : Guid) (t1 t2 : UInt64) (hf : Fits idb m g) :
    freshTail m g t1 t2 = (specCred v idb m g t1 t2).covered.flatMap Spec.entryBytes := by
  have hl := rsa_toBytes_length m
  have hg := guid_toBytes_length g
  have hf2 := hf.mat
  unfold freshTail
  rw [writeEntry_spec 3 _ (by omega), writeEntry_spec 4 _ (by simp), writeEntry_spec 5 _ (by simp),
    writeEntry_spec 6 _ (by omega), writeEntry_spec 7 _ (by simp), writeEntry_spec 8 _ (by simp [putLe64]),
    writeEntry_spec 9 _ (by simp [putLe64])]
  rw [rsa_toBytes_spec m (by omega) (by omega) (by omega), guid_toBytes_spec, putLe64_nat, putLe64_nat]
  simp [Spec.Cred.covered, specCred, Spec.idKeyMaterial, Spec.idKeyUsage, Spec.idKeySource, Spec.idDeviceId,
    Spec.idCustomKeyInformation, Spec.idLastLogon, Spec.idCreation]

theorem freshBlob_spec (H : Bytes → Bytes) (hH : HashLen32 H) (v : UInt32) (idb : Bytes) (m : RSAKeyMaterial) (g : Guid)
    (t1 t2 : UInt64) (hf : Fits idb m g) :
    freshBlob v idb (H (freshTail m g t1 t2)) m g t1 t2 = (specCred v idb m g t1 t2).encode H := by
  have ht := freshTail_spec v idb m g t1 t2 hf
  unfold freshBlob Spec.Cred.encode Spec.blob
  rw [← ht, putLe32_nat]
  have hid : idPart idb = (if idb.isEmpty then [] else [(⟨Spec.idKeyID, idb⟩ : Spec.Entry)]).flatMap Spec.entryBytes := by
    unfold idPart
    by_cases he : idb = []
    · simp [he]
    · have : idb.isEmpty = false := by simpa using he
      simp [he, this, writeEntry_spec 1 idb hf.id, Spec.idKeyID]
  rw [hid, writeEntry_spec 2 _ (by rw [hH]; decide)]
  simp only [specCred, Spec.idKeyHash, List.flatMap_append, List.flatMap_cons, List.flatMap_nil, List.append_nil,
    List.append_assoc]
  rw [ht]; rfl


/-! ### custom key information: the two ladders -/

theorem sn_canon (s : UInt8) (h : s.toNat ≤ 1) : (if s = 0 then (0 : UInt8) else 1) = s := by
  have : s = 0 ∨ s = 1 := by
    rcases Nat.le_one_iff_eq_zero_or_eq_one.mp h with h | h
    · left; exact UInt8.toNat_inj.mp h
    · right; exact UInt8.toNat_inj.mp h
  rcases this with rfl | rfl <;> decide

macro "cki_case" h:ident : tactic => `(tactic|
  (simp only [List.getD_cons_succ, List.getD_cons_zero] at $h:ident
   simp +arith +decide [CKI.fromBytes, CKI.toBytes, le32At, putLe32_le32, sn_canon _ $h]))

/-- **both threshold ladders agree**: a CUSTOM_KEY_INFORMATION structure with version 1 whose fields end
    on a field boundary (2, 3, 4, 5, 9 or 19 bytes, or 19 bytes followed by EncodedExtendedCKI) and
    whose SupportsNotification byte is 0 or 1 re-serialises to the same bytes -/
theorem cki_roundtrip_aux : ∀ (b : Bytes), b.head? = some 1 →
    (b.length ∈ [2, 3, 4, 5, 9, 19] ∨ 19 < b.length) → (b.getD 3 0).toNat ≤ 1 →
    (CKI.fromBytes {} b).1.toBytes = b
  | [], _, hl, _ => by simp at hl
  | [x0], _, hl, _ => by simp at hl
  | [x0, x1], hv, _, _ => by
    simp only [List.head?_cons, Option.some.injEq] at hv; subst hv
    simp +arith +decide [CKI.fromBytes, CKI.toBytes]
  | [x0, x1, x2], hv, _, _ => by
    simp only [List.head?_cons, Option.some.injEq] at hv; subst hv
    simp +arith +decide [CKI.fromBytes, CKI.toBytes]
  | [x0, x1, x2, x3], hv, _, hs => by
    simp only [List.head?_cons, Option.some.injEq] at hv; subst hv
    cki_case hs
  | [x0, x1, x2, x3, x4], hv, _, hs => by
    simp only [List.head?_cons, Option.some.injEq] at hv; subst hv
    cki_case hs
  | [x0, x1, x2, x3, x4, x5], _, hl, _ => by simp at hl
  | [x0, x1, x2, x3, x4, x5, x6], _, hl, _ => by simp at hl
  | [x0, x1, x2, x3, x4, x5, x6, x7], _, hl, _ => by simp at hl
  | [x0, x1, x2, x3, x4, x5, x6, x7, x8], hv, _, hs => by
    simp only [List.head?_cons, Option.some.injEq] at hv; subst hv
    cki_case hs
  | [x0, x1, x2, x3, x4, x5, x6, x7, x8, x9], _, hl, _ => by simp at hl
  | [x0, x1, x2, x3, x4, x5, x6, x7, x8, x9, x10], _, hl, _ => by simp at hl
  | [x0, x1, x2, x3, x4, x5, x6, x7, x8, x9, x10, x11], _, hl, _ => by simp at hl
  | [x0, x1, x2, x3, x4, x5, x6, x7, x8, x9, x10, x11, x12], _, hl, _ => by simp at hl
  | [x0, x1, x2, x3, x4, x5, x6, x7, x8, x9, x10, x11, x12, x13], _, hl, _ => by simp at hl
  | [x0, x1, x2, x3, x4, x5, x6, x7, x8, x9, x10, x11, x12, x13, x14], _, hl, _ => by simp at hl
  | [x0, x1, x2, x3, x4, x5, x6, x7, x8, x9, x10, x11, x12, x13, x14, x15], _, hl, _ => by simp at hl
  | [x0, x1, x2, x3, x4, x5, x6, x7, x8, x9, x10, x11, x12, x13, x14, x15, x16], _, hl, _ => by simp at hl
  | [x0, x1, x2, x3, x4, x5, x6, x7, x8, x9, x10, x11, x12, x13, x14, x15, x16, x17], _, hl, _ => by simp at hl
  | [x0, x1, x2, x3, x4, x5, x6, x7, x8, x9, x10, x11, x12, x13, x14, x15, x16, x17, x18], hv, _, hs => by
    simp only [List.head?_cons, Option.some.injEq] at hv; subst hv
    cki_case hs
  | x0 :: x1 :: x2 :: x3 :: x4 :: x5 :: x6 :: x7 :: x8 :: x9 :: x10 :: x11 :: x12 :: x13 :: x14 :: x15 :: x16 :: x17 :: x18 :: x19 :: ext, hv, _, hs => by
    simp only [List.head?_cons, Option.some.injEq] at hv; subst hv
    cki_case hs


/-! ### the identifiers met in the covered entries of a fresh credential -/

theorem walkTypes_entry (t : UInt8) (d rest : Bytes) (h : d.length ≤ 65535) (hd : 0 < d.length) :
    walkTypes (writeEntry t d ++ rest) = t :: walkTypes rest := by
  obtain ⟨l0, l1, hw, hn⟩ := writeEntry_cons t d h
  rw [hw]
  have hdr : d ++ rest ≠ [] := by
    intro e; have := congrArg List.length e; rw [List.length_append, List.length_nil] at this; omega
  obtain ⟨x, r', hx⟩ := List.exists_cons_of_ne_nil hdr
  have e1 : (l0 :: l1 :: t :: d) ++ rest = l0 :: l1 :: t :: x :: r' := by simp [hx]
  rw [e1, walkTypes]
  simp only [hn, ← hx]
  rw [if_neg (by simp)]
  simp only [List.drop_left']

theorem walkTypes_freshTail (m : RSAKeyMaterial) (g : Guid) (t1 t2 : UInt64)
    (hm : 28 + m.modulus.length + m.prime1.length + m.prime2.length ≤ 65535) :
    walkTypes (freshTail m g t1 t2) = [3, 4, 5, 6, 7, 8, 9] := by
  have h3 : m.toBytes.length ≤ 65535 := by rw [rsa_toBytes_length]; exact hm
  have hg := guid_toBytes_length g
  unfold freshTail
  rw [walkTypes_entry 3 _ _ h3 (by rw [rsa_toBytes_length]; omega)]
  rw [walkTypes_entry 4 _ _ (by simp) (by simp)]
  rw [walkTypes_entry 5 _ _ (by simp) (by simp)]
  rw [walkTypes_entry 6 _ _ (by omega) (by omega)]
  rw [walkTypes_entry 7 _ _ (by simp) (by simp)]
  rw [walkTypes_entry 8 _ _ (by simp [putLe64]) (by simp [putLe64])]
  rw [walkTypes_entry 9 _ _ (by simp [putLe64]) (by simp [putLe64])]
  rw [walkTypes_short [] (fun _ _ _ _ _ e => by cases e)]

theorem hashFree_freshTail (m : RSAKeyMaterial) (g : Guid) (t1 t2 : UInt64)
    (hm : 28 + m.modulus.length + m.prime1.length + m.prime2.length ≤ 65535) :
    hashFree (freshTail m g t1 t2) = true := by
  unfold hashFree
  rw [walkTypes_freshTail m g t1 t2 hm]
  decide

end Manticore.C14
