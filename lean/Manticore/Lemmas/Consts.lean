/-
  Helpers for the `consts_match_model_*` theorems (Props/Cxx/Consts.lean): reading a buffer at positions and in
  byte orders that come from the regenerated `Gen/Consts*.lean` modules.
-/
import Manticore.Basic
namespace Manticore.Consts
open Manticore

/-- byte `i` of a buffer (0 beyond the end; used on positions the statement has shown to exist) -/
def byteAt (b : Bytes) (i : Nat) : UInt8 := b.getD i 0

/-- the bytes `b[lo:hi]` (shorter when the buffer ends before `hi`) -/
def window (b : Bytes) (lo hi : Nat) : Bytes := (b.drop lo).take (hi - lo)

/-- the unsigned value of `b[lo:hi]` in the given byte order -/
def field (little : Bool) (b : Bytes) (lo hi : Nat) : Nat :=
  if little then leNat (window b lo hi) else beNat (window b lo hi)

/-- the bytes 0x10, 0x11, … : a probe buffer in which every position holds a different value -/
def probe (n : Nat) : Bytes := (List.range n).map (fun i => UInt8.ofNat (16 + i))

/-- `n` bytes of an unsigned value in the given byte order -/
def put (little : Bool) (n x : Nat) : Bytes := if little then natLe n x else natBe n x

end Manticore.Consts
