/-
  C14 helper lemmas, text level: hex and base64 round trips, decimal printing against Atoi,
  splitting at colons.  Core Lean only.
-/
import Manticore.Model.C14
namespace Manticore.C14
open Manticore

/-! ### hex -/

theorem hexVal_digit : ∀ n : Fin 16, hexValB (hexDigitB n.val) = some n.val := by decide

theorem hexDigit_ne_colon : ∀ n : Fin 16, hexDigitB n.val ≠ 58 := by decide

theorem hexDecode_encode (b : Bytes) : hexDecode (hexEncode b) = some b := by
  induction b with
  | nil => rfl
  | cons x xs ih =>
    have h1 := hexVal_digit ⟨x.toNat / 16, by have := x.toNat_lt; omega⟩
    have h2 := hexVal_digit ⟨x.toNat % 16, by omega⟩
    simp only at h1 h2
    have hx : UInt8.ofNat (x.toNat / 16 * 16 + x.toNat % 16) = x := by
      have : x.toNat / 16 * 16 + x.toNat % 16 = x.toNat := by omega
      rw [this]; exact UInt8.ofNat_toNat
    have : hexEncode (x :: xs) = hexDigitB (x.toNat / 16) :: hexDigitB (x.toNat % 16) :: hexEncode xs := by
      simp [hexEncode]
    rw [this, hexDecode, h1, h2]
    have ih' : hexDecode (hexEncode xs) = some xs := ih
    simp only [ih', hx]

theorem hexEncode_no_colon (b : Bytes) : ∀ c ∈ hexEncode b, c ≠ colon := by
  intro c hc
  simp only [hexEncode, List.mem_flatMap, List.mem_cons, List.not_mem_nil, or_false] at hc
  obtain ⟨x, _, h | h⟩ := hc
  · subst h; exact hexDigit_ne_colon ⟨x.toNat / 16, by have := x.toNat_lt; omega⟩
  · subst h; exact hexDigit_ne_colon ⟨x.toNat % 16, by omega⟩

theorem hexEncode_length (b : Bytes) : (hexEncode b).length = 2 * b.length := by
  induction b with
  | nil => rfl
  | cons x xs ih => simp [hexEncode] at *; omega

/-! ### base64 -/

/-- the sextets of a byte string (the last group zero-filled on the right) -/
def sext : Bytes → List Nat
  | [] => []
  | [a] => [a.toNat / 4, a.toNat % 4 * 16]
  | [a, b] => [a.toNat / 4, a.toNat % 4 * 16 + b.toNat / 16, b.toNat % 16 * 4]
  | a :: b :: c :: rest =>
    a.toNat / 4 :: (a.toNat % 4 * 16 + b.toNat / 16) :: (b.toNat % 16 * 4 + c.toNat / 64) :: c.toNat % 64 :: sext rest

def b64Pad (b : Bytes) : Bytes :=
  if b.length % 3 = 1 then [61, 61] else if b.length % 3 = 2 then [61] else []

theorem b64Encode_eq (b : Bytes) : b64Encode b = (sext b).map b64Char ++ b64Pad b := by
  induction b using sext.induct with
  | case1 => rfl
  | case2 a => rfl
  | case3 a b => rfl
  | case4 a b c rest ih =>
    have hp : b64Pad (a :: b :: c :: rest) = b64Pad rest := by
      simp only [b64Pad, List.length_cons]
      have : (rest.length + 1 + 1 + 1) % 3 = rest.length % 3 := by omega
      simp only [this]
    rw [b64Encode, sext, hp, ih]
    simp

theorem sext_lt (b : Bytes) : ∀ s ∈ sext b, s < 64 := by
  induction b using sext.induct with
  | case1 => intro s h; simp [sext] at h
  | case2 a =>
    intro s h; have := a.toNat_lt
    simp only [sext, List.mem_cons, List.not_mem_nil, or_false] at h
    rcases h with h | h <;> omega
  | case3 a b =>
    intro s h; have := a.toNat_lt; have := b.toNat_lt
    simp only [sext, List.mem_cons, List.not_mem_nil, or_false] at h
    rcases h with h | h | h <;> omega
  | case4 a b c rest ih =>
    intro s h; have := a.toNat_lt; have := b.toNat_lt; have := c.toNat_lt
    simp only [sext, List.mem_cons] at h
    rcases h with h | h | h | h | h
    · omega
    · omega
    · omega
    · omega
    · exact ih s h

theorem b64Val_char : ∀ n : Fin 64, b64Val (b64Char n.val) = some n.val := by decide
theorem b64Char_plain : ∀ n : Fin 64, b64Char n.val ≠ 61 ∧ b64Char n.val ≠ 10 ∧ b64Char n.val ≠ 13 := by decide

theorem mapM_b64Val (l : List Nat) (h : ∀ s ∈ l, s < 64) : (l.map b64Char).mapM b64Val = some l := by
  induction l with
  | nil => rfl
  | cons s l ih =>
    have hs := b64Val_char ⟨s, h s (by simp)⟩
    simp only at hs
    have ih' := ih (fun x hx => h x (by simp [hx]))
    simp [List.mapM_cons, hs, ih']

theorem filter_plain (l : List Nat) (h : ∀ s ∈ l, s < 64) :
    (l.map b64Char).filter (fun c => c != 10 && c != 13) = l.map b64Char := by
  rw [List.filter_eq_self]
  intro c hc
  simp only [List.mem_map] at hc
  obtain ⟨s, hs, rfl⟩ := hc
  have := b64Char_plain ⟨s, h s hs⟩
  simp [this.2.1, this.2.2]

theorem trim_pad (l : List Nat) (h : ∀ s ∈ l, s < 64) (pad : Bytes) (hp : pad = [] ∨ pad = [61] ∨ pad = [61, 61]) :
    trimRightEq (l.map b64Char ++ pad) = l.map b64Char := by
  have key : ∀ r : Bytes, (∀ c ∈ r, c ≠ 61) → r.reverse.dropWhile (· == 61) = r.reverse := by
    intro r hr
    cases hrr : r.reverse with
    | nil => rfl
    | cons c t =>
      have : c ∈ r := by
        have : c ∈ r.reverse := by rw [hrr]; simp
        simpa using this
      have hc : (c == 61) = false := by simpa using hr c this
      simp [List.dropWhile, hc]
  have hne : ∀ c ∈ l.map b64Char, c ≠ 61 := by
    intro c hc
    simp only [List.mem_map] at hc
    obtain ⟨s, hs, rfl⟩ := hc
    exact (b64Char_plain ⟨s, h s hs⟩).1
  unfold trimRightEq
  rcases hp with rfl | rfl | rfl
  · simp [key _ hne]
  · simp [key _ hne]
  · simp [List.dropWhile, key _ hne]

private theorem ofNat_eq (n : Nat) (x : UInt8) (h : n = x.toNat) : UInt8.ofNat n = x := by
  rw [h]; exact UInt8.ofNat_toNat

theorem b64Sextets_sext (b : Bytes) : b64Sextets (sext b) = some b := by
  induction b using sext.induct with
  | case1 => rfl
  | case2 a =>
    have := a.toNat_lt
    have h := ofNat_eq (a.toNat / 4 * 4 + a.toNat % 4 * 16 / 16) a (by omega)
    simp only [sext, b64Sextets, h]
  | case3 a b =>
    have := a.toNat_lt; have := b.toNat_lt
    have h1 := ofNat_eq (a.toNat / 4 * 4 + (a.toNat % 4 * 16 + b.toNat / 16) / 16) a (by omega)
    have h2 := ofNat_eq ((a.toNat % 4 * 16 + b.toNat / 16) % 16 * 16 + b.toNat % 16 * 4 / 4) b (by omega)
    simp only [sext, b64Sextets, h1, h2]
  | case4 a b c rest ih =>
    have := a.toNat_lt; have := b.toNat_lt; have := c.toNat_lt
    have h1 := ofNat_eq (a.toNat / 4 * 4 + (a.toNat % 4 * 16 + b.toNat / 16) / 16) a (by omega)
    have h2 := ofNat_eq ((a.toNat % 4 * 16 + b.toNat / 16) % 16 * 16 + (b.toNat % 16 * 4 + c.toNat / 64) / 4) b (by omega)
    have h3 := ofNat_eq ((b.toNat % 16 * 4 + c.toNat / 64) % 4 * 64 + c.toNat % 64) c (by omega)
    simp only [sext, b64Sextets, ih, h1, h2, h3]

/-- padded standard base64, trailing `=` removed, raw-decoded: the original bytes -/
theorem b64_roundtrip (b : Bytes) : b64DecodeRaw (trimRightEq (b64Encode b)) = some b := by
  have hlt := sext_lt b
  have hp : b64Pad b = [] ∨ b64Pad b = [61] ∨ b64Pad b = [61, 61] := by
    unfold b64Pad; split
    · exact Or.inr (Or.inr rfl)
    · split
      · exact Or.inr (Or.inl rfl)
      · exact Or.inl rfl
  rw [b64Encode_eq, trim_pad _ hlt _ hp]
  unfold b64DecodeRaw
  rw [filter_plain _ hlt, mapM_b64Val _ hlt]
  exact b64Sextets_sext b

theorem hexEncode_eq_nil (b : Bytes) : hexEncode b = [] ↔ b = [] := by
  cases b <;> simp [hexEncode]

theorem b64Encode_eq_nil (b : Bytes) : b64Encode b = [] ↔ b = [] := by
  match b with
  | [] => simp [b64Encode]
  | [_] => simp [b64Encode]
  | [_, _] => simp [b64Encode]
  | _ :: _ :: _ :: _ => simp [b64Encode]

/-- `ConvertToBinaryIdentifier ∘ ConvertFromBinaryIdentifier` is the identity, for every version value -/
theorem toBinaryId_fromBinaryId (d : Bytes) (v : UInt32) : toBinaryId (fromBinaryId d v) v = some d := by
  unfold toBinaryId fromBinaryId
  split
  · exact hexDecode_encode d
  · exact b64_roundtrip d

theorem fromBinaryId_eq_nil (d : Bytes) (v : UInt32) : fromBinaryId d v = [] ↔ d = [] := by
  unfold fromBinaryId
  split
  · exact hexEncode_eq_nil d
  · exact b64Encode_eq_nil d

/-! ### decimal -/

private theorem digit_toNat (k : Nat) (h : k < 10) : (UInt8.ofNat (48 + k)).toNat = 48 + k := by
  simp [UInt8.toNat_ofNat']; omega

theorem digitsVal_decAux (n : Nat) (acc : Bytes) : digitsVal (decAux n acc) 0 = digitsVal acc n := by
  induction n, acc using decAux.induct with
  | case1 n acc h =>
    rw [decAux, if_pos h]
    simp only [digitsVal, List.foldl_cons, digit_toNat n h]
    congr 1; omega
  | case2 n acc h ih =>
    rw [decAux, if_neg h, ih]
    have := digit_toNat (n % 10) (by omega)
    simp only [digitsVal, List.foldl_cons, this]
    congr 1; omega

theorem decAux_all_digits (n : Nat) (acc : Bytes) : (decAux n acc).all isDigit = acc.all isDigit := by
  induction n, acc using decAux.induct with
  | case1 n acc h =>
    rw [decAux, if_pos h]
    have := digit_toNat n h
    have hd : isDigit (UInt8.ofNat (48 + n)) = true := by
      simp only [isDigit, this, Bool.and_eq_true, decide_eq_true_eq]; omega
    simp only [List.all_cons, hd, Bool.true_and]
  | case2 n acc h ih =>
    rw [decAux, if_neg h, ih]
    have := digit_toNat (n % 10) (by omega)
    have hd : isDigit (UInt8.ofNat (48 + n % 10)) = true := by
      simp only [isDigit, this, Bool.and_eq_true, decide_eq_true_eq]; omega
    simp only [List.all_cons, hd, Bool.true_and]

theorem decAux_ne_nil (n : Nat) (acc : Bytes) : decAux n acc ≠ [] := by
  induction n, acc using decAux.induct with
  | case1 n acc h => rw [decAux, if_pos h]; simp
  | case2 n acc h ih => rw [decAux, if_neg h]; exact ih

theorem dec_val (n : Nat) : digitsVal (dec n) 0 = n := by
  rw [dec, digitsVal_decAux]; rfl

theorem dec_all_digits (n : Nat) : (dec n).all isDigit = true := by
  simp [dec, decAux_all_digits]

theorem dec_no_colon (n : Nat) : ∀ c ∈ dec n, c ≠ colon := by
  intro c hc
  have := dec_all_digits n
  rw [List.all_eq_true] at this
  have hd := this c hc
  intro e; subst e
  revert hd; decide

/-- `Atoi` reads back what `%d` printed (non-negative values within int64) -/
theorem atoi_dec (n : Nat) (h : n < 2 ^ 63) : atoi (dec n) = some (n : Int) := by
  have hne : dec n ≠ [] := decAux_ne_nil n []
  have hall := dec_all_digits n
  obtain ⟨c, t, hct⟩ := List.exists_cons_of_ne_nil hne
  have hc : isDigit c = true := by
    rw [List.all_eq_true] at hall
    exact hall c (by rw [hct]; simp)
  have h45 : c ≠ 45 := by intro e; subst e; revert hc; decide
  have h43 : c ≠ 43 := by intro e; subst e; revert hc; decide
  unfold atoi
  simp only [hct, List.head?_cons, Option.some.injEq, h45, h43, or_self, if_false]
  rw [← hct]
  simp [hall, dec_val, h, hne]

/-! ### splitting at colons -/

theorem splitColon_append (a r : Bytes) (h : ∀ c ∈ a, c ≠ colon) :
    splitColon (a ++ colon :: r) = some (a, r) := by
  induction a with
  | nil => simp [splitColon]
  | cons c a ih =>
    have hc : c ≠ colon := h c (by simp)
    have := ih (fun x hx => h x (by simp [hx]))
    simp [splitColon, hc, this]

/-- **DN-with-binary round trip** for every binary value and every DN byte string -/
theorem dnParse_dnToString (bin dn : Bytes) (hlen : bin.length < 2 ^ 62) :
    dnParse (dnToString bin dn) = .ok (bin, dn) := by
  have e1 : dnToString bin dn = [66] ++ colon :: (dec (bin.length * 2) ++ colon :: (hexEncode bin ++ colon :: dn)) := by
    simp [dnToString]
  have hB : ∀ c ∈ ([66] : Bytes), c ≠ colon := by decide
  unfold dnParse
  rw [e1, splitColon_append _ _ hB]
  simp only []
  rw [splitColon_append _ _ (dec_no_colon _)]
  simp only []
  rw [splitColon_append _ _ (hexEncode_no_colon _)]
  simp only []
  rw [atoi_dec _ (by omega), hexDecode_encode]
  simp

end Manticore.C14
