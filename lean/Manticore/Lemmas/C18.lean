/-
  C18 helper lemmas: bit-level facts about the opcode mask, loop invariants of the request handlers,
  the query-table of the LLMNR client, the isolation invariant of the interleaving model, the
  distance-to-exit measure of the shutdown system.
-/
import Manticore.Model.C18
import Manticore.Lemmas.Bits
import Manticore.Lemmas.C17
namespace Manticore.C18
open Manticore
open Manticore.Gen.NbnsDispatch (Handler Site Guard sites guards)

theorem and_opmask (f : BitVec 16) : f &&& 0x7800#16 = (opcode f).setWidth 16 <<< 11 := by
  unfold opcode
  bv_bits16

theorem and_opmask_toNat (f : BitVec 16) : (f &&& 0x7800#16).toNat = (opcode f).toNat * 2048 := by
  rw [and_opmask]
  have := (opcode f).isLt
  simp only [BitVec.toNat_shiftLeft, BitVec.toNat_setWidth, Nat.shiftLeft_eq]
  omega

theorem sites_facts : ∀ site ∈ sites, site.mask = 0x7800 ∧
    ∀ o, o < 16 → dispatchOn site.cases (o * 2048) = rfc1002Handler (BitVec.ofNat 4 o) := by
  decide

theorem and_rmask (f : BitVec 16) : f &&& 0xF800#16 = (f.extractLsb' 11 5).setWidth 16 <<< 11 := by
  bv_bits16

theorem top5_zero_iff (f : BitVec 16) :
    f.extractLsb' 11 5 = 0#5 ↔ (f.getLsbD 15 = false ∧ opcode f = 0#4) := by
  unfold opcode
  constructor
  · intro h
    have h' : ∀ i, i < 5 → f.getLsbD (11 + i) = false := by
      intro i hi
      have := congrArg (·.getLsbD i) h
      simpa [hi] using this
    refine ⟨h' 4 (by omega), ?_⟩
    apply BitVec.eq_of_getLsbD_eq
    intro i hi
    simp only [BitVec.getLsbD_extractLsb', hi, decide_true, Bool.true_and, BitVec.getLsbD_zero]
    exact h' i (by omega)
  · rintro ⟨h15, h4⟩
    have h' : ∀ i, i < 4 → f.getLsbD (11 + i) = false := by
      intro i hi
      have := congrArg (·.getLsbD i) h4
      simpa [hi] using this
    apply BitVec.eq_of_getLsbD_eq
    intro i hi
    simp only [BitVec.getLsbD_extractLsb', hi, decide_true, Bool.true_and, BitVec.getLsbD_zero]
    by_cases h : i < 4
    · exact h' i h
    · have : i = 4 := by omega
      subst this; exact h15

theorem guard_iff (f : BitVec 16) : (f &&& 0xF800#16).toNat = 0 ↔ (f.getLsbD 15 = false ∧ opcode f = 0#4) := by
  rw [← top5_zero_iff, and_rmask]
  have := (f.extractLsb' 11 5).isLt
  simp only [BitVec.toNat_shiftLeft, BitVec.toNat_setWidth, Nat.shiftLeft_eq]
  constructor
  · intro h
    apply BitVec.eq_of_toNat_eq
    simp only [BitVec.toNat_ofNat, Nat.zero_mod]
    omega
  · intro h
    rw [h]; rfl

theorem guards_facts : ∀ g ∈ guards, g.mask = 0xF800 ∧ g.const = 0 := by decide

theorem handleQuery_id (tbl : C17.State) (qs : List Question) : ∀ resp, (handleQuery tbl qs resp).id = resp.id := by
  induction qs with
  | nil => intro resp; rfl
  | cons q qs ih =>
    intro resp
    simp only [handleQuery]
    split
    · rw [ih]; split <;> rfl
    · rfl

theorem handleUpdates_id (mk : ReqRR → C17.Op) (rc : BitVec 16) (rrs : List ReqRR) :
    ∀ tbl resp, (handleUpdates mk rc tbl rrs resp).2.id = resp.id := by
  induction rrs with
  | nil => intro tbl resp; rfl
  | cons rr rrs ih =>
    intro tbl resp
    simp only [handleUpdates]
    split
    · exact ih _ _
    · rfl

theorem handleUpdates_answers (mk : ReqRR → C17.Op) (rc : BitVec 16) (rrs : List ReqRR) :
    ∀ tbl resp, (handleUpdates mk rc tbl rrs resp).2.answers = resp.answers := by
  induction rrs with
  | nil => intro tbl resp; rfl
  | cons rr rrs ih =>
    intro tbl resp
    simp only [handleUpdates]
    split
    · exact ih _ _
    · rfl

theorem query_owners_hold (tbl : C17.State) (n : C17.Name) (l : List C17.IP) (t : C17.NameType)
    (h : (C17.step tbl (.query n)).2 = .owners l t) : ∀ o ∈ l, C17.Holds tbl n o := by
  simp only [C17.step] at h
  cases hl : C17.lookup tbl n with
  | none => simp [hl] at h
  | some r =>
    simp only [hl] at h
    split at h
    · simp only [C17.Out.owners.injEq] at h
      intro o ho
      exact ⟨r, hl, by rw [h.1]; exact ho⟩
    · cases h

theorem handleQuery_answers (tbl : C17.State) (qs : List Question) : ∀ resp a,
    a ∈ (handleQuery tbl qs resp).answers →
    a ∈ resp.answers ∨ ∃ q ∈ qs, a.name = q.name ∧ a.qtype = q.qtype ∧ a.qclass = q.qclass ∧ C17.Holds tbl q.name a.addr := by
  induction qs with
  | nil => intro resp a h; exact Or.inl h
  | cons q qs ih =>
    intro resp a h
    simp only [handleQuery] at h
    split at h
    · rename_i l t hq
      have := ih _ a h
      cases this with
      | inl h1 =>
        have h2 : a ∈ resp.answers ++ l.map (fun o => (⟨q.name, q.qtype, q.qclass, o⟩ : Answer)) := by
          split at h1 <;> exact h1
        cases List.mem_append.mp h2 with
        | inl h3 => exact Or.inl h3
        | inr h3 =>
          obtain ⟨o, ho, rfl⟩ := List.mem_map.mp h3
          exact Or.inr ⟨q, by simp, rfl, rfl, rfl, query_owners_hold tbl q.name l t hq o ho⟩
      | inr h1 =>
        obtain ⟨q', hq', rest⟩ := h1
        exact Or.inr ⟨q', List.mem_cons_of_mem _ hq', rest⟩
    · exact Or.inl h

theorem qlookup_qerase (qs : Queries) (n m : Nat) :
    qlookup (qerase qs n) m = if m = n then none else qlookup qs m := by
  induction qs with
  | nil => simp [qerase, qlookup]
  | cons p qs ih =>
    obtain ⟨k, v⟩ := p
    simp only [qerase, List.filter_cons] at ih ⊢
    by_cases hk : k = n
    · subst hk
      simp only [ne_eq, not_true_eq_false, decide_false, Bool.false_eq_true, ↓reduceIte, qlookup]
      rw [ih]
      by_cases hm : m = k
      · simp [hm]
      · have : k ≠ m := fun e => hm e.symm
        simp [hm, this]
    · simp only [ne_eq, hk, not_false_eq_true, decide_true, ↓reduceIte, qlookup]
      rw [ih]
      by_cases hm : m = n
      · subst hm; simp [hk]
      · simp [hm]

theorem qlookup_qput (qs : Queries) (n m : Nat) (v : Option Msg) :
    qlookup (qput qs n v) m = if m = n then some v else qlookup qs m := by
  simp only [qput, qlookup, qlookup_qerase]
  by_cases hm : m = n
  · subst hm; simp
  · have : n ≠ m := fun e => hm e.symm
    simp [hm, this]

/-- what sits in a query's channel is a response with that query's id that `readLoop` received -/
def QInv (seen : List Msg) (qs : Queries) : Prop :=
  ∀ id m, qlookup qs id = some (some m) → m.id = id ∧ m.response = true ∧ m ∈ seen

def received : List ClientEv → List Msg
  | [] => []
  | .recv m :: es => m :: received es
  | _ :: es => received es

theorem qinv_step (seen : List Msg) (qs : Queries) (e : ClientEv) (h : QInv seen qs) :
    QInv (seen ++ received [e]) (clientStep qs e) := by
  intro id m hl
  have weaken : ∀ {x}, x ∈ seen → x ∈ seen ++ received [e] := fun hx => List.mem_append_left _ hx
  cases e with
  | store k =>
    simp only [clientStep, qlookup_qput] at hl
    split at hl
    · cases hl
    · obtain ⟨a, b, c⟩ := h id m hl; exact ⟨a, b, weaken c⟩
  | delete k =>
    simp only [clientStep, qlookup_qerase] at hl
    split at hl
    · cases hl
    · obtain ⟨a, b, c⟩ := h id m hl; exact ⟨a, b, weaken c⟩
  | take k =>
    simp only [clientStep] at hl
    split at hl
    · rw [qlookup_qput] at hl
      split at hl
      · cases hl
      · obtain ⟨a, b, c⟩ := h id m hl; exact ⟨a, b, weaken c⟩
    · obtain ⟨a, b, c⟩ := h id m hl; exact ⟨a, b, weaken c⟩
  | recv x =>
    simp only [clientStep] at hl
    split at hl
    · obtain ⟨a, b, c⟩ := h id m hl; exact ⟨a, b, weaken c⟩
    · rename_i hr
      split at hl
      · rw [qlookup_qput] at hl
        split at hl
        · rename_i e
          simp only [Option.some.injEq] at hl
          subst hl
          exact ⟨e.symm, by simpa using hr, by simp [received]⟩
        · obtain ⟨a, b, c⟩ := h id m hl; exact ⟨a, b, weaken c⟩
      · obtain ⟨a, b, c⟩ := h id m hl; exact ⟨a, b, weaken c⟩
      · obtain ⟨a, b, c⟩ := h id m hl; exact ⟨a, b, weaken c⟩

theorem received_append (a b : List ClientEv) : received (a ++ b) = received a ++ received b := by
  induction a with
  | nil => rfl
  | cons e a ih => cases e <;> simp [received, ih]

theorem qinv_run (evs : List ClientEv) : ∀ seen qs, QInv seen qs → QInv (seen ++ received evs) (clientRun qs evs) := by
  induction evs with
  | nil => intro seen qs h; simpa [received, clientRun] using h
  | cons e evs ih =>
    intro seen qs h
    have h1 := qinv_step seen qs e h
    have h2 := ih _ _ h1
    have : received (e :: evs) = received [e] ++ received evs := received_append [e] evs
    rw [this, ← List.append_assoc]
    exact h2

def firstStop {μ : Type} (hs : List (μ → Bool)) (m : μ) : Nat := (hs.takeWhile (fun h => h m)).length

theorem processHandlers_spec {μ : Type} (hs : List (μ → Bool)) (m : μ) : ∀ (ran : List Nat) (i : Nat),
    processHandlers hs m ran i = ran ++ List.range' i (min (firstStop hs m + 1) hs.length) := by
  induction hs with
  | nil => intro ran i; simp [processHandlers]
  | cons h hs ih =>
    intro ran i
    simp only [processHandlers, firstStop, List.takeWhile_cons]
    by_cases hh : h m
    · simp only [hh, ↓reduceIte, List.length_cons]
      rw [ih]
      have : min ((List.takeWhile (fun h => h m) hs).length + 1 + 1) (hs.length + 1)
          = min (firstStop hs m + 1) hs.length + 1 := by
        simp only [firstStop]; omega
      rw [this, List.range'_succ, List.append_assoc]
      rfl
    · simp only [hh, Bool.false_eq_true, ↓reduceIte, List.length_nil, Nat.zero_add, List.length_cons]
      have : min 1 (hs.length + 1) = 1 := by omega
      rw [this]; rfl
/-- every pending goroutine owns the bytes of a datagram its client sent; every response sent so far
    was computed from one datagram of the client it was sent to; nothing is answered twice -/
structure Isolated {σ : Type} (respond : σ → Bytes → σ × Bytes) (w : World σ) : Prop where
  tasks : ∀ t ∈ w.tasks, ∃ b, t.view = .owned b ∧ (t.client, b) ∈ w.sent
  outbox : ∀ p ∈ w.outbox, ∃ d s, (p.1, d) ∈ w.sent ∧ p.2 = (respond s d).2
  count : w.outbox.length + w.tasks.length = w.sent.length

theorem isolated_step {σ : Type} (respond : σ → Bytes → σ × Bytes) (w : World σ) (st : Step)
    (h : Isolated respond w) : Isolated respond (wstep respond true w st) := by
  cases st with
  | recv c d =>
    simp only [wstep]
    refine ⟨?_, ?_, ?_⟩
    · intro t ht
      simp only [List.mem_append, List.mem_singleton] at ht
      cases ht with
      | inl h1 =>
        obtain ⟨b, hb, hs⟩ := h.tasks t h1
        exact ⟨b, hb, List.mem_append_left _ hs⟩
      | inr h1 =>
        subst h1
        have e : (List.take (min d.length w.buf.length) d ++ List.drop (min d.length w.buf.length) w.buf).take
            (min d.length w.buf.length) = List.take (min d.length w.buf.length) d :=
          List.take_left' (by simp)
        refine ⟨_, rfl, ?_⟩
        simp [e]
    · intro p hp
      obtain ⟨d', s, hd, hr⟩ := h.outbox p hp
      exact ⟨d', s, List.mem_append_left _ hd, hr⟩
    · have := h.count
      simp only [List.length_append, List.length_cons, List.length_nil]
      omega
  | run i =>
    simp only [wstep]
    cases hi : w.tasks[i]? with
    | none => exact h
    | some t =>
      simp only
      have hmem : t ∈ w.tasks := List.mem_of_getElem? hi
      obtain ⟨b, hb, hs⟩ := h.tasks t hmem
      refine ⟨?_, ?_, ?_⟩
      · intro t' ht'
        exact h.tasks t' (List.mem_of_mem_eraseIdx ht')
      · intro p hp
        simp only [List.mem_append, List.mem_singleton] at hp
        cases hp with
        | inl h1 => exact h.outbox p h1
        | inr h1 =>
          subst h1
          rw [hb]
          exact ⟨b, w.st, hs, rfl⟩
      · have := h.count
        have hlt : i < w.tasks.length := by
          rcases Nat.lt_or_ge i w.tasks.length with h' | h'
          · exact h'
          · rw [List.getElem?_eq_none h'] at hi; cases hi
        simp only [List.length_append, List.length_cons, List.length_nil, List.length_eraseIdx, hlt, ↓reduceIte]
        omega

theorem isolated_init {σ : Type} (respond : σ → Bytes → σ × Bytes) (cap : Nat) (s : σ) :
    Isolated respond (winit cap s) :=
  ⟨by intro t ht; simp [winit] at ht, by intro p hp; simp [winit] at hp, rfl⟩

theorem isolated_run {σ : Type} (respond : σ → Bytes → σ × Bytes) (sched : List Step) :
    ∀ w, Isolated respond w → Isolated respond (wrun respond true w sched) := by
  induction sched with
  | nil => intro w h; exact h
  | cons st sched ih => intro w h; exact ih _ (isolated_step respond w st h)

/-- the handler of the example: echo the two id bytes -/
def echoId : Unit → Bytes → Unit × Bytes := fun _ d => ((), d.take 2)

def dist : Pc → Nat
  | .exited => 0
  | .atSelect => 1
  | .inRead => 2

theorem stopped_stable (once : Bool) (s : Srv) (e : SrvEv) (hq : s.quitClosed = true) (hs : s.sockClosed = true) :
    (srvStep once s e).quitClosed = true ∧ (srvStep once s e).sockClosed = true := by
  cases e with
  | stop => cases once <;> simp [srvStep, hq, hs]
  | loop r =>
    simp only [srvStep]
    split
    · exact ⟨hq, hs⟩
    · simp only [hq, ↓reduceIte]; exact ⟨trivial, hs⟩
    · split <;> exact ⟨hq, hs⟩
  | handlerDone => exact ⟨hq, hs⟩

theorem dist_step (once : Bool) (s : Srv) (e : SrvEv) (hq : s.quitClosed = true) (hs : s.sockClosed = true)
    (hc : consistent s e = true) :
    dist (srvStep once s e).pc = dist s.pc - (match e with | .loop _ => 1 | _ => 0) := by
  cases e with
  | stop => simp only [srvStep, hq, ↓reduceIte]; split <;> rfl
  | handlerDone => rfl
  | loop r =>
    simp only [srvStep]
    cases hp : s.pc with
    | exited => simp [hp, dist]
    | atSelect => simp [hq, dist]
    | inRead =>
      simp only [consistent, hs, hp, beq_self_eq_true, Bool.and_self, Bool.not_true, Bool.false_or,
        beq_iff_eq] at hc
      subst hc
      simp [dist]

theorem stop_terminates_gen (once : Bool) (evs : List SrvEv) : ∀ s : Srv, s.quitClosed = true → s.sockClosed = true →
    Consistent once s evs → dist (srvRun once s evs).pc = dist s.pc - loopSteps evs := by
  induction evs with
  | nil => intro s _ _ _; rfl
  | cons e evs ih =>
    intro s hq hs hc
    have st := stopped_stable once s e hq hs
    have := ih _ st.1 st.2 hc.2
    simp only [srvRun, List.foldl_cons] at this ⊢
    rw [this, dist_step once s e hq hs hc.1]
    cases e <;> simp [loopSteps] <;> omega

theorem no_panic_with_once (evs : List SrvEv) : ∀ s : Srv, s.panicked = false → (srvRun true s evs).panicked = false := by
  induction evs with
  | nil => intro s h; exact h
  | cons e evs ih =>
    intro s h
    apply ih
    cases e with
    | stop => simp only [srvStep]; split <;> simp [h]
    | loop r =>
      simp only [srvStep]
      split
      · exact h
      · split <;> exact h
      · split <;> exact h
    | handlerDone => exact h

end Manticore.C18
