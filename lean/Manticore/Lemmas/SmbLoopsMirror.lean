/-
  C04 helper lemmas for the loop fragment, glue: the generic round trip of a command whose programs satisfy
  `MirrorLoops` (the proof of `mirror_roundtrip_full` / `mirror_roundtrip_core` in Lemmas/SmbMirror.lean over the
  loop fragment's layouts, with the hypothesis about the receiver's fixed arrays).
-/
import Manticore.Lemmas.SmbMirror
import Manticore.Lemmas.SmbLoopsUnmarshal
import Manticore.Lemmas.SmbLoopsReencode
namespace Manticore.SmbIR
open Manticore

theorem mem_subTypesL_sub {c : Cmd} {b : Blk} {f t : String} (h : MStmt.sub b f t ∈ c.marshal) : t ∈ c.subTypesL := by
  unfold Cmd.subTypesL
  exact List.mem_filterMap.mpr ⟨_, h, rfl⟩

theorem mem_subTypesL_forSub {c : Cmd} {b : Blk} {f t : String} (h : MStmt.forSub b f t ∈ c.marshal) : t ∈ c.subTypesL := by
  unfold Cmd.subTypesL
  exact List.mem_filterMap.mpr ⟨_, h, rfl⟩

/-- the AndX stanza assigns the AndX block only: what the run relies on in the receiver is untouched -/
theorem Recv.set_ne {fs : List String} {e env' : Env} (h : Recv fs e env') (g : String) (v : Val)
    (hg : ∀ f ∈ fs, f ≠ g) : Recv fs (e.set g v) env' := by
  intro f hf
  obtain ⟨old, xs, h1, h2, h3⟩ := h f hf
  have hne := hg f hf
  exact ⟨old, xs, by rw [Env.get_set_ne _ _ _ _ hne]; exact h1, h2, h3⟩

/-- "WordCount tells which", from the static check: behind fixed-width slots of `n` bytes in all, the parameter
    block has the word count Unmarshal tests for iff the optional field is on the wire -/
theorem optTrailing_wc {C : Codecs} {T : String → Prop} (hC : LawfulCodecs C T) (andx : Bool) (env : Env) :
    ∀ (l : List Slot) (n : Nat), optTrailing andx l n = true → (∀ sl ∈ l, SlotFit C T env sl) →
      ∀ b w e f k, Slot.opt b w e f (some k) ∈ l → ∀ x, env.get f = some (.n x) →
        (andxWords andx + (n + (layoutBytes C env l).length + 1) / 2 = k ↔ x ≠ 0) := by
  intro l
  induction l with
  | nil => intro n _ _ b w e f k hmem; cases hmem
  | cons sl r ih =>
    intro n hot hfit b w e f k hmem x hx
    have hfit' : ∀ sl ∈ r, SlotFit C T env sl := fun s hs => hfit s (List.mem_cons_of_mem _ hs)
    cases sl with
    | int b' w' e' g =>
      simp only [optTrailing] at hot
      obtain ⟨y, hy, _⟩ := hfit (.int b' w' e' g) (List.mem_cons_self ..)
      have hm : Slot.opt b w e f (some k) ∈ r := by
        rcases List.mem_cons.mp hmem with h | h
        · cases h
        · exact h
      have := ih (n + w') hot hfit' b w e f k hm x hx
      rw [layoutBytes_cons]
      simp only [slotBytes, hy, List.length_append, intBytes_length]
      rw [← this]
      constructor <;> intro h <;> rw [← h] <;> congr 2 <;> omega
    | u8 b' g =>
      simp only [optTrailing] at hot
      obtain ⟨y, hy, _⟩ := hfit (.u8 b' g) (List.mem_cons_self ..)
      have hm : Slot.opt b w e f (some k) ∈ r := by
        rcases List.mem_cons.mp hmem with h | h
        · cases h
        · exact h
      have := ih (n + 1) hot hfit' b w e f k hm x hx
      rw [layoutBytes_cons]
      simp only [slotBytes, hy, List.length_append, List.length_cons, List.length_nil]
      rw [← this]
      constructor <;> intro h <;> rw [← h] <;> congr 2 <;> omega
    | opt b' w' e' f' wc' =>
      cases r with
      | cons _ _ => simp [optTrailing] at hot
      | nil =>
        cases wc' with
        | none => simp [optTrailing] at hot
        | some k' =>
          simp only [optTrailing, Bool.and_eq_true, decide_eq_true_eq] at hot
          have heq : Slot.opt b w e f (some k) = Slot.opt b' w' e' f' (some k') := by
            rcases List.mem_cons.mp hmem with h | h
            · exact h
            · cases h
          injection heq with h1 h2 h3 h4 h5
          injection h5 with h5
          subst h1 h2 h3 h4 h5
          rw [layoutBytes_cons, layoutBytes_nil, List.append_nil]
          simp only [slotBytes, hx]
          by_cases hx0 : x = 0
          · simp only [hx0, if_true, List.length_nil, Nat.add_zero, ne_eq, not_true_eq_false, iff_false]
            exact hot.2
          · simp only [hx0, if_false, intBytes_length, ne_eq, not_false_eq_true, iff_true]
            exact hot.1
    | optInts b' w' e' f' n' wc' =>
      rcases List.mem_cons.mp hmem with h | h
      · cases h
      · cases r with
        | nil => cases h
        | cons _ _ => simp [optTrailing] at hot
    | bytes b' g len =>
      simp only [optTrailing, List.all_eq_true] at hot
      rcases List.mem_cons.mp hmem with h | h
      · cases h
      · have := hot _ h; simp at this
    | arr b' g =>
      simp only [optTrailing, List.all_eq_true] at hot
      rcases List.mem_cons.mp hmem with h | h
      · cases h
      · have := hot _ h; simp at this
    | sub b' g t win =>
      simp only [optTrailing] at hot
      cases hfs : fixedSize t with
      | none =>
        rw [hfs] at hot
        simp only [List.all_eq_true] at hot
        rcases List.mem_cons.mp hmem with h | h
        · cases h
        · have := hot _ h; simp at this
      | some sz =>
        rw [hfs] at hot
        obtain ⟨v, bs, hget, henc, hT⟩ := hfit (.sub b' g t win) (List.mem_cons_self ..)
        have hlen := hC.size t sz v bs v hT hfs henc
        have hm : Slot.opt b w e f (some k) ∈ r := by
          rcases List.mem_cons.mp hmem with h | h
          · cases h
          · exact h
        have := ih (n + sz) hot hfit' b w e f k hm x hx
        rw [layoutBytes_cons]
        simp only [slotBytes, hget, henc, List.length_append, hlen]
        rw [← this]
        constructor <;> intro h <;> rw [← h] <;> congr 2 <;> omega
    | ints b' w' e' g cnt =>
      simp only [optTrailing, List.all_eq_true] at hot
      rcases List.mem_cons.mp hmem with h | h
      · cases h
      · have := hot _ h; simp at this
    | subs b' g t cnt size =>
      simp only [optTrailing, List.all_eq_true] at hot
      rcases List.mem_cons.mp hmem with h | h
      · cases h
      · have := hot _ h; simp at this

/-- the same for an optional array: the parameter block has the word count Unmarshal tests for iff some element
    of the array is non-zero (the array has the `n` elements Unmarshal reads) -/
theorem optTrailing_wcArr {C : Codecs} {T : String → Prop} (hC : LawfulCodecs C T) (andx : Bool) (env : Env) :
    ∀ (l : List Slot) (off : Nat), optTrailing andx l off = true → (∀ sl ∈ l, SlotFit C T env sl) →
      ∀ b w e f n k, Slot.optInts b w e f n (some k) ∈ l → ∀ xs, env.get f = some (.ns xs) → xs.length = n →
        (andxWords andx + (off + (layoutBytes C env l).length + 1) / 2 = k ↔ xs.any (· != 0) = true) := by
  intro l
  induction l with
  | nil => intro off _ _ b w e f n k hmem; cases hmem
  | cons sl r ih =>
    intro off hot hfit b w e f n k hmem xs hx hlen
    have hfit' : ∀ sl ∈ r, SlotFit C T env sl := fun s hs => hfit s (List.mem_cons_of_mem _ hs)
    cases sl with
    | int b' w' e' g =>
      simp only [optTrailing] at hot
      obtain ⟨y, hy, _⟩ := hfit (.int b' w' e' g) (List.mem_cons_self ..)
      have hm : Slot.optInts b w e f n (some k) ∈ r := by
        rcases List.mem_cons.mp hmem with h | h
        · cases h
        · exact h
      have := ih (off + w') hot hfit' b w e f n k hm xs hx hlen
      rw [layoutBytes_cons]
      simp only [slotBytes, hy, List.length_append, intBytes_length]
      rw [← this]
      constructor <;> intro h <;> rw [← h] <;> congr 2 <;> omega
    | u8 b' g =>
      simp only [optTrailing] at hot
      obtain ⟨y, hy, _⟩ := hfit (.u8 b' g) (List.mem_cons_self ..)
      have hm : Slot.optInts b w e f n (some k) ∈ r := by
        rcases List.mem_cons.mp hmem with h | h
        · cases h
        · exact h
      have := ih (off + 1) hot hfit' b w e f n k hm xs hx hlen
      rw [layoutBytes_cons]
      simp only [slotBytes, hy, List.length_append, List.length_cons, List.length_nil]
      rw [← this]
      constructor <;> intro h <;> rw [← h] <;> congr 2 <;> omega
    | opt b' w' e' f' wc' =>
      rcases List.mem_cons.mp hmem with h | h
      · cases h
      · cases r with
        | nil => cases h
        | cons _ _ => simp [optTrailing] at hot
    | optInts b' w' e' f' n' wc' =>
      cases r with
      | cons _ _ => simp [optTrailing] at hot
      | nil =>
        cases wc' with
        | none => simp [optTrailing] at hot
        | some k' =>
          simp only [optTrailing, Bool.and_eq_true, decide_eq_true_eq] at hot
          have heq : Slot.optInts b w e f n (some k) = Slot.optInts b' w' e' f' n' (some k') := by
            rcases List.mem_cons.mp hmem with h | h
            · exact h
            · cases h
          injection heq with h1 h2 h3 h4 h5 h6
          injection h6 with h6
          subst h1 h2 h3 h4 h5 h6
          rw [layoutBytes_cons, layoutBytes_nil, List.append_nil]
          simp only [slotBytes, hx]
          by_cases hany : xs.any (· != 0) = true
          · simp only [hany, if_true, flatMap_intBytes_length, hlen, iff_true]
            exact hot.1
          · simp only [hany, Bool.false_eq_true, if_false, List.length_nil, Nat.add_zero, iff_false]
            exact hot.2
    | bytes b' g len =>
      simp only [optTrailing, List.all_eq_true] at hot
      rcases List.mem_cons.mp hmem with h | h
      · cases h
      · have := hot _ h; simp at this
    | arr b' g =>
      simp only [optTrailing, List.all_eq_true] at hot
      rcases List.mem_cons.mp hmem with h | h
      · cases h
      · have := hot _ h; simp at this
    | sub b' g t win =>
      simp only [optTrailing] at hot
      cases hfs : fixedSize t with
      | none =>
        rw [hfs] at hot
        simp only [List.all_eq_true] at hot
        rcases List.mem_cons.mp hmem with h | h
        · cases h
        · have := hot _ h; simp at this
      | some sz =>
        rw [hfs] at hot
        obtain ⟨v, bs, hget, henc, hT⟩ := hfit (.sub b' g t win) (List.mem_cons_self ..)
        have hlen' := hC.size t sz v bs v hT hfs henc
        have hm : Slot.optInts b w e f n (some k) ∈ r := by
          rcases List.mem_cons.mp hmem with h | h
          · cases h
          · exact h
        have := ih (off + sz) hot hfit' b w e f n k hm xs hx hlen
        rw [layoutBytes_cons]
        simp only [slotBytes, hget, henc, List.length_append, hlen']
        rw [← this]
        constructor <;> intro h <;> rw [← h] <;> congr 2 <;> omega
    | ints b' w' e' g cnt =>
      simp only [optTrailing, List.all_eq_true] at hot
      rcases List.mem_cons.mp hmem with h | h
      · cases h
      · have := hot _ h; simp at this
    | subs b' g t cnt size =>
      simp only [optTrailing, List.all_eq_true] at hot
      rcases List.mem_cons.mp hmem with h | h
      · cases h
      · have := hot _ h; simp at this

structure MirrorFactsL (c : Cmd) (body : List UStmt) (m u : List Slot) : Prop where
  hbody : bodyN c = some body
  lm : layoutML c.marshal = some m
  lu : layoutUL body = some u
  agP : agreeAll (m.filter (·.blk == .P)) (u.filter (·.blk == .P)) = true
  agD : agreeAll (m.filter (·.blk == .D)) (u.filter (·.blk == .D)) = true
  lastP : restOnlyLast (u.filter (·.blk == .P)) = true
  lastD : restOnlyLast (u.filter (·.blk == .D)) = true
  stable : stableM c.marshal = true
  noAndx : c.marshal.all (fun s => s.modifies != some andxField) = true
  ok : okUL (!(u.filter (·.blk == .P)).isEmpty) (!(u.filter (·.blk == .D)).isEmpty) {}
    (if c.isAndX then [andxField] else []) body = true
  covered : ∀ f ∈ c.fields.map (·.1), f ∈ u.map Slot.field
  range : ∀ f ∈ recvFields body, f ≠ andxField ∧ c.marshal.all (fun s => s.modifies != some f) = true
  optP : optTrailing c.isAndX (u.filter (·.blk == .P)) 0 = true
  optD : ∀ sl ∈ u.filter (·.blk == .D), (match sl with | .opt .. | .optInts .. => false | _ => true) = true

theorem mirror_factsL {c : Cmd} (hm : MirrorLoops c = true) : ∃ body m u, MirrorFactsL c body m u := by
  unfold MirrorLoops at hm
  split at hm
  · cases hm
  · rename_i body hbody
    split at hm
    · rename_i m u hlm hlu
      simp only [mirrorSlots, Bool.and_eq_true, List.all_eq_true, List.contains_iff_mem] at hm
      obtain ⟨⟨⟨⟨⟨⟨⟨⟨⟨⟨h1, h2⟩, h3⟩, h4⟩, h6⟩, h6a⟩, h7⟩, h8⟩, h9⟩, h10⟩, h11⟩ := hm
      refine ⟨body, m, u, hbody, hlm, hlu, h1, h2, h3, h4, h6, List.all_eq_true.mpr h6a, h7, h8, ?_, h10, h11⟩
      intro f hf
      have := h9 f hf
      simp only [Bool.and_eq_true, bne_iff_ne, ne_eq, List.all_eq_true] at this
      exact ⟨this.1, List.all_eq_true.mpr (by simpa using this.2)⟩
    · cases hm

/-- everything the round trip establishes, for the two corollaries -/
theorem mirror_loops_roundtrip_full {C : Codecs} {T : String → Prop} (hC : LawfulCodecs C T) (c : Cmd)
    (hm : MirrorLoops c = true) (hT : ∀ t ∈ c.subTypesL, T t) (env0 env : Env) (hc : consistent C c env = true)
    (hrecv : receiverFits c env0 env = true) :
    ∃ (body : List UStmt) (m u : List Slot) (sM : MState) (d : Env),
      MirrorFactsL c body m u ∧ runM C c env = .ok sM ∧ sM.head = [] ∧
      sM.P = layoutBytes C sM.env (m.filter (·.blk == .P)) ∧ sM.D = layoutBytes C sM.env (m.filter (·.blk == .D)) ∧
      (∀ sl ∈ m, SlotFit C T sM.env sl) ∧
      decodeCmd C c env0 (paramBlock c.isAndX (axOf c env) sM.P ++ dataBlock sM.D) = .ok d ∧
      sM.env.get andxField = (prologueEnv c.isAndX env).get andxField ∧
      (c.isAndX = true → d.get andxField = sM.env.get andxField ∧ (sM.env.get andxField).isSome = true) ∧
      ((∀ f ∈ u.map Slot.field, d.get f = sM.env.get f) ∨ c.fields = []) := by
  obtain ⟨body, m, u, F⟩ := mirror_factsL hm
  unfold consistent at hc
  rw [Bool.and_eq_true] at hc
  obtain ⟨haok, hc⟩ := hc
  split at hc
  case h_2 => cases hc
  rename_i sM hrun
  simp only [Bool.and_eq_true, decide_eq_true_eq, beq_iff_eq, Bool.or_eq_true, List.isEmpty_iff] at hc
  obtain ⟨⟨⟨⟨⟨hints, hrel⟩, heven⟩, hwc⟩, hdl⟩, hne⟩ := hc
  -- marshal side
  have hTm : ∀ b f t, MStmt.sub b f t ∈ c.marshal → T t := fun b f t h => hT t (mem_subTypesL_sub h)
  have hTl : ∀ b f t, MStmt.forSub b f t ∈ c.marshal → T t := fun b f t h => hT t (mem_subTypesL_forSub h)
  obtain ⟨hP, hD, hH, hfitM⟩ := runMStmts_layoutL hC c.isAndX c.marshal m { env := prologueEnv c.isAndX env } sM F.lm
    F.stable hTm hTl hrun hints
  -- a program of the fragment puts nothing ahead of the parameter block
  have hhead : sM.head = [] := hH
  simp only [List.nil_append] at hP hD
  have hframe : sM.env.get andxField = (prologueEnv c.isAndX env).get andxField :=
    runMStmts_frameL C c.isAndX c.marshal m { env := prologueEnv c.isAndX env } sM F.lm hrun andxField F.noAndx
  obtain ⟨hbP', hfP, hnilP⟩ := agreeAll_bytes (C := C) (T := T) (env := sM.env) _ _ F.agP
  obtain ⟨hbD, hfD, _⟩ := agreeAll_bytes (C := C) (T := T) (env := sM.env) _ _ F.agD
  have hfitU : ∀ sl ∈ u, SlotFit C T sM.env sl := by
    intro sl hsl
    cases hb : sl.blk
    · exact hfP (fun s hs => hfitM s (List.mem_filter.mp hs).1) sl (by have := mem_filter_blk u sl hsl; rwa [hb] at this)
    · exact hfD (fun s hs => hfitM s (List.mem_filter.mp hs).1) sl (by have := mem_filter_blk u sl hsl; rwa [hb] at this)
  have hsp := splitParams_paramBlock c.isAndX (axOf c env) sM.P (dataBlock sM.D) heven hwc
    (andxBytesOf_length c.isAndX _)
  have hsd := splitData_dataBlock sM.D hdl
  -- unmarshal side
  have hrestU : ∀ b, restOnlyLast (u.filter (·.blk == b)) = true := by
    intro b; cases b
    · exact F.lastP
    · exact F.lastD
  let s0 : UState :=
    { P := axOf c env ++ sM.P, D := sM.D,
      Pext := List.replicate (streamCap (axOf c env ++ sM.P).length - (axOf c env ++ sM.P).length) 0,
      Dext := [], wordCount := wordCountOf c.isAndX sM.P, env := env0 }
  -- the AndX stanza (if any) stores the AndX block and hands the command's own parameters to the rest of the program
  -- the receiver's fixed arrays against the sender's, which Marshal did not touch
  have hsz0 : Recv (recvFields body) env0 sM.env := by
    intro p hp
    obtain ⟨hne, hnomod⟩ := F.range p hp
    have hfr : sM.env.get p = env.get p := by
      rw [runMStmts_frameL C c.isAndX c.marshal m { env := prologueEnv c.isAndX env } sM F.lm hrun p hnomod]
      show (prologueEnv c.isAndX env).get p = env.get p
      unfold prologueEnv
      split
      · exact Env.get_set_ne _ _ _ _ hne
      · rfl
    unfold receiverFits at hrecv
    rw [F.hbody] at hrecv
    have := List.all_eq_true.mp hrecv p hp
    split at this
    · rename_i a b' ha hb
      exact ⟨a, b', ha, by rw [hfr]; exact hb, by simpa using this⟩
    · cases this
  have hgo : ∃ (s1 : UState), s1.P = sM.P ∧ s1.D = sM.D ∧ s1.offset = 0 ∧
      runU.go C s0 c.unmarshal = runU.go C s1 body ∧ relationsHold C sM.env sM.P.length 0 body = true ∧
      Agree (if c.isAndX then [andxField] else []) s1.env sM.env ∧
      (c.isAndX = true → (sM.env.get andxField).isSome = true) ∧ Recv (recvFields body) s1.env sM.env ∧
      s1.wordCount = wordCountOf c.isAndX sM.P ∧ s1.pad = 0 := by
    have hb := F.hbody
    unfold bodyN bodyU at hb
    cases ha : c.isAndX with
    | false =>
      rw [ha] at hb
      simp only [Bool.false_eq_true, if_false, Option.map_some, Option.some.injEq] at hb
      subst hb
      rw [← relationsHold_normWhole C sM.env sM.P.length c.unmarshal 0] at hrel
      rw [← go_normWhole C c.unmarshal s0]
      exact ⟨s0, by simp [s0, axOf, ha, andxBytesOf], rfl, rfl, rfl, hrel, fun f hf => by simp at hf,
        (fun h => by cases h), hsz0, by simp [s0, ha], rfl⟩
    | true =>
      rw [ha] at hb haok hframe
      simp only [if_true, Option.map_eq_some_iff] at hb
      obtain ⟨body0, hb, rfl⟩ := hb
      obtain ⟨a, b, cc, dd, hax, hval⟩ := andxOk_decode env haok
      have h0 : s0.P = a :: b :: cc :: dd :: sM.P := by simp [s0, axOf, ha, hax]
      refine ⟨afterAndX s0 a b cc dd sM.P, rfl, rfl, rfl,
        (go_andx_prefix C a b cc dd sM.P c.unmarshal body0 s0 hb h0).trans (go_normWhole C body0 _).symm, ?_, ?_, fun _ => ?_, ?_, by simp [afterAndX, s0, ha], rfl⟩
      · rw [relationsHold_normWhole, ← relationsHold_splitAndX C sM.env sM.P.length c.unmarshal body0 0 hb]; exact hrel
      · intro f hf
        have : f = andxField := by simpa using hf
        subst this
        show (env0.set andxField (andxVal a b cc dd)).get andxField = _
        rw [Env.get_set_self, hframe, hval]
      · rw [hframe, hval]; rfl
      · show Recv (recvFields (normWhole body0)) (env0.set andxField (andxVal a b cc dd)) sM.env
        exact hsz0.set_ne andxField _ (fun p hp => (F.range p hp).1)
  obtain ⟨s1, h1P, h1D, h1o, hgo, hrelB, hag1, hseenA, hsz1, hwc1, hpad1⟩ := hgo
  have hwc : WcTells sM.env s1.wordCount u := by
    refine ⟨?_, ?_⟩
    · intro b w e f k hmem x hx
      have hbP : b = .P := by
        cases b with
        | P => rfl
        | D =>
          have := F.optD (.opt .D w e f (some k)) (List.mem_filter.mpr ⟨hmem, by simp [Slot.blk]⟩)
          simp at this
      subst hbP
      have := optTrailing_wc (C := C) (T := T) hC c.isAndX sM.env (u.filter (·.blk == .P)) 0 F.optP
        (fun sl hsl => hfitU sl (List.mem_filter.mp hsl).1) .P w e f k
        (List.mem_filter.mpr ⟨hmem, by simp [Slot.blk]⟩) x hx
      rw [hwc1, wordCountOf, hP, hbP']
      simpa using this
    · intro b w e f n k hmem xs hx hlen
      have hbP : b = .P := by
        cases b with
        | P => rfl
        | D =>
          have := F.optD (.optInts .D w e f n (some k)) (List.mem_filter.mpr ⟨hmem, by simp [Slot.blk]⟩)
          simp at this
      subst hbP
      have := optTrailing_wcArr (C := C) (T := T) hC c.isAndX sM.env (u.filter (·.blk == .P)) 0 F.optP
        (fun sl hsl => hfitU sl (List.mem_filter.mp hsl).1) .P w e f n k
        (List.mem_filter.mpr ⟨hmem, by simp [Slot.blk]⟩) xs hx hlen
      rw [hwc1, wordCountOf, hP, hbP']
      simpa using this
  have hinv : Inv C sM.env {} s1.P s1.D s1.offset u := by
    rw [h1P, h1D, h1o]
    refine ⟨?_, ?_, fun _ => rfl⟩
    · intro b _
      right
      cases b
      · show sM.P = _
        rw [hP, hbP']
      · show sM.D = _
        rw [hD, hbD]
    · intro b hb; cases hb
  obtain ⟨d, hd, hseen, hagree⟩ := runU_go_layoutL hC sM.env sM.P.length _ _ body u {} _ s1 0 F.lu
    F.ok hrelB hfitU hrestU hinv hag1 hsz1 hwc hpad1 (by rw [h1P])
  rw [h1P, h1D] at hagree
  have hdec : decodeCmd C c env0 (paramBlock c.isAndX (axOf c env) sM.P ++ dataBlock sM.D) = .ok d := by
    unfold decodeCmd
    rw [hsp]
    simp only []
    rw [hsd]
    exact hgo.trans hd
  refine ⟨body, m, u, sM, d, F, hrun, hhead, hP, hD, hfitM, hdec, hframe,
    fun ha => ⟨hseen andxField (by rw [ha]; simp), hseenA ha⟩, ?_⟩
  rcases hne with (hp | hdd) | hemp
  · left
    intro f hf
    have hPne : sM.P ≠ [] := by intro e; rw [e] at hp; simp at hp
    refine hagree (Or.inl ⟨?_, ?_⟩) f (Or.inr hf)
    · have : u.filter (·.blk == .P) ≠ [] := by
        intro e; apply hPne; rw [hP, hbP', e]; rfl
      simpa using this
    · exact hPne
  · left
    intro f hf
    have hDne : sM.D ≠ [] := by intro e; rw [e] at hdd; simp at hdd
    refine hagree (Or.inr ⟨?_, hDne⟩) f (Or.inr hf)
    have : u.filter (·.blk == .D) ≠ [] := by
      intro e; apply hDne; rw [hD, hbD, e]; rfl
    simpa using this
  · exact Or.inr hemp

/-- **Generic round trip of a mirror-image command** (the property theorem `Manticore.C04.mirror_loops_roundtrip`
    is this statement). -/
theorem mirror_loops_roundtrip_core {C : Codecs} {T : String → Prop} (hC : LawfulCodecs C T) (c : Cmd)
    (hm : MirrorLoops c = true) (hT : ∀ t ∈ c.subTypesL, T t) (env0 env : Env) (hc : consistent C c env = true)
    (hrecv : receiverFits c env0 env = true) :
    ∃ bs env' d, encodeCmd C c env = .ok bs ∧ envAfterMarshal C c env = .ok env' ∧
      decodeCmd C c env0 bs = .ok d ∧ ∀ f ∈ c.roundTripFields, d.get f = env'.get f := by
  obtain ⟨_, m, u, sM, d, F, hrun, hhead, _, _, _, hdec, _, hax, hag⟩ := mirror_loops_roundtrip_full hC c hm hT env0 env hc hrecv
  refine ⟨paramBlock c.isAndX (axOf c env) sM.P ++ dataBlock sM.D, sM.env, d, ?_, ?_, hdec, ?_⟩
  · simp only [encodeCmd, hrun, hhead, List.nil_append, axOf]
  · simp only [envAfterMarshal, hrun]
  · intro f hf
    unfold Cmd.roundTripFields at hf
    rcases List.mem_append.mp hf with hf | hf
    · rcases hag with h | h
      · exact h f (F.covered f hf)
      · rw [h] at hf; cases hf
    · cases ha : c.isAndX with
      | false => rw [ha] at hf; cases hf
      | true =>
        rw [ha] at hf
        have : f = andxField := List.mem_singleton.mp hf
        subst this
        exact (hax ha).1

/-- **Re-encoding**: marshalling the decoded fields again yields the same bytes. -/
theorem mirror_loops_reencode_core {C : Codecs} {T F : String → Prop} (hC : LawfulCodecs C T) (hF : LawfulFmt C F) (c : Cmd)
    (hm : MirrorLoops c = true) (hre : ReencodableL c = true) (hT : ∀ t ∈ c.subTypesL, T t) (hFt : ∀ t ∈ c.fmtTypes, F t)
    (env0 env : Env) (hc : consistent C c env = true) (hrecv : receiverFits c env0 env = true) :
    ∃ bs d, encodeCmd C c env = .ok bs ∧ decodeCmd C c env0 bs = .ok d ∧ encodeCmd C c d = .ok bs := by
  obtain ⟨_, m, u, sM, d, Fc, hrun, hhead, hP, hD, hfit, hdec, hframe, hax, hag⟩ :=
    mirror_loops_roundtrip_full hC c hm hT env0 env hc hrecv
  have henc : encodeCmd C c env = .ok (paramBlock c.isAndX (axOf c env) sM.P ++ dataBlock sM.D) := by
    simp only [encodeCmd, hrun, hhead, List.nil_append, axOf]
  refine ⟨_, d, henc, hdec, ?_⟩
  -- the decoded command holds the sender's AndX block: its prologue changes nothing, and the same four bytes go out
  have hpd : prologueEnv c.isAndX d = d :=
    prologueEnv_id c.isAndX d (fun ha => by rw [(hax ha).1]; exact (hax ha).2)
  have haxd : axOf c d = axOf c env := by
    unfold axOf
    rw [hpd]
    cases ha : c.isAndX with
    | false => rfl
    | true =>
      apply andxBytesOf_congr
      rw [ha] at hframe
      rw [(hax ha).1, hframe]
  unfold ReencodableL at hre
  rw [Fc.lm, Bool.and_eq_true, Bool.and_eq_true] at hre
  obtain ⟨⟨hreM, hlenD⟩, hdecl⟩ := hre
  simp only [List.all_eq_true, List.contains_iff_mem] at hlenD
  rcases hag with hag | hemp
  · -- the decoded fields agree with the sender's on every slot of the layout
    have hmem : ∀ sl ∈ m, sl.field ∈ u.map Slot.field := by
      intro sl hsl
      have h1 : sl.field ∈ (m.filter (·.blk == sl.blk)).map Slot.field :=
        List.mem_map_of_mem (mem_filter_blk m sl hsl)
      have h2 : (m.filter (·.blk == sl.blk)).map Slot.field = (u.filter (·.blk == sl.blk)).map Slot.field := by
        cases sl.blk
        · exact agreeAll_fields _ _ Fc.agP
        · exact agreeAll_fields _ _ Fc.agD
      rw [h2] at h1
      obtain ⟨sl', hsl', he⟩ := List.mem_map.mp h1
      exact List.mem_map.mpr ⟨sl', (List.mem_filter.mp hsl').1, he⟩
    obtain ⟨t', hr, _, hP', hD', hH'⟩ := runMStmts_againL (T := T) hF c.isAndX c.marshal m
      { env := prologueEnv c.isAndX env } sM { env := d }
      (u.map Slot.field) Fc.lm Fc.stable hreM hFt (fun g hg => Fc.covered g (hlenD g hg)) hrun hfit hmem hag
    simp only [List.nil_append] at hP' hD'
    have hrun' : runM C c d = .ok t' := by unfold runM; rw [hpd]; exact hr
    have := haxd
    unfold axOf at this
    simp only [encodeCmd, hrun', hH', hP', hD', ← hP, ← hD, List.nil_append, this, axOf]
  · -- no declared field: the marshal program is empty
    have hm0 : m = [] := by
      rw [hemp] at hdecl
      cases m with
      | nil => rfl
      | cons a _ => simp at hdecl
    subst hm0
    have hlen0 : lenFieldsM c.marshal = [] := by
      cases hl : lenFieldsM c.marshal with
      | nil => rfl
      | cons a _ =>
        have := hlenD a (by rw [hl]; exact List.mem_cons_self ..)
        rw [hemp] at this; cases this
    have hnil := layoutML_nil_reencodable c.marshal Fc.lm hreM hlen0
    have h1 : runM C c d = .ok { env := prologueEnv c.isAndX d } := by unfold runM; rw [hnil, runMStmts]
    have h2 : runM C c env = .ok { env := prologueEnv c.isAndX env } := by unfold runM; rw [hnil, runMStmts]
    rw [h2] at hrun
    injection hrun with hrun
    subst hrun
    have := haxd
    unfold axOf at this
    simp only [encodeCmd, h1, List.nil_append, this, axOf]

end Manticore.SmbIR
