/-
  Helper lemmas for C13 (binary side): the nibble interleaving of `UUID.Marshal`/`Unmarshal`, the field
  packing of UUIDv1/UUIDv2 and the mixed-endian GUID layout, each as a pair of inverse directions.
  All proofs are kernel-only bit extensionality (`Lemmas/Bits.lean`).
-/
import Manticore.Model.C13
import Manticore.Lemmas.Endian
set_option linter.unusedSimpArgs false
namespace Manticore.C13
open Manticore

/-- push `toBitVec` through every operation and width conversion used by the models -/
macro "uint_norm" : tactic => `(tactic|
  simp only [UInt64.toBitVec_or, UInt64.toBitVec_and, UInt64.toBitVec_shiftLeft, UInt64.toBitVec_shiftRight,
    UInt32.toBitVec_or, UInt32.toBitVec_and, UInt32.toBitVec_shiftLeft, UInt32.toBitVec_shiftRight,
    UInt16.toBitVec_or, UInt16.toBitVec_and, UInt16.toBitVec_shiftLeft, UInt16.toBitVec_shiftRight,
    UInt8.toBitVec_or, UInt8.toBitVec_and, UInt8.toBitVec_shiftLeft, UInt8.toBitVec_shiftRight,
    UInt64.toBitVec_toUInt32, UInt64.toBitVec_toUInt16, UInt64.toBitVec_toUInt8,
    UInt32.toBitVec_toUInt8, UInt32.toBitVec_toUInt16, UInt32.toBitVec_toUInt64,
    UInt16.toBitVec_toUInt8, UInt16.toBitVec_toUInt32, UInt16.toBitVec_toUInt64,
    UInt8.toBitVec_toUInt16, UInt8.toBitVec_toUInt32, UInt8.toBitVec_toUInt64])

macro "u8_bits" : tactic => `(tactic| (apply UInt8.eq_of_toBitVec_eq; uint_norm; bv_bits8))
macro "u16_bits" : tactic => `(tactic| (apply UInt16.eq_of_toBitVec_eq; uint_norm; bv_bits16))
macro "u32_bits" : tactic => `(tactic| (apply UInt32.eq_of_toBitVec_eq; uint_norm; bv_bits32))
macro "u64_bits" : tactic => `(tactic| (apply UInt64.eq_of_toBitVec_eq; uint_norm; bv_bits64))

/-! ### generic UUID -/

theorem unmarshal_cons16 (m0 m1 m2 m3 m4 m5 m6 m7 m8 m9 m10 m11 m12 m13 m14 m15 : UInt8) (rest : Bytes) :
    unmarshal (m0 :: m1 :: m2 :: m3 :: m4 :: m5 :: m6 :: m7 :: m8 :: m9 :: m10 :: m11 :: m12 :: m13 :: m14 :: m15 :: rest) =
      .ok { version := (m6 &&& 0xF0) >>> 4
            variant := (m8 &&& 0xF0) >>> 4
            data := ⟨m0, m1, m2, m3, m4, m5,
                     ((m6 &&& 0x0F) <<< 4) ||| ((m7 &&& 0xF0) >>> 4),
                     ((m7 &&& 0x0F) <<< 4) ||| (m8 &&& 0x0F),
                     m9, m10, m11, m12, m13, m14, m15⟩ } := by
  unfold unmarshal
  rw [if_neg (by simp only [List.length_cons]; omega)]

theorem length_marshal (u : UUID) : (marshal u).length = 16 := rfl

/-- a byte string of length at least 16 starts with 16 bytes -/
theorem exists_cons16 (m : Bytes) (h : 16 ≤ m.length) :
    ∃ m0 m1 m2 m3 m4 m5 m6 m7 m8 m9 m10 m11 m12 m13 m14 m15 rest,
      m = m0 :: m1 :: m2 :: m3 :: m4 :: m5 :: m6 :: m7 :: m8 :: m9 :: m10 :: m11 :: m12 :: m13 :: m14 :: m15 :: rest := by
  match m, h with
  | m0 :: m1 :: m2 :: m3 :: m4 :: m5 :: m6 :: m7 :: m8 :: m9 :: m10 :: m11 :: m12 :: m13 :: m14 :: m15 :: rest, _ =>
    exact ⟨m0, m1, m2, m3, m4, m5, m6, m7, m8, m9, m10, m11, m12, m13, m14, m15, rest, rfl⟩

theorem unmarshal_marshal (u : UUID) :
    unmarshal (marshal u) = .ok { version := u.version &&& 0xF, variant := u.variant &&& 0xF, data := u.data } := by
  obtain ⟨ver, var, ⟨d0, d1, d2, d3, d4, d5, d6, d7, d8, d9, d10, d11, d12, d13, d14⟩⟩ := u
  simp only [marshal, unmarshal_cons16]
  simp only [Outcome.ok.injEq, UUID.mk.injEq, Data15.mk.injEq, true_and, and_true]
  refine ⟨?_, ?_, ?_, ?_⟩ <;> u8_bits

theorem marshal_unmarshal (m : Bytes) (u : UUID) (h : unmarshal m = .ok u) : marshal u = m.take 16 := by
  unfold unmarshal at h
  split at h
  · simp at h
  · split at h
    · simp only [Outcome.ok.injEq] at h
      subst h
      simp only [marshal, List.take_succ_cons, List.take_zero, List.cons.injEq, true_and, and_true]
      refine ⟨?_, ?_, ?_⟩ <;> u8_bits
    · simp at h

theorem unmarshal_ok_length (m : Bytes) (u : UUID) (h : unmarshal m = .ok u) : 16 ≤ m.length := by
  unfold unmarshal at h
  split at h
  · simp at h
  · omega

/-- the version and variant `Unmarshal` returns always fit in four bits -/
theorem unmarshal_widths (m : Bytes) (u : UUID) (h : unmarshal m = .ok u) :
    u.version &&& 0xF = u.version ∧ u.variant &&& 0xF = u.variant := by
  obtain ⟨m0, m1, m2, m3, m4, m5, m6, m7, m8, m9, m10, m11, m12, m13, m14, m15, rest, rfl⟩ :=
    exists_cons16 m (unmarshal_ok_length m u h)
  rw [unmarshal_cons16] at h
  simp only [Outcome.ok.injEq] at h
  subst h
  constructor <;> u8_bits

/-- marshalling depends on the low four bits of version and variant only -/
theorem marshal_mask (ver var : UInt8) (d : Data15) :
    marshal ⟨ver &&& 0xF, var &&& 0xF, d⟩ = marshal ⟨ver, var, d⟩ := by
  simp only [marshal, List.cons.injEq, true_and, and_true]
  refine ⟨?_, ?_⟩ <;> u8_bits

end Manticore.C13
