/-
  Helper lemmas for C08 (NTLMSSP layouts): little-endian readings of what the model writes, and
  "a descriptor written at `pos` for a field placed at `off` designates that field".
-/
import Manticore.Model.C08
import Manticore.Lemmas.Endian
namespace Manticore.C08
open Manticore
theorem leNat_putLe16 (x : UInt16) : leNat (putLe16 x) = x.toNat := by
  simp [putLe16, leNat, UInt16.toNat_toUInt8, UInt16.toNat_shiftRight]
  have := x.toNat_lt
  omega

theorem leNat_putLe32 (x : UInt32) : leNat (putLe32 x) = x.toNat := by
  simp [putLe32, leNat, UInt32.toNat_toUInt8, UInt32.toNat_shiftRight]
  have := x.toNat_lt
  omega

theorem toNat_ofNat16 (n : Nat) (h : n < 65536) : (UInt16.ofNat n).toNat = n := by
  simp [UInt16.toNat_ofNat']; omega
theorem toNat_ofNat32 (n : Nat) (h : n < 4294967296) : (UInt32.ofNat n).toNat = n := by
  simp [UInt32.toNat_ofNat']; omega

theorem putLe16_length (x : UInt16) : (putLe16 x).length = 2 := rfl
theorem putLe32_length (x : UInt32) : (putLe32 x).length = 4 := rfl
theorem descriptor_length (l o : Nat) : (descriptor l o).length = 8 := rfl

/-- a descriptor written at `pos` for a field lying at `off` is read back as designating it -/
theorem designates_of_layout (msg pre post pre' post' field : Bytes) (pos off : Nat)
    (h1 : msg = pre ++ descriptor field.length off ++ post) (hp : pre.length = pos)
    (h2 : msg = pre' ++ field ++ post') (ho : pre'.length = off)
    (hl : field.length < 65536) (hoff : off < 4294967296) :
    Spec.designates msg pos field off = true := by
  have hfield : Spec.fieldAt msg pos = (field.length, field.length, off) := by
    subst hp
    rw [h1]
    simp only [Spec.fieldAt, descriptor, List.append_assoc]
    rw [List.drop_left]
    have e2 : pre ++ (putLe16 (UInt16.ofNat field.length) ++ (putLe16 (UInt16.ofNat field.length) ++ (putLe32 (UInt32.ofNat off) ++ post)))
        = (pre ++ putLe16 (UInt16.ofNat field.length)) ++ (putLe16 (UInt16.ofNat field.length) ++ (putLe32 (UInt32.ofNat off) ++ post)) := by
      simp
    have e4 : pre ++ (putLe16 (UInt16.ofNat field.length) ++ (putLe16 (UInt16.ofNat field.length) ++ (putLe32 (UInt32.ofNat off) ++ post)))
        = (pre ++ putLe16 (UInt16.ofNat field.length) ++ putLe16 (UInt16.ofNat field.length)) ++ (putLe32 (UInt32.ofNat off) ++ post) := by
      simp
    have l2 : (pre ++ putLe16 (UInt16.ofNat field.length)).length = pre.length + 2 := by simp [putLe16_length]
    have l4 : (pre ++ putLe16 (UInt16.ofNat field.length) ++ putLe16 (UInt16.ofNat field.length)).length = pre.length + 4 := by
      simp [putLe16_length]
    have t2 : ∀ (x : UInt16) (r : Bytes), (putLe16 x ++ r).take 2 = putLe16 x := by intro x r; rfl
    have t4 : ∀ (x : UInt32) (r : Bytes), (putLe32 x ++ r).take 4 = putLe32 x := by intro x r; rfl
    rw [t2]
    conv => lhs; arg 2; arg 1; rw [e2, ← l2, List.drop_left, t2]
    conv => lhs; arg 2; arg 2; rw [e4, ← l4, List.drop_left, t4]
    rw [leNat_putLe16, leNat_putLe32, toNat_ofNat16 _ hl, toNat_ofNat32 _ hoff]
  have hlen : off + field.length ≤ msg.length := by
    rw [h2]; simp; omega
  have hbytes : (msg.drop off).take field.length = field := by
    subst ho
    rw [h2, List.append_assoc, List.drop_left, List.take_left]
  simp [Spec.designates, hfield, hlen, hbytes]

theorem negName_eq (upper utf16 : Bytes → Bytes) (u : Bool) (s : Bytes) :
  negName upper utf16 u s = Spec.negotiateName upper utf16 u s := rfl

theorem signature_length : signature.length = 8 := rfl
theorem zeros_length (n : Nat) : (zeros n).length = n := by simp [zeros]

macro "len_tac" : tactic => `(tactic|
  (simp only [List.length_append, signature_length, putLe32_length, descriptor_length, zeros_length,
     List.length_nil, *] <;> omega))

theorem u32Field_at (msg pre post : Bytes) (x : UInt32) (pos : Nat)
    (h : msg = pre ++ putLe32 x ++ post) (hp : pre.length = pos) : Spec.u32Field msg pos = x.toNat := by
  subst hp
  rw [h, Spec.u32Field, List.append_assoc, List.drop_left]
  show leNat (putLe32 x) = _
  exact leNat_putLe32 x

theorem unicode_bit (flags : UInt32) : (flags &&& F_UNICODE ≠ 0) ↔ flags.toNat % 2 = 1 := by
  have h : (flags &&& F_UNICODE).toNat = flags.toNat % 2 := by
    simp [F_UNICODE, UInt32.toNat_and, Nat.and_one_is_mod]
  constructor
  · intro hne
    have : (flags &&& F_UNICODE).toNat ≠ 0 := by
      intro h0; apply hne; exact UInt32.toNat_inj.mp (by simpa using h0)
    omega
  · intro h1 h0
    rw [h0] at h; simp at h; omega

theorem authNames_spec (upper utf16 : Bytes → Bytes) (flags : UInt32) (user domain ws : Bytes) :
    authNames upper utf16 flags user domain ws =
      { domain := Spec.authName utf16 flags domain, user := Spec.authName utf16 flags user,
        workstation := Spec.authName utf16 flags (upper ws) } := by
  unfold authNames Spec.authName
  by_cases h : flags &&& F_UNICODE ≠ 0
  · rw [if_pos h, if_pos ((unicode_bit flags).mp h), if_pos ((unicode_bit flags).mp h), if_pos ((unicode_bit flags).mp h)]
  · have h' : ¬ flags.toNat % 2 = 1 := fun x => h ((unicode_bit flags).mpr x)
    rw [if_neg h, if_neg h', if_neg h', if_neg h']

theorem leNat_lt (b : Bytes) : leNat b < 256 ^ b.length := by
  induction b with
  | nil => simp [leNat]
  | cons x xs ih =>
    simp only [leNat, List.length_cons, Nat.pow_succ]
    have := x.toNat_lt
    omega

theorem designates_length_lt (msg : Bytes) (pos : Nat) (field : Bytes) (off : Nat)
    (h : Spec.designates msg pos field off = true) : field.length < 65536 := by
  simp only [Spec.designates, Spec.fieldAt, Bool.and_eq_true, beq_iff_eq, Prod.mk.injEq] at h
  have h1 := h.1.1.1
  have := leNat_lt ((msg.drop pos).take 2)
  have hl : ((msg.drop pos).take 2).length ≤ 2 := by simp; omega
  have : 256 ^ ((msg.drop pos).take 2).length ≤ 256 ^ 2 := Nat.pow_le_pow_right (by omega) hl
  omega


theorem negotiate_invalid_of_long (s : Bytes) (hs : 65536 ≤ s.length) :
    Spec.validNegotiate (createNegotiate id id s [] false) false true false
      (Spec.negotiateName id id false s) (Spec.negotiateName id id false []) = false := by
  apply Bool.eq_false_iff.mpr
  intro h
  simp only [Spec.validNegotiate, Bool.and_eq_true] at h
  have := designates_length_lt _ _ _ _ h.1.1.2
  have hne : s ≠ [] := by intro h0; rw [h0] at hs; simp at hs
  have e : (Spec.negotiateName id id false s).length = s.length := by
    unfold Spec.negotiateName
    rw [if_neg hne]; rfl
  omega

theorem len8 (l : Bytes) (h : l.length = 8) : ∃ a0 a1 a2 a3 a4 a5 a6 a7, l = [a0,a1,a2,a3,a4,a5,a6,a7] := by
  match l, h with
  | [a0,a1,a2,a3,a4,a5,a6,a7], _ => exact ⟨a0,a1,a2,a3,a4,a5,a6,a7, rfl⟩

theorem u8_ofNat_mod (n : Nat) : UInt8.ofNat (n % 256) = UInt8.ofNat n := by
  apply UInt8.toNat_inj.mp; simp [UInt8.toNat_ofNat']

theorem le16_natLe (n : Nat) (h : n < 65536) :
    le16 (UInt8.ofNat (n % 256)) (UInt8.ofNat (n / 256 % 256)) = UInt16.ofNat n := by
  have := le16_bytes (UInt16.ofNat n)
  have e1 : (UInt16.ofNat n).toUInt8 = UInt8.ofNat (n % 256) := by
    apply UInt8.toNat_inj.mp; simp [UInt8.toNat_ofNat']
  have e2 : ((UInt16.ofNat n) >>> 8).toUInt8 = UInt8.ofNat (n / 256 % 256) := by
    apply UInt8.toNat_inj.mp
    simp [UInt8.toNat_ofNat', UInt16.toNat_toUInt8, UInt16.toNat_ofNat', UInt16.toNat_shiftRight]; omega
  rw [e1, e2] at this; exact this

theorem le32_natLe (n : Nat) (h : n < 4294967296) :
    le32 (UInt8.ofNat (n % 256)) (UInt8.ofNat (n / 256 % 256)) (UInt8.ofNat (n / 256 / 256 % 256))
      (UInt8.ofNat (n / 256 / 256 / 256 % 256)) = UInt32.ofNat n := by
  have := le32_bytes (UInt32.ofNat n)
  have e1 : (UInt32.ofNat n).toUInt8 = UInt8.ofNat (n % 256) := by
    apply UInt8.toNat_inj.mp; simp [UInt8.toNat_ofNat']
  have e2 : ((UInt32.ofNat n) >>> 8).toUInt8 = UInt8.ofNat (n / 256 % 256) := by
    apply UInt8.toNat_inj.mp
    simp [UInt8.toNat_ofNat', UInt32.toNat_toUInt8, UInt32.toNat_ofNat', UInt32.toNat_shiftRight]; omega
  have e3 : ((UInt32.ofNat n) >>> 16).toUInt8 = UInt8.ofNat (n / 256 / 256 % 256) := by
    apply UInt8.toNat_inj.mp
    simp [UInt8.toNat_ofNat', UInt32.toNat_toUInt8, UInt32.toNat_ofNat', UInt32.toNat_shiftRight]; omega
  have e4 : ((UInt32.ofNat n) >>> 24).toUInt8 = UInt8.ofNat (n / 256 / 256 / 256 % 256) := by
    apply UInt8.toNat_inj.mp
    simp [UInt8.toNat_ofNat', UInt32.toNat_toUInt8, UInt32.toNat_ofNat', UInt32.toNat_shiftRight]; omega
  rw [e1, e2, e3, e4] at this; exact this

theorem payloadField_ok (d pre post field : Bytes) (hd : d = pre ++ field ++ post)
    (hl : field.length < 65536) (ho : pre.length < 4294967296) :
    payloadField d (UInt16.ofNat field.length) (UInt32.ofNat pre.length) = .ok field := by
  unfold payloadField
  have h16 := toNat_ofNat16 _ hl
  have h32 := toNat_ofNat32 _ ho
  by_cases hf : field = []
  · subst hf
    rw [if_neg (by intro h; exact absurd h.1 (by decide))]
  · have hpos : 0 < field.length := List.length_pos_iff.mpr hf
    have hgt : UInt16.ofNat field.length > 0 := by
      show (0 : UInt16) < UInt16.ofNat field.length
      rw [UInt16.lt_iff_toNat_lt, h16]; exact hpos
    have hle : (UInt32.ofNat pre.length).toNat + (UInt16.ofNat field.length).toNat ≤ d.length := by
      rw [h16, h32, hd]; simp
    rw [if_pos ⟨hgt, hle⟩, h16, h32]
    unfold slice
    rw [if_pos ⟨by omega, by rw [hd]; simp⟩]
    congr 1
    rw [hd, List.append_assoc, List.drop_left, Nat.add_sub_cancel_left, List.take_left]

/-- the 56-byte header `Spec.buildChallenge` writes -/
def chalHeader (flags : UInt32) (sc rs ver : Bytes) (tnLen tnOff tiLen tiOff tnMax tiMax : Nat) : Bytes :=
  signature ++ natLe 4 2 ++ natLe 2 tnLen ++ natLe 2 tnMax ++ natLe 4 tnOff ++ natLe 4 flags.toNat ++ sc ++ rs ++
  natLe 2 tiLen ++ natLe 2 tiMax ++ natLe 4 tiOff ++ ver

theorem chalHeader_eq (flags : UInt32) (s0 s1 s2 s3 s4 s5 s6 s7 r0 r1 r2 r3 r4 r5 r6 r7 v0 v1 v2 v3 v4 v5 v6 v7 : UInt8)
    (a b c e am cm : Nat) :
    chalHeader flags [s0,s1,s2,s3,s4,s5,s6,s7] [r0,r1,r2,r3,r4,r5,r6,r7] [v0,v1,v2,v3,v4,v5,v6,v7] a b c e am cm =
      [78, 84, 76, 77, 83, 83, 80, 0, UInt8.ofNat (2 % 256), UInt8.ofNat (2 / 256 % 256),
         UInt8.ofNat (2 / 256 / 256 % 256), UInt8.ofNat (2 / 256 / 256 / 256 % 256),
         UInt8.ofNat (a % 256), UInt8.ofNat (a / 256 % 256),
         UInt8.ofNat (am % 256), UInt8.ofNat (am / 256 % 256),
         UInt8.ofNat (b % 256), UInt8.ofNat (b / 256 % 256),
         UInt8.ofNat (b / 256 / 256 % 256), UInt8.ofNat (b / 256 / 256 / 256 % 256),
         UInt8.ofNat (flags.toNat % 256), UInt8.ofNat (flags.toNat / 256 % 256),
         UInt8.ofNat (flags.toNat / 256 / 256 % 256), UInt8.ofNat (flags.toNat / 256 / 256 / 256 % 256),
         s0,s1,s2,s3,s4,s5,s6,s7, r0,r1,r2,r3,r4,r5,r6,r7,
         UInt8.ofNat (c % 256), UInt8.ofNat (c / 256 % 256),
         UInt8.ofNat (cm % 256), UInt8.ofNat (cm / 256 % 256),
         UInt8.ofNat (e % 256), UInt8.ofNat (e / 256 % 256),
         UInt8.ofNat (e / 256 / 256 % 256), UInt8.ofNat (e / 256 / 256 / 256 % 256),
         v0,v1,v2,v3,v4,v5,v6,v7] := rfl

theorem mem_avInsert (k : UInt16) (v : Bytes) (m : AvMap) (x : UInt16 × Bytes) :
    x ∈ avInsert k v m → x = (k, v) ∨ x ∈ m := by
  induction m with
  | nil => simp [avInsert]
  | cons a t ih =>
    obtain ⟨k', v'⟩ := a
    simp only [avInsert]
    split
    · intro h; simp at h ⊢; rcases h with h | h | h <;> simp [h]
    · split
      · intro h; simp at h ⊢; rcases h with h | h <;> simp [h]
      · intro h
        simp only [List.mem_cons] at h ⊢
        rcases h with h | h
        · exact Or.inr (Or.inl h)
        · rcases ih h with h | h
          · exact Or.inl h
          · exact Or.inr (Or.inr h)

theorem avInsert_sorted (k : UInt16) (v : Bytes) (m : AvMap) (h : Spec.Sorted m) :
    Spec.Sorted (avInsert k v m) := by
  unfold Spec.Sorted at *
  induction m with
  | nil => simp [avInsert]
  | cons a t ih =>
    obtain ⟨k', v'⟩ := a
    rw [List.pairwise_cons] at h
    simp only [avInsert]
    split
    · rename_i hlt
      rw [List.pairwise_cons]
      refine ⟨?_, List.pairwise_cons.mpr h⟩
      intro x hx
      simp only [List.mem_cons] at hx
      rcases hx with rfl | hx
      · exact hlt
      · exact UInt16.lt_trans hlt (h.1 x hx)
    · split
      · rename_i heq
        subst heq
        rw [List.pairwise_cons]
        exact ⟨h.1, h.2⟩
      · rename_i hnlt hne
        have hgt : k' < k := by
          rw [UInt16.lt_iff_toNat_lt] at hnlt ⊢
          have : k.toNat ≠ k'.toNat := fun e => hne (UInt16.toNat_inj.mp e)
          omega
        rw [List.pairwise_cons]
        refine ⟨?_, ih h.2⟩
        intro x hx
        rcases mem_avInsert k v t x hx with rfl | hx
        · exact hgt
        · exact h.1 x hx

theorem mapLookup_avInsert (k : UInt16) (v : Bytes) (m : AvMap) (q : UInt16) :
    Spec.mapLookup (avInsert k v m) q = if k = q then some v else Spec.mapLookup m q := by
  induction m with
  | nil => simp [avInsert, Spec.mapLookup, List.find?]
  | cons a t ih =>
    obtain ⟨k', v'⟩ := a
    simp only [avInsert]
    split
    · by_cases hq : k = q
      · simp [Spec.mapLookup, List.find?, hq]
      · simp [Spec.mapLookup, List.find?, hq]
    · split
      · rename_i heq
        subst heq
        by_cases hq : k = q
        · simp [Spec.mapLookup, List.find?, hq]
        · simp [Spec.mapLookup, List.find?, hq]
      · rename_i hne
        by_cases hq' : k' = q
        · have : k ≠ q := fun e => hne (e.trans hq'.symm)
          simp [Spec.mapLookup, List.find?, hq', this]
        · have := ih
          simp only [Spec.mapLookup] at this ⊢
          simp [List.find?, hq', this]

theorem natLe2 (n : Nat) : natLe 2 n = [UInt8.ofNat (n % 256), UInt8.ofNat (n / 256 % 256)] := rfl

theorem encodeAv_cons (p : UInt16 × Bytes) (ps : List (UInt16 × Bytes)) :
    Spec.encodeAv (p :: ps) = natLe 2 p.1.toNat ++ natLe 2 p.2.length ++ p.2 ++ Spec.encodeAv ps := by
  simp [Spec.encodeAv]

theorem parseTargetInfoLoop_encodeAv (pairs : List (UInt16 × Bytes)) :
    ∀ (fuel : Nat) (acc : AvMap), pairs.length + 1 ≤ fuel →
      (∀ p ∈ pairs, p.1 ≠ 0 ∧ p.2.length < 65536) →
      parseTargetInfoLoop fuel (Spec.encodeAv pairs) acc
        = .ok (pairs.foldl (fun acc p => avInsert p.1 p.2 acc) acc) := by
  induction pairs with
  | nil =>
    intro fuel acc hf _
    obtain ⟨f, rfl⟩ : ∃ f, fuel = f + 1 := ⟨fuel - 1, by simp at hf; omega⟩
    have h0 : le16 0 0 = 0 := by decide
    simp [Spec.encodeAv, parseTargetInfoLoop, h0]
  | cons p ps ih =>
    intro fuel acc hf hwf
    obtain ⟨f, rfl⟩ : ∃ f, fuel = f + 1 := ⟨fuel - 1, by simp at hf; omega⟩
    obtain ⟨k, v⟩ := p
    have hk := (hwf (k, v) (by simp)).1
    have hv := (hwf (k, v) (by simp)).2
    simp only at hk hv
    rw [encodeAv_cons]
    simp only [natLe2, List.cons_append, List.nil_append, parseTargetInfoLoop]
    have hid : le16 (UInt8.ofNat (k.toNat % 256)) (UInt8.ofNat (k.toNat / 256 % 256)) = k := by
      have := le16_natLe k.toNat k.toNat_lt
      simpa using this
    have hlen : (le16 (UInt8.ofNat (v.length % 256)) (UInt8.ofNat (v.length / 256 % 256))).toNat = v.length := by
      rw [le16_natLe _ hv, toNat_ofNat16 _ hv]
    rw [hid, hlen]
    rw [if_neg (by simp), if_pos hk, if_neg hk, List.take_left, List.drop_left]
    exact ih f _ (by simp at hf ⊢; omega) (fun q hq => hwf q (by simp [hq]))


end Manticore.C08
