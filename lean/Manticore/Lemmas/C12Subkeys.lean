/-
  C12 helper lemmas — CMAC subkeys: the byte-wise `shift1` loop with its carry and the conditional
  `k[n-1] ^= Rb` compute the doubling of SP 800-38B §6.1 on the block read as a big-endian number.
-/
import Manticore.Model.C12
namespace Manticore.C12.CMAC
open Manticore

theorem forall_uint8 (P : UInt8 → Prop) (h : ∀ n, n < 256 → P (UInt8.ofNat n)) : ∀ x, P x := by
  intro x
  have := h x.toNat (by have := x.toNat_lt; omega)
  rwa [UInt8.ofNat_toNat] at this

theorem shl_or0 : ∀ x : UInt8, (x <<< 1 ||| 0).toNat + 256 * (x >>> 7).toNat = 2 * x.toNat := by
  apply forall_uint8; decide +kernel
theorem shl_or1 : ∀ x : UInt8, (x <<< 1 ||| 1).toNat + 256 * (x >>> 7).toNat = 2 * x.toNat + 1 := by
  apply forall_uint8; decide +kernel
theorem shr7 : ∀ x : UInt8, x >>> 7 = 0 ∨ x >>> 7 = 1 := by
  apply forall_uint8; decide +kernel
theorem shr7_iff : ∀ x : UInt8, (x >>> 7 = 0 ↔ x.toNat < 128) := by
  apply forall_uint8; decide +kernel

theorem foldl_acc (xs : Bytes) : ∀ a : Nat,
    xs.foldl (fun acc x => acc * 256 + x.toNat) a = a * 256 ^ xs.length + xs.foldl (fun acc x => acc * 256 + x.toNat) 0 := by
  induction xs with
  | nil => intro a; simp
  | cons y ys ih =>
    intro a
    simp only [List.foldl_cons, List.length_cons]
    rw [ih (a * 256 + y.toNat), ih (0 * 256 + y.toNat)]
    simp only [Nat.zero_mul, Nat.zero_add, Nat.pow_succ, Nat.add_mul]
    have : a * 256 * 256 ^ ys.length = a * (256 ^ ys.length * 256) := by
      rw [Nat.mul_assoc, Nat.mul_comm 256]
    omega

theorem beNat_cons (x : UInt8) (xs : Bytes) : beNat (x :: xs) = x.toNat * 256 ^ xs.length + beNat xs := by
  simp only [beNat, List.foldl_cons]
  rw [foldl_acc]; simp

theorem beNat_snoc (l : Bytes) (x : UInt8) : beNat (l ++ [x]) = beNat l * 256 + x.toNat := by
  simp [beNat]

theorem beNat_lt : ∀ l : Bytes, beNat l < 256 ^ l.length
  | [] => by simp [beNat]
  | x :: xs => by
    rw [beNat_cons, List.length_cons, Nat.pow_succ]
    have := beNat_lt xs
    have hx := x.toNat_lt
    have : x.toNat * 256 ^ xs.length ≤ 255 * 256 ^ xs.length := Nat.mul_le_mul_right _ (by omega)
    omega

/-- the carry out of `shift1` is a single bit -/
theorem shift1_carry (l : Bytes) : (shift1 l).2 = 0 ∨ (shift1 l).2 = 1 := by
  cases l with
  | nil => left; rfl
  | cons x xs => exact shr7 x

/-- `shift1` doubles the big-endian number; the carry is the bit that falls off -/
theorem shift1_double : ∀ l : Bytes,
    beNat (shift1 l).1 + 256 ^ l.length * (shift1 l).2.toNat = 2 * beNat l
  | [] => by simp [shift1, beNat]
  | x :: xs => by
    have ih := shift1_double xs
    simp only [shift1, beNat_cons, List.length_cons, shift1_length, Nat.pow_succ]
    generalize 256 ^ xs.length = P at *
    have key : (x <<< 1 ||| (shift1 xs).2).toNat * P + P * 256 * (x >>> 7).toNat
        = 2 * x.toNat * P + (shift1 xs).2.toNat * P := by
      rcases shift1_carry xs with h | h <;> rw [h]
      · have := congrArg (· * P) (shl_or0 x)
        simp only [Nat.add_mul] at this
        have e : 256 * (x >>> 7).toNat * P = P * 256 * (x >>> 7).toNat := by
          rw [Nat.mul_comm, ← Nat.mul_assoc]
        have z : (0 : UInt8).toNat = 0 := rfl
        rw [z]; omega
      · have := congrArg (· * P) (shl_or1 x)
        simp only [Nat.add_mul] at this
        have e : 256 * (x >>> 7).toNat * P = P * 256 * (x >>> 7).toNat := by
          rw [Nat.mul_comm, ← Nat.mul_assoc]
        have z : (1 : UInt8).toNat = 1 := rfl
        rw [z]; omega
    have e2 : 2 * (x.toNat * P + beNat xs) = 2 * x.toNat * P + 2 * beNat xs := by
      rw [Nat.mul_add, Nat.mul_assoc]
    have e3 : P * (shift1 xs).2.toNat = (shift1 xs).2.toNat * P := Nat.mul_comm _ _
    omega

theorem pow256 (n : Nat) : 2 ^ (8 * n) = 256 ^ n := by rw [Nat.pow_mul]

/-- the carry is the most significant bit -/
theorem shift1_msb (l : Bytes) (hl : 0 < l.length) :
    ((shift1 l).2 = 0 ↔ beNat l < 2 ^ (8 * l.length - 1)) := by
  cases l with
  | nil => simp at hl
  | cons x xs =>
    simp only [shift1, shr7_iff, beNat_cons, List.length_cons]
    have hp : 2 ^ (8 * (xs.length + 1) - 1) = 128 * 256 ^ xs.length := by
      rw [show 8 * (xs.length + 1) - 1 = 8 * xs.length + 7 by omega, Nat.pow_add, pow256]; omega
    rw [hp]
    have hb := beNat_lt xs
    generalize 256 ^ xs.length = P at *
    constructor
    · intro h
      have : x.toNat * P ≤ 127 * P := Nat.mul_le_mul_right _ (by omega)
      omega
    · intro h
      apply Classical.byContradiction
      intro hx
      have : 128 * P ≤ x.toNat * P := Nat.mul_le_mul_right _ (by omega)
      omega

/-- xor below a power of two does not touch the bits above -/
theorem xor_low (a b r k : Nat) (hb : b < 2 ^ k) (hr : r < 2 ^ k) :
    (2 ^ k * a + b) ^^^ r = 2 ^ k * a + (b ^^^ r) := by
  apply Nat.eq_of_testBit_eq
  intro i
  rw [Nat.testBit_xor, Nat.testBit_two_pow_mul_add _ hb, Nat.testBit_two_pow_mul_add _ (Nat.xor_lt_two_pow hb hr)]
  by_cases h : i < k
  · simp [h, Nat.testBit_xor]
  · simp only [h, if_false]
    have : r.testBit i = false := Nat.testBit_lt_two_pow (Nat.lt_of_lt_of_le hr (Nat.pow_le_pow_right (by omega) (by omega)))
    simp [this]

theorem set_last (l : Bytes) (hl : l ≠ []) (y : UInt8) : l.set (l.length - 1) y = l.dropLast ++ [y] := by
  induction l with
  | nil => exact absurd rfl hl
  | cons x xs ih =>
    cases xs with
    | nil => rfl
    | cons z zs =>
      have := ih (by simp)
      simp only [List.length_cons, Nat.add_sub_cancel] at this ⊢
      simp [List.set_cons_succ, this]

/-- `k[n-1] ^= r` is `⊕ r` on the number -/
theorem xorLast_beNat {n : Nat} (hn : 0 < n) (v : Block n) (r : UInt8) :
    beNat (xorLast v r).toList = beNat v.toList ^^^ r.toNat := by
  unfold xorLast
  rw [dif_pos hn, Vector.toList_set]
  have hlen : v.toList.length = n := Vector.length_toList
  have hne : v.toList ≠ [] := by intro e; rw [e] at hlen; simp at hlen; omega
  have e1 : v[n - 1] = v.toList.getLast hne := by
    rw [List.getLast_eq_getElem]; simp [hlen]
  rw [e1, show n - 1 = v.toList.length - 1 by omega, set_last _ hne, beNat_snoc]
  conv => rhs; rw [← List.dropLast_concat_getLast hne, beNat_snoc]
  rw [UInt8.toNat_xor]
  have h1 := (v.toList.getLast hne).toNat_lt
  have h2 := r.toNat_lt
  have := xor_low (beNat v.toList.dropLast) (v.toList.getLast hne).toNat r.toNat 8 h1 h2
  simp only [Nat.reducePow] at this
  rw [Nat.mul_comm (beNat _) 256]
  exact this.symm

theorem leNat_eq_beNat_reverse : ∀ l : Bytes, leNat l = beNat l.reverse
  | [] => rfl
  | b :: bs => by
    rw [List.reverse_cons, beNat_snoc, leNat, leNat_eq_beNat_reverse bs]; omega

theorem natLe_leNat : ∀ l : Bytes, natLe l.length (leNat l) = l
  | [] => rfl
  | b :: bs => by
    have hb := b.toNat_lt
    simp only [List.length_cons, natLe, leNat]
    rw [show (b.toNat + 256 * leNat bs) % 256 = b.toNat by omega,
      show (b.toNat + 256 * leNat bs) / 256 = leNat bs by omega, natLe_leNat bs, UInt8.ofNat_toNat]

theorem natBe_beNat (l : Bytes) (n : Nat) (h : l.length = n) : natBe n (beNat l) = l := by
  subst h
  have : beNat l = leNat l.reverse := by rw [leNat_eq_beNat_reverse, List.reverse_reverse]
  rw [natBe, this, show l.length = l.reverse.length by simp, natLe_leNat, List.reverse_reverse]

theorem ofNatBE_beNat {n : Nat} (v : Block n) : Spec.ofNatBE n (beNat v.toList) = v := by
  apply Vector.toList_inj.mp
  simp only [Spec.ofNatBE, Vector.toList_mk]
  exact natBe_beNat _ _ Vector.length_toList

/-- one doubling step of `New`: `if shift1(k, k') != 0 { k'[n-1] ^= r }` -/
theorem step_eq_dbl {n : Nat} (hn : 0 < n) (v : Block n) (r : UInt8) (hr : r.toNat = Spec.Rb n) :
    beNat (if (shift1V v).2 != 0 then xorLast (shift1V v).1 r else (shift1V v).1).toList
      = Spec.dbl n (beNat v.toList) := by
  have hlen : v.toList.length = n := Vector.length_toList
  have hd := shift1_double v.toList
  have hm := shift1_msb v.toList (by omega)
  have hlt := beNat_lt (shift1 v.toList).1
  rw [shift1_length, hlen] at hlt
  rw [hlen] at hd hm
  have h1 : (shift1V v).1.toList = (shift1 v.toList).1 := by simp [shift1V]
  have h2 : (shift1V v).2 = (shift1 v.toList).2 := rfl
  unfold Spec.dbl
  rw [h2]
  rcases shift1_carry v.toList with hc | hc
  · have : beNat v.toList < 2 ^ (8 * n - 1) := hm.mp hc
    rw [if_pos this, hc]
    simp only [bne_self_eq_false, Bool.false_eq_true, if_false, h1]
    rw [hc] at hd
    have z : (0 : UInt8).toNat = 0 := rfl
    rw [z] at hd; omega
  · have hnot : ¬ beNat v.toList < 2 ^ (8 * n - 1) := by
      intro h; have := hm.mpr h; rw [hc] at this; exact absurd this (by decide)
    rw [if_neg hnot, hc]
    simp only [show ((1 : UInt8) != 0) = true by decide, if_true]
    rw [xorLast_beNat hn, h1, hr, pow256]
    rw [hc] at hd
    have o : (1 : UInt8).toNat = 1 := rfl
    rw [o] at hd
    congr 1
    have hb := beNat_lt v.toList
    rw [hlen] at hb
    generalize 256 ^ n = P at *
    rw [show 2 * beNat v.toList = beNat (shift1 v.toList).1 + P by omega]
    rw [Nat.add_mod_right, Nat.mod_eq_of_lt hlt]

end Manticore.C12.CMAC
