/-
  Helper lemmas of C10: the nibble map on all 256 byte values, trimming/padding, the first-level
  round trip, `Marshal` = uncompressed RFC 1002 message, `Unmarshal` reads it back, no panic.
-/
import Manticore.Model.C10
import Manticore.Lemmas.DNS
import Manticore.Lemmas.Endian
namespace Manticore.C10
open Manticore Manticore.Spec.DNS

/-! ### per byte: all 256 values -/

theorem encByte_eq_halfAscii (b : UInt8) : encByte b = halfAscii b := by
  have h : ∀ i : Fin 256, encByte (UInt8.ofFin i) = halfAscii (UInt8.ofFin i) := by decide +kernel
  simpa using h b.toFin

theorem decPairs_encByte (b : UInt8) : decPairs (encByte b) = .ok [b] := by
  have h : ∀ i : Fin 256, decPairs (encByte (UInt8.ofFin i)) = .ok [UInt8.ofFin i] := by decide +kernel
  simpa using h b.toFin

theorem encByte_facts (b : UInt8) :
    ((((b >>> 4) &&& 0x0F) + 0x41 - 0x41 > 0x0F || ((b &&& 0x0F) + 0x41) - 0x41 > 0x0F) = false) ∧
    (((((b >>> 4) &&& 0x0F) + 0x41 - 0x41) <<< 4) ||| (((b &&& 0x0F) + 0x41) - 0x41)) = b := by
  have h : ∀ i : Fin 256,
      (((((UInt8.ofFin i) >>> 4) &&& 0x0F) + 0x41 - 0x41 > 0x0F || (((UInt8.ofFin i) &&& 0x0F) + 0x41) - 0x41 > 0x0F) = false) ∧
      ((((((UInt8.ofFin i) >>> 4) &&& 0x0F) + 0x41 - 0x41) <<< 4) ||| ((((UInt8.ofFin i) &&& 0x0F) + 0x41) - 0x41)) = UInt8.ofFin i := by
    decide +kernel
  simpa using h b.toFin

theorem encByte_nodot (b : UInt8) : dot ∉ encByte b := by
  have h : ∀ i : Fin 256, dot ∉ encByte (UInt8.ofFin i) := by decide +kernel
  simpa using h b.toFin

/-- the characters of the first-level form are 'A'..'P' -/
theorem halfAscii_range (b : UInt8) : ∀ c ∈ halfAscii b, 65 ≤ c.toNat ∧ c.toNat ≤ 80 := by
  have h : ∀ i : Fin 256, ∀ c ∈ halfAscii (UInt8.ofFin i), 65 ≤ c.toNat ∧ c.toNat ≤ 80 := by decide +kernel
  simpa using h b.toFin

theorem decPairs_flatMap (bs : Bytes) : decPairs (bs.flatMap encByte) = .ok bs := by
  induction bs with
  | nil => rfl
  | cons b bs ih =>
    obtain ⟨h1, h2⟩ := encByte_facts b
    simp only [List.flatMap_cons, encByte, List.cons_append, List.nil_append, decPairs]
    rw [h1, ih, h2]
    simp

theorem flatMap_encByte_nodot (bs : Bytes) : dot ∉ bs.flatMap encByte := by
  intro h
  simp only [List.mem_flatMap] at h
  obtain ⟨b, _, hb⟩ := h
  exact encByte_nodot b hb

theorem flatMap_encByte_length (bs : Bytes) : (bs.flatMap encByte).length = 2 * bs.length := by
  induction bs with
  | nil => rfl
  | cons b bs ih => simp [List.flatMap_cons, encByte, ih]; omega

theorem l1_eq (bs : Bytes) : bs.flatMap encByte = l1 bs := by
  unfold l1
  induction bs with
  | nil => rfl
  | cons b bs ih => simp only [List.flatMap_cons, ih, encByte_eq_halfAscii]

theorem pad16_length (name : Bytes) (h : name.length ≤ 16) : (pad16 name).length = 16 := by
  simp [pad16]; omega

/-! ### trimming -/

theorem dropWhile_replicate_space (k : Nat) (y : Bytes) :
    (List.replicate k space ++ y).dropWhile (· == space) = y.dropWhile (· == space) := by
  induction k with
  | zero => simp
  | succ k ih => simp [List.replicate_succ, ih]

theorem trimRight_append_spaces (x : Bytes) (k : Nat) : trimRight (x ++ List.replicate k space) = trimRight x := by
  simp only [trimRight, List.reverse_append, List.reverse_replicate, dropWhile_replicate_space]

theorem trimRight_pad16 (name : Bytes) : trimRight (pad16 name) = trimRight name :=
  trimRight_append_spaces name _

theorem takeWhile_space (l : Bytes) : l.takeWhile (· == space) = List.replicate (l.takeWhile (· == space)).length space := by
  induction l with
  | nil => rfl
  | cons c l ih =>
    by_cases hc : c = space
    · subst hc
      simp only [List.takeWhile_cons, beq_self_eq_true, if_true, List.length_cons, List.replicate_succ]
      rw [← ih]
    · simp [hc]

/-- a byte string is its trimmed form followed by spaces only -/
theorem trimRight_decomp (name : Bytes) :
    name = trimRight name ++ List.replicate (name.length - (trimRight name).length) space := by
  have h := List.takeWhile_append_dropWhile (p := (· == space)) (l := name.reverse)
  have hr : name = (name.reverse.dropWhile (· == space)).reverse ++ (name.reverse.takeWhile (· == space)).reverse := by
    have := congrArg List.reverse h
    rw [List.reverse_append, List.reverse_reverse] at this
    exact this.symm
  have hl : name.length = (name.reverse.dropWhile (· == space)).length + (name.reverse.takeWhile (· == space)).length := by
    have := congrArg List.length h
    rw [List.length_append, List.length_reverse] at this; omega
  rw [takeWhile_space, List.reverse_replicate] at hr
  unfold trimRight
  have e : name.length - (name.reverse.dropWhile (· == space)).reverse.length = (name.reverse.takeWhile (· == space)).length := by
    simp; omega
  rw [e]
  exact hr

theorem trimRight_length_le (x : Bytes) : (trimRight x).length ≤ x.length := by
  unfold trimRight
  rw [List.length_reverse]
  have := (List.dropWhile_suffix (l := x.reverse) (· == space)).length_le
  simpa using this

theorem pad16_trimRight (name : Bytes) (h : name.length ≤ 16) : pad16 (trimRight name) = pad16 name := by
  have hd := trimRight_decomp name
  have hl := trimRight_length_le name
  unfold pad16
  conv => rhs; rw [hd]
  rw [List.append_assoc, List.replicate_append_replicate]
  congr 2
  have : (trimRight name ++ List.replicate (name.length - (trimRight name).length) space).length = name.length := by
    simp; omega
  rw [this]; omega

/-! ### splitting at the first dot -/

theorem splitFirstDot_nodot (h : Bytes) (hd : dot ∉ h) : splitFirstDot h = (h, none) := by
  induction h with
  | nil => rfl
  | cons c h ih =>
    have hc : c ≠ dot := fun e => hd (by simp [e])
    simp only [splitFirstDot, if_neg hc, ih (fun hm => hd (by simp [hm]))]

theorem splitFirstDot_append_dot (h r : Bytes) (hd : dot ∉ h) : splitFirstDot (h ++ dot :: r) = (h, some r) := by
  induction h with
  | nil => simp [splitFirstDot]
  | cons c h ih =>
    have hc : c ≠ dot := fun e => hd (by simp [e])
    simp only [List.cons_append, splitFirstDot, if_neg hc, ih (fun hm => hd (by simp [hm]))]


/-! ### first-level encoding and its inverse -/

theorem validate_len {n : NBName} (h : validate n = true) : n.name.length ≤ 16 := by
  simp [validate] at h; omega

theorem firstLevelEncode_ok (n : NBName) (hv : validate n = true) :
    firstLevelEncode n = .ok (if n.scope = [] then l1 (pad16 n.name) else l1 (pad16 n.name) ++ dot :: n.scope) := by
  unfold firstLevelEncode
  simp only [hv, Bool.not_true, Bool.false_eq_true, if_false, l1_eq]
  split <;> rfl

theorem l1_pad16_length (n : NBName) (hv : validate n = true) : (l1 (pad16 n.name)).length = 32 := by
  rw [← l1_eq, flatMap_encByte_length, pad16_length _ (validate_len hv)]

theorem l1_nodot (bs : Bytes) : dot ∉ l1 bs := by rw [← l1_eq]; exact flatMap_encByte_nodot bs

theorem firstLevelDecode_encode (n : NBName) (hv : validate n = true) (e : Bytes) (he : firstLevelEncode n = .ok e) :
    firstLevelDecode e = .ok (canonName n) := by
  rw [firstLevelEncode_ok n hv] at he
  simp only [Outcome.ok.injEq] at he
  have h32 := l1_pad16_length n hv
  have hdec : decPairs (l1 (pad16 n.name)) = .ok (pad16 n.name) := by rw [← l1_eq]; exact decPairs_flatMap _
  by_cases hs : n.scope = []
  · rw [if_pos hs] at he; subst he
    simp only [firstLevelDecode, splitFirstDot_nodot _ (l1_nodot _), h32, ne_eq, not_true_eq_false, if_false, hdec,
      trimRight_pad16, Option.getD_none, canonName, hs]
  · rw [if_neg hs] at he; subst he
    simp only [firstLevelDecode, splitFirstDot_append_dot _ _ (l1_nodot _), h32, ne_eq, not_true_eq_false, if_false, hdec,
      trimRight_pad16, Option.getD_some, canonName]

theorem validate_canonName (n : NBName) (hv : validate n = true) : validate (canonName n) = true := by
  have hl := validate_len hv
  have := trimRight_length_le n.name
  simp only [validate, canonName] at hv ⊢
  simp only [Bool.and_eq_true, Bool.not_eq_true', decide_eq_false_iff_not] at hv ⊢
  exact ⟨by simp; omega, hv.2⟩

theorem firstLevelEncode_canonName (n : NBName) (hv : validate n = true) :
    firstLevelEncode (canonName n) = firstLevelEncode n := by
  rw [firstLevelEncode_ok n hv, firstLevelEncode_ok _ (validate_canonName n hv)]
  simp only [canonName, pad16_trimRight _ (validate_len hv)]

/-! ### the name on the wire -/

/-- the dotted text `Marshal` hands to `appendEncodedName` -/
def encodedText (n : NBName) : Bytes :=
  if n.scope = [] then l1 (pad16 n.name) else l1 (pad16 n.name) ++ dot :: n.scope

theorem splitDots_encodedText (n : NBName) : splitDots (encodedText n) = nbLabels n := by
  unfold encodedText nbLabels
  split
  · exact splitDots_nodot _ (l1_nodot _)
  · exact splitDots_append_dot _ _ (l1_nodot _)

theorem joinDots_nbLabels (n : NBName) : joinDots (nbLabels n) = encodedText n := by
  rw [← splitDots_encodedText, joinDots_splitDots]

theorem partOk_valid {p : Bytes} (h : partOk p = true) : ValidLabel p := by
  simp only [partOk, Bool.and_eq_true, Bool.not_eq_true', Bool.or_eq_false_iff, beq_eq_false_iff_ne, ne_eq,
    decide_eq_false_iff_not] at h
  obtain ⟨⟨⟨⟨h0, h63⟩, _⟩, _⟩, _⟩ := h
  exact ⟨by omega, by omega⟩

theorem nbLabels_valid (n : NBName) (hv : validate n = true) : ∀ l ∈ nbLabels n, ValidLabel l := by
  intro l hl
  simp only [nbLabels, List.mem_cons] at hl
  rcases hl with rfl | hl
  · have := l1_pad16_length n hv
    exact ⟨by omega, by omega⟩
  · split at hl
    · simp at hl
    · rename_i hs
      simp only [validate, Bool.and_eq_true, Bool.or_eq_true, isValidDomainName] at hv
      rcases hv.2 with h | h
      · exact absurd (List.isEmpty_iff.mp h) hs
      · exact partOk_valid (List.all_eq_true.mp h.2 l hl)

theorem labelsWire_length_join (ls : Name) (hne : ls ≠ []) : (labelsWire ls).length = (joinDots ls).length + 1 := by
  induction ls with
  | nil => exact absurd rfl hne
  | cons l ls ih =>
    cases ls with
    | nil => simp [labelsWire, labelWire, joinDots]
    | cons l' ls =>
      have := ih (by simp)
      rw [labelsWire_cons]
      simp only [joinDots, List.length_cons, List.length_append] at this ⊢
      omega

theorem nameWire_length (n : NBName) : (nameWire (nbLabels n)).length = (encodedText n).length + 2 := by
  rw [← joinDots_nbLabels]
  simp only [nameWire, List.length_append, List.length_cons, List.length_nil]
  rw [labelsWire_length_join _ (by simp [nbLabels])]

theorem appendLabels_spec (ls : Name) (hv : ∀ l ∈ ls, ValidLabel l) (buf : Bytes) :
    appendLabels ls buf = .ok (buf ++ labelsWire ls) := by
  induction ls generalizing buf with
  | nil => simp [appendLabels, labelsWire]
  | cons l ls ih =>
    obtain ⟨h1, h2⟩ := hv l (by simp)
    simp only [appendLabels]
    rw [if_neg (by omega), ih (fun x hx => hv x (by simp [hx]))]
    simp [labelsWire_cons, List.append_assoc]

theorem appendEncodedName_spec (n : NBName) (hv : ValidNB n) (buf : Bytes) :
    appendEncodedName buf (encodedText n) = .ok (buf ++ nameWire (nbLabels n)) := by
  unfold appendEncodedName
  have hl := nameWire_length n
  have hf : (nameWire (nbLabels n)).length ≤ 255 := hv.2
  rw [if_neg (by omega), splitDots_encodedText, appendLabels_spec _ (nbLabels_valid n hv.1)]
  simp [nameWire, List.append_assoc]

theorem firstLevelEncode_text (n : NBName) (hv : validate n = true) : firstLevelEncode n = .ok (encodedText n) :=
  firstLevelEncode_ok n hv

theorem marshalQ_spec (buf : Bytes) (q : Question) (hv : ValidNB q.name) :
    marshalQ buf q = .ok (buf ++ (nameWire (toDNSQ q).name ++ questionTail (toDNSQ q))) := by
  simp only [marshalQ, firstLevelEncode_text _ hv.1, appendEncodedName_spec _ hv, toDNSQ, questionTail, List.append_assoc]

theorem marshalRR_spec (buf : Bytes) (r : RR) (hv : ValidNB r.name) (hl : r.rdlength.toNat = r.rdata.length) :
    marshalRR buf r = .ok (buf ++ (nameWire (toDNSR r).name ++ rrTail (toDNSR r))) := by
  have : UInt16.ofNat r.rdata.length = r.rdlength := by rw [← hl]; simp
  simp only [marshalRR, firstLevelEncode_text _ hv.1, appendEncodedName_spec _ hv, toDNSR, rrTail, List.append_assoc, this]

theorem marshalAll_spec {α} (f : Bytes → α → Outcome Bytes) (w : α → Bytes) (xs : List α)
    (h : ∀ x ∈ xs, ∀ buf, f buf x = .ok (buf ++ w x)) (buf : Bytes) :
    marshalAll f xs buf = .ok (buf ++ xs.flatMap w) := by
  induction xs generalizing buf with
  | nil => simp [marshalAll]
  | cons x xs ih =>
    simp only [marshalAll, h x (by simp)]
    rw [ih (fun y hy => h y (by simp [hy]))]
    simp [List.append_assoc]

theorem ofNat_of_toNat_eq {x : UInt16} {n : Nat} (h : x.toNat = n) : UInt16.ofNat n = x := by
  rw [← h]; simp

/-- **Marshal emits the uncompressed RFC 1002 message** -/
theorem marshal_eq_plain (p : Packet) (hw : WF p) : marshal p = .ok (plain (toDNS p)) := by
  obtain ⟨c1, c2, c3, c4, hq, hr⟩ := hw
  have eq := marshalAll_spec marshalQ (fun q => nameWire (toDNSQ q).name ++ questionTail (toDNSQ q)) p.questions
    (fun q hq' buf => marshalQ_spec buf q (hq q hq'))
  have er := marshalAll_spec marshalRR (fun r => nameWire (toDNSR r).name ++ rrTail (toDNSR r))
    (p.answers ++ p.authority ++ p.additional) (fun r hr' buf => marshalRR_spec buf r (hr r hr').1 (hr r hr').2)
  simp only [List.append_assoc, List.flatMap_append] at er
  simp only [marshal, eq, er, plain, header, toDNS, List.length_map, List.flatMap_map,
    ofNat_of_toNat_eq c1, ofNat_of_toNat_eq c2, ofNat_of_toNat_eq c3, ofNat_of_toNat_eq c4, List.append_assoc]

theorem toDNS_valid (p : Packet) (hw : WF p) : ValidMessage (toDNS p) := by
  obtain ⟨c1, c2, c3, c4, hq, hr⟩ := hw
  have vn : ∀ n, ValidNB n → Spec.DNS.ValidName (nbLabels n) := fun n hn => ⟨nbLabels_valid n hn.1, hn.2⟩
  have vr : ∀ r ∈ p.answers ++ p.authority ++ p.additional, ValidRR (toDNSR r) := by
    intro r hr'
    refine ⟨vn _ (hr r hr').1, ?_⟩
    have := (hr r hr').2
    have h2 := r.rdlength.toNat_lt
    simp only [toDNSR]; omega
  have l1 := p.hdr.questions.toNat_lt
  have l2 := p.hdr.answers.toNat_lt
  have l3 := p.hdr.authority.toNat_lt
  have l4 := p.hdr.additional.toNat_lt
  refine ⟨?_, ?_, ?_, ?_, ?_, ?_, ?_, ?_⟩
  · intro q hq'
    simp only [toDNS, List.mem_map] at hq'
    obtain ⟨q0, h0, rfl⟩ := hq'
    exact vn _ (hq q0 h0)
  · intro r hr'
    simp only [toDNS, List.mem_map] at hr'
    obtain ⟨r0, h0, rfl⟩ := hr'
    exact vr r0 (by simp [h0])
  · intro r hr'
    simp only [toDNS, List.mem_map] at hr'
    obtain ⟨r0, h0, rfl⟩ := hr'
    exact vr r0 (by simp [h0])
  · intro r hr'
    simp only [toDNS, List.mem_map] at hr'
    obtain ⟨r0, h0, rfl⟩ := hr'
    exact vr r0 (by simp [h0])
  · simp only [toDNS, List.length_map]; omega
  · simp only [toDNS, List.length_map]; omega
  · simp only [toDNS, List.length_map]; omega
  · simp only [toDNS, List.length_map]; omega

/-! ### Unmarshal reads back what the RFC 1002 serializer writes -/

theorem getElem_append_cons (pre : Bytes) (x : UInt8) (rest : Bytes) (h : pre.length < (pre ++ x :: rest).length) :
    (pre ++ x :: rest)[pre.length]'h = x := by
  simp

theorem readEncodedName_spec (ls : Name) : ∀ (acc : List Bytes) (pre rest : Bytes), (∀ l ∈ ls, ValidLabel l) →
    readEncodedName (pre ++ labelsWire ls ++ 0 :: rest) pre.length acc
      = .ok (joinDots (acc ++ ls), pre.length + (labelsWire ls).length + 1) := by
  induction ls with
  | nil =>
    intro acc pre rest _
    simp only [labelsWire, List.flatMap_nil, List.append_nil, List.length_nil, Nat.add_zero]
    rw [readEncodedName]
    have hlt : ¬ (pre ++ 0 :: rest).length ≤ pre.length := by simp
    simp only [dif_neg hlt, getElem_append_cons, if_true]
  | cons l ls ih =>
    intro acc pre rest hv
    obtain ⟨h1, h2⟩ := hv l (by simp)
    have hb := ofNat_toNat_of_le63 l.length h2
    have e : pre ++ labelsWire (l :: ls) ++ 0 :: rest
        = (pre ++ UInt8.ofNat l.length :: l) ++ labelsWire ls ++ 0 :: rest := by
      rw [labelsWire_cons]; simp [List.append_assoc]
    have e2 : pre ++ labelsWire (l :: ls) ++ 0 :: rest
        = pre ++ UInt8.ofNat l.length :: (l ++ (labelsWire ls ++ 0 :: rest)) := by
      rw [labelsWire_cons]; simp [List.append_assoc]
    rw [readEncodedName]
    have hlt : ¬ (pre ++ labelsWire (l :: ls) ++ 0 :: rest).length ≤ pre.length := by
      rw [e2]; simp
    have hget : (pre ++ labelsWire (l :: ls) ++ 0 :: rest)[pre.length]'(by omega) = UInt8.ofNat l.length := by
      simp only [e2]; exact getElem_append_cons _ _ _ _
    have hne : UInt8.ofNat l.length ≠ 0 := by
      intro h
      have h0 : (UInt8.ofNat l.length).toNat = 0 := by rw [h]; rfl
      omega
    have hfit : ¬ (pre.length + 1 + l.length > (pre ++ labelsWire (l :: ls) ++ 0 :: rest).length) := by
      rw [e2]; simp; omega
    have htake : ((pre ++ labelsWire (l :: ls) ++ 0 :: rest).drop (pre.length + 1)).take l.length = l := by
      rw [e2]
      have : pre.length + 1 = (pre ++ [UInt8.ofNat l.length]).length := by simp
      rw [this, show pre ++ UInt8.ofNat l.length :: (l ++ (labelsWire ls ++ 0 :: rest))
        = (pre ++ [UInt8.ofNat l.length]) ++ (l ++ (labelsWire ls ++ 0 :: rest)) by simp, List.drop_left, List.take_left]
    simp only [dif_neg hlt, hget, hne, if_false, hb, if_neg (show ¬ l.length > 63 by omega), hfit, htake]
    have hpre : pre.length + 1 + l.length = (pre ++ UInt8.ofNat l.length :: l).length := by simp; omega
    rw [hpre, e, ih (acc ++ [l]) (pre ++ UInt8.ofNat l.length :: l) rest (fun x hx => hv x (by simp [hx]))]
    simp only [List.append_assoc, List.cons_append, List.nil_append, labelsWire_cons, List.length_cons, List.length_append]
    congr 2
    omega

theorem slice_mid (pre mid rest : Bytes) :
    slice (pre ++ mid ++ rest) pre.length (pre.length + mid.length) = .ok mid := by
  unfold slice
  rw [if_pos (by simp)]
  simp [List.append_assoc, List.take_left']

theorem rd16_at (pre : Bytes) (a b : UInt8) (rest : Bytes) : rd16 (pre ++ a :: b :: rest) pre.length = .ok (be16 a b) := by
  have := slice_mid pre [a, b] rest
  simp only [List.length_cons, List.length_nil, List.append_assoc, List.cons_append, List.nil_append] at this
  simp only [rd16, this]

theorem rd32_at (pre : Bytes) (a b c d : UInt8) (rest : Bytes) :
    rd32 (pre ++ a :: b :: c :: d :: rest) pre.length = .ok (be32 a b c d) := by
  have := slice_mid pre [a, b, c, d] rest
  simp only [List.length_cons, List.length_nil, List.append_assoc, List.cons_append, List.nil_append] at this
  simp only [rd32, this]

def qWire (q : Question) : Bytes := nameWire (toDNSQ q).name ++ questionTail (toDNSQ q)
def rWire (r : RR) : Bytes := nameWire (toDNSR r).name ++ rrTail (toDNSR r)

theorem readName_nb (n : NBName) (hv : ValidNB n) (pre rest : Bytes) :
    readEncodedName (pre ++ nameWire (nbLabels n) ++ rest) pre.length []
      = .ok (encodedText n, pre.length + (nameWire (nbLabels n)).length) := by
  have := readEncodedName_spec (nbLabels n) [] pre rest (nbLabels_valid n hv.1)
  simp only [nameWire, List.append_assoc, List.cons_append, List.nil_append, joinDots_nbLabels,
    List.length_append, List.length_cons, List.length_nil] at this ⊢
  rw [this]
  congr 2

theorem unmarshalQ_spec (q : Question) (hv : ValidNB q.name) (pre rest : Bytes) :
    unmarshalQ (pre ++ qWire q ++ rest) pre.length = .ok (canonQ q, pre.length + (qWire q).length) := by
  have hname := readName_nb q.name hv pre (questionTail (toDNSQ q) ++ rest)
  have hdec := firstLevelDecode_encode q.name hv.1 _ (firstLevelEncode_text q.name hv.1)
  have e : pre ++ qWire q ++ rest = pre ++ nameWire (nbLabels q.name) ++ (questionTail (toDNSQ q) ++ rest) := by
    simp [qWire, toDNSQ, List.append_assoc]
  have hl : (qWire q).length = (nameWire (nbLabels q.name)).length + 4 := by
    simp [qWire, toDNSQ, questionTail, putBe16]
  rw [e]
  unfold unmarshalQ
  rw [hname]
  simp only [hdec]
  rw [if_neg (by simp [questionTail, putBe16]; omega)]
  have r1 : rd16 (pre ++ nameWire (nbLabels q.name) ++ (questionTail (toDNSQ q) ++ rest))
      (pre.length + (nameWire (nbLabels q.name)).length) = .ok q.qtype := by
    have := rd16_at (pre ++ nameWire (nbLabels q.name)) (q.qtype >>> 8).toUInt8 q.qtype.toUInt8
      (putBe16 q.qclass ++ rest)
    simp only [List.length_append, be16_bytes] at this
    simpa [questionTail, toDNSQ, putBe16, List.append_assoc] using this
  have r2 : rd16 (pre ++ nameWire (nbLabels q.name) ++ (questionTail (toDNSQ q) ++ rest))
      (pre.length + (nameWire (nbLabels q.name)).length + 2) = .ok q.qclass := by
    have := rd16_at (pre ++ nameWire (nbLabels q.name) ++ putBe16 q.qtype) (q.qclass >>> 8).toUInt8 q.qclass.toUInt8 rest
    simp only [List.length_append, be16_bytes] at this
    simpa [questionTail, toDNSQ, putBe16, List.append_assoc] using this
  simp only [r1, r2, canonQ, hl]
  congr 2

theorem unmarshalRR_spec (r : RR) (hv : ValidNB r.name) (hlen : r.rdlength.toNat = r.rdata.length) (pre rest : Bytes) :
    unmarshalRR (pre ++ rWire r ++ rest) pre.length = .ok (canonR r, pre.length + (rWire r).length) := by
  have hname := readName_nb r.name hv pre (rrTail (toDNSR r) ++ rest)
  have hdec := firstLevelDecode_encode r.name hv.1 _ (firstLevelEncode_text r.name hv.1)
  have hrl : UInt16.ofNat r.rdata.length = r.rdlength := ofNat_of_toNat_eq hlen
  have etail : rrTail (toDNSR r) = putBe16 r.rtype ++ putBe16 r.rclass ++ putBe32 r.ttl ++ putBe16 r.rdlength ++ r.rdata := by
    simp [rrTail, toDNSR, hrl]
  have e : pre ++ rWire r ++ rest = pre ++ nameWire (nbLabels r.name) ++ (rrTail (toDNSR r) ++ rest) := by
    simp [rWire, toDNSR, List.append_assoc]
  have hl : (rWire r).length = (nameWire (nbLabels r.name)).length + 10 + r.rdata.length := by
    have h0 : (rWire r).length = (nameWire (nbLabels r.name)).length + (rrTail (toDNSR r)).length := by
      simp [rWire, toDNSR]
    rw [h0, etail]; simp [putBe16, putBe32]; omega
  rw [e]
  unfold unmarshalRR
  rw [hname]
  simp only [hdec]
  rw [if_neg (by simp [etail, putBe16, putBe32]; omega)]
  have r1 : rd16 (pre ++ nameWire (nbLabels r.name) ++ (rrTail (toDNSR r) ++ rest))
      (pre.length + (nameWire (nbLabels r.name)).length) = .ok r.rtype := by
    have := rd16_at (pre ++ nameWire (nbLabels r.name)) (r.rtype >>> 8).toUInt8 r.rtype.toUInt8
      (putBe16 r.rclass ++ putBe32 r.ttl ++ putBe16 r.rdlength ++ r.rdata ++ rest)
    simp only [List.length_append, be16_bytes] at this
    simpa [etail, putBe16, List.append_assoc] using this
  have r2 : rd16 (pre ++ nameWire (nbLabels r.name) ++ (rrTail (toDNSR r) ++ rest))
      (pre.length + (nameWire (nbLabels r.name)).length + 2) = .ok r.rclass := by
    have := rd16_at (pre ++ nameWire (nbLabels r.name) ++ putBe16 r.rtype) (r.rclass >>> 8).toUInt8 r.rclass.toUInt8
      (putBe32 r.ttl ++ putBe16 r.rdlength ++ r.rdata ++ rest)
    simp only [List.length_append, be16_bytes] at this
    simpa [etail, putBe16, List.append_assoc] using this
  have r3 : rd32 (pre ++ nameWire (nbLabels r.name) ++ (rrTail (toDNSR r) ++ rest))
      (pre.length + (nameWire (nbLabels r.name)).length + 4) = .ok r.ttl := by
    have := rd32_at (pre ++ nameWire (nbLabels r.name) ++ putBe16 r.rtype ++ putBe16 r.rclass)
      (r.ttl >>> 24).toUInt8 (r.ttl >>> 16).toUInt8 (r.ttl >>> 8).toUInt8 r.ttl.toUInt8
      (putBe16 r.rdlength ++ r.rdata ++ rest)
    simp only [List.length_append, be32_bytes] at this
    simpa [etail, putBe16, putBe32, List.append_assoc] using this
  have r4 : rd16 (pre ++ nameWire (nbLabels r.name) ++ (rrTail (toDNSR r) ++ rest))
      (pre.length + (nameWire (nbLabels r.name)).length + 8) = .ok r.rdlength := by
    have := rd16_at (pre ++ nameWire (nbLabels r.name) ++ putBe16 r.rtype ++ putBe16 r.rclass ++ putBe32 r.ttl)
      (r.rdlength >>> 8).toUInt8 r.rdlength.toUInt8 (r.rdata ++ rest)
    simp only [List.length_append, be16_bytes] at this
    simpa [etail, putBe16, putBe32, List.append_assoc] using this
  have r5 : slice (pre ++ nameWire (nbLabels r.name) ++ (rrTail (toDNSR r) ++ rest))
      (pre.length + (nameWire (nbLabels r.name)).length + 10)
      (pre.length + (nameWire (nbLabels r.name)).length + 10 + r.rdlength.toNat) = .ok r.rdata := by
    have := slice_mid (pre ++ nameWire (nbLabels r.name) ++ putBe16 r.rtype ++ putBe16 r.rclass ++ putBe32 r.ttl ++ putBe16 r.rdlength)
      r.rdata rest
    rw [hlen]
    simpa [etail, putBe16, putBe32, List.append_assoc, Nat.add_assoc] using this
  simp only [r1, r2, r3, r4]
  rw [if_neg (by simp [etail, putBe16, putBe32]; omega), r5]
  simp only [canonR, hl, hlen]
  congr 2
  omega

theorem unmarshalMany_spec {α} (dec : Bytes → Nat → Outcome (α × Nat)) (enc : α → Bytes) (canon : α → α) (P : α → Prop)
    (item : ∀ (x : α), P x → ∀ (pre rest : Bytes), dec (pre ++ enc x ++ rest) pre.length = .ok (canon x, pre.length + (enc x).length)) :
    ∀ (xs : List α) (pre rest : Bytes), (∀ x ∈ xs, P x) →
      unmarshalMany dec (pre ++ xs.flatMap enc ++ rest) xs.length pre.length
        = .ok (xs.map canon, pre.length + (xs.flatMap enc).length) := by
  intro xs
  induction xs with
  | nil => intro pre rest _; simp [unmarshalMany]
  | cons x xs ih =>
    intro pre rest hP
    have e : pre ++ (x :: xs).flatMap enc ++ rest = pre ++ enc x ++ (xs.flatMap enc ++ rest) := by
      simp [List.append_assoc]
    have e2 : pre ++ (x :: xs).flatMap enc ++ rest = (pre ++ enc x) ++ xs.flatMap enc ++ rest := by
      simp [List.append_assoc]
    simp only [List.length_cons, unmarshalMany]
    rw [e, item x (hP x (by simp)) pre _]
    have := ih (pre ++ enc x) rest (fun y hy => hP y (by simp [hy]))
    simp only [List.length_append, List.append_assoc] at this ⊢
    simp only [this, List.map_cons, List.flatMap_cons, List.length_append]
    congr 2
    omega

def hdrWire (h : Header) : Bytes :=
  putBe16 h.id ++ putBe16 h.flags ++ putBe16 h.questions ++ putBe16 h.answers ++ putBe16 h.authority ++ putBe16 h.additional

theorem hdrWire_length (h : Header) : (hdrWire h).length = 12 := by simp [hdrWire, putBe16]

theorem rd16_hdr (h : Header) (rest : Bytes) :
    rd16 (hdrWire h ++ rest) 0 = .ok h.id ∧ rd16 (hdrWire h ++ rest) 2 = .ok h.flags ∧
    rd16 (hdrWire h ++ rest) 4 = .ok h.questions ∧ rd16 (hdrWire h ++ rest) 6 = .ok h.answers ∧
    rd16 (hdrWire h ++ rest) 8 = .ok h.authority ∧ rd16 (hdrWire h ++ rest) 10 = .ok h.additional := by
  simp [hdrWire, putBe16, rd16, slice, be16_bytes]

theorem plain_toDNS (p : Packet) (hw : WF p) :
    plain (toDNS p) = hdrWire p.hdr ++ p.questions.flatMap qWire ++ p.answers.flatMap rWire
      ++ p.authority.flatMap rWire ++ p.additional.flatMap rWire := by
  obtain ⟨c1, c2, c3, c4, _, _⟩ := hw
  simp only [plain, header, toDNS, List.length_map, List.flatMap_map, hdrWire,
    ofNat_of_toNat_eq c1, ofNat_of_toNat_eq c2, ofNat_of_toNat_eq c3, ofNat_of_toNat_eq c4]
  rfl

/-- **Unmarshal reads the RFC 1002 message back** (names lose their space padding) -/
theorem unmarshal_plain (p : Packet) (hw : WF p) :
    unmarshal (plain (toDNS p)) = .ok ((plain (toDNS p)).length, canonPkt p) := by
  have hpl := plain_toDNS p hw
  obtain ⟨c1, c2, c3, c4, hq, hr⟩ := hw
  have hra : ∀ r ∈ p.answers, ValidNB r.name ∧ r.rdlength.toNat = r.rdata.length := fun r h => hr r (by simp [h])
  have hrn : ∀ r ∈ p.authority, ValidNB r.name ∧ r.rdlength.toNat = r.rdata.length := fun r h => hr r (by simp [h])
  have hrr : ∀ r ∈ p.additional, ValidNB r.name ∧ r.rdlength.toNat = r.rdata.length := fun r h => hr r (by simp [h])
  have H := hdrWire_length p.hdr
  have mq := unmarshalMany_spec unmarshalQ qWire canonQ (fun q => ValidNB q.name)
    (fun q hv pre rest => unmarshalQ_spec q hv pre rest) p.questions (hdrWire p.hdr)
    (p.answers.flatMap rWire ++ p.authority.flatMap rWire ++ p.additional.flatMap rWire) hq
  have ma := unmarshalMany_spec unmarshalRR rWire canonR (fun r => ValidNB r.name ∧ r.rdlength.toNat = r.rdata.length)
    (fun r hv pre rest => unmarshalRR_spec r hv.1 hv.2 pre rest) p.answers (hdrWire p.hdr ++ p.questions.flatMap qWire)
    (p.authority.flatMap rWire ++ p.additional.flatMap rWire) hra
  have mn := unmarshalMany_spec unmarshalRR rWire canonR (fun r => ValidNB r.name ∧ r.rdlength.toNat = r.rdata.length)
    (fun r hv pre rest => unmarshalRR_spec r hv.1 hv.2 pre rest) p.authority
    (hdrWire p.hdr ++ p.questions.flatMap qWire ++ p.answers.flatMap rWire) (p.additional.flatMap rWire) hrn
  have mr := unmarshalMany_spec unmarshalRR rWire canonR (fun r => ValidNB r.name ∧ r.rdlength.toNat = r.rdata.length)
    (fun r hv pre rest => unmarshalRR_spec r hv.1 hv.2 pre rest) p.additional
    (hdrWire p.hdr ++ p.questions.flatMap qWire ++ p.answers.flatMap rWire ++ p.authority.flatMap rWire) [] hrr
  obtain ⟨r0, r2, r4, r6, r8, r10⟩ := rd16_hdr p.hdr (p.questions.flatMap qWire ++ p.answers.flatMap rWire
      ++ p.authority.flatMap rWire ++ p.additional.flatMap rWire)
  simp only [List.append_assoc, List.append_nil, List.length_append, H] at mq ma mn mr r0 r2 r4 r6 r8 r10 hpl
  rw [hpl]
  unfold unmarshal
  rw [if_neg (by simp only [List.length_append, H]; omega)]
  simp only [r0, r2, r4, r6, r8, r10, c1, c2, c3, c4, mq, ma, mn, mr, canonPkt, Nat.add_assoc]


/-! ### no panic -/

theorem decPairs_no_panic (l : Bytes) (h : l.length % 2 = 0) : decPairs l ≠ .panic := by
  fun_induction decPairs l with
  | case1 => intro h'; cases h'
  | case2 => simp at h
  | case3 => intro h'; cases h'
  | case4 hi lo rest hc d hd ih => intro h'; cases h'
  | case5 hi lo rest hc hd ih => intro h'; cases h'
  | case6 hi lo rest hc hd ih =>
    exact absurd hd (ih (by simp at h; omega))

theorem firstLevelDecode_no_panic (e : Bytes) : firstLevelDecode e ≠ .panic := by
  unfold firstLevelDecode
  split
  · intro h; cases h
  · rename_i hl
    have h32 : (splitFirstDot e).1.length = 32 := by
      apply Classical.byContradiction; intro hne; exact hl hne
    split
    · intro h; cases h
    · intro h; cases h
    · rename_i hp; exact absurd hp (decPairs_no_panic _ (by rw [h32]))

theorem readEncodedName_no_panic (data : Bytes) (off : Nat) (labels : List Bytes) :
    readEncodedName data off labels ≠ .panic := by
  fun_induction readEncodedName data off labels <;> simp_all

theorem rd16_ok (data : Bytes) (off : Nat) (h : off + 2 ≤ data.length) : ∃ v, rd16 data off = .ok v := by
  unfold rd16 slice
  rw [if_pos (by omega)]
  have hl : ((data.drop off).take (off + 2 - off)).length = 2 := by simp; omega
  match hd : (data.drop off).take (off + 2 - off), hl with
  | [a, b], _ => exact ⟨_, rfl⟩

theorem rd32_ok (data : Bytes) (off : Nat) (h : off + 4 ≤ data.length) : ∃ v, rd32 data off = .ok v := by
  unfold rd32 slice
  rw [if_pos (by omega)]
  have hl : ((data.drop off).take (off + 4 - off)).length = 4 := by simp; omega
  match hd : (data.drop off).take (off + 4 - off), hl with
  | [a, b, c, d], _ => exact ⟨_, rfl⟩

theorem unmarshalQ_no_panic (data : Bytes) (off : Nat) : unmarshalQ data off ≠ .panic := by
  unfold unmarshalQ
  split
  · rename_i enc next _
    split
    · rename_i name _
      split
      · intro h; cases h
      · rename_i hlen
        obtain ⟨t, ht⟩ := rd16_ok data next (by omega)
        obtain ⟨c, hc⟩ := rd16_ok data (next + 2) (by omega)
        simp [ht, hc]
    · intro h; cases h
    · rename_i h; exact absurd h (firstLevelDecode_no_panic _)
  · intro h; cases h
  · rename_i h; exact absurd h (readEncodedName_no_panic _ _ _)

theorem unmarshalRR_no_panic (data : Bytes) (off : Nat) : unmarshalRR data off ≠ .panic := by
  unfold unmarshalRR
  split
  · rename_i enc next _
    split
    · rename_i name _
      split
      · intro h; cases h
      · rename_i hlen
        obtain ⟨t, ht⟩ := rd16_ok data next (by omega)
        obtain ⟨c, hc⟩ := rd16_ok data (next + 2) (by omega)
        obtain ⟨ttl, httl⟩ := rd32_ok data (next + 4) (by omega)
        obtain ⟨rdl, hrdl⟩ := rd16_ok data (next + 8) (by omega)
        simp only [ht, hc, httl, hrdl]
        split
        · intro h; cases h
        · rename_i h2
          simp only [slice, if_pos (show next + 10 ≤ next + 10 + rdl.toNat ∧ next + 10 + rdl.toNat ≤ data.length by omega)]
          intro h; cases h
    · intro h; cases h
    · rename_i h; exact absurd h (firstLevelDecode_no_panic _)
  · intro h; cases h
  · rename_i h; exact absurd h (readEncodedName_no_panic _ _ _)

theorem unmarshalMany_no_panic {α} (dec : Bytes → Nat → Outcome (α × Nat)) (data : Bytes)
    (hd : ∀ off, dec data off ≠ .panic) : ∀ n off, unmarshalMany dec data n off ≠ .panic := by
  intro n
  induction n with
  | zero => intro off h; cases h
  | succ n ih =>
    intro off
    simp only [unmarshalMany]
    split
    · split
      · intro h; cases h
      · intro h; cases h
      · rename_i h; exact absurd h (ih _)
    · intro h; cases h
    · rename_i h; exact absurd h (hd _)

theorem unmarshal_no_panic (data : Bytes) : unmarshal data ≠ .panic := by
  unfold unmarshal
  split
  · intro h; cases h
  · rename_i hlen
    obtain ⟨v0, h0⟩ := rd16_ok data 0 (by omega)
    obtain ⟨v2, h2⟩ := rd16_ok data 2 (by omega)
    obtain ⟨v4, h4⟩ := rd16_ok data 4 (by omega)
    obtain ⟨v6, h6⟩ := rd16_ok data 6 (by omega)
    obtain ⟨v8, h8⟩ := rd16_ok data 8 (by omega)
    obtain ⟨v10, h10⟩ := rd16_ok data 10 (by omega)
    simp only [h0, h2, h4, h6, h8, h10]
    have q := unmarshalMany_no_panic unmarshalQ data (unmarshalQ_no_panic data)
    have r := unmarshalMany_no_panic unmarshalRR data (unmarshalRR_no_panic data)
    split
    · split
      · split
        · split
          · intro h; cases h
          · intro h; cases h
          · rename_i h; exact absurd h (r _ _)
        · intro h; cases h
        · rename_i h; exact absurd h (r _ _)
      · intro h; cases h
      · rename_i h; exact absurd h (r _ _)
    · intro h; cases h
    · rename_i h; exact absurd h (q _ _)
end Manticore.C10
