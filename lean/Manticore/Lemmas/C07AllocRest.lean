/-
  C07, allocation clause — "the rest": the GPP cpassword decoders, `DecodeUTF16LE`, PKCS#7 `Unpad`,
  binary SIDs, distinguished names.

  For every entry point: what it returns is no bigger than what `…AllocOf` (Model/C12Alloc.lean,
  Model/C16Alloc.lean — the Go `make`s and `append`s in order, on every path) says it allocated, and
  `…AllocOf` is bounded on EVERY input — linearly for all of them except the cumulative cost of the
  `domain += …` loop of `GetDomainFromDistinguishedName`, which is quadratic (its result is linear).  No allocate-before-check site in this family: the one
  announced count (the SID's sub-authority count) is checked against `len` before the loop it drives.
  Core Lean only.
-/
import Manticore.Model.C12Alloc
import Manticore.Model.C16Alloc
import Manticore.Props.C12
import Manticore.Props.C16
namespace Manticore.C07A.Rest
open Manticore Manticore.C12 Manticore.C12.Prim Manticore.C12.GPP Manticore.C16

/-! ## UTF-16 -/

theorem encodeRune_length_le4 (r : Nat) : (encodeRune r).length ≤ 4 := by
  unfold encodeRune; repeat' split
  all_goals simp

theorem encodeRune_length_le3 (r : Nat) (h : r < 0x10000) : (encodeRune r).length ≤ 3 := by
  unfold encodeRune; repeat' split
  all_goals first | omega | simp

theorem stringOfRunes_cons (r : Nat) (rs : List Nat) :
    (stringOfRunes (r :: rs)).length = (encodeRune r).length + (stringOfRunes rs).length := by
  simp [stringOfRunes]

/-- `utf16.Decode` returns at most one rune per code unit, and `string(runes)` at most three bytes
    per code unit (a BMP unit gives ≤ 3 bytes, a surrogate pair — two units — gives 4, an unpaired
    surrogate gives the 3 bytes of U+FFFD) -/
theorem utf16Decode_sizes : ∀ us : List UInt16,
    (utf16Decode us).length ≤ us.length ∧ (stringOfRunes (utf16Decode us)).length ≤ 3 * us.length
  | [] => by simp [utf16Decode, stringOfRunes]
  | [r] => by
    have h16 := r.toNat_lt
    unfold utf16Decode
    split
    · have := encodeRune_length_le3 r.toNat (by simpa using h16)
      simp [stringOfRunes]; omega
    · have := encodeRune_length_le3 0xFFFD (by omega)
      simp [stringOfRunes]; omega
  | r :: r2 :: rest => by
    have h16 := r.toNat_lt
    have ih1 := utf16Decode_sizes (r2 :: rest)
    have ih2 := utf16Decode_sizes rest
    unfold utf16Decode
    split
    · have := encodeRune_length_le3 r.toNat (by simpa using h16)
      simp only [stringOfRunes_cons, List.length_cons] at ih1 ⊢; omega
    · split
      · have := encodeRune_length_le4 ((r.toNat - 0xD800) * 1024 + (r2.toNat - 0xDC00) + 0x10000)
        simp only [stringOfRunes_cons, List.length_cons] at ih1 ⊢; omega
      · have := encodeRune_length_le3 0xFFFD (by omega)
        simp only [stringOfRunes_cons, List.length_cons] at ih1 ⊢; omega

/-- **`DecodeUTF16LE`, the `make([]uint16, len(b)/2)`** (`utils/encoding/utf16/utf16le.go`): the loop
    fills exactly the `len(b)/2` elements that were made — a fixed function of the input length,
    nothing is read from the input to size it. -/
theorem unitsLE_alloc_bound (b : Bytes) (us : List UInt16) (h : unitsLE b = .ok us) :
    us.length = b.length / 2 := (unitsLE_length b us h).symm

/-- **`DecodeUTF16LE` allocates at most 9 bytes per code unit on every input** (`utf16AllocOf`:
    2 for the `uint16`, 4 for the rune of `utf16.Decode`, at most 3 of UTF-8 text): `≤ 9·(len/2)`,
    linear, c₀ = 0. -/
theorem utf16AllocOf_le (b : Bytes) : utf16AllocOf b ≤ 9 * (b.length / 2) := by
  unfold utf16AllocOf
  split
  · rename_i us hus
    have := utf16Decode_sizes us
    have := unitsLE_length b us hus
    show 2 * (b.length / 2) + (4 * (utf16Decode us).length + (stringOfRunes (utf16Decode us)).length) ≤ _
    omega
  · omega

/-- **`DecodeUTF16LE`** (Go: `utf16.DecodeUTF16LE`; the model returns the Go string as its UTF-8
    bytes; size = its length): the string is part of what `utf16AllocOf` counts, and it holds at most
    THREE bytes per 16-bit code unit of input, `≤ 3·(len(b)/2)` — linear, c₁ = 3/2, c₀ = 0.  The
    constant 3 is attained (U+20AC below). -/
theorem decodeUTF16LE_alloc_bound (b s : Bytes) (h : decodeUTF16LE b = .ok s) :
    s.length ≤ utf16AllocOf b ∧ s.length ≤ 3 * (b.length / 2) := by
  unfold decodeUTF16LE at h
  unfold utf16AllocOf
  split at h
  · rename_i us hus
    simp only [Outcome.ok.injEq] at h
    have h1 := (utf16Decode_sizes us).2
    have h2 := unitsLE_length b us hus
    rw [← h]; simp only [hus]
    refine ⟨?_, by omega⟩
    show _ ≤ 2 * (b.length / 2) + (4 * (utf16Decode us).length + (stringOfRunes (utf16Decode us)).length)
    omega
  · cases h
  · cases h

example : decodeUTF16LE [0xAC, 0x20] = .ok [0xE2, 0x82, 0xAC] := by decide
example : utf16AllocOf [0xAC, 0x20] = 9 := by decide
example : decodeUTF16LE [0x41, 0x00, 0x42] = .ok [0x41] := by decide

/-! ## PKCS#7 -/

/-- **`pkcs7.Unpad`** (`crypto/pkcs7/pkcs7.go`) allocates nothing: it returns the re-slice
    `buffer[:len(buffer)-padLen]` of its argument, strictly shorter than the argument (1 ≤ padLen). -/
theorem pkcs7_unpad_alloc_bound (buf m : Bytes) (h : PKCS7.unpad buf = .ok m) : m.length < buf.length := by
  obtain ⟨p, h1, _, hb⟩ := (PKCS7.unpad_ok_iff buf m).mp h
  rw [hb]; simp; omega

example : PKCS7.unpad [0x41, 1] = .ok [0x41] := by decide

/-! ## CBC -/

theorem blocks16_sizes (l : Bytes) : (∀ x ∈ blocks16 l, x.length = 16) ∧ 16 * (blocks16 l).length ≤ l.length := by
  by_cases h : 16 ≤ l.length
  · rw [blocks16_long l h]
    obtain ⟨a, b⟩ := blocks16_sizes (l.drop 16)
    constructor
    · intro x hx
      rcases List.mem_cons.mp hx with rfl | hx
      · simp; omega
      · exact a x hx
    · simp only [List.length_cons, List.length_drop] at b ⊢; omega
  · rw [blocks16_short l (by omega)]; simp
termination_by l.length
decreasing_by simp only [List.length_drop]; omega

theorem cbcDecBlocks_length_le (D : Bytes → Bytes) : ∀ (bs : List Bytes) (iv : Bytes),
    iv.length ≤ 16 → (∀ x ∈ bs, x.length = 16) → (cbcDecBlocks D iv bs).flatten.length ≤ 16 * bs.length
  | [], _, _, _ => by simp [cbcDecBlocks]
  | c :: cs, iv, hiv, hb => by
    have hc := hb c (by simp)
    have ih := cbcDecBlocks_length_le D cs c (by omega) (fun x hx => hb x (by simp [hx]))
    simp only [cbcDecBlocks, List.flatten_cons, List.length_append, xorBytes_length, List.length_cons]
    omega

/-- `mode.CryptBlocks(plaintext, ciphertext)` writes no more than the `len(ciphertext)` bytes that were
    made for it — for EVERY block function `D`, length-preserving or not (each block is xor-ed
    onto a 16-byte chaining value, which cuts it to 16 bytes). -/
theorem cbcDecrypt_length_le (D : Bytes → Bytes) (c p : Bytes) (h : cbcDecrypt D zeroIV c = .ok p) :
    p.length ≤ c.length := by
  unfold cbcDecrypt at h
  split at h
  · cases h
  · simp only [Outcome.ok.injEq] at h
    obtain ⟨a, b⟩ := blocks16_sizes c
    have := cbcDecBlocks_length_le D (blocks16 c) zeroIV (by simp [zeroIV]) a
    rw [← h]; omega

theorem cbcDecBlocks_length_eq (D : Bytes → Bytes) (hD : ∀ x, x.length = 16 → (D x).length = 16) :
    ∀ (bs : List Bytes) (iv : Bytes),
    iv.length = 16 → (∀ x ∈ bs, x.length = 16) → (cbcDecBlocks D iv bs).flatten.length = 16 * bs.length
  | [], _, _, _ => by simp [cbcDecBlocks]
  | c :: cs, iv, hiv, hb => by
    have hc := hb c (by simp)
    have ih := cbcDecBlocks_length_eq D hD cs c hc (fun x hx => hb x (by simp [hx]))
    have := hD c hc
    simp only [cbcDecBlocks, List.flatten_cons, List.length_append, xorBytes_length, List.length_cons]
    omega

/-- with a block function that returns 16 bytes for 16 bytes (AES does; `id` does) the plaintext is
    exactly as long as the buffer made for it -/
theorem cbcDecrypt_length_eq (D : Bytes → Bytes) (hD : ∀ x, x.length = 16 → (D x).length = 16) (c p : Bytes)
    (h : cbcDecrypt D zeroIV c = .ok p) : p.length = c.length := by
  unfold cbcDecrypt at h
  split at h
  · cases h
  · rename_i h16
    simp only [Outcome.ok.injEq] at h
    obtain ⟨hf, hb⟩ := flatten_blocks16 c (by omega)
    have h1 := cbcDecBlocks_length_eq D hD (blocks16 c) zeroIV (by simp [zeroIV]) hb
    have h2 := flatten_length16 (blocks16 c) hb
    rw [hf] at h2
    rw [← h]; omega

example : ∀ x : Bytes, x.length = 16 → (id x).length = 16 := fun _ h => h

/-! ## `GPPPDecryptBytes` -/

/-- **`GPPPDecryptBytes` allocates at most `6·len(ciphertext) + 16` bytes on every input**, for every
    block function: the IV (16), `make([]byte, len(ciphertext))`, and `DecodeUTF16LE` of at most
    `len(ciphertext) − 1` bytes (`≤ 9/2` of them).  Linear. -/
theorem gppBytesAllocOf_le (D : Bytes → Bytes) (c : Bytes) : gppBytesAllocOf D c ≤ 6 * c.length + 16 := by
  unfold gppBytesAllocOf
  split
  · omega
  · split
    · rename_i p hp
      have h1 := cbcDecrypt_length_le D c p hp
      split
      · rename_i u hu
        have h2 := pkcs7_unpad_alloc_bound p u hu
        split
        · omega
        · have := utf16AllocOf_le u
          omega
      · omega
    · omega

/-- **`GPPPDecryptBytes`** (`crypto/gppp/gppp.go`; size of the returned string = its UTF-8 length):
    the password is part of what `gppBytesAllocOf` counts (`≤ 6·len + 16`, above) and is itself at
    most `3·(len(ciphertext)/2)` bytes — linear, c₁ = 3/2, c₀ = 0.  No hypothesis on `D`. -/
theorem decryptBytes_alloc_bound (D : Bytes → Bytes) (c s : Bytes) (h : decryptBytes D c = .ok s) :
    s.length ≤ gppBytesAllocOf D c ∧ s.length ≤ 3 * (c.length / 2) := by
  unfold decryptBytes at h
  unfold gppBytesAllocOf
  split at h
  · cases h
  · rename_i h16
    rw [if_neg h16]
    split at h
    · rename_i p hp
      have h1 := cbcDecrypt_length_le D c p hp
      simp only [hp]
      split at h
      · rename_i u hu
        have h2 := pkcs7_unpad_alloc_bound p u hu
        simp only [hu]
        split at h
        · cases h
        · rename_i hodd
          rw [if_neg hodd]
          obtain ⟨h3, h4⟩ := decodeUTF16LE_alloc_bound u s h
          omega
      · cases h
      · cases h
    · cases h
    · cases h

/-! ## base64 -/

theorem b64Bytes_length_le (q : List Nat) : (b64Bytes q).length ≤ 3 := by
  unfold b64Bytes; split <;> simp

theorem b64DecodeAux_length_le : ∀ (s : Bytes) (q : List Nat) (out r : Bytes),
    b64DecodeAux s q out = some r → r.length ≤ out.length + 3 * ((q.length + s.length) / 4)
  | [], q, out, r, h => by
    simp only [b64DecodeAux] at h
    split at h
    · simp only [Option.some.injEq] at h; rw [← h]; omega
    · cases h
  | c :: rest, q, out, r, h => by
    simp only [b64DecodeAux] at h
    split at h
    · rename_i v hv
      split at h
      · rename_i hq
        have := b64DecodeAux_length_le rest [] _ r h
        have := b64Bytes_length_le (q ++ [v])
        simp only [List.length_append, List.length_nil, List.length_cons] at *
        omega
      · have := b64DecodeAux_length_le rest (q ++ [v]) out r h
        simp only [List.length_append, List.length_nil, List.length_cons] at *
        omega
    · split at h
      · have := b64DecodeAux_length_le rest q out r h
        simp only [List.length_cons]
        omega
      · split at h
        · cases h
        · split at h
          · rename_i hq
            split at h
            · rename_i d rest' heq
              have hne : 1 ≤ rest.length := by
                cases rest with
                | nil => simp at heq
                | cons _ _ => simp
              split at h
              · simp only [Option.some.injEq] at h
                have := b64Bytes_length_le q
                rw [← h]
                simp only [List.length_append, List.length_cons]
                omega
              · cases h
            · cases h
          · split at h
            · rename_i hq
              split at h
              · simp only [Option.some.injEq] at h
                have := b64Bytes_length_le q
                rw [← h]
                simp only [List.length_append, List.length_cons]
                omega
              · cases h
            · cases h

/-- what `base64.StdEncoding.DecodeString(s)` returns fits the `len(s)/4*3` bytes it made for it -/
theorem b64Decode_length_le (s c : Bytes) (h : b64Decode s = some c) : c.length ≤ s.length / 4 * 3 := by
  have := b64DecodeAux_length_le s [] [] c h
  simp only [List.length_nil] at this
  omega

theorem repad_length_le (s : Bytes) : (repad s).length ≤ s.length + 2 := by
  unfold repad
  simp only []
  split
  · simp; omega
  · split
    · simp; omega
    · omega

theorem repadAllocOf_le (s : Bytes) : repadAllocOf s ≤ s.length + 4 := by
  unfold repadAllocOf
  simp only []
  split
  · omega
  · split <;> omega

/-! ## `GPPPDecryptBase64` -/

/-- **`GPPPDecryptBase64` allocates at most `7·len(encStr) + 32` bytes on every input**, for every
    block function: the re-padded string (`≤ len + 4`), the base64 buffer (`≤ 3·(len+2)/4`) and
    `GPPPDecryptBytes` of at most that many bytes.  Linear. -/
theorem gppAllocOf_le (D : Bytes → Bytes) (s : Bytes) : gppAllocOf D s ≤ 7 * s.length + 32 := by
  unfold gppAllocOf
  have h1 := repadAllocOf_le s
  have h2 := repad_length_le s
  split
  · rename_i c hc
    have h3 := b64Decode_length_le _ c hc
    have h4 := gppBytesAllocOf_le D c
    omega
  · omega

/-- **`GPPPDecryptBase64`** (`crypto/gppp/gppp.go`; size of the returned string = its UTF-8 length):
    the password is part of what `gppAllocOf` counts (`≤ 7·len + 32`, above) and is itself at most
    `(9·len(encStr) + 18)/8` bytes — linear, c₁ = 9/8.  No hypothesis on `D`. -/
theorem decryptBase64_alloc_bound (D : Bytes → Bytes) (s r : Bytes) (h : decryptBase64 D s = .ok r) :
    r.length ≤ gppAllocOf D s ∧ 8 * r.length ≤ 9 * s.length + 18 := by
  unfold decryptBase64 at h
  unfold gppAllocOf
  split at h
  · rename_i c hc
    simp only [hc]
    obtain ⟨a, b⟩ := decryptBytes_alloc_bound D c r h
    have h2 := repad_length_le s
    have h3 := b64Decode_length_le _ c hc
    omega
  · cases h

/-! ### non-vacuity: the cpassword `QQAODg4ODg4ODg4ODg4ODg` (unpadded base64 of one block) under `D = id` -/

theorem blocks16_one (l : Bytes) (h : l.length = 16) : blocks16 l = [l] := by
  rw [blocks16_long l (by omega), blocks16_short _ (by simp; omega), List.take_of_length_le (by omega)]

def sampleCipher : Bytes := [0x41, 0, 14, 14, 14, 14, 14, 14, 14, 14, 14, 14, 14, 14, 14, 14]
def sampleText : Bytes := [81, 81, 65, 79, 68, 103, 52, 79, 68, 103, 52, 79, 68, 103, 52, 79, 68, 103, 52, 79, 68, 103]

theorem sample_bytes : decryptBytes id sampleCipher = .ok [0x41] := by
  unfold decryptBytes cbcDecrypt
  rw [blocks16_one _ rfl]
  decide

theorem sample_bytes_alloc : gppBytesAllocOf id sampleCipher = 39 := by
  unfold gppBytesAllocOf cbcDecrypt
  rw [blocks16_one _ rfl]
  decide

theorem sample_text : decryptBase64 id sampleText = .ok [0x41] := by
  unfold decryptBase64
  rw [show b64Decode (repad sampleText) = some sampleCipher by decide]
  exact sample_bytes

theorem sample_text_alloc : gppAllocOf id sampleText = 83 := by
  unfold gppAllocOf
  rw [show b64Decode (repad sampleText) = some sampleCipher by decide]
  simp only [sample_bytes_alloc]
  decide

/-! ## SIDs -/

theorem toString_length_le (n k : Nat) (hk : 0 < k) (h : n < 10 ^ k) : (toString n).length ≤ k := by
  rw [Nat.toString_eq_repr]; exact (Nat.length_repr_le_iff hk).mpr h

theorem u32_text_le (v : UInt32) : (toString v.toNat).length ≤ 10 :=
  toString_length_le _ 10 (by decide) (Nat.lt_of_lt_of_le v.toNat_lt (by decide))

theorem u64_text_le (v : UInt64) : (toString v.toNat).length ≤ 20 :=
  toString_length_le _ 20 (by decide) (Nat.lt_of_lt_of_le v.toNat_lt (by decide))

theorem u8_text_le (v : UInt8) : (toString v.toNat).length ≤ 3 :=
  toString_length_le _ 3 (by decide) (Nat.lt_of_lt_of_le v.toNat_lt (by decide))

/-- `strings.Join(p :: ps, "-")`: the parts, and one separator in front of every part but the first -/
theorem join_length (p : String) (ps : List String) :
    ("-".intercalate (p :: ps)).length = p.length + (ps.map (fun s => 1 + s.length)).sum := by
  induction ps generalizing p with
  | nil => simp
  | cons q qs ih =>
    rw [String.intercalate_cons_cons, String.length_append, String.length_append, ih q]
    have : ("-" : String).length = 1 := by decide
    simp only [List.map_cons, List.sum_cons, this]; omega

theorem sum_map_le {α : Type} (f : α → Nat) (k : Nat) : ∀ l : List α, (∀ x ∈ l, f x ≤ k) → (l.map f).sum ≤ k * l.length
  | [], _ => by simp
  | x :: xs, h => by
    have := sum_map_le f k xs (fun y hy => h y (by simp [hy]))
    have := h x (by simp)
    simp only [List.map_cons, List.sum_cons, List.length_cons, Nat.mul_succ]; omega

/-- the loop appends exactly the announced number of parts, each the decimal text of a `uint32`
    (at most 10 digits) -/
theorem subLoop_parts (b : Bytes) : ∀ (n k : Nat) (acc parts : List String), subLoop b k n acc = .ok parts →
    ∃ ext, parts = acc ++ ext ∧ ext.length = n ∧ ∀ s ∈ ext, s.length ≤ 10
  | 0, k, acc, parts, h => by
    simp only [subLoop, Outcome.ok.injEq] at h
    exact ⟨[], by simp [h], rfl, by simp⟩
  | n + 1, k, acc, parts, h => by
    simp only [subLoop] at h
    split at h
    · rename_i v hv
      obtain ⟨ext, he, hl, hs⟩ := subLoop_parts b n (k + 1) _ parts h
      refine ⟨toString v.toNat :: ext, by simp [he], by simp [hl], ?_⟩
      intro s hs'
      rcases List.mem_cons.mp hs' with rfl | hs'
      · exact u32_text_le v
      · exact hs s hs'
    · cases h
    · cases h

theorem sid_texts (hd : String) (ext : List String) (h : ∀ s ∈ ext, s.length ≤ 10) :
    ((hd :: ext).map String.length).sum ≤ hd.length + 10 * ext.length ∧
    ("-".intercalate (hd :: ext)).length ≤ hd.length + 11 * ext.length := by
  constructor
  · have := sum_map_le String.length 10 ext h
    simp only [List.map_cons, List.sum_cons]; omega
  · rw [join_length]
    have := sum_map_le (fun s => 1 + s.length) 11 ext (fun s hs => by have := h s hs; omega)
    omega

/-- `fmt.Sprintf("S-%d-%d", revisionLevel, identifierAuthority)`: at most 2 + 3 + 1 + 20 characters -/
theorem sidHead_le (r : UInt8) (a : UInt64) :
    ("S-" ++ toString r.toNat ++ "-" ++ toString a.toNat).length ≤ 26 := by
  have h1 := u8_text_le r
  have h2 := u64_text_le a
  have e1 : ("S-" : String).length = 2 := by decide
  have e2 : ("-" : String).length = 1 := by decide
  simp only [String.length_append, e1, e2]; omega

/-- **`ParseSIDFromBytes` allocates at most `10·len(sidBytes)` bytes on every input** (`sidAllocOf`:
    16 per element of `parts`, the text of every part, the joined string): behind the check
    `len ≥ 8 + 4·count` that is `≤ 68 + 37·count ≤ 10·len`.  Linear, c₀ = 0; 0 on every input the
    function rejects. -/
theorem sidAllocOf_le (b : Bytes) : sidAllocOf b ≤ 10 * b.length := by
  unfold sidAllocOf
  split
  · rename_i r c b2 b3 b4 b5 b6 b7 rest
    split
    · omega
    · split
      · omega
      · rename_i hlen
        split
        · rename_i parts hp
          obtain ⟨ext, he, hl, hs⟩ := subLoop_parts _ _ _ _ _ hp
          have hh := sidHead_le r (authority b2 b3 b4 b5 b6 b7)
          rw [he]
          generalize ("S-" ++ toString r.toNat ++ "-" ++ toString (authority b2 b3 b4 b5 b6 b7).toNat) = hd at *
          obtain ⟨t1, t2⟩ := sid_texts hd ext hs
          simp only [List.cons_append, List.nil_append, List.length_cons] at *
          show 16 * (1 + c.toNat) + (((hd :: ext).map String.length).sum + ("-".intercalate (hd :: ext)).length) ≤ _
          omega
        · simp only [List.length_cons] at *; omega
  · omega

/-- **`ParseSIDFromBytes`** (`network/ldap/sid.go`; size of the returned SID string = its number of
    characters, all of them ASCII: `S`, `-`, digits): the string is part of what `sidAllocOf` counts
    (`≤ 10·len`, above) and is itself at most `3·len(sidBytes) + 2` characters — every 4-byte
    sub-authority prints as at most 10 digits and a dash.  Linear. -/
theorem parseSID_alloc_bound (b : Bytes) (s : String) (h : parseSID b = .ok s) :
    s.length ≤ sidAllocOf b ∧ s.length ≤ 3 * b.length + 2 := by
  unfold parseSID at h
  unfold sidAllocOf
  split at h
  · rename_i r c b2 b3 b4 b5 b6 b7 rest
    simp only []
    split at h
    · simp only [Outcome.ok.injEq] at h; rw [← h]; simp
    · rename_i hr
      rw [if_neg hr]
      split at h
      · simp only [Outcome.ok.injEq] at h; rw [← h]; simp
      · rename_i hlen
        rw [if_neg hlen]
        split at h
        · rename_i parts hp
          simp only [Outcome.ok.injEq] at h
          simp only [hp]
          obtain ⟨ext, he, hl, hs⟩ := subLoop_parts _ _ _ _ _ hp
          have hh := sidHead_le r (authority b2 b3 b4 b5 b6 b7)
          rw [← h, he]
          generalize ("S-" ++ toString r.toNat ++ "-" ++ toString (authority b2 b3 b4 b5 b6 b7).toNat) = hd at *
          obtain ⟨t1, t2⟩ := sid_texts hd ext hs
          simp only [List.cons_append, List.nil_append, List.length_cons] at *
          refine ⟨?_, by omega⟩
          show _ ≤ 16 * (1 + c.toNat) + (((hd :: ext).map String.length).sum + ("-".intercalate (hd :: ext)).length)
          omega
        · cases h
        · cases h
  · simp only [Outcome.ok.injEq] at h; rw [← h]; simp

/-- non-vacuity of the clause: were `parts` reserved by the announced count in front of the length
    check, an 8-byte input would cost 4096 bytes (the bound allows 80); the code as it is allocates
    nothing there -/
example : sidAllocEager [1, 255, 0, 0, 0, 0, 0, 0] = 4096 := by decide
example : sidAllocOf [1, 255, 0, 0, 0, 0, 0, 0] = 0 := by decide
example : parseSID (encodeSID 5 [18]) = .ok "S-1-5-18" := by decide
example : sidAllocOf (encodeSID 5 [18]) = 47 := by decide

/-! ## distinguished names -/

/-- `splitDistinguishedName` cuts the input at commas: the parts and the commas between them are the input -/
theorem splitDNAux_sizes : ∀ (s : Bytes) (esc : Bool) (cur : Bytes),
    1 ≤ (splitDNAux s esc cur).length ∧
    ((splitDNAux s esc cur).map List.length).sum + (splitDNAux s esc cur).length = s.length + cur.length + 1
  | [], _, cur => by simp [splitDNAux]
  | c :: rest, true, cur => by
    have := splitDNAux_sizes rest false (c :: cur)
    simp only [splitDNAux, List.length_cons] at *; omega
  | c :: rest, false, cur => by
    simp only [splitDNAux]
    split
    · have := splitDNAux_sizes rest true (c :: cur)
      simp only [List.length_cons] at *; omega
    · split
      · have := splitDNAux_sizes rest false []
        simp only [List.length_cons, List.map_cons, List.sum_cons, List.length_reverse, List.length_nil] at *; omega
      · have := splitDNAux_sizes rest false (c :: cur)
        simp only [List.length_cons] at *; omega

theorem splitDN_sizes (dn : Bytes) :
    (splitDN dn).length ≤ dn.length + 1 ∧ ((splitDN dn).map List.length).sum ≤ dn.length := by
  have := splitDNAux_sizes dn false []
  unfold splitDN
  simp only [List.length_nil] at this
  omega

theorem dcPrefix_length (p : Bytes) (h : hasPrefix dcPrefix p = true) : 3 ≤ p.length := by
  unfold hasPrefix dcPrefix at h
  match p, h with
  | [], h => simp [List.isPrefixOf] at h
  | [_], h => simp [List.isPrefixOf] at h
  | [_, _], h => simp [List.isPrefixOf] at h
  | _ :: _ :: _ :: _, _ => simp

theorem accumulate_cons (p : Bytes) (ps : List Bytes) :
    accumulate (p :: ps) = if hasPrefix dcPrefix p then p.drop 3 ++ [dot] ++ accumulate ps else accumulate ps := by
  unfold accumulate
  rw [List.filter_cons]
  split <;> simp

theorem accumulate_length_le : ∀ ps : List Bytes, (accumulate ps).length ≤ (ps.map List.length).sum
  | [] => by simp [accumulate]
  | p :: ps => by
    have ih := accumulate_length_le ps
    rw [accumulate_cons]
    split
    · rename_i h
      have := dcPrefix_length p h
      simp only [List.length_append, List.length_drop, List.length_cons, List.length_nil, List.map_cons, List.sum_cons]
      omega
    · simp only [List.map_cons, List.sum_cons]; omega

theorem trimDotSuffix_length_le (s : Bytes) : (trimDotSuffix s).length ≤ s.length := by
  unfold trimDotSuffix
  split
  · rename_i c r hr
    split
    · have := congrArg List.length hr
      simp only [List.length_reverse, List.length_cons] at this ⊢; omega
    · omega
  · omega

/-- **`GetDomainFromDistinguishedName`** (`network/ldap/utils.go`; the function has no error result,
    size = length of the returned string): the domain is never longer than the distinguished name —
    `≤ len(dn)`, c₁ = 1, c₀ = 0 (each `DC=x` part contributes `x.`, two bytes less than it takes). -/
theorem domainOfDN_alloc_bound (dn : Bytes) : (domainOfDN dn).length ≤ dn.length := by
  unfold domainOfDN
  have h1 := trimDotSuffix_length_le (accumulate (splitDN dn))
  have h2 := accumulate_length_le (splitDN dn)
  have h3 := (splitDN_sizes dn).2
  omega

/-- the strings built by the `+=` loop: one per part at most, none longer than the final domain -/
theorem dnConcatAlloc_le : ∀ (ps : List Bytes) (acc : Nat),
    dnConcatAlloc ps acc ≤ ps.length * (acc + (accumulate ps).length)
  | [], _ => by simp [dnConcatAlloc]
  | p :: ps, acc => by
    rw [accumulate_cons]
    simp only [dnConcatAlloc]
    split
    · have ih := dnConcatAlloc_le ps (acc + (p.length - 3 + 1))
      simp only [List.length_append, List.length_drop, List.length_cons, List.length_nil, Nat.succ_mul] at ih ⊢
      rw [show acc + (p.length - 3 + 0 + 1 + (accumulate ps).length) = acc + (p.length - 3 + 1) + (accumulate ps).length by omega]
      omega
    · have ih := dnConcatAlloc_le ps acc
      simp only [List.length_cons, Nat.succ_mul]
      omega

/-- **`GetDomainFromDistinguishedName`, everything it allocates on the way** (`dnAllocOf`: 16 per part and the bytes
    written to the builder): linear, `≤ 17·len + 16`. -/
theorem dnAllocOf_le (dn : Bytes) : dnAllocOf dn ≤ 17 * dn.length + 16 := by
  unfold dnAllocOf
  have h2 := accumulate_length_le (splitDN dn)
  obtain ⟨h3, h4⟩ := splitDN_sizes dn
  omega

/-- the repaired defect: string concatenation in the loop was quadratic -/
theorem dnAllocConcat_le (dn : Bytes) : dnAllocConcat dn ≤ (dn.length + 1) * (dn.length + 16) := by
  unfold dnAllocConcat
  have h1 := dnConcatAlloc_le (splitDN dn) 0
  have h2 := accumulate_length_le (splitDN dn)
  obtain ⟨h3, h4⟩ := splitDN_sizes dn
  have h5 : (splitDN dn).length * (0 + (accumulate (splitDN dn)).length) ≤ (dn.length + 1) * dn.length :=
    Nat.mul_le_mul h3 (by omega)
  have h6 : 16 * (splitDN dn).length ≤ (dn.length + 1) * 16 := by omega
  have : (dn.length + 1) * (dn.length + 16) = (dn.length + 1) * dn.length + (dn.length + 1) * 16 := by
    rw [Nat.mul_add]
  omega

example : dnConcatAlloc (splitDN (List.replicate 4 [68, 67, 61, 44]).flatten) 0 = 10 := by decide
example : dnConcatAlloc (splitDN (List.replicate 8 [68, 67, 61, 44]).flatten) 0 = 36 := by decide
example : dnConcatAlloc (splitDN (List.replicate 16 [68, 67, 61, 44]).flatten) 0 = 136 := by decide

end Manticore.C07A.Rest
