/-
  C19 — helper lemmas about the table interpreters of `Model/C19.lean`, proved once for ALL words
  and ALL tables (induction / bit algebra), and the soundness of the executable checkers that
  `Props/C19/Flags.lean`, `Codes.lean`, `NtStatus.lean` evaluate on the generated tables.
  The property theorems themselves are in `Props/C19.lean` and `Props/C19/*.lean`.
-/
import Manticore.Model.C19
namespace Manticore.C19
open Manticore

/-! ### one bit of a word -/

theorem and_two_pow (w b : Nat) : w &&& 2 ^ b = if w.testBit b then 2 ^ b else 0 := by
  apply Nat.eq_of_testBit_eq
  intro i
  rw [Nat.testBit_and]
  by_cases hw : w.testBit b = true
  · rw [if_pos hw, Nat.testBit_two_pow]
    by_cases h : b = i
    · subst h; simp [hw]
    · simp [h]
  · rw [if_neg hw, Nat.testBit_two_pow]
    by_cases h : b = i
    · subst h; simp at hw; simp [hw]
    · simp [h]

theorem two_pow_ne_zero (b : Nat) : 2 ^ b ≠ 0 := Nat.ne_of_gt (Nat.two_pow_pos b)

/-- a positive single-bit test is the bit -/
theorem Test.eval_positive {t : Test} {b : Nat} (h : t.positiveOn b) (w : Nat) : t.eval w = w.testBit b := by
  obtain ⟨hm, hr⟩ := h
  have h2 := two_pow_ne_zero b
  unfold Test.eval
  rw [hm, and_two_pow]
  rcases hr with ⟨hr, hn⟩ | ⟨hr, hn⟩ <;> rw [hr, hn] <;> cases w.testBit b <;> simp [Ne.symm h2]

/-- a negative single-bit test is the complement of the bit -/
theorem Test.eval_negative {t : Test} {b : Nat} (h : t.negativeOn b) (w : Nat) : t.eval w = !w.testBit b := by
  obtain ⟨hm, hr⟩ := h
  have h2 := two_pow_ne_zero b
  unfold Test.eval
  rw [hm, and_two_pow]
  rcases hr with ⟨hr, hn⟩ | ⟨hr, hn⟩ <;> rw [hr, hn] <;> cases w.testBit b <;> simp [Ne.symm h2]

private theorem isPow2_eq {m : Nat} (h : isPow2 m = true) : m = 2 ^ m.log2 := by
  simpa [isPow2] using h

theorem Test.positiveB_sound {t : Test} (h : t.positiveB = true) : t.positiveOn t.mask.log2 := by
  simp only [Test.positiveB, Bool.and_eq_true, Bool.or_eq_true, beq_iff_eq, Bool.not_eq_true'] at h
  obtain ⟨hp, hr⟩ := h
  have hm := isPow2_eq hp
  refine ⟨hm, ?_⟩
  rcases hr with ⟨h1, h2⟩ | ⟨h1, h2⟩
  · left; exact ⟨by rw [h1]; exact hm, h2⟩
  · right; exact ⟨h1, h2⟩

theorem Test.negativeB_sound {t : Test} (h : t.negativeB = true) : t.negativeOn t.mask.log2 := by
  simp only [Test.negativeB, Bool.and_eq_true, Bool.or_eq_true, beq_iff_eq, Bool.not_eq_true'] at h
  obtain ⟨hp, hr⟩ := h
  have hm := isPow2_eq hp
  refine ⟨hm, ?_⟩
  rcases hr with ⟨h1, h2⟩ | ⟨h1, h2⟩
  · left; exact ⟨h1, h2⟩
  · right; exact ⟨by rw [h1]; exact hm, h2⟩

/-- `bitSet` of a positive row is its bit -/
theorem bitSet_positive {r : FlagRow} {b : Nat} (h : r.test.positiveOn b) (w : Nat) :
    bitSet w r = w.testBit b := by
  unfold bitSet
  rw [h.1, and_two_pow]
  cases w.testBit b <;> simp

/-! ### the decomposition loop -/

private theorem decomposeGo_eq (tbl : List FlagRow) (w : Nat) :
    ∀ acc, decomposeGo tbl w acc = acc ++ (tbl.filter (fun r => r.test.eval w)).map (·.name) := by
  induction tbl with
  | nil => intro acc; simp [decomposeGo]
  | cons r rs ih =>
    intro acc
    unfold decomposeGo
    rw [ih]
    by_cases h : r.test.eval w = true
    · simp [h]
    · simp [h]

theorem decompose_eq_filter (tbl : List FlagRow) (w : Nat) :
    decompose tbl w = (tbl.filter (fun r => r.test.eval w)).map (·.name) := by
  simp [decompose, decomposeGo_eq]

/-! ### sorting in the kernel: `msort` is a permutation, `strictAsc` gives `Nodup`, `subsetLoop` is sound -/

private theorem merge2_perm : ∀ (f : Nat) (xs ys : List Nat), (merge2 f xs ys).Perm (xs ++ ys) := by
  intro f
  induction f with
  | zero => intro xs ys; simp [merge2]
  | succ f ih =>
    intro xs ys
    cases xs with
    | nil => simp [merge2]
    | cons x xs =>
      cases ys with
      | nil => simp [merge2]
      | cons y ys =>
        simp only [merge2]
        split
        · exact (ih xs (y :: ys)).cons x
        · have h1 := (ih (x :: xs) ys).cons y
          refine h1.trans ?_
          have : (y :: (x :: xs ++ ys)).Perm ((x :: xs) ++ y :: ys) := by
            simpa using (List.perm_middle (a := y) (l₁ := x :: xs) (l₂ := ys)).symm
          exact this

private theorem mergePairs_perm : ∀ (ls : List (List Nat)), (mergePairs ls).flatten.Perm ls.flatten
  | [] => by simp [mergePairs]
  | [a] => by simp [mergePairs]
  | a :: b :: rest => by
    simp only [mergePairs, List.flatten_cons]
    have h := merge2_perm (a.length + b.length) a b
    have ih := mergePairs_perm rest
    rw [← List.append_assoc]
    exact h.append ih

private theorem msortLoop_perm : ∀ (f : Nat) (ls : List (List Nat)), (msortLoop f ls).Perm ls.flatten := by
  intro f
  induction f with
  | zero => intro ls; simp [msortLoop]
  | succ f ih =>
    intro ls
    match ls with
    | [] => simp [msortLoop]
    | [l] => simp [msortLoop]
    | a :: b :: rest =>
      simp only [msortLoop]
      exact (ih _).trans (mergePairs_perm _)

theorem msort_perm (l : List Nat) : (msort l).Perm l := by
  have e : ∀ l : List Nat, (l.map fun x => [x]).flatten = l := by
    intro l
    induction l with
    | nil => rfl
    | cons a t ih => simp [ih]
  unfold msort
  have h := msortLoop_perm l.length (l.map fun x => [x])
  rwa [e] at h

private theorem strictAsc_lt_all : ∀ (l : List Nat) (a : Nat), strictAsc (a :: l) = true → ∀ x ∈ l, a < x := by
  intro l
  induction l with
  | nil => intro a _ x hx; cases hx
  | cons b t ih =>
    intro a h x hx
    simp only [strictAsc, Bool.and_eq_true, decide_eq_true_eq] at h
    rcases List.mem_cons.mp hx with rfl | hx
    · exact h.1
    · exact Nat.lt_trans h.1 (ih b h.2 x hx)

private theorem strictAsc_tail : ∀ (l : List Nat) (a : Nat), strictAsc (a :: l) = true → strictAsc l = true := by
  intro l a h
  cases l with
  | nil => rfl
  | cons b t => simp only [strictAsc, Bool.and_eq_true] at h; exact h.2

private theorem strictAsc_nodup : ∀ (l : List Nat), strictAsc l = true → l.Nodup := by
  intro l
  induction l with
  | nil => intro _; exact List.nodup_nil
  | cons a t ih =>
    intro h
    refine List.nodup_cons.mpr ⟨?_, ih (strictAsc_tail t a h)⟩
    intro hm
    exact Nat.lt_irrefl a (strictAsc_lt_all t a h a hm)

theorem nodupB_sound {l : List Nat} (h : nodupB l = true) : l.Nodup :=
  (msort_perm l).nodup_iff.mp (strictAsc_nodup _ h)

private theorem nodup_of_map {α β} (f : α → β) {l : List α} (h : (l.map f).Nodup) : l.Nodup := by
  unfold List.Nodup at *
  rw [List.pairwise_map] at h
  exact h.imp (fun hne heq => hne (by rw [heq]))

theorem nameListNodupB_sound {l : List Name} (h : nameListNodupB l = true) : l.Nodup :=
  nodup_of_map nameCode (nodupB_sound h)

private theorem subsetLoop_sound : ∀ (f : Nat) (a b : List Nat), subsetLoop f a b = true → ∀ x ∈ a, x ∈ b := by
  intro f
  induction f with
  | zero =>
    intro a b h x hx
    cases a with
    | nil => cases hx
    | cons _ _ => simp [subsetLoop] at h
  | succ f ih =>
    intro a b h x hx
    cases a with
    | nil => cases hx
    | cons a0 as =>
      cases b with
      | nil => simp [subsetLoop] at h
      | cons b0 bs =>
        simp only [subsetLoop] at h
        split at h
        · rename_i heq
          have heq : a0 = b0 := by simpa using heq
          rcases List.mem_cons.mp hx with rfl | hx
          · rw [heq]; exact List.mem_cons_self
          · exact ih as (b0 :: bs) h x hx
        · split at h
          · exact List.mem_cons_of_mem _ (ih (a0 :: as) bs h x hx)
          · cases h

theorem subsetB_sound {a b : List Nat} (h : subsetB a b = true) : ∀ x ∈ a, x ∈ b := by
  intro x hx
  have hx' : x ∈ msort a := (msort_perm a).mem_iff.mpr hx
  exact (msort_perm b).mem_iff.mp (subsetLoop_sound _ _ _ h x hx')

theorem singleBitDistinctB_sound {tbl : List FlagRow} (h : singleBitDistinctB tbl = true) :
    SingleBitDistinct tbl := by
  simp only [singleBitDistinctB, Bool.and_eq_true, List.all_eq_true] at h
  exact ⟨fun r hr => ⟨_, Test.positiveB_sound (h.1 r hr)⟩, nodupB_sound h.2⟩

/-! ### Go string order: total, transitive, antisymmetric; sorting forgets the visiting order -/

private theorem leName_total : ∀ (a b : Name), (leName a b || leName b a) = true := by
  intro a
  induction a with
  | nil => intro b; simp [leName]
  | cons x xs ih =>
    intro b
    cases b with
    | nil => simp [leName]
    | cons y ys =>
      simp only [leName]
      by_cases h1 : x < y
      · simp [h1]
      · by_cases h2 : y < x
        · simp [h1, h2]
        · simp only [h1, h2, if_false]; exact ih ys

private theorem leName_trans : ∀ (a b c : Name), leName a b = true → leName b c = true → leName a c = true := by
  intro a
  induction a with
  | nil => intro b c _ _; simp [leName]
  | cons x xs ih =>
    intro b c hab hbc
    cases b with
    | nil => simp [leName] at hab
    | cons y ys =>
      cases c with
      | nil => simp [leName] at hbc
      | cons z zs =>
        simp only [leName] at hab hbc ⊢
        by_cases h1 : x < y
        · by_cases h3 : y < z
          · have : x < z := Nat.lt_trans h1 h3
            simp [this]
          · by_cases h4 : z < y
            · simp [h3, h4] at hbc
            · have : y = z := by omega
              subst this; simp [h1]
        · by_cases h2 : y < x
          · simp [h1, h2] at hab
          · have hxy : x = y := by omega
            subst hxy
            simp only [h1, if_false] at hab
            by_cases h3 : x < z
            · simp [h3]
            · by_cases h4 : z < x
              · simp [h3, h4] at hbc
              · simp only [h3, h4, if_false] at hbc ⊢
                exact ih ys zs hab hbc

private theorem leName_antisymm : ∀ (a b : Name), leName a b = true → leName b a = true → a = b := by
  intro a
  induction a with
  | nil => intro b _ hba; cases b with
    | nil => rfl
    | cons _ _ => simp [leName] at hba
  | cons x xs ih =>
    intro b hab hba
    cases b with
    | nil => simp [leName] at hab
    | cons y ys =>
      simp only [leName] at hab hba
      by_cases h1 : x < y
      · have : ¬ y < x := by omega
        simp [h1, this] at hba
      · by_cases h2 : y < x
        · simp [h1, h2] at hab
        · have hxy : x = y := by omega
          subst hxy
          simp only [h1, if_false] at hab hba
          rw [ih ys hab hba]

/-- `sort.Strings` yields the same list for every arrangement of the same names -/
theorem sortNames_perm {l₁ l₂ : List Name} (h : l₁.Perm l₂) : sortNames l₁ = sortNames l₂ := by
  unfold sortNames
  have p1 := List.pairwise_mergeSort (le := leName) leName_trans leName_total l₁
  have p2 := List.pairwise_mergeSort (le := leName) leName_trans leName_total l₂
  have hp : (l₁.mergeSort leName).Perm (l₂.mergeSort leName) :=
    (List.mergeSort_perm l₁ leName).trans (h.trans (List.mergeSort_perm l₂ leName).symm)
  exact List.Perm.eq_of_pairwise (le := fun a b => leName a b = true)
    (fun a b _ _ hab hba => leName_antisymm a b hab hba) p1 p2 hp

theorem sortNats_perm {l₁ l₂ : List Nat} (h : l₁.Perm l₂) : sortNats l₁ = sortNats l₂ := by
  unfold sortNats
  have tr : ∀ a b c : Nat, decide (a ≤ b) = true → decide (b ≤ c) = true → decide (a ≤ c) = true := by
    intro a b c h1 h2; simp at *; omega
  have tot : ∀ a b : Nat, (decide (a ≤ b) || decide (b ≤ a)) = true := by
    intro a b; simp; omega
  have p1 := List.pairwise_mergeSort (le := fun a b : Nat => decide (a ≤ b)) tr tot l₁
  have p2 := List.pairwise_mergeSort (le := fun a b : Nat => decide (a ≤ b)) tr tot l₂
  have hp := (List.mergeSort_perm l₁ (fun a b : Nat => decide (a ≤ b))).trans
    (h.trans (List.mergeSort_perm l₂ (fun a b : Nat => decide (a ≤ b))).symm)
  exact List.Perm.eq_of_pairwise (le := fun a b : Nat => decide (a ≤ b) = true)
    (fun a b _ _ hab hba => by simp at hab hba; omega) p1 p2 hp

theorem decompose_perm {order rows : List FlagRow} (h : order.Perm rows) (w : Nat) :
    (decompose order w).Perm (decompose rows w) := by
  rw [decompose_eq_filter, decompose_eq_filter]
  exact (h.filter _).map _

/-! ### lookups -/

private theorem lookup_of_mem_keys : ∀ (rows : List (Nat × Name)) (v : Nat),
    v ∈ rows.map (·.1) → ∃ n, rows.lookup v = some n ∧ (v, n) ∈ rows := by
  intro rows
  induction rows with
  | nil => intro v h; cases h
  | cons r rs ih =>
    intro v h
    obtain ⟨k, n⟩ := r
    by_cases hk : v = k
    · subst hk
      exact ⟨n, by simp [List.lookup], List.mem_cons_self⟩
    · have hm : v ∈ rs.map (·.1) := by
        simp only [List.map_cons, List.mem_cons] at h
        rcases h with h | h
        · exact absurd h hk
        · exact h
      obtain ⟨n', h1, h2⟩ := ih v hm
      refine ⟨n', ?_, List.mem_cons_of_mem _ h2⟩
      have : (v == k) = false := by simp [hk]
      simp [List.lookup, this, h1]

private theorem lookupS_of_mem_keys : ∀ (rows : List (Nat × String)) (v : Nat),
    v ∈ rows.map (·.1) → ∃ n, rows.lookup v = some n := by
  intro rows
  induction rows with
  | nil => intro v h; cases h
  | cons r rs ih =>
    intro v h
    obtain ⟨k, n⟩ := r
    by_cases hk : v = k
    · subst hk
      exact ⟨n, by simp [List.lookup]⟩
    · have hm : v ∈ rs.map (·.1) := by
        simp only [List.map_cons, List.mem_cons] at h
        rcases h with h | h
        · exact absurd h hk
        · exact h
      obtain ⟨n', h1⟩ := ih v hm
      refine ⟨n', ?_⟩
      have : (v == k) = false := by simp [hk]
      simp [List.lookup, this, h1]

private theorem key_unique_of_names_nodup : ∀ (rows : List (Nat × Name)) (a b : Nat) (n : Name),
    (rows.map (·.2)).Nodup → (a, n) ∈ rows → (b, n) ∈ rows → a = b := by
  intro rows
  induction rows with
  | nil => intro a b n _ h; cases h
  | cons r rs ih =>
    intro a b n hnd ha hb
    simp only [List.map_cons, List.nodup_cons] at hnd
    have hmem : ∀ c, (c, n) ∈ rs → n ∈ rs.map (·.2) := fun c hc => List.mem_map.mpr ⟨(c, n), hc, rfl⟩
    have ha' := List.mem_cons.mp ha
    have hb' := List.mem_cons.mp hb
    clear ha hb
    rcases ha' with ha | ha <;> rcases hb' with hb | hb
    · rw [← hb] at ha; exact (Prod.mk.inj ha).1
    · have : n = r.2 := by rw [← ha]
      rw [← this] at hnd; exact absurd (hmem b hb) hnd.1
    · have : n = r.2 := by rw [← hb]
      rw [← this] at hnd; exact absurd (hmem a ha) hnd.1
    · exact ih a b n hnd.2 ha hb

/-- What the checker `CodeTable.okB` guarantees (all four clauses of the property for one table). -/
structure CodeTable.Good (t : CodeTable) : Prop where
  /-- every declared constant is a key of the table -/
  named : ∀ v ∈ t.consts, ∃ n, t.rows.lookup v = some n ∧ (v, n) ∈ t.rows
  /-- distinct declared values get distinct names -/
  injective : ∀ v₁ ∈ t.consts, ∀ v₂ ∈ t.consts, v₁ ≠ v₂ → t.string v₁ ≠ t.string v₂
  /-- the name of a declared constant is not empty and is not what an undeclared value would get -/
  noPlaceholder : ∀ v ∈ t.consts, nonPlaceholder t v (t.string v) = true
  /-- the table has no duplicate key (the lookup does not depend on the order of the rows) -/
  keysDistinct : (t.rows.map (·.1)).Nodup

theorem CodeTable.okB_sound {t : CodeTable} (h : t.okB = true) : t.Good := by
  simp only [CodeTable.okB, Bool.and_eq_true] at h
  obtain ⟨⟨⟨hk, hn⟩, hc⟩, hp⟩ := h
  have hkeys : (t.rows.map (·.1)).Nodup := nodupB_sound hk
  have hnames : (t.rows.map (·.2)).Nodup := nameListNodupB_sound hn
  have hsub := subsetB_sound hc
  have named : ∀ v ∈ t.consts, ∃ n, t.rows.lookup v = some n ∧ (v, n) ∈ t.rows :=
    fun v hv => lookup_of_mem_keys t.rows v (hsub v hv)
  refine ⟨named, ?_, ?_, hkeys⟩
  · intro v₁ h₁ v₂ h₂ hne heq
    obtain ⟨n₁, l₁, m₁⟩ := named v₁ h₁
    obtain ⟨n₂, l₂, m₂⟩ := named v₂ h₂
    simp only [CodeTable.string, l₁, l₂] at heq
    have e1 : n₁ ++ t.wrapPost = n₂ ++ t.wrapPost := by
      have := heq
      simp only [List.append_assoc] at this
      exact List.append_cancel_left this
    have e2 : n₁ = n₂ := List.append_cancel_right e1
    subst e2
    exact hne (key_unique_of_names_nodup t.rows v₁ v₂ n₁ hnames m₁ m₂)
  · intro v hv
    obtain ⟨n, l, m⟩ := named v hv
    simp only [CodeTable.noPlaceholderB, List.all_eq_true] at hp
    have := hp (v, n) m
    simp only [Bool.and_eq_true, Bool.not_eq_true', bne_iff_ne, ne_eq] at this
    simp only [nonPlaceholder, CodeTable.string, l, Bool.and_eq_true, Bool.not_eq_true', bne_iff_ne, ne_eq]
    refine ⟨?_, this.2⟩
    have hne : n ≠ [] := by
      intro hn; rw [hn] at this; simp at this
    cases hpre : t.wrapPre with
    | nil => cases n with
      | nil => exact absurd rfl hne
      | cons _ _ => simp
    | cons _ _ => simp

/-! ### the error text mentions the code -/

private theorem hasInfix_of_prefix : ∀ (x l : Name), x.isPrefixOf l = true → hasInfix x l = true := by
  intro x l h
  cases l with
  | nil => cases x with
    | nil => rfl
    | cons _ _ => simp [List.isPrefixOf] at h
  | cons a t => simp [hasInfix, h]

private theorem hasInfix_cons (x : Name) (a : Nat) (t : Name) (h : hasInfix x t = true) : hasInfix x (a :: t) = true := by
  simp [hasInfix, h]

private theorem hasInfix_append_left : ∀ (pre x l : Name), hasInfix x l = true → hasInfix x (pre ++ l) = true := by
  intro pre
  induction pre with
  | nil => intro x l h; simpa using h
  | cons a t ih => intro x l h; exact hasInfix_cons x a _ (ih x l h)

theorem hasInfix_mid (pre x post : Name) : hasInfix x (pre ++ (x ++ post)) = true := by
  apply hasInfix_append_left
  apply hasInfix_of_prefix
  exact List.isPrefixOf_iff_prefix.mpr (List.prefix_append x post)

private theorem seg_mentions (s : Seg) (hs : s.isCode = true) (code : Nat) (txt pre post : Name) :
    mentionsCode code (pre ++ (s.render code txt ++ post)) = true := by
  unfold mentionsCode
  cases s with
  | lit n => simp [Seg.isCode] at hs
  | text => simp [Seg.isCode] at hs
  | codeDec =>
    have := hasInfix_mid pre (dec code) post
    simp [Seg.render, this]
  | codeHex w u =>
    have h := hasInfix_mid (pre ++ List.replicate (w - (hex u code).length) 48) (hex u code) post
    have e : pre ++ (Seg.render code txt (Seg.codeHex w u) ++ post)
        = (pre ++ List.replicate (w - (hex u code).length) 48) ++ (hex u code ++ post) := by
      simp [Seg.render, hexPad, List.append_assoc]
    rw [e]
    cases u <;> simp only [h, Bool.true_or, Bool.or_true]

/-- a format that prints the code makes every rendered text mention it -/
theorem renderFmt_mentions_code (fmt : List Seg) (h : fmt.any Seg.isCode = true) (code : Nat) (txt : Name) :
    mentionsCode code (renderFmt fmt code txt) = true := by
  obtain ⟨s, hmem, hs⟩ := List.any_eq_true.mp h
  obtain ⟨l₁, l₂, rfl⟩ := List.append_of_mem hmem
  have : renderFmt (l₁ ++ s :: l₂) code txt =
      (l₁.map (Seg.render code txt)).flatten ++ (s.render code txt ++ (l₂.map (Seg.render code txt)).flatten) := by
    simp [renderFmt]
  rw [this]
  exact seg_mentions s hs code txt _ _

/-- a status that is a key of the error map and is not the success value gets a non-nil error whose
    text mentions its numeric code -/
theorem ntError_of_key (success : Nat) (errRows : List (Nat × String)) (fmt : List Seg)
    (hf : fmt.any Seg.isCode = true) (v : Nat) (hv : v ∈ errRows.map (·.1)) (hs : v ≠ success) :
    ∃ e, ntError success errRows fmt v = some e ∧ mentionsCode v e = true := by
  obtain ⟨txt, hl⟩ := lookupS_of_mem_keys errRows v hv
  refine ⟨renderFmt fmt v (Name.ofString txt), ?_, renderFmt_mentions_code fmt hf v _⟩
  have : (v == success) = false := by simp [hs]
  simp [ntError, this, hl]

end Manticore.C19
