/-
  Which nested wire types of the concrete codec table `SmbCodecs.std` (the C06 models of the Go
  `Marshal` methods) are encoded as MS-CIFS prescribes (`Spec.Cifs.nestedEnc`), for all values.
  Helper lemmas; the property theorems are in `Props/C05.lean`.
-/
import Manticore.Model.SmbConforms
import Manticore.Model.SmbCodecs
import Manticore.Lemmas.Endian
namespace Manticore.SmbCodecs
open Manticore Manticore.SmbIR Manticore.Spec.Cifs Manticore.C06

/-! ### numbers and bytes -/

private theorem natLe_leNat (bs : Bytes) : natLe bs.length (leNat bs) = bs := by
  induction bs with
  | nil => rfl
  | cons b bs ih =>
    have hb := b.toNat_lt
    simp only [List.length_cons, natLe, leNat]
    rw [show (b.toNat + 256 * leNat bs) % 256 = b.toNat by omega,
      show (b.toNat + 256 * leNat bs) / 256 = leNat bs by omega, ih]
    simp

private theorem leNat_le16 (x : UInt16) : leNat (putLe16 x) = x.toNat := by
  have := x.toNat_lt
  simp [putLe16, leNat, Nat.shiftRight_eq_div_pow]
  omega

private theorem leNat_le32 (x : UInt32) : leNat (putLe32 x) = x.toNat := by
  have := x.toNat_lt
  simp [putLe32, leNat, Nat.shiftRight_eq_div_pow]
  omega

theorem natLe2 (x : UInt16) : natLe 2 x.toNat = putLe16 x := by
  have := natLe_leNat (putLe16 x)
  rwa [leNat_le16] at this

theorem natLe4 (x : UInt32) : natLe 4 x.toNat = putLe32 x := by
  have := natLe_leNat (putLe32 x)
  rwa [leNat_le32] at this

theorem natLe2_ofNat (n : Nat) (h : n < 65536) : natLe 2 n = putLe16 (UInt16.ofNat n) := by
  rw [← natLe2]
  congr 1
  simp [Nat.mod_eq_of_lt h]

private theorem or_eq_add_of_lt (a b k : Nat) (hb : b < 2^k) (ha : 2^k ∣ a) : a ||| b = a + b := by
  obtain ⟨q, rfl⟩ := ha
  rw [Nat.mul_comm, ← Nat.shiftLeft_eq]
  exact (Nat.shiftLeft_add_eq_or_of_lt hb q).symm

/-- the packed SMB_DATE word as a number: `(Year-1980)*512 + Month*32 + Day` on the representable dates -/
theorem pack_toNat (d : SmbDate.V) (hy : 1980 ≤ d.year.toNat) (hy' : d.year.toNat < 2108)
    (hm : d.month.toNat < 16) (hd : d.day.toNat < 32) :
    (SmbDate.pack d).toNat = (d.year.toNat - 1980) * 512 + d.month.toNat * 32 + d.day.toNat := by
  have hsub : (d.year - 1980).toNat = d.year.toNat - 1980 := by
    rw [UInt16.toNat_sub_of_le]
    · rfl
    · exact UInt16.le_iff_toNat_le.2 (by simpa using hy)
  simp only [SmbDate.pack, UInt16.toNat_or, UInt16.toNat_shiftLeft, UInt8.toNat_toUInt16, hsub,
    Nat.shiftLeft_eq]
  simp only [UInt16.toNat_ofNat, Nat.reducePow, Nat.reduceMod] at *
  rw [Nat.mod_eq_of_lt (by omega), Nat.mod_eq_of_lt (by omega)]
  rw [or_eq_add_of_lt ((d.year.toNat - 1980) * 512) (d.month.toNat * 32) 9 (by omega) (by omega)]
  rw [or_eq_add_of_lt _ d.day.toNat 5 (by omega) (by omega)]

/-! ### the conforming types -/

theorem filetime_conforms : NestedConforms std "FILETIME" := by
  intro v bs v' h sb hs
  simp only [std, enc, lift] at h
  split at h
  · rename_i a ha
    unfold timeOf at ha
    split at ha
    · cases ha
      simp only [pure', FileTime.encode, Outcome.map', timeTo, Outcome.ok.injEq, Prod.mk.injEq] at h
      obtain ⟨rfl, rfl⟩ := h
      simp only [nestedEnc, natLe4, Option.some.injEq] at hs
      exact hs
    · cases ha
  · cases h

theorem smb_time_conforms : NestedConforms std "SMB_TIME" := by
  intro v bs v' h sb hs
  simp only [std, enc, lift] at h
  split at h
  · rename_i a ha
    unfold timeOf at ha
    split at ha
    · cases ha
      simp only [pure', FileTime.encode, Outcome.map', timeTo, Outcome.ok.injEq, Prod.mk.injEq] at h
      obtain ⟨rfl, rfl⟩ := h
      simp only [nestedEnc, natLe4, Option.some.injEq] at hs
      exact hs
    · cases ha
  · cases h

theorem smb_date_conforms : NestedConforms std "SMB_DATE" := by
  intro v bs v' h sb hs
  simp only [std, enc, lift] at h
  split at h
  · rename_i a ha
    unfold dateOf at ha
    split at ha
    · cases ha
      simp only [pure', SmbDate.encode, Outcome.map', dateTo, Outcome.ok.injEq, Prod.mk.injEq] at h
      obtain ⟨rfl, rfl⟩ := h
      simp only [nestedEnc] at hs
      split at hs
      · rename_i hdom
        obtain ⟨h1, h2, h3, h4⟩ := hdom
        simp only [Option.some.injEq] at hs
        rename_i y m d
        have hp := pack_toNat ⟨u16 y, u8 m, u8 d⟩ h1 h2 h3 h4
        simp only at hp
        rw [← hs, ← hp, natLe2]
      · cases hs
    · cases ha
  · cases h

theorem nmpipe_status_conforms : NestedConforms std "SMB_NMPIPE_STATUS" := by
  intro v bs v' h sb hs
  simp only [std, enc, lift] at h
  split at h
  · rename_i a ha
    unfold pipeOf at ha
    split at ha
    · cases ha
      simp only [pure', PipeStatus.encode, Outcome.map', pipeTo, Outcome.ok.injEq, Prod.mk.injEq] at h
      obtain ⟨rfl, rfl⟩ := h
      simp only [nestedEnc, UInt8.ofNat_toNat, Option.some.injEq] at hs
      exact hs
    · cases ha
  · cases h

theorem range64_conforms : NestedConforms std "LOCKING_ANDX_RANGE64" := by
  intro v bs v' h sb hs
  simp only [std, enc, lift] at h
  split at h
  · rename_i a ha
    unfold r64Of at ha
    split at ha
    · cases ha
      simp only [pure', Range64.encode, Outcome.map', r64To, Outcome.ok.injEq, Prod.mk.injEq] at h
      obtain ⟨rfl, rfl⟩ := h
      simp only [nestedEnc, natLe4, natLe2, Option.some.injEq] at hs
      exact hs
    · cases ha
  · cases h

theorem dialects_conforms : NestedConforms std "Dialects" := by
  intro v bs v' h sb hs
  simp only [std, enc] at h
  split at h
  · simp only [Outcome.ok.injEq, Prod.mk.injEq] at h
    obtain ⟨rfl, rfl⟩ := h
    simp only [nestedEnc] at hs
    split at hs
    · simp only [Option.some.injEq] at hs
      exact hs
    · cases hs
  · cases h

/-- what `SMB_STRING.Marshal` does, in the flattened form -/
theorem smb_string_enc {v : Tup} {bs : Bytes} {v' : Tup} (h : std.enc "SMB_STRING" v = .ok (bs, v')) :
    ∃ f l buf, v = ([f, l], [buf]) ∧ ∃ s', SmbString.marshal ⟨u8 f, u16 l, buf⟩ = .ok (bs, s') ∧ v' = strTo s' := by
  simp only [std, enc, lift] at h
  split at h
  · rename_i a ha
    unfold strOf at ha
    split at ha
    · cases ha
      rename_i f l buf
      refine ⟨f, l, buf, rfl, ?_⟩
      cases hm : SmbString.marshal ⟨u8 f, u16 l, buf⟩ with
      | ok r =>
        simp only [hm, Outcome.map', Outcome.ok.injEq, Prod.mk.injEq] at h
        obtain ⟨rfl, rfl⟩ := h
        exact ⟨r.2, rfl, rfl⟩
      | err => simp [hm, Outcome.map'] at h
      | panic => simp [hm, Outcome.map'] at h
    · cases ha
  · cases h

private theorem u8_eq_of_toNat {x : UInt8} {n : Nat} (h : x.toNat = n) (hn : n < 256) : x = UInt8.ofNat n := by
  apply UInt8.toNat_inj.1
  simp [h, Nat.mod_eq_of_lt hn]

/-- **SMB_STRING conforms for the buffer formats 0x01, 0x02, 0x04, 0x05** (the format being the one
    `Marshal` leaves in the value): format byte, then `USHORT` length and bytes (0x01/0x05) or the
    null-terminated bytes (0x02/0x04) -/
theorem smb_string_conforms_at (v' : Tup) (hf : v'.1.head? ≠ some 3) :
    NestedConformsAt std "SMB_STRING" v' := by
  intro v bs h sb hs
  obtain ⟨f, l, buf, rfl, s', hm, rfl⟩ := smb_string_enc h
  simp only [SmbString.marshal] at hm
  split at hm
  · -- 0x01 / 0x05
    rename_i h15
    split at hm
    · cases hm
    · rename_i hlen
      simp only [Outcome.ok.injEq, Prod.mk.injEq] at hm
      obtain ⟨rfl, rfl⟩ := hm
      have h15' : (u8 f).toNat = 1 ∨ (u8 f).toNat = 5 := by
        rcases h15 with h | h <;> simp [h]
      have hlt : buf.length < 65536 := by omega
      simp only [strTo, nestedEnc, h15', ↓reduceIte, hlt, Option.some.injEq, UInt8.ofNat_toNat] at hs
      rw [← hs, natLe2_ofNat _ hlt]
      rfl
  · rename_i h15
    split at hm
    · -- 0x02 / 0x04
      rename_i h24
      simp only [Outcome.ok.injEq, Prod.mk.injEq] at hm
      obtain ⟨rfl, rfl⟩ := hm
      have h24' : (u8 f).toNat = 2 ∨ (u8 f).toNat = 4 := by
        rcases h24 with h | h <;> simp [h]
      have hn15 : ¬ ((u8 f).toNat = 1 ∨ (u8 f).toNat = 5) := by omega
      have h234 : (u8 f).toNat = 2 ∨ (u8 f).toNat = 3 ∨ (u8 f).toNat = 4 := by omega
      simp only [strTo, nestedEnc, hn15, ↓reduceIte, h234, UInt8.ofNat_toNat] at hs
      split at hs
      · simp only [Option.some.injEq] at hs
        rw [← hs]; rfl
      · cases hs
    · split at hm
      · -- 0x03: excluded by the hypothesis
        rename_i h3
        split at hm
        · cases hm
        · simp only [Outcome.ok.injEq, Prod.mk.injEq] at hm
          obtain ⟨_, rfl⟩ := hm
          exact absurd (by simp [strTo, h3]) hf
      · cases hm

/-- **Format 0x03 never conforms**: the code writes `03 len16 bytes 00`, MS-CIFS `03 bytes 00` —
    two bytes more, for every string -/
theorem smb_string_format3_differs (v : Tup) (bs : Bytes) (v' : Tup)
    (h : std.enc "SMB_STRING" v = .ok (bs, v')) (hf : v'.1.head? = some 3)
    (sb : Bytes) (hs : nestedEnc "SMB_STRING" v' = some sb) : bs.length = sb.length + 2 := by
  obtain ⟨f, l, buf, rfl, s', hm, rfl⟩ := smb_string_enc h
  have hfmt : s'.format = u8 f ∧ s'.buffer = buf := by
    simp only [SmbString.marshal] at hm
    repeat' split at hm
    all_goals first
      | cases hm; done
      | (simp only [Outcome.ok.injEq, Prod.mk.injEq] at hm
         obtain ⟨_, rfl⟩ := hm
         exact ⟨rfl, rfl⟩)
  have h3n : s'.format.toNat = 3 := by simpa [strTo] using hf
  have h3 : u8 f = 3 := by
    rw [← hfmt.1]
    have : s'.format = UInt8.ofNat 3 := u8_eq_of_toNat h3n (by decide)
    exact this
  simp only [SmbString.marshal, h3] at hm
  simp only [show ¬((3 : UInt8) = 1 ∨ (3 : UInt8) = 5) by decide,
    show ¬((3 : UInt8) = 2 ∨ (3 : UInt8) = 4) by decide, ↓reduceIte] at hm
  split at hm
  · cases hm
  · simp only [Outcome.ok.injEq, Prod.mk.injEq] at hm
    obtain ⟨rfl, rfl⟩ := hm
    simp only [strTo, nestedEnc, show ¬((3 : UInt8).toNat = 1 ∨ (3 : UInt8).toNat = 5) by decide,
      show ((3 : UInt8).toNat = 2 ∨ (3 : UInt8).toNat = 3 ∨ (3 : UInt8).toNat = 4) by decide, ↓reduceIte] at hs
    split at hs
    · simp only [Option.some.injEq] at hs
      rw [← hs]
      simp [putLe16]
    · cases hs

theorem oem_string_conforms : NestedConforms std "OEM_STRING" := by
  intro v bs v' h sb hs
  simp only [std, enc, lift] at h
  split at h
  · rename_i a ha
    unfold strOf at ha
    split at ha
    · cases ha
      simp only [OemString.marshal, SmbString.marshal,
        show ¬((4 : UInt8) = 1 ∨ (4 : UInt8) = 5) by decide, or_true, ↓reduceIte, Outcome.map', strTo,
        Outcome.ok.injEq, Prod.mk.injEq] at h
      obtain ⟨rfl, rfl⟩ := h
      simp only [nestedEnc] at hs
      split at hs
      · simp only [Option.some.injEq] at hs
        rw [← hs]; rfl
      · cases hs
    · cases ha
  · cases h

/-- types for which MS-CIFS (as read in `Spec.Cifs.nestedEnc`) gives no encoding: nothing to compare -/
theorem silent_conforms (C : Codecs) (typ : String) (h : ∀ v, nestedEnc typ v = none) :
    NestedConforms C typ := by
  intro v bs v' _ sb hs
  rw [h v'] at hs
  cases hs

theorem resume_key_silent (v : Tup) : nestedEnc "SMB_RESUME_KEY" v = none := by
  simp [nestedEnc]

theorem dir_info_silent (v : Tup) : nestedEnc "SMB_DIRECTORY_INFORMATION" v = none := by
  simp [nestedEnc]

/-! ### list elements: conformance on the value handed to the encoder -/

theorem silent_conforms_in (C : Codecs) (typ : String) (h : ∀ v, nestedEnc typ v = none) :
    NestedConformsIn C typ := by
  intro v bs v' _ sb hs
  rw [h v] at hs
  cases hs

private theorem natLe2_trunc (n : Nat) : natLe 2 n = putLe16 (u16 n) := by
  rw [← natLe2]
  simp only [natLe, u16, UInt16.toNat_ofNat', List.cons.injEq, and_true]
  constructor <;> congr 1 <;> omega

private theorem natLe4_trunc (n : Nat) : natLe 4 n = putLe32 (u32 n) := by
  rw [← natLe4]
  simp only [natLe, u32, UInt32.toNat_ofNat', List.cons.injEq, and_true]
  refine ⟨?_, ?_, ?_, ?_⟩ <;> congr 1 <;> omega

/-- `LOCKING_ANDX_RANGE64.Marshal` on the element of a list (`for _, x := range c.Locks`): the bytes are
    the MS-CIFS bytes of that element (both sides keep the low 16 / 32 bits of each number) -/
theorem range64_conforms_in : NestedConformsIn std "LOCKING_ANDX_RANGE64" := by
  intro v bs v' h sb hs
  simp only [std, enc, lift] at h
  split at h
  · rename_i a ha
    unfold r64Of at ha
    split at ha
    · cases ha
      simp only [pure', Range64.encode, Outcome.map', Outcome.ok.injEq, Prod.mk.injEq] at h
      obtain ⟨rfl, _⟩ := h
      simp only [nestedEnc, natLe4_trunc, natLe2_trunc, Option.some.injEq] at hs
      exact hs
    · cases ha
  · cases h

end Manticore.SmbCodecs
