/-
  Helper lemmas for C13: the library's text formats against the MS-DTYP / .NET text of the same value.
-/
import Manticore.Lemmas.C13GuidTextX
namespace Manticore.C13
open Manticore

theorem hexOfBytes_append (a b : Bytes) : hexOfBytes (a ++ b) = hexOfBytes a ++ hexOfBytes b := by
  simp [hexOfBytes, List.flatMap_append]

theorem hexOfBytes_ofNat (x : Nat) : hexOfBytes [UInt8.ofNat (x % 256)] = fixedHex 2 x := by
  have e : (UInt8.ofNat (x % 256)).toNat = x % 256 := by simp [UInt8.toNat_ofNat']
  have h1 : x % 256 / 16 = x / 16 % 16 := by omega
  have h2 : x % 256 % 16 = x % 16 := by omega
  simp [hexOfBytes, fixedHex, e, h1, h2]

theorem natBe_succ (k e : Nat) : natBe (k + 1) e = natBe k (e / 256) ++ [UInt8.ofNat (e % 256)] := by
  simp [natBe, natLe]

theorem length_natBe (k e : Nat) : (natBe k e).length = k := by
  induction k generalizing e with
  | zero => rfl
  | succ k ih => rw [natBe_succ]; simp [ih]

/-- the hex text of the `k` big-endian bytes of a number is its `2k`-digit fixed-width hex -/
theorem hexOfBytes_natBe (k e : Nat) : hexOfBytes (natBe k e) = fixedHex (2 * k) e := by
  induction k generalizing e with
  | zero => rfl
  | succ k ih =>
    rw [natBe_succ, hexOfBytes_append, ih, hexOfBytes_ofNat]
    have : 2 * (k + 1) = 2 * k + 2 := by omega
    rw [this, fixedHex_add (2 * k) 2 e, pow16_2]

theorem toSpec_take2 (g : GUID) : (toSpec g).data4.take 2 = natBe 2 g.D.toNat := by
  simp only [toSpec]
  rw [List.take_append_of_le_length (by rw [length_natBe]; omega)]
  exact List.take_of_length_le (by rw [length_natBe]; omega)

theorem toSpec_drop2 (g : GUID) : (toSpec g).data4.drop 2 = natBe 6 g.E.toNat := by
  simp only [toSpec]
  exact List.drop_left' (length_natBe 2 _)

theorem dashed_eq_textD (g : GUID) (hE : g.E.toNat < 2 ^ 48) : dashed g = MSDTYP.textD (toSpec g) := by
  have hA := g.A.toNat_lt; have hB := g.B.toNat_lt; have hC := g.C.toNat_lt; have hD := g.D.toNat_lt
  unfold dashed MSDTYP.textD MSDTYP.h1 MSDTYP.h2 MSDTYP.h3
  rw [toSpec_take2, toSpec_drop2, hexOfBytes_natBe, hexOfBytes_natBe]
  rw [fmtHexPad_of_lt 8 _ (by rw [pow16_8]; exact hA), fmtHexPad_of_lt 4 _ (by rw [pow16_4]; exact hB),
    fmtHexPad_of_lt 4 _ (by rw [pow16_4]; exact hC), fmtHexPad_of_lt 4 _ (by rw [pow16_4]; exact hD),
    fmtHexPad_of_lt 12 _ (by rw [pow16_12]; exact hE)]
  rfl

theorem toFormatN_eq_textN (g : GUID) (hE : g.E.toNat < 2 ^ 48) : toFormatN g = MSDTYP.textN (toSpec g) := by
  have hA := g.A.toNat_lt; have hB := g.B.toNat_lt; have hC := g.C.toNat_lt; have hD := g.D.toNat_lt
  unfold toFormatN MSDTYP.textN MSDTYP.h1 MSDTYP.h2 MSDTYP.h3
  have : (toSpec g).data4 = natBe 2 g.D.toNat ++ natBe 6 g.E.toNat := rfl
  rw [this, hexOfBytes_append, hexOfBytes_natBe, hexOfBytes_natBe]
  rw [fmtHexPad_of_lt 8 _ (by rw [pow16_8]; exact hA), fmtHexPad_of_lt 4 _ (by rw [pow16_4]; exact hB),
    fmtHexPad_of_lt 4 _ (by rw [pow16_4]; exact hC), fmtHexPad_of_lt 4 _ (by rw [pow16_4]; exact hD),
    fmtHexPad_of_lt 12 _ (by rw [pow16_12]; exact hE)]
  simp [toSpec]

theorem toFormatX_eq_textX (g : GUID) (hE : g.E.toNat < 2 ^ 48) : toFormatX g = MSDTYP.textX (toSpec g) := by
  have hD := g.D.toNat_lt
  have b0 : g.D.toNat / 256 < 256 := by omega
  have b1 : g.D.toNat % 256 < 256 := by omega
  have c0 : g.E.toNat / 2 ^ 40 < 256 := by omega
  have c1 : g.E.toNat / 2 ^ 32 % 256 < 256 := by omega
  have c2 : g.E.toNat / 2 ^ 24 % 256 < 256 := by omega
  have c3 : g.E.toNat / 2 ^ 16 % 256 < 256 := by omega
  have c4 : g.E.toNat / 2 ^ 8 % 256 < 256 := by omega
  have c5 : g.E.toNat % 256 < 256 := by omega
  have hd : g.D.toNat = dOf (g.D.toNat / 256) (g.D.toNat % 256) := by unfold dOf; omega
  have he : g.E.toNat = eOf (g.E.toNat / 2 ^ 40) (g.E.toNat / 2 ^ 32 % 256) (g.E.toNat / 2 ^ 24 % 256)
      (g.E.toNat / 2 ^ 16 % 256) (g.E.toNat / 2 ^ 8 % 256) (g.E.toNat % 256) := by unfold eOf; omega
  rw [toFormatX_bytes g _ _ _ _ _ _ _ _ b0 b1 c0 c1 c2 c3 c4 c5 hd he]
  have d4 : (toSpec g).data4 =
      [UInt8.ofNat (g.D.toNat / 256 % 256), UInt8.ofNat (g.D.toNat % 256), UInt8.ofNat (g.E.toNat / 2 ^ 40 % 256),
       UInt8.ofNat (g.E.toNat / 2 ^ 32 % 256), UInt8.ofNat (g.E.toNat / 2 ^ 24 % 256), UInt8.ofNat (g.E.toNat / 2 ^ 16 % 256),
       UInt8.ofNat (g.E.toNat / 2 ^ 8 % 256), UInt8.ofNat (g.E.toNat % 256)] := by
    simp [toSpec, natBe, natLe, Nat.div_div_eq_div_mul]
  unfold MSDTYP.textX MSDTYP.h4 MSDTYP.h1 MSDTYP.h2 MSDTYP.h3
  rw [d4]
  simp only [List.drop_zero, List.drop_succ_cons, List.take_succ_cons, List.take_zero, hexOfBytes_ofNat]
  have m0 : fixedHex 2 (g.D.toNat / 256) = fixedHex 2 (g.D.toNat / 256 % 256) := by
    rw [Nat.mod_eq_of_lt b0]
  have m2 : fixedHex 2 (g.E.toNat / 2 ^ 40) = fixedHex 2 (g.E.toNat / 2 ^ 40 % 256) := by
    rw [Nat.mod_eq_of_lt c0]
  have f1 : fixedHex 2 (g.D.toNat % 256) = fixedHex 2 g.D.toNat := by
    have := fixedHex_mod 2 g.D.toNat; rwa [pow16_2] at this
  have f3 : ∀ x : Nat, fixedHex 2 (x % 256) = fixedHex 2 x := by
    intro x; have := fixedHex_mod 2 x; rwa [pow16_2] at this
  simp only [xText, xHead, xTail, zxh, zx, f3, toSpec]
  simp

end Manticore.C13
