/-
  The 7 → 8 byte DES key spread written out in crypto/lm/lm.go equals the textbook `str_to_key`
  in the seven key bits of every byte (they differ only in bit 0, the parity bit DES ignores).
-/
import Manticore.Model.C01
import Manticore.Lemmas.Bits
namespace Manticore.C01

private theorem u8 (a b : UInt8) (h : a.toBitVec = b.toBitVec) : a = b := UInt8.eq_of_toBitVec_eq h

theorem lmKey_length (h : Bytes) (hl : h.length = 7) : (lmKey h).length = 8 := by
  match h, hl with
  | [_, _, _, _, _, _, _], _ => rfl

theorem strToKey_length (h : Bytes) (hl : h.length = 7) : (Spec.strToKey h).length = 8 := by
  match h, hl with
  | [_, _, _, _, _, _, _], _ => rfl

theorem lmKey_strToKey_mod_parity (h : Bytes) (hl : h.length = 7) :
    (lmKey h).map (· &&& 0xFE) = (Spec.strToKey h).map (· &&& 0xFE) := by
  match h, hl with
  | [s0, s1, s2, s3, s4, s5, s6], _ =>
    simp only [lmKey, Spec.strToKey, List.map_cons, List.map_nil, List.cons.injEq, and_true]
    refine ⟨?_, ?_, ?_, ?_, ?_, ?_, ?_, ?_⟩ <;>
    · apply u8
      simp only [UInt8.toBitVec_and, UInt8.toBitVec_or, UInt8.toBitVec_shiftLeft, UInt8.toBitVec_shiftRight]
      bv_bits8

end Manticore.C01
