/-
  Helper lemmas for C13: what `UUIDv1.Unmarshal` extracts, as numbers, against the RFC 4122 bit fields.
-/
import Manticore.Lemmas.C13Nat
set_option linter.unusedSimpArgs false
namespace Manticore.C13
open Manticore

/-- the generic UUID `Unmarshal` builds from 16 bytes -/
def uuidOf16 (m0 m1 m2 m3 m4 m5 m6 m7 m8 m9 m10 m11 m12 m13 m14 m15 : UInt8) : UUID :=
  { version := (m6 &&& 0xF0) >>> 4
    variant := (m8 &&& 0xF0) >>> 4
    data := ⟨m0, m1, m2, m3, m4, m5,
             ((m6 &&& 0x0F) <<< 4) ||| ((m7 &&& 0xF0) >>> 4),
             ((m7 &&& 0x0F) <<< 4) ||| (m8 &&& 0x0F),
             m9, m10, m11, m12, m13, m14, m15⟩ }

theorem unmarshal_16 (m0 m1 m2 m3 m4 m5 m6 m7 m8 m9 m10 m11 m12 m13 m14 m15 : UInt8) (rest : Bytes) :
    unmarshal (m0 :: m1 :: m2 :: m3 :: m4 :: m5 :: m6 :: m7 :: m8 :: m9 :: m10 :: m11 :: m12 :: m13 :: m14 :: m15 :: rest) =
      .ok (uuidOf16 m0 m1 m2 m3 m4 m5 m6 m7 m8 m9 m10 m11 m12 m13 m14 m15) := unmarshal_cons16 ..

theorem v1Unmarshal_16 (m0 m1 m2 m3 m4 m5 m6 m7 m8 m9 m10 m11 m12 m13 m14 m15 : UInt8) (rest : Bytes) :
    v1Unmarshal (m0 :: m1 :: m2 :: m3 :: m4 :: m5 :: m6 :: m7 :: m8 :: m9 :: m10 :: m11 :: m12 :: m13 :: m14 :: m15 :: rest) =
      if m6.toNat / 16 = 1 then .ok (v1OfUUID (uuidOf16 m0 m1 m2 m3 m4 m5 m6 m7 m8 m9 m10 m11 m12 m13 m14 m15)) else .err := by
  unfold v1Unmarshal
  rw [if_neg (by simp only [List.length_cons]; omega), unmarshal_16]
  have hv : ((uuidOf16 m0 m1 m2 m3 m4 m5 m6 m7 m8 m9 m10 m11 m12 m13 m14 m15).version != 1) = !decide (m6.toNat / 16 = 1) := by
    have := hiNibble_toNat m6
    simp only [uuidOf16]
    by_cases h : (m6 &&& 0xF0) >>> 4 = 1
    · rw [h] at this; simp [h, ← this]
    · have h' : ¬ (m6.toNat / 16 = 1) := by
        intro e; apply h; apply UInt8.toNat_inj.mp; rw [this, e]; rfl
      simp [h, h']
  simp only [hv]
  by_cases h : m6.toNat / 16 = 1 <;> simp [h]

theorem v1_time_16 (m0 m1 m2 m3 m4 m5 m6 m7 m8 m9 m10 m11 m12 m13 m14 m15 : UInt8) :
    (v1OfUUID (uuidOf16 m0 m1 m2 m3 m4 m5 m6 m7 m8 m9 m10 m11 m12 m13 m14 m15)).time =
      le64 m3 m2 m1 m0 m5 m4 m7 (m6 &&& 0x0F) := by
  simp only [v1OfUUID, uuidOf16, be32, le32, be16, le16, le64]
  u64_bits

theorem v1_clockSeq_16 (m0 m1 m2 m3 m4 m5 m6 m7 m8 m9 m10 m11 m12 m13 m14 m15 : UInt8) :
    (v1OfUUID (uuidOf16 m0 m1 m2 m3 m4 m5 m6 m7 m8 m9 m10 m11 m12 m13 m14 m15)).clockSeq = le16 m9 (m8 &&& 0x0F) := by
  simp only [v1OfUUID, uuidOf16, le16]
  u16_bits

/-- the RFC 4122 bit fields of the number of 16 bytes, byte by byte -/
theorem rfc_fields_16 (m0 m1 m2 m3 m4 m5 m6 m7 m8 m9 m10 m11 m12 m13 m14 m15 : UInt8) :
    let n := RFC4122.number [m0, m1, m2, m3, m4, m5, m6, m7, m8, m9, m10, m11, m12, m13, m14, m15]
    RFC4122.version n = m6.toNat / 16 ∧
    RFC4122.timestamp n = m3.toNat + m2.toNat * 2^8 + m1.toNat * 2^16 + m0.toNat * 2^24 + m5.toNat * 2^32 +
      m4.toNat * 2^40 + m7.toNat * 2^48 + (m6.toNat % 16) * 2^56 ∧
    RFC4122.clockSeq n = m9.toNat + (m8.toNat % 64) * 2^8 ∧
    RFC4122.clockSeqHiAndReserved n = m8.toNat ∧
    RFC4122.node n = m10.toNat * 2^40 + m11.toNat * 2^32 + m12.toNat * 2^24 + m13.toNat * 2^16 + m14.toNat * 2^8 + m15.toNat := by
  intro n
  have hn : n = _ := number16 m0 m1 m2 m3 m4 m5 m6 m7 m8 m9 m10 m11 m12 m13 m14 m15
  have h0 := m0.toNat_lt; have h1 := m1.toNat_lt; have h2 := m2.toNat_lt; have h3 := m3.toNat_lt
  have h4 := m4.toNat_lt; have h5 := m5.toNat_lt; have h6 := m6.toNat_lt; have h7 := m7.toNat_lt
  have h8 := m8.toNat_lt; have h9 := m9.toNat_lt; have h10 := m10.toNat_lt; have h11 := m11.toNat_lt
  have h12 := m12.toNat_lt; have h13 := m13.toNat_lt; have h14 := m14.toNat_lt; have h15 := m15.toNat_lt
  have hq : n / 2 ^ 64 = m0.toNat * 2^56 + m1.toNat * 2^48 + m2.toNat * 2^40 + m3.toNat * 2^32 + m4.toNat * 2^24 +
      m5.toNat * 2^16 + m6.toNat * 2^8 + m7.toNat := by rw [hn]; omega
  refine ⟨?_, ?_, ?_, ?_, ?_⟩
  · simp only [RFC4122.version, RFC4122.timeHiAndVersion, bitField, hq]; omega
  · rw [hn]
    simp only [RFC4122.timestamp, RFC4122.timeHiAndVersion, RFC4122.timeMid, RFC4122.timeLow, bitField]; omega
  · rw [hn]
    simp only [RFC4122.clockSeq, RFC4122.clockSeqHiAndReserved, RFC4122.clockSeqLow, bitField]; omega
  · rw [hn]
    simp only [RFC4122.clockSeqHiAndReserved, bitField]; omega
  · rw [hn]
    simp only [RFC4122.node, bitField]; omega

/-- the same fields as `UUIDv1.Unmarshal` extracts them -/
theorem v1_fields_16 (m0 m1 m2 m3 m4 m5 m6 m7 m8 m9 m10 m11 m12 m13 m14 m15 : UInt8) :
    let v := v1OfUUID (uuidOf16 m0 m1 m2 m3 m4 m5 m6 m7 m8 m9 m10 m11 m12 m13 m14 m15)
    v.time.toNat = m3.toNat + m2.toNat * 2^8 + m1.toNat * 2^16 + m0.toNat * 2^24 + m5.toNat * 2^32 +
      m4.toNat * 2^40 + m7.toNat * 2^48 + (m6.toNat % 16) * 2^56 ∧
    v.clockSeq.toNat = m9.toNat + (m8.toNat % 16) * 2^8 ∧
    v.variant.toNat = m8.toNat / 16 ∧
    [v.n0, v.n1, v.n2, v.n3, v.n4, v.n5] = [m10, m11, m12, m13, m14, m15] := by
  intro v
  refine ⟨?_, ?_, hiNibble_toNat m8, rfl⟩
  · show (v1OfUUID _).time.toNat = _
    rw [v1_time_16, le64_toNat, loNibble_toNat]
  · show (v1OfUUID _).clockSeq.toNat = _
    rw [v1_clockSeq_16, le16_toNat, loNibble_toNat]

end Manticore.C13
