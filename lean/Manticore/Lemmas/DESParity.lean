/-
  DES does not look at the parity bits of its key: the key enters only through PC-1, and the PC-1 table
  (transcribed from Go's crypto/des) never selects bit 0 of a key byte.
-/
import Manticore.Prims.DES
import Manticore.Lemmas.Bits
namespace Manticore.DES

/-- the 56 key bits: every bit except the lowest of each byte -/
def keyMask : UInt64 := 0xFEFEFEFEFEFEFEFE

theorem permute_congr_acc (table : List Nat) (a b acc : UInt64)
    (h : ∀ n ∈ table, (a >>> n.toUInt64) &&& 1 = (b >>> n.toUInt64) &&& 1) :
    table.foldl (fun (acc : UInt64) (n : Nat) => (acc <<< 1) ||| ((a >>> n.toUInt64) &&& 1)) acc =
    table.foldl (fun (acc : UInt64) (n : Nat) => (acc <<< 1) ||| ((b >>> n.toUInt64) &&& 1)) acc := by
  induction table generalizing acc with
  | nil => rfl
  | cons n ns ih =>
    simp only [List.foldl_cons]
    rw [h n (by simp)]
    exact ih _ (fun m hm => h m (by simp [hm]))

/-- a bit permutation/selection reads only the bits its table names -/
theorem permute_congr (table : List Nat) (a b : UInt64)
    (h : ∀ n ∈ table, (a >>> n.toUInt64) &&& 1 = (b >>> n.toUInt64) &&& 1) :
    permute table a = permute table b := permute_congr_acc table a b 0 h

/-- **decide over the PC-1 table**: every selected bit index is below 64 and is a key bit (not a parity bit) -/
theorem pc1_selects_key_bits : ∀ n ∈ permutedChoice1, n < 64 ∧ keyMask.toBitVec.getLsbD n = true := by
  decide

theorem bit_of_masked (a m : UInt64) (n : Nat) (hn : n < 64) (hm : m.toBitVec.getLsbD n = true) :
    (a >>> n.toUInt64) &&& 1 = ((a &&& m) >>> n.toUInt64) &&& 1 := by
  apply UInt64.eq_of_toBitVec_eq
  have e : (n.toUInt64.toBitVec % 64).toNat = n := by
    simp [BitVec.toNat_umod, Nat.toUInt64]; omega
  simp only [UInt64.toBitVec_and, UInt64.toBitVec_shiftRight]
  rw [BitVec.ushiftRight_eq', BitVec.ushiftRight_eq', e]
  apply BitVec.eq_of_getLsbD_eq
  intro i hi
  simp only [BitVec.getLsbD_and, BitVec.getLsbD_ushiftRight]
  by_cases h0 : i = 0
  · subst h0; simp [hm]
  ·    simp [h0]

/-- two keys that agree on the 56 key bits have the same key schedule -/
theorem subkeys_ignore_parity (k k' : UInt64) (h : k &&& keyMask = k' &&& keyMask) : subkeys k = subkeys k' := by
  have hp : permute permutedChoice1 k = permute permutedChoice1 k' := by
    apply permute_congr
    intro n hn
    obtain ⟨hlt, hbit⟩ := pc1_selects_key_bits n hn
    rw [bit_of_masked k keyMask n hlt hbit, bit_of_masked k' keyMask n hlt hbit, h]
  unfold subkeys
  rw [hp]

/-- **DES ignores the parity bits of the key** (encryption and decryption of every block) -/
theorem encrypt_ignores_parity (k k' block : UInt64) (h : k &&& keyMask = k' &&& keyMask) :
    encrypt k block = encrypt k' block := by
  unfold encrypt; rw [subkeys_ignore_parity k k' h]

theorem be64_mask (a b c d e f g h : UInt8) :
    be64 a b c d e f g h &&& keyMask =
      be64 (a &&& 0xFE) (b &&& 0xFE) (c &&& 0xFE) (d &&& 0xFE) (e &&& 0xFE) (f &&& 0xFE) (g &&& 0xFE) (h &&& 0xFE) := by
  apply UInt64.eq_of_toBitVec_eq
  simp only [be64, le64, keyMask, UInt64.toBitVec_and, UInt64.toBitVec_or, UInt64.toBitVec_shiftLeft,
    UInt8.toBitVec_toUInt64, UInt8.toBitVec_and]
  bv_bits64

/-- byte-level form: 8-byte keys that agree byte by byte up to the lowest bit encrypt alike -/
theorem encryptBytes_ignores_parity (k k' block : Bytes) (hk : k.length = 8) (hk' : k'.length = 8)
    (h : k.map (· &&& 0xFE) = k'.map (· &&& 0xFE)) : encryptBytes k block = encryptBytes k' block := by
  match k, k', hk, hk' with
  | [a0, a1, a2, a3, a4, a5, a6, a7], [b0, b1, b2, b3, b4, b5, b6, b7], _, _ =>
    simp only [List.map_cons, List.map_nil, List.cons.injEq, and_true] at h
    obtain ⟨h0, h1, h2, h3, h4, h5, h6, h7⟩ := h
    have e1 : be64Of [a0, a1, a2, a3, a4, a5, a6, a7] = be64 a0 a1 a2 a3 a4 a5 a6 a7 := rfl
    have e2 : be64Of [b0, b1, b2, b3, b4, b5, b6, b7] = be64 b0 b1 b2 b3 b4 b5 b6 b7 := rfl
    have hm : be64Of [a0, a1, a2, a3, a4, a5, a6, a7] &&& keyMask = be64Of [b0, b1, b2, b3, b4, b5, b6, b7] &&& keyMask := by
      rw [e1, e2, be64_mask, be64_mask, h0, h1, h2, h3, h4, h5, h6, h7]
    unfold encryptBytes
    rw [encrypt_ignores_parity _ _ _ hm]

end Manticore.DES
