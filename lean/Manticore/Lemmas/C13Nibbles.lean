/-
  Helper lemmas for C13: `UUID.Marshal`/`Unmarshal` against the nibble view of the 16 bytes
  (nibble 12 = version, nibble 16 = "variant", the other thirty = `Data`).
-/
import Manticore.Lemmas.C13Nat
namespace Manticore.C13
open Manticore

theorem shl4_toNat : ∀ a : UInt8, ((a &&& 0xF) <<< 4).toNat = (a.toNat % 16) * 16 := by byte_decide

/-- two nibbles make a byte -/
theorem nib_join (a b : UInt8) :
    UInt8.ofNat ((a.toNat % 16) * 16 + b.toNat % 16) = ((a &&& 0xF) <<< 4) ||| (b &&& 0xF) := by
  apply UInt8.toNat_inj.mp
  rw [UInt8.toNat_or, shl4_toNat, loNibble_toNat]
  have hb : b.toNat % 16 < 2 ^ 4 := Nat.mod_lt _ (by decide)
  rw [or_eq_add_of_lt _ _ 4 hb ⟨a.toNat % 16, by omega⟩]
  simp [UInt8.toNat_ofNat']
  omega

theorem hi_as_lo : ∀ a : UInt8, ((a &&& 0xF0) >>> 4) &&& (0xF : UInt8) = (a >>> 4) &&& (0xF : UInt8) := by byte_decide
theorem hi_toNat : ∀ a : UInt8, (a >>> 4).toNat % 16 = a.toNat / 16 := by byte_decide
theorem lo_lo : ∀ a : UInt8, a &&& 0x0F &&& 0xF = a &&& 0xF := by byte_decide
theorem byte_split (x : UInt8) : UInt8.ofNat (x.toNat / 16 * 16 + x.toNat % 16) = x := by
  have : x.toNat / 16 * 16 + x.toNat % 16 = x.toNat := by omega
  rw [this]; simp

theorem marshal_eq_specJoin (u : UUID) (h : u.InWidth) :
    marshal u = specJoin u.version.toNat u.variant.toNat u.data.toList := by
  obtain ⟨ver, var, ⟨d0, d1, d2, d3, d4, d5, d6, d7, d8, d9, d10, d11, d12, d13, d14⟩⟩ := u
  obtain ⟨hv, hw⟩ := h
  simp only at hv hw
  have e6 : UInt8.ofNat (ver.toNat * 16 + d6.toNat / 16) = (ver &&& 0xF) <<< 4 ||| ((d6 &&& 0xF0) >>> 4 &&& 0xF) := by
    have := nib_join ver (d6 >>> 4)
    rw [hi_toNat, Nat.mod_eq_of_lt hv] at this
    rw [this, hi_as_lo]
  have e7 : UInt8.ofNat (d6.toNat % 16 * 16 + d7.toNat / 16) = (d6 &&& 0x0F &&& 0xF) <<< 4 ||| ((d7 &&& 0xF0) >>> 4 &&& 0xF) := by
    have := nib_join d6 (d7 >>> 4)
    rw [hi_toNat] at this
    rw [this, hi_as_lo, lo_lo]
  have e8 : UInt8.ofNat (var.toNat * 16 + d7.toNat % 16) = (var &&& 0xF) <<< 4 ||| (d7 &&& 0x0F &&& 0xF) := by
    have := nib_join var d7
    rw [Nat.mod_eq_of_lt hw] at this
    rw [this, lo_lo]
  simp only [marshal, specJoin, nibbles, Data15.toList, List.flatMap_cons, List.flatMap_nil, List.cons_append,
    List.nil_append, List.take_succ_cons, List.take_zero, List.drop_succ_cons, List.drop_zero, packNibbles, byte_split,
    e6, e7, e8]

theorem unmarshal_eq_specSplit (m0 m1 m2 m3 m4 m5 m6 m7 m8 m9 m10 m11 m12 m13 m14 m15 : UInt8) :
    ∃ u, unmarshal [m0, m1, m2, m3, m4, m5, m6, m7, m8, m9, m10, m11, m12, m13, m14, m15] = .ok u ∧
      specSplit [m0, m1, m2, m3, m4, m5, m6, m7, m8, m9, m10, m11, m12, m13, m14, m15] =
        (u.version.toNat, u.variant.toNat, u.data.toList) := by
  refine ⟨_, unmarshal_cons16 .., ?_⟩
  have e6 : UInt8.ofNat (m6.toNat % 16 * 16 + m7.toNat / 16) = (m6 &&& 0x0F) <<< 4 ||| (m7 &&& 0xF0) >>> 4 := by
    have := nib_join m6 (m7 >>> 4)
    rw [hi_toNat] at this
    have k : ∀ a : UInt8, (a >>> 4) &&& (0xF : UInt8) = (a &&& 0xF0) >>> 4 := by byte_decide
    rw [this, k]
  have e7 : UInt8.ofNat (m7.toNat % 16 * 16 + m8.toNat % 16) = (m7 &&& 0x0F) <<< 4 ||| (m8 &&& 0x0F) := nib_join m7 m8
  simp only [specSplit, nibbles, Data15.toList, List.flatMap_cons, List.flatMap_nil, List.cons_append,
    List.nil_append, List.take_succ_cons, List.take_zero, List.drop_succ_cons, List.drop_zero, packNibbles, byte_split,
    e6, e7, List.getD_cons_succ, List.getD_cons_zero, hiNibble_toNat]

end Manticore.C13
