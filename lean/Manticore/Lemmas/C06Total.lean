/-
  Totality of the C06 decoders (property C07 for the SMB wire data types): for every byte string,
  `<Type>.decode` returns a value or an error, never a panic; a success reports a byte count between
  1 and the length of the input (`decode_total`, `decode_bounded`, `decode_pos` per type, all three
  derived from one `decode_fits`).  Core Lean only.
-/
import Manticore.Model.C06
namespace Manticore.C06
open Manticore

/-- an acceptable decoding outcome for input `b`: not a panic, and a success consumes between one
    byte and all of `b` -/
def Fits {α : Type} (b : Bytes) : Outcome (α × Nat) → Prop
  | .ok (_, k) => 0 < k ∧ k ≤ b.length
  | .err => True
  | .panic => False

theorem Fits.total {α : Type} {b : Bytes} {o : Outcome (α × Nat)} (h : Fits b o) : o ≠ .panic := by
  intro hp; rw [hp] at h; exact h

theorem Fits.bounded {α : Type} {b : Bytes} {o : Outcome (α × Nat)} (h : Fits b o) {v : α} {k : Nat}
    (ho : o = .ok (v, k)) : k ≤ b.length := by
  rw [ho] at h; exact h.2

theorem Fits.pos {α : Type} {b : Bytes} {o : Outcome (α × Nat)} (h : Fits b o) {v : α} {k : Nat}
    (ho : o = .ok (v, k)) : 0 < k := by
  rw [ho] at h; exact h.1

/-! ## shared readers -/

theorem slice_ok {α : Type} (b : List α) (lo hi : Nat) (h1 : lo ≤ hi) (h2 : hi ≤ b.length) :
    slice b lo hi = .ok ((b.drop lo).take (hi - lo)) := by
  unfold slice; rw [if_pos ⟨h1, h2⟩]

theorem sliceFrom_ok {α : Type} (b : List α) (lo : Nat) (h : lo ≤ b.length) :
    sliceFrom b lo = .ok (b.drop lo) := by
  unfold sliceFrom; rw [if_pos h]

theorem index_ok {α : Type} (b : List α) (i : Nat) (h : i < b.length) : index b i = .ok b[i] := by
  unfold index; rw [List.getElem?_eq_getElem h]

private theorem window_len {α : Type} (b : List α) (lo n : Nat) (h : lo + n ≤ b.length) :
    ((b.drop lo).take (lo + n - lo)).length = n := by
  simp only [List.length_take, List.length_drop]; omega

theorem rdLe16_ok (b : Bytes) (lo : Nat) (h : lo + 2 ≤ b.length) : ∃ w, rdLe16 b lo = .ok w := by
  unfold rdLe16
  rw [slice_ok b lo (lo + 2) (by omega) h]
  have hl := window_len b lo 2 h
  generalize (b.drop lo).take (lo + 2 - lo) = l at hl
  match l, hl with
  | [x, y], _ => exact ⟨_, rfl⟩

theorem rdBe16_ok (b : Bytes) (lo : Nat) (h : lo + 2 ≤ b.length) : ∃ w, rdBe16 b lo = .ok w := by
  unfold rdBe16
  rw [slice_ok b lo (lo + 2) (by omega) h]
  have hl := window_len b lo 2 h
  generalize (b.drop lo).take (lo + 2 - lo) = l at hl
  match l, hl with
  | [x, y], _ => exact ⟨_, rfl⟩

theorem rdLe32_ok (b : Bytes) (lo : Nat) (h : lo + 4 ≤ b.length) : ∃ w, rdLe32 b lo = .ok w := by
  unfold rdLe32
  rw [slice_ok b lo (lo + 4) (by omega) h]
  have hl := window_len b lo 4 h
  generalize (b.drop lo).take (lo + 4 - lo) = l at hl
  match l, hl with
  | [x, y, z, w], _ => exact ⟨_, rfl⟩

theorem nulIndexFrom_lt : ∀ (l : Bytes) (j i : Nat), nulIndexFrom l j = some i → j ≤ i ∧ i < j + l.length
  | [], j, i, h => by simp [nulIndexFrom] at h
  | c :: cs, j, i, h => by
    simp only [nulIndexFrom] at h
    split at h
    · cases h; simp
    · have := nulIndexFrom_lt cs (j + 1) i h
      simp only [List.length_cons]; omega

theorem nulIndex_lt (l : Bytes) (i : Nat) (h : nulIndex l = some i) : i < l.length := by
  have := nulIndexFrom_lt l 0 i h; omega

/-! ## SMB_STRING, OEM_STRING -/
namespace SmbString

theorem decodeCounted_fits (f : UInt8) (b : Bytes) (extra : Nat) : Fits b (decodeCounted f b extra) := by
  unfold decodeCounted
  split
  · trivial
  · rename_i h3
    obtain ⟨len, hlen⟩ := rdLe16_ok b 1 (by omega)
    simp only [hlen]
    split
    · trivial
    · rename_i hfit
      rw [slice_ok b 3 (3 + len.toNat) (by omega) (by omega)]
      exact ⟨by omega, by omega⟩

theorem decodeTerminated_fits (f : UInt8) (b : Bytes) : Fits b (decodeTerminated f b) := by
  unfold decodeTerminated
  split
  · trivial
  · rename_i i hi
    have := nulIndex_lt _ i hi
    simp only [List.length_drop] at this
    simp only []
    rw [slice_ok b 1 (i + 1) (by omega) (by omega)]
    exact ⟨by omega, by omega⟩

/-- `SMB_STRING.Unmarshal`: no panic, and a success consumes between 1 and `len(data)` bytes -/
theorem decode_fits (b : Bytes) : Fits b (decode b) := by
  unfold decode
  split
  · trivial
  · rename_i h1
    rw [index_ok b 0 (by omega)]
    simp only []
    repeat' split
    all_goals first | exact decodeCounted_fits _ b _ | exact decodeTerminated_fits _ b | trivial

theorem decode_total (b : Bytes) : decode b ≠ .panic := (decode_fits b).total
theorem decode_bounded (b : Bytes) (v : V) (k : Nat) (h : decode b = .ok (v, k)) : k ≤ b.length :=
  (decode_fits b).bounded h
theorem decode_pos (b : Bytes) (v : V) (k : Nat) (h : decode b = .ok (v, k)) : 0 < k :=
  (decode_fits b).pos h

end SmbString

namespace OemString
theorem decode_fits (b : Bytes) : Fits b (decode b) := SmbString.decode_fits b
theorem decode_total (b : Bytes) : decode b ≠ .panic := (decode_fits b).total
theorem decode_bounded (b : Bytes) (v : V) (k : Nat) (h : decode b = .ok (v, k)) : k ≤ b.length :=
  (decode_fits b).bounded h
theorem decode_pos (b : Bytes) (v : V) (k : Nat) (h : decode b = .ok (v, k)) : 0 < k :=
  (decode_fits b).pos h
end OemString

/-! ## SMB_DATE -/
namespace SmbDate
theorem decode_fits (b : Bytes) : Fits b (decode b) := by
  unfold decode
  split
  · trivial
  · obtain ⟨w, hw⟩ := rdLe16_ok b 0 (by omega)
    simp only [hw]
    exact ⟨by omega, by omega⟩
theorem decode_total (b : Bytes) : decode b ≠ .panic := (decode_fits b).total
theorem decode_bounded (b : Bytes) (v : V) (k : Nat) (h : decode b = .ok (v, k)) : k ≤ b.length :=
  (decode_fits b).bounded h
theorem decode_pos (b : Bytes) (v : V) (k : Nat) (h : decode b = .ok (v, k)) : 0 < k :=
  (decode_fits b).pos h
end SmbDate

/-! ## FILETIME / SMB_TIME -/
namespace FileTime
theorem decode_fits (b : Bytes) : Fits b (decode b) := by
  unfold decode
  split
  · trivial
  · obtain ⟨lo, hlo⟩ := rdLe32_ok b 0 (by omega)
    obtain ⟨hi, hhi⟩ := rdLe32_ok b 4 (by omega)
    simp only [hlo, hhi]
    exact ⟨by omega, by omega⟩
theorem decode_total (b : Bytes) : decode b ≠ .panic := (decode_fits b).total
theorem decode_bounded (b : Bytes) (v : V) (k : Nat) (h : decode b = .ok (v, k)) : k ≤ b.length :=
  (decode_fits b).bounded h
theorem decode_pos (b : Bytes) (v : V) (k : Nat) (h : decode b = .ok (v, k)) : 0 < k :=
  (decode_fits b).pos h
end FileTime

/-! ## LOCKING_ANDX_RANGE32 / RANGE64 -/
namespace Range32
theorem decode_fits (b : Bytes) : Fits b (decode b) := by
  unfold decode
  split
  · trivial
  · obtain ⟨p, hp⟩ := rdLe16_ok b 0 (by omega)
    obtain ⟨o, ho⟩ := rdLe32_ok b 2 (by omega)
    obtain ⟨l, hl⟩ := rdLe32_ok b 6 (by omega)
    simp only [hp, ho, hl]
    exact ⟨by omega, by omega⟩
theorem decode_total (b : Bytes) : decode b ≠ .panic := (decode_fits b).total
theorem decode_bounded (b : Bytes) (v : V) (k : Nat) (h : decode b = .ok (v, k)) : k ≤ b.length :=
  (decode_fits b).bounded h
theorem decode_pos (b : Bytes) (v : V) (k : Nat) (h : decode b = .ok (v, k)) : 0 < k :=
  (decode_fits b).pos h
end Range32

namespace Range64
theorem decode_fits (b : Bytes) : Fits b (decode b) := by
  unfold decode
  split
  · trivial
  · obtain ⟨p, hp⟩ := rdLe16_ok b 0 (by omega)
    obtain ⟨q, hq⟩ := rdLe16_ok b 2 (by omega)
    obtain ⟨oh, hoh⟩ := rdLe32_ok b 4 (by omega)
    obtain ⟨ol, hol⟩ := rdLe32_ok b 8 (by omega)
    obtain ⟨lh, hlh⟩ := rdLe32_ok b 12 (by omega)
    obtain ⟨ll, hll⟩ := rdLe32_ok b 16 (by omega)
    simp only [hp, hq, hoh, hol, hlh, hll]
    exact ⟨by omega, by omega⟩
theorem decode_total (b : Bytes) : decode b ≠ .panic := (decode_fits b).total
theorem decode_bounded (b : Bytes) (v : V) (k : Nat) (h : decode b = .ok (v, k)) : k ≤ b.length :=
  (decode_fits b).bounded h
theorem decode_pos (b : Bytes) (v : V) (k : Nat) (h : decode b = .ok (v, k)) : 0 < k :=
  (decode_fits b).pos h
end Range64

/-! ## SMB_NMPIPE_STATUS -/
namespace PipeStatus
theorem decode_fits (b : Bytes) : Fits b (decode b) := by
  unfold decode
  split
  · trivial
  · rename_i h
    have h2 : b.length = 2 := by simpa using h
    rw [index_ok b 0 (by omega), index_ok b 1 (by omega)]
    exact ⟨by omega, by omega⟩
theorem decode_total (b : Bytes) : decode b ≠ .panic := (decode_fits b).total
theorem decode_bounded (b : Bytes) (v : V) (k : Nat) (h : decode b = .ok (v, k)) : k ≤ b.length :=
  (decode_fits b).bounded h
theorem decode_pos (b : Bytes) (v : V) (k : Nat) (h : decode b = .ok (v, k)) : 0 < k :=
  (decode_fits b).pos h
end PipeStatus

/-! ## SMB_RESUME_KEY -/
namespace ResumeKey
theorem decode_fits (b : Bytes) : Fits b (decode b) := by
  unfold decode
  have hs := SmbString.decode_fits b
  cases hd : SmbString.decode b with
  | ok r =>
    obtain ⟨s, n⟩ := r
    rw [hd] at hs
    simp only []
    split
    · trivial
    · rename_i h21
      rw [index_ok s.buffer 0 (by omega), slice_ok s.buffer 1 17 (by omega) (by omega),
        slice_ok s.buffer 17 21 (by omega) (by omega)]
      exact hs
  | err => trivial
  | panic => rw [hd] at hs; exact hs
theorem decode_total (b : Bytes) : decode b ≠ .panic := (decode_fits b).total
theorem decode_bounded (b : Bytes) (v : V) (k : Nat) (h : decode b = .ok (v, k)) : k ≤ b.length :=
  (decode_fits b).bounded h
theorem decode_pos (b : Bytes) (v : V) (k : Nat) (h : decode b = .ok (v, k)) : 0 < k :=
  (decode_fits b).pos h
end ResumeKey

/-! ## SMB_FILE_ATTRIBUTES -/
namespace FileAttributes
theorem decode_fits (b : Bytes) : Fits b (decode b) := by
  unfold decode
  split
  · trivial
  · obtain ⟨w, hw⟩ := rdBe16_ok b 0 (by omega)
    simp only [hw]
    exact ⟨by omega, by omega⟩
theorem decode_total (b : Bytes) : decode b ≠ .panic := (decode_fits b).total
theorem decode_bounded (b : Bytes) (v : V) (k : Nat) (h : decode b = .ok (v, k)) : k ≤ b.length :=
  (decode_fits b).bounded h
theorem decode_pos (b : Bytes) (v : V) (k : Nat) (h : decode b = .ok (v, k)) : 0 < k :=
  (decode_fits b).pos h
end FileAttributes

/-! ## SMB_DIRECTORY_INFORMATION -/
namespace DirInfo
theorem decode_fits (b : Bytes) : Fits b (decode b) := by
  unfold decode
  simp only [sliceFrom_ok b 0 (Nat.zero_le _), Outcome.bind_ok, List.drop_zero, Nat.zero_add]
  have hrk := ResumeKey.decode_fits b
  cases hd : ResumeKey.decode b with
  | err => trivial
  | panic => rw [hd] at hrk; exact hrk
  | ok r =>
    obtain ⟨rk, n⟩ := r
    rw [hd] at hrk
    simp only [Outcome.bind_ok]
    split
    · trivial
    · rename_i h1
      simp only [index_ok b n (by omega), Outcome.bind_ok]
      split
      · trivial
      · rename_i h2
        simp only [sliceFrom_ok b (n + 1) (by omega), Outcome.bind_ok]
        have hft := FileTime.decode_fits (b.drop (n + 1))
        cases hdt : FileTime.decode (b.drop (n + 1)) with
        | err => trivial
        | panic => rw [hdt] at hft; exact hft
        | ok r =>
          obtain ⟨t, n1⟩ := r
          rw [hdt] at hft
          simp only [Fits, List.length_drop] at hft
          simp only [Outcome.bind_ok]
          split
          · trivial
          · rename_i h3
            simp only [slice_ok b (n + 1 + n1) (n + 1 + n1 + 2) (by omega) (by omega), Outcome.bind_ok]
            have hdd := SmbDate.decode_fits ((b.drop (n + 1 + n1)).take (n + 1 + n1 + 2 - (n + 1 + n1)))
            cases hdd' : SmbDate.decode ((b.drop (n + 1 + n1)).take (n + 1 + n1 + 2 - (n + 1 + n1))) with
            | err => trivial
            | panic => rw [hdd'] at hdd; exact hdd
            | ok r =>
              obtain ⟨dt, n2⟩ := r
              rw [hdd'] at hdd
              simp only [Fits, List.length_take, List.length_drop] at hdd
              simp only [Outcome.bind_ok]
              split
              · trivial
              · rename_i h4
                obtain ⟨sz, hsz⟩ := rdLe32_ok b (n + 1 + n1 + n2) (by omega)
                simp only [hsz, Outcome.bind_ok]
                split
                · trivial
                · rename_i h5
                  simp only [slice_ok b (n + 1 + n1 + n2 + 4) (n + 1 + n1 + n2 + 4 + 14) (by omega) (by omega),
                    Outcome.bind_ok]
                  have hfn := OemString.decode_fits
                    ((b.drop (n + 1 + n1 + n2 + 4)).take (n + 1 + n1 + n2 + 4 + 14 - (n + 1 + n1 + n2 + 4)))
                  cases hfn' : OemString.decode
                      ((b.drop (n + 1 + n1 + n2 + 4)).take (n + 1 + n1 + n2 + 4 + 14 - (n + 1 + n1 + n2 + 4))) with
                  | err => trivial
                  | panic => rw [hfn'] at hfn; exact hfn
                  | ok r =>
                    obtain ⟨fn, n3⟩ := r
                    rw [hfn'] at hfn
                    simp only [Fits, List.length_take, List.length_drop] at hfn
                    simp only [Outcome.bind_ok, Outcome.pure_eq, Fits]
                    omega
theorem decode_total (b : Bytes) : decode b ≠ .panic := (decode_fits b).total
theorem decode_bounded (b : Bytes) (v : V) (k : Nat) (h : decode b = .ok (v, k)) : k ≤ b.length :=
  (decode_fits b).bounded h
theorem decode_pos (b : Bytes) (v : V) (k : Nat) (h : decode b = .ok (v, k)) : 0 < k :=
  (decode_fits b).pos h
end DirInfo

/-! ## AndX block -/
namespace AndX
theorem decode_fits (b : Bytes) : Fits b (decode b) := by
  unfold decode
  split
  · trivial
  · obtain ⟨o, ho⟩ := rdBe16_ok b 2 (by omega)
    rw [index_ok b 0 (by omega), index_ok b 1 (by omega), ho]
    exact ⟨by omega, by omega⟩
theorem decode_total (b : Bytes) : decode b ≠ .panic := (decode_fits b).total
theorem decode_bounded (b : Bytes) (v : V) (k : Nat) (h : decode b = .ok (v, k)) : k ≤ b.length :=
  (decode_fits b).bounded h
theorem decode_pos (b : Bytes) (v : V) (k : Nat) (h : decode b = .ok (v, k)) : 0 < k :=
  (decode_fits b).pos h
end AndX

/-! ## Parameters block -/
namespace Parameters
theorem readWords_ok (data : Bytes) : ∀ (n i : Nat), (i + n) * 2 ≤ data.length →
    ∃ ws, readWords data i n = .ok ws := by
  intro n
  induction n with
  | zero => intro i _; exact ⟨[], rfl⟩
  | succ n ih =>
    intro i h
    obtain ⟨w, hw⟩ := rdBe16_ok data (i * 2) (by omega)
    obtain ⟨ws, hws⟩ := ih (i + 1) (by omega)
    exact ⟨w :: ws, by simp only [readWords, hw, hws]⟩

theorem decode_fits (b : Bytes) : Fits b (decode b) := by
  unfold decode
  split
  · trivial
  · rename_i h0
    rw [index_ok b 0 (by omega), sliceFrom_ok b 1 (by omega)]
    simp only [List.length_drop]
    split
    · split
      · trivial
      · rename_i hlen
        obtain ⟨ws, hws⟩ := readWords_ok (b.drop 1) b[0].toNat 0 (by simp only [List.length_drop]; omega)
        simp only [hws]
        exact ⟨by omega, by omega⟩
    · exact ⟨by omega, by omega⟩
theorem decode_total (b : Bytes) : decode b ≠ .panic := (decode_fits b).total
theorem decode_bounded (b : Bytes) (v : V) (k : Nat) (h : decode b = .ok (v, k)) : k ≤ b.length :=
  (decode_fits b).bounded h
theorem decode_pos (b : Bytes) (v : V) (k : Nat) (h : decode b = .ok (v, k)) : 0 < k :=
  (decode_fits b).pos h
end Parameters

/-! ## Data block -/
namespace Data
theorem decode_fits (b : Bytes) : Fits b (decode b) := by
  unfold decode
  split
  · trivial
  · split
    · trivial
    · rename_i h0 h2
      obtain ⟨bc, hbc⟩ := rdLe16_ok b 0 (by omega)
      simp only [hbc, sliceFrom_ok b 2 (by omega), List.length_drop]
      split
      · split
        · trivial
        · rename_i hlen
          rw [slice_ok (b.drop 2) 0 bc.toNat (by omega) (by simp only [List.length_drop]; omega)]
          exact ⟨by omega, by omega⟩
      · exact ⟨by omega, by omega⟩
theorem decode_total (b : Bytes) : decode b ≠ .panic := (decode_fits b).total
theorem decode_bounded (b : Bytes) (v : V) (k : Nat) (h : decode b = .ok (v, k)) : k ≤ b.length :=
  (decode_fits b).bounded h
theorem decode_pos (b : Bytes) (v : V) (k : Nat) (h : decode b = .ok (v, k)) : 0 < k :=
  (decode_fits b).pos h
end Data

/-! ## NTLM Version -/
namespace Version
theorem decode_fits (b : Bytes) : Fits b (decode b) := by
  unfold decode
  split
  · trivial
  · obtain ⟨bu, hbu⟩ := rdLe16_ok b 2 (by omega)
    rw [index_ok b 0 (by omega), index_ok b 1 (by omega), hbu, slice_ok b 4 7 (by omega) (by omega),
      index_ok b 7 (by omega)]
    exact ⟨by omega, by omega⟩
theorem decode_total (b : Bytes) : decode b ≠ .panic := (decode_fits b).total
theorem decode_bounded (b : Bytes) (v : V) (k : Nat) (h : decode b = .ok (v, k)) : k ≤ b.length :=
  (decode_fits b).bounded h
theorem decode_pos (b : Bytes) (v : V) (k : Nat) (h : decode b = .ok (v, k)) : 0 < k :=
  (decode_fits b).pos h
end Version

end Manticore.C06
