/-
  C17 helper lemmas: association-list table, abstraction to the spec map, heap primitives and
  their frame properties, heap→value simulation, linearizability search.
-/
import Manticore.Model.C17
namespace Manticore.C17




theorem lookup_mem {s : State} {n : Name} {r : Rec} (h : lookup s n = some r) : (n, r) ∈ s := by
  induction s with
  | nil => simp [lookup] at h
  | cons p s ih =>
    obtain ⟨m, r'⟩ := p
    simp only [lookup] at h
    split at h
    · rename_i e; subst e; cases h; simp
    · exact List.mem_cons_of_mem _ (ih h)

theorem lookup_none {s : State} {n : Name} (h : lookup s n = none) : n ∉ s.map (·.1) := by
  induction s with
  | nil => simp
  | cons p s ih =>
    obtain ⟨m, r'⟩ := p
    simp only [lookup] at h
    split at h
    · cases h
    · rename_i ne
      simp only [List.map_cons, List.mem_cons, not_or]
      exact ⟨fun e => ne e.symm, ih h⟩

theorem lookup_of_mem {s : State} (hk : (s.map (·.1)).Nodup) {n : Name} {r : Rec} (h : (n, r) ∈ s) :
    lookup s n = some r := by
  induction s with
  | nil => cases h
  | cons p s ih =>
    obtain ⟨m, r'⟩ := p
    simp only [List.map_cons, List.nodup_cons] at hk
    simp only [lookup]
    cases h with
    | head => simp
    | tail _ h =>
      have : m ≠ n := by
        intro e; subst e; exact hk.1 (List.mem_map.mpr ⟨(m, r), h, rfl⟩)
      simp [this, ih hk.2 h]

theorem lookup_erase (s : State) (n m : Name) :
    lookup (erase s n) m = if m = n then none else lookup s m := by
  induction s with
  | nil => simp [erase, lookup]
  | cons p s ih =>
    obtain ⟨k, r⟩ := p
    simp only [erase, List.filter_cons] at ih ⊢
    by_cases hk : k = n
    · subst hk
      simp only [ne_eq, not_true_eq_false, decide_false, Bool.false_eq_true, ↓reduceIte, lookup]
      rw [ih]
      by_cases hm : m = k
      · simp [hm]
      · have : k ≠ m := fun e => hm e.symm
        simp [hm, this]
    · simp only [ne_eq, hk, not_false_eq_true, decide_true, ↓reduceIte, lookup]
      rw [ih]
      by_cases hm : m = n
      · subst hm; simp [hk]
      · simp [hm]

theorem lookup_put (s : State) (n m : Name) (r : Rec) :
    lookup (put s n r) m = if m = n then some r else lookup s m := by
  simp only [put, lookup, lookup_erase]
  by_cases hm : m = n
  · subst hm; simp
  · have : n ≠ m := fun e => hm e.symm
    simp [hm, this]

theorem keys_filter (s : State) (f : Name × Rec → Bool) : ((s.filter f).map (·.1)).Sublist (s.map (·.1)) :=
  List.Sublist.map _ List.filter_sublist

theorem inv_filter {s : State} (h : Inv s) (f : Name × Rec → Bool) : Inv (s.filter f) :=
  ⟨h.1.sublist (keys_filter s f), fun p hp => h.2 p (List.mem_filter.mp hp).1⟩

theorem inv_erase {s : State} (h : Inv s) (n : Name) : Inv (erase s n) := inv_filter h _

theorem not_mem_keys_erase (s : State) (n : Name) : n ∉ (erase s n).map (·.1) := by
  intro h
  obtain ⟨p, hp, e⟩ := List.mem_map.mp h
  have := (List.mem_filter.mp hp).2
  simp [e] at this

theorem inv_put {s : State} (h : Inv s) (n : Name) (r : Rec) (hr : RecOk r) : Inv (put s n r) := by
  refine ⟨?_, ?_⟩
  · simp only [put, List.map_cons, List.nodup_cons]
    exact ⟨not_mem_keys_erase s n, (inv_erase h n).1⟩
  · intro p hp
    simp only [put, List.mem_cons] at hp
    cases hp with
    | inl e => subst e; exact hr
    | inr m => exact (inv_erase h n).2 p m


theorem abs_put (s : State) (n : Name) (r : Rec) :
    abs (put s n r) = Spec.update (abs s) n (some (absRec r)) := by
  funext m
  simp only [abs, lookup_put, Spec.update]
  split <;> rfl

theorem abs_erase (s : State) (n : Name) : abs (erase s n) = Spec.update (abs s) n none := by
  funext m
  simp only [abs, lookup_erase, Spec.update]
  split <;> rfl

theorem lookup_filter {s : State} (hk : (s.map (·.1)).Nodup) (f : Rec → Bool) (m : Name) :
    lookup (s.filter (fun p => f p.2)) m =
      match lookup s m with
      | some r => if f r then some r else none
      | none => none := by
  induction s with
  | nil => simp [lookup]
  | cons p s ih =>
    obtain ⟨k, r⟩ := p
    simp only [List.map_cons, List.nodup_cons] at hk
    simp only [List.filter_cons]
    by_cases hkm : k = m
    · subst hkm
      by_cases hf : f r
      · simp [hf, lookup]
      · have hn : lookup (s.filter (fun p => f p.2)) k = none := by
          rw [ih hk.2]
          have : lookup s k = none := by
            cases hl : lookup s k with
            | none => rfl
            | some r' => exact absurd (List.mem_map.mpr ⟨(k, r'), lookup_mem hl, rfl⟩) hk.1
          simp [this]
        simp [hf, lookup, hn]
    · by_cases hf : f r
      · simp [hf, lookup, hkm, ih hk.2]
      · simp [hf, lookup, hkm, ih hk.2]

theorem abs_clean {s : State} (hk : (s.map (·.1)).Nodup) :
    abs (s.filter (fun p => !p.2.expired)) =
      fun m => match abs s m with | some r => if r.expired then none else some r | none => none := by
  funext m
  simp only [abs]
  rw [lookup_filter hk (fun r => !r.expired) m]
  cases lookup s m with
  | none => rfl
  | some r => cases h : r.expired <;> simp [absRec, h]

theorem contains_append_single (l : List IP) (o a : IP) :
    (l ++ [o]).contains a = (l.contains a || decide (a = o)) := by
  simp [List.contains_eq_mem, List.mem_append]

theorem contains_erase_nodup {l : List IP} (hn : l.Nodup) (o a : IP) :
    (l.erase o).contains a = (l.contains a && decide (a ≠ o)) := by
  have := hn.mem_erase_iff (a := a) (b := o)
  by_cases h1 : a ∈ l.erase o
  · have h2 := this.mp h1
    simp [List.contains_eq_mem, h1, h2.1, h2.2]
  · have h2 : ¬ (a ≠ o ∧ a ∈ l) := fun h => h1 (this.mpr h)
    by_cases ha : a ∈ l
    · have : a = o := by
        apply Classical.byContradiction; intro hne; exact h2 ⟨hne, ha⟩
      subst this
      simp [List.contains_eq_mem, h1]
    · simp [List.contains_eq_mem, h1, ha]



theorem take_set_succ (a : List IP) (k : Nat) (x : IP) (hk : k < a.length) :
    (a.set k x).take (k + 1) = a.take k ++ [x] := by
  induction a generalizing k with
  | nil => simp at hk
  | cons y ys ih =>
    cases k with
    | zero => simp
    | succ k => simp at hk; simp [ih k hk]

theorem take_grow (a : List IP) (k : Nat) (x : IP) (pad : List IP) (hk : k ≤ a.length) :
    (a.take k ++ [x] ++ pad).take (k + 1) = a.take k ++ [x] := by
  have : (a.take k ++ [x]).length = k + 1 := by simp; omega
  rw [← this, List.take_left']
  rfl

/-- effect of a heap primitive on slice `sl`: everything but `sl`'s array is untouched -/
structure Eff (h : Heap) (a : Nat) (h' : Heap) (sl' : Slice) (c' : List IP) : Prop where
  len_le : h.length ≤ h'.length
  frame : ∀ b, b ≠ a → b < h.length → h'[b]? = h[b]?
  read : h'.read sl' = c'
  arr : sl'.arr = a ∨ h.length ≤ sl'.arr
  lt : sl'.arr < h'.length
  cap : sl'.len ≤ (h'[sl'.arr]?.getD []).length

theorem alloc_eff (h : Heap) (c : List IP) (a : Nat) : Eff h a (h.alloc c).1 (h.alloc c).2 c := by
  refine ⟨by simp [Heap.alloc], ?_, ?_, Or.inr (by simp [Heap.alloc]), by simp [Heap.alloc], by simp [Heap.alloc]⟩
  · intro b _ hb; simp [Heap.alloc, List.getElem?_append_left hb]
  · simp [Heap.alloc, Heap.read]

theorem append_eff (h : Heap) (sl : Slice) (x : IP) (hlt : sl.arr < h.length)
    (hcap : sl.len ≤ (h[sl.arr]?.getD []).length) :
    Eff h sl.arr (h.append sl x).1 (h.append sl x).2 (h.read sl ++ [x]) := by
  unfold Heap.append Heap.read
  simp only
  generalize h[sl.arr]?.getD [] = a at hcap ⊢
  by_cases hc : sl.len < a.length
  · simp only [hc, ↓reduceIte]
    refine ⟨by simp, ?_, ?_, Or.inl rfl, by simpa using hlt, ?_⟩
    · intro b hb _; simp [List.getElem?_set_ne (Ne.symm hb)]
    · simp only [Heap.read, List.getElem?_set_self hlt, Option.getD_some]
      exact take_set_succ a sl.len x hc
    · simp only [List.getElem?_set_self hlt, Option.getD_some, List.length_set]; omega
  · simp only [hc, ↓reduceIte]
    refine ⟨by simp, ?_, ?_, Or.inr (by simp), by simp, ?_⟩
    · intro b _ hb; simp [List.getElem?_append_left hb]
    · simp only [Heap.read, List.getElem?_concat_length, Option.getD_some]
      exact take_grow a sl.len x _ hcap
    · simp only [List.getElem?_concat_length, Option.getD_some, List.length_append, List.length_take,
        List.length_cons, List.length_nil, List.length_replicate]
      omega

theorem removeFirst_eff (h : Heap) (sl : Slice) (o : IP) (hlt : sl.arr < h.length)
    (hcap : sl.len ≤ (h[sl.arr]?.getD []).length) (hmem : o ∈ h.read sl) :
    Eff h sl.arr (h.removeFirst sl o).1 (h.removeFirst sl o).2 ((h.read sl).erase o) := by
  unfold Heap.removeFirst
  unfold Heap.read at hmem ⊢
  simp only
  generalize h[sl.arr]?.getD [] = a at hcap hmem ⊢
  have hl : (a.take sl.len).length = sl.len := by simp; omega
  have hpos : 0 < sl.len := by
    cases hs : sl.len with
    | zero => simp [hs] at hmem
    | succ k => omega
  have he : ((a.take sl.len).erase o).length = sl.len - 1 := by
    rw [List.length_erase_of_mem hmem, hl]
  refine ⟨by simp, ?_, ?_, Or.inl rfl, by simpa using hlt, ?_⟩
  · intro b hb _; simp [List.getElem?_set_ne (Ne.symm hb)]
  · simp only [Heap.read, List.getElem?_set_self hlt, Option.getD_some]
    rw [List.append_assoc]
    exact List.take_left' he
  · simp only [List.getElem?_set_self hlt, Option.getD_some, List.length_append, he, List.length_drop, hl]
    omega


theorem hlookup_mem {l : List (Name × HRec)} {n : Name} {r : HRec} (h : hlookup l n = some r) : (n, r) ∈ l := by
  induction l with
  | nil => simp [hlookup] at h
  | cons p l ih =>
    obtain ⟨m, r'⟩ := p
    simp only [hlookup] at h
    split at h
    · rename_i e; subst e; cases h; simp
    · exact List.mem_cons_of_mem _ (ih h)

theorem lookup_view (s : HState) (n : Name) :
    lookup (view s) n = (hlookup s.names n).map (viewRec s.heap) := by
  obtain ⟨names, h⟩ := s
  induction names with
  | nil => rfl
  | cons p l ih =>
    obtain ⟨m, r⟩ := p
    simp only [view, List.map_cons, lookup, hlookup] at ih ⊢
    split
    · rfl
    · exact ih

theorem view_filter (names : List (Name × HRec)) (h : Heap) (f : Name × HRec → Bool) (g : Name × Rec → Bool)
    (hfg : ∀ p, g (p.1, viewRec h p.2) = f p) :
    view ⟨names.filter f, h⟩ = (view ⟨names, h⟩).filter g := by
  simp only [view, List.filter_map]
  congr 1
  apply List.filter_congr
  intro p _
  exact (hfg p).symm

theorem view_erase (names : List (Name × HRec)) (h : Heap) (n : Name) :
    view ⟨herase names n, h⟩ = erase (view ⟨names, h⟩) n :=
  view_filter names h _ _ (fun _ => rfl)

theorem read_congr {h h' : Heap} {sl : Slice} (e : h'[sl.arr]? = h[sl.arr]?) : h'.read sl = h.read sl := by
  simp [Heap.read, e]

theorem view_congr (names : List (Name × HRec)) (h h' : Heap)
    (hf : ∀ p ∈ names, h'[p.2.owners.arr]? = h[p.2.owners.arr]?) : view ⟨names, h'⟩ = view ⟨names, h⟩ := by
  simp only [view]
  apply List.map_congr_left
  intro p hp
  simp [viewRec, read_congr (hf p hp)]

/-- entries not holding array `a` are not affected by an effect on `a` -/
theorem frame_names {s : HState} (hw : WF s) {a : Nat} {h' : Heap} {sl' : Slice} {c' : List IP}
    (e : Eff s.heap a h' sl' c') (l : List (Name × HRec)) (hsub : ∀ p ∈ l, p ∈ s.names)
    (hne : ∀ p ∈ l, p.2.owners.arr ≠ a) :
    ∀ p ∈ l, h'[p.2.owners.arr]? = s.heap[p.2.owners.arr]? :=
  fun p hp => e.frame _ (hne p hp) (hw.2 p (hsub p hp)).1

theorem herase_sub (names : List (Name × HRec)) (n : Name) : ∀ p ∈ herase names n, p ∈ names ∧ p.1 ≠ n := by
  intro p hp
  have := List.mem_filter.mp hp
  exact ⟨this.1, by simpa using this.2⟩

theorem others_ne {s : HState} (hw : WF s) {n : Name} {r : HRec} (hl : hlookup s.names n = some r) :
    ∀ p ∈ herase s.names n, p.2.owners.arr ≠ r.owners.arr := by
  intro p hp e
  have hs := herase_sub s.names n p hp
  have := hw.1 p hs.1 (n, r) (hlookup_mem hl) e
  exact hs.2 (by rw [this])

/-- replace the record of `n` after an effect on an array that no other record holds -/
theorem eff_put_gen {s : HState} (hw : WF s) {n : Name} {a : Nat}
    (hne : ∀ p ∈ herase s.names n, p.2.owners.arr ≠ a)
    {h' : Heap} {sl' : Slice} {c' : List IP} (e : Eff s.heap a h' sl' c')
    (r' : HRec) (hr' : r'.owners = sl') :
    WF ⟨hput s.names n r', h'⟩ ∧ view ⟨hput s.names n r', h'⟩ = put (view s) n (viewRec h' r') := by
  have hfr := frame_names hw e (herase s.names n) (fun p hp => (herase_sub _ _ p hp).1) hne
  refine ⟨⟨?_, ?_⟩, ?_⟩
  · have key : ∀ q ∈ herase s.names n, r'.owners.arr ≠ q.2.owners.arr := by
      intro q hq eq
      rw [hr'] at eq
      cases e.arr with
      | inl h1 => exact hne q hq (by rw [← eq, h1])
      | inr h1 => have := (hw.2 q (herase_sub _ _ q hq).1).1; omega
    intro p hp q hq eq
    simp only [hput, List.mem_cons] at hp hq
    cases hp with
    | inl hp =>
      cases hq with
      | inl hq => rw [hp, hq]
      | inr hq => subst hp; exact absurd eq (key q hq)
    | inr hp =>
      cases hq with
      | inl hq => subst hq; exact absurd eq.symm (key p hp)
      | inr hq => exact hw.1 p (herase_sub _ _ p hp).1 q (herase_sub _ _ q hq).1 eq
  · intro p hp
    simp only [hput, List.mem_cons] at hp
    cases hp with
    | inl hp => subst hp; simp only [hr']; exact ⟨e.lt, e.cap⟩
    | inr hp =>
      have := hw.2 p (herase_sub _ _ p hp).1
      simp only at this ⊢
      rw [hfr p hp]
      exact ⟨Nat.lt_of_lt_of_le this.1 e.len_le, this.2⟩
  · simp only [hput, put]
    show (n, viewRec h' r') :: view ⟨herase s.names n, h'⟩ = _
    rw [view_congr _ _ _ hfr, view_erase]

theorem eff_put {s : HState} (hw : WF s) {n : Name} {r : HRec} (hl : hlookup s.names n = some r)
    {h' : Heap} {sl' : Slice} {c' : List IP} (e : Eff s.heap r.owners.arr h' sl' c')
    (r' : HRec) (hr' : r'.owners = sl') :
    WF ⟨hput s.names n r', h'⟩ ∧ view ⟨hput s.names n r', h'⟩ = put (view s) n (viewRec h' r') :=
  eff_put_gen hw (others_ne hw hl) e r' hr'

/-- a record on a freshly allocated array -/
theorem eff_new {s : HState} (hw : WF s) (n : Name) (c0 : List IP) (r' : HRec)
    (hr' : r'.owners = (s.heap.alloc c0).2) :
    WF ⟨hput s.names n r', (s.heap.alloc c0).1⟩ ∧
      view ⟨hput s.names n r', (s.heap.alloc c0).1⟩ = put (view s) n (viewRec (s.heap.alloc c0).1 r') :=
  eff_put_gen hw (fun p hp => Nat.ne_of_lt (hw.2 p (herase_sub _ _ p hp).1).1) (alloc_eff s.heap c0 s.heap.length) r' hr'

/-- delete the record of `n` after an effect on its own array -/
theorem eff_erase {s : HState} (hw : WF s) {n : Name} {r : HRec} (hl : hlookup s.names n = some r)
    {h' : Heap} {sl' : Slice} {c' : List IP} (e : Eff s.heap r.owners.arr h' sl' c') :
    WF ⟨herase s.names n, h'⟩ ∧ view ⟨herase s.names n, h'⟩ = erase (view s) n := by
  have hne := others_ne hw hl
  have hfr := frame_names hw e (herase s.names n) (fun p hp => (herase_sub _ _ p hp).1) hne
  refine ⟨⟨?_, ?_⟩, ?_⟩
  · intro p hp q hq eq
    exact hw.1 p (herase_sub _ _ p hp).1 q (herase_sub _ _ q hq).1 eq
  · intro p hp
    have := hw.2 p (herase_sub _ _ p hp).1
    simp only at this ⊢
    rw [hfr p hp]
    exact ⟨Nat.lt_of_lt_of_le this.1 e.len_le, this.2⟩
  · rw [view_congr _ _ _ hfr, view_erase]

/-- an effect on no record's array (a fresh allocation) leaves the table as it is -/
theorem eff_none {s : HState} (hw : WF s) {h' : Heap} {sl' : Slice} {c' : List IP}
    (e : Eff s.heap s.heap.length h' sl' c') :
    WF ⟨s.names, h'⟩ ∧ view ⟨s.names, h'⟩ = view s := by
  have hfr := frame_names hw e s.names (fun p hp => hp) (fun p hp => Nat.ne_of_lt (hw.2 p hp).1)
  refine ⟨⟨hw.1, ?_⟩, view_congr _ _ _ hfr⟩
  intro p hp
  have := hw.2 p hp
  simp only at this ⊢
  rw [hfr p hp]
  exact ⟨Nat.lt_of_lt_of_le this.1 e.len_le, this.2⟩

theorem refl_eff (h : Heap) (sl : Slice) (hlt : sl.arr < h.length) (hcap : sl.len ≤ (h[sl.arr]?.getD []).length) :
    Eff h sl.arr h sl (h.read sl) :=
  ⟨Nat.le_refl _, fun _ _ _ => rfl, rfl, Or.inl rfl, hlt, hcap⟩

theorem wf_filter {s : HState} (hw : WF s) (f : Name × HRec → Bool) : WF ⟨s.names.filter f, s.heap⟩ :=
  ⟨fun p hp q hq => hw.1 p (List.mem_filter.mp hp).1 q (List.mem_filter.mp hq).1,
   fun p hp => hw.2 p (List.mem_filter.mp hp).1⟩

theorem wf_init : WF hinit := by simp [WF, hinit]

/-- what one method call may do to the heap: it only grows; arrays that no record holds are
    not written; records keep their arrays or move to freshly allocated ones -/
def Post (s s' : HState) : Prop :=
  s.heap.length ≤ s'.heap.length ∧
  (∀ b, b < s.heap.length → (∀ p ∈ s.names, p.2.owners.arr ≠ b) → s'.heap[b]? = s.heap[b]?) ∧
  (∀ q ∈ s'.names, (∃ p ∈ s.names, q.2.owners.arr = p.2.owners.arr) ∨ s.heap.length ≤ q.2.owners.arr)

theorem post_refl (s : HState) : Post s s :=
  ⟨Nat.le_refl _, fun _ _ _ => rfl, fun q hq => Or.inl ⟨q, hq, rfl⟩⟩

theorem post_of_eff {s : HState} {a : Nat} {h' : Heap} {sl' : Slice} {c' : List IP}
    (e : Eff s.heap a h' sl' c') (ha : (∃ p ∈ s.names, p.2.owners.arr = a) ∨ s.heap.length ≤ a)
    (names' : List (Name × HRec)) (hn : ∀ q ∈ names', q ∈ s.names ∨ q.2.owners = sl') :
    Post s ⟨names', h'⟩ := by
  refine ⟨e.len_le, ?_, ?_⟩
  · intro b hb hnb
    apply e.frame b _ hb
    intro eq
    cases ha with
    | inl h1 => obtain ⟨p, hp, hpa⟩ := h1; exact hnb p hp (by rw [hpa, eq])
    | inr h1 => omega
  · intro q hq
    cases hn q hq with
    | inl h1 => exact Or.inl ⟨q, h1, rfl⟩
    | inr h1 =>
      rw [h1]
      cases e.arr with
      | inl h2 =>
        cases ha with
        | inl h3 => obtain ⟨p, hp, hpa⟩ := h3; exact Or.inl ⟨p, hp, by rw [h2, hpa]⟩
        | inr h3 => exact Or.inr (by rw [h2]; exact h3)
      | inr h2 => exact Or.inr h2

theorem hput_mem {names : List (Name × HRec)} {n : Name} {r' : HRec} :
    ∀ q ∈ hput names n r', q ∈ names ∨ q.2.owners = r'.owners := by
  intro q hq
  simp only [hput, List.mem_cons] at hq
  cases hq with
  | inl h => subst h; exact Or.inr rfl
  | inr h => exact Or.inl (herase_sub _ _ q h).1

theorem filter_mem {names : List (Name × HRec)} {f : Name × HRec → Bool} {sl' : Slice} :
    ∀ q ∈ names.filter f, q ∈ names ∨ q.2.owners = sl' :=
  fun _ hq => Or.inl (List.mem_filter.mp hq).1

local macro "triv3" : tactic => `(tactic| (refine ⟨?_, ?_, ?_, ?_⟩ <;> first | assumption | rfl | trivial | exact Manticore.C17.post_refl _))

/-- **Simulation**: on well-formed heaps the heap-level methods compute exactly the value-level
    methods (whatever `QueryName` does with its result slice). -/
theorem hstep_sim (c : Bool) (s : HState) (op : Op) (hw : WF s) :
    WF (hstep c s op).1 ∧ view (hstep c s op).1 = (step (view s) op).1 ∧
      viewOut (hstep c s op).1.heap (hstep c s op).2 = (step (view s) op).2 ∧
      Post s (hstep c s op).1 := by
  have hlv := lookup_view s
  cases op with
  | register n t o past =>
    have hfresh : WF ⟨hput s.names n ⟨t, .active, (s.heap.alloc [o]).2, past, past⟩, (s.heap.alloc [o]).1⟩ ∧
        view ⟨hput s.names n ⟨t, .active, (s.heap.alloc [o]).2, past, past⟩, (s.heap.alloc [o]).1⟩ =
          put (view s) n ⟨t, .active, [o], past, past⟩ := by
      have := eff_new hw n [o] ⟨t, .active, (s.heap.alloc [o]).2, past, past⟩ rfl
      refine ⟨this.1, ?_⟩
      rw [this.2]
      simp only [viewRec, (alloc_eff s.heap [o] s.heap.length).read]
    simp only [hstep, step, hlv]
    cases hl : hlookup s.names n with
    | none =>
      simp only [Option.map_none]
      exact ⟨hfresh.1, hfresh.2, rfl, post_of_eff (alloc_eff s.heap [o] s.heap.length) (Or.inr (Nat.le_refl _)) _ hput_mem⟩
    | some r =>
      have hb : r.owners.arr < s.heap.length ∧ r.owners.len ≤ (s.heap[r.owners.arr]?.getD []).length := hw.2 _ (hlookup_mem hl)
      simp only [Option.map_some, viewRec]
      by_cases hg : r.type = .group ∧ t = .group
      · rw [if_pos hg, if_pos hg]
        by_cases hc : (s.heap.read r.owners).contains o
        · simp only [hc, ↓reduceIte]; triv3
        · simp only [hc, ↓reduceIte, Bool.false_eq_true]
          have e := append_eff s.heap r.owners o hb.1 hb.2
          have := eff_put hw hl e { r with owners := (s.heap.append r.owners o).2, expired := past } rfl
          refine ⟨this.1, ?_, rfl, post_of_eff e (Or.inl ⟨_, hlookup_mem hl, rfl⟩) _ hput_mem⟩
          rw [this.2]
          simp only [viewRec, e.read]
      · rw [if_neg hg, if_neg hg]
        have : r.type = .unique ∨ t = .unique := by
          cases hrt : r.type <;> cases ht : t <;> simp_all
        rw [if_pos this, if_pos this]
        triv3
  | query n =>
    simp only [hstep, step, hlv]
    cases hl : hlookup s.names n with
    | none => simp only [Option.map_none]; triv3
    | some r =>
      have hb : r.owners.arr < s.heap.length ∧ r.owners.len ≤ (s.heap[r.owners.arr]?.getD []).length := hw.2 _ (hlookup_mem hl)
      simp only [Option.map_some, viewRec]
      by_cases hs : r.status = .active
      · simp only [hs, ↓reduceIte]
        cases c with
        | false => simp only [Bool.false_eq_true, ↓reduceIte]; triv3
        | true =>
          simp only [↓reduceIte]
          have e := alloc_eff s.heap (s.heap.read r.owners) s.heap.length
          have := eff_none hw e
          refine ⟨this.1, this.2, ?_, post_of_eff e (Or.inr (Nat.le_refl _)) _ (fun _ hq => Or.inl hq)⟩
          simp only [viewOut, e.read]
      · simp only [hs, ↓reduceIte]; triv3
  | release n o =>
    simp only [hstep, step, hlv]
    cases hl : hlookup s.names n with
    | none => simp only [Option.map_none]; triv3
    | some r =>
      have hb : r.owners.arr < s.heap.length ∧ r.owners.len ≤ (s.heap[r.owners.arr]?.getD []).length := hw.2 _ (hlookup_mem hl)
      simp only [Option.map_some, viewRec]
      by_cases hg : r.type = .group
      · rw [if_pos hg, if_pos hg]
        by_cases hc : (s.heap.read r.owners).contains o
        · simp only [hc, ↓reduceIte]
          have hmem : o ∈ s.heap.read r.owners := by simpa using hc
          have e := removeFirst_eff s.heap r.owners o hb.1 hb.2 hmem
          have hlen : (s.heap.removeFirst r.owners o).2.len = ((s.heap.read r.owners).erase o).length := by
            have h1 : ((s.heap.read r.owners).erase o).length = (s.heap.read r.owners).length - 1 :=
              List.length_erase_of_mem hmem
            have h2 : (s.heap.read r.owners).length = r.owners.len := by
              simp only [Heap.read, List.length_take]; omega
            simp only [Heap.removeFirst]; omega
          by_cases he : ((s.heap.read r.owners).erase o).isEmpty
          · have h0 : (s.heap.removeFirst r.owners o).2.len = 0 := by
              rw [hlen]; simpa [List.isEmpty_iff] using he
            simp only [h0, he, ↓reduceIte]
            have := eff_erase hw hl e
            exact ⟨this.1, this.2, rfl, post_of_eff e (Or.inl ⟨_, hlookup_mem hl, rfl⟩) _ filter_mem⟩
          · have h0 : ¬ (s.heap.removeFirst r.owners o).2.len = 0 := by
              rw [hlen]; intro e0; apply he; simpa [List.isEmpty_iff] using e0
            simp only [h0, he, ↓reduceIte, Bool.false_eq_true]
            have := eff_put hw hl e { r with owners := (s.heap.removeFirst r.owners o).2 } rfl
            refine ⟨this.1, ?_, rfl, post_of_eff e (Or.inl ⟨_, hlookup_mem hl, rfl⟩) _ hput_mem⟩
            rw [this.2]
            simp only [viewRec, e.read]
        · simp only [hc, ↓reduceIte, Bool.false_eq_true]; triv3
      · rw [if_neg hg, if_neg hg]
        cases hro : s.heap.read r.owners with
        | nil => triv3
        | cons o' rest =>
          simp only
          by_cases ho : o' = o
          · simp only [ho, ↓reduceIte]
            have e := refl_eff s.heap r.owners hb.1 hb.2
            have := eff_erase hw hl e
            exact ⟨this.1, this.2, rfl, post_of_eff e (Or.inl ⟨_, hlookup_mem hl, rfl⟩) _ filter_mem⟩
          · simp only [ho, ↓reduceIte]; triv3
  | refresh n o =>
    simp only [hstep, step, hlv]
    cases hl : hlookup s.names n with
    | none => simp only [Option.map_none]; triv3
    | some r =>
      have hb : r.owners.arr < s.heap.length ∧ r.owners.len ≤ (s.heap[r.owners.arr]?.getD []).length := hw.2 _ (hlookup_mem hl)
      simp only [Option.map_some, viewRec]
      by_cases hc : (s.heap.read r.owners).contains o
      · simp only [hc, ↓reduceIte]
        have e := refl_eff s.heap r.owners hb.1 hb.2
        have := eff_put hw hl e { r with expired := r.refreshExpired } rfl
        exact ⟨this.1, this.2, rfl, post_of_eff e (Or.inl ⟨_, hlookup_mem hl, rfl⟩) _ hput_mem⟩
      · simp only [hc, ↓reduceIte, Bool.false_eq_true]; triv3
  | markConflict n =>
    simp only [hstep, step, hlv]
    cases hl : hlookup s.names n with
    | none => simp only [Option.map_none]; triv3
    | some r =>
      have hb : r.owners.arr < s.heap.length ∧ r.owners.len ≤ (s.heap[r.owners.arr]?.getD []).length := hw.2 _ (hlookup_mem hl)
      simp only [Option.map_some, viewRec]
      have e := refl_eff s.heap r.owners hb.1 hb.2
      have := eff_put hw hl e { r with status := .conflict } rfl
      exact ⟨this.1, this.2, rfl, post_of_eff e (Or.inl ⟨_, hlookup_mem hl, rfl⟩) _ hput_mem⟩
  | clean =>
    simp only [hstep, step]
    exact ⟨wf_filter hw _, view_filter _ _ _ _ (fun _ => rfl), rfl,
      ⟨Nat.le_refl _, fun _ _ _ => rfl, fun q hq => Or.inl ⟨q, (List.mem_filter.mp hq).1, rfl⟩⟩⟩

theorem hrun_sim (c : Bool) (ops : List Op) : ∀ s, WF s →
    WF (hrun c s ops) ∧ view (hrun c s ops) = run (view s) ops := by
  induction ops with
  | nil => intro s hw; exact ⟨hw, rfl⟩
  | cons op ops ih =>
    intro s hw
    have h1 := hstep_sim c s op hw
    have h2 := ih _ h1.1
    simp only [hrun, run, List.foldl_cons] at h2 ⊢
    rw [← h1.2.1]
    exact h2

theorem view_hinit : view hinit = init := rfl

/-- array `a` exists and no record's slice lives in it -/
def Detached (a : Nat) (s : HState) : Prop := a < s.heap.length ∧ ∀ p ∈ s.names, p.2.owners.arr ≠ a

theorem detached_of_post {s s' : HState} (hp : Post s s') {a : Nat} (hd : Detached a s) :
    Detached a s' ∧ s'.heap[a]? = s.heap[a]? := by
  refine ⟨⟨Nat.lt_of_lt_of_le hd.1 hp.1, ?_⟩, hp.2.1 a hd.1 hd.2⟩
  intro q hq eq
  cases hp.2.2 q hq with
  | inl h => obtain ⟨p, hp', e⟩ := h; exact hd.2 p hp' (by rw [← e, eq])
  | inr h => have := hd.1; omega

theorem detached_hrun (ops : List Op) : ∀ (s : HState), WF s → ∀ a, Detached a s →
    (hrun true s ops).heap[a]? = s.heap[a]? := by
  induction ops with
  | nil => intro s _ a _; rfl
  | cons op ops ih =>
    intro s hw a hd
    have h1 := hstep_sim true s op hw
    have h2 := detached_of_post h1.2.2.2 hd
    have := ih _ h1.1 a h2.1
    simp only [hrun, List.foldl_cons] at this ⊢
    rw [this, h2.2]

/-- the slice handed out by a copying `QueryName` is detached from the table -/
theorem query_detached (s : HState) (hw : WF s) (n : Name) (sl : Slice) (t : NameType)
    (hq : (hstep true s (.query n)).2 = .owners sl t) : Detached sl.arr (hstep true s (.query n)).1 := by
  simp only [hstep] at hq ⊢
  cases hl : hlookup s.names n with
  | none => simp [hl] at hq
  | some r =>
    simp only [hl] at hq ⊢
    by_cases hs : r.status = .active
    · simp only [hs, ↓reduceIte, HOut.owners.injEq] at hq ⊢
      obtain ⟨rfl, _⟩ := hq
      refine ⟨by simp [Heap.alloc], ?_⟩
      intro p hp
      have := (hw.2 p hp).1
      simp only [Heap.alloc]; omega
    · simp [hs] at hq

/-- `evs` can be linearized starting in table state `s` -/
inductive Lin : State → List Ev → Prop
  | nil (s : State) : Lin s []
  | cons (s : State) (e : Ev) (rest evs : List Ev) :
      evs.Perm (e :: rest) → (∀ f ∈ rest, ¬ f.res < e.inv) → (step s e.op).2 = e.out →
      Lin (step s e.op).1 rest → Lin s evs

theorem picks_perm {α} : ∀ (l : List α) (p : α × List α), p ∈ picks l → l.Perm (p.1 :: p.2) := by
  intro l
  induction l with
  | nil => intro p hp; cases hp
  | cons x xs ih =>
    intro p hp
    simp only [picks, List.mem_cons, List.mem_map] at hp
    cases hp with
    | inl h => subst h; exact List.Perm.refl _
    | inr h =>
      obtain ⟨q, hq, rfl⟩ := h
      exact ((ih q hq).cons x).trans (List.Perm.swap _ _ _)

theorem picks_complete {α} : ∀ (l : List α) (e : α) (rest : List α), l.Perm (e :: rest) →
    ∃ p ∈ picks l, p.1 = e ∧ p.2.Perm rest := by
  intro l
  induction l with
  | nil => intro e rest h; exact absurd h.length_eq (by simp)
  | cons x xs ih =>
    intro e rest h
    by_cases hx : x = e
    · subst hx
      exact ⟨(x, xs), by simp [picks], rfl, (List.perm_cons x).mp h⟩
    · have hmem : x ∈ e :: rest := h.subset (by simp)
      have hxr : x ∈ rest := by
        cases hmem with
        | head => exact absurd rfl hx
        | tail _ h' => exact h'
      obtain ⟨r1, r2, hr⟩ := List.append_of_mem hxr
      have hperm : xs.Perm (e :: (r1 ++ r2)) := by
        have : (x :: xs).Perm (x :: e :: (r1 ++ r2)) := by
          refine h.trans ?_
          rw [hr]
          have : (e :: (r1 ++ x :: r2)).Perm (e :: x :: (r1 ++ r2)) :=
            (List.perm_middle).cons e
          exact this.trans (List.Perm.swap _ _ _)
        exact (List.perm_cons x).mp this
      obtain ⟨p, hp, hp1, hp2⟩ := ih e (r1 ++ r2) hperm
      refine ⟨(p.1, x :: p.2), ?_, hp1, ?_⟩
      · simp only [picks, List.mem_cons, List.mem_map]
        exact Or.inr ⟨p, hp, rfl⟩
      · rw [hr]
        exact (hp2.cons x).trans List.perm_middle.symm

theorem lin_perm {s : State} {evs evs' : List Ev} (h : Lin s evs) (hp : evs.Perm evs') : Lin s evs' := by
  cases h with
  | nil => rw [← hp.nil_eq]; exact Lin.nil s
  | cons _ e rest _ hperm hmin hout hrest => exact Lin.cons s e rest evs' (hp.symm.trans hperm) hmin hout hrest

theorem search_sound : ∀ (k : Nat) (s : State) (evs : List Ev), search k s evs = true → Lin s evs := by
  intro k
  induction k with
  | zero =>
    intro s evs h
    simp only [search, List.isEmpty_iff] at h
    subst h; exact Lin.nil s
  | succ k ih =>
    intro s evs h
    simp only [search, Bool.or_eq_true, List.isEmpty_iff, List.any_eq_true, Bool.and_eq_true,
      decide_eq_true_eq] at h
    cases h with
    | inl h => subst h; exact Lin.nil s
    | inr h =>
      obtain ⟨p, hp, ⟨hmin, hout⟩, hrec⟩ := h
      refine Lin.cons s p.1 p.2 evs (picks_perm evs p hp) ?_ hout (ih _ _ hrec)
      intro f hf
      have := List.all_eq_true.mp hmin f hf
      simpa using this

theorem search_complete : ∀ (k : Nat) (s : State) (evs : List Ev), evs.length ≤ k → Lin s evs →
    search k s evs = true := by
  intro k
  induction k with
  | zero =>
    intro s evs hk _
    have : evs = [] := List.eq_nil_of_length_eq_zero (by omega)
    subst this; rfl
  | succ k ih =>
    intro s evs hk h
    cases h with
    | nil => rfl
    | cons _ e rest _ hperm hmin hout hrest =>
      obtain ⟨p, hp, hp1, hp2⟩ := picks_complete evs e rest hperm
      simp only [search, Bool.or_eq_true, List.any_eq_true, Bool.and_eq_true, decide_eq_true_eq]
      refine Or.inr ⟨p, hp, ⟨?_, by rw [hp1]; exact hout⟩, ?_⟩
      · rw [hp1]
        apply List.all_eq_true.mpr
        intro f hf
        have := hmin f (hp2.subset hf)
        simpa using this
      · rw [hp1]
        apply ih
        · have := hperm.length_eq
          have := hp2.length_eq
          simp only [List.length_cons] at *
          omega
        · exact lin_perm hrest hp2.symm

theorem lin_iff_order (s : State) (evs : List Ev) :
    Lin s evs ↔ ∃ order : List Ev, order.Perm evs ∧ order.Pairwise (fun e f => ¬ f.res < e.inv) ∧
      outputs s (order.map (·.op)) = order.map (·.out) := by
  constructor
  · intro h
    induction h with
    | nil s => exact ⟨[], List.Perm.refl _, List.Pairwise.nil, rfl⟩
    | cons s e rest evs hperm hmin hout _ ih =>
      obtain ⟨order, ho1, ho2, ho3⟩ := ih
      refine ⟨e :: order, ((ho1.cons e)).trans hperm.symm, ?_, ?_⟩
      · exact List.Pairwise.cons (fun f hf => hmin f (ho1.subset hf)) ho2
      · simp only [List.map_cons, outputs, hout, ho3]
  · rintro ⟨order, ho1, ho2, ho3⟩
    induction order generalizing s evs with
    | nil => rw [← ho1.nil_eq]; exact Lin.nil s
    | cons e order ih =>
      simp only [List.map_cons, outputs, List.cons.injEq] at ho3
      have hp := List.pairwise_cons.mp ho2
      exact Lin.cons s e order evs ho1.symm hp.1 ho3.1 (ih _ order (List.Perm.refl _) hp.2 ho3.2)



theorem holds_put (s : State) (n m : Name) (r' : Rec) (a : IP) :
    Holds (put s n r') m a ↔ if m = n then a ∈ r'.owners else Holds s m a := by
  unfold Holds
  simp only [lookup_put]
  split
  · constructor
    · rintro ⟨r, hr, ha⟩; cases hr; exact ha
    · intro ha; exact ⟨r', rfl, ha⟩
  · exact Iff.rfl

theorem holds_erase (s : State) (n m : Name) (a : IP) :
    Holds (erase s n) m a ↔ if m = n then False else Holds s m a := by
  unfold Holds
  simp only [lookup_erase]
  split
  · constructor
    · rintro ⟨r, hr, _⟩; cases hr
    · intro h; exact h.elim
  · exact Iff.rfl

theorem holds_of_lookup {s : State} {n : Name} {r : Rec} (hl : lookup s n = some r) (a : IP) :
    Holds s n a ↔ a ∈ r.owners := by
  unfold Holds
  constructor
  · rintro ⟨r', hr', ha⟩; rw [hl] at hr'; cases hr'; exact ha
  · intro ha; exact ⟨r, hl, ha⟩

theorem not_holds_of_none {s : State} {n : Name} (hl : lookup s n = none) (a : IP) : ¬ Holds s n a := by
  rintro ⟨r, hr, _⟩; rw [hl] at hr; cases hr

/-- a call on one name leaves every other name's record as it is -/
theorem lookup_step_other (s : State) (op : Op) (n : Name) (hn : op.target ≠ some n) (hc : op ≠ .clean) :
    lookup (step s op).1 n = lookup s n := by
  cases op with
  | clean => exact absurd rfl hc
  | register n' t o past =>
    have hne : n ≠ n' := fun e => hn (by rw [e]; rfl)
    simp only [step]
    split <;> (try split) <;> (try split) <;> (try split) <;> simp [lookup_put, hne]
  | query n' =>
    simp only [step]
    split <;> (try split) <;> rfl
  | release n' o =>
    have hne : n ≠ n' := fun e => hn (by rw [e]; rfl)
    simp only [step]
    split
    · rfl
    · split
      · split
        · split <;> simp [lookup_put, lookup_erase, hne]
        · rfl
      · split
        · split <;> simp [lookup_erase, hne]
        · rfl
  | refresh n' o =>
    have hne : n ≠ n' := fun e => hn (by rw [e]; rfl)
    simp only [step]
    split <;> (try split) <;> simp [lookup_put, hne]
  | markConflict n' =>
    have hne : n ≠ n' := fun e => hn (by rw [e]; rfl)
    simp only [step]
    split <;> simp [lookup_put, hne]

end Manticore.C17
