/-
  The concrete codec table `SmbCodecs.std` is honest (`HonestCodecs`): every nested decoder the
  SMB commands call is total, reports no more bytes than it was given, and consumes at least one
  byte of a non-empty window.  The C06 types come from Lemmas/C06Total.lean; `Dialects` (modelled in
  Model/SmbCodecs.lean) is done here.  Core Lean only.
-/
import Manticore.Model.SmbCodecs
import Manticore.Lemmas.C06Total
import Manticore.Lemmas.SmbGuarded
namespace Manticore.SmbCodecs
open Manticore Manticore.SmbIR Manticore.C06

/-! ## Dialects -/

/-- what one run of the scanning loop guarantees: started at count `n` on `rest`, it does not
    panic, and a success ends at a count between `n` and `n + len(rest)` (beyond `n` if it had
    something to scan) -/
def ScanOK (n : Nat) (rest : Bytes) (fuel : Nat) : Outcome (List Bytes × Nat) → Prop
  | .ok (_, k) => n ≤ k ∧ k ≤ n + rest.length ∧ (rest ≠ [] → 0 < fuel → n < k)
  | .err => True
  | .panic => False

theorem dialectsDecAux_spec : ∀ (fuel : Nat) (rest : Bytes) (acc : List Bytes) (n : Nat),
    ScanOK n rest fuel (dialectsDecAux fuel rest acc n)
  | 0, rest, acc, n => by simp [dialectsDecAux, ScanOK]
  | fuel + 1, [], acc, n => by simp [dialectsDecAux, ScanOK]
  | fuel + 1, f :: body, acc, n => by
    simp only [dialectsDecAux]
    split
    · trivial
    · cases hi : nulIndex body with
      | none => trivial
      | some i =>
        simp only []
        have hlt := nulIndex_lt body i hi
        have ih := dialectsDecAux_spec fuel (body.drop (i + 1)) (acc ++ [body.take i]) (n + i + 2)
        revert ih
        cases dialectsDecAux fuel (body.drop (i + 1)) (acc ++ [body.take i]) (n + i + 2) with
        | ok r =>
          obtain ⟨names, k⟩ := r
          simp only [ScanOK, List.length_drop, List.length_cons]
          intro h
          exact ⟨by omega, by omega, fun _ _ => by omega⟩
        | err => intro _; trivial
        | panic => intro h; exact h

/-- `Dialects.Unmarshal`: no panic; a success consumes at most `len(data)` bytes, and at least one
    unless `data` is empty -/
theorem dialectsDec_fits (b : Bytes) :
    match dialectsDec b with
    | .ok (_, k) => k ≤ b.length ∧ (b ≠ [] → 0 < k)
    | .err => True
    | .panic => False := by
  unfold dialectsDec
  have h := dialectsDecAux_spec (b.length + 1) b [] 0
  revert h
  cases dialectsDecAux (b.length + 1) b [] 0 with
  | ok r =>
    obtain ⟨names, k⟩ := r
    simp only [ScanOK]
    intro h
    exact ⟨by omega, fun hb => h.2.2 hb (by omega)⟩
  | err => intro _; trivial
  | panic => intro h; exact h

theorem dialectsDec_total (b : Bytes) : dialectsDec b ≠ .panic := by
  intro h; have := dialectsDec_fits b; rw [h] at this; exact this

theorem dialectsDec_bounded (b : Bytes) (v : List Bytes) (k : Nat) (h : dialectsDec b = .ok (v, k)) :
    k ≤ b.length := by
  have := dialectsDec_fits b; rw [h] at this; exact this.1

theorem dialectsDec_pos (b : Bytes) (v : List Bytes) (k : Nat) (h : dialectsDec b = .ok (v, k))
    (hb : b ≠ []) : 0 < k := by
  have := dialectsDec_fits b; rw [h] at this; exact this.2 hb

/-! ## the table -/

/-- the three laws for one decoder, in the form the table needs -/
def Honest (b : Bytes) : Outcome (Tup × Nat) → Prop
  | .ok (_, k) => k ≤ b.length ∧ (b ≠ [] → 0 < k)
  | .err => True
  | .panic => False

theorem liftD_honest {α : Type} (d : Bytes → Outcome (α × Nat)) (to : α → Tup) (b : Bytes)
    (h : Fits b (d b)) : Honest b (liftD d to b) := by
  unfold liftD
  cases hd : d b with
  | ok r =>
    obtain ⟨a, k⟩ := r
    rw [hd] at h
    exact ⟨h.2, fun _ => h.1⟩
  | err => trivial
  | panic => rw [hd] at h; exact h

theorem dec_honest (typ : String) (b : Bytes) : Honest b (dec typ b) := by
  unfold dec
  split
  · exact liftD_honest _ _ b (SmbString.decode_fits b)
  · exact liftD_honest _ _ b (OemString.decode_fits b)
  · exact liftD_honest _ _ b (SmbDate.decode_fits b)
  · exact liftD_honest _ _ b (FileTime.decode_fits b)
  · exact liftD_honest _ _ b (FileTime.decode_fits b)
  · exact liftD_honest _ _ b (FileAttributes.decode_fits b)
  · exact liftD_honest _ _ b (PipeStatus.decode_fits b)
  · exact liftD_honest _ _ b (Range64.decode_fits b)
  · exact liftD_honest _ _ b (ResumeKey.decode_fits b)
  · exact liftD_honest _ _ b (DirInfo.decode_fits b)
  · have := dialectsDec_fits b
    revert this
    cases dialectsDec b with
    | ok r => obtain ⟨names, k⟩ := r; exact fun h => h
    | err => intro _; trivial
    | panic => exact fun h => h
  · trivial

/-- the codec table used by the SMB command models satisfies the decoder laws -/
theorem std_honest : HonestCodecs std where
  dec_no_panic typ b h := by
    have := dec_honest typ b
    rw [show std.dec typ b = dec typ b from rfl] at h
    rw [h] at this; exact this
  dec_bounded typ b v k h := by
    have := dec_honest typ b
    rw [show std.dec typ b = dec typ b from rfl] at h
    rw [h] at this; exact this.1
  dec_progress typ b v k h hb := by
    have := dec_honest typ b
    rw [show std.dec typ b = dec typ b from rfl] at h
    rw [h] at this; exact this.2 hb

end Manticore.SmbCodecs
