/-
  Helper lemmas of C09 (model side): text form of names (split/join on dots), the Go encoder equals
  the uncompressed RFC 1035 form, pointer arithmetic, and the agreement of the Go decoder with the
  RFC 1035 reader of `Spec/DNS.lean` on every input the reader accepts.
-/
import Manticore.Model.C09
import Manticore.Lemmas.DNS
import Manticore.Lemmas.Endian
namespace Manticore.C09
open Manticore Manticore.Spec.DNS

/-! ### text form -/

/-- the text of a non-root valid name is neither "" nor "." -/
theorem joinDots_ne (n : Name) (hne : n ≠ []) (hv : ∀ l ∈ n, ValidLabel l) (hd : ∀ l ∈ n, dot ∉ l) :
    joinDots n ≠ [] ∧ joinDots n ≠ [dot] := by
  cases n with
  | nil => exact absurd rfl hne
  | cons l ls =>
    obtain ⟨r, hr⟩ := joinDots_head l ls
    have h1 := (hv l (by simp)).1
    have h2 := hd l (by simp)
    cases l with
    | nil => simp at h1
    | cons c l =>
      have hc : c ≠ dot := fun e => h2 (by simp [e])
      rw [hr]
      constructor
      · simp
      · simp [hc]

theorem isPtr_iff (b : UInt8) : (b &&& 0xC0 = 0xC0) ↔ 192 ≤ b.toNat := by
  have h : ∀ i : Fin 256, ((UInt8.ofFin i) &&& 0xC0 = 0xC0) ↔ 192 ≤ (UInt8.ofFin i).toNat := by decide +kernel
  simpa using h b.toFin

theorem be16_toNat (b c : UInt8) : (be16 b c).toNat = b.toNat * 256 + c.toNat := by
  have hb := b.toNat_lt; have hc := c.toNat_lt
  simp only [be16, UInt16.toNat_or, UInt16.toNat_shiftLeft, UInt8.toNat_toUInt16, Nat.shiftLeft_eq]
  simp only [UInt16.toNat_ofNat, Nat.reducePow, Nat.reduceMod] at *
  rw [Nat.mod_eq_of_lt (by omega), Nat.or_comm]
  have : b.toNat * 256 = b.toNat <<< 8 := by rw [Nat.shiftLeft_eq]
  rw [this]
  exact (Nat.shiftLeft_add_eq_or_of_lt (by omega) _).symm

theorem ptrOf_eq (b c : UInt8) (h : 192 ≤ b.toNat) : ptrOf b c = (b.toNat - 192) * 256 + c.toNat := by
  have hb := b.toNat_lt; have hc := c.toNat_lt
  unfold ptrOf
  rw [UInt16.toNat_and, be16_toNat]
  have : (0x3FFF : UInt16).toNat = 2 ^ 14 - 1 := by decide
  rw [this, Nat.and_two_pow_sub_one_eq_mod]
  omega

theorem drop_cons_facts {data : Bytes} {curr : Nat} {b : UInt8} {rest : Bytes} (h : data.drop curr = b :: rest) :
    ∃ hlt : curr < data.length, data[curr] = b ∧ data.drop (curr + 1) = rest ∧ rest.length = data.length - (curr + 1) := by
  have hlt : curr < data.length := by
    apply Nat.lt_of_not_le; intro hle
    rw [List.drop_eq_nil_of_le hle] at h; cases h
  rw [List.drop_eq_getElem_cons hlt] at h
  injection h with h1 h2
  refine ⟨hlt, h1, h2, ?_⟩
  rw [← h2]; simp

def tailPos : Tail → Nat
  | .root p => p
  | .ptr p _ => p

/-- what the data holds where a run of literal labels ends -/
def AtTail (data : Bytes) : Tail → Prop
  | .root p => ∃ r, data.drop p = 0 :: r
  | .ptr p t => ∃ b c r, data.drop p = b :: c :: r ∧ 192 ≤ b.toNat ∧ t = (b.toNat - 192) * 256 + c.toNat

/-- while the specification reads literal labels, the Go loop collects the same labels -/
theorem go_walk (data : Bytes) (start : Nat) (rest : Bytes) (curr : Nat) :
    ∀ (x : List Label × Tail) (acc : List Bytes) (cost : Nat), data.drop curr = rest → readLabels rest curr = .ok x →
      (∃ cost', go data start curr acc cost = go data start (tailPos x.2) (acc ++ x.1) cost') ∧ AtTail data x.2 := by
  fun_induction readLabels rest curr with
  | case1 => intro x acc cost _ h; cases h
  | case2 rest pos =>
    intro x acc cost hd h
    cases h
    exact ⟨⟨cost, by simp [tailPos]⟩, ⟨rest, hd⟩⟩
  | case3 => intro x acc cost _ h; cases h
  | case4 b rest pos hb h64 hlen ls t hrec ih =>
    intro x acc cost hd h
    cases h
    obtain ⟨hlt, hget, hdrop, hrl⟩ := drop_cons_facts hd
    have hd' : data.drop (pos + 1 + b.toNat) = rest.drop b.toNat := by
      rw [← hdrop, List.drop_drop]
    obtain ⟨⟨c', hc'⟩, hat⟩ := ih (ls, t) (acc ++ [rest.take b.toNat]) (cost + b.toNat) hd' hrec
    refine ⟨⟨c', ?_⟩, hat⟩
    rw [go]
    have hnp : ¬ (b &&& 0xC0 = 0xC0) := by rw [isPtr_iff]; omega
    simp only [dif_neg (show ¬ data.length ≤ pos by omega), hget, hb, hnp, if_false, hdrop,
      if_neg (show ¬ data.length < pos + 1 + b.toNat by omega)]
    rw [hc']
    simp [List.append_assoc]
  | case5 => intro x acc cost _ h; cases h
  | case6 => intro x acc cost _ h; cases h
  | case7 => intro x acc cost _ h; cases h
  | case8 b rest pos hb h64 h192 c hc =>
    intro x acc cost hd h
    cases h
    refine ⟨⟨cost, by simp [tailPos]⟩, ?_⟩
    cases rest with
    | nil => simp at hc
    | cons c' r =>
      simp at hc; subst hc
      exact ⟨b, c', r, hd, by omega, rfl⟩

theorem go_at_root (data : Bytes) (start p : Nat) (labels : List Bytes) (cost : Nat) (r : Bytes)
    (hd : data.drop p = 0 :: r) : ∃ c, go data start p labels cost = .ok (text labels, p + 1, c) := by
  obtain ⟨hlt, hget, _, _⟩ := drop_cons_facts hd
  rw [go]
  simp only [dif_neg (show ¬ data.length ≤ p by omega), hget, if_true]
  cases labels with
  | nil => exact ⟨_, rfl⟩
  | cons l ls => exact ⟨cost + (joinDots (l :: ls)).length, by simp [text]⟩

theorem go_at_ptr (data : Bytes) (start p : Nat) (labels : List Bytes) (cost : Nat) (b c : UInt8) (r : Bytes)
    (hd : data.drop p = b :: c :: r) (hb : 192 ≤ b.toNat) :
    go data start p labels cost =
      (if start ≤ (b.toNat - 192) * 256 + c.toNat then .err
       else
        match go data ((b.toNat - 192) * 256 + c.toNat) ((b.toNat - 192) * 256 + c.toNat) [] 0 with
        | .ok (suffix, _, k) =>
          if labels = [] then .ok (suffix, p + 2, cost + k)
          else if suffix = [dot] then .ok (joinDots labels, p + 2, cost + k + (joinDots labels).length)
          else .ok (joinDots labels ++ dot :: suffix, p + 2,
                    cost + k + (joinDots labels).length + (joinDots labels ++ dot :: suffix).length)
        | .err => .err
        | .panic => .panic) := by
  obtain ⟨hlt, hget, hdrop, hrl⟩ := drop_cons_facts hd
  obtain ⟨hlt2, hget2, _, _⟩ := drop_cons_facts hdrop
  have hne : b ≠ 0 := by intro e; subst e; simp at hb
  have hp : b &&& 0xC0 = 0xC0 := (isPtr_iff b).2 hb
  rw [go]
  simp only [dif_neg (show ¬ data.length ≤ p by omega), hget, hne, if_false, hp, if_true,
    dif_neg (show ¬ data.length ≤ p + 1 by omega), hget2, ptrOf_eq b c hb]
  split <;> rfl

theorem readLabels_valid (r : Bytes) (pos : Nat) : ∀ (x : List Label × Tail), readLabels r pos = .ok x → ∀ l ∈ x.1, ValidLabel l := by
  fun_induction readLabels r pos with
  | case1 => intro x h; cases h
  | case2 => intro x h; cases h; simp
  | case3 => intro x h; cases h
  | case4 b rest pos hb h64 hlen ls t hrec ih =>
    intro x h; cases h
    intro l hl
    simp only [List.mem_cons] at hl
    rcases hl with rfl | hl
    · have : b.toNat ≠ 0 := by
        intro e; apply hb; exact UInt8.toNat_inj.mp (by simpa using e)
      constructor <;> simp <;> omega
    · exact ih (ls, t) hrec l hl
  | case5 => intro x h; cases h
  | case6 => intro x h; cases h
  | case7 => intro x h; cases h
  | case8 => intro x h; cases h; simp

theorem parseName_valid (data : Bytes) (off : Nat) : ∀ (x : Name × Nat), parseName data off = .ok x → ∀ l ∈ x.1, ValidLabel l := by
  fun_induction parseName data off with
  | case1 => intro x h; cases h
  | case2 off ls p hr => intro x h; cases h; exact readLabels_valid _ _ _ hr
  | case3 off ls p t hr ht s snd hs ih =>
    intro x h; cases h
    intro l hl
    simp only [List.mem_append] at hl
    rcases hl with hl | hl
    · exact readLabels_valid _ _ _ hr l hl
    · exact ih _ hs l hl
  | case4 => intro x h; cases h
  | case5 => intro x h; cases h

/-- how the Go code glues the labels before a pointer to the decoded suffix = the text of the concatenation -/
theorem combine_text (ls s : Name) (hs : ∀ l ∈ s, ValidLabel l) (hd : ∀ l ∈ s, dot ∉ l) :
    (if ls = [] then text s else if text s = [dot] then joinDots ls else joinDots ls ++ dot :: text s) = text (ls ++ s) := by
  cases ls with
  | nil => simp
  | cons l ls =>
    rw [if_neg (by simp)]
    cases s with
    | nil => simp [text]
    | cons x s =>
      have h2 := (joinDots_ne (x :: s) (by simp) hs hd).2
      have e1 : text (x :: s) = joinDots (x :: s) := rfl
      have e2 : text (l :: ls ++ x :: s) = joinDots (l :: ls ++ x :: s) := rfl
      rw [e1, e2, if_neg h2, joinDots_append _ _ (by simp) (by simp)]

/-- **agreement on names**: wherever the RFC 1035 reader accepts a name without dots inside labels,
    the Go decoder returns its text and the same next offset -/
theorem go_agrees (data : Bytes) (off : Nat) : ∀ (x : Name × Nat), parseName data off = .ok x → NoDots x.1 →
    ∃ c, go data off off [] 0 = .ok (text x.1, x.2, c) := by
  fun_induction parseName data off with
  | case1 => intro x h; cases h
  | case2 off ls p hr =>
    intro x h hnd; cases h
    obtain ⟨⟨c', hc'⟩, r, hat⟩ := go_walk data off _ off (ls, .root p) [] 0 rfl hr
    obtain ⟨c, hc⟩ := go_at_root data off p ls c' r hat
    exact ⟨c, by rw [hc']; simpa [tailPos] using hc⟩
  | case3 off ls p t hr ht s snd hs ih =>
    intro x h hnd; cases h
    have hnds : NoDots s := fun l hl => hnd l (by simp [hl])
    obtain ⟨k, hk⟩ := ih (s, snd) hs hnds
    obtain ⟨⟨c', hc'⟩, b, c, r, hat, hb, htv⟩ := go_walk data off _ off (ls, .ptr p t) [] 0 rfl hr
    have hvs := parseName_valid data t (s, snd) hs
    rw [hc']
    simp only [tailPos, List.nil_append]
    rw [go_at_ptr data off p ls c' b c r hat hb, ← htv, if_neg (by omega), hk]
    have hct := combine_text ls s hvs hnds
    by_cases h1 : ls = []
    · subst h1; exact ⟨c' + k, by simp⟩
    · rw [if_neg h1] at hct
      simp only [if_neg h1]
      by_cases h2 : text s = [dot]
      · rw [if_pos h2] at hct
        simp only [if_pos h2]
        exact ⟨_, by rw [hct]⟩
      · rw [if_neg h2] at hct
        simp only [if_neg h2]
        exact ⟨_, by rw [hct]⟩
  | case4 => intro x h; cases h
  | case5 => intro x h; cases h

theorem parseName_lt {data : Bytes} {off : Nat} {x : Name × Nat} (h : parseName data off = .ok x) : off < data.length := by
  apply Nat.lt_of_not_le; intro hle
  rw [parseName, List.drop_eq_nil_of_le hle, readLabels.eq_1] at h
  cases h

theorem decodeName_agrees (data : Bytes) (off : Nat) (n : Name) (next : Nat)
    (h : parseName data off = .ok (n, next)) (hnd : NoDots n) : decodeName data off = .ok (text n, next) := by
  obtain ⟨c, hc⟩ := go_agrees data off (n, next) h hnd
  have := parseName_lt h
  simp only [decodeName, decodeNameC, if_neg (show ¬ data.length ≤ off by omega), hc]

theorem parseNameChecked_ok {data : Bytes} {off : Nat} {x : Name × Nat} (h : parseNameChecked data off = .ok x) :
    parseName data off = .ok x := by
  unfold parseNameChecked at h
  split at h
  · split at h
    · cases h; assumption
    · cases h
  · cases h

theorem readBe16_of_drop {data : Bytes} {p : Nat} {a b : UInt8} {r : Bytes} (h : data.drop p = a :: b :: r) :
    readBe16 data p = .ok (be16 a b) := by
  obtain ⟨hlt, _, _, _⟩ := drop_cons_facts h
  simp only [readBe16, sliceFrom, if_pos (show p ≤ data.length by omega), h]

theorem readBe32_of_drop {data : Bytes} {p : Nat} {a b c d : UInt8} {r : Bytes} (h : data.drop p = a :: b :: c :: d :: r) :
    readBe32 data p = .ok (be32 a b c d) := by
  obtain ⟨hlt, _, _, _⟩ := drop_cons_facts h
  simp only [readBe32, sliceFrom, if_pos (show p ≤ data.length by omega), h]

theorem drop_add_of_drop {data : Bytes} {p : Nat} {x : Bytes} (h : data.drop p = x) (k : Nat) :
    data.drop (p + k) = x.drop k := by
  rw [← h, List.drop_drop]

theorem decodeQuestion_agrees (data : Bytes) (off : Nat) (q : Spec.DNS.Question) (next : Nat)
    (h : parseQuestion data off = .ok (q, next)) (hnd : NoDots q.name) :
    decodeQuestion data off = .ok (toQuestion q, next) := by
  unfold parseQuestion at h
  split at h
  · cases h
  rename_i n p hn
  split at h
  · rename_i t0 t1 c0 c1 r hd
    cases h
    have hname := decodeName_agrees data off n p (parseNameChecked_ok hn) hnd
    have hlen : p + 4 ≤ data.length := by
      have := congrArg List.length hd
      simp at this; omega
    have h2 := drop_add_of_drop hd 2
    simp only [List.drop_succ_cons, List.drop_zero] at h2
    simp only [decodeQuestion, hname, if_neg (show ¬ p + 4 > data.length by omega), readBe16_of_drop hd,
      readBe16_of_drop h2, toQuestion]
  · cases h

theorem decodeRR_agrees (data : Bytes) (off : Nat) (r : Spec.DNS.RR) (next : Nat)
    (h : parseRR data off = .ok (r, next)) (hnd : NoDots r.name) :
    decodeRR data off = .ok (toRR r, next) := by
  unfold parseRR at h
  split at h
  · cases h
  rename_i n p hn
  split at h
  · rename_i t0 t1 c0 c1 l0 l1 l2 l3 r0 r1 rest hd
    split at h
    · cases h
    rename_i hrl
    cases h
    have hname := decodeName_agrees data off n p (parseNameChecked_ok hn) hnd
    have hlen : data.length = p + 10 + rest.length := by
      have := congrArg List.length hd
      simp at this; omega
    have h2 := drop_add_of_drop hd 2
    have h4 := drop_add_of_drop hd 4
    have h8 := drop_add_of_drop hd 8
    have h10 := drop_add_of_drop hd 10
    simp only [List.drop_succ_cons, List.drop_zero] at h2 h4 h8 h10
    have hrd : (UInt16.ofNat (rest.take (be16 r0 r1).toNat).length) = be16 r0 r1 := by
      rw [List.length_take, Nat.min_eq_left (by omega)]; simp
    simp only [decodeRR, hname, if_neg (show ¬ p + 10 > data.length by omega), readBe16_of_drop hd,
      readBe16_of_drop h2, readBe32_of_drop h4, readBe16_of_drop h8,
      if_neg (show ¬ p + 10 + (be16 r0 r1).toNat > data.length by omega), slice,
      if_pos (show p + 10 ≤ p + 10 + (be16 r0 r1).toNat ∧ p + 10 + (be16 r0 r1).toNat ≤ data.length by omega),
      h10, toRR, hrd, Nat.add_sub_cancel_left]
  · cases h

theorem parseMany_length {α} (f : Bytes → Nat → Except Reject (α × Nat)) (data : Bytes) :
    ∀ (n off : Nat) (xs : List α) (o : Nat), parseMany f data n off = .ok (xs, o) → xs.length = n := by
  intro n
  induction n with
  | zero => intro off xs o h; cases h; rfl
  | succ n ih =>
    intro off xs o h
    simp only [parseMany] at h
    split at h
    · cases h
    · split at h
      · cases h; simp [ih _ _ _ (by assumption)]
      · cases h

theorem decodeMany_agrees {α β} (parseX : Bytes → Nat → Except Reject (α × Nat)) (decX : Bytes → Nat → Outcome (β × Nat))
    (f : α → β) (P : α → Prop) (data : Bytes)
    (item : ∀ off x next, parseX data off = .ok (x, next) → P x → decX data off = .ok (f x, next)) :
    ∀ (n off : Nat) (xs : List α) (o : Nat), parseMany parseX data n off = .ok (xs, o) → (∀ x ∈ xs, P x) →
      decodeMany decX data n off = .ok (xs.map f, o) := by
  intro n
  induction n with
  | zero => intro off xs o h _; cases h; rfl
  | succ n ih =>
    intro off xs o h hP
    simp only [parseMany] at h
    split at h
    · cases h
    · rename_i x p hx
      split at h
      · rename_i xs' q hxs
        cases h
        simp only [decodeMany, item off x p hx (hP x (by simp)), ih p xs' o hxs (fun y hy => hP y (by simp [hy])), List.map_cons]
      · cases h

/-- **agreement on messages**: whatever the RFC 1035 reader accepts (with no dot inside a label) the
    Go decoder decodes to the same content — for every input, compressed or not -/
theorem decodeMessage_agrees (data : Bytes) (m : Spec.DNS.Message) (h : parse data = .ok m) (hnd : MsgNoDots m) :
    decodeMessage data = .ok (toModel m) := by
  unfold parse at h
  split at h
  · rename_i i0 i1 f0 f1 q0 q1 a0 a1 n0 n1 r0 r1 rest
    unfold parseSections at h
    split at h
    · cases h
    rename_i qd o1 hq
    split at h
    · cases h
    rename_i an o2 ha
    split at h
    · cases h
    rename_i ns o3 hn
    split at h
    · cases h
    rename_i ar o4 hr
    cases h
    obtain ⟨dq, da, dn, dr⟩ := hnd
    have eq := decodeMany_agrees parseQuestion decodeQuestion toQuestion (fun q => NoDots q.name) _
      (fun off x next hx hp => decodeQuestion_agrees _ off x next hx hp) _ _ _ _ hq dq
    have ea := decodeMany_agrees parseRR decodeRR toRR (fun r => NoDots r.name) _
      (fun off x next hx hp => decodeRR_agrees _ off x next hx hp) _ _ _ _ ha da
    have en := decodeMany_agrees parseRR decodeRR toRR (fun r => NoDots r.name) _
      (fun off x next hx hp => decodeRR_agrees _ off x next hx hp) _ _ _ _ hn dn
    have er := decodeMany_agrees parseRR decodeRR toRR (fun r => NoDots r.name) _
      (fun off x next hx hp => decodeRR_agrees _ off x next hx hp) _ _ _ _ hr dr
    have lq := parseMany_length _ _ _ _ _ _ hq
    have la := parseMany_length _ _ _ _ _ _ ha
    have ln := parseMany_length _ _ _ _ _ _ hn
    have lr := parseMany_length _ _ _ _ _ _ hr
    unfold decodeMessage
    rw [if_neg (by simp only [List.length_cons]; omega)]
    simp only [readBe16, sliceFrom, List.length_cons, List.drop_zero, List.drop_succ_cons, Nat.zero_le, if_true,
      show (2 : Nat) ≤ rest.length + 1 + 1 + 1 + 1 + 1 + 1 + 1 + 1 + 1 + 1 + 1 + 1 by omega,
      show (4 : Nat) ≤ rest.length + 1 + 1 + 1 + 1 + 1 + 1 + 1 + 1 + 1 + 1 + 1 + 1 by omega,
      show (6 : Nat) ≤ rest.length + 1 + 1 + 1 + 1 + 1 + 1 + 1 + 1 + 1 + 1 + 1 + 1 by omega,
      show (8 : Nat) ≤ rest.length + 1 + 1 + 1 + 1 + 1 + 1 + 1 + 1 + 1 + 1 + 1 + 1 by omega,
      show (10 : Nat) ≤ rest.length + 1 + 1 + 1 + 1 + 1 + 1 + 1 + 1 + 1 + 1 + 1 + 1 by omega,
      eq, ea, en, er, toModel, lq, la, ln, lr, UInt16.ofNat_toNat]
  · cases h

/-! ### encoding equals the uncompressed RFC 1035 form -/

theorem encodeLabels_spec (ls : Name) (hv : ∀ l ∈ ls, ValidLabel l) (buf : Bytes) :
    encodeLabels ls buf = .ok (buf ++ labelsWire ls) := by
  induction ls generalizing buf with
  | nil => simp [encodeLabels, labelsWire]
  | cons l ls ih =>
    obtain ⟨h1, h2⟩ := hv l (by simp)
    simp only [encodeLabels]
    rw [if_neg (by omega), if_neg (by omega), ih (fun x hx => hv x (by simp [hx]))]
    simp [labelsWire_cons, List.append_assoc]

theorem encodeName_spec' (n : Name) (hv : ValidName n) : encodeName (text n) = .ok (nameWire n) := by
  obtain ⟨⟨hl, hlen⟩, hd⟩ := hv
  cases n with
  | nil => simp [text, encodeName, nameWire, labelsWire]
  | cons l ls =>
    obtain ⟨n1, n2⟩ := joinDots_ne (l :: ls) (by simp) hl hd
    have ht : text (l :: ls) = joinDots (l :: ls) := rfl
    rw [ht]
    unfold encodeName
    rw [if_neg (by simp [n1, n2]), splitDots_joinDots _ (by simp) hd, encodeLabels_spec _ hl]
    simp only [List.nil_append]
    have : (labelsWire (l :: ls)).length + 1 = (nameWire (l :: ls)).length := by simp [nameWire]
    rw [this, if_neg (by omega)]
    rfl

theorem encodeQuestion_spec (q : Spec.DNS.Question) (hv : ValidName q.name) :
    encodeQuestion (toQuestion q) = .ok (nameWire q.name ++ questionTail q) := by
  simp only [encodeQuestion, toQuestion, encodeName_spec' _ hv, questionTail, List.append_assoc]

theorem encodeRR_spec (r : Spec.DNS.RR) (hv : ValidName r.name) :
    encodeRR (toRR r) = .ok (nameWire r.name ++ rrTail r) := by
  simp only [encodeRR, toRR, encodeName_spec' _ hv, rrTail, List.append_assoc]

theorem encodeAll_spec {α β} (enc : β → Outcome Bytes) (f : α → β) (w : α → Bytes) (xs : List α)
    (h : ∀ x ∈ xs, enc (f x) = .ok (w x)) (p : Bytes) :
    encodeAll enc (xs.map f) p = .ok (p ++ xs.flatMap w) := by
  induction xs generalizing p with
  | nil => simp [encodeAll]
  | cons x xs ih =>
    simp only [List.map_cons, encodeAll, h x (by simp)]
    rw [ih (fun y hy => h y (by simp [hy]))]
    simp [List.append_assoc]

theorem encode_eq_spec' (m : Spec.DNS.Message) (hv : ValidMessage m) :
    encodeMessage (toModel m) = .ok (plain m) := by
  obtain ⟨⟨vq, va, vn, vr, _⟩, dq, da, dn, dr⟩ := hv
  have eq := encodeAll_spec encodeQuestion toQuestion (fun q => nameWire q.name ++ questionTail q) m.qd
    (fun q hq => encodeQuestion_spec q ⟨vq q hq, dq q hq⟩)
  have ea := encodeAll_spec encodeRR toRR (fun r => nameWire r.name ++ rrTail r) m.an
    (fun r hr => encodeRR_spec r ⟨(va r hr).1, da r hr⟩)
  have en := encodeAll_spec encodeRR toRR (fun r => nameWire r.name ++ rrTail r) m.ns
    (fun r hr => encodeRR_spec r ⟨(vn r hr).1, dn r hr⟩)
  have er := encodeAll_spec encodeRR toRR (fun r => nameWire r.name ++ rrTail r) m.ar
    (fun r hr => encodeRR_spec r ⟨(vr r hr).1, dr r hr⟩)
  simp only [encodeMessage, toModel, List.length_map, eq, ea, en, er, plain, header]


/-! ### no panic, pointer rule -/

theorem go_never_panics (data : Bytes) (start curr : Nat) (labels : List Bytes) (cost : Nat) :
    go data start curr labels cost ≠ .panic := by
  fun_induction go data start curr labels cost <;> simp_all

theorem decodeName_never_panics (data : Bytes) (off : Nat) : decodeName data off ≠ .panic := by
  unfold decodeName decodeNameC
  split
  · intro h; cases h
  · intro h; cases h
  · rename_i h
    split at h
    · cases h
    · exact absurd h (go_never_panics _ _ _ _ _)

theorem readBe16_ok (data : Bytes) (off : Nat) (h : off + 2 ≤ data.length) : ∃ v, readBe16 data off = .ok v := by
  unfold readBe16 sliceFrom
  rw [if_pos (by omega)]
  have : (data.drop off).length ≥ 2 := by simp; omega
  match hd : data.drop off, this with
  | a :: b :: _, _ => exact ⟨_, rfl⟩

theorem readBe32_ok (data : Bytes) (off : Nat) (h : off + 4 ≤ data.length) : ∃ v, readBe32 data off = .ok v := by
  unfold readBe32 sliceFrom
  rw [if_pos (by omega)]
  have : (data.drop off).length ≥ 4 := by simp; omega
  match hd : data.drop off, this with
  | a :: b :: c :: d :: _, _ => exact ⟨_, rfl⟩

theorem decodeQuestion_never_panics (data : Bytes) (off : Nat) : decodeQuestion data off ≠ .panic := by
  unfold decodeQuestion
  split
  · rename_i name o _
    split
    · intro h; cases h
    · rename_i hlen
      obtain ⟨t, ht⟩ := readBe16_ok data o (by omega)
      obtain ⟨c, hc⟩ := readBe16_ok data (o + 2) (by omega)
      simp [ht, hc]
  · intro h; cases h
  · rename_i h; exact absurd h (decodeName_never_panics _ _)

theorem decodeRR_never_panics (data : Bytes) (off : Nat) : decodeRR data off ≠ .panic := by
  unfold decodeRR
  split
  · rename_i name o _
    split
    · intro h; cases h
    · rename_i hlen
      obtain ⟨t, ht⟩ := readBe16_ok data o (by omega)
      obtain ⟨c, hc⟩ := readBe16_ok data (o + 2) (by omega)
      obtain ⟨ttl, httl⟩ := readBe32_ok data (o + 4) (by omega)
      obtain ⟨rdl, hrdl⟩ := readBe16_ok data (o + 8) (by omega)
      simp only [ht, hc, httl, hrdl]
      split
      · intro h; cases h
      · rename_i h2
        simp only [slice, if_pos (show o + 10 ≤ o + 10 + rdl.toNat ∧ o + 10 + rdl.toNat ≤ data.length by omega)]
        intro h; cases h
  · intro h; cases h
  · rename_i h; exact absurd h (decodeName_never_panics _ _)

theorem decodeMany_never_panics {α} (dec : Bytes → Nat → Outcome (α × Nat)) (data : Bytes)
    (hd : ∀ off, dec data off ≠ .panic) : ∀ n off, decodeMany dec data n off ≠ .panic := by
  intro n
  induction n with
  | zero => intro off h; cases h
  | succ n ih =>
    intro off
    simp only [decodeMany]
    split
    · rename_i x o' _
      split
      · intro h; cases h
      · intro h; cases h
      · rename_i h; exact absurd h (ih _)
    · intro h; cases h
    · rename_i h; exact absurd h (hd _)

theorem decodeMessage_never_panics_aux (data : Bytes) : decodeMessage data ≠ .panic := by
  unfold decodeMessage
  split
  · intro h; cases h
  · rename_i hlen
    obtain ⟨v0, h0⟩ := readBe16_ok data 0 (by omega)
    obtain ⟨v2, h2⟩ := readBe16_ok data 2 (by omega)
    obtain ⟨v4, h4⟩ := readBe16_ok data 4 (by omega)
    obtain ⟨v6, h6⟩ := readBe16_ok data 6 (by omega)
    obtain ⟨v8, h8⟩ := readBe16_ok data 8 (by omega)
    obtain ⟨v10, h10⟩ := readBe16_ok data 10 (by omega)
    simp only [h0, h2, h4, h6, h8, h10]
    have q := decodeMany_never_panics decodeQuestion data (decodeQuestion_never_panics data)
    have r := decodeMany_never_panics decodeRR data (decodeRR_never_panics data)
    split
    · split
      · split
        · split
          · intro h; cases h
          · intro h; cases h
          · rename_i h; exact absurd h (r _ _)
        · intro h; cases h
        · rename_i h; exact absurd h (r _ _)
      · intro h; cases h
      · rename_i h; exact absurd h (r _ _)
    · intro h; cases h
    · rename_i h; exact absurd h (q _ _)

/-- a pointer met at the cursor whose target is not before the start of the current name is refused -/
theorem go_pointer_not_back (data : Bytes) (start curr : Nat) (labels : List Bytes) (cost : Nat)
    (h1 : curr + 1 < data.length) (hp : data[curr] &&& 0xC0 = 0xC0)
    (ht : start ≤ ptrOf data[curr] data[curr + 1]) : go data start curr labels cost = .err := by
  have hne : data[curr] ≠ 0 := by
    intro e; rw [e] at hp; revert hp; decide
  rw [go]
  simp only [dif_neg (show ¬ data.length ≤ curr by omega), hne, if_false, hp, if_true,
    dif_neg (show ¬ data.length ≤ curr + 1 by omega), dif_pos ht]

/-! ### allocation bound -/

/-- text length of a label list counted generously: one byte per label for the separating dot -/
def labelsWeight : List Bytes → Nat
  | [] => 0
  | l :: ls => l.length + 1 + labelsWeight ls

/-- the part of the allocation bound that pays for pointer hops: a name entered at offset `s` can
    make at most `s` hops, hop `j` re-copies a suffix of at most `(j+1)·L` bytes -/
def hopBound : Nat → Nat → Nat
  | 0, _ => 0
  | s+1, L => hopBound s L + (s + 5) * L

theorem labelsWeight_append (a : List Bytes) (l : Bytes) : labelsWeight (a ++ [l]) = labelsWeight a + l.length + 1 := by
  induction a with
  | nil => simp [labelsWeight]
  | cons x a ih => simp only [List.cons_append, labelsWeight, ih]; omega

theorem joinDots_length_le (ls : List Bytes) : (joinDots ls).length + 1 ≤ labelsWeight ls + 1 ∧ (ls ≠ [] → (joinDots ls).length + 1 ≤ labelsWeight ls) := by
  induction ls with
  | nil => simp [joinDots, labelsWeight]
  | cons l ls ih =>
    cases ls with
    | nil => simp [joinDots, labelsWeight]
    | cons l' ls =>
      have := ih.2 (by simp)
      simp only [joinDots, labelsWeight, List.length_append, List.length_cons] at *
      omega

theorem hopBound_mono (L : Nat) : ∀ (a b : Nat), a ≤ b → hopBound a L ≤ hopBound b L := by
  intro a b h
  induction b with
  | zero => have : a = 0 := by omega
            subst this; exact Nat.le_refl _
  | succ b ih =>
    by_cases hab : a = b + 1
    · subst hab; exact Nat.le_refl _
    · have := ih (by omega)
      simp only [hopBound]; omega

theorem hopBound_step (L p s : Nat) (h : p < s) : hopBound p L + (p + 5) * L ≤ hopBound s L := by
  have := hopBound_mono L (p + 1) s (by omega)
  simpa [hopBound] using this

theorem go_bound (data : Bytes) (start curr : Nat) (labels : List Bytes) (cost : Nat) :
    ∀ (name : Bytes) (next cost' : Nat), go data start curr labels cost = .ok (name, next, cost') →
      name.length ≤ labelsWeight labels + (data.length - curr) + start * data.length ∧
      cost' ≤ cost + 3 * (data.length - curr) + 2 * labelsWeight labels + hopBound start data.length := by
  fun_induction go data start curr labels cost with
  | case1 => intro name next cost' h; cases h
  | case2 start curr cost hlt h0 =>
    intro name next cost' h
    simp only [Outcome.ok.injEq, Prod.mk.injEq] at h
    obtain ⟨rfl, rfl, rfl⟩ := h
    simp [labelsWeight]; omega
  | case3 start curr labels cost hlt h0 hne =>
    intro name next cost' h
    simp only [Outcome.ok.injEq, Prod.mk.injEq] at h
    obtain ⟨rfl, rfl, rfl⟩ := h
    have := (joinDots_length_le labels).2 hne
    omega
  | case4 => intro name next cost' h; cases h
  | case5 => intro name next cost' h; cases h
  | case6 start curr cost hlt h0 hp hlt1 hback suffix fst c hrec ih =>
    intro name next cost' h
    simp only [Outcome.ok.injEq, Prod.mk.injEq] at h
    obtain ⟨rfl, rfl, rfl⟩ := h
    obtain ⟨i1, i2⟩ := ih _ _ _ hrec
    have hs := hopBound_step data.length _ start (Nat.lt_of_not_le hback)
    have hm : (ptrOf data[curr] data[curr + 1] + 1) * data.length ≤ start * data.length :=
      Nat.mul_le_mul_right _ (by omega)
    rw [Nat.add_mul] at hm hs
    simp only [labelsWeight] at *
    omega
  | case7 start curr labels cost hlt h0 hp hlt1 hback fst c hne hrec ih =>
    intro name next cost' h
    simp only [Outcome.ok.injEq, Prod.mk.injEq] at h
    obtain ⟨rfl, rfl, rfl⟩ := h
    obtain ⟨i1, i2⟩ := ih _ _ _ hrec
    have hs := hopBound_step data.length _ start (Nat.lt_of_not_le hback)
    have hj := (joinDots_length_le labels).2 hne
    rw [Nat.add_mul] at hs
    simp only [labelsWeight] at *
    omega
  | case8 start curr labels cost hlt h0 hp hlt1 hback suffix fst c hrec hne hnd ih =>
    intro name next cost' h
    simp only [Outcome.ok.injEq, Prod.mk.injEq] at h
    obtain ⟨rfl, rfl, rfl⟩ := h
    obtain ⟨i1, i2⟩ := ih _ _ _ hrec
    have hs := hopBound_step data.length _ start (Nat.lt_of_not_le hback)
    have hm : (ptrOf data[curr] data[curr + 1] + 1) * data.length ≤ start * data.length :=
      Nat.mul_le_mul_right _ (by omega)
    have hj := (joinDots_length_le labels).2 hne
    rw [Nat.add_mul] at hm hs
    simp only [labelsWeight, List.length_append, List.length_cons] at *
    omega
  | case9 => intro name next cost' h; cases h
  | case10 => intro name next cost' h; cases h
  | case11 => intro name next cost' h; cases h
  | case12 start curr labels cost hlt h0 hp hlen ih =>
    intro name next cost' h
    obtain ⟨i1, i2⟩ := ih _ _ _ h
    rw [labelsWeight_append] at i1 i2
    simp only [List.length_take, List.length_drop] at i1 i2
    have : min data[curr].toNat (data.length - (curr + 1)) = data[curr].toNat := by omega
    rw [this] at i1 i2
    omega

end Manticore.C09
