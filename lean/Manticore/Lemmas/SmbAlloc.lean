/-
  C07, allocation clause for the SMB command IR (Model/SmbAlloc.lean):

  * `allocStmts_le`: under the static predicate `allocOKStmts` the cost of a run — on every path,
    failing ones included — is at most `slope · L + const`, `L` = what the two streams can reach;
  * `runU_value_le`: the value a successful run returns is no bigger than what the run paid for
    (`envSize env ≤ envSize env0 + allocU …`), for initial values without a repeated field name.

  Both rest on two laws about the nested decoders' cost table `A` (`AllocCodecs`): a decoder's cost
  is at most its window plus a constant, and a decoded value is no bigger than the cost.
  Core Lean only.
-/
import Manticore.Model.SmbAlloc
import Manticore.Lemmas.SmbGuarded
namespace Manticore.SmbIR
open Manticore

/-- what the cost table of the nested decoders must satisfy (proved for `SmbCodecs.stdAlloc`) -/
structure AllocCodecs (C : Codecs) (A : String → Bytes → Nat) (a0 : Nat) : Prop where
  /-- a nested decoder allocates at most its window plus a constant -/
  alloc_le : ∀ typ w, A typ w ≤ w.length + a0
  /-- what it returns is no bigger than what it allocated -/
  value_le : ∀ typ w v k, C.dec typ w = .ok (v, k) → tupSize v ≤ A typ w
  /-- what a failing decoder has assigned in the receiver before it gave up (visible where the caller drops the
      error) is no bigger than what the receiver held plus what the call allocated -/
  fail_le : ∀ typ w old, tupSize (C.decFail typ w old) ≤ tupSize old + A typ w

/-! ## slices -/

theorem sliceC_length {b ext : Bytes} {lo hi : Nat} {bs : Bytes} (h : sliceC b ext lo hi = .ok bs) :
    bs.length = hi - lo ∧ lo ≤ hi ∧ hi ≤ b.length + ext.length := by
  unfold sliceC at h
  split at h
  · rename_i hc
    cases h
    refine ⟨?_, hc.1, hc.2⟩
    simp only [List.length_take, List.length_drop, List.length_append]; omega
  · cases h

theorem sliceFrom_length {b : Bytes} {lo : Nat} {bs : Bytes} (h : sliceFrom b lo = .ok bs) :
    bs.length = b.length - lo ∧ lo ≤ b.length := by
  unfold sliceFrom at h
  split at h
  · rename_i hc; cases h; exact ⟨by simp, hc⟩
  · cases h

theorem blk_ext_le_cap (s : UState) (b : Blk) : (s.blk b).length + (s.ext b).length ≤ s.cap := by
  cases b <;> simp only [UState.blk, UState.ext, UState.cap] <;> omega

theorem blk_le_cap (s : UState) (b : Blk) : (s.blk b).length ≤ s.cap :=
  Nat.le_trans (Nat.le_add_right _ _) (blk_ext_le_cap s b)

theorem liftO_next {α} (f : UState → α → UState) (s s' : UState) (o : Outcome α)
    (h : liftO f s o = .next s') : ∃ a, o = .ok a ∧ s' = f s a := by
  cases o with
  | ok a => simp only [liftO, Step.next.injEq] at h; exact ⟨a, rfl, h.symm⟩
  | err => cases h
  | panic => cases h

/-! ## loops -/

theorem readInts_ok (blk ext : Bytes) (w : Nat) (e : End) :
    ∀ (n off : Nat) (acc xs : List Nat) (off' : Nat), readInts blk ext w e n off acc = .ok (xs, off') →
      xs.length = acc.length + n ∧ (0 < n → off + n * w ≤ blk.length + ext.length)
  | 0, off, acc, xs, off', h => by
    simp only [readInts, Outcome.ok.injEq, Prod.mk.injEq] at h
    exact ⟨by rw [← h.1]; rfl, fun h0 => absurd h0 (Nat.lt_irrefl 0)⟩
  | n+1, off, acc, xs, off', h => by
    simp only [readInts] at h
    split at h
    · rename_i bs hs
      obtain ⟨_, _, hhi⟩ := sliceC_length hs
      obtain ⟨hl, hb⟩ := readInts_ok blk ext w e n (off + w) (acc ++ [intVal e bs]) xs off' h
      refine ⟨by rw [hl]; simp; omega, fun _ => ?_⟩
      rw [Nat.succ_mul]
      cases n with
      | zero => simp; omega
      | succ m => have := hb (Nat.succ_pos m); omega
    · cases h
    · cases h

private theorem step_mul (X k m : Nat) (hX : 1 ≤ X) (hk : 1 ≤ k) : m + (X - k) * m ≤ X * m := by
  have : (X - k) + 1 ≤ X := by omega
  calc m + (X - k) * m = ((X - k) + 1) * m := by rw [Nat.succ_mul]; omega
    _ ≤ X * m := Nat.mul_le_mul_right m this

theorem allocSubsCounted_le (C : Codecs) (hC : HonestCodecs C) (A : String → Bytes → Nat) (a0 : Nat)
    (hA : AllocCodecs C A a0) (typ : String) (blk ext : Bytes) (size : Nat) (hs : 0 < size) :
    ∀ (n off : Nat), allocSubsCounted C A typ blk ext size n off ≤ (blk.length - off) * (size + a0)
  | 0, off => by simp [allocSubsCounted]
  | n+1, off => by
    simp only [allocSubsCounted]
    split
    · exact Nat.zero_le _
    · rename_i hfit
      split
      · rename_i w hw
        obtain ⟨hlen, _, _⟩ := sliceC_length hw
        have hwl : w.length = size := by omega
        have hAw : A typ w ≤ size + a0 := by have := hA.alloc_le typ w; omega
        split
        · rename_i v k hd
          have hk : 0 < k := hC.dec_progress typ w v k hd (by intro h; rw [h] at hwl; simp at hwl; omega)
          have ih := allocSubsCounted_le C hC A a0 hA typ blk ext size hs n (off + k)
          have hstep := step_mul (blk.length - off) k (size + a0) (by omega) hk
          have : blk.length - (off + k) = blk.length - off - k := by omega
          rw [this] at ih
          omega
        · have := step_mul (blk.length - off) 1 (size + a0) (by omega) (Nat.le_refl 1)
          omega
      · exact Nat.zero_le _

theorem allocSubsWhile_le (C : Codecs) (hC : HonestCodecs C) (A : String → Bytes → Nat) (a0 : Nat)
    (hA : AllocCodecs C A a0) (typ : String) (blk ext : Bytes) (size : Nat) (hs : 0 < size) :
    ∀ (n off : Nat), allocSubsWhile C A typ blk ext size n off ≤ (blk.length - off) * (size + a0)
  | 0, off => by simp [allocSubsWhile]
  | n+1, off => by
    simp only [allocSubsWhile]
    split
    · rename_i hfit
      split
      · rename_i w hw
        obtain ⟨hlen, _, _⟩ := sliceC_length hw
        have hwl : w.length = size := by omega
        have hAw : A typ w ≤ size + a0 := by have := hA.alloc_le typ w; omega
        split
        · rename_i v k hd
          have hk : 0 < k := hC.dec_progress typ w v k hd (by intro h; rw [h] at hwl; simp at hwl; omega)
          have ih := allocSubsWhile_le C hC A a0 hA typ blk ext size hs n (off + k)
          have hstep := step_mul (blk.length - off) k (size + a0) (by omega) hk
          have : blk.length - (off + k) = blk.length - off - k := by omega
          rw [this] at ih
          omega
        · have := step_mul (blk.length - off) 1 (size + a0) (by omega) (Nat.le_refl 1)
          omega
      · exact Nat.zero_le _
    · exact Nat.zero_le _

private theorem sum_map_append (l : List Tup) (v : Tup) :
    ((l ++ [v]).map tupSize).sum = (l.map tupSize).sum + tupSize v := by
  simp [List.map_append, List.sum_append]

theorem readSubsCounted_value (C : Codecs) (A : String → Bytes → Nat) (a0 : Nat) (hA : AllocCodecs C A a0)
    (typ : String) (blk ext : Bytes) (size : Nat) :
    ∀ (n off : Nat) (acc vs : List Tup) (off' : Nat), readSubsCounted C typ blk ext size n off acc = .ok (vs, off') →
      (vs.map tupSize).sum ≤ (acc.map tupSize).sum + allocSubsCounted C A typ blk ext size n off
  | 0, off, acc, vs, off', h => by
    simp only [readSubsCounted, Outcome.ok.injEq, Prod.mk.injEq] at h
    rw [← h.1]; simp [allocSubsCounted]
  | n+1, off, acc, vs, off', h => by
    simp only [readSubsCounted] at h
    simp only [allocSubsCounted]
    split at h
    · cases h
    · rename_i hfit
      rw [if_neg hfit]
      split at h
      · rename_i w hw
        split at h
        · rename_i v k hd
          have ih := readSubsCounted_value C A a0 hA typ blk ext size n (off + k) (acc ++ [v]) vs off' h
          rw [sum_map_append] at ih
          have := hA.value_le typ w v k hd
          simp only [hw, hd]
          omega
        · cases h
        · cases h
      · cases h
      · cases h

theorem readSubsWhile_value (C : Codecs) (A : String → Bytes → Nat) (a0 : Nat) (hA : AllocCodecs C A a0)
    (typ : String) (blk ext : Bytes) (size : Nat) :
    ∀ (n off : Nat) (acc vs : List Tup) (off' : Nat), readSubsWhile C typ blk ext size n off acc = .ok (vs, off') →
      (vs.map tupSize).sum ≤ (acc.map tupSize).sum + allocSubsWhile C A typ blk ext size n off
  | 0, off, acc, vs, off', h => by
    simp only [readSubsWhile] at h
    split at h
    · cases h
    · simp only [Outcome.ok.injEq, Prod.mk.injEq] at h
      rw [← h.1]; simp [allocSubsWhile]
  | n+1, off, acc, vs, off', h => by
    simp only [readSubsWhile] at h
    simp only [allocSubsWhile]
    split at h
    · rename_i hfit
      rw [if_pos hfit]
      split at h
      · rename_i w hw
        split at h
        · rename_i v k hd
          have ih := readSubsWhile_value C A a0 hA typ blk ext size n (off + k) (acc ++ [v]) vs off' h
          rw [sum_map_append] at ih
          have := hA.value_le typ w v k hd
          simp only [hw, hd]
          omega
        · cases h
        · cases h
      · cases h
      · cases h
    · rename_i hfit
      rw [if_neg hfit]
      simp only [Outcome.ok.injEq, Prod.mk.injEq] at h
      rw [← h.1]; omega

/-! ## environments: size of `set` when no field name repeats -/

theorem envSize_cons (p : String × Val) (env : Env) : envSize (p :: env) = p.2.size + envSize env := by
  simp [envSize]

theorem envSize_append (e1 e2 : Env) : envSize (e1 ++ e2) = envSize e1 + envSize e2 := by
  simp [envSize, List.map_append, List.sum_append]

private theorem map_set_keys (env : Env) (f : String) (v : Val) :
    (env.map (fun p => if p.1 == f then (f, v) else p)).map (·.1) = env.map (·.1) := by
  induction env with
  | nil => rfl
  | cons p rest ih =>
    simp only [List.map_cons, ih, List.cons.injEq, and_true]
    by_cases h : p.1 = f
    · simp [h]
    · simp [h]

private theorem map_set_absent (env : Env) (f : String) (v : Val) (h : f ∉ env.map (·.1)) :
    env.map (fun p => if p.1 == f then (f, v) else p) = env := by
  induction env with
  | nil => rfl
  | cons p rest ih =>
    simp only [List.map_cons, List.mem_cons, not_or] at h
    simp only [List.map_cons, ih h.2, List.cons.injEq, and_true]
    have : ¬ p.1 = f := fun e => h.1 e.symm
    simp [this]

theorem keysNodup_set (env : Env) (f : String) (v : Val) (h : KeysNodup env) : KeysNodup (env.set f v) := by
  unfold KeysNodup Env.set at *
  split
  · rw [map_set_keys]; exact h
  · rename_i hany
    rw [List.map_append, List.nodup_append]
    refine ⟨h, by simp, ?_⟩
    intro a ha b hb
    simp only [List.map_cons, List.map_nil, List.mem_singleton] at hb
    subst hb
    intro hab; subst hab
    apply hany
    simp only [List.mem_map] at ha
    obtain ⟨p, hp, hpf⟩ := ha
    simp only [List.any_eq_true]
    exact ⟨p, hp, by simp [hpf]⟩

private theorem envSize_map_set (env : Env) (f : String) (v old : Val) (h : KeysNodup env)
    (hg : env.get f = some old) :
    envSize (env.map (fun p => if p.1 == f then (f, v) else p)) + old.size = envSize env + v.size := by
  induction env with
  | nil => cases hg
  | cons p rest ih =>
    unfold KeysNodup at h
    simp only [List.map_cons, List.nodup_cons] at h
    rw [List.map_cons, envSize_cons, envSize_cons]
    by_cases hp : p.1 = f
    · have habs : f ∉ rest.map (·.1) := hp ▸ h.1
      rw [map_set_absent rest f v habs]
      have : old = p.2 := by
        unfold Env.get at hg; simp [hp] at hg; exact hg.symm
      subst this
      simp [hp]; omega
    · have hg' : Env.get rest f = some old := by
        unfold Env.get at hg ⊢; simpa [List.find?_cons, hp] using hg
      have := ih h.2 hg'
      have hb : (p.1 == f) = false := by simpa using hp
      simp only [hb, Bool.false_eq_true, if_false]; omega

private theorem get_some_any (env : Env) (f : String) (old : Val) (hg : env.get f = some old) :
    env.any (·.1 == f) = true := by
  unfold Env.get at hg
  cases hf : env.find? (·.1 == f) with
  | none => rw [hf] at hg; cases hg
  | some p =>
    have := List.find?_some hf
    have hm := List.mem_of_find?_eq_some hf
    exact List.any_eq_true.mpr ⟨p, hm, this⟩

private theorem any_get_some (env : Env) (f : String) (h : env.any (·.1 == f) = true) :
    ∃ old, env.get f = some old := by
  unfold Env.get
  obtain ⟨p, hm, hp⟩ := List.any_eq_true.mp h
  cases hf : env.find? (·.1 == f) with
  | none => exact absurd hp (by simpa using List.find?_eq_none.mp hf p hm)
  | some q => exact ⟨q.2, rfl⟩

/-- replacing a field: the old value's size goes, the new one's comes -/
theorem envSize_set_eq (env : Env) (f : String) (v old : Val) (h : KeysNodup env) (hg : env.get f = some old) :
    envSize (env.set f v) + old.size = envSize env + v.size := by
  unfold Env.set
  rw [if_pos (get_some_any env f old hg)]
  exact envSize_map_set env f v old h hg

theorem envSize_set_le (env : Env) (f : String) (v : Val) (h : KeysNodup env) :
    envSize (env.set f v) ≤ envSize env + v.size := by
  cases hany : env.any (·.1 == f) with
  | true =>
    obtain ⟨old, hg⟩ := any_get_some env f hany
    have := envSize_set_eq env f v old h hg
    omega
  | false =>
    unfold Env.set
    rw [if_neg (by simp [hany]), envSize_append]
    simp [envSize]

/-! ## what the guard in front of a statement established -/

def PrevOK (prev : Option (Blk × Expr)) (s : UState) : Prop :=
  ∀ b e, prev = some (b, e) → ∃ n, evalExpr s e = some n ∧ s.offset + n ≤ (s.blk b).length

theorem PrevOK.none (s : UState) : PrevOK none s := fun _ _ h => by cases h

/-- the knowledge handed to the next statement is true of the state it runs in -/
theorem prevOK_next (C : Codecs) (s s' : UState) (st : UStmt) (h : runUStmt C s st = .next s') :
    PrevOK (nextPrev st) s' := by
  cases st
  case guard b e =>
    simp only [runUStmt] at h
    split at h
    · rename_i n hn
      split at h
      · cases h
      · rename_i hlt
        cases h
        intro b' e' hbe
        cases hbe
        exact ⟨n, hn, by omega⟩
    · cases h
  all_goals exact PrevOK.none _

/-! ## the reachable bytes never grow -/

mutual
theorem cap_next (C : Codecs) : ∀ (st : UStmt) (s s' : UState), runUStmt C s st = .next s' → s'.cap ≤ s.cap
  | .retIfEmpty p d, s, s', h => by
    simp only [runUStmt] at h; split at h <;> cases h; exact Nat.le_refl _
  | .resetOffset, s, s', h => by simp only [runUStmt] at h; cases h; exact Nat.le_refl _
  | .guard b e, s, s', h => by
    simp only [runUStmt] at h
    split at h
    · split at h <;> cases h; exact Nat.le_refl _
    · cases h
  | .readInt b w e f, s, s', h => by
    simp only [runUStmt] at h; obtain ⟨a, _, rfl⟩ := liftO_next _ _ _ _ h; exact Nat.le_refl _
  | .readQuad b w e f, s, s', h => by
    simp only [runUStmt] at h; obtain ⟨a, _, rfl⟩ := liftO_next _ _ _ _ h; exact Nat.le_refl _
  | .readU8 b f, s, s', h => by
    simp only [runUStmt] at h; obtain ⟨a, _, rfl⟩ := liftO_next _ _ _ _ h; exact Nat.le_refl _
  | .readBytes b f n, s, s', h => by
    simp only [runUStmt] at h
    split at h
    · obtain ⟨a, _, rfl⟩ := liftO_next _ _ _ _ h; exact Nat.le_refl _
    · cases h
  | .readRest b f, s, s', h => by
    simp only [runUStmt] at h; obtain ⟨a, _, rfl⟩ := liftO_next _ _ _ _ h; exact Nat.le_refl _
  | .readArr b f n, s, s', h => by
    simp only [runUStmt] at h; obtain ⟨a, _, rfl⟩ := liftO_next _ _ _ _ h; exact Nat.le_refl _
  | .readSub b f typ win whole checked stores, s, s', h => by
    simp only [runUStmt] at h
    split at h
    · split at h
      · cases h; exact Nat.le_refl _
      · split at h
        · cases h
        · split at h <;> cases h <;> exact Nat.le_refl _
      · cases h
    · cases h
    · cases h
  | .advance e, s, s', h => by
    simp only [runUStmt] at h; split at h <;> cases h; exact Nat.le_refl _
  | .advanceRead, s, s', h => by simp only [runUStmt] at h; cases h; exact Nat.le_refl _
  | .setPad e, s, s', h => by
    simp only [runUStmt] at h; split at h <;> cases h; exact Nat.le_refl _
  | .padRoundUp, s, s', h => by simp only [runUStmt] at h; cases h; exact Nat.le_refl _
  | .padIfPOdd, s, s', h => by simp only [runUStmt] at h; cases h; exact Nat.le_refl _
  | .resliceD, s, s', h => by
    simp only [runUStmt] at h
    obtain ⟨a, ha, rfl⟩ := liftO_next _ _ _ _ h
    obtain ⟨hl, _⟩ := sliceFrom_length ha
    simp only [UState.cap]; omega
  | .ifWordCount k body, s, s', h => by
    simp only [runUStmt] at h
    split at h
    · exact caps_next C body s s' h
    · cases h; exact Nat.le_refl _
  | .clear f, s, s', h => by simp only [runUStmt] at h; cases h; exact Nat.le_refl _
  | .zeroInt f, s, s', h => by simp only [runUStmt] at h; cases h; exact Nat.le_refl _
  | .zeroInts f n, s, s', h => by simp only [runUStmt] at h; cases h; exact Nat.le_refl _
  | .makeInts f g, s, s', h => by
    simp only [runUStmt] at h; split at h <;> cases h; exact Nat.le_refl _
  | .forCountInt b w e f g, s, s', h => by
    simp only [runUStmt] at h
    split at h
    · split at h <;> cases h; exact Nat.le_refl _
    · cases h
  | .forRangeInt b w e f, s, s', h => by
    simp only [runUStmt] at h
    split at h
    · split at h <;> cases h; exact Nat.le_refl _
    · cases h
  | .forCountSub b f g typ size, s, s', h => by
    simp only [runUStmt] at h
    split at h
    · split at h <;> cases h; exact Nat.le_refl _
    · cases h
  | .whileFitsSub b f typ size, s, s', h => by
    simp only [runUStmt] at h
    split at h
    · split at h <;> cases h; exact Nat.le_refl _
    · cases h
  | .cstrUnicode f, s, s', h => by simp only [runUStmt] at h; cases h; exact Nat.le_refl _
  | .readArr3 b f, s, s', h => by
    simp only [runUStmt] at h; split at h <;> cases h; exact Nat.le_refl _
  | .readAndX, s, s', h => by
    simp only [runUStmt] at h; split at h <;> cases h; exact Nat.le_refl _
  | .resliceP n, s, s', h => by
    simp only [runUStmt] at h
    obtain ⟨a, ha, rfl⟩ := liftO_next _ _ _ _ h
    obtain ⟨hl, _⟩ := sliceFrom_length ha
    simp only [UState.cap]; omega
theorem caps_next (C : Codecs) : ∀ (l : List UStmt) (s s' : UState), runUStmts C s l = .next s' → s'.cap ≤ s.cap
  | [], s, s', h => by simp only [runUStmts] at h; cases h; exact Nat.le_refl _
  | st :: rest, s, s', h => by
    simp only [runUStmts] at h
    split at h
    · rename_i s1 h1
      exact Nat.le_trans (caps_next C rest s1 s' h) (cap_next C st s s1 h1)
    all_goals cases h
end

/-- `GetNullTerminatedUnicodeString` collects no more than it scans -/
theorem cstrUnicodeAux_length (d : Bytes) : ∀ (fuel i : Nat) (acc : Bytes), acc.length ≤ i →
    (cstrUnicodeAux fuel d i acc).length ≤ max acc.length d.length
  | 0, i, acc, _ => by simp only [cstrUnicodeAux]; omega
  | n+1, i, acc, h => by
    simp only [cstrUnicodeAux]
    split
    · rename_i a b ha hb
      split
      · omega
      · have hlt : i + 1 < d.length := by
          have := (List.getElem?_eq_some_iff.mp hb).1; exact this
        have ih := cstrUnicodeAux_length d n (i + 2) (acc ++ [a, b]) (by simp; omega)
        simp only [List.length_append, List.length_cons, List.length_nil] at ih
        omega
    · omega

theorem cstrUnicode_length_le (d : Bytes) : (cstrUnicode d).1.length ≤ d.length := by
  unfold cstrUnicode
  have := cstrUnicodeAux_length d (d.length + 1) 0 [] (Nat.le_refl 0)
  simpa using this

/-! ## the bound -/

mutual
theorem allocStmt_le (C : Codecs) (hC : HonestCodecs C) (A : String → Bytes → Nat) (a0 : Nat) (hA : AllocCodecs C A a0)
    (L : Nat) : ∀ (st : UStmt) (prev : Option (Blk × Expr)) (s : UState), allocOKStmt prev st = true →
      PrevOK prev s → s.cap ≤ L → allocStmt C A s st ≤ slopeStmt a0 st * L + constStmt a0 st
  | .retIfEmpty p d, prev, s, _, _, _ => by simp [allocStmt]
  | .resetOffset, prev, s, _, _, _ => by simp [allocStmt]
  | .guard b e, prev, s, _, _, _ => by simp [allocStmt]
  | .readInt b w e f, prev, s, _, _, _ => by simp [allocStmt, constStmt]
  | .readQuad b w e f, prev, s, _, _, _ => by simp [allocStmt, constStmt]
  | .readU8 b f, prev, s, _, _, _ => by simp [allocStmt, constStmt]
  | .readBytes b f n, prev, s, _, _, hL => by
    simp only [allocStmt, slopeStmt, constStmt]
    split
    · split
      · rename_i bs hs
        obtain ⟨hl, _, hhi⟩ := sliceC_length hs
        have := blk_ext_le_cap s b
        omega
      · omega
    · omega
  | .readRest b f, prev, s, _, _, hL => by
    simp only [allocStmt, slopeStmt, constStmt]
    split
    · rename_i bs hs
      obtain ⟨hl, _⟩ := sliceFrom_length hs
      have := blk_le_cap s b
      omega
    · omega
  | .readArr b f n, prev, s, _, _, _ => by simp [allocStmt, constStmt]
  | .readSub b f typ win whole checked stores, prev, s, _, _, hL => by
    simp only [allocStmt, slopeStmt, constStmt]
    split
    · rename_i w hw
      have hwl : w.length ≤ s.cap := by
        split at hw
        · cases hw; exact blk_le_cap s b
        · split at hw
          · obtain ⟨hl, _, hhi⟩ := sliceC_length hw
            have := blk_ext_le_cap s b; omega
          · obtain ⟨hl, _⟩ := sliceFrom_length hw
            have := blk_le_cap s b; omega
      have := hA.alloc_le typ w
      omega
    · omega
  | .advance e, prev, s, _, _, _ => by simp [allocStmt]
  | .advanceRead, prev, s, _, _, _ => by simp [allocStmt]
  | .setPad e, prev, s, _, _, _ => by simp [allocStmt]
  | .padRoundUp, prev, s, _, _, _ => by simp [allocStmt]
  | .padIfPOdd, prev, s, _, _, _ => by simp [allocStmt]
  | .resliceD, prev, s, _, _, _ => by simp [allocStmt]
  | .ifWordCount k body, prev, s, hok, _, hL => by
    simp only [allocOKStmt] at hok
    simp only [allocStmt, slopeStmt, constStmt]
    split
    · exact allocStmts_le C hC A a0 hA L body none s hok (PrevOK.none s) hL
    · omega
  | .clear f, prev, s, _, _, _ => by simp [allocStmt]
  | .zeroInt f, prev, s, _, _, _ => by simp [allocStmt, constStmt]
  | .zeroInts f n, prev, s, _, _, _ => by simp [allocStmt, constStmt]
  | .makeInts f g, prev, s, hok, hprev, hL => by
    simp only [allocOKStmt] at hok
    simp only [allocStmt, slopeStmt, constStmt]
    split at hok
    · rename_i b w g'
      simp only [Bool.and_eq_true, decide_eq_true_eq, beq_iff_eq] at hok
      obtain ⟨hw, hg⟩ := hok
      subst hg
      obtain ⟨n, hn, hle⟩ := hprev b _ rfl
      split
      · rename_i k hk
        simp only [evalExpr, hk] at hn
        have hn' : w * k = n := by simpa using hn
        have hkn : k ≤ w * k := Nat.le_mul_of_pos_left k hw
        have := blk_le_cap s b
        omega
      · omega
    · cases hok
  | .forCountInt b w e f g, prev, s, hok, _, hL => by
    simp only [allocOKStmt, decide_eq_true_eq] at hok
    simp only [allocStmt, slopeStmt, constStmt]
    split
    · rename_i k hk
      split
      · rename_i xs off' hr
        obtain ⟨hl, hb⟩ := readInts_ok _ _ w e k s.offset [] xs off' hr
        simp only [List.length_nil, Nat.zero_add] at hl
        cases k with
        | zero => omega
        | succ m =>
          have h1 := hb (Nat.succ_pos m)
          have h2 : m + 1 ≤ (m + 1) * w := Nat.le_mul_of_pos_right _ hok
          have := blk_ext_le_cap s b
          omega
      · omega
    · omega
  | .forRangeInt b w e f, prev, s, _, _, _ => by simp [allocStmt]
  | .forCountSub b f g typ size, prev, s, hok, _, hL => by
    simp only [allocOKStmt, decide_eq_true_eq] at hok
    simp only [allocStmt, slopeStmt, constStmt]
    split
    · rename_i k old hk hf
      have h1 := allocSubsCounted_le C hC A a0 hA typ (s.blk b) (s.ext b) size hok k s.offset
      have h2 : ((s.blk b).length - s.offset) * (size + a0) ≤ L * (size + a0) :=
        Nat.mul_le_mul_right _ (by have := blk_le_cap s b; omega)
      rw [Nat.mul_comm L] at h2
      omega
    · omega
  | .whileFitsSub b f typ size, prev, s, hok, _, hL => by
    simp only [allocOKStmt, decide_eq_true_eq] at hok
    simp only [allocStmt, slopeStmt, constStmt]
    split
    · have h1 := allocSubsWhile_le C hC A a0 hA typ (s.blk b) (s.ext b) size hok ((s.blk b).length + 1) s.offset
      have h2 : ((s.blk b).length - s.offset) * (size + a0) ≤ L * (size + a0) :=
        Nat.mul_le_mul_right _ (by have := blk_le_cap s b; omega)
      rw [Nat.mul_comm L] at h2
      omega
    · omega
  | .cstrUnicode f, prev, s, _, _, hL => by
    simp only [allocStmt, slopeStmt, constStmt]
    have h1 : (cstrUnicode s.D).1.length ≤ s.D.length := cstrUnicode_length_le s.D
    have : s.D.length ≤ s.cap := blk_le_cap s .D
    omega
  | .readArr3 b f, prev, s, _, _, _ => by simp [allocStmt, constStmt]
  | .readAndX, prev, s, _, _, _ => by simp [allocStmt, constStmt]
  | .resliceP n, prev, s, _, _, _ => by simp [allocStmt]
theorem allocStmts_le (C : Codecs) (hC : HonestCodecs C) (A : String → Bytes → Nat) (a0 : Nat) (hA : AllocCodecs C A a0)
    (L : Nat) : ∀ (l : List UStmt) (prev : Option (Blk × Expr)) (s : UState), allocOKStmts prev l = true →
      PrevOK prev s → s.cap ≤ L → allocStmts C A s l ≤ slopeStmts a0 l * L + constStmts a0 l
  | [], prev, s, _, _, _ => by simp [allocStmts]
  | st :: rest, prev, s, hok, hprev, hL => by
    simp only [allocOKStmts, Bool.and_eq_true] at hok
    have h1 := allocStmt_le C hC A a0 hA L st prev s hok.1 hprev hL
    simp only [allocStmts, slopeStmts, constStmts]
    rw [Nat.add_mul]
    cases hr : runUStmt C s st with
    | next s' =>
      have h2 := allocStmts_le C hC A a0 hA L rest _ s' hok.2 (prevOK_next C s s' st hr)
        (Nat.le_trans (cap_next C st s s' hr) hL)
      simp only []
      omega
    | ret => simp only []; omega
    | err => simp only []; omega
    | panic => simp only []; omega
    | stuck => simp only []; omega
end

/-! ## the returned value is no bigger than what the run paid for -/

private theorem set_value (env : Env) (f : String) (v : Val) (a : Nat) (hv : v.size ≤ a) (hn : KeysNodup env) :
    KeysNodup (env.set f v) ∧ envSize (env.set f v) ≤ envSize env + a :=
  ⟨keysNodup_set env f v hn, Nat.le_trans (envSize_set_le env f v hn) (by omega)⟩

private theorem replace_value (env : Env) (f : String) (v old : Val) (a : Nat) (hg : env.get f = some old)
    (hv : v.size ≤ old.size + a) (hn : KeysNodup env) :
    KeysNodup (env.set f v) ∧ envSize (env.set f v) ≤ envSize env + a := by
  refine ⟨keysNodup_set env f v hn, ?_⟩
  have := envSize_set_eq env f v old hn hg
  omega

mutual
theorem value_next (C : Codecs) (A : String → Bytes → Nat) (a0 : Nat) (hA : AllocCodecs C A a0) :
    ∀ (st : UStmt) (s s' : UState), runUStmt C s st = .next s' → KeysNodup s.env →
      KeysNodup s'.env ∧ envSize s'.env ≤ envSize s.env + allocStmt C A s st
  | .retIfEmpty p d, s, s', h, hn => by
    simp only [runUStmt] at h; split at h <;> cases h; exact ⟨hn, Nat.le_add_right _ _⟩
  | .resetOffset, s, s', h, hn => by simp only [runUStmt] at h; cases h; exact ⟨hn, Nat.le_add_right _ _⟩
  | .guard b e, s, s', h, hn => by
    simp only [runUStmt] at h
    split at h
    · split at h <;> cases h; exact ⟨hn, Nat.le_add_right _ _⟩
    · cases h
  | .readInt b w e f, s, s', h, hn => by
    simp only [runUStmt] at h; obtain ⟨a, _, rfl⟩ := liftO_next _ _ _ _ h
    simp only [allocStmt]; exact set_value _ _ _ _ (by simp [Val.size]) hn
  | .readQuad b w e f, s, s', h, hn => by
    simp only [runUStmt] at h; obtain ⟨a, _, rfl⟩ := liftO_next _ _ _ _ h
    simp only [allocStmt]; exact set_value _ _ _ _ (by simp [Val.size]) hn
  | .readU8 b f, s, s', h, hn => by
    simp only [runUStmt] at h; obtain ⟨a, _, rfl⟩ := liftO_next _ _ _ _ h
    simp only [allocStmt]; exact set_value _ _ _ _ (by simp [Val.size]) hn
  | .readBytes b f n, s, s', h, hn => by
    simp only [runUStmt] at h
    split at h
    · rename_i k hk
      obtain ⟨a, ha, rfl⟩ := liftO_next _ _ _ _ h
      simp only [allocStmt, hk, ha]; exact set_value _ _ _ _ (by simp [Val.size]) hn
    · cases h
  | .readRest b f, s, s', h, hn => by
    simp only [runUStmt] at h; obtain ⟨a, ha, rfl⟩ := liftO_next _ _ _ _ h
    simp only [allocStmt, ha]; exact set_value _ _ _ _ (by simp [Val.size]) hn
  | .readArr b f n, s, s', h, hn => by
    simp only [runUStmt] at h; obtain ⟨a, ha, rfl⟩ := liftO_next _ _ _ _ h
    obtain ⟨hl, _, _⟩ := sliceC_length ha
    simp only [allocStmt]; exact set_value _ _ _ _ (by simp only [Val.size]; omega) hn
  | .readSub b f typ win whole checked stores, s, s', h, hn => by
    have key : ∀ (wo : Outcome Bytes),
        (match wo with
          | .ok w => (match C.dec typ w with
            | .ok (v, k) => Step.next { s with env := s.env.set f (.t v), bytesRead := if stores then k else s.bytesRead }
            | .err =>
              if checked then Step.err else
              match s.env.get f with
              | some (.t old) => Step.next { s with env := s.env.set f (.t (C.decFail typ w old)) }
              | _ => Step.next s
            | .panic => Step.panic)
          | .err => Step.err
          | .panic => Step.panic) = Step.next s' →
        KeysNodup s'.env ∧ envSize s'.env ≤ envSize s.env + (match wo with | .ok w => A typ w | _ => 0) := by
      intro wo h
      split at h
      · rename_i w
        simp only []
        split at h
        · rename_i v k hd
          cases h
          exact set_value _ _ _ _ (by simp only [Val.size]; exact hA.value_le typ w v k hd) hn
        · split at h
          · cases h
          · split at h
            · rename_i old hg
              cases h
              exact replace_value _ _ _ _ _ hg (by simp only [Val.size]; exact hA.fail_le typ w old) hn
            · cases h; exact ⟨hn, Nat.le_add_right _ _⟩
        · cases h
      · cases h
      · cases h
    simp only [runUStmt] at h
    simp only [allocStmt]
    cases whole
    · cases win
      · exact key _ h
      · exact key _ h
    · exact key (.ok (s.blk b)) h
  | .advance e, s, s', h, hn => by
    simp only [runUStmt] at h; split at h <;> cases h; exact ⟨hn, Nat.le_add_right _ _⟩
  | .advanceRead, s, s', h, hn => by simp only [runUStmt] at h; cases h; exact ⟨hn, Nat.le_add_right _ _⟩
  | .setPad e, s, s', h, hn => by
    simp only [runUStmt] at h; split at h <;> cases h; exact ⟨hn, Nat.le_add_right _ _⟩
  | .padRoundUp, s, s', h, hn => by simp only [runUStmt] at h; cases h; exact ⟨hn, Nat.le_add_right _ _⟩
  | .padIfPOdd, s, s', h, hn => by simp only [runUStmt] at h; cases h; exact ⟨hn, Nat.le_add_right _ _⟩
  | .resliceD, s, s', h, hn => by
    simp only [runUStmt] at h; obtain ⟨a, _, rfl⟩ := liftO_next _ _ _ _ h; exact ⟨hn, Nat.le_add_right _ _⟩
  | .ifWordCount k body, s, s', h, hn => by
    simp only [runUStmt] at h
    simp only [allocStmt]
    split at h
    · rename_i hk
      rw [if_pos hk]; exact values_next C A a0 hA body s s' h hn
    · cases h; exact ⟨hn, Nat.le_add_right _ _⟩
  | .clear f, s, s', h, hn => by
    simp only [runUStmt] at h; cases h
    simp only [allocStmt]; exact set_value _ _ _ _ (by simp [Val.size]) hn
  | .zeroInt f, s, s', h, hn => by
    simp only [runUStmt] at h; cases h
    simp only [allocStmt]; exact set_value _ _ _ _ (by simp [Val.size]) hn
  | .zeroInts f n, s, s', h, hn => by
    simp only [runUStmt] at h; cases h
    simp only [allocStmt]; exact set_value _ _ _ _ (by simp [Val.size]) hn
  | .makeInts f g, s, s', h, hn => by
    simp only [runUStmt] at h
    split at h
    · rename_i k hk
      cases h
      simp only [allocStmt, hk]; exact set_value _ _ _ _ (by simp [Val.size]) hn
    · cases h
  | .forCountInt b w e f g, s, s', h, hn => by
    simp only [runUStmt] at h
    split at h
    · rename_i k hk
      split at h
      · rename_i xs off hr
        cases h
        simp only [allocStmt, hk, hr]; exact set_value _ _ _ _ (by simp [Val.size]) hn
      · cases h
      · cases h
    · cases h
  | .forRangeInt b w e f, s, s', h, hn => by
    simp only [runUStmt] at h
    split at h
    · rename_i old hf
      split at h
      · rename_i xs off hr
        cases h
        obtain ⟨hl, _⟩ := readInts_ok _ _ w e old.length s.offset [] xs off hr
        simp only [allocStmt]
        exact replace_value _ _ _ _ _ hf (by simp only [Val.size, hl]; simp) hn
      · cases h
      · cases h
    · cases h
  | .forCountSub b f g typ size, s, s', h, hn => by
    simp only [runUStmt] at h
    split at h
    · rename_i k old hk hf
      split at h
      · rename_i vs off hr
        cases h
        have := readSubsCounted_value C A a0 hA typ (s.blk b) (s.ext b) size k s.offset old vs off hr
        simp only [allocStmt, hk, hf]
        exact replace_value _ _ _ _ _ hf (by simp only [Val.size]; exact this) hn
      · cases h
      · cases h
    · cases h
  | .whileFitsSub b f typ size, s, s', h, hn => by
    simp only [runUStmt] at h
    split at h
    · rename_i old hf
      split at h
      · rename_i vs off hr
        cases h
        have := readSubsWhile_value C A a0 hA typ (s.blk b) (s.ext b) size _ s.offset old vs off hr
        simp only [allocStmt, hf]
        exact replace_value _ _ _ _ _ hf (by simp only [Val.size]; exact this) hn
      · cases h
      · cases h
    · cases h
  | .cstrUnicode f, s, s', h, hn => by
    simp only [runUStmt] at h; cases h
    simp only [allocStmt]; exact set_value _ _ _ _ (by simp [Val.size]) hn
  | .readArr3 b f, s, s', h, hn => by
    simp only [runUStmt] at h
    split at h
    · cases h
      simp only [allocStmt]; exact set_value _ _ _ _ (by simp [Val.size]) hn
    · cases h
  | .readAndX, s, s', h, hn => by
    simp only [runUStmt] at h
    split at h
    · cases h
      simp only [allocStmt]; exact set_value _ _ _ _ (by simp [Val.size, andxVal]) hn
    · cases h
  | .resliceP n, s, s', h, hn => by
    simp only [runUStmt] at h; obtain ⟨a, _, rfl⟩ := liftO_next _ _ _ _ h; exact ⟨hn, Nat.le_add_right _ _⟩
theorem values_next (C : Codecs) (A : String → Bytes → Nat) (a0 : Nat) (hA : AllocCodecs C A a0) :
    ∀ (l : List UStmt) (s s' : UState), runUStmts C s l = .next s' → KeysNodup s.env →
      KeysNodup s'.env ∧ envSize s'.env ≤ envSize s.env + allocStmts C A s l
  | [], s, s', h, hn => by simp only [runUStmts] at h; cases h; exact ⟨hn, Nat.le_add_right _ _⟩
  | st :: rest, s, s', h, hn => by
    simp only [runUStmts] at h
    split at h
    · rename_i s1 h1
      obtain ⟨hn1, hs1⟩ := value_next C A a0 hA st s s1 h1 hn
      obtain ⟨hn2, hs2⟩ := values_next C A a0 hA rest s1 s' h hn1
      simp only [allocStmts, h1]
      exact ⟨hn2, by omega⟩
    all_goals cases h
end

/-- the driver loop of `runU` (which also returns the values assigned before an early `return`) -/
theorem runU_go_value (C : Codecs) (A : String → Bytes → Nat) (a0 : Nat) (hA : AllocCodecs C A a0) :
    ∀ (l : List UStmt) (s : UState) (env : Env), runU.go C s l = .ok env → KeysNodup s.env →
      envSize env ≤ envSize s.env + allocStmts C A s l
  | [], s, env, h, hn => by simp only [runU.go, Outcome.ok.injEq] at h; subst h; exact Nat.le_add_right _ _
  | st :: rest, s, env, h, hn => by
    simp only [runU.go] at h
    simp only [allocStmts]
    split at h
    · rename_i s1 h1
      obtain ⟨hn1, hs1⟩ := value_next C A a0 hA st s s1 h1 hn
      have := runU_go_value C A a0 hA rest s1 env h hn1
      simp only [h1]; omega
    · simp only [Outcome.ok.injEq] at h; subst h; omega
    all_goals cases h

/-- **value ≤ cost**: what `runU` returns is no bigger than the initial values plus what the run allocated -/
theorem runU_value_le (C : Codecs) (A : String → Bytes → Nat) (a0 : Nat) (hA : AllocCodecs C A a0) (c : Cmd)
    (env0 env : Env) (wc : Nat) (P D Pext Dext : Bytes) (hn : KeysNodup env0)
    (h : runU C c env0 wc P D Pext Dext = .ok env) :
    envSize env ≤ envSize env0 + allocU C A c env0 wc P D Pext Dext := by
  unfold runU at h
  unfold allocU
  exact runU_go_value C A a0 hA c.unmarshal _ env h hn

/-- **cost ≤ slope · reach + constant** for a program accepted by `AllocGuarded` -/
theorem allocU_le (C : Codecs) (hC : HonestCodecs C) (A : String → Bytes → Nat) (a0 : Nat) (hA : AllocCodecs C A a0)
    (c : Cmd) (hg : AllocGuarded c = true) (env0 : Env) (wc : Nat) (P D Pext Dext : Bytes) :
    allocU C A c env0 wc P D Pext Dext
      ≤ slopeStmts a0 c.unmarshal * (P.length + Pext.length + D.length + Dext.length) + constStmts a0 c.unmarshal := by
  unfold allocU
  exact allocStmts_le C hC A a0 hA _ c.unmarshal none _ hg (PrevOK.none _) (Nat.le_refl _)

/-! ## the envelope -/

theorem streamCap_le (n : Nat) : streamCap n ≤ 512 := by
  unfold streamCap; repeat' split
  all_goals omega

theorem splitParams_ok (data : Bytes) (wc : Nat) (P rest : Bytes) (h : splitParams data = .ok (wc, P, rest)) :
    wc ≤ 255 ∧ P.length ≤ 510 ∧ rest.length ≤ data.length := by
  unfold splitParams at h
  split at h
  · cases h
  · rename_i b rest'
    have hb : b.toNat ≤ 255 := by have := b.toNat_lt; omega
    split at h
    · split at h
      · cases h
      · simp only [Outcome.ok.injEq, Prod.mk.injEq] at h
        obtain ⟨h1, h2, h3⟩ := h
        subst h1 h2 h3
        simp only [List.length_take, List.length_drop, List.length_cons]
        omega
    · simp only [Outcome.ok.injEq, Prod.mk.injEq] at h
      obtain ⟨h1, h2, h3⟩ := h
      subst h1 h2 h3
      simp

theorem splitData_ok (r D Dext : Bytes) (h : splitData r = .ok (D, Dext)) : D.length + Dext.length ≤ r.length := by
  unfold splitData at h
  split at h
  · cases h
  · cases h
  · simp only at h
    split at h
    · split at h
      · cases h
      · simp only [Outcome.ok.injEq, Prod.mk.injEq] at h
        obtain ⟨h1, h2⟩ := h
        subst h1 h2
        simp only [List.length_take, List.length_drop, List.length_cons]
        omega
    · simp only [Outcome.ok.injEq, Prod.mk.injEq] at h
      obtain ⟨h1, h2⟩ := h
      subst h1 h2
      simp

/-- **cost of `decodeCmd`**: linear in the input, with the two constants read off the program -/
theorem allocCmd_le (C : Codecs) (hC : HonestCodecs C) (A : String → Bytes → Nat) (a0 : Nat) (hA : AllocCodecs C A a0)
    (c : Cmd) (hg : AllocGuarded c = true) (env0 : Env) (data : Bytes) :
    allocCmd C A c env0 data ≤ c.allocSlope a0 * data.length + c.allocConst a0 := by
  unfold allocCmd Cmd.allocSlope Cmd.allocConst
  split
  · rename_i wc P rest hp
    obtain ⟨hwc, hP, hrest⟩ := splitParams_ok data wc P rest hp
    have hcap := streamCap_le P.length
    split
    · rename_i D Dext hd
      have hD := splitData_ok rest D Dext hd
      have h := allocU_le C hC A a0 hA c hg env0 wc P D (List.replicate (streamCap P.length - P.length) 0) Dext
      simp only [List.length_replicate] at h
      have hL : P.length + (streamCap P.length - P.length) + D.length + Dext.length ≤ 512 + data.length := by omega
      have h2 := Nat.mul_le_mul_left (slopeStmts a0 c.unmarshal) hL
      have h3 : slopeStmts a0 c.unmarshal * (512 + data.length)
          = 512 * slopeStmts a0 c.unmarshal + slopeStmts a0 c.unmarshal * data.length := by
        rw [Nat.mul_add, Nat.mul_comm _ 512]
      omega
    · omega
  · omega

/-- **value of `decodeCmd`**: no bigger than the initial values plus the cost -/
theorem decodeCmd_value_le (C : Codecs) (A : String → Bytes → Nat) (a0 : Nat) (hA : AllocCodecs C A a0)
    (c : Cmd) (env0 env : Env) (data : Bytes) (hn : KeysNodup env0) (h : decodeCmd C c env0 data = .ok env) :
    envSize env ≤ envSize env0 + allocCmd C A c env0 data := by
  unfold decodeCmd at h
  unfold allocCmd
  split at h
  · rename_i wc P rest hp
    simp only [hp]
    split at h
    · rename_i D Dext hd
      have := runU_value_le C A a0 hA c env0 env wc P D _ Dext hn h
      simp only [hd]; omega
    · cases h
    · cases h
  · cases h
  · cases h

end Manticore.SmbIR
