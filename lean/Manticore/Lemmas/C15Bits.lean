/-
  Bit-level lemmas for the FILETIME halves (C15).
-/
import Manticore.Lemmas.C15Int
import Manticore.Lemmas.Bits
namespace Manticore.C15
open Manticore

/-- the two halves reassemble to the value they were split from -/
theorem toInt64_split (v : Int64) : filetimeToInt64 (filetimeSplit v).1 (filetimeSplit v).2 = v := by
  apply Int64.toBitVec.inj
  simp only [filetimeToInt64, filetimeSplit, Int64.toBitVec_or, Int64.toBitVec_shiftLeft, Int64.toBitVec_and,
    Int64.toBitVec_shiftRight, UInt64.toBitVec_toInt64, UInt32.toBitVec_toUInt64, UInt64.toBitVec_toUInt32,
    Int64.toBitVec_toUInt64]
  apply BitVec.eq_of_getLsbD_eq
  intro i hi
  rcases cases_lt_64 i hi with h | h | h | h | h | h | h | h | h | h | h | h | h | h | h | h | h | h | h | h | h | h | h | h | h | h | h | h | h | h | h | h | h | h | h | h | h | h | h | h | h | h | h | h | h | h | h | h | h | h | h | h | h | h | h | h | h | h | h | h | h | h | h | h <;> subst h <;> simp [BitVec.getElem_sshiftRight]

theorem split_toInt64 (lo hi : UInt32) : filetimeSplit (filetimeToInt64 lo hi) = (lo, hi) := by
  unfold filetimeSplit
  congr 1
  · apply UInt32.eq_of_toBitVec_eq
    simp only [filetimeToInt64, Int64.toBitVec_or, Int64.toBitVec_shiftLeft, Int64.toBitVec_and,
      UInt64.toBitVec_toInt64, UInt32.toBitVec_toUInt64, UInt64.toBitVec_toUInt32, Int64.toBitVec_toUInt64]
    bv_bits32
  · apply UInt32.eq_of_toBitVec_eq
    simp only [filetimeToInt64, Int64.toBitVec_or, Int64.toBitVec_shiftLeft, Int64.toBitVec_and, Int64.toBitVec_shiftRight,
      UInt64.toBitVec_toInt64, UInt32.toBitVec_toUInt64, UInt64.toBitVec_toUInt32, Int64.toBitVec_toUInt64]
    apply BitVec.eq_of_getLsbD_eq
    intro i hi
    rcases cases_lt_32 i hi with h | h | h | h | h | h | h | h | h | h | h | h | h | h | h | h | h | h | h | h | h | h | h | h | h | h | h | h | h | h | h | h <;> subst h <;> simp [BitVec.getElem_sshiftRight]
theorem or_eq_add_of_lt (a b k : Nat) (hb : b < 2^k) (ha : 2^k ∣ a) : a ||| b = a + b := by
  obtain ⟨q, rfl⟩ := ha
  rw [Nat.mul_comm, ← Nat.shiftLeft_eq]
  exact (Nat.shiftLeft_add_eq_or_of_lt hb q).symm

/-- `ToInt64` is the 64-bit pattern `hi·2³² + lo` (read as two's complement) -/
theorem toInt64_value (lo hi : UInt32) :
    (filetimeToInt64 lo hi).toUInt64.toNat = hi.toNat * 4294967296 + lo.toNat := by
  have hb : (filetimeToInt64 lo hi).toBitVec = (hi.toBitVec.setWidth 64 <<< 32) ||| lo.toBitVec.setWidth 64 := by
    simp only [filetimeToInt64, Int64.toBitVec_or, Int64.toBitVec_shiftLeft, Int64.toBitVec_and,
      UInt64.toBitVec_toInt64, UInt32.toBitVec_toUInt64]
    bv_bits64
  have : (filetimeToInt64 lo hi).toUInt64.toNat = (filetimeToInt64 lo hi).toBitVec.toNat := rfl
  rw [this, hb, BitVec.toNat_or, BitVec.toNat_shiftLeft, BitVec.toNat_setWidth, BitVec.toNat_setWidth,
    UInt32.toNat_toBitVec, UInt32.toNat_toBitVec]
  have h1 := lo.toNat_lt; have h2 := hi.toNat_lt
  simp only [Nat.reducePow] at *
  rw [Nat.mod_eq_of_lt (by omega), Nat.mod_eq_of_lt (by omega), Nat.shiftLeft_eq, Nat.mod_eq_of_lt (by omega)]
  simp only [Nat.reducePow]
  exact or_eq_add_of_lt _ _ 32 (by simpa using h1) (by simp only [Nat.reducePow]; omega)
end Manticore.C15
