/-
  Go string ↔ code points: `[]rune` of an RFC 3629 encoding gives the scalar values back;
  the library's `EncodeUTF16LE` of it is RFC 2781 UTF-16LE; the RFC 2781 decoder inverts it.
-/
import Manticore.Model.C01
namespace Manticore.C01
open Spec

theorem utf8Of_length_pos (c : Nat) : 0 < (utf8Of c).length := by
  unfold utf8Of; repeat' split
  all_goals simp

private theorem b8 (n : Nat) : (UInt8.ofNat n).toNat = n % 256 := by simp

/-- decoding the encoding of one scalar value (followed by anything) returns it and its width -/
theorem decodeRune_utf8Of (c : Nat) (hc : IsScalar c) (rest : Bytes) :
    decodeRune (utf8Of c ++ rest) = (c, (utf8Of c).length) := by
  unfold IsScalar at hc
  unfold utf8Of
  split
  · -- one byte
    rename_i h1
    simp only [decodeRune, List.cons_append, List.nil_append, List.length_cons, List.getD_cons_zero, b8]
    rw [if_neg (by omega), if_pos (by omega)]
    simp; omega
  · split
    · -- two bytes
      rename_i h1 h2
      have hl : leadInfo ((0xC0 + c / 64) % 256) = some (2, 0x80, 0xBF) := by
        unfold leadInfo; rw [if_pos (by omega)]
      simp only [decodeRune, List.cons_append, List.nil_append, List.length_cons, List.getD_cons_zero,
        List.getD_cons_succ, b8, hl]
      rw [if_neg (by omega), if_neg (by omega), if_neg (by omega), if_neg (by omega), if_pos (by omega)]
      simp; omega
    · split
      · -- three bytes
        rename_i h1 h2 h3
        have hcont : isCont ((0x80 + c % 64) % 256) = true := by
          unfold isCont; simp; omega
        by_cases hE0 : c / 4096 = 0
        · have hl : leadInfo ((0xE0 + c / 4096) % 256) = some (3, 0xA0, 0xBF) := by
            unfold leadInfo; rw [if_neg (by omega), if_pos (by omega)]
          simp only [decodeRune, List.cons_append, List.nil_append, List.length_cons, List.getD_cons_zero,
            List.getD_cons_succ, b8, hl, hcont]
          rw [if_neg (by omega), if_neg (by omega), if_neg (by omega), if_neg (by omega), if_neg (by omega)]
          simp; omega
        · by_cases hED : c / 4096 = 13
          · have hl : leadInfo ((0xE0 + c / 4096) % 256) = some (3, 0x80, 0x9F) := by
              unfold leadInfo; rw [if_neg (by omega), if_neg (by omega), if_pos (by omega)]
            simp only [decodeRune, List.cons_append, List.nil_append, List.length_cons, List.getD_cons_zero,
              List.getD_cons_succ, b8, hl, hcont]
            rw [if_neg (by omega), if_neg (by omega), if_neg (by omega), if_neg (by omega), if_neg (by omega)]
            simp; omega
          · have hl : leadInfo ((0xE0 + c / 4096) % 256) = some (3, 0x80, 0xBF) := by
              unfold leadInfo
              rw [if_neg (by omega), if_neg (by omega), if_neg (by omega), if_pos (by omega)]
            simp only [decodeRune, List.cons_append, List.nil_append, List.length_cons, List.getD_cons_zero,
              List.getD_cons_succ, b8, hl, hcont]
            rw [if_neg (by omega), if_neg (by omega), if_neg (by omega), if_neg (by omega), if_neg (by omega)]
            simp; omega
      · -- four bytes
        rename_i h1 h2 h3
        have hcont : isCont ((0x80 + c % 64) % 256) = true := by
          unfold isCont; simp; omega
        have hcont2 : isCont ((0x80 + c / 64 % 64) % 256) = true := by
          unfold isCont; simp; omega
        by_cases hF0 : c / 262144 = 0
        · have hl : leadInfo ((0xF0 + c / 262144) % 256) = some (4, 0x90, 0xBF) := by
            unfold leadInfo
            rw [if_neg (by omega), if_neg (by omega), if_neg (by omega), if_neg (by omega), if_pos (by omega)]
          simp only [decodeRune, List.cons_append, List.nil_append, List.length_cons, List.getD_cons_zero,
            List.getD_cons_succ, b8, hl, hcont, hcont2]
          rw [if_neg (by omega), if_neg (by omega), if_neg (by omega), if_neg (by omega), if_neg (by omega)]
          simp; omega
        · by_cases hF4 : c / 262144 = 4
          · have hl : leadInfo ((0xF0 + c / 262144) % 256) = some (4, 0x80, 0x8F) := by
              unfold leadInfo
              rw [if_neg (by omega), if_neg (by omega), if_neg (by omega), if_neg (by omega), if_neg (by omega),
                if_pos (by omega)]
            simp only [decodeRune, List.cons_append, List.nil_append, List.length_cons, List.getD_cons_zero,
              List.getD_cons_succ, b8, hl, hcont, hcont2]
            rw [if_neg (by omega), if_neg (by omega), if_neg (by omega), if_neg (by omega), if_neg (by omega)]
            simp; omega
          · have hl : leadInfo ((0xF0 + c / 262144) % 256) = some (4, 0x80, 0xBF) := by
              unfold leadInfo
              rw [if_neg (by omega), if_neg (by omega), if_neg (by omega), if_neg (by omega), if_neg (by omega),
                if_neg (by omega), if_pos (by omega)]
            simp only [decodeRune, List.cons_append, List.nil_append, List.length_cons, List.getD_cons_zero,
              List.getD_cons_succ, b8, hl, hcont, hcont2]
            rw [if_neg (by omega), if_neg (by omega), if_neg (by omega), if_neg (by omega), if_neg (by omega)]
            simp; omega

theorem utf8_cons (c : Nat) (cs : List Nat) : utf8 (c :: cs) = utf8Of c ++ utf8 cs := by
  simp [utf8]

theorem runesFuel_utf8 (cs : List Nat) (hcs : ∀ c ∈ cs, IsScalar c) :
    ∀ fuel, (utf8 cs).length ≤ fuel → runesFuel fuel (utf8 cs) = cs := by
  induction cs with
  | nil => intro fuel _; cases fuel <;> simp [runesFuel, utf8]
  | cons c cs ih =>
    intro fuel hf
    have hpos := utf8Of_length_pos c
    rw [utf8_cons] at hf ⊢
    rw [List.length_append] at hf
    cases fuel with
    | zero => omega
    | succ fuel =>
      have hne : utf8Of c ++ utf8 cs ≠ [] := by
        intro h; have := congrArg List.length h; rw [List.length_append, List.length_nil] at this; omega
      rw [runesFuel, if_neg hne, decodeRune_utf8Of c (hcs c (by simp)) (utf8 cs)]
      simp only [List.drop_left]
      have hle : (utf8 cs).length ≤ fuel := by omega
      rw [ih (fun x hx => hcs x (by simp [hx])) fuel hle]

/-- **`[]rune(s)` inverts RFC 3629** on sequences of Unicode scalar values -/
theorem runes_utf8 (cs : List Nat) (hcs : ∀ c ∈ cs, IsScalar c) : runes (utf8 cs) = cs :=
  runesFuel_utf8 cs hcs _ (Nat.le_refl _)

private theorem b16lo (n : Nat) : (UInt16.ofNat n).toUInt8 = UInt8.ofNat (n % 65536 % 256) := by
  apply UInt8.toNat_inj.mp; simp

private theorem b16hi (n : Nat) : ((UInt16.ofNat n) >>> 8).toUInt8 = UInt8.ofNat (n % 65536 / 256) := by
  apply UInt8.toNat_inj.mp
  simp [Nat.shiftRight_eq_div_pow]

/-- the library's UTF-16LE of the runes of a scalar sequence is RFC 2781 UTF-16, low byte first -/
theorem utf16_units_bytes (cs : List Nat) (hcs : ∀ c ∈ cs, IsScalar c) :
    ((utf16Units cs).flatMap fun (r : UInt16) => [r.toUInt8, (r >>> 8).toUInt8]) = utf16le cs := by
  induction cs with
  | nil => rfl
  | cons c cs ih =>
    have hc := hcs c (by simp)
    unfold IsScalar at hc
    have ih' := ih (fun x hx => hcs x (by simp [hx]))
    simp only [utf16Units, utf16le, List.flatMap_cons, List.flatMap_append] at ih' ⊢
    rw [ih']
    congr 1
    unfold utf16Of
    by_cases h1 : c < 0x10000
    · rw [if_pos (by omega), if_pos h1]
      simp only [List.flatMap_cons, List.flatMap_nil, List.append_nil, b16lo, b16hi]
      simp only [List.cons.injEq, and_true]
      refine ⟨?_, ?_⟩ <;> apply congrArg UInt8.ofNat <;> omega
    · rw [if_neg (by omega), if_pos (by omega), if_neg h1]
      simp only [List.flatMap_cons, List.flatMap_nil, List.append_nil, b16lo, b16hi, List.cons_append, List.nil_append]
      simp only [List.cons.injEq, and_true]
      refine ⟨?_, ?_, ?_, ?_⟩ <;> apply congrArg UInt8.ofNat <;> omega

theorem encodeUTF16LE_utf8 (cs : List Nat) (hcs : ∀ c ∈ cs, IsScalar c) :
    encodeUTF16LE (utf8 cs) = utf16le cs := by
  unfold encodeUTF16LE
  rw [runes_utf8 cs hcs]
  exact utf16_units_bytes cs hcs

/-! ### RFC 2781 decoder inverts the encoder -/

theorem unitsOfLE_bytes (ws : List Nat) (h : ∀ w ∈ ws, w < 65536) :
    unitsOfLE (ws.flatMap fun w => [UInt8.ofNat (w % 256), UInt8.ofNat (w / 256)]) = ws := by
  induction ws with
  | nil => rfl
  | cons w ws ih =>
    have hw := h w (by simp)
    simp only [List.flatMap_cons, List.cons_append, List.nil_append, unitsOfLE, b8]
    rw [ih (fun x hx => h x (by simp [hx]))]
    simp only [List.cons.injEq, and_true]; omega

theorem utf16Of_lt (c : Nat) (hc : IsScalar c) : ∀ w ∈ utf16Of c, w < 65536 := by
  unfold IsScalar at hc
  unfold utf16Of
  split <;> simp <;> omega

theorem utf16Of_small (c : Nat) (h : c < 0x10000) : utf16Of c = [c] := by simp [utf16Of, h]
theorem utf16Of_large (c : Nat) (h : ¬ c < 0x10000) :
    utf16Of c = [0xD800 + (c - 0x10000) / 1024, 0xDC00 + (c - 0x10000) % 1024] := by simp [utf16Of, h]

theorem decodeUnits_utf16 (cs : List Nat) (hcs : ∀ c ∈ cs, IsScalar c) :
    decodeUnits (cs.flatMap utf16Of) = cs := by
  induction cs with
  | nil => rfl
  | cons c cs ih =>
    have hc := hcs c (by simp)
    unfold IsScalar at hc
    have ih' := ih (fun x hx => hcs x (by simp [hx]))
    rw [List.flatMap_cons]
    by_cases h1 : c < 0x10000
    · rw [utf16Of_small c h1]
      simp only [List.cons_append, List.nil_append]
      generalize cs.flatMap utf16Of = rest at ih' ⊢
      cases rest with
      | nil =>
        have : cs = [] := by simpa [decodeUnits] using ih'.symm
        subst this; simp [decodeUnits]
      | cons w2 r =>
        rw [decodeUnits, if_neg (by omega), ih']
    · rw [utf16Of_large c h1]
      simp only [List.cons_append, List.nil_append]
      rw [decodeUnits, if_pos (by omega), ih']
      simp only [List.cons.injEq, and_true]; omega

/-- RFC 2781 decoding of RFC 2781 UTF-16LE gives the scalar values back -/
theorem utf16leDecode_utf16le (cs : List Nat) (hcs : ∀ c ∈ cs, IsScalar c) :
    utf16leDecode (utf16le cs) = cs := by
  unfold utf16leDecode utf16le
  rw [unitsOfLE_bytes, decodeUnits_utf16 cs hcs]
  intro w hw
  obtain ⟨c, hc, hwc⟩ := List.mem_flatMap.mp hw
  exact utf16Of_lt c (hcs c hc) w hwc

/-! ### ASCII case mapping -/

theorem utf8_ascii (cs : List Nat) (h : ∀ c ∈ cs, c < 128) : utf8 cs = cs.map UInt8.ofNat := by
  induction cs with
  | nil => rfl
  | cons c cs ih =>
    have hc := h c (by simp)
    rw [utf8_cons, ih (fun x hx => h x (by simp [hx]))]
    simp [utf8Of, hc]

theorem isASCII_utf8 (cs : List Nat) (h : ∀ c ∈ cs, c < 128) : isASCII (utf8 cs) = true := by
  rw [utf8_ascii cs h]
  simp only [isASCII, List.all_map, List.all_eq_true]
  intro c hc
  have := h c hc
  simp [UInt8.lt_iff_toNat_lt]; omega

/-- on an ASCII user name Go's `strings.ToLower` is the byte-wise A–Z → a–z map, whatever the Unicode
    part would do -/
theorem goToLower_ascii (u : Bytes → Bytes) (cs : List Nat) (h : ∀ c ∈ cs, c < 128) :
    goToLower u (utf8 cs) = utf8 (cs.map lowerASCIIcp) := by
  have h' : ∀ c ∈ cs.map lowerASCIIcp, c < 128 := by
    intro c hc
    obtain ⟨d, hd, rfl⟩ := List.mem_map.mp hc
    have := h d hd
    unfold lowerASCIIcp; split <;> simp_all <;> omega
  unfold goToLower
  rw [isASCII_utf8 cs h, if_pos rfl, utf8_ascii cs h, utf8_ascii _ h', List.map_map, List.map_map]
  apply List.map_congr_left
  intro c hc
  have := h c hc
  simp only [Function.comp, asciiLowerByte, lowerASCIIcp, UInt8.le_iff_toNat_le, b8]
  apply UInt8.toNat_inj.mp
  by_cases hA : 65 ≤ c ∧ c ≤ 90
  · have e1 : (65 : UInt8).toNat = 65 := rfl
    have e2 : (90 : UInt8).toNat = 90 := rfl
    rw [if_pos (by rw [e1, e2]; omega), if_pos (by simpa using hA)]
    simp
  · have e1 : (65 : UInt8).toNat = 65 := rfl
    have e2 : (90 : UInt8).toNat = 90 := rfl
    rw [if_neg (by rw [e1, e2]; omega), if_neg (by simpa using hA)]

end Manticore.C01
