/-
  Lemmas about the model of `ParseLMNTHashes` (C20): the pattern, the split, and the full
  characterisation `lmnt_spec_core`.
-/
import Manticore.Lemmas.C20Trim
import Manticore.Lemmas.C20Text
namespace Manticore.C20
open Manticore

theorem isHex_iff (c : UInt8) : isHex c = true ↔
    (48 ≤ c.toNat ∧ c.toNat ≤ 57) ∨ (97 ≤ c.toNat ∧ c.toNat ≤ 102) ∨ (65 ≤ c.toNat ∧ c.toNat ≤ 70) := by
  simp only [isHex, Bool.and_eq_true, Bool.or_eq_true, decide_eq_true_eq, UInt8.le_iff_toNat_le]
  simp only [UInt8.toNat_ofNat, Nat.reducePow, Nat.reduceMod, or_assoc]

theorem isHex_ne_colon (c : UInt8) (h : isHex c = true) : c ≠ colonB := by
  rw [isHex_iff] at h
  intro e; subst e
  simp [colonB] at h

theorem isHash_spec (h : Bytes) : isHash h = true ↔ Spec.IsHash h := by
  simp [isHash, Spec.IsHash]

theorem hash_no_colon (h : Bytes) (hh : isHash h = true) : ∀ c ∈ h, c ≠ colonB := by
  rw [isHash_spec] at hh
  intro c hc; exact isHex_ne_colon c (hh.2 c hc)

theorem containsByte_iff (c : UInt8) (s : Bytes) : containsByte c s = true ↔ c ∈ s := by
  simp [containsByte]

theorem splitOn_ne_nil (c : UInt8) (s : Bytes) : 1 ≤ (splitOn c s).length := by
  cases s with
  | nil => simp [splitOn]
  | cons b s' =>
    rw [splitOn]; split
    · simp
    · split <;> simp

theorem splitOn_length_ge (c : UInt8) (s : Bytes) (h : c ∈ s) : 2 ≤ (splitOn c s).length := by
  induction s with
  | nil => simp at h
  | cons a s ih =>
    rw [splitOn]
    by_cases e : a = c
    · rw [if_pos e]
      have := splitOn_ne_nil c s
      simp only [List.length_cons]; omega
    · rw [if_neg e]
      have hs : c ∈ s := by
        simp only [List.mem_cons] at h
        rcases h with h | h
        · exact absurd h.symm e
        · exact h
      have := ih hs
      match hp : splitOn c s, this with
      | p :: ps, this => simpa using this

theorem lmntCore_total (t0 : Bytes) : lmntCore t0 ≠ .panic := by
  unfold lmntCore
  dsimp only
  split
  · intro h; cases h
  · generalize ht : (if (!containsByte colonB t0) = true then colonB :: t0 else t0) = t
    have hc : colonB ∈ t := by
      rw [← ht]
      split
      · simp
      · rename_i h; simpa [containsByte_iff] using h
    have := splitOn_length_ge colonB t hc
    match hp : splitOn colonB t, this with
    | p0 :: p1 :: ps, _ => simp [index]

theorem lmntCore_of_parts (t : Bytes) (lm nt : Bytes) (rest : List Bytes) (hm : hashesMatch t = true)
    (hs : splitOn colonB (if (!containsByte colonB t) = true then colonB :: t else t) = lm :: nt :: rest) :
    lmntCore t = .ok (if lm.length ≠ 32 then [] else lm, if nt.length ≠ 32 then [] else nt) := by
  unfold lmntCore
  dsimp only
  rw [hm, hs]
  simp [index]

theorem isHash_length (h : Bytes) (hh : isHash h = true) : h.length = 32 := by
  rw [isHash_spec] at hh; exact hh.1

theorem matchTail_cons (c : UInt8) (h : Bytes) : matchTail (c :: h) = (c == colonB && isHash h) := rfl

theorem lmnt_spec_core (t : Bytes) :
    lmntCore t = match Spec.lmnt t with
      | some r => .ok r
      | none => .err := by
  match t with
  | [] => decide
  | c :: h =>
    have hne : (c :: h).isEmpty = false := rfl
    unfold Spec.lmnt
    rw [hne]
    have hhd : ((c :: h).head? == some colonB && isHash (List.drop 1 (c :: h))) = (c == colonB && isHash h) := by
      simp
    rw [hhd]
    have hd1 : List.drop 1 (c :: h) = h := rfl
    rw [hd1]
    simp only [Bool.false_eq_true, if_false]
    by_cases hA : isHash (c :: h) = true
    · -- a lone hash is the NT hash
      rw [if_pos hA]
      have hnc := hash_no_colon _ hA
      have hcont : containsByte colonB (c :: h) = false := by
        apply eq_false_of_not; rw [containsByte_iff]; intro hm; exact hnc _ hm rfl
      have hlen := isHash_length _ hA
      have hm : hashesMatch (c :: h) = true := by
        unfold hashesMatch
        have e1 : List.take 32 (c :: h) = c :: h := List.take_of_length_le (by omega)
        have e2 : List.drop 32 (c :: h) = [] := List.drop_of_length_le (by omega)
        rw [e1, e2, hA]; simp [matchTail]
      rw [lmntCore_of_parts (c :: h) [] (c :: h) [] hm (by
        rw [hcont]; simp only [Bool.not_false, if_true]
        rw [splitOn, if_pos rfl, splitOn_no_sep _ _ hnc])]
      simp [hlen]
    · rw [if_neg hA]
      by_cases hB : (c == colonB && isHash h) = true
      · rw [if_pos hB]
        simp only [Bool.and_eq_true, beq_iff_eq] at hB
        obtain ⟨rfl, hh⟩ := hB
        have hnc := hash_no_colon _ hh
        have hlen := isHash_length _ hh
        have hcont : containsByte colonB (colonB :: h) = true := by rw [containsByte_iff]; simp
        have hm : hashesMatch (colonB :: h) = true := by
          unfold hashesMatch; rw [matchTail_cons, hh]; simp
        rw [lmntCore_of_parts (colonB :: h) [] h [] hm (by
          rw [hcont]; simp only [Bool.not_true, Bool.false_eq_true, if_false]
          rw [splitOn, if_pos rfl, splitOn_no_sep _ _ hnc])]
        simp [hlen]
      · rw [if_neg hB]
        by_cases hC : (isHash (List.take 32 (c :: h)) && (List.drop 32 (c :: h)).head? == some colonB &&
            isHash (List.drop 33 (c :: h))) = true
        · rw [if_pos hC]
          simp only [Bool.and_eq_true, beq_iff_eq] at hC
          obtain ⟨⟨hg, hcol⟩, hk⟩ := hC
          generalize hgd : List.take 32 (c :: h) = g at *
          generalize hkd : List.drop 33 (c :: h) = k at *
          have hsplit : c :: h = g ++ colonB :: k := by
            have e0 : c :: h = List.take 32 (c :: h) ++ List.drop 32 (c :: h) := (List.take_append_drop 32 _).symm
            have e1 : List.drop 32 (c :: h) = colonB :: List.drop 33 (c :: h) := by
              match hd : List.drop 32 (c :: h), hcol with
              | x :: r, hcol =>
                simp only [List.head?_cons, Option.some.injEq] at hcol
                subst hcol
                have : List.drop 33 (c :: h) = List.drop 1 (List.drop 32 (c :: h)) := by
                  rw [List.drop_drop]
                rw [this, hd]; rfl
            rw [e1, hgd, hkd] at e0
            exact e0
          have hncg := hash_no_colon _ hg
          have hnck := hash_no_colon _ hk
          have hcont : containsByte colonB (c :: h) = true := by rw [containsByte_iff, hsplit]; simp
          have hm : hashesMatch (c :: h) = true := by
            unfold hashesMatch
            have e32 : List.drop 32 (c :: h) = colonB :: k := by
              rw [hsplit, List.drop_left' (isHash_length _ hg)]
            rw [hgd, e32, hg, matchTail_cons c h, matchTail_cons colonB k, hk]; simp
          rw [lmntCore_of_parts (c :: h) g k [] hm (by
            rw [hcont]; simp only [Bool.not_true, Bool.false_eq_true, if_false]
            rw [hsplit, splitOn_append _ _ _ hncg, splitOn_no_sep _ _ hnck])]
          simp [isHash_length _ hg, isHash_length _ hk]
        · rw [if_neg hC]
          -- nothing matches: the pattern rejects
          have hm : hashesMatch (c :: h) = false := by
            apply eq_false_of_not
            intro hm
            unfold hashesMatch at hm
            rw [matchTail_cons] at hm
            simp only [Bool.or_eq_true] at hm
            rcases hm with hm | hm
            · exact hB hm
            · simp only [Bool.and_eq_true] at hm
              obtain ⟨hg, ht⟩ := hm
              match hd : List.drop 32 (c :: h), ht with
              | [], _ =>
                apply hA
                have : c :: h = List.take 32 (c :: h) := by
                  have := List.take_append_drop 32 (c :: h)
                  rw [hd, List.append_nil] at this; exact this.symm
                rw [this]; exact hg
              | x :: r, ht =>
                rw [matchTail_cons] at ht
                simp only [Bool.and_eq_true, beq_iff_eq] at ht
                apply hC
                have e33 : List.drop 33 (c :: h) = r := by
                  have : List.drop 33 (c :: h) = List.drop 1 (List.drop 32 (c :: h)) := by rw [List.drop_drop]
                  rw [this, hd]; rfl
                rw [hg, hd, e33, ht.2, ht.1]; rfl
          unfold lmntCore
          rw [hm]; rfl

/-! ### letter case -/
open Spec in
section

theorem lower_toNat (c : UInt8) :
    (lower c).toNat = if 65 ≤ c.toNat ∧ c.toNat ≤ 90 then c.toNat + 32 else c.toNat := by
  unfold lower
  simp only [UInt8.le_iff_toNat_le]
  simp only [UInt8.toNat_ofNat, Nat.reducePow, Nat.reduceMod]
  split
  · rw [UInt8.toNat_add]; simp only [UInt8.toNat_ofNat, Nat.reducePow, Nat.reduceMod]; omega
  · rfl

theorem bool_eq_of_iff {a b : Bool} (h : a = true ↔ b = true) : a = b := by
  cases a <;> cases b <;> simp_all

theorem isAsciiSpace_lower (a : UInt8) : isAsciiSpace (lower a) = isAsciiSpace a := by
  apply bool_eq_of_iff; rw [isAsciiSpace_iff, isAsciiSpace_iff, lower_toNat]; split <;> omega

theorem isSpace2_lower (a b : UInt8) : isSpace2 (lower a) (lower b) = isSpace2 a b := by
  apply bool_eq_of_iff; rw [isSpace2_iff, isSpace2_iff, lower_toNat, lower_toNat]; split <;> split <;> omega

theorem isSpace3_lower (a b c : UInt8) : isSpace3 (lower a) (lower b) (lower c) = isSpace3 a b c := by
  apply bool_eq_of_iff; rw [isSpace3_iff, isSpace3_iff, lower_toNat, lower_toNat, lower_toNat]
  split <;> split <;> split <;> omega

theorem isHex_lower (c : UInt8) : isHex (lower c) = isHex c := by
  apply bool_eq_of_iff; rw [isHex_iff, isHex_iff, lower_toNat]; split <;> omega

theorem lower_eq_colon (c : UInt8) : (lower c == colonB) = (c == colonB) := by
  apply bool_eq_of_iff
  simp only [beq_iff_eq, ← UInt8.toNat_inj, lower_toNat, colonB]
  simp only [UInt8.toNat_ofNat, Nat.reducePow, Nat.reduceMod]
  split <;> omega

theorem trimSpace_lower (s : Bytes) : trimSpace (s.map lower) = (trimSpace s).map lower := by
  unfold trimSpace trimLeft
  rw [trimGen_map lower isAsciiSpace_lower isSpace2_lower isSpace3_lower, trimRight_def, trimRight_def,
    ← List.map_reverse,
    trimGen_map (p2 := r2) (p3 := r3) lower isAsciiSpace_lower (fun a b => isSpace2_lower b a)
      (fun a b c => isSpace3_lower c b a), List.map_reverse]

theorem isHash_lower (h : Bytes) : isHash (h.map lower) = isHash h := by
  simp [isHash, List.all_map, Function.comp_def, isHex_lower]

def lowerPair (p : Bytes × Bytes) : Bytes × Bytes := (p.1.map lower, p.2.map lower)

theorem head?_lower_colon (l : Bytes) : ((l.map lower).head? == some colonB) = (l.head? == some colonB) := by
  cases l with
  | nil => rfl
  | cons x r =>
    simp only [List.map_cons, List.head?_cons]
    have := lower_eq_colon x
    apply bool_eq_of_iff
    simp only [beq_iff_eq, Option.some.injEq]
    constructor
    · intro e; have h2 : (lower x == colonB) = true := by simp [e]
      rw [this] at h2; simpa using h2
    · intro e; have h2 : (x == colonB) = true := by simp [e]
      rw [← this] at h2; simpa using h2

theorem specLmnt_lower (t : Bytes) : Spec.lmnt (t.map lower) = (Spec.lmnt t).map lowerPair := by
  unfold Spec.lmnt
  rw [isHash_lower, ← List.map_take, ← List.map_drop, ← List.map_drop, ← List.map_drop, isHash_lower, isHash_lower,
    isHash_lower, head?_lower_colon, head?_lower_colon]
  have he : (List.map lower t).isEmpty = t.isEmpty := by cases t <;> rfl
  rw [he]
  split
  · rfl
  · split
    · simp [lowerPair]
    · split
      · simp [lowerPair]
      · split <;> simp [lowerPair]

theorem parseLMNT_lower (s : Bytes) : parseLMNT (s.map lower) = (parseLMNT s).map' lowerPair := by
  unfold parseLMNT
  rw [trimSpace_lower, lmnt_spec_core, lmnt_spec_core, specLmnt_lower]
  cases Spec.lmnt (trimSpace s) <;> rfl
end
end Manticore.C20
