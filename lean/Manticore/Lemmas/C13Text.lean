/-
  Helper lemmas for C13 (text side): byte classes, fixed-width hex printing and parsing,
  `Split`, `TrimSpace`/`ToLower`, and the pattern reader/writer.  Kernel-only.
-/
import Manticore.Model.C13
namespace Manticore.C13
open Manticore

/-- a statement about every byte follows from its 256 instances -/
theorem forall_uint8 {p : UInt8 → Prop} (h : ∀ i : Fin 256, p (UInt8.ofFin i)) : ∀ c, p c :=
  fun c => by simpa using h c.toFin

/-- decide a universally quantified statement over bytes by enumeration (kernel evaluation) -/
macro "byte_decide" : tactic => `(tactic| (apply forall_uint8; decide +kernel))

/-! ### byte classes -/

theorem lowerByte_idem : ∀ c, lowerByte (lowerByte c) = lowerByte c := by byte_decide
theorem lowerByte_upperByte : ∀ c, lowerByte (upperByte c) = lowerByte c := by byte_decide
theorem isSpace_lowerByte : ∀ c, isSpace (lowerByte c) = isSpace c := by byte_decide
theorem isSpace_upperByte : ∀ c, isSpace (upperByte c) = isSpace c := by byte_decide
theorem lowerByte_of_isLowerHex : ∀ c, isLowerHex c = true → lowerByte c = c := by byte_decide
theorem not_isSpace_of_isLowerHex : ∀ c, isLowerHex c = true → isSpace c = false := by byte_decide
theorem lowerByte_eq_dash : ∀ c, lowerByte c = dash → c = dash := by byte_decide
theorem ne_dash_of_isLowerHex : ∀ c, isLowerHex c = true → c ≠ dash := by byte_decide
theorem ne_comma_of_isLowerHex : ∀ c, isLowerHex c = true → c ≠ comma := by byte_decide
theorem ne_lbrace_of_isLowerHex : ∀ c, isLowerHex c = true → c ≠ lbrace := by byte_decide
theorem ne_rbrace_of_isLowerHex : ∀ c, isLowerHex c = true → c ≠ rbrace := by byte_decide
theorem hexVal_spec : ∀ c : UInt8, ∀ d, hexVal? c = some d → d < 16 ∧ hexChar d = lowerByte c := by byte_decide
theorem hexVal_of_lower : ∀ c : UInt8, ∀ d, d < 16 → lowerByte c = hexChar d → hexVal? c = some d := by byte_decide
theorem hexVal_isSome_of_isLowerHex : ∀ c, isLowerHex c = true → (hexVal? c).isSome = true := by byte_decide
theorem isLowerHex_of_hexVal_lower : ∀ c : UInt8, (hexVal? c).isSome = true → lowerByte c = c → isLowerHex c = true := by
  byte_decide
theorem hexVal_lowerByte : ∀ c : UInt8, hexVal? (lowerByte c) = hexVal? c ∨ hexVal? c = none := by byte_decide

theorem isLowerHex_hexChar : ∀ d, d < 16 → isLowerHex (hexChar d) = true := by decide
theorem hexVal_hexChar : ∀ d, d < 16 → hexVal? (hexChar d) = some d := by decide

/-! ### `toLower`, `trimSpace` -/

theorem toLower_idem (s : Bytes) : toLower (toLower s) = toLower s := by
  simp [toLower, List.map_map, Function.comp_def, lowerByte_idem]

theorem toLower_toUpper (s : Bytes) : toLower (toUpper s) = toLower s := by
  simp [toLower, toUpper, List.map_map, Function.comp_def, lowerByte_upperByte]

theorem toLower_eq_self (s : Bytes) (h : ∀ c ∈ s, lowerByte c = c) : toLower s = s := by
  unfold toLower
  conv => rhs; rw [← List.map_id s]
  exact List.map_congr_left (fun c hc => by simpa using h c hc)

theorem toLower_append (a b : Bytes) : toLower (a ++ b) = toLower a ++ toLower b := by simp [toLower]

theorem length_toLower (s : Bytes) : (toLower s).length = s.length := by simp [toLower]

private theorem dropWhile_nospace (s : Bytes) (h : ∀ c ∈ s, isSpace c = false) : s.dropWhile isSpace = s := by
  cases s with
  | nil => rfl
  | cons c t => simp [List.dropWhile, h c (by simp)]

theorem trimSpace_eq_self (s : Bytes) (h : ∀ c ∈ s, isSpace c = false) : trimSpace s = s := by
  unfold trimSpace
  rw [dropWhile_nospace s h, dropWhile_nospace s.reverse (fun c hc => h c (by simpa using hc))]
  simp

theorem trimSpace_toUpper_nospace (s : Bytes) (h : ∀ c ∈ s, isSpace c = false) : trimSpace (toUpper s) = toUpper s := by
  apply trimSpace_eq_self
  intro c hc
  simp only [toUpper, List.mem_map] at hc
  obtain ⟨d, hd, rfl⟩ := hc
  rw [isSpace_upperByte]; exact h d hd

/-! ### fixed-width hex -/

@[simp] theorem length_fixedHex (w n : Nat) : (fixedHex w n).length = w := by
  induction w generalizing n with
  | zero => rfl
  | succ w ih => simp [fixedHex, ih]

theorem isLowerHex_of_mem_fixedHex (w n : Nat) : ∀ c ∈ fixedHex w n, isLowerHex c = true := by
  induction w generalizing n with
  | zero => intro c hc; simp [fixedHex] at hc
  | succ w ih =>
    intro c hc
    simp only [fixedHex, List.mem_append, List.mem_singleton] at hc
    rcases hc with hc | rfl
    · exact ih _ c hc
    · exact isLowerHex_hexChar _ (Nat.mod_lt _ (by decide))

theorem all_isLowerHex_fixedHex (w n : Nat) : (fixedHex w n).all isLowerHex = true := by
  rw [List.all_eq_true]; exact isLowerHex_of_mem_fixedHex w n

theorem fixedHex_mod (w n : Nat) : fixedHex w (n % 16 ^ w) = fixedHex w n := by
  induction w generalizing n with
  | zero => rfl
  | succ w ih =>
    simp only [fixedHex]
    have h1 : n % 16 ^ (w + 1) / 16 = n / 16 % 16 ^ w := by
      rw [Nat.pow_succ, Nat.mul_comm, Nat.mod_mul_right_div_self]
    have h2 : n % 16 ^ (w + 1) % 16 = n % 16 := by
      rw [Nat.pow_succ, Nat.mul_comm]; exact Nat.mod_mul_right_mod n 16 (16 ^ w)
    rw [h1, h2, ih]

theorem fixedHex_add (a b n : Nat) : fixedHex (a + b) n = fixedHex a (n / 16 ^ b) ++ fixedHex b n := by
  induction b generalizing n with
  | zero => simp [fixedHex]
  | succ b ih =>
    have : a + (b + 1) = (a + b) + 1 := by omega
    rw [this]
    simp only [fixedHex]
    rw [ih, List.append_assoc, Nat.div_div_eq_div_mul, Nat.pow_succ, Nat.mul_comm 16]

theorem hexValueAux_append (a b : Bytes) (acc : Nat) :
    hexValueAux (a ++ b) acc = (hexValueAux a acc).bind (hexValueAux b) := by
  induction a generalizing acc with
  | nil => rfl
  | cons c t ih =>
    simp only [List.cons_append, hexValueAux]
    cases hexVal? c with
    | none => rfl
    | some d => exact ih _

theorem hexValueAux_fixedHex (w n acc : Nat) :
    hexValueAux (fixedHex w n) acc = some (acc * 16 ^ w + n % 16 ^ w) := by
  induction w generalizing n acc with
  | zero => simp [fixedHex, hexValueAux, Nat.mod_one]
  | succ w ih =>
    simp only [fixedHex, hexValueAux_append, ih, Option.bind_some, hexValueAux,
      hexVal_hexChar _ (Nat.mod_lt n (by decide : 0 < 16))]
    congr 1
    have : n % 16 ^ (w + 1) = 16 * (n / 16 % 16 ^ w) + n % 16 := by
      rw [Nat.pow_succ, Nat.mul_comm (16 ^ w), Nat.mod_mul]; omega
    rw [this, Nat.pow_succ, Nat.add_mul, Nat.mul_assoc]; omega

theorem parseUintHex_fixedHex (bits w n : Nat) (hw : 0 < w) (hb : 16 ^ w ≤ 2 ^ bits) (hn : n < 16 ^ w) :
    parseUintHex bits (fixedHex w n) = some n := by
  unfold parseUintHex
  have hne : (fixedHex w n).isEmpty = false := by
    cases h : fixedHex w n with
    | nil => have := length_fixedHex w n; rw [h] at this; simp at this; omega
    | cons _ _ => rfl
  rw [hne, hexValueAux_fixedHex]
  simp [Nat.mod_eq_of_lt hn]
  omega

/-- a successfully parsed hex string prints back (lower-cased) at its own width -/
theorem fixedHex_of_hexValueAux (s : Bytes) (acc v k : Nat) (h : hexValueAux s acc = some v) :
    fixedHex (k + s.length) v = fixedHex k acc ++ toLower s := by
  induction s generalizing acc k with
  | nil => simp only [hexValueAux, Option.some.injEq] at h; subst h; simp [toLower]
  | cons c t ih =>
    simp only [hexValueAux] at h
    cases hd : hexVal? c with
    | none => rw [hd] at h; simp at h
    | some d =>
      rw [hd] at h
      have := ih (acc * 16 + d) (k + 1) h
      obtain ⟨hd16, hch⟩ := hexVal_spec c d hd
      have e : k + (c :: t).length = k + 1 + t.length := by simp; omega
      rw [e, this]
      simp only [fixedHex, toLower, List.map_cons, List.append_assoc, List.singleton_append]
      have h1 : (acc * 16 + d) / 16 = acc := by omega
      have h2 : (acc * 16 + d) % 16 = d := by omega
      rw [h1, h2, hch]

theorem hexValueAux_lt (s : Bytes) (acc v : Nat) (h : hexValueAux s acc = some v) :
    v < (acc + 1) * 16 ^ s.length := by
  induction s generalizing acc with
  | nil => simp only [hexValueAux, Option.some.injEq] at h; subst h; simp
  | cons c t ih =>
    simp only [hexValueAux] at h
    cases hd : hexVal? c with
    | none => rw [hd] at h; simp at h
    | some d =>
      rw [hd] at h
      have := ih _ h
      have hd16 := (hexVal_spec c d hd).1
      simp only [List.length_cons, Nat.pow_succ]
      calc v < (acc * 16 + d + 1) * 16 ^ t.length := this
        _ ≤ ((acc + 1) * 16) * 16 ^ t.length := Nat.mul_le_mul_right _ (by omega)
        _ = (acc + 1) * (16 ^ t.length * 16) := by rw [Nat.mul_assoc, Nat.mul_comm 16]

/-- what a successful `ParseUint(_,16,bits)` says about its argument -/
theorem parseUintHex_some (bits : Nat) (s : Bytes) (v : Nat) (h : parseUintHex bits s = some v) :
    hexValueAux s 0 = some v ∧ v < 2 ^ bits ∧ v < 16 ^ s.length ∧ fixedHex s.length v = toLower s := by
  unfold parseUintHex at h
  split at h
  · simp at h
  · cases hv : hexValueAux s 0 with
    | none => rw [hv] at h; simp at h
    | some w =>
      rw [hv] at h
      simp only at h
      split at h
      · simp only [Option.some.injEq] at h; subst h
        refine ⟨rfl, by assumption, by simpa using hexValueAux_lt s 0 w hv, ?_⟩
        have := fixedHex_of_hexValueAux s 0 w 0 hv
        simpa [fixedHex] using this
      · simp at h

/-! ### `hex.DecodeString` -/

theorem decodeHex_hexOfBytes_lower (m x : Bytes) (h : toLower x = hexOfBytes m) : decodeHex x = some m := by
  induction m generalizing x with
  | nil => simp [hexOfBytes, toLower] at h; subst h; rfl
  | cons b m ih =>
    match x, h with
    | a :: c :: rest, h =>
      simp only [toLower, List.map_cons, hexOfBytes, List.flatMap_cons, List.cons_append, List.nil_append,
        List.cons.injEq] at h
      obtain ⟨h1, h2, h3⟩ := h
      have hb := b.toNat_lt
      have e1 := hexVal_of_lower a (b.toNat / 16) (by omega) h1
      have e2 := hexVal_of_lower c (b.toNat % 16) (by omega) h2
      have e3 := ih rest (by simpa [toLower, hexOfBytes] using h3)
      simp only [decodeHex, e1, e2, e3]
      congr 2
      have : b.toNat / 16 * 16 + b.toNat % 16 = b.toNat := by omega
      rw [this]; simp
    | [], h => simp [toLower, hexOfBytes] at h
    | [_], h => simp [toLower, hexOfBytes] at h

theorem hexOfBytes_of_decodeHex (x m : Bytes) (h : decodeHex x = some m) : hexOfBytes m = toLower x := by
  induction m generalizing x with
  | nil =>
    match x, h with
    | [], _ => rfl
    | [_], h => simp [decodeHex] at h
    | a :: c :: rest, h =>
      simp only [decodeHex] at h
      split at h <;> simp at h
  | cons b m ih =>
    match x, h with
    | [], h => simp [decodeHex] at h
    | [_], h => simp [decodeHex] at h
    | a :: c :: rest, h =>
      simp only [decodeHex] at h
      split at h
      · rename_i xv yv r hx hy hr
        simp only [Option.some.injEq, List.cons.injEq] at h
        obtain ⟨hb, hm⟩ := h
        subst hm
        obtain ⟨hx16, hxc⟩ := hexVal_spec a xv hx
        obtain ⟨hy16, hyc⟩ := hexVal_spec c yv hy
        have := ih rest hr
        subst hb
        have e : (UInt8.ofNat (xv * 16 + yv)).toNat = xv * 16 + yv := by
          simp [UInt8.toNat_ofNat']; omega
        simp only [hexOfBytes, List.flatMap_cons, e, toLower, List.map_cons, List.cons_append, List.nil_append]
        have h1 : (xv * 16 + yv) / 16 = xv := by omega
        have h2 : (xv * 16 + yv) % 16 = yv := by omega
        rw [h1, h2, hxc, hyc]
        simpa [hexOfBytes, toLower] using this
      · simp at h

theorem length_hexOfBytes (m : Bytes) : (hexOfBytes m).length = 2 * m.length := by
  induction m with
  | nil => rfl
  | cons b m ih => simp [hexOfBytes, List.flatMap_cons] at *; omega

/-! ### `strings.Split` -/

theorem splitAux_append_nosep (sep : UInt8) (a rest cur : Bytes) (h : ∀ c ∈ a, c ≠ sep) :
    splitAux sep (a ++ rest) cur = splitAux sep rest (a.reverse ++ cur) := by
  induction a generalizing cur with
  | nil => rfl
  | cons c t ih =>
    have hc := h c (by simp)
    simp only [List.cons_append, splitAux, if_neg hc]
    rw [ih _ (fun x hx => h x (by simp [hx]))]
    simp

/-- a part free of the separator, followed by the separator -/
theorem split_cons_part (sep : UInt8) (a rest : Bytes) (h : ∀ c ∈ a, c ≠ sep) :
    splitAux sep (a ++ sep :: rest) [] = a :: splitAux sep rest [] := by
  rw [splitAux_append_nosep sep a _ [] h]
  simp [splitAux]

/-- the last part -/
theorem split_last_part (sep : UInt8) (a : Bytes) (h : ∀ c ∈ a, c ≠ sep) :
    splitAux sep a [] = [a] := by
  have := splitAux_append_nosep sep a [] [] h
  simp only [List.append_nil] at this
  rw [this]; simp [splitAux]

/-! ### the pattern reader and writer -/

/-- values fit the hex groups of a pattern, one value per group -/
def Fits : List Tok → List Nat → Prop
  | [], vs => vs = []
  | .lit _ :: p, vs => Fits p vs
  | .hex _ :: _, [] => False
  | .hex n :: p, v :: vs => v < 16 ^ n ∧ Fits p vs

theorem matchPat_eq_isSome (p : List Tok) (s : Bytes) : matchPat p s = (parsePat p s).isSome := by
  induction p generalizing s with
  | nil => simp only [matchPat, parsePat]; split <;> simp_all
  | cons t p ih =>
    cases t with
    | lit l =>
      simp only [matchPat, parsePat]
      split <;> simp_all
    | hex n =>
      simp only [matchPat, parsePat, ih]
      by_cases hc : ((s.take n).length == n && (s.take n).all isLowerHex) = true
      · rw [if_pos hc, hc]; simp
      · rw [if_neg hc]
        have : ((s.take n).length == n && (s.take n).all isLowerHex) = false := by simpa using hc
        rw [this]; simp

private theorem hexValue_eq (s : Bytes) (acc : Nat) (h : s.all isLowerHex = true) :
    hexValueAux s acc = some (s.foldl (fun a c => a * 16 + (hexVal? c).getD 0) acc) := by
  induction s generalizing acc with
  | nil => rfl
  | cons c t ih =>
    simp only [List.all_cons, Bool.and_eq_true] at h
    have := hexVal_isSome_of_isLowerHex c h.1
    cases hd : hexVal? c with
    | none => rw [hd] at this; simp at this
    | some d => simp only [hexValueAux, hd, List.foldl_cons, Option.getD_some]; exact ih _ h.2

/-- a text in the language of a pattern is the rendering of the values read from it -/
theorem parsePat_sound (p : List Tok) (s : Bytes) (vs : List Nat) (h : parsePat p s = some vs) :
    render p vs = s ∧ Fits p vs := by
  induction p generalizing s vs with
  | nil =>
    simp only [parsePat] at h
    split at h
    · simp only [Option.some.injEq] at h; subst h
      rename_i he
      simp [render, Fits, List.isEmpty_iff.mp he]
    · simp at h
  | cons t p ih =>
    cases t with
    | lit l =>
      simp only [parsePat] at h
      split at h
      · rename_i hp
        obtain ⟨h1, h2⟩ := ih _ _ h
        refine ⟨?_, h2⟩
        simp only [render, h1]
        have := List.isPrefixOf_iff_prefix.mp hp
        obtain ⟨r, hr⟩ := this
        rw [← hr]; simp
      · simp at h
    | hex n =>
      simp only [parsePat] at h
      split at h
      · rename_i hc
        simp only [Bool.and_eq_true, beq_iff_eq] at hc
        cases hr : parsePat p (s.drop n) with
        | none => rw [hr] at h; simp at h
        | some vs' =>
          rw [hr] at h
          simp only [Option.map_some, Option.some.injEq] at h
          subst h
          obtain ⟨h1, h2⟩ := ih _ _ hr
          have hv := hexValue_eq (s.take n) 0 hc.2
          have hf := fixedHex_of_hexValueAux (s.take n) 0 _ 0 hv
          have hlow : toLower (s.take n) = s.take n :=
            toLower_eq_self _ (fun c hc' => lowerByte_of_isLowerHex c (List.all_eq_true.mp hc.2 c hc'))
          have hlt := hexValueAux_lt (s.take n) 0 _ hv
          simp only [Nat.zero_add, fixedHex, List.nil_append, hc.1, hlow, Nat.one_mul] at hf hlt
          refine ⟨?_, ?_, h2⟩
          · simp only [render, hexValue, hf, h1, List.take_append_drop]
          · simpa [hexValue] using hlt
      · simp at h

theorem matchPat_render (p : List Tok) (vs : List Nat) (h : Fits p vs) : matchPat p (render p vs) = true := by
  induction p generalizing vs with
  | nil => simp [Fits] at h; subst h; rfl
  | cons t p ih =>
    cases t with
    | lit l =>
      simp only [render, matchPat, Bool.and_eq_true]
      refine ⟨List.isPrefixOf_iff_prefix.mpr ⟨_, rfl⟩, ?_⟩
      simpa using ih vs h
    | hex n =>
      cases vs with
      | nil => simp [Fits] at h
      | cons v vs =>
        simp only [Fits] at h
        simp only [render, matchPat, Bool.and_eq_true, beq_iff_eq]
        have e1 : (fixedHex n v ++ render p vs).take n = fixedHex n v := by
          rw [List.take_append_of_le_length (by simp)]; simp [List.take_of_length_le]
        have e2 : (fixedHex n v ++ render p vs).drop n = render p vs := by
          exact List.drop_left' (by simp)
        rw [e1, e2]
        exact ⟨⟨by simp, all_isLowerHex_fixedHex n v⟩, ih vs h.2⟩

/-- a Boolean test holds of every character of every literal of a pattern -/
def litsAll (q : UInt8 → Bool) (p : List Tok) : Bool :=
  p.all (fun t => match t with | .lit l => l.all q | .hex _ => true)

/-- every character of a rendering is a lower-case hex digit or comes from a literal of the pattern -/
theorem mem_render (q : UInt8 → Bool) (p : List Tok) (vs : List Nat)
    (hhex : ∀ c, isLowerHex c = true → q c = true) (hlit : litsAll q p = true) :
    ∀ c ∈ render p vs, q c = true := by
  induction p generalizing vs with
  | nil => intro c hc; simp [render] at hc
  | cons t p ih =>
    simp only [litsAll, List.all_cons, Bool.and_eq_true] at hlit
    have hrest : litsAll q p = true := hlit.2
    cases t with
    | lit l =>
      intro c hc
      simp only [render, List.mem_append] at hc
      rcases hc with hc | hc
      · exact List.all_eq_true.mp hlit.1 c hc
      · exact ih vs hrest c hc
    | hex n =>
      cases vs with
      | nil =>
        intro c hc
        simp only [render, List.mem_append] at hc
        rcases hc with hc | hc
        · exact hhex c (isLowerHex_of_mem_fixedHex _ _ c hc)
        · exact ih [] hrest c hc
      | cons v vs =>
        intro c hc
        simp only [render, List.mem_append] at hc
        rcases hc with hc | hc
        · exact hhex c (isLowerHex_of_mem_fixedHex _ _ c hc)
        · exact ih vs hrest c hc

/-- number of characters of every text a pattern matches -/
def patLen : List Tok → Nat
  | [] => 0
  | .lit l :: p => l.length + patLen p
  | .hex n :: p => n + patLen p

theorem length_of_matchPat (p : List Tok) (s : Bytes) (h : matchPat p s = true) : s.length = patLen p := by
  induction p generalizing s with
  | nil => simp only [matchPat, List.isEmpty_iff] at h; subst h; rfl
  | cons t p ih =>
    cases t with
    | lit l =>
      simp only [matchPat, Bool.and_eq_true] at h
      obtain ⟨r, hr⟩ := List.isPrefixOf_iff_prefix.mp h.1
      have := ih _ h.2
      rw [← hr] at this ⊢
      simp only [List.drop_left, List.length_append, patLen] at this ⊢
      omega
    | hex n =>
      simp only [matchPat, Bool.and_eq_true, beq_iff_eq] at h
      have h1 := h.1.1
      have := ih _ h.2
      simp only [List.length_take, List.length_drop, patLen] at *
      omega

end Manticore.C13
