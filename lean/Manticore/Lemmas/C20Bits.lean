/-
  Bit-level and arithmetic lemmas for the IPv4/IPv6 models (C20).
-/
import Manticore.Model.C20
import Manticore.Lemmas.Bits
namespace Manticore.C20
open Manticore

theorem or_eq_add_of_lt (a b k : Nat) (hb : b < 2^k) (ha : 2^k ∣ a) : a ||| b = a + b := by
  obtain ⟨q, rfl⟩ := ha
  rw [Nat.mul_comm, ← Nat.shiftLeft_eq]
  exact (Nat.shiftLeft_add_eq_or_of_lt hb q).symm

theorem toUInt32_toNat (i : IPv4) :
    (toUInt32 i).toNat = Spec.v4 i.a.toNat i.b.toNat i.c.toNat i.d.toNat := by
  obtain ⟨a, b, c, d, m⟩ := i
  have h1 := a.toNat_lt; have h2 := b.toNat_lt; have h3 := c.toNat_lt; have h4 := d.toNat_lt
  simp only [toUInt32, Spec.v4, UInt32.toNat_or, UInt32.toNat_shiftLeft, UInt8.toNat_toUInt32, Nat.shiftLeft_eq]
  simp only [UInt32.toNat_ofNat, Nat.reducePow, Nat.reduceMod] at *
  rw [Nat.mod_eq_of_lt (by omega), Nat.mod_eq_of_lt (by omega), Nat.mod_eq_of_lt (by omega)]
  rw [or_eq_add_of_lt (a.toNat * 16777216) (b.toNat * 65536) 24 (by omega) (by omega)]
  rw [or_eq_add_of_lt _ (c.toNat * 256) 16 (by omega) (by omega)]
  rw [or_eq_add_of_lt _ d.toNat 8 (by omega) (by omega)]

theorem and_mask_nat (x k : Nat) (hx : x < 2^32) (hk : k ≤ 32) :
    x &&& (4294967295 <<< k % 4294967296) = x / 2^k * 2^k := by
  apply Nat.eq_of_testBit_eq
  intro i
  rw [← Nat.shiftRight_eq_div_pow, ← Nat.shiftLeft_eq]
  have e : (4294967296 : Nat) = 2^32 := by decide
  have e' : (4294967295 : Nat) = 2^32 - 1 := by decide
  rw [e, e']
  simp only [Nat.testBit_and, Nat.testBit_mod_two_pow, Nat.testBit_shiftLeft, Nat.testBit_shiftRight,
    Nat.testBit_two_pow_sub_one]
  by_cases h1 : k ≤ i
  · by_cases h2 : i < 32
    · have : i - k < 32 := by omega
      simp [h1, h2, this]
    · have : x.testBit i = false := Nat.testBit_lt_two_pow (Nat.lt_of_lt_of_le hx (Nat.pow_le_pow_right (by omega) (by omega)))
      simp [h2, this]
      intro _
      have e2 : k + (i - k) = i := by omega
      rw [e2]; exact this
  · simp [h1]

theorem sub32_toNat (m : UInt8) (hm : m.toNat ≤ 32) : (32 - m : UInt8).toNat = 32 - m.toNat := by
  rw [UInt8.toNat_sub_of_le]
  · rfl
  · rw [UInt8.le_iff_toNat_le]; exact hm

/-- the masked value, as a number: the low `32 - m` bits are cleared -/
theorem and_maskOf_toNat (x : UInt32) (m : UInt8) (hm : m.toNat ≤ 32) :
    (x &&& maskOf m).toNat = x.toNat / 2^(32 - m.toNat) * 2^(32 - m.toNat) := by
  unfold maskOf goShl32
  rw [sub32_toNat m hm]
  by_cases h0 : 32 - m.toNat ≥ 32
  · rw [if_pos h0]
    have : 32 - m.toNat = 32 := by omega
    rw [this]
    have := x.toNat_lt
    simp only [UInt32.toNat_and, UInt32.toNat_zero, Nat.and_zero]
    rw [Nat.div_eq_of_lt (by omega)]
  · rw [if_neg h0]
    have hk : (32 - m).toUInt32.toNat % 32 = 32 - m.toNat := by
      rw [UInt8.toNat_toUInt32, sub32_toNat m hm]; omega
    simp only [UInt32.toNat_and, UInt32.toNat_shiftLeft, hk]
    have := and_mask_nat x.toNat (32 - m.toNat) x.toNat_lt (by omega)
    simpa using this

/-- splitting a 32-bit word into its four bytes and reassembling them is the identity -/
theorem toUInt32_bytes (v : UInt32) (m : UInt8) :
    toUInt32 ⟨((v >>> 24) &&& 0xFF).toUInt8, ((v >>> 16) &&& 0xFF).toUInt8,
      ((v >>> 8) &&& 0xFF).toUInt8, (v &&& 0xFF).toUInt8, m⟩ = v := by
  apply UInt32.eq_of_toBitVec_eq
  simp only [toUInt32, UInt32.toBitVec_or, UInt32.toBitVec_shiftLeft, UInt8.toBitVec_toUInt32,
    UInt32.toBitVec_toUInt8, UInt32.toBitVec_shiftRight, UInt32.toBitVec_and]
  bv_bits32


theorem half_toNat (a b c d : UInt16) :
    ((a.toUInt64 <<< 48) ||| (b.toUInt64 <<< 32) ||| (c.toUInt64 <<< 16) ||| d.toUInt64).toNat
      = a.toNat * 2^48 + b.toNat * 2^32 + c.toNat * 2^16 + d.toNat := by
  have h1 := a.toNat_lt; have h2 := b.toNat_lt; have h3 := c.toNat_lt; have h4 := d.toNat_lt
  simp only [UInt64.toNat_or, UInt64.toNat_shiftLeft, UInt16.toNat_toUInt64, Nat.shiftLeft_eq]
  simp only [UInt64.toNat_ofNat, Nat.reducePow, Nat.reduceMod] at *
  rw [Nat.mod_eq_of_lt (by omega), Nat.mod_eq_of_lt (by omega), Nat.mod_eq_of_lt (by omega)]
  rw [or_eq_add_of_lt (a.toNat * 281474976710656) (b.toNat * 4294967296) 48 (by omega) (by omega)]
  rw [or_eq_add_of_lt _ (c.toNat * 65536) 32 (by omega) (by omega)]
  rw [or_eq_add_of_lt _ d.toNat 16 (by omega) (by omega)]

/-- the pair (high, low) represents the 128-bit value of the address -/
theorem toUInt128_value (i : IPv6) :
    (toUInt128 i).1.toNat * 2^64 + (toUInt128 i).2.toNat = Spec.v6 (i.groups.map (·.toNat)) := by
  obtain ⟨a, b, c, d, e, f, g, h⟩ := i
  simp only [toUInt128, half_toNat, Spec.v6, IPv6.groups, List.map_cons, List.map_nil, List.foldl_cons, List.foldl_nil]
  omega


end Manticore.C20
