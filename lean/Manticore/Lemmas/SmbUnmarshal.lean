/-
  C04 helper lemmas, unmarshal side: an unmarshal program of the straight-line fragment that keeps
  the offset discipline (`okU`), run on two streams that are the `layoutBytes` of its own layout for
  field values satisfying the program's relations, succeeds and assigns exactly those values.
-/
import Manticore.Lemmas.SmbMarshal
namespace Manticore.SmbIR
open Manticore

/-! ### single statements -/

theorem go_nil (C : Codecs) (s : UState) : runU.go C s [] = .ok s.env := by rw [runU.go]

theorem go_next {C : Codecs} {s s' : UState} {st : UStmt} (r : List UStmt) (h : runUStmt C s st = .next s') :
    runU.go C s (st :: r) = runU.go C s' r := by rw [runU.go, h]

theorem go_ret {C : Codecs} {s : UState} {st : UStmt} (r : List UStmt) (h : runUStmt C s st = .ret) :
    runU.go C s (st :: r) = .ok s.env := by rw [runU.go, h]

theorem go_next2 {C : Codecs} {s s1 s2 : UState} {a b : UStmt} (r : List UStmt)
    (h1 : runUStmt C s a = .next s1) (h2 : runUStmt C s1 b = .next s2) :
    runU.go C s (a :: b :: r) = runU.go C s2 r := by rw [go_next _ h1, go_next _ h2]

theorem step_advance (C : Codecs) (s : UState) (e : Expr) (n : Nat) (h : evalExpr s e = some n) :
    runUStmt C s (.advance e) = .next { s with offset := s.offset + n } := by
  rw [runUStmt, h]

theorem step_readInt (C : Codecs) (s : UState) (b : Blk) (w : Nat) (e : End) (f : String)
    (pre mid post : Bytes) (hblk : s.blk b = pre ++ (mid ++ post)) (hoff : s.offset = pre.length)
    (hlen : w = mid.length) :
    runUStmt C s (.readInt b w e f) = .next { s with env := s.env.set f (.n (intVal e mid)) } := by
  have hs : sliceC (s.blk b) (s.ext b) s.offset (s.offset + w) = .ok mid := by
    rw [hblk, hoff]; exact sliceC_mid pre mid post _ w hlen
  rw [runUStmt, hs]; rfl

theorem step_readQuad (C : Codecs) (s : UState) (b : Blk) (w : Nat) (e : End) (f : String)
    (pre mid post : Bytes) (hblk : s.blk b = pre ++ (mid ++ post)) (hoff : s.offset = pre.length)
    (hlen : w = mid.length) :
    runUStmt C s (.readQuad b w e f) = .next { s with env := s.env.set f (.n (intVal e mid)) } := by
  have hs : sliceC (s.blk b) (s.ext b) s.offset (s.offset + w) = .ok mid := by
    rw [hblk, hoff]; exact sliceC_mid pre mid post _ w hlen
  rw [runUStmt, hs]; rfl

theorem step_readU8 (C : Codecs) (s : UState) (b : Blk) (f : String)
    (pre : Bytes) (x : UInt8) (post : Bytes) (hblk : s.blk b = pre ++ (x :: post)) (hoff : s.offset = pre.length) :
    runUStmt C s (.readU8 b f) = .next { s with env := s.env.set f (.n x.toNat) } := by
  have hs : index (s.blk b) s.offset = .ok x := by rw [hblk, hoff, index_mid]
  rw [runUStmt, hs]; rfl

theorem step_readBytes (C : Codecs) (s : UState) (b : Blk) (f : String) (n : Expr) (k : Nat)
    (pre mid post : Bytes) (hblk : s.blk b = pre ++ (mid ++ post)) (hoff : s.offset = pre.length)
    (hn : evalExpr s n = some k) (hlen : k = mid.length) :
    runUStmt C s (.readBytes b f n) = .next { s with env := s.env.set f (.b mid) } := by
  have hs : sliceC (s.blk b) (s.ext b) s.offset (s.offset + k) = .ok mid := by
    rw [hblk, hoff]; exact sliceC_mid pre mid post _ k hlen
  rw [runUStmt, hn]
  simp only []
  rw [hs]; rfl

theorem step_readArr (C : Codecs) (s : UState) (b : Blk) (f : String) (n : Nat)
    (pre mid post : Bytes) (hblk : s.blk b = pre ++ (mid ++ post)) (hoff : s.offset = pre.length)
    (hlen : n = mid.length) :
    runUStmt C s (.readArr b f n) = .next { s with env := s.env.set f (.b mid) } := by
  have hs : sliceC (s.blk b) (s.ext b) s.offset (s.offset + n) = .ok mid := by
    rw [hblk, hoff]; exact sliceC_mid pre mid post _ n hlen
  rw [runUStmt, hs]; rfl

theorem step_readRest (C : Codecs) (s : UState) (b : Blk) (f : String)
    (pre mid : Bytes) (hblk : s.blk b = pre ++ mid) (hoff : s.offset = pre.length) :
    runUStmt C s (.readRest b f) = .next { s with env := s.env.set f (.b mid) } := by
  have hs : sliceFrom (s.blk b) s.offset = .ok mid := by rw [hblk, hoff, sliceFrom_mid]
  rw [runUStmt, hs]; rfl

theorem step_readSub (C : Codecs) (s : UState) (b : Blk) (f typ : String) (win : Option Nat)
    (pre mid post : Bytes) (v : Tup) (hblk : s.blk b = pre ++ (mid ++ post)) (hoff : s.offset = pre.length)
    (hwin : ∀ n, win = some n → n = mid.length)
    (hdec : ∀ suffix, suffix = [] ∨ win = none → C.dec typ (mid ++ suffix) = .ok (v, mid.length)) :
    runUStmt C s (.readSub b f typ win false true true) =
      .next { s with env := s.env.set f (.t v), bytesRead := mid.length } := by
  simp only [runUStmt]
  cases win with
  | none =>
    have hs : sliceFrom (s.blk b) s.offset = .ok (mid ++ post) := by rw [hblk, hoff, sliceFrom_mid]
    simp only [Bool.false_eq_true, if_false, hs, hdec post (Or.inr rfl), if_true]
  | some n =>
    have hs : sliceC (s.blk b) (s.ext b) s.offset (s.offset + n) = .ok mid := by
      rw [hblk, hoff]; exact sliceC_mid pre mid post _ n (hwin n rfl)
    have := hdec [] (Or.inl rfl)
    rw [List.append_nil] at this
    simp only [Bool.false_eq_true, if_false, hs, this, if_true]

theorem step_advanceRead (C : Codecs) (s : UState) :
    runUStmt C s .advanceRead = .next { s with offset := s.offset + s.bytesRead } := by
  rw [runUStmt]

/-! ### expressions -/

theorem evalExpr_closed (s : UState) (env' : Env) (seen : List String) (hag : Agree seen s.env env')
    (e : Expr) (hc : e.closed seen = true) : evalExpr s e = evalEnv env' e := by
  induction e with
  | lit n => rfl
  | fint f => simp only [Expr.closed, List.contains_iff_mem] at hc; (simp only [evalExpr, evalEnv, hag f hc]; rfl)
  | flen f => simp only [Expr.closed, List.contains_iff_mem] at hc; (simp only [evalExpr, evalEnv, hag f hc]; rfl)
  | fsub f i => simp only [Expr.closed, List.contains_iff_mem] at hc; (simp only [evalExpr, evalEnv, hag f hc]; rfl)
  | pad => simp [Expr.closed] at hc
  | add a b iha ihb =>
    simp only [Expr.closed, Bool.and_eq_true] at hc
    simp only [evalExpr, evalEnv, iha hc.1, ihb hc.2]
  | mul k e ih =>
    simp only [Expr.closed] at hc
    simp only [evalExpr, evalEnv, ih hc]

theorem exprLe_eval (s : UState) (e n : Expr) (h : exprLe e n = true) (k : Nat) (hn : evalExpr s n = some k) :
    ∃ j, evalExpr s e = some j ∧ j ≤ k := by
  unfold exprLe at h
  split at h
  · rename_i a b
    simp only [evalExpr, Option.some.injEq] at hn
    exact ⟨a, rfl, by subst hn; simpa using h⟩
  · have : e = n := by simpa using h
    subst this
    exact ⟨k, hn, Nat.le_refl _⟩

theorem closed_ne_pad {seen : List String} {n : Expr} (h : n.closed seen = true) : n ≠ .pad := by
  intro e; subst e; simp [Expr.closed] at h

/-! ### the relations `consistent` checks, statement by statement -/

theorem rel_readBytes {C : Codecs} {env : Env} {plen pad : Nat} {b : Blk} {f : String} {n : Expr} {r : List UStmt}
    (h : relationsHold C env plen pad (.readBytes b f n :: r) = true) (hn : n ≠ .pad) :
    (∃ bs, env.get f = some (.b bs) ∧ evalEnv env n = some bs.length) ∧ relationsHold C env plen pad r = true := by
  unfold relationsHold at h
  rw [Bool.and_eq_true] at h
  refine ⟨?_, h.2⟩
  have h1 := h.1
  split at h1
  · exact absurd rfl hn
  · rename_i bs _ _
    exact ⟨bs, by assumption, by simpa using h1⟩
  · cases h1

theorem rel_readArr {C : Codecs} {env : Env} {plen pad : Nat} {b : Blk} {f : String} {n : Nat} {r : List UStmt}
    (h : relationsHold C env plen pad (.readArr b f n :: r) = true) :
    (∃ bs, env.get f = some (.b bs) ∧ n = bs.length) ∧ relationsHold C env plen pad r = true := by
  unfold relationsHold at h
  rw [Bool.and_eq_true] at h
  refine ⟨?_, h.2⟩
  have h1 := h.1
  split at h1
  · rename_i bs _
    exact ⟨bs, by assumption, by have : bs.length = n := by simpa using h1
                                 exact this.symm⟩
  · cases h1

theorem rel_readSub {C : Codecs} {env : Env} {plen pad : Nat} {b : Blk} {f t : String} {win : Option Nat}
    {x y z : Bool} {r : List UStmt}
    (h : relationsHold C env plen pad (.readSub b f t win x y z :: r) = true) :
    (∃ v, env.get f = some (.t v) ∧ tupOk C t v = true) ∧ relationsHold C env plen pad r = true := by
  unfold relationsHold at h
  rw [Bool.and_eq_true] at h
  refine ⟨?_, h.2⟩
  have h1 := h.1
  split at h1
  · rename_i v _
    exact ⟨v, by assumption, h1⟩
  · cases h1

/-! ### the invariant: where the offset stands in the two streams -/

def pick (P D : Bytes) : Blk → Bytes
  | .P => P
  | .D => D

theorem blk_eq_pick (s : UState) (b : Blk) : s.blk b = pick s.P s.D b := by cases b <;> rfl

/-- `u`: the slots still to be read.  A block no read has touched is the encoding of all its slots
    (or has none); the block being read splits at `off` into what has been read and the encoding of
    its remaining slots; after `offset = 0` the offset is 0. -/
structure Inv (C : Codecs) (env' : Env) (pos : UPos) (P D : Bytes) (off : Nat) (u : List Slot) : Prop where
  fresh : ∀ b, b ∉ pos.used →
    u.filter (·.blk == b) = [] ∨ pick P D b = layoutBytes C env' (u.filter (·.blk == b))
  cur : ∀ b, pos.cur = some b →
    ∃ pre, pick P D b = pre ++ layoutBytes C env' (u.filter (·.blk == b)) ∧ off = pre.length
  zero : pos.cur = none → off = 0

theorem filter_blk_self (sl : Slot) (u : List Slot) :
    (sl :: u).filter (·.blk == sl.blk) = sl :: u.filter (·.blk == sl.blk) := by
  simp

theorem filter_blk_ne (sl : Slot) (u : List Slot) (b : Blk) (h : b ≠ sl.blk) :
    (sl :: u).filter (·.blk == b) = u.filter (·.blk == b) := by
  have : (sl.blk == b) = false := by simpa using fun e => h e.symm
  simp [this]

theorem canRead_cases {pos : UPos} {b : Blk} (h : pos.canRead b = true) :
    pos.cur = some b ∨ (pos.cur = none ∧ b ∉ pos.used) := by
  unfold UPos.canRead at h
  rcases Bool.or_eq_true_iff.mp h with h | h
  · left; simpa using h
  · right; simpa using h

theorem Inv.at {C : Codecs} {env' : Env} {pos : UPos} {P D : Bytes} {off : Nat} {sl : Slot} {u' : List Slot}
    (h : Inv C env' pos P D off (sl :: u')) (hc : pos.canRead sl.blk = true) :
    ∃ pre, pick P D sl.blk = pre ++ (slotBytes C env' sl ++ layoutBytes C env' (u'.filter (·.blk == sl.blk))) ∧
      off = pre.length := by
  rcases canRead_cases hc with hcur | ⟨hnone, hfresh⟩
  · obtain ⟨pre, h1, h2⟩ := h.cur _ hcur
    rw [filter_blk_self, layoutBytes_cons] at h1
    exact ⟨pre, h1, h2⟩
  · rcases h.fresh _ hfresh with h1 | h1
    · rw [filter_blk_self] at h1; cases h1
    · rw [filter_blk_self, layoutBytes_cons] at h1
      exact ⟨[], by simpa using h1, by simpa using h.zero hnone⟩

theorem Inv.step {C : Codecs} {env' : Env} {pos : UPos} {P D : Bytes} {off : Nat} {sl : Slot} {u' : List Slot}
    (h : Inv C env' pos P D off (sl :: u')) (hc : pos.canRead sl.blk = true) :
    Inv C env' (pos.read sl.blk) P D (off + (slotBytes C env' sl).length) u' := by
  refine ⟨?_, ?_, ?_⟩
  · intro b hb
    simp only [UPos.read, List.mem_cons, not_or] at hb
    have := h.fresh b hb.2
    rwa [filter_blk_ne sl u' b hb.1] at this
  · intro b hb
    simp only [UPos.read, Option.some.injEq] at hb
    subst hb
    obtain ⟨pre, h1, h2⟩ := h.at hc
    exact ⟨pre ++ slotBytes C env' sl, by rw [h1]; simp, by simp [h2]⟩
  · intro hn; simp [UPos.read] at hn

theorem Inv.reset {C : Codecs} {env' : Env} {pos : UPos} {P D : Bytes} {off : Nat} {u : List Slot}
    (h : Inv C env' pos P D off u) : Inv C env' pos.reset P D 0 u :=
  ⟨h.fresh, by intro b hb; simp [UPos.reset] at hb, fun _ => rfl⟩

/-! ### small facts about the static predicates -/

theorem restOnlyLast_cons {sl : Slot} {l : List Slot} (h : restOnlyLast (sl :: l) = true) : restOnlyLast l = true := by
  cases sl <;> try (simpa [restOnlyLast] using h)
  rename_i b f len
  cases len <;> simp [restOnlyLast] at h
  · exact h.2
  · exact h

theorem restOnlyLast_tail {sl : Slot} {u : List Slot}
    (h : ∀ b, restOnlyLast ((sl :: u).filter (·.blk == b)) = true) :
    ∀ b, restOnlyLast (u.filter (·.blk == b)) = true := by
  intro b
  have := h b
  by_cases hb : b = sl.blk
  · subst hb; rw [filter_blk_self] at this; exact restOnlyLast_cons this
  · rwa [filter_blk_ne sl u b hb] at this

theorem mem_shift {g : String} {seen : List String} {sl : Slot} {u' : List Slot}
    (h : g ∈ seen ∨ g ∈ (sl :: u').map Slot.field) : g ∈ sl.field :: seen ∨ g ∈ u'.map Slot.field := by
  simp only [List.map_cons, List.mem_cons] at h ⊢
  rcases h with h | h | h
  · exact Or.inl (Or.inr h)
  · exact Or.inl (Or.inl h)
  · exact Or.inr h

theorem Agree.weaken {f : String} {fs : List String} {e1 e2 : Env} (h : Agree (f :: fs) e1 e2) : Agree fs e1 e2 :=
  fun g hg => h g (List.mem_cons_of_mem _ hg)

/-- the early `return 0, nil` cannot happen: a block that has slots is tested and is not empty -/
def NoFire (hp hd : Bool) (P D : Bytes) : Prop := (hp = true ∧ P ≠ []) ∨ (hd = true ∧ D ≠ [])

/-! ### a guard in front of a read cannot fail -/

theorem guard_passes {C : Codecs} {T : String → Prop} (hC : LawfulCodecs C T) (env' : Env) (plen : Nat) (hp hd : Bool)
    (b : Blk) (e : Expr) (r : List UStmt) :
    ∀ (u : List Slot) (pos : UPos) (seen : List String) (s : UState) (pad : Nat),
      layoutU r = some u → okU hp hd pos seen r = true → guardFits b e r = true →
      relationsHold C env' plen pad r = true →
      (∀ sl ∈ u, SlotFit C T env' sl) →
      Inv C env' pos s.P s.D s.offset u → Agree seen s.env env' →
      ∃ n, evalExpr s e = some n ∧ s.offset + n ≤ (s.blk b).length := by
  induction r using layoutU.induct with
  | case1 => intro u pos seen s pad _ _ hg; simp [guardFits] at hg
  | case2 p d r _ => intro u pos seen s pad _ _ hg; simp [guardFits] at hg
  | case3 r _ => intro u pos seen s pad _ _ hg; simp [guardFits] at hg
  | case4 b' e' r _ => intro u pos seen s pad _ _ hg; simp [guardFits] at hg
  | case5 b' e' f n r _ =>
    intro u pos seen s pad hl hok hg hrel hfit hinv hag
    simp only [layoutU, if_true, Option.map_eq_some_iff] at hl
    obtain ⟨u', hl', rfl⟩ := hl
    simp only [okU, Bool.and_eq_true] at hok
    simp only [guardFits, Bool.and_eq_true, beq_iff_eq] at hg
    obtain ⟨rfl, hle⟩ := hg
    obtain ⟨x, hx, hlt⟩ := hfit (.int b n e' f) (List.mem_cons_self ..)
    obtain ⟨pre, hblk, hoff⟩ := hinv.at (sl := .int b n e' f) hok.1
    obtain ⟨j, hj, hjn⟩ := exprLe_eval s e (.lit n) hle n rfl
    refine ⟨j, hj, ?_⟩
    rw [blk_eq_pick]
    have hlen := congrArg List.length hblk
    simp only [Slot.blk, slotBytes, hx, List.length_append, intBytes_length] at hlen
    omega
  | case6 b' w e' f n r hne => intro u pos seen s pad hl; simp [layoutU, hne] at hl
  | case7 b' e' f n r _ =>
    intro u pos seen s pad hl hok hg hrel hfit hinv hag
    simp only [layoutU, if_true, Option.map_eq_some_iff] at hl
    obtain ⟨u', hl', rfl⟩ := hl
    simp only [okU, Bool.and_eq_true] at hok
    simp only [guardFits, Bool.and_eq_true, beq_iff_eq] at hg
    obtain ⟨rfl, hle⟩ := hg
    obtain ⟨x, hx, hlt⟩ := hfit (.int b n e' f) (List.mem_cons_self ..)
    obtain ⟨pre, hblk, hoff⟩ := hinv.at (sl := .int b n e' f) hok.1
    obtain ⟨j, hj, hjn⟩ := exprLe_eval s e (.lit n) hle n rfl
    refine ⟨j, hj, ?_⟩
    rw [blk_eq_pick]
    have hlen := congrArg List.length hblk
    simp only [Slot.blk, slotBytes, hx, List.length_append, intBytes_length] at hlen
    omega
  | case8 b' w e' f n r hne => intro u pos seen s pad hl; simp [layoutU, hne] at hl
  | case9 b' f r _ =>
    intro u pos seen s pad hl hok hg hrel hfit hinv hag
    simp only [layoutU, Option.map_eq_some_iff] at hl
    obtain ⟨u', hl', rfl⟩ := hl
    simp only [okU, Bool.and_eq_true] at hok
    simp only [guardFits, Bool.and_eq_true, beq_iff_eq] at hg
    obtain ⟨rfl, hle⟩ := hg
    obtain ⟨x, hx, hlt⟩ := hfit (.u8 b f) (List.mem_cons_self ..)
    obtain ⟨pre, hblk, hoff⟩ := hinv.at (sl := .u8 b f) hok.1
    obtain ⟨j, hj, hjn⟩ := exprLe_eval s e (.lit 1) hle 1 rfl
    refine ⟨j, hj, ?_⟩
    rw [blk_eq_pick]
    have hlen := congrArg List.length hblk
    simp only [Slot.blk, slotBytes, hx, List.length_append, List.length_cons, List.length_nil] at hlen
    omega
  | case10 b' f m r _ =>
    intro u pos seen s pad hl hok hg hrel hfit hinv hag
    simp only [layoutU, if_true, Option.map_eq_some_iff] at hl
    obtain ⟨u', hl', rfl⟩ := hl
    simp only [okU, Bool.and_eq_true] at hok
    simp only [guardFits, Bool.and_eq_true, beq_iff_eq] at hg
    obtain ⟨rfl, hle⟩ := hg
    obtain ⟨⟨bs, hget, heval⟩, _⟩ := rel_readBytes hrel (closed_ne_pad hok.1.2)
    obtain ⟨pre, hblk, hoff⟩ := hinv.at (sl := .bytes b f (some m)) hok.1.1
    have hm : evalExpr s m = some bs.length := by rw [evalExpr_closed s env' seen hag m hok.1.2, heval]
    obtain ⟨j, hj, hjn⟩ := exprLe_eval s e m hle _ hm
    refine ⟨j, hj, ?_⟩
    rw [blk_eq_pick]
    have hlen := congrArg List.length hblk
    simp only [Slot.blk, slotBytes, hget, List.length_append] at hlen
    omega
  | case11 b' f n m r hne => intro u pos seen s pad hl; simp [layoutU, hne] at hl
  | case12 b' g r _ => intro u pos seen s pad _ _ hg; simp [guardFits] at hg
  | case13 b' f g r hne => intro u pos seen s pad hl; simp [layoutU, hne] at hl
  | case14 b' f m r _ =>
    intro u pos seen s pad hl hok hg hrel hfit hinv hag
    simp only [layoutU, if_true, Option.map_eq_some_iff] at hl
    obtain ⟨u', hl', rfl⟩ := hl
    simp only [okU, Bool.and_eq_true] at hok
    simp only [guardFits, Bool.and_eq_true, beq_iff_eq] at hg
    obtain ⟨rfl, hle⟩ := hg
    obtain ⟨⟨bs, hget, hm⟩, _⟩ := rel_readArr hrel
    obtain ⟨pre, hblk, hoff⟩ := hinv.at (sl := .arr b f) hok.1
    obtain ⟨j, hj, hjn⟩ := exprLe_eval s e (.lit m) hle m rfl
    refine ⟨j, hj, ?_⟩
    rw [blk_eq_pick]
    have hlen := congrArg List.length hblk
    simp only [Slot.blk, slotBytes, hget, List.length_append] at hlen
    omega
  | case15 b' f n m r hne => intro u pos seen s pad hl; simp [layoutU, hne] at hl
  | case16 b' f t win r _ =>
    intro u pos seen s pad hl hok hg hrel hfit hinv hag
    simp only [layoutU, Option.map_eq_some_iff] at hl
    obtain ⟨u', hl', rfl⟩ := hl
    simp only [okU, Bool.and_eq_true] at hok
    simp only [guardFits, Bool.and_eq_true, beq_iff_eq] at hg
    obtain ⟨rfl, hle⟩ := hg
    obtain ⟨v, bs, hget, henc, hT⟩ := hfit (.sub b f t win) (List.mem_cons_self ..)
    obtain ⟨pre, hblk, hoff⟩ := hinv.at (sl := .sub b f t win) hok.1.1
    cases hfs : fixedSize t with
    | none => simp [hfs] at hle
    | some k =>
      simp only [hfs] at hle
      have hk := hC.size t k v bs v hT hfs henc
      obtain ⟨j, hj, hjn⟩ := exprLe_eval s e (.lit k) hle k rfl
      refine ⟨j, hj, ?_⟩
      rw [blk_eq_pick]
      have hlen := congrArg List.length hblk
      simp only [Slot.blk, slotBytes, hget, henc, List.length_append] at hlen
      omega
  | case17 head tail h1 h2 h3 h4 h5 h6 h7 h8 h9 h10 =>
    intro u pos seen s pad hl
    rw [layoutU] at hl
    · cases hl
    all_goals assumption

/-! ### the AndX stanza -/

/-- the state after the AndX stanza ran on a parameter stream that starts with the four AndX bytes -/
def afterAndX (s : UState) (a b c d : UInt8) (rest : Bytes) : UState :=
  { s with P := rest, env := s.env.set andxField (andxVal a b c d) }

/-- on a parameter stream that starts with four bytes the stanza (and the early returns in front of it,
    which test a non-empty stream) does nothing but store the AndX block and cut it off -/
theorem go_andx_prefix (C : Codecs) (a b c d : UInt8) (rest : Bytes) :
    ∀ (stmts body : List UStmt) (s : UState), splitAndX stmts = some body → s.P = a :: b :: c :: d :: rest →
      runU.go C s stmts = runU.go C (afterAndX s a b c d rest) body := by
  intro stmts
  induction stmts using splitAndX.induct with
  | case1 dd r ih =>
    intro body s hs hP
    rw [splitAndX] at hs
    have hst : runUStmt C s (.retIfEmpty true dd) = .next s := by
      rw [runUStmt, hP]; simp
    rw [go_next r hst]
    exact ih body s hs hP
  | case2 r =>
    intro body s hs hP
    rw [splitAndX] at hs
    injection hs with hs
    subst hs
    have h1 : runUStmt C s .readAndX = .next { s with env := s.env.set andxField (andxVal a b c d) } := by
      rw [runUStmt, hP]
    have h2 : runUStmt C { s with env := s.env.set andxField (andxVal a b c d) } (.resliceP 4) =
        .next (afterAndX s a b c d rest) := by
      rw [runUStmt]
      have : sliceFrom s.P 4 = .ok rest := by rw [hP]; simp [sliceFrom]
      simp only [this, liftO, afterAndX]
    rw [go_next2 r h1 h2]
  | case3 stmts h1 h2 =>
    intro body s hs
    rw [splitAndX] at hs
    · cases hs
    all_goals assumption

/-- the relations `consistent` checks do not see the stanza -/
theorem relationsHold_splitAndX (C : Codecs) (env : Env) (plen : Nat) :
    ∀ (stmts body : List UStmt) (pad : Nat), splitAndX stmts = some body →
      relationsHold C env plen pad stmts = relationsHold C env plen pad body := by
  intro stmts
  induction stmts using splitAndX.induct with
  | case1 dd r ih =>
    intro body pad hs
    rw [splitAndX] at hs
    have : relationsHold C env plen pad (.retIfEmpty true dd :: r) = relationsHold C env plen pad r := by simp [relationsHold]
    rw [this]; exact ih body pad hs
  | case2 r =>
    intro body pad hs
    rw [splitAndX] at hs
    injection hs with hs
    subst hs
    simp [relationsHold]
  | case3 stmts h1 h2 =>
    intro body pad hs
    rw [splitAndX] at hs
    · cases hs
    all_goals assumption

/-! ### the normal form of whole-block decodes -/

/-- at `offset = 0` the whole block and `blk[offset:]` are the same bytes -/
theorem readSub_whole_zero (C : Codecs) (s : UState) (h0 : s.offset = 0) (b : Blk) (f t : String) (ck st : Bool) :
    runUStmt C s (.readSub b f t none true ck st) = runUStmt C s (.readSub b f t none false ck st) := by
  simp only [runUStmt, h0, sliceFrom, Nat.zero_le, if_true, List.drop_zero, Bool.false_eq_true, if_false]

/-- the run does not see the normal form -/
theorem go_normWhole (C : Codecs) : ∀ (stmts : List UStmt) (s : UState),
    runU.go C s (normWhole stmts) = runU.go C s stmts := by
  intro stmts
  induction stmts using normWhole.induct with
  | case1 b f t ck st r ih =>
    intro s
    rw [normWhole]
    have h1 : runUStmt C s .resetOffset = .next { s with offset := 0 } := by rw [runUStmt]
    rw [go_next _ h1, go_next _ h1]
    have h2 := readSub_whole_zero C { s with offset := 0 } rfl b f t ck st
    rw [runU.go, runU.go, h2]
    cases runUStmt C { s with offset := 0 } (.readSub b f t none false ck st) with
    | next s' => exact ih s'
    | ret => rfl
    | err => rfl
    | panic => rfl
    | stuck => rfl
  | case2 st r hne ih =>
    intro s
    rw [normWhole]
    · rw [runU.go, runU.go]
      cases runUStmt C s st with
      | next s' => exact ih s'
      | ret => rfl
      | err => rfl
      | panic => rfl
      | stuck => rfl
    · exact hne
  | case3 => intro s; rfl

/-- the relations `consistent` checks do not see the normal form -/
theorem relationsHold_normWhole (C : Codecs) (env : Env) (plen : Nat) : ∀ (stmts : List UStmt) (pad : Nat),
    relationsHold C env plen pad (normWhole stmts) = relationsHold C env plen pad stmts := by
  intro stmts
  induction stmts using normWhole.induct with
  | case1 b f t ck st r ih =>
    intro pad
    rw [normWhole]
    simp only [relationsHold, ih]
  | case2 st r hne ih =>
    intro pad
    rw [normWhole]
    · unfold relationsHold
      cases st <;> simp only [ih]
    · exact hne
  | case3 => intro pad; rfl

/-! ### the unmarshal program reads back what the layout encodes -/

theorem runU_go_layout {C : Codecs} {T : String → Prop} (hC : LawfulCodecs C T) (env' : Env) (plen : Nat) (hp hd : Bool)
    (stmts : List UStmt) :
    ∀ (u : List Slot) (pos : UPos) (seen : List String) (s : UState) (pad : Nat),
      layoutU stmts = some u → okU hp hd pos seen stmts = true →
      relationsHold C env' plen pad stmts = true →
      (∀ sl ∈ u, SlotFit C T env' sl) →
      (∀ b, restOnlyLast (u.filter (·.blk == b)) = true) →
      Inv C env' pos s.P s.D s.offset u → Agree seen s.env env' →
      ∃ d, runU.go C s stmts = .ok d ∧ (∀ g ∈ seen, d.get g = env'.get g) ∧
        (NoFire hp hd s.P s.D → ∀ g, (g ∈ seen ∨ g ∈ u.map Slot.field) → d.get g = env'.get g) := by
  induction stmts using layoutU.induct with
  | case1 =>
    intro u pos seen s pad hl _ _ _ _ _ hag
    simp only [layoutU, Option.some.injEq] at hl; subst hl
    refine ⟨s.env, go_nil C s, fun g hg => hag g hg, fun _ g hg => ?_⟩
    rcases hg with hg | hg
    · exact hag g hg
    · simp at hg
  | case2 p d r ih =>
    intro u pos seen s pad hl hok hrel hfit hrest hinv hag
    simp only [layoutU] at hl
    simp only [okU, Bool.and_eq_true] at hok
    have hrel' : relationsHold C env' plen pad r = true := by simpa [relationsHold] using hrel
    by_cases hfire : ((!p || s.P.isEmpty) && (!d || s.D.isEmpty)) = true
    · have hst : runUStmt C s (.retIfEmpty p d) = .ret := by rw [runUStmt, if_pos hfire]
      refine ⟨s.env, go_ret r hst, fun g hg => hag g hg, fun hnf => ?_⟩
      exfalso
      obtain ⟨⟨hp1, hd1⟩, _⟩ := hok
      simp only [Bool.and_eq_true, Bool.or_eq_true, Bool.not_eq_true', List.isEmpty_iff] at hfire
      rcases hnf with ⟨h1, h2⟩ | ⟨h1, h2⟩
      · subst h1
        have : p = true := by simpa using hp1
        subst this
        rcases hfire.1 with h | h
        · cases h
        · exact h2 h
      · subst h1
        have : d = true := by simpa using hd1
        subst this
        rcases hfire.2 with h | h
        · cases h
        · exact h2 h
    · have hst : runUStmt C s (.retIfEmpty p d) = .next s := by rw [runUStmt, if_neg hfire]
      rw [go_next r hst]
      exact ih u pos seen s pad hl hok.2 hrel' hfit hrest hinv hag
  | case3 r ih =>
    intro u pos seen s pad hl hok hrel hfit hrest hinv hag
    simp only [layoutU] at hl
    simp only [okU] at hok
    have hrel' : relationsHold C env' plen pad r = true := by simpa [relationsHold] using hrel
    have hst : runUStmt C s .resetOffset = .next { s with offset := 0 } := by rw [runUStmt]
    rw [go_next r hst]
    exact ih u pos.reset seen _ pad hl hok hrel' hfit hrest hinv.reset hag
  | case4 b e r ih =>
    intro u pos seen s pad hl hok hrel hfit hrest hinv hag
    simp only [layoutU] at hl
    simp only [okU, Bool.and_eq_true] at hok
    have hrel' : relationsHold C env' plen pad r = true := by simpa [relationsHold] using hrel
    obtain ⟨n, hn, hle⟩ := guard_passes hC env' plen hp hd b e r u pos seen s pad hl hok.2 hok.1 hrel' hfit hinv hag
    have hst : runUStmt C s (.guard b e) = .next s := by
      rw [runUStmt, hn]; simp only []; rw [if_neg (by omega)]
    rw [go_next r hst]
    exact ih u pos seen s pad hl hok.2 hrel' hfit hrest hinv hag
  | case5 b e f n r ih =>
    intro u pos seen s pad hl hok hrel hfit hrest hinv hag
    simp only [layoutU, if_true, Option.map_eq_some_iff] at hl
    obtain ⟨u', hl', rfl⟩ := hl
    simp only [okU, Bool.and_eq_true] at hok
    have hrel' : relationsHold C env' plen pad r = true := by simpa [relationsHold] using hrel
    obtain ⟨x, hx, hlt⟩ := hfit (.int b n e f) (List.mem_cons_self ..)
    have hsb : slotBytes C env' (.int b n e f) = intBytes n e x := by simp [slotBytes, hx]
    obtain ⟨pre, hblk, hoff⟩ := hinv.at (sl := .int b n e f) hok.1
    rw [hsb] at hblk
    have h1 := step_readInt C s b n e f pre _ _ ((blk_eq_pick s b).trans hblk) hoff (intBytes_length n e x).symm
    rw [intVal_intBytes n e x hlt] at h1
    have h2 := step_advance C { s with env := s.env.set f (.n x) } (.lit n) n rfl
    have hinv' := hinv.step (sl := .int b n e f) hok.1
    rw [hsb, intBytes_length] at hinv'
    obtain ⟨d, hd, hseen, hagree⟩ := ih u' (pos.read b) (f :: seen)
      { s with env := s.env.set f (.n x), offset := s.offset + n } pad hl' hok.2 hrel'
      (fun sl h => hfit sl (List.mem_cons_of_mem _ h)) (restOnlyLast_tail hrest) hinv' (hag.set f (.n x) hx)
    exact ⟨d, by rw [go_next2 r h1 h2]; exact hd, fun g hg => hseen g (List.mem_cons_of_mem _ hg),
      fun hnf g hg => hagree hnf g (mem_shift hg)⟩
  | case6 b w e f n r hne => intro u pos seen s pad hl; simp [layoutU, hne] at hl
  | case7 b e f n r ih =>
    intro u pos seen s pad hl hok hrel hfit hrest hinv hag
    simp only [layoutU, if_true, Option.map_eq_some_iff] at hl
    obtain ⟨u', hl', rfl⟩ := hl
    simp only [okU, Bool.and_eq_true] at hok
    have hrel' : relationsHold C env' plen pad r = true := by simpa [relationsHold] using hrel
    obtain ⟨x, hx, hlt⟩ := hfit (.int b n e f) (List.mem_cons_self ..)
    have hsb : slotBytes C env' (.int b n e f) = intBytes n e x := by simp [slotBytes, hx]
    obtain ⟨pre, hblk, hoff⟩ := hinv.at (sl := .int b n e f) hok.1
    rw [hsb] at hblk
    have h1 := step_readQuad C s b n e f pre _ _ ((blk_eq_pick s b).trans hblk) hoff (intBytes_length n e x).symm
    rw [intVal_intBytes n e x hlt] at h1
    have h2 := step_advance C { s with env := s.env.set f (.n x) } (.lit n) n rfl
    have hinv' := hinv.step (sl := .int b n e f) hok.1
    rw [hsb, intBytes_length] at hinv'
    obtain ⟨d, hd, hseen, hagree⟩ := ih u' (pos.read b) (f :: seen)
      { s with env := s.env.set f (.n x), offset := s.offset + n } pad hl' hok.2 hrel'
      (fun sl h => hfit sl (List.mem_cons_of_mem _ h)) (restOnlyLast_tail hrest) hinv' (hag.set f (.n x) hx)
    exact ⟨d, by rw [go_next2 r h1 h2]; exact hd, fun g hg => hseen g (List.mem_cons_of_mem _ hg),
      fun hnf g hg => hagree hnf g (mem_shift hg)⟩
  | case8 b w e f n r hne => intro u pos seen s pad hl; simp [layoutU, hne] at hl
  | case9 b f r ih =>
    intro u pos seen s pad hl hok hrel hfit hrest hinv hag
    simp only [layoutU, Option.map_eq_some_iff] at hl
    obtain ⟨u', hl', rfl⟩ := hl
    simp only [okU, Bool.and_eq_true] at hok
    have hrel' : relationsHold C env' plen pad r = true := by simpa [relationsHold] using hrel
    obtain ⟨x, hx, hlt⟩ := hfit (.u8 b f) (List.mem_cons_self ..)
    have hsb : slotBytes C env' (.u8 b f) = [UInt8.ofNat x] := by simp [slotBytes, hx]
    obtain ⟨pre, hblk, hoff⟩ := hinv.at (sl := .u8 b f) hok.1
    rw [hsb, List.singleton_append] at hblk
    have h1 := step_readU8 C s b f pre _ _ ((blk_eq_pick s b).trans hblk) hoff
    rw [toNat_ofNat_lt x hlt] at h1
    have h2 := step_advance C { s with env := s.env.set f (.n x) } (.lit 1) 1 rfl
    have hinv' := hinv.step (sl := .u8 b f) hok.1
    rw [hsb] at hinv'
    obtain ⟨d, hd, hseen, hagree⟩ := ih u' (pos.read b) (f :: seen)
      { s with env := s.env.set f (.n x), offset := s.offset + 1 } pad hl' hok.2 hrel'
      (fun sl h => hfit sl (List.mem_cons_of_mem _ h)) (restOnlyLast_tail hrest) hinv' (hag.set f (.n x) hx)
    exact ⟨d, by rw [go_next2 r h1 h2]; exact hd, fun g hg => hseen g (List.mem_cons_of_mem _ hg),
      fun hnf g hg => hagree hnf g (mem_shift hg)⟩
  | case10 b f m r ih =>
    intro u pos seen s pad hl hok hrel hfit hrest hinv hag
    simp only [layoutU, if_true, Option.map_eq_some_iff] at hl
    obtain ⟨u', hl', rfl⟩ := hl
    simp only [okU, Bool.and_eq_true] at hok
    obtain ⟨⟨bs, hget, heval⟩, hrel1⟩ := rel_readBytes hrel (closed_ne_pad hok.1.2)
    have hrel' : relationsHold C env' plen pad r = true := by simpa [relationsHold] using hrel1
    have hsb : slotBytes C env' (.bytes b f (some m)) = bs := by simp [slotBytes, hget]
    obtain ⟨pre, hblk, hoff⟩ := hinv.at (sl := .bytes b f (some m)) hok.1.1
    rw [hsb] at hblk
    have hm : evalExpr s m = some bs.length := by rw [evalExpr_closed s env' seen hag m hok.1.2, heval]
    have h1 := step_readBytes C s b f m bs.length pre _ _ ((blk_eq_pick s b).trans hblk) hoff hm rfl
    have hag' := hag.set f (.b bs) hget
    have hm' : evalExpr { s with env := s.env.set f (.b bs) } m = some bs.length := by
      rw [evalExpr_closed _ env' seen hag'.weaken m hok.1.2, heval]
    have h2 := step_advance C { s with env := s.env.set f (.b bs) } m bs.length hm'
    have hinv' := hinv.step (sl := .bytes b f (some m)) hok.1.1
    rw [hsb] at hinv'
    obtain ⟨d, hd, hseen, hagree⟩ := ih u' (pos.read b) (f :: seen)
      { s with env := s.env.set f (.b bs), offset := s.offset + bs.length } pad hl' hok.2 hrel'
      (fun sl h => hfit sl (List.mem_cons_of_mem _ h)) (restOnlyLast_tail hrest) hinv' hag'
    exact ⟨d, by rw [go_next2 r h1 h2]; exact hd, fun g hg => hseen g (List.mem_cons_of_mem _ hg),
      fun hnf g hg => hagree hnf g (mem_shift hg)⟩
  | case11 b f n m r hne => intro u pos seen s pad hl; simp [layoutU, hne] at hl
  | case12 b g r ih =>
    intro u pos seen s pad hl hok hrel hfit hrest hinv hag
    simp only [layoutU, if_true, Option.map_eq_some_iff] at hl
    obtain ⟨u', hl', rfl⟩ := hl
    simp only [okU, Bool.and_eq_true] at hok
    have hrel' : relationsHold C env' plen pad r = true := by simpa [relationsHold] using hrel
    obtain ⟨bs, hget⟩ := hfit (.bytes b g none) (List.mem_cons_self ..)
    have hsb : slotBytes C env' (.bytes b g none) = bs := by simp [slotBytes, hget]
    obtain ⟨pre, hblk, hoff⟩ := hinv.at (sl := .bytes b g none) hok.1
    have hlast := hrest b
    have hf : (Slot.bytes b g none :: u').filter (·.blk == b) = Slot.bytes b g none :: u'.filter (·.blk == b) :=
      filter_blk_self (.bytes b g none) u'
    rw [hf] at hlast
    simp only [restOnlyLast, Bool.and_eq_true, List.isEmpty_iff] at hlast
    replace hblk : pick s.P s.D b = pre ++ (slotBytes C env' (.bytes b g none) ++
        layoutBytes C env' (u'.filter (·.blk == b))) := hblk
    rw [hsb, hlast.1, layoutBytes_nil, List.append_nil] at hblk
    have h1 := step_readRest C s b g pre bs ((blk_eq_pick s b).trans hblk) hoff
    have h2 := step_advance C { s with env := s.env.set g (.b bs) } (.flen g) bs.length
      (by simp [evalExpr, Env.get_set_self])
    have hinv' := hinv.step (sl := .bytes b g none) hok.1
    rw [hsb] at hinv'
    obtain ⟨d, hd, hseen, hagree⟩ := ih u' (pos.read b) (g :: seen)
      { s with env := s.env.set g (.b bs), offset := s.offset + bs.length } pad hl' hok.2 hrel'
      (fun sl h => hfit sl (List.mem_cons_of_mem _ h)) (restOnlyLast_tail hrest) hinv' (hag.set g (.b bs) hget)
    exact ⟨d, by rw [go_next2 r h1 h2]; exact hd, fun g hg => hseen g (List.mem_cons_of_mem _ hg),
      fun hnf g hg => hagree hnf g (mem_shift hg)⟩
  | case13 b f g r hne => intro u pos seen s pad hl; simp [layoutU, hne] at hl
  | case14 b f m r ih =>
    intro u pos seen s pad hl hok hrel hfit hrest hinv hag
    simp only [layoutU, if_true, Option.map_eq_some_iff] at hl
    obtain ⟨u', hl', rfl⟩ := hl
    simp only [okU, Bool.and_eq_true] at hok
    obtain ⟨⟨bs, hget, hm⟩, hrel1⟩ := rel_readArr hrel
    have hrel' : relationsHold C env' plen pad r = true := by simpa [relationsHold] using hrel1
    have hsb : slotBytes C env' (.arr b f) = bs := by simp [slotBytes, hget]
    obtain ⟨pre, hblk, hoff⟩ := hinv.at (sl := .arr b f) hok.1
    rw [hsb] at hblk
    have h1 := step_readArr C s b f m pre _ _ ((blk_eq_pick s b).trans hblk) hoff hm
    have h2 := step_advance C { s with env := s.env.set f (.b bs) } (.lit m) m rfl
    have hinv' := hinv.step (sl := .arr b f) hok.1
    rw [hsb, ← hm] at hinv'
    obtain ⟨d, hd, hseen, hagree⟩ := ih u' (pos.read b) (f :: seen)
      { s with env := s.env.set f (.b bs), offset := s.offset + m } pad hl' hok.2 hrel'
      (fun sl h => hfit sl (List.mem_cons_of_mem _ h)) (restOnlyLast_tail hrest) hinv' (hag.set f (.b bs) hget)
    exact ⟨d, by rw [go_next2 r h1 h2]; exact hd, fun g hg => hseen g (List.mem_cons_of_mem _ hg),
      fun hnf g hg => hagree hnf g (mem_shift hg)⟩
  | case15 b f n m r hne => intro u pos seen s pad hl; simp [layoutU, hne] at hl
  | case16 b f t win r ih =>
    intro u pos seen s pad hl hok hrel hfit hrest hinv hag
    simp only [layoutU, Option.map_eq_some_iff] at hl
    obtain ⟨u', hl', rfl⟩ := hl
    simp only [okU, Bool.and_eq_true] at hok
    obtain ⟨⟨v2, hget2, htup⟩, hrel1⟩ := rel_readSub hrel
    have hrel' : relationsHold C env' plen pad r = true := by simpa [relationsHold] using hrel1
    obtain ⟨v, bs, hget, henc, hT⟩ := hfit (.sub b f t win) (List.mem_cons_self ..)
    have hv : v2 = v := by rw [hget] at hget2; injection hget2 with h; injection h with h; exact h.symm
    subst hv
    have hsb : slotBytes C env' (.sub b f t win) = bs := by simp [slotBytes, hget, henc]
    obtain ⟨pre, hblk, hoff⟩ := hinv.at (sl := .sub b f t win) hok.1.1
    rw [hsb] at hblk
    have hdec : ∀ suffix, suffix = [] ∨ win = none → C.dec t (bs ++ suffix) = .ok (v2, bs.length) := by
      intro suffix hs
      refine hC.rt t v2 bs v2 hT henc htup suffix ?_
      rcases hs with hs | hs
      · exact Or.inl hs
      · subst hs
        right
        simpa using hok.1.2
    have hwin : ∀ n, win = some n → n = bs.length := by
      intro n hn
      subst hn
      have hfs : fixedSize t = some n := by simpa using hok.1.2
      exact (hC.size t n v2 bs v2 hT hfs henc).symm
    have h1 := step_readSub C s b f t win pre bs _ v2 ((blk_eq_pick s b).trans hblk) hoff hwin hdec
    have h2 := step_advanceRead C { s with env := s.env.set f (.t v2), bytesRead := bs.length }
    have hinv' := hinv.step (sl := .sub b f t win) hok.1.1
    rw [hsb] at hinv'
    obtain ⟨d, hd, hseen, hagree⟩ := ih u' (pos.read b) (f :: seen)
      { s with env := s.env.set f (.t v2), bytesRead := bs.length, offset := s.offset + bs.length } pad hl' hok.2 hrel'
      (fun sl h => hfit sl (List.mem_cons_of_mem _ h)) (restOnlyLast_tail hrest) hinv' (hag.set f (.t v2) hget)
    exact ⟨d, by rw [go_next2 r h1 h2]; exact hd, fun g hg => hseen g (List.mem_cons_of_mem _ hg),
      fun hnf g hg => hagree hnf g (mem_shift hg)⟩
  | case17 head tail h1 h2 h3 h4 h5 h6 h7 h8 h9 h10 =>
    intro u pos seen s pad hl
    rw [layoutU] at hl
    · cases hl
    all_goals assumption

end Manticore.SmbIR
