/-
  `AllocCodecs std stdAlloc 130` (Lemmas/SmbAlloc.lean): every nested decoder of the SMB commands
  allocates at most its window plus 130 bytes, and what it returns is no bigger than that.
  Core Lean only.
-/
import Manticore.Model.SmbCodecsAlloc
import Manticore.Lemmas.SmbAlloc
import Manticore.Lemmas.SmbCodecsHonest
namespace Manticore.C06
open Manticore

theorem slice_length {α : Type} {b : List α} {lo hi : Nat} {r : List α} (h : slice b lo hi = .ok r) :
    r.length = hi - lo ∧ lo ≤ hi ∧ hi ≤ b.length := by
  unfold slice at h
  split at h
  · rename_i hc; cases h
    exact ⟨by simp only [List.length_take, List.length_drop]; omega, hc.1, hc.2⟩
  · cases h

namespace SmbString

theorem countedAlloc_le (b : Bytes) (extra : Nat) : countedAlloc b extra ≤ b.length := by
  unfold countedAlloc
  split
  · omega
  · split
    · split <;> omega
    · omega

theorem terminatedAlloc_le (b : Bytes) : terminatedAlloc b ≤ b.length := by
  unfold terminatedAlloc
  split
  · omega
  · rename_i i hi
    have := nulIndex_lt _ i hi
    simp only [List.length_drop] at this; omega

/-- **`SMB_STRING.Unmarshal` allocates no more than it is given** -/
theorem allocOf_le (b : Bytes) : allocOf b ≤ b.length := by
  unfold allocOf
  split
  · omega
  · rename_i f r
    have h1 := countedAlloc_le (f :: r)
    have h2 := terminatedAlloc_le (f :: r)
    repeat' split
    all_goals first | exact h1 _ | exact h2 | omega

theorem decodeCounted_alloc (f : UInt8) (b : Bytes) (extra : Nat) (v : V) (k : Nat)
    (h : decodeCounted f b extra = .ok (v, k)) : v.buffer.length = countedAlloc b extra := by
  unfold decodeCounted at h
  unfold countedAlloc
  split at h
  · cases h
  · rename_i h3
    rw [if_neg h3]
    split at h
    · rename_i len hl
      simp only [hl]
      split at h
      · cases h
      · rename_i hfit
        rw [if_neg hfit]
        split at h
        · rename_i buf hb
          simp only [Outcome.ok.injEq, Prod.mk.injEq] at h
          rw [← h.1]
          have := (slice_length hb).1
          simp only; omega
        · cases h
        · cases h
    · cases h
    · cases h

theorem decodeTerminated_alloc (f : UInt8) (b : Bytes) (v : V) (k : Nat)
    (h : decodeTerminated f b = .ok (v, k)) : v.buffer.length = terminatedAlloc b := by
  unfold decodeTerminated at h
  unfold terminatedAlloc
  split at h
  · cases h
  · rename_i i hi
    simp only [hi]
    simp only at h
    split at h
    · rename_i buf hb
      simp only [Outcome.ok.injEq, Prod.mk.injEq] at h
      rw [← h.1]
      have := (slice_length hb).1
      simp only; omega
    · cases h
    · cases h

/-- **the decoded buffer is exactly what was allocated** -/
theorem decode_alloc (b : Bytes) (v : V) (k : Nat) (h : decode b = .ok (v, k)) : v.buffer.length = allocOf b := by
  unfold decode at h
  split at h
  · cases h
  · rename_i hlen
    match b, hlen with
    | f :: r, _ =>
      have hi : index (f :: r) 0 = .ok f := rfl
      rw [hi] at h
      simp only at h
      unfold allocOf
      simp only
      split at h
      · rename_i h1; rw [if_pos h1]; exact decodeCounted_alloc _ _ _ _ _ h
      · rename_i h1; rw [if_neg h1]
        split at h
        · rename_i h2; rw [if_pos h2]; exact decodeTerminated_alloc _ _ _ _ h
        · rename_i h2; rw [if_neg h2]
          split at h
          · rename_i h3; rw [if_pos h3]; exact decodeCounted_alloc _ _ _ _ _ h
          · rename_i h3; rw [if_neg h3]
            split at h
            · rename_i h4; rw [if_pos h4]; exact decodeTerminated_alloc _ _ _ _ h
            · rename_i h4; rw [if_neg h4]
              split at h
              · rename_i h5; rw [if_pos h5]; exact decodeCounted_alloc _ _ _ _ _ h
              · cases h

/-- non-vacuity of the clause: with the `make` in front of the length check a three-byte input
    costs 65535 bytes -/
example : countedAllocEager [1, 0xff, 0xff] = 65535 := by decide
example : countedAlloc [1, 0xff, 0xff] 0 = 0 := by decide
example : allocOf [1, 2, 0, 65, 66] = 2 := by decide

end SmbString
end Manticore.C06

namespace Manticore.C06
open Manticore

theorem bind_ok_inv {α β : Type} {x : Outcome α} {f : α → Outcome β} {r : β} (h : (x >>= f) = .ok r) :
    ∃ a, x = .ok a ∧ f a = .ok r := by
  cases x with
  | ok a => exact ⟨a, rfl, h⟩
  | err => cases h
  | panic => cases h

/-- the resume key's string buffer is what `SMB_STRING.Unmarshal` allocated; the two arrays have their Go sizes -/
theorem ResumeKey.decode_alloc (b : Bytes) (r : ResumeKey.V) (k : Nat) (h : ResumeKey.decode b = .ok (r, k)) :
    r.str.buffer.length = SmbString.allocOf b ∧ r.serverState.length = 16 ∧ r.clientState.length = 4 := by
  unfold ResumeKey.decode at h
  split at h
  · rename_i s n hs
    split at h
    · cases h
    · split at h
      · rename_i x ss cs hx hss hcs
        simp only [Outcome.ok.injEq, Prod.mk.injEq] at h
        rw [← h.1]
        have h1 := (slice_length hss).1
        have h2 := (slice_length hcs).1
        exact ⟨SmbString.decode_alloc b s n hs, by simpa using h1, by simpa using h2⟩
      all_goals cases h
  · cases h
  · cases h

theorem DirInfo.decode_alloc (b : Bytes) (d : DirInfo.V) (k : Nat) (h : DirInfo.decode b = .ok (d, k)) :
    d.resumeKey.str.buffer.length = SmbString.allocOf b ∧ d.resumeKey.serverState.length = 16 ∧
    d.resumeKey.clientState.length = 4 ∧ d.fileName.buffer.length ≤ 14 := by
  unfold DirInfo.decode at h
  obtain ⟨d0, h0, h⟩ := bind_ok_inv h
  have hd0 : d0 = b := by
    unfold sliceFrom at h0; simp at h0; exact h0.symm
  subst hd0
  obtain ⟨⟨rk, n⟩, hrk, h⟩ := bind_ok_inv h
  simp only at h
  split at h
  · cases h
  · obtain ⟨attr, _, h⟩ := bind_ok_inv h
    split at h
    · cases h
    · obtain ⟨d1, _, h⟩ := bind_ok_inv h
      obtain ⟨⟨t, n1⟩, _, h⟩ := bind_ok_inv h
      simp only at h
      split at h
      · cases h
      · obtain ⟨d2, _, h⟩ := bind_ok_inv h
        obtain ⟨⟨dt, n2⟩, _, h⟩ := bind_ok_inv h
        simp only at h
        split at h
        · cases h
        · obtain ⟨size, _, h⟩ := bind_ok_inv h
          split at h
          · cases h
          · obtain ⟨d3, hd3, h⟩ := bind_ok_inv h
            obtain ⟨⟨fn, n3⟩, hfn, h⟩ := bind_ok_inv h
            simp only [Outcome.pure_eq, Outcome.ok.injEq, Prod.mk.injEq] at h
            rw [← h.1]
            obtain ⟨a1, a2, a3⟩ := ResumeKey.decode_alloc _ rk n hrk
            have hl3 := (slice_length hd3).1
            have := SmbString.decode_alloc d3 fn n3 hfn
            have := SmbString.allocOf_le d3
            exact ⟨a1, a2, a3, by simp only; omega⟩

/-! ## the envelope blocks as stand-alone decoders -/

theorem Parameters.readWords_length (data : Bytes) : ∀ (n i : Nat) (ws : List UInt16),
    Parameters.readWords data i n = .ok ws → ws.length = n
  | 0, i, ws, h => by simp only [Parameters.readWords, Outcome.ok.injEq] at h; rw [← h]; rfl
  | n+1, i, ws, h => by
    simp only [Parameters.readWords] at h
    split at h
    · split at h
      · rename_i ws' hws
        simp only [Outcome.ok.injEq] at h; rw [← h]
        simp [Parameters.readWords_length data n (i + 1) ws' hws]
      · cases h
      · cases h
    · cases h
    · cases h

/-- `Parameters.Unmarshal` makes `WordCount` words only when twice as many bytes are there -/
theorem Parameters.decode_alloc (b : Bytes) (v : Parameters.V) (k : Nat) (h : Parameters.decode b = .ok (v, k)) :
    2 * v.words.length < b.length := by
  unfold Parameters.decode at h
  split at h
  · cases h
  · rename_i hne
    split at h
    · rename_i wc hwc
      split at h
      · rename_i data hdata
        have hl : data.length = b.length - 1 := by
          unfold sliceFrom at hdata; split at hdata
          · cases hdata; simp
          · cases hdata
        split at h
        · split at h
          · cases h
          · rename_i hfit
            split at h
            · rename_i ws hws
              simp only [Outcome.ok.injEq, Prod.mk.injEq] at h
              rw [← h.1]
              have := Parameters.readWords_length data _ _ ws hws
              simp only; omega
            · cases h
            · cases h
        · simp only [Outcome.ok.injEq, Prod.mk.injEq] at h
          rw [← h.1]; simp; omega
      · cases h
      · cases h
    · cases h
    · cases h

/-- `Data.Unmarshal`: the bytes are a piece of the input behind the two-byte count -/
theorem Data.decode_alloc (b : Bytes) (v : Data.V) (k : Nat) (h : Data.decode b = .ok (v, k)) :
    v.bytes.length + 2 ≤ b.length := by
  unfold Data.decode at h
  split at h
  · cases h
  · split at h
    · cases h
    · rename_i h2
      split at h
      · split at h
        · rename_i data hdata
          have hl : data.length = b.length - 2 := by
            unfold sliceFrom at hdata; split at hdata
            · cases hdata; simp
            · cases hdata
          split at h
          · split at h
            · cases h
            · split at h
              · rename_i bytes hb
                simp only [Outcome.ok.injEq, Prod.mk.injEq] at h
                rw [← h.1]
                have := slice_length hb
                simp only; omega
              · cases h
              · cases h
          · simp only [Outcome.ok.injEq, Prod.mk.injEq] at h
            rw [← h.1]; simp; omega
        · cases h
        · cases h
      · cases h
      · cases h

end Manticore.C06

namespace Manticore.SmbCodecs
open Manticore Manticore.SmbIR Manticore.C06

theorem liftD_ok {α : Type} (d : Bytes → Outcome (α × Nat)) (to : α → Tup) (b : Bytes) (v : Tup) (k : Nat)
    (h : liftD d to b = .ok (v, k)) : ∃ a, d b = .ok (a, k) ∧ v = to a := by
  unfold liftD at h
  cases hd : d b with
  | ok r =>
    obtain ⟨a, n⟩ := r
    rw [hd] at h
    simp only [Outcome.map', Outcome.ok.injEq, Prod.mk.injEq] at h
    exact ⟨a, by rw [h.2], h.1.symm⟩
  | err => rw [hd] at h; cases h
  | panic => rw [hd] at h; cases h

/-- the dialect names are disjoint pieces of the input -/
theorem dialectsDecAux_size : ∀ (fuel : Nat) (rest : Bytes) (acc names : List Bytes) (n k : Nat),
    dialectsDecAux fuel rest acc n = .ok (names, k) →
      (names.map List.length).sum ≤ (acc.map List.length).sum + rest.length
  | 0, rest, acc, names, n, k, h => by
    simp only [dialectsDecAux, Outcome.ok.injEq, Prod.mk.injEq] at h; rw [← h.1]; omega
  | fuel + 1, [], acc, names, n, k, h => by
    simp only [dialectsDecAux, Outcome.ok.injEq, Prod.mk.injEq] at h; rw [← h.1]; omega
  | fuel + 1, f :: body, acc, names, n, k, h => by
    simp only [dialectsDecAux] at h
    split at h
    · cases h
    · split at h
      · cases h
      · rename_i i hi
        have hlt := nulIndex_lt body i hi
        have ih := dialectsDecAux_size fuel _ _ names _ k h
        simp only [List.map_append, List.sum_append, List.map_cons, List.map_nil, List.sum_cons, List.sum_nil,
          List.length_take, List.length_drop, List.length_cons] at ih ⊢
        omega

/-- a failing `SMB_STRING.Unmarshal` rewrites the two numbers of the receiver and leaves its buffer alone -/
theorem strDecFail_size (b : Bytes) (old : Tup) : tupSize (strDecFail b old) = tupSize old := by
  unfold strDecFail
  split
  · split
    · split <;> simp [tupSize]
    · simp [tupSize]
  · rfl

theorem std_alloc : AllocCodecs std stdAlloc stdAllocConst where
  fail_le typ w old := by
    rw [show std.decFail typ w old = decFail typ w old from rfl]
    unfold decFail
    split
    · rw [strDecFail_size]; omega
    · omega
  alloc_le typ w := by
    have := SmbString.allocOf_le w
    unfold stdAlloc stdAllocConst
    split <;> omega
  value_le typ w v k h := by
    rw [show std.dec typ w = dec typ w from rfl] at h
    unfold dec at h
    unfold stdAlloc
    split at h
    · obtain ⟨a, ha, rfl⟩ := liftD_ok _ _ _ _ _ h
      have := SmbString.decode_alloc w a k ha
      simp only [tupSize, strTo, List.length_cons, List.length_nil, List.map_cons, List.map_nil, List.sum_cons, List.sum_nil]
      omega
    · obtain ⟨a, ha, rfl⟩ := liftD_ok _ _ _ _ _ h
      have := SmbString.decode_alloc w a k ha
      simp only [tupSize, strTo, List.length_cons, List.length_nil, List.map_cons, List.map_nil, List.sum_cons, List.sum_nil]
      omega
    · obtain ⟨a, ha, rfl⟩ := liftD_ok _ _ _ _ _ h; simp [tupSize, dateTo]
    · obtain ⟨a, ha, rfl⟩ := liftD_ok _ _ _ _ _ h; simp [tupSize, timeTo]
    · obtain ⟨a, ha, rfl⟩ := liftD_ok _ _ _ _ _ h; simp [tupSize, timeTo]
    · obtain ⟨a, ha, rfl⟩ := liftD_ok _ _ _ _ _ h; simp [tupSize, attrTo]
    · obtain ⟨a, ha, rfl⟩ := liftD_ok _ _ _ _ _ h; simp [tupSize, pipeTo]
    · obtain ⟨a, ha, rfl⟩ := liftD_ok _ _ _ _ _ h; simp [tupSize, r64To]
    · obtain ⟨a, ha, rfl⟩ := liftD_ok _ _ _ _ _ h
      obtain ⟨h1, h2, h3⟩ := ResumeKey.decode_alloc w a k ha
      simp only [tupSize, rkTo, List.length_cons, List.length_nil, List.map_cons, List.map_nil, List.sum_cons, List.sum_nil]
      omega
    · obtain ⟨a, ha, rfl⟩ := liftD_ok _ _ _ _ _ h
      obtain ⟨h1, h2, h3, h4⟩ := DirInfo.decode_alloc w a k ha
      simp only [tupSize, dirTo, List.length_cons, List.length_nil, List.map_cons, List.map_nil, List.sum_cons, List.sum_nil]
      omega
    · cases hd : dialectsDec w with
      | ok r =>
        obtain ⟨names, n⟩ := r
        rw [hd] at h
        simp only [Outcome.map', Outcome.ok.injEq, Prod.mk.injEq] at h
        rw [← h.1]
        unfold dialectsDec at hd
        have := dialectsDecAux_size _ _ _ _ _ _ hd
        simp only [tupSize, List.length_nil, List.map_nil, List.sum_nil] at this ⊢
        omega
      | err => rw [hd] at h; cases h
      | panic => rw [hd] at h; cases h
    · cases h

end Manticore.SmbCodecs
