/-
  C04 helper lemmas: the standard codecs (`Manticore.SmbCodecs.std`, thin adapters around the C06
  models) satisfy `LawfulCodecs` for the nested types whose decoder reads a prefix of its input:
  every decoder of these types is *prefix-stable* (what it returns on `b` it returns on `b ++ suffix`),
  every encoder is idempotent on the value it leaves behind, and the fixed-size types have their size.
  Not covered (and why): `SMB_NMPIPE_STATUS` rejects trailing bytes (finding `nmpipe_trailing`),
  `Dialects` decodes to the end of its input, `SMB_DIRECTORY_INFORMATION` is not attempted here.
-/
import Manticore.Model.SmbCmd
import Manticore.Model.SmbCodecs
import Manticore.Lemmas.Endian
namespace Manticore.SmbStd
open Manticore Manticore.SmbIR Manticore.C06 Manticore.SmbCodecs

theorem toNat_ofNat_lt' (x : Nat) (h : x < 256) : (UInt8.ofNat x).toNat = x := by
  simp [UInt8.toNat_ofNat']; omega

/-! ### prefix stability of the shared readers -/

theorem slice_append {α} (b suffix : List α) (lo hi : Nat) (x : List α) (h : slice b lo hi = .ok x) :
    slice (b ++ suffix) lo hi = .ok x := by
  unfold slice at h ⊢
  split at h
  · rename_i hc
    rw [if_pos ⟨hc.1, by rw [List.length_append]; omega⟩]
    injection h with h
    subst h
    congr 1
    rw [List.drop_append_of_le_length (by omega), List.take_append_of_le_length (by rw [List.length_drop]; omega)]
  · cases h

theorem sliceFrom_append {α} (b suffix : List α) (lo : Nat) (x : List α) (h : sliceFrom b lo = .ok x) :
    sliceFrom (b ++ suffix) lo = .ok (x ++ suffix) := by
  unfold sliceFrom at h ⊢
  split at h
  · rename_i hc
    rw [if_pos (by rw [List.length_append]; omega)]
    injection h with h
    subst h
    rw [List.drop_append_of_le_length hc]
  · cases h

theorem index_append {α} (b suffix : List α) (i : Nat) (x : α) (h : index b i = .ok x) :
    index (b ++ suffix) i = .ok x := by
  unfold index at h ⊢
  split at h
  · rename_i y hy
    injection h with h
    subst h
    rw [List.getElem?_append_left (by
      rcases List.getElem?_eq_some_iff.mp hy with ⟨hlt, _⟩; exact hlt), hy]
  · cases h

theorem rdLe16_append (b suffix : Bytes) (lo : Nat) (w : UInt16) (h : rdLe16 b lo = .ok w) :
    rdLe16 (b ++ suffix) lo = .ok w := by
  unfold rdLe16 at h ⊢
  split at h <;> try cases h
  rename_i x y hs
  rw [slice_append b suffix _ _ _ hs]

theorem rdBe16_append (b suffix : Bytes) (lo : Nat) (w : UInt16) (h : rdBe16 b lo = .ok w) :
    rdBe16 (b ++ suffix) lo = .ok w := by
  unfold rdBe16 at h ⊢
  split at h <;> try cases h
  rename_i x y hs
  rw [slice_append b suffix _ _ _ hs]

theorem rdLe32_append (b suffix : Bytes) (lo : Nat) (w : UInt32) (h : rdLe32 b lo = .ok w) :
    rdLe32 (b ++ suffix) lo = .ok w := by
  unfold rdLe32 at h ⊢
  split at h <;> try cases h
  rename_i x y z t hs
  rw [slice_append b suffix _ _ _ hs]

theorem nulIndexFrom_append (b suffix : Bytes) (i j : Nat) (h : nulIndexFrom b i = some j) :
    nulIndexFrom (b ++ suffix) i = some j := by
  induction b generalizing i with
  | nil => cases h
  | cons c cs ih =>
    simp only [List.cons_append, nulIndexFrom] at h ⊢
    by_cases hc : c = 0
    · simpa [hc] using h
    · simp only [hc, if_false] at h ⊢
      exact ih _ h

/-- a decoder returns on `b ++ suffix` what it returns on `b` -/
def Stable {α} (d : Bytes → Outcome α) : Prop := ∀ b suffix r, d b = .ok r → d (b ++ suffix) = .ok r

theorem map'_ok {α β} {x : Outcome α} {g : α → β} {r : β} (h : x.map' g = .ok r) : ∃ a, x = .ok a ∧ g a = r := by
  cases x <;> simp [Outcome.map'] at h
  exact ⟨_, rfl, h⟩

theorem liftD_stable {α} (d : Bytes → Outcome (α × Nat)) (to : α → Tup) (h : Stable d) : Stable (liftD d to) := by
  intro b suffix r hr
  unfold liftD at hr ⊢
  obtain ⟨a, ha, hg⟩ := map'_ok hr
  rw [h b suffix a ha]; simp [Outcome.map', hg]

/-! ### the decoders -/

theorem FileTime_stable : Stable FileTime.decode := by
  intro b suffix r h
  unfold FileTime.decode at h ⊢
  split at h
  · cases h
  · rename_i hlen
    rw [if_neg (by rw [List.length_append]; omega)]
    split at h <;> try cases h
    rename_i lo hi h1 h2
    rw [rdLe32_append _ suffix _ _ h1, rdLe32_append _ suffix _ _ h2]

theorem SmbDate_stable : Stable SmbDate.decode := by
  intro b suffix r h
  unfold SmbDate.decode at h ⊢
  split at h
  · cases h
  · rename_i hlen
    rw [if_neg (by rw [List.length_append]; omega)]
    split at h
    case h_1 w h1 => rw [rdLe16_append _ suffix _ _ h1]; exact h
    all_goals cases h

theorem FileAttributes_stable : Stable FileAttributes.decode := by
  intro b suffix r h
  unfold FileAttributes.decode at h ⊢
  split at h
  · cases h
  · rename_i hlen
    rw [if_neg (by rw [List.length_append]; omega)]
    split at h <;> try cases h
    rename_i w h1
    rw [rdBe16_append _ suffix _ _ h1]

theorem Range64_stable : Stable Range64.decode := by
  intro b suffix r h
  unfold Range64.decode at h ⊢
  split at h
  · cases h
  · rename_i hlen
    rw [if_neg (by rw [List.length_append]; omega)]
    split at h <;> try cases h
    rename_i p q oh ol lh ll h1 h2 h3 h4 h5 h6
    rw [rdLe16_append _ suffix _ _ h1, rdLe16_append _ suffix _ _ h2, rdLe32_append _ suffix _ _ h3,
      rdLe32_append _ suffix _ _ h4, rdLe32_append _ suffix _ _ h5, rdLe32_append _ suffix _ _ h6]

theorem decodeCounted_stable (f : UInt8) (extra : Nat) : Stable (fun b => SmbString.decodeCounted f b extra) := by
  intro b suffix r h
  simp only [SmbString.decodeCounted] at h ⊢
  split at h
  · cases h
  · rename_i hlen
    rw [if_neg (by rw [List.length_append]; omega)]
    split at h <;> try cases h
    rename_i len h1
    rw [rdLe16_append _ suffix _ _ h1]
    simp only [] at h ⊢
    split at h
    · cases h
    · rename_i hlen2
      rw [if_neg (by rw [List.length_append]; omega)]
      split at h <;> try cases h
      rename_i buf h2
      rw [slice_append _ suffix _ _ _ h2]

theorem decodeTerminated_stable (f : UInt8) : Stable (SmbString.decodeTerminated f) := by
  intro b suffix r h
  unfold SmbString.decodeTerminated at h ⊢
  split at h
  · cases h
  · rename_i i hi
    have hb : 1 ≤ b.length := by
      cases b with
      | nil => simp [nulIndex, nulIndexFrom] at hi
      | cons _ _ => simp
    rw [List.drop_append_of_le_length hb]
    unfold nulIndex at hi ⊢
    rw [nulIndexFrom_append _ suffix _ _ hi]
    simp only [] at h ⊢
    split at h <;> try cases h
    rename_i buf h2
    rw [slice_append _ suffix _ _ _ h2]

theorem SmbString_stable : Stable SmbString.decode := by
  intro b suffix r h
  unfold SmbString.decode at h ⊢
  split at h
  · cases h
  · rename_i hlen
    rw [if_neg (by rw [List.length_append]; omega)]
    split at h <;> try cases h
    rename_i f h1
    rw [index_append _ suffix _ _ h1]
    simp only [] at h ⊢
    split at h
    · rename_i hf; rw [if_pos hf]; exact decodeCounted_stable f 0 b suffix r h
    · rename_i hf1; rw [if_neg hf1]
      split at h
      · rename_i hf; rw [if_pos hf]; exact decodeTerminated_stable f b suffix r h
      · rename_i hf2; rw [if_neg hf2]
        split at h
        · rename_i hf; rw [if_pos hf]; exact decodeCounted_stable f 1 b suffix r h
        · rename_i hf3; rw [if_neg hf3]
          split at h
          · rename_i hf; rw [if_pos hf]; exact decodeTerminated_stable f b suffix r h
          · rename_i hf4; rw [if_neg hf4]
            split at h
            · rename_i hf; rw [if_pos hf]; exact decodeCounted_stable f 0 b suffix r h
            · cases h

theorem OemString_stable : Stable OemString.decode := SmbString_stable

theorem ResumeKey_stable : Stable ResumeKey.decode := by
  intro b suffix r h
  unfold ResumeKey.decode at h ⊢
  split at h <;> try cases h
  rename_i s n h1
  rw [SmbString_stable b suffix _ h1]
  exact h

/-! ### the encoders -/

theorem lift_ok {α} {of : Tup → Option α} {f : α → Outcome (Bytes × α)} {to : α → Tup} {v : Tup} {bs : Bytes} {v' : Tup}
    (h : lift of f to v = .ok (bs, v')) : ∃ a a', of v = some a ∧ f a = .ok (bs, a') ∧ v' = to a' := by
  unfold lift at h
  split at h
  · rename_i a ha
    obtain ⟨⟨b, a'⟩, h1, h2⟩ := map'_ok h
    simp only [Prod.mk.injEq] at h2
    exact ⟨a, a', ha, by rw [h1, h2.1], h2.2.symm⟩
  · cases h

theorem lift_idem {α} (of : Tup → Option α) (f : α → Outcome (Bytes × α)) (to : α → Tup)
    (hof : ∀ a, of (to a) = some a) (hf : ∀ a bs a', f a = .ok (bs, a') → f a' = .ok (bs, a'))
    (v : Tup) (bs : Bytes) (v' : Tup) (h : lift of f to v = .ok (bs, v')) : lift of f to v' = .ok (bs, v') := by
  obtain ⟨a, a', _, h2, rfl⟩ := lift_ok h
  unfold lift
  simp only [hof a', hf a bs a' h2, Outcome.map']

theorem pure'_idem {α} (enc : α → Outcome Bytes) (a : α) (bs : Bytes) (a' : α) (h : pure' enc a = .ok (bs, a')) :
    pure' enc a' = .ok (bs, a') := by
  have h0 := h
  unfold pure' at h
  obtain ⟨b, _, h2⟩ := map'_ok h
  simp only [Prod.mk.injEq] at h2
  have := h2.2; subst this; exact h0

theorem pure'_bytes {α} {enc : α → Outcome Bytes} {a : α} {bs : Bytes} {a' : α} (h : pure' enc a = .ok (bs, a')) :
    enc a = .ok bs := by
  unfold pure' at h
  obtain ⟨b, h1, h2⟩ := map'_ok h
  simp only [Prod.mk.injEq] at h2
  rw [h1, h2.1]

theorem strOf_strTo (s : SmbString.V) : strOf (strTo s) = some s := by simp [strOf, strTo, u8, u16]
theorem dateOf_dateTo (d : SmbDate.V) : dateOf (dateTo d) = some d := by simp [dateOf, dateTo, u8, u16]
theorem timeOf_timeTo (t : FileTime.V) : timeOf (timeTo t) = some t := by simp [timeOf, timeTo, u32]
theorem attrOf_attrTo (a : FileAttributes.V) : attrOf (attrTo a) = some a := by simp [attrOf, attrTo, u16]
theorem r64Of_r64To (r : Range64.V) : r64Of (r64To r) = some r := by simp [r64Of, r64To, u16, u32]
theorem rkOf_rkTo (r : ResumeKey.V) : rkOf (rkTo r) = some r := by simp [rkOf, rkTo, u8, u16]

theorem SmbString_marshal_idem (s : SmbString.V) (bs : Bytes) (s' : SmbString.V)
    (h : SmbString.marshal s = .ok (bs, s')) : SmbString.marshal s' = .ok (bs, s') := by
  unfold SmbString.marshal at h ⊢
  split at h
  · rename_i hf
    split at h
    · cases h
    · rename_i hlen
      simp only [Outcome.ok.injEq, Prod.mk.injEq] at h
      obtain ⟨rfl, rfl⟩ := h
      simp only [hf, if_true, hlen, if_false]
  · rename_i hf
    split at h
    · rename_i hf2
      simp only [Outcome.ok.injEq, Prod.mk.injEq] at h
      obtain ⟨rfl, rfl⟩ := h
      simp only [hf, if_false, hf2, if_true]
    · rename_i hf2
      split at h
      · rename_i hf3
        split at h
        · cases h
        · rename_i hlen
          simp only [Outcome.ok.injEq, Prod.mk.injEq] at h
          obtain ⟨rfl, rfl⟩ := h
          simp [hf3, hlen]
      · cases h

theorem OemString_marshal_idem (s : SmbString.V) (bs : Bytes) (s' : SmbString.V)
    (h : OemString.marshal s = .ok (bs, s')) : OemString.marshal s' = .ok (bs, s') := by
  unfold OemString.marshal at h ⊢
  have ht : SmbString.marshal { s with format := 4 } = .ok (4 :: (s.buffer ++ [0]), { s with format := 4 }) := by
    simp [SmbString.marshal]
  have h' := h
  rw [ht] at h'
  simp only [Outcome.ok.injEq, Prod.mk.injEq] at h'
  have : ({ s' with format := 4 } : SmbString.V) = s' := by rw [← h'.2]
  rw [this]
  exact SmbString_marshal_idem _ bs s' h

theorem ResumeKey_marshal_idem (r : ResumeKey.V) (bs : Bytes) (r' : ResumeKey.V)
    (h : ResumeKey.marshal r = .ok (bs, r')) : ResumeKey.marshal r' = .ok (bs, r') := by
  unfold ResumeKey.marshal at h ⊢
  simp only [] at h ⊢
  split at h
  case h_1 b s1 h1 =>
    simp only [Outcome.ok.injEq, Prod.mk.injEq] at h
    obtain ⟨rfl, rfl⟩ := h
    simp only [h1]
  all_goals cases h

/-! ### the laws -/

theorem dec_stable (typ : String) (ht : typ ∈ openTypes) (b suffix : Bytes) (r : Tup × Nat)
    (h : dec typ b = .ok r) : dec typ (b ++ suffix) = .ok r := by
  simp only [openTypes, List.mem_cons, List.not_mem_nil, or_false] at ht
  rcases ht with rfl | rfl | rfl | rfl | rfl | rfl | rfl | rfl
  · exact liftD_stable _ strTo SmbString_stable b suffix r h
  · exact liftD_stable _ strTo OemString_stable b suffix r h
  · exact liftD_stable _ dateTo SmbDate_stable b suffix r h
  · exact liftD_stable _ timeTo FileTime_stable b suffix r h
  · exact liftD_stable _ timeTo FileTime_stable b suffix r h
  · exact liftD_stable _ attrTo FileAttributes_stable b suffix r h
  · exact liftD_stable _ r64To Range64_stable b suffix r h
  · exact liftD_stable _ rkTo ResumeKey_stable b suffix r h

theorem enc_idem (typ : String) (ht : typ ∈ openTypes) (v : Tup) (bs : Bytes) (v' : Tup)
    (h : enc typ v = .ok (bs, v')) : enc typ v' = .ok (bs, v') := by
  simp only [openTypes, List.mem_cons, List.not_mem_nil, or_false] at ht
  rcases ht with rfl | rfl | rfl | rfl | rfl | rfl | rfl | rfl
  · exact lift_idem strOf SmbString.marshal strTo strOf_strTo SmbString_marshal_idem v bs v' h
  · exact lift_idem strOf OemString.marshal strTo strOf_strTo OemString_marshal_idem v bs v' h
  · exact lift_idem dateOf _ dateTo dateOf_dateTo (pure'_idem _) v bs v' h
  · exact lift_idem timeOf _ timeTo timeOf_timeTo (pure'_idem _) v bs v' h
  · exact lift_idem timeOf _ timeTo timeOf_timeTo (pure'_idem _) v bs v' h
  · exact lift_idem attrOf _ attrTo attrOf_attrTo (pure'_idem _) v bs v' h
  · exact lift_idem r64Of _ r64To r64Of_r64To (pure'_idem _) v bs v' h
  · exact lift_idem rkOf ResumeKey.marshal rkTo rkOf_rkTo ResumeKey_marshal_idem v bs v' h

theorem enc_size (typ : String) (n : Nat) (v : Tup) (bs : Bytes) (v' : Tup) (ht : typ ∈ openTypes)
    (hn : fixedSize typ = some n) (h : enc typ v = .ok (bs, v')) : bs.length = n := by
  simp only [openTypes, List.mem_cons, List.not_mem_nil, or_false] at ht
  rcases ht with rfl | rfl | rfl | rfl | rfl | rfl | rfl | rfl
  · have : fixedSize "SMB_STRING" = none := by decide
    rw [this] at hn; cases hn
  · have : fixedSize "OEM_STRING" = none := by decide
    rw [this] at hn; cases hn
  · obtain ⟨a, a', _, h2, _⟩ := lift_ok h
    have := pure'_bytes h2
    have hn' : n = 2 := by have : fixedSize "SMB_DATE" = some 2 := by decide
                           rw [this] at hn; injection hn with hn; exact hn.symm
    simp only [SmbDate.encode, Outcome.ok.injEq] at this
    subst this; subst hn'; rfl
  · obtain ⟨a, a', _, h2, _⟩ := lift_ok h
    have := pure'_bytes h2
    have hn' : n = 8 := by have : fixedSize "SMB_TIME" = some 8 := by decide
                           rw [this] at hn; injection hn with hn; exact hn.symm
    simp only [FileTime.encode, Outcome.ok.injEq] at this
    subst this; subst hn'; rfl
  · obtain ⟨a, a', _, h2, _⟩ := lift_ok h
    have := pure'_bytes h2
    have hn' : n = 8 := by have : fixedSize "FILETIME" = some 8 := by decide
                           rw [this] at hn; injection hn with hn; exact hn.symm
    simp only [FileTime.encode, Outcome.ok.injEq] at this
    subst this; subst hn'; rfl
  · obtain ⟨a, a', _, h2, _⟩ := lift_ok h
    have := pure'_bytes h2
    have hn' : n = 2 := by have : fixedSize "SMB_FILE_ATTRIBUTES" = some 2 := by decide
                           rw [this] at hn; injection hn with hn; exact hn.symm
    simp only [FileAttributes.encode, Outcome.ok.injEq] at this
    subst this; subst hn'; rfl
  · obtain ⟨a, a', _, h2, _⟩ := lift_ok h
    have := pure'_bytes h2
    have hn' : n = 20 := by have : fixedSize "LOCKING_ANDX_RANGE64" = some 20 := by decide
                            rw [this] at hn; injection hn with hn; exact hn.symm
    simp only [Range64.encode, Outcome.ok.injEq] at this
    subst this; subst hn'; rfl
  · have : fixedSize "SMB_RESUME_KEY" = none := by decide
    rw [this] at hn; cases hn

/-- **The standard codecs are lawful** on `lawfulTypes`. -/
theorem pipeOf_pipeTo (p : PipeStatus.V) : pipeOf (pipeTo p) = some p := by simp [pipeOf, pipeTo, u8]

theorem mem_lawful {typ : String} (ht : typ ∈ lawfulTypes) : typ ∈ openTypes ∨ typ = "SMB_NMPIPE_STATUS" := by
  simpa [lawfulTypes] using ht

theorem std_lawful_core : LawfulCodecs std (· ∈ lawfulTypes) where
  idem := by
    intro typ v bs v' ht h
    rcases mem_lawful ht with ho | rfl
    · exact enc_idem typ ho v bs v' h
    · exact lift_idem pipeOf _ pipeTo pipeOf_pipeTo (pure'_idem _) v bs v' h
  rt := by
    intro typ v bs v' ht h htup suffix hs
    unfold tupOk at htup
    rw [show std.enc typ v = .ok (bs, v') from h] at htup
    simp only [] at htup
    split at htup
    · rename_i d k hd
      simp only [Bool.and_eq_true, beq_iff_eq] at htup
      obtain ⟨rfl, rfl⟩ := htup
      rcases mem_lawful ht with ho | rfl
      · exact dec_stable typ ho bs suffix _ hd
      · rcases hs with rfl | hs
        · rw [List.append_nil]; exact hd
        · exact absurd hs (by decide)
    · cases htup
  size := by
    intro typ n v bs v' ht hn h
    rcases mem_lawful ht with ho | rfl
    · exact enc_size typ n v bs v' ho hn h
    · obtain ⟨a, a', _, h2, _⟩ := lift_ok h
      have := pure'_bytes h2
      have hn' : n = 2 := by have : fixedSize "SMB_NMPIPE_STATUS" = some 2 := by decide
                             rw [this] at hn; injection hn with hn; exact hn.symm
      simp only [PipeStatus.encode, Outcome.ok.injEq] at this
      subst this; subst hn'; rfl

/-! ### `SetBufferFormat` -/

theorem SmbString_marshal_format (s : SmbString.V) (bs : Bytes) (s' : SmbString.V)
    (h : SmbString.marshal s = .ok (bs, s')) : s'.format = s.format := by
  unfold SmbString.marshal at h
  split at h
  · split at h
    · cases h
    · simp only [Outcome.ok.injEq, Prod.mk.injEq] at h; rw [← h.2]
  · split at h
    · simp only [Outcome.ok.injEq, Prod.mk.injEq] at h; rw [← h.2]
    · split at h
      · split at h
        · cases h
        · simp only [Outcome.ok.injEq, Prod.mk.injEq] at h; rw [← h.2]
      · cases h

/-- `SMB_STRING.Marshal` keeps the buffer format `SetBufferFormat` has just set -/
theorem std_lawful_fmt_core : LawfulFmt std (· = "SMB_STRING") where
  fmt := by
    intro typ k v bs v' hty hk h
    subst hty
    obtain ⟨a, a', hof, hma, rfl⟩ := lift_ok (show lift strOf SmbString.marshal strTo (setFmt k v) = .ok (bs, v') from h)
    have hfa : a.format = u8 k := by
      obtain ⟨ns, bss⟩ := v
      cases ns with
      | nil => simp [setFmt, strOf] at hof
      | cons x rest =>
        simp only [setFmt] at hof
        unfold strOf at hof
        split at hof
        · rename_i f l b heq
          simp only [Prod.mk.injEq, List.cons.injEq] at heq
          injection hof with hof
          rw [← hof, ← heq.1.1]
        · cases hof
    have hf' := SmbString_marshal_format a bs a' hma
    show setFmt k (strTo a') = strTo a'
    simp only [strTo, setFmt, hf', hfa, u8, Prod.mk.injEq, List.cons.injEq, and_true]
    exact (toNat_ofNat_lt' k hk).symm

end Manticore.SmbStd
