/-
  Helper lemmas for property C04 (generic round trip of mirror-image SMB command programs):
  integers and bytes, the `Env.get` / `Env.set` algebra, Go slices of concatenations.
  Nothing here is a property clause; the property theorems are in `Manticore/Props/C04.lean`.
-/
import Manticore.Model.SmbCmd
namespace Manticore.SmbIR
open Manticore

/-! ### integers and bytes -/

theorem natLe_length (n x : Nat) : (natLe n x).length = n := by
  induction n generalizing x with
  | zero => rfl
  | succ n ih => simp [natLe, ih]

theorem leNat_natLe (n x : Nat) (h : x < 256 ^ n) : leNat (natLe n x) = x := by
  induction n generalizing x with
  | zero => simp [natLe, leNat] at *; omega
  | succ n ih =>
    have h' : x / 256 < 256 ^ n := by
      rw [Nat.pow_succ] at h
      exact Nat.div_lt_of_lt_mul (by rwa [Nat.mul_comm] at h)
    simp only [natLe, leNat, ih _ h', UInt8.toNat_ofNat']
    omega

theorem beNat_snoc (l : Bytes) (x : UInt8) : beNat (l ++ [x]) = beNat l * 256 + x.toNat := by
  simp [beNat]

theorem leNat_eq_beNat_reverse : ∀ l : Bytes, leNat l = beNat l.reverse
  | [] => rfl
  | b :: bs => by
    rw [List.reverse_cons, beNat_snoc, leNat, leNat_eq_beNat_reverse bs]; omega

theorem beNat_natBe (n x : Nat) (h : x < 256 ^ n) : beNat (natBe n x) = x := by
  have := leNat_eq_beNat_reverse (natLe n x)
  rw [natBe, ← this, leNat_natLe n x h]

theorem intBytes_length (w : Nat) (e : End) (x : Nat) : (intBytes w e x).length = w := by
  cases e <;> simp [intBytes, natBe, natLe_length]

theorem intVal_intBytes (w : Nat) (e : End) (x : Nat) (h : x < 256 ^ w) :
    intVal e (intBytes w e x) = x := by
  cases e
  · exact leNat_natLe w x h
  · exact beNat_natBe w x h

theorem toNat_ofNat_lt (x : Nat) (h : x < 256) : (UInt8.ofNat x).toNat = x := by
  simp [UInt8.toNat_ofNat']; omega

/-! ### environments -/

theorem Env.get_nil (f : String) : Env.get [] f = none := rfl

theorem Env.get_cons (p : String × Val) (env : Env) (f : String) :
    Env.get (p :: env) f = if p.1 = f then some p.2 else Env.get env f := by
  unfold Env.get
  by_cases h : p.1 = f <;> simp [h]

private theorem get_map_set_ne (env : Env) (f g : String) (v : Val) (hne : g ≠ f) :
    Env.get (env.map (fun p => if p.1 == f then (f, v) else p)) g = Env.get env g := by
  induction env with
  | nil => rfl
  | cons p env ih =>
    rw [List.map_cons, Env.get_cons, ih, Env.get_cons]
    have : ¬ f = g := fun h => hne h.symm
    by_cases hpf : p.1 = f
    · subst hpf; simp [this]
    · simp [hpf]

private theorem get_map_set_self (env : Env) (f : String) (v : Val) (h : env.any (·.1 == f) = true) :
    Env.get (env.map (fun p => if p.1 == f then (f, v) else p)) f = some v := by
  induction env with
  | nil => simp at h
  | cons p env ih =>
    rw [List.map_cons, Env.get_cons]
    by_cases hpf : p.1 = f
    · simp [hpf]
    · have hb : (p.1 == f) = false := by simpa using hpf
      rw [List.any_cons, hb, Bool.false_or] at h
      rw [hb]; simp only [Bool.false_eq_true, if_false, hpf]; exact ih h

private theorem get_append_single (env : Env) (f g : String) (v : Val) :
    Env.get (env ++ [(f, v)]) g = match Env.get env g with
      | some x => some x
      | none => if f = g then some v else none := by
  induction env with
  | nil => simp [Env.get]
  | cons p env ih =>
    rw [List.cons_append, Env.get_cons, ih, Env.get_cons]
    by_cases h : p.1 = g <;> simp [h]

private theorem get_none_of_any_false (env : Env) (f : String) (h : env.any (·.1 == f) = false) :
    Env.get env f = none := by
  induction env with
  | nil => rfl
  | cons p env ih =>
    simp only [List.any_cons, Bool.or_eq_false_iff] at h
    rw [Env.get_cons, if_neg (by simpa using h.1), ih h.2]

theorem Env.get_set_self (env : Env) (f : String) (v : Val) : (env.set f v).get f = some v := by
  unfold Env.set
  cases h : env.any (·.1 == f)
  · rw [if_neg (by simp), get_append_single, get_none_of_any_false env f h]; simp
  · rw [if_pos rfl, get_map_set_self env f v h]

theorem Env.get_set_ne (env : Env) (f g : String) (v : Val) (hne : g ≠ f) :
    (env.set f v).get g = env.get g := by
  unfold Env.set
  cases h : env.any (·.1 == f)
  · rw [if_neg (by simp), get_append_single]
    have : ¬ f = g := fun e => hne e.symm
    cases Env.get env g <;> simp [this]
  · rw [if_pos rfl, get_map_set_ne env f g v hne]

theorem Env.get_set (env : Env) (f g : String) (v : Val) :
    (env.set f v).get g = if g = f then some v else env.get g := by
  by_cases h : g = f
  · subst h; simp [Env.get_set_self]
  · simp [h, Env.get_set_ne env f g v h]

/-- two environments give the same values to the listed fields -/
def Agree (fs : List String) (e1 e2 : Env) : Prop := ∀ f, f ∈ fs → e1.get f = e2.get f

theorem Agree.set {fs : List String} {e1 e2 : Env} (h : Agree fs e1 e2) (f : String) (v : Val)
    (hv : e2.get f = some v) : Agree (f :: fs) (e1.set f v) e2 := by
  intro g hg
  rw [Env.get_set]
  by_cases hgf : g = f
  · subst hgf; simp [hv]
  · simp only [hgf, if_false]
    exact h g (by simpa [hgf] using hg)

/-! ### Go slices of a concatenation -/

theorem sliceC_mid (pre mid post ext : Bytes) (n : Nat) (hn : n = mid.length) :
    sliceC (pre ++ (mid ++ post)) ext pre.length (pre.length + n) = .ok mid := by
  subst hn
  unfold sliceC
  rw [if_pos (by simp; omega)]
  simp [List.append_assoc]

theorem sliceFrom_mid (pre rest : Bytes) : sliceFrom (pre ++ rest) pre.length = .ok rest := by
  unfold sliceFrom
  rw [if_pos (by simp)]
  simp

theorem index_mid (pre : Bytes) (x : UInt8) (post : Bytes) : index (pre ++ x :: post) pre.length = .ok x := by
  simp [index]

end Manticore.SmbIR
