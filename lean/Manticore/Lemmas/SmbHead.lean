/-
  C04 helper lemmas for the finding `field-ahead-of-blocks` (WriteRequest): a marshal program that appends the
  marshalled `SMB_STRING` field (buffer format 0x01) to the command bytes themselves, ahead of the parameter block,
  against an unmarshal program that reads four parameter integers (ten bytes) and looks for the string in the data
  block.  Whatever the field values, the receiver takes the format byte 0x01 for the word count, is left with a
  two-byte parameter stream and fails at the guard of its second parameter: `head_fmt1_never_decodes`.
  Nothing here is a property clause; the property theorem is `Manticore.C04.write_request_never_decodes`.
-/
import Manticore.Model.SmbCmd
import Manticore.Model.SmbCodecs
import Manticore.Lemmas.SmbBasics
namespace Manticore.SmbIR
open Manticore

theorem bind_eq_ok' {α β} {x : Outcome α} {f : α → Outcome β} {b : β} (h : (x >>= f) = .ok b) :
    ∃ a, x = .ok a ∧ f a = .ok b := by
  cases x with
  | ok a => exact ⟨a, rfl, h⟩
  | err => cases h
  | panic => cases h

theorem stmts_cons' {C : Codecs} {andx : Bool} {s s' : MState} {st : MStmt} {r : List MStmt}
    (h : runMStmts C andx s (st :: r) = .ok s') :
    ∃ s1, runMStmt C andx s st = .ok s1 ∧ runMStmts C andx s1 r = .ok s' := by
  simp only [runMStmts] at h
  exact bind_eq_ok' h

theorem splitData_ne_panic (data : Bytes) : splitData data ≠ .panic := by
  unfold splitData
  split
  · simp
  · simp
  · simp only []
    split
    · split <;> simp
    · simp

/-- an integer statement appends `w` bytes to its block and touches nothing else -/
theorem int_step {C : Codecs} {andx : Bool} {s s' : MState} {w : Nat} {e : End} {f : String}
    (h : runMStmt C andx s (.int .P w e f) = .ok s') :
    s'.head = s.head ∧ s'.D = s.D ∧ s'.P.length = s.P.length + w := by
  simp only [runMStmt] at h
  obtain ⟨x, _, hx⟩ := bind_eq_ok' h
  simp only [Outcome.pure_eq, Outcome.ok.injEq] at hx
  subst hx
  simp [MState.app, intBytes_length]

/-- `SMB_STRING.Marshal` after `SetBufferFormat(0x01)`: the format byte 0x01, two length bytes, the buffer -/
theorem enc_fmt1_shape {v : Tup} {bs : Bytes} {v' : Tup}
    (h : Manticore.SmbCodecs.std.enc "SMB_STRING" (Manticore.SmbCodecs.std.setFmt 1 v) = .ok (bs, v')) :
    ∃ a b rest, bs = 1 :: a :: b :: rest := by
  obtain ⟨nums, bss⟩ := v
  simp only [Manticore.SmbCodecs.std, Manticore.SmbCodecs.enc, Manticore.SmbCodecs.lift] at h
  match nums, bss, h with
  | [], _, h => simp [Manticore.SmbCodecs.setFmt, Manticore.SmbCodecs.strOf] at h
  | [_], _, h => simp [Manticore.SmbCodecs.setFmt, Manticore.SmbCodecs.strOf] at h
  | _ :: _ :: _ :: _, _, h => simp [Manticore.SmbCodecs.setFmt, Manticore.SmbCodecs.strOf] at h
  | [_, l], [], h => simp [Manticore.SmbCodecs.setFmt, Manticore.SmbCodecs.strOf] at h
  | [_, l], _ :: _ :: _, h => simp [Manticore.SmbCodecs.setFmt, Manticore.SmbCodecs.strOf] at h
  | [_, l], [buf], h =>
    simp only [Manticore.SmbCodecs.setFmt, Manticore.SmbCodecs.strOf] at h
    have hf : Manticore.SmbCodecs.u8 1 = 1 := rfl
    simp only [Manticore.C06.SmbString.marshal, hf, true_or, if_true] at h
    split at h
    · cases h
    · simp only [Outcome.map', Outcome.ok.injEq, Prod.mk.injEq] at h
      exact ⟨_, _, buf, by rw [← h.1]; rfl⟩

/-- the encoding such a Marshal produces starts with the string's format byte 0x01 and its two length bytes — where
    the receiver (and MS-CIFS) has the word count and the first parameter word -/
theorem head_fmt1_shape (c : Cmd) (hA : c.isAndX = false) (fD f1 f2 f3 f4 : String) (e1 e2 e3 e4 : End)
    (hm : c.marshal = [.setFmt fD 1, .subHead fD "SMB_STRING", .int .P 2 e1 f1, .int .P 2 e2 f2, .int .P 4 e3 f3, .int .P 2 e4 f4])
    (env : Env) (bs : Bytes) (h : encodeCmd Manticore.SmbCodecs.std c env = .ok bs) :
    ∃ a b X, bs = 1 :: a :: b :: X := by
  unfold encodeCmd at h
  split at h
  case h_2 => cases h
  case h_3 => cases h
  rename_i s hrun
  simp only [Outcome.ok.injEq] at h
  unfold runM at hrun
  rw [hm, hA] at hrun
  obtain ⟨s1, h1, hrun⟩ := stmts_cons' hrun
  obtain ⟨s2, h2, hrun⟩ := stmts_cons' hrun
  obtain ⟨s3, h3, hrun⟩ := stmts_cons' hrun
  obtain ⟨s4, h4, hrun⟩ := stmts_cons' hrun
  obtain ⟨s5, h5, hrun⟩ := stmts_cons' hrun
  obtain ⟨s6, h6, hrun⟩ := stmts_cons' hrun
  simp only [runMStmts, Outcome.ok.injEq] at hrun
  subst hrun
  -- `SetBufferFormat(1)` then the marshalled string into the head
  have hs1 : ∃ v, s1 = { env := (prologueEnv false env).set fD (.t (Manticore.SmbCodecs.std.setFmt 1 v)) } := by
    simp only [runMStmt] at h1
    split at h1
    · rename_i v _
      simp only [Outcome.ok.injEq] at h1
      exact ⟨v, h1.symm⟩
    · cases h1
  obtain ⟨v, rfl⟩ := hs1
  have hs2 : ∃ hb v', Manticore.SmbCodecs.std.enc "SMB_STRING" (Manticore.SmbCodecs.std.setFmt 1 v) = .ok (hb, v') ∧
      s2.head = hb := by
    simp only [runMStmt, Env.get_set_self] at h2
    obtain ⟨⟨hb, v'⟩, he, h2⟩ := bind_eq_ok' h2
    simp only [Outcome.pure_eq, Outcome.ok.injEq] at h2
    subst h2
    exact ⟨hb, v', he, by simp⟩
  obtain ⟨hb, v', he, hh2⟩ := hs2
  obtain ⟨a, b, tl, rfl⟩ := enc_fmt1_shape he
  obtain ⟨hh3, _, _⟩ := int_step h3
  obtain ⟨hh4, _, _⟩ := int_step h4
  obtain ⟨hh5, _, _⟩ := int_step h5
  obtain ⟨hh6, _, _⟩ := int_step h6
  have hhead : s6.head = 1 :: a :: b :: tl := by rw [hh6, hh5, hh4, hh3, hh2]
  rw [hhead] at h
  exact ⟨a, b, tl ++ (paramBlock c.isAndX (andxBytesOf c.isAndX (prologueEnv c.isAndX env)) s6.P ++ dataBlock s6.D),
    by rw [← h]; simp⟩

/-- **a field marshalled ahead of the parameter block is never decoded**: for a command (no AndX block) whose Marshal is
    `c.Data.SetBufferFormat(1); head = c.Data.Marshal()` followed by four parameter integers of 2, 2, 4 and 2 bytes, and
    whose Unmarshal starts `if both empty return; offset = 0; guard P 2; read 2; offset += 2; guard P 2; …`: every
    encoding `Marshal` produces is rejected by `Unmarshal` with an error, for all field values and all receivers. -/
theorem head_fmt1_never_decodes (c : Cmd) (hA : c.isAndX = false) (fD f1 f2 f3 f4 : String) (e1 e2 e3 e4 : End)
    (hm : c.marshal = [.setFmt fD 1, .subHead fD "SMB_STRING", .int .P 2 e1 f1, .int .P 2 e2 f2, .int .P 4 e3 f3, .int .P 2 e4 f4])
    (rest : List UStmt)
    (hu : c.unmarshal = .retIfEmpty true true :: .resetOffset :: .guard .P (.lit 2) :: .readInt .P 2 e1 f1 ::
      .advance (.lit 2) :: .guard .P (.lit 2) :: rest)
    (env0 env : Env) (bs : Bytes) (h : encodeCmd Manticore.SmbCodecs.std c env = .ok bs) :
    decodeCmd Manticore.SmbCodecs.std c env0 bs = .err := by
  obtain ⟨a, b, X, rfl⟩ := head_fmt1_shape c hA fD f1 f2 f3 f4 e1 e2 e3 e4 hm env bs h
  -- the receiver: word count 0x01, the two length bytes as the parameter stream
  unfold decodeCmd
  have hsp : splitParams (1 :: a :: b :: X) = .ok (1, [a, b], X) := by simp [splitParams]
  rw [hsp]
  simp only []
  cases hsd : splitData X with
  | err => rfl
  | panic => exact absurd hsd (splitData_ne_panic _)
  | ok dd =>
    obtain ⟨D, Dext⟩ := dd
    simp only [runU, hu]
    simp [runU.go, runUStmt, evalExpr, UState.blk, UState.ext, sliceC, liftO]

end Manticore.SmbIR
