/-
  Fixed-width integer <-> byte round trips, both directions, little and big endian.
  All proofs kernel-only (bit extensionality).
-/
import Manticore.Basic
import Manticore.Lemmas.Bits
namespace Manticore

theorem le16_bytes (v : UInt16) : le16 v.toUInt8 (v >>> 8).toUInt8 = v := by
  apply UInt16.eq_of_toBitVec_eq
  simp only [le16, UInt16.toBitVec_or, UInt16.toBitVec_shiftLeft, UInt8.toBitVec_toUInt16,
    UInt16.toBitVec_toUInt8, UInt16.toBitVec_shiftRight]
  bv_bits16

theorem be16_bytes (v : UInt16) : be16 (v >>> 8).toUInt8 v.toUInt8 = v := le16_bytes v

theorem le32_bytes (v : UInt32) :
    le32 v.toUInt8 (v >>> 8).toUInt8 (v >>> 16).toUInt8 (v >>> 24).toUInt8 = v := by
  apply UInt32.eq_of_toBitVec_eq
  simp only [le32, UInt32.toBitVec_or, UInt32.toBitVec_shiftLeft, UInt8.toBitVec_toUInt32,
    UInt32.toBitVec_toUInt8, UInt32.toBitVec_shiftRight]
  bv_bits32

theorem be32_bytes (v : UInt32) :
    be32 (v >>> 24).toUInt8 (v >>> 16).toUInt8 (v >>> 8).toUInt8 v.toUInt8 = v := le32_bytes v

theorem le64_bytes (v : UInt64) :
    le64 v.toUInt8 (v >>> 8).toUInt8 (v >>> 16).toUInt8 (v >>> 24).toUInt8
      (v >>> 32).toUInt8 (v >>> 40).toUInt8 (v >>> 48).toUInt8 (v >>> 56).toUInt8 = v := by
  apply UInt64.eq_of_toBitVec_eq
  simp only [le64, UInt64.toBitVec_or, UInt64.toBitVec_shiftLeft, UInt8.toBitVec_toUInt64,
    UInt64.toBitVec_toUInt8, UInt64.toBitVec_shiftRight]
  bv_bits64

theorem putLe16_le16 (a b : UInt8) : putLe16 (le16 a b) = [a, b] := by
  simp only [putLe16, le16, List.cons.injEq, and_true]
  constructor <;>
  · apply UInt8.eq_of_toBitVec_eq
    simp only [UInt16.toBitVec_toUInt8, UInt16.toBitVec_or, UInt16.toBitVec_shiftLeft,
      UInt8.toBitVec_toUInt16, UInt16.toBitVec_shiftRight]
    bv_bits8

theorem putBe16_be16 (a b : UInt8) : putBe16 (be16 a b) = [a, b] := by
  have := putLe16_le16 b a
  simp only [putLe16, List.cons.injEq, and_true] at this
  simp only [putBe16, be16, le16] at *
  simp [this.1, this.2]

theorem putLe32_le32 (a b c d : UInt8) : putLe32 (le32 a b c d) = [a, b, c, d] := by
  simp only [putLe32, le32, List.cons.injEq, and_true]
  refine ⟨?_, ?_, ?_, ?_⟩ <;>
  · apply UInt8.eq_of_toBitVec_eq
    simp only [UInt32.toBitVec_toUInt8, UInt32.toBitVec_or, UInt32.toBitVec_shiftLeft,
      UInt8.toBitVec_toUInt32, UInt32.toBitVec_shiftRight]
    bv_bits8

theorem putLe64_le64 (a b c d e f g h : UInt8) :
    putLe64 (le64 a b c d e f g h) = [a, b, c, d, e, f, g, h] := by
  simp only [putLe64, le64, List.cons.injEq, and_true]
  refine ⟨?_, ?_, ?_, ?_, ?_, ?_, ?_, ?_⟩ <;>
  · apply UInt8.eq_of_toBitVec_eq
    simp only [UInt64.toBitVec_toUInt8, UInt64.toBitVec_or, UInt64.toBitVec_shiftLeft,
      UInt8.toBitVec_toUInt64, UInt64.toBitVec_shiftRight]
    bv_bits8

end Manticore
