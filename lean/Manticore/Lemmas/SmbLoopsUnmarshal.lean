/-
  C04 helper lemmas for the loop fragment, unmarshal side: an unmarshal program `layoutUL` accepts that keeps
  the offset discipline (`okUL`), run on two streams that are the `layoutBytes` of its own layout for field
  values satisfying the program's relations, succeeds and assigns exactly those values.  This is the proof of
  `runU_go_layout` (Lemmas/SmbUnmarshal.lean) over `layoutUL`, with the loop statements and the final
  un-advanced buffer read added; `Recv` carries what the run may rely on in the receiving structure.
-/
import Manticore.Lemmas.SmbUnmarshal
import Manticore.Lemmas.SmbLoops
namespace Manticore.SmbIR
open Manticore

/-! ### small facts -/

theorem flatMap_intBytes_length (w : Nat) (e : End) (xs : List Nat) : (xs.flatMap (intBytes w e)).length = w * xs.length := by
  induction xs with
  | nil => simp
  | cons x r ih => simp [List.flatMap_cons, intBytes_length, ih, Nat.mul_succ]; omega

theorem flatMap_encBytes_length (C : Codecs) (typ : String) (size : Nat) (vs : List Tup)
    (h : ∀ v ∈ vs, (encBytes C typ v).length = size) : (vs.flatMap (encBytes C typ)).length = size * vs.length := by
  induction vs with
  | nil => simp
  | cons v r ih =>
    simp only [List.flatMap_cons, List.length_append, List.length_cons, Nat.mul_succ]
    rw [h v (List.mem_cons_self ..), ih (fun y hy => h y (List.mem_cons_of_mem _ hy))]; omega

/-- a nested read through a window that the value's encoding fills exactly, whatever is done with the decoder's error
    and count (`checked`, `stores`): the decoder succeeds, so the field is assigned -/
theorem step_readSubWin (C : Codecs) (s : UState) (b : Blk) (f typ : String) (n : Nat) (ck st : Bool)
    (pre mid post : Bytes) (v : Tup) (hblk : s.blk b = pre ++ (mid ++ post)) (hoff : s.offset = pre.length)
    (hwin : n = mid.length) (hdec : C.dec typ mid = .ok (v, mid.length)) :
    runUStmt C s (.readSub b f typ (some n) false ck st) =
      .next { s with env := s.env.set f (.t v), bytesRead := if st then mid.length else s.bytesRead } := by
  have hs : sliceC (s.blk b) (s.ext b) s.offset (s.offset + n) = .ok mid := by
    rw [hblk, hoff]; exact sliceC_mid pre mid post _ n hwin
  simp only [runUStmt, Bool.false_eq_true, if_false, hs, hdec]

/-- what the run may rely on in the receiving structure (`recvFields`): a fixed array has the length the sender's has -/
def Recv (fs : List String) (e env' : Env) : Prop :=
  ∀ f ∈ fs, ∃ old xs, e.get f = some (.ns old) ∧ env'.get f = some (.ns xs) ∧ old.length = xs.length

theorem Recv.set {fs : List String} {e env' : Env} (h : Recv fs e env') (g : String) (v : Val)
    (hv : env'.get g = some v) : Recv fs (e.set g v) env' := by
  intro f hf
  obtain ⟨old, xs, h1, h2, h3⟩ := h f hf
  by_cases hfg : f = g
  · rw [hfg] at h2
    rw [h2] at hv
    injection hv with hv
    subst hv
    exact ⟨xs, xs, by rw [hfg]; exact Env.get_set_self _ _ _, by rw [hfg]; exact h2, rfl⟩
  · exact ⟨old, xs, by rw [Env.get_set_ne _ _ _ _ hfg]; exact h1, h2, h3⟩

theorem Recv.congr_left {fs : List String} {e e2 env' : Env} (h : Recv fs e env') (hg : ∀ x, e2.get x = e.get x) :
    Recv fs e2 env' := by
  intro f hf
  obtain ⟨old, xs, h1, h2, h3⟩ := h f hf
  exact ⟨old, xs, by rw [hg]; exact h1, h2, h3⟩

theorem Recv.sized {fs : List String} {e env' : Env} (h : Recv fs e env') {f : String} (hf : f ∈ fs) :
    ∃ old xs, e.get f = some (.ns old) ∧ env'.get f = some (.ns xs) ∧ old.length = xs.length := h f hf

theorem Agree.congr_left {fs : List String} {e e2 env' : Env} (h : Agree fs e env') (hg : ∀ x, e2.get x = e.get x) :
    Agree fs e2 env' := fun f hf => by rw [hg]; exact h f hf

/-! ### the relations `consistent` checks, for the loops -/

theorem rel_forCountInt {C : Codecs} {env : Env} {plen pad : Nat} {f g f' g' : String} {b : Blk} {w : Nat} {e : End} {r : List UStmt}
    (h : relationsHold C env plen pad (.makeInts f' g' :: .forCountInt b w e f g :: r) = true) :
    ∃ xs k, env.get f = some (.ns xs) ∧ env.get g = some (.n k) ∧ xs.length = k := by
  have h' : relationsHold C env plen pad (.forCountInt b w e f g :: r) = true := by simpa [relationsHold] using h
  unfold relationsHold at h'
  rw [Bool.and_eq_true] at h'
  have h1 := h'.1
  split at h1
  · rename_i xs k hx hk
    exact ⟨xs, k, hx, hk, by simpa using h1⟩
  · cases h1

theorem rel_forCountSub {C : Codecs} {env : Env} {plen pad : Nat} {f g f' t : String} {b : Blk} {size : Nat} {r : List UStmt}
    (h : relationsHold C env plen pad (.clear f' :: .forCountSub b f g t size :: r) = true) :
    ∃ vs k, env.get f = some (.ts vs) ∧ env.get g = some (.n k) ∧ vs.length = k ∧
      (∀ v ∈ vs, tupOk C t v = true) ∧ (∀ v ∈ vs, tupFix C t v = true) := by
  have h' : relationsHold C env plen pad (.forCountSub b f g t size :: r) = true := by simpa [relationsHold] using h
  unfold relationsHold at h'
  rw [Bool.and_eq_true] at h'
  have h1 := h'.1
  split at h1
  · rename_i vs k hx hk
    simp only [Bool.and_eq_true, beq_iff_eq, List.all_eq_true] at h1
    exact ⟨vs, k, hx, hk, h1.1.1, h1.1.2, h1.2⟩
  · cases h1

/-- the relations of the statements behind a two-statement loop head -/
theorem rel_tail2 {C : Codecs} {env : Env} {plen pad : Nat} {a b : UStmt} {r : List UStmt}
    (h : relationsHold C env plen pad (a :: b :: r) = true)
    (ha : ∀ p, relationsHold C env plen p (a :: b :: r) = relationsHold C env plen p (b :: r) := by intro p; simp [relationsHold])
    (hb : ∀ p, relationsHold C env plen p (b :: r) = true → relationsHold C env plen p r = true := by
      intro p hp; unfold relationsHold at hp; rw [Bool.and_eq_true] at hp; exact hp.2) :
    relationsHold C env plen pad r = true := hb pad (by rw [← ha]; exact h)

/-- what the codec laws give for a list element in its domain that `Marshal` leaves as it is -/
theorem elem_lawful {C : Codecs} {T : String → Prop} (hC : LawfulCodecs C T) {t : String} {size : Nat} {v : Tup}
    (hT : T t) (hsize : fixedSize t = some size) (htup : tupOk C t v = true) (hfix : tupFix C t v = true) :
    ∃ bs, C.enc t v = .ok (bs, v) ∧ bs.length = size ∧ C.dec t bs = .ok (v, bs.length) := by
  unfold tupFix at hfix
  split at hfix
  · rename_i bs v' he
    have hv : v' = v := by simpa using hfix
    rw [hv] at he
    have := hC.rt t v bs v hT he htup [] (Or.inl rfl)
    rw [List.append_nil] at this
    exact ⟨bs, he, hC.size t size v bs v hT hsize he, this⟩
  · cases hfix

/-- the length of a buffer read, from the relations: the value of the length expression in the run — a field
    expression over fields already read, or the local `padLen`, which the relations track -/
theorem rel_readBytes_eval {C : Codecs} {env' : Env} {plen pad : Nat} {b : Blk} {f : String} {m : Expr} {r : List UStmt}
    {seen : List String} {s : UState}
    (hrel : relationsHold C env' plen pad (.readBytes b f m :: r) = true)
    (hc : (m == .pad || m.closed seen) = true) (hag : Agree seen s.env env') (hpd : s.pad = pad) :
    ∃ bs, env'.get f = some (.b bs) ∧ evalExpr s m = some bs.length ∧ relationsHold C env' plen pad r = true := by
  by_cases hm : m = .pad
  · subst hm
    unfold relationsHold at hrel
    rw [Bool.and_eq_true] at hrel
    have h1 := hrel.1
    split at h1
    · rename_i bs hget _
      exact ⟨bs, hget, by simp only [evalExpr, hpd]; congr 1; exact (by simpa using h1 : bs.length = pad).symm, hrel.2⟩
    · rename_i hne; exact (hne rfl).elim
    · cases h1
  · have hcl : m.closed seen = true := by
      rcases Bool.or_eq_true_iff.mp hc with h | h
      · exact absurd (by simpa using h) hm
      · exact h
    obtain ⟨⟨bs, hget, heval⟩, hr⟩ := rel_readBytes hrel hm
    exact ⟨bs, hget, by rw [evalExpr_closed s env' seen hag m hcl, heval], hr⟩

/-! ### a guard in front of a read cannot fail -/

theorem guard_passesL {C : Codecs} {T : String → Prop} (hC : LawfulCodecs C T) (env' : Env) (plen : Nat) (hp hd : Bool)
    (b : Blk) (e : Expr) (r : List UStmt) :
    ∀ (u : List Slot) (pos : UPos) (seen : List String) (s : UState) (pad : Nat),
      layoutUL r = some u → okUL hp hd pos seen r = true → guardFitsL b e r = true →
      relationsHold C env' plen pad r = true →
      (∀ sl ∈ u, SlotFit C T env' sl) →
      Inv C env' pos s.P s.D s.offset u → Agree seen s.env env' → Recv (recvFields r) s.env env' → s.pad = pad →
      ∃ n, evalExpr s e = some n ∧ s.offset + n ≤ (s.blk b).length := by
  induction r using layoutUL.induct with
  | case1 => intro u pos seen s pad _ _ hg; simp [guardFitsL] at hg
  | case2 p d r _ => intro u pos seen s pad _ _ hg; simp [guardFitsL] at hg
  | case3 r _ => intro u pos seen s pad _ _ hg; simp [guardFitsL] at hg
  | case4 b' e' r _ => intro u pos seen s pad _ _ hg; simp [guardFitsL] at hg
  | case5 b' e' f n r _ =>
    intro u pos seen s pad hl hok hg hrel hfit hinv hag hsz hpd
    simp only [layoutUL, if_true, Option.map_eq_some_iff] at hl
    obtain ⟨u', hl', rfl⟩ := hl
    simp only [okUL, Bool.and_eq_true] at hok
    simp only [guardFitsL, Bool.and_eq_true, beq_iff_eq] at hg
    obtain ⟨rfl, hle⟩ := hg
    obtain ⟨x, hx, hlt⟩ := hfit (.int b n e' f) (List.mem_cons_self ..)
    obtain ⟨pre, hblk, hoff⟩ := hinv.at (sl := .int b n e' f) hok.1
    obtain ⟨j, hj, hjn⟩ := exprLe_eval s e (.lit n) hle n rfl
    refine ⟨j, hj, ?_⟩
    rw [blk_eq_pick]
    have hlen := congrArg List.length hblk
    simp only [Slot.blk, slotBytes, hx, List.length_append, intBytes_length] at hlen
    omega
  | case6 b' w e' f n r hne => intro u pos seen s pad hl; simp [layoutUL, hne] at hl
  | case7 b' e' f n r _ =>
    intro u pos seen s pad hl hok hg hrel hfit hinv hag hsz hpd
    simp only [layoutUL, if_true, Option.map_eq_some_iff] at hl
    obtain ⟨u', hl', rfl⟩ := hl
    simp only [okUL, Bool.and_eq_true] at hok
    simp only [guardFitsL, Bool.and_eq_true, beq_iff_eq] at hg
    obtain ⟨rfl, hle⟩ := hg
    obtain ⟨x, hx, hlt⟩ := hfit (.int b n e' f) (List.mem_cons_self ..)
    obtain ⟨pre, hblk, hoff⟩ := hinv.at (sl := .int b n e' f) hok.1
    obtain ⟨j, hj, hjn⟩ := exprLe_eval s e (.lit n) hle n rfl
    refine ⟨j, hj, ?_⟩
    rw [blk_eq_pick]
    have hlen := congrArg List.length hblk
    simp only [Slot.blk, slotBytes, hx, List.length_append, intBytes_length] at hlen
    omega
  | case8 b' w e' f n r hne => intro u pos seen s pad hl; simp [layoutUL, hne] at hl
  | case9 b' f r _ =>
    intro u pos seen s pad hl hok hg hrel hfit hinv hag hsz hpd
    simp only [layoutUL, Option.map_eq_some_iff] at hl
    obtain ⟨u', hl', rfl⟩ := hl
    simp only [okUL, Bool.and_eq_true] at hok
    simp only [guardFitsL, Bool.and_eq_true, beq_iff_eq] at hg
    obtain ⟨rfl, hle⟩ := hg
    obtain ⟨x, hx, hlt⟩ := hfit (.u8 b f) (List.mem_cons_self ..)
    obtain ⟨pre, hblk, hoff⟩ := hinv.at (sl := .u8 b f) hok.1
    obtain ⟨j, hj, hjn⟩ := exprLe_eval s e (.lit 1) hle 1 rfl
    refine ⟨j, hj, ?_⟩
    rw [blk_eq_pick]
    have hlen := congrArg List.length hblk
    simp only [Slot.blk, slotBytes, hx, List.length_append, List.length_cons, List.length_nil] at hlen
    omega
  | case10 b' f m r _ =>
    intro u pos seen s pad hl hok hg hrel hfit hinv hag hsz hpd
    simp only [layoutUL, if_true, Option.map_eq_some_iff] at hl
    obtain ⟨u', hl', rfl⟩ := hl
    simp only [okUL, Bool.and_eq_true] at hok
    simp only [guardFitsL, Bool.and_eq_true, beq_iff_eq] at hg
    obtain ⟨rfl, hle⟩ := hg
    obtain ⟨bs, hget, hm, _⟩ := rel_readBytes_eval hrel hok.1.2 hag hpd
    obtain ⟨pre, hblk, hoff⟩ := hinv.at (sl := .bytes b f (some m)) hok.1.1
    obtain ⟨j, hj, hjn⟩ := exprLe_eval s e m hle _ hm
    refine ⟨j, hj, ?_⟩
    rw [blk_eq_pick]
    have hlen := congrArg List.length hblk
    simp only [Slot.blk, slotBytes, hget, List.length_append] at hlen
    omega
  | case11 b' f n m r hne => intro u pos seen s pad hl; simp [layoutUL, hne] at hl
  | case12 b' g r _ => intro u pos seen s pad _ _ hg; simp [guardFitsL] at hg
  | case13 b' f g r hne => intro u pos seen s pad hl; simp [layoutUL, hne] at hl
  | case14 b' f m r _ =>
    intro u pos seen s pad hl hok hg hrel hfit hinv hag hsz hpd
    simp only [layoutUL, if_true, Option.map_eq_some_iff] at hl
    obtain ⟨u', hl', rfl⟩ := hl
    simp only [okUL, Bool.and_eq_true] at hok
    simp only [guardFitsL, Bool.and_eq_true, beq_iff_eq] at hg
    obtain ⟨rfl, hle⟩ := hg
    obtain ⟨⟨bs, hget, hm⟩, _⟩ := rel_readArr hrel
    obtain ⟨pre, hblk, hoff⟩ := hinv.at (sl := .arr b f) hok.1
    obtain ⟨j, hj, hjn⟩ := exprLe_eval s e (.lit m) hle m rfl
    refine ⟨j, hj, ?_⟩
    rw [blk_eq_pick]
    have hlen := congrArg List.length hblk
    simp only [Slot.blk, slotBytes, hget, List.length_append] at hlen
    omega
  | case15 b' f n m r hne => intro u pos seen s pad hl; simp [layoutUL, hne] at hl
  | case16 b' f t win r _ =>
    intro u pos seen s pad hl hok hg hrel hfit hinv hag hsz hpd
    simp only [layoutUL, Option.map_eq_some_iff] at hl
    obtain ⟨u', hl', rfl⟩ := hl
    simp only [okUL, Bool.and_eq_true] at hok
    simp only [guardFitsL, Bool.and_eq_true, beq_iff_eq] at hg
    obtain ⟨rfl, hle⟩ := hg
    obtain ⟨v, bs, hget, henc, hT⟩ := hfit (.sub b f t win) (List.mem_cons_self ..)
    obtain ⟨pre, hblk, hoff⟩ := hinv.at (sl := .sub b f t win) hok.1.1
    cases hfs : fixedSize t with
    | none => simp [hfs] at hle
    | some k =>
      simp only [hfs] at hle
      have hk := hC.size t k v bs v hT hfs henc
      obtain ⟨j, hj, hjn⟩ := exprLe_eval s e (.lit k) hle k rfl
      refine ⟨j, hj, ?_⟩
      rw [blk_eq_pick]
      have hlen := congrArg List.length hblk
      simp only [Slot.blk, slotBytes, hget, henc, List.length_append] at hlen
      omega
  | case17 f g b' w e' f' g' r hfg _ =>
    intro u pos seen s pad hl hok hg hrel hfit hinv hag hsz hpd
    obtain ⟨rfl, rfl⟩ := hfg
    simp only [layoutUL, and_self, if_true, Option.map_eq_some_iff] at hl
    obtain ⟨u', hl', rfl⟩ := hl
    simp only [okUL, Bool.and_eq_true, List.contains_iff_mem] at hok
    simp only [guardFitsL, Bool.and_eq_true, beq_iff_eq] at hg
    obtain ⟨rfl, rfl⟩ := hg
    obtain ⟨xs, k, hgetf, hgetg, hlen⟩ := rel_forCountInt hrel
    obtain ⟨pre, hblk, hoff⟩ := hinv.at (sl := .ints b w e' f (some g)) hok.1.1
    have hsg : s.env.get g = some (.n k) := by rw [hag g hok.1.2, hgetg]
    refine ⟨w * k, by simp [evalExpr, hsg], ?_⟩
    subst hlen
    rw [blk_eq_pick]
    have hl2 := congrArg List.length hblk
    simp only [Slot.blk, slotBytes, hgetf, List.length_append, flatMap_intBytes_length] at hl2
    omega
  | case18 f g b' w e' f' g' r hne => intro u pos seen s pad hl; simp [layoutUL, hne] at hl
  | case19 b' w e' f r _ =>
    intro u pos seen s pad hl hok hg hrel hfit hinv hag hsz hpd
    simp only [layoutUL, Option.map_eq_some_iff] at hl
    obtain ⟨u', hl', rfl⟩ := hl
    simp only [okUL, Bool.and_eq_true] at hok
    simp only [guardFitsL, Bool.and_eq_true, beq_iff_eq] at hg
    obtain ⟨rfl, rfl⟩ := hg
    obtain ⟨old, xs, hold, hxs, hlen⟩ := hsz.sized (f := f) (by simp [recvFields])
    obtain ⟨pre, hblk, hoff⟩ := hinv.at (sl := .ints b w e' f none) hok.1
    refine ⟨w * old.length, by simp [evalExpr, hold], ?_⟩
    rw [blk_eq_pick, hlen]
    have hl2 := congrArg List.length hblk
    simp only [Slot.blk, slotBytes, hxs, List.length_append, flatMap_intBytes_length] at hl2
    omega
  | case20 b' f g t size r _ => intro u pos seen s pad _ _ hg; simp [guardFitsL] at hg
  | case21 f b' f' g t size r hne => intro u pos seen s pad hl; simp [layoutUL, hne] at hl
  | case22 b' f n =>
    intro u pos seen s pad hl hok hg hrel hfit hinv hag hsz hpd
    simp only [layoutUL, Option.some.injEq] at hl
    subst hl
    simp only [okUL, Bool.and_eq_true] at hok
    simp only [guardFitsL, Bool.and_eq_true, beq_iff_eq] at hg
    obtain ⟨rfl, hle⟩ := hg
    obtain ⟨⟨bs, hget, heval⟩, _⟩ := rel_readBytes hrel (closed_ne_pad hok.2)
    obtain ⟨pre, hblk, hoff⟩ := hinv.at (sl := .bytes b f (some n)) hok.1
    have hm : evalExpr s n = some bs.length := by rw [evalExpr_closed s env' seen hag n hok.2, heval]
    obtain ⟨j, hj, hjn⟩ := exprLe_eval s e n hle _ hm
    refine ⟨j, hj, ?_⟩
    rw [blk_eq_pick]
    have hlen := congrArg List.length hblk
    simp only [Slot.blk, slotBytes, hget, List.length_append] at hlen
    omega
  | case23 f0 k b' n b'' w e' f m r hc _ => intro u pos seen s pad _ _ hg; simp [guardFitsL] at hg
  | case24 f0 k b' n b'' w e' f m r hc => intro u pos seen s pad hl; simp [layoutUL, hc] at hl
  | case25 f0 n k b' g b'' f m r hc _ => intro u pos seen s pad _ _ hg; simp [guardFitsL] at hg
  | case26 f0 n k b' g b'' f m r hc => intro u pos seen s pad hl; simp [layoutUL, hc] at hl
  | case27 e' r _ => intro u pos seen s pad _ _ hg; simp [guardFitsL] at hg
  | case28 r _ => intro u pos seen s pad _ _ hg; simp [guardFitsL] at hg
  | case29 r _ => intro u pos seen s pad _ _ hg; simp [guardFitsL] at hg
  | case30 b' f t ck st m r _ =>
    intro u pos seen s pad hl hok hg hrel hfit hinv hag hsz hpd
    simp only [layoutUL, if_true, Option.map_eq_some_iff] at hl
    obtain ⟨u', hl', rfl⟩ := hl
    simp only [okUL, Bool.and_eq_true, beq_iff_eq] at hok
    simp only [guardFitsL, Bool.and_eq_true, beq_iff_eq] at hg
    obtain ⟨rfl, hle⟩ := hg
    obtain ⟨v, bs, hget, henc, hT⟩ := hfit (.sub b f t (some m)) (List.mem_cons_self ..)
    obtain ⟨pre, hblk, hoff⟩ := hinv.at (sl := .sub b f t (some m)) hok.1.1
    have hfs : fixedSize t = some m := hok.1.2
    simp only [hfs] at hle
    have hk := hC.size t m v bs v hT hfs henc
    obtain ⟨j, hj, hjn⟩ := exprLe_eval s e (.lit m) hle m rfl
    refine ⟨j, hj, ?_⟩
    rw [blk_eq_pick]
    have hlen := congrArg List.length hblk
    simp only [Slot.blk, slotBytes, hget, henc, List.length_append] at hlen
    omega
  | case31 b' f t n ck st m r hne => intro u pos seen s pad hl; simp [layoutUL, hne] at hl
  | case32 head tail h1 h2 h3 h4 h5 h6 h7 h8 h9 h10 h11 h12 h13 h14 h15 h16 h17 h18 h19 h20 =>
    intro u pos seen s pad hl
    rw [layoutUL] at hl
    · cases hl
    all_goals assumption

/-! ### the unmarshal program reads back what the layout encodes -/

/-- "WordCount tells which": for every optional slot of the layout, the word count of the message equals the one
    Unmarshal tests for iff the field is non-zero (so: on the wire) -/
def WcTells (env' : Env) (wc : Nat) (u : List Slot) : Prop :=
  (∀ b w e f k, Slot.opt b w e f (some k) ∈ u → ∀ x, env'.get f = some (.n x) → (wc = k ↔ x ≠ 0)) ∧
  (∀ b w e f n k, Slot.optInts b w e f n (some k) ∈ u → ∀ xs, env'.get f = some (.ns xs) → xs.length = n →
    (wc = k ↔ xs.any (· != 0) = true))

theorem WcTells.tail {env' : Env} {wc : Nat} {sl : Slot} {u : List Slot} (h : WcTells env' wc (sl :: u)) :
    WcTells env' wc u :=
  ⟨fun b w e f k hm => h.1 b w e f k (List.mem_cons_of_mem _ hm),
   fun b w e f n k hm => h.2 b w e f n k (List.mem_cons_of_mem _ hm)⟩

/-- three little-endian 32-bit integers read by the composite literal `[3]T{…}` of WRITE_AND_CLOSE -/
theorem step_readArr3 (C : Codecs) (s : UState) (b : Blk) (f : String) (pre post : Bytes) (x y z : Nat)
    (hx : x < 256 ^ 4) (hy : y < 256 ^ 4) (hz : z < 256 ^ 4)
    (hblk : s.blk b = pre ++ ([x, y, z].flatMap (intBytes 4 .le) ++ post)) (hoff : s.offset = pre.length) :
    runUStmt C s (.readArr3 b f) = .next { s with env := s.env.set f (.ns [x, y, z]) } := by
  have hb : s.blk b = pre ++ (intBytes 4 .le x ++ (intBytes 4 .le y ++ (intBytes 4 .le z ++ post))) := by
    rw [hblk]; simp [List.flatMap_cons, List.append_assoc]
  have h1 : sliceC (s.blk b) (s.ext b) s.offset (s.offset + 4) = .ok (intBytes 4 .le x) := by
    rw [hb, hoff]; exact sliceC_mid pre _ _ _ 4 (intBytes_length 4 .le x).symm
  have h2 : sliceC (s.blk b) (s.ext b) (s.offset + 4) (s.offset + 8) = .ok (intBytes 4 .le y) := by
    have e : s.blk b = (pre ++ intBytes 4 .le x) ++ (intBytes 4 .le y ++ (intBytes 4 .le z ++ post)) := by
      rw [hb]; simp [List.append_assoc]
    have hl : s.offset + 4 = (pre ++ intBytes 4 .le x).length := by simp [hoff, intBytes_length]
    have hl8 : s.offset + 8 = (pre ++ intBytes 4 .le x).length + 4 := by simp [hoff, intBytes_length]
    rw [e, hl8, hl]
    exact sliceC_mid (pre ++ intBytes 4 .le x) (intBytes 4 .le y) (intBytes 4 .le z ++ post) (s.ext b) 4
      (intBytes_length 4 .le y).symm
  have h3 : sliceC (s.blk b) (s.ext b) (s.offset + 8) (s.offset + 12) = .ok (intBytes 4 .le z) := by
    have e : s.blk b = (pre ++ intBytes 4 .le x ++ intBytes 4 .le y) ++ (intBytes 4 .le z ++ post) := by
      rw [hb]; simp [List.append_assoc]
    have hl : s.offset + 8 = (pre ++ intBytes 4 .le x ++ intBytes 4 .le y).length := by simp [hoff, intBytes_length]
    have hl12 : s.offset + 12 = (pre ++ intBytes 4 .le x ++ intBytes 4 .le y).length + 4 := by simp [hoff, intBytes_length]
    rw [e, hl12, hl]
    exact sliceC_mid _ (intBytes 4 .le z) post (s.ext b) 4 (intBytes_length 4 .le z).symm
  have v1 : leNat (intBytes 4 .le x) = x := intVal_intBytes 4 .le x hx
  have v2 : leNat (intBytes 4 .le y) = y := intVal_intBytes 4 .le y hy
  have v3 : leNat (intBytes 4 .le z) = z := intVal_intBytes 4 .le z hz
  rw [runUStmt, h1, h2, h3]
  simp only [v1, v2, v3]

theorem runU_go_layoutL {C : Codecs} {T : String → Prop} (hC : LawfulCodecs C T) (env' : Env) (plen : Nat) (hp hd : Bool)
    (stmts : List UStmt) :
    ∀ (u : List Slot) (pos : UPos) (seen : List String) (s : UState) (pad : Nat),
      layoutUL stmts = some u → okUL hp hd pos seen stmts = true →
      relationsHold C env' plen pad stmts = true →
      (∀ sl ∈ u, SlotFit C T env' sl) →
      (∀ b, restOnlyLast (u.filter (·.blk == b)) = true) →
      Inv C env' pos s.P s.D s.offset u → Agree seen s.env env' → Recv (recvFields stmts) s.env env' →
      WcTells env' s.wordCount u → s.pad = pad → s.P.length = plen →
      ∃ d, runU.go C s stmts = .ok d ∧ (∀ g ∈ seen, d.get g = env'.get g) ∧
        (NoFire hp hd s.P s.D → ∀ g, (g ∈ seen ∨ g ∈ u.map Slot.field) → d.get g = env'.get g) := by
  induction stmts using layoutUL.induct with
  | case1 =>
    intro u pos seen s pad hl _ _ _ _ _ hag _ _ _ _
    simp only [layoutUL, Option.some.injEq] at hl; subst hl
    refine ⟨s.env, go_nil C s, fun g hg => hag g hg, fun _ g hg => ?_⟩
    rcases hg with hg | hg
    · exact hag g hg
    · simp at hg
  | case2 p d r ih =>
    intro u pos seen s pad hl hok hrel hfit hrest hinv hag hsz hwc hpd hpl
    simp only [recvFields] at hsz
    simp only [layoutUL] at hl
    simp only [okUL, Bool.and_eq_true] at hok
    have hrel' : relationsHold C env' plen pad r = true := by simpa [relationsHold] using hrel
    by_cases hfire : ((!p || s.P.isEmpty) && (!d || s.D.isEmpty)) = true
    · have hst : runUStmt C s (.retIfEmpty p d) = .ret := by rw [runUStmt, if_pos hfire]
      refine ⟨s.env, go_ret r hst, fun g hg => hag g hg, fun hnf => ?_⟩
      exfalso
      obtain ⟨⟨hp1, hd1⟩, _⟩ := hok
      simp only [Bool.and_eq_true, Bool.or_eq_true, Bool.not_eq_true', List.isEmpty_iff] at hfire
      rcases hnf with ⟨h1, h2⟩ | ⟨h1, h2⟩
      · subst h1
        have : p = true := by simpa using hp1
        subst this
        rcases hfire.1 with h | h
        · cases h
        · exact h2 h
      · subst h1
        have : d = true := by simpa using hd1
        subst this
        rcases hfire.2 with h | h
        · cases h
        · exact h2 h
    · have hst : runUStmt C s (.retIfEmpty p d) = .next s := by rw [runUStmt, if_neg hfire]
      rw [go_next r hst]
      exact ih u pos seen s pad hl hok.2 hrel' hfit hrest hinv hag hsz hwc hpd hpl
  | case3 r ih =>
    intro u pos seen s pad hl hok hrel hfit hrest hinv hag hsz hwc hpd hpl
    simp only [recvFields] at hsz
    simp only [layoutUL] at hl
    simp only [okUL] at hok
    have hrel' : relationsHold C env' plen pad r = true := by simpa [relationsHold] using hrel
    have hst : runUStmt C s .resetOffset = .next { s with offset := 0 } := by rw [runUStmt]
    rw [go_next r hst]
    exact ih u pos.reset seen _ pad hl hok hrel' hfit hrest hinv.reset hag hsz hwc hpd hpl
  | case4 b e r ih =>
    intro u pos seen s pad hl hok hrel hfit hrest hinv hag hsz hwc hpd hpl
    simp only [recvFields] at hsz
    simp only [layoutUL] at hl
    simp only [okUL, Bool.and_eq_true] at hok
    have hrel' : relationsHold C env' plen pad r = true := by simpa [relationsHold] using hrel
    obtain ⟨n, hn, hle⟩ := guard_passesL hC env' plen hp hd b e r u pos seen s pad hl hok.2 hok.1 hrel' hfit hinv hag hsz hpd
    have hst : runUStmt C s (.guard b e) = .next s := by
      rw [runUStmt, hn]; simp only []; rw [if_neg (by omega)]
    rw [go_next r hst]
    exact ih u pos seen s pad hl hok.2 hrel' hfit hrest hinv hag hsz hwc hpd hpl
  | case5 b e f n r ih =>
    intro u pos seen s pad hl hok hrel hfit hrest hinv hag hsz hwc hpd hpl
    simp only [recvFields] at hsz
    simp only [layoutUL, if_true, Option.map_eq_some_iff] at hl
    obtain ⟨u', hl', rfl⟩ := hl
    simp only [okUL, Bool.and_eq_true] at hok
    have hrel' : relationsHold C env' plen pad r = true := by simpa [relationsHold] using hrel
    obtain ⟨x, hx, hlt⟩ := hfit (.int b n e f) (List.mem_cons_self ..)
    have hsb : slotBytes C env' (.int b n e f) = intBytes n e x := by simp [slotBytes, hx]
    obtain ⟨pre, hblk, hoff⟩ := hinv.at (sl := .int b n e f) hok.1
    rw [hsb] at hblk
    have h1 := step_readInt C s b n e f pre _ _ ((blk_eq_pick s b).trans hblk) hoff (intBytes_length n e x).symm
    rw [intVal_intBytes n e x hlt] at h1
    have h2 := step_advance C { s with env := s.env.set f (.n x) } (.lit n) n rfl
    have hinv' := hinv.step (sl := .int b n e f) hok.1
    rw [hsb, intBytes_length] at hinv'
    obtain ⟨d, hd, hseen, hagree⟩ := ih u' (pos.read b) (f :: seen)
      { s with env := s.env.set f (.n x), offset := s.offset + n } pad hl' hok.2 hrel'
      (fun sl h => hfit sl (List.mem_cons_of_mem _ h)) (restOnlyLast_tail hrest) hinv' (hag.set f (.n x) hx) (hsz.set f (.n x) hx) hwc.tail hpd hpl
    exact ⟨d, by rw [go_next2 r h1 h2]; exact hd, fun g hg => hseen g (List.mem_cons_of_mem _ hg),
      fun hnf g hg => hagree hnf g (mem_shift hg)⟩
  | case6 b w e f n r hne => intro u pos seen s pad hl; simp [layoutUL, hne] at hl
  | case7 b e f n r ih =>
    intro u pos seen s pad hl hok hrel hfit hrest hinv hag hsz hwc hpd hpl
    simp only [recvFields] at hsz
    simp only [layoutUL, if_true, Option.map_eq_some_iff] at hl
    obtain ⟨u', hl', rfl⟩ := hl
    simp only [okUL, Bool.and_eq_true] at hok
    have hrel' : relationsHold C env' plen pad r = true := by simpa [relationsHold] using hrel
    obtain ⟨x, hx, hlt⟩ := hfit (.int b n e f) (List.mem_cons_self ..)
    have hsb : slotBytes C env' (.int b n e f) = intBytes n e x := by simp [slotBytes, hx]
    obtain ⟨pre, hblk, hoff⟩ := hinv.at (sl := .int b n e f) hok.1
    rw [hsb] at hblk
    have h1 := step_readQuad C s b n e f pre _ _ ((blk_eq_pick s b).trans hblk) hoff (intBytes_length n e x).symm
    rw [intVal_intBytes n e x hlt] at h1
    have h2 := step_advance C { s with env := s.env.set f (.n x) } (.lit n) n rfl
    have hinv' := hinv.step (sl := .int b n e f) hok.1
    rw [hsb, intBytes_length] at hinv'
    obtain ⟨d, hd, hseen, hagree⟩ := ih u' (pos.read b) (f :: seen)
      { s with env := s.env.set f (.n x), offset := s.offset + n } pad hl' hok.2 hrel'
      (fun sl h => hfit sl (List.mem_cons_of_mem _ h)) (restOnlyLast_tail hrest) hinv' (hag.set f (.n x) hx) (hsz.set f (.n x) hx) hwc.tail hpd hpl
    exact ⟨d, by rw [go_next2 r h1 h2]; exact hd, fun g hg => hseen g (List.mem_cons_of_mem _ hg),
      fun hnf g hg => hagree hnf g (mem_shift hg)⟩
  | case8 b w e f n r hne => intro u pos seen s pad hl; simp [layoutUL, hne] at hl
  | case9 b f r ih =>
    intro u pos seen s pad hl hok hrel hfit hrest hinv hag hsz hwc hpd hpl
    simp only [recvFields] at hsz
    simp only [layoutUL, Option.map_eq_some_iff] at hl
    obtain ⟨u', hl', rfl⟩ := hl
    simp only [okUL, Bool.and_eq_true] at hok
    have hrel' : relationsHold C env' plen pad r = true := by simpa [relationsHold] using hrel
    obtain ⟨x, hx, hlt⟩ := hfit (.u8 b f) (List.mem_cons_self ..)
    have hsb : slotBytes C env' (.u8 b f) = [UInt8.ofNat x] := by simp [slotBytes, hx]
    obtain ⟨pre, hblk, hoff⟩ := hinv.at (sl := .u8 b f) hok.1
    rw [hsb, List.singleton_append] at hblk
    have h1 := step_readU8 C s b f pre _ _ ((blk_eq_pick s b).trans hblk) hoff
    rw [toNat_ofNat_lt x hlt] at h1
    have h2 := step_advance C { s with env := s.env.set f (.n x) } (.lit 1) 1 rfl
    have hinv' := hinv.step (sl := .u8 b f) hok.1
    rw [hsb] at hinv'
    obtain ⟨d, hd, hseen, hagree⟩ := ih u' (pos.read b) (f :: seen)
      { s with env := s.env.set f (.n x), offset := s.offset + 1 } pad hl' hok.2 hrel'
      (fun sl h => hfit sl (List.mem_cons_of_mem _ h)) (restOnlyLast_tail hrest) hinv' (hag.set f (.n x) hx) (hsz.set f (.n x) hx) hwc.tail hpd hpl
    exact ⟨d, by rw [go_next2 r h1 h2]; exact hd, fun g hg => hseen g (List.mem_cons_of_mem _ hg),
      fun hnf g hg => hagree hnf g (mem_shift hg)⟩
  | case10 b f m r ih =>
    intro u pos seen s pad hl hok hrel hfit hrest hinv hag hsz hwc hpd hpl
    simp only [recvFields] at hsz
    simp only [layoutUL, if_true, Option.map_eq_some_iff] at hl
    obtain ⟨u', hl', rfl⟩ := hl
    simp only [okUL, Bool.and_eq_true] at hok
    obtain ⟨bs, hget, hm, hrel1⟩ := rel_readBytes_eval hrel hok.1.2 hag hpd
    have hrel' : relationsHold C env' plen pad r = true := by simpa [relationsHold] using hrel1
    have hsb : slotBytes C env' (.bytes b f (some m)) = bs := by simp [slotBytes, hget]
    obtain ⟨pre, hblk, hoff⟩ := hinv.at (sl := .bytes b f (some m)) hok.1.1
    rw [hsb] at hblk
    have h1 := step_readBytes C s b f m bs.length pre _ _ ((blk_eq_pick s b).trans hblk) hoff hm rfl
    have hag' := hag.set f (.b bs) hget
    obtain ⟨bs2, hget2, hm', _⟩ := rel_readBytes_eval (s := { s with env := s.env.set f (.b bs) }) hrel hok.1.2 hag'.weaken hpd
    have hbs : bs2 = bs := by rw [hget] at hget2; injection hget2 with h; injection h with h; exact h.symm
    subst hbs
    have h2 := step_advance C { s with env := s.env.set f (.b bs2) } m bs2.length hm'
    have hinv' := hinv.step (sl := .bytes b f (some m)) hok.1.1
    rw [hsb] at hinv'
    obtain ⟨d, hd, hseen, hagree⟩ := ih u' (pos.read b) (f :: seen)
      { s with env := s.env.set f (.b bs2), offset := s.offset + bs2.length } pad hl' hok.2 hrel'
      (fun sl h => hfit sl (List.mem_cons_of_mem _ h)) (restOnlyLast_tail hrest) hinv' hag' (hsz.set f (.b bs2) hget) hwc.tail hpd hpl
    exact ⟨d, by rw [go_next2 r h1 h2]; exact hd, fun g hg => hseen g (List.mem_cons_of_mem _ hg),
      fun hnf g hg => hagree hnf g (mem_shift hg)⟩
  | case11 b f n m r hne => intro u pos seen s pad hl; simp [layoutUL, hne] at hl
  | case12 b g r ih =>
    intro u pos seen s pad hl hok hrel hfit hrest hinv hag hsz hwc hpd hpl
    simp only [recvFields] at hsz
    simp only [layoutUL, if_true, Option.map_eq_some_iff] at hl
    obtain ⟨u', hl', rfl⟩ := hl
    simp only [okUL, Bool.and_eq_true] at hok
    have hrel' : relationsHold C env' plen pad r = true := by simpa [relationsHold] using hrel
    obtain ⟨bs, hget⟩ := hfit (.bytes b g none) (List.mem_cons_self ..)
    have hsb : slotBytes C env' (.bytes b g none) = bs := by simp [slotBytes, hget]
    obtain ⟨pre, hblk, hoff⟩ := hinv.at (sl := .bytes b g none) hok.1
    have hlast := hrest b
    have hf : (Slot.bytes b g none :: u').filter (·.blk == b) = Slot.bytes b g none :: u'.filter (·.blk == b) :=
      filter_blk_self (.bytes b g none) u'
    rw [hf] at hlast
    simp only [restOnlyLast, Bool.and_eq_true, List.isEmpty_iff] at hlast
    replace hblk : pick s.P s.D b = pre ++ (slotBytes C env' (.bytes b g none) ++
        layoutBytes C env' (u'.filter (·.blk == b))) := hblk
    rw [hsb, hlast.1, layoutBytes_nil, List.append_nil] at hblk
    have h1 := step_readRest C s b g pre bs ((blk_eq_pick s b).trans hblk) hoff
    have h2 := step_advance C { s with env := s.env.set g (.b bs) } (.flen g) bs.length
      (by simp [evalExpr, Env.get_set_self])
    have hinv' := hinv.step (sl := .bytes b g none) hok.1
    rw [hsb] at hinv'
    obtain ⟨d, hd, hseen, hagree⟩ := ih u' (pos.read b) (g :: seen)
      { s with env := s.env.set g (.b bs), offset := s.offset + bs.length } pad hl' hok.2 hrel'
      (fun sl h => hfit sl (List.mem_cons_of_mem _ h)) (restOnlyLast_tail hrest) hinv' (hag.set g (.b bs) hget) (hsz.set g (.b bs) hget) hwc.tail hpd hpl
    exact ⟨d, by rw [go_next2 r h1 h2]; exact hd, fun g hg => hseen g (List.mem_cons_of_mem _ hg),
      fun hnf g hg => hagree hnf g (mem_shift hg)⟩
  | case13 b f g r hne => intro u pos seen s pad hl; simp [layoutUL, hne] at hl
  | case14 b f m r ih =>
    intro u pos seen s pad hl hok hrel hfit hrest hinv hag hsz hwc hpd hpl
    simp only [recvFields] at hsz
    simp only [layoutUL, if_true, Option.map_eq_some_iff] at hl
    obtain ⟨u', hl', rfl⟩ := hl
    simp only [okUL, Bool.and_eq_true] at hok
    obtain ⟨⟨bs, hget, hm⟩, hrel1⟩ := rel_readArr hrel
    have hrel' : relationsHold C env' plen pad r = true := by simpa [relationsHold] using hrel1
    have hsb : slotBytes C env' (.arr b f) = bs := by simp [slotBytes, hget]
    obtain ⟨pre, hblk, hoff⟩ := hinv.at (sl := .arr b f) hok.1
    rw [hsb] at hblk
    have h1 := step_readArr C s b f m pre _ _ ((blk_eq_pick s b).trans hblk) hoff hm
    have h2 := step_advance C { s with env := s.env.set f (.b bs) } (.lit m) m rfl
    have hinv' := hinv.step (sl := .arr b f) hok.1
    rw [hsb, ← hm] at hinv'
    obtain ⟨d, hd, hseen, hagree⟩ := ih u' (pos.read b) (f :: seen)
      { s with env := s.env.set f (.b bs), offset := s.offset + m } pad hl' hok.2 hrel'
      (fun sl h => hfit sl (List.mem_cons_of_mem _ h)) (restOnlyLast_tail hrest) hinv' (hag.set f (.b bs) hget) (hsz.set f (.b bs) hget) hwc.tail hpd hpl
    exact ⟨d, by rw [go_next2 r h1 h2]; exact hd, fun g hg => hseen g (List.mem_cons_of_mem _ hg),
      fun hnf g hg => hagree hnf g (mem_shift hg)⟩
  | case15 b f n m r hne => intro u pos seen s pad hl; simp [layoutUL, hne] at hl
  | case16 b f t win r ih =>
    intro u pos seen s pad hl hok hrel hfit hrest hinv hag hsz hwc hpd hpl
    simp only [recvFields] at hsz
    simp only [layoutUL, Option.map_eq_some_iff] at hl
    obtain ⟨u', hl', rfl⟩ := hl
    simp only [okUL, Bool.and_eq_true] at hok
    obtain ⟨⟨v2, hget2, htup⟩, hrel1⟩ := rel_readSub hrel
    have hrel' : relationsHold C env' plen pad r = true := by simpa [relationsHold] using hrel1
    obtain ⟨v, bs, hget, henc, hT⟩ := hfit (.sub b f t win) (List.mem_cons_self ..)
    have hv : v2 = v := by rw [hget] at hget2; injection hget2 with h; injection h with h; exact h.symm
    subst hv
    have hsb : slotBytes C env' (.sub b f t win) = bs := by simp [slotBytes, hget, henc]
    obtain ⟨pre, hblk, hoff⟩ := hinv.at (sl := .sub b f t win) hok.1.1
    rw [hsb] at hblk
    have hdec : ∀ suffix, suffix = [] ∨ win = none → C.dec t (bs ++ suffix) = .ok (v2, bs.length) := by
      intro suffix hs
      refine hC.rt t v2 bs v2 hT henc htup suffix ?_
      rcases hs with hs | hs
      · exact Or.inl hs
      · subst hs
        right
        simpa using hok.1.2
    have hwin : ∀ n, win = some n → n = bs.length := by
      intro n hn
      subst hn
      have hfs : fixedSize t = some n := by simpa using hok.1.2
      exact (hC.size t n v2 bs v2 hT hfs henc).symm
    have h1 := step_readSub C s b f t win pre bs _ v2 ((blk_eq_pick s b).trans hblk) hoff hwin hdec
    have h2 := step_advanceRead C { s with env := s.env.set f (.t v2), bytesRead := bs.length }
    have hinv' := hinv.step (sl := .sub b f t win) hok.1.1
    rw [hsb] at hinv'
    obtain ⟨d, hd, hseen, hagree⟩ := ih u' (pos.read b) (f :: seen)
      { s with env := s.env.set f (.t v2), bytesRead := bs.length, offset := s.offset + bs.length } pad hl' hok.2 hrel'
      (fun sl h => hfit sl (List.mem_cons_of_mem _ h)) (restOnlyLast_tail hrest) hinv' (hag.set f (.t v2) hget) (hsz.set f (.t v2) hget) hwc.tail hpd hpl
    exact ⟨d, by rw [go_next2 r h1 h2]; exact hd, fun g hg => hseen g (List.mem_cons_of_mem _ hg),
      fun hnf g hg => hagree hnf g (mem_shift hg)⟩
  | case17 f g b w e f' g' r hfg ih =>
    intro u pos seen s pad hl hok hrel hfit hrest hinv hag hsz hwc hpd hpl
    simp only [recvFields] at hsz
    obtain ⟨rfl, rfl⟩ := hfg
    simp only [layoutUL, and_self, if_true, Option.map_eq_some_iff] at hl
    obtain ⟨u', hl', rfl⟩ := hl
    simp only [okUL, Bool.and_eq_true, List.contains_iff_mem] at hok
    obtain ⟨xs, k, hgetf, hgetg, hlen⟩ := rel_forCountInt hrel
    have hrel' : relationsHold C env' plen pad r = true := by
      have := rel_tail2 hrel; simpa [relationsHold] using this
    obtain ⟨xs2, hx2, hlt⟩ := hfit (.ints b w e f (some g)) (List.mem_cons_self ..)
    have hxs : xs2 = xs := by rw [hgetf] at hx2; injection hx2 with h; injection h with h; exact h.symm
    subst hxs
    have hfg : f ≠ g := by intro e; subst e; rw [hgetf] at hgetg; cases hgetg
    have hsb : slotBytes C env' (.ints b w e f (some g)) = xs2.flatMap (intBytes w e) := by simp [slotBytes, hgetf]
    obtain ⟨pre, hblk, hoff⟩ := hinv.at (sl := .ints b w e f (some g)) hok.1.1
    rw [hsb] at hblk
    have hsg : s.env.get g = some (.n k) := by rw [hag g hok.1.2, hgetg]
    have h1 : runUStmt C s (.makeInts f g) = .next { s with env := s.env.set f (.ns (List.replicate k 0)) } := by
      rw [runUStmt, hsg]
    have h2 : runUStmt C { s with env := s.env.set f (.ns (List.replicate k 0)) } (.forCountInt b w e f g) =
        .next { s with env := (s.env.set f (.ns (List.replicate k 0))).set f (.ns xs2), offset := s.offset + w * xs2.length } := by
      rw [runUStmt]
      simp only [Env.get_set_ne _ _ _ _ (Ne.symm hfg), hsg]
      have hb : ({ s with env := s.env.set f (.ns (List.replicate k 0)) } : UState).blk b = pre ++ (xs2.flatMap (intBytes w e) ++
          layoutBytes C env' (u'.filter (·.blk == b))) := (blk_eq_pick s b).trans hblk
      rw [hb, hoff, ← hlen, readInts_layout w e _ _ xs2 pre [] hlt]
      simp
    have hinv' := hinv.step (sl := .ints b w e f (some g)) hok.1.1
    rw [hsb, flatMap_intBytes_length] at hinv'
    have hgs : ∀ x, ((s.env.set f (.ns (List.replicate k 0))).set f (.ns xs2)).get x = (s.env.set f (.ns xs2)).get x := by
      intro x; simp only [Env.get_set]; split <;> rfl
    obtain ⟨d, hd, hseen, hagree⟩ := ih u' (pos.read b) (f :: seen)
      { s with env := (s.env.set f (.ns (List.replicate k 0))).set f (.ns xs2), offset := s.offset + w * xs2.length } pad hl' hok.2 hrel'
      (fun sl h => hfit sl (List.mem_cons_of_mem _ h)) (restOnlyLast_tail hrest) hinv'
      ((hag.set f (.ns xs2) hgetf).congr_left hgs) ((hsz.set f (.ns xs2) hgetf).congr_left hgs) hwc.tail hpd hpl
    exact ⟨d, by rw [go_next2 r h1 h2]; exact hd, fun g hg => hseen g (List.mem_cons_of_mem _ hg),
      fun hnf g hg => hagree hnf g (mem_shift hg)⟩
  | case18 f g b w e f' g' r hne => intro u pos seen s pad hl; simp [layoutUL, hne] at hl
  | case19 b w e f r ih =>
    intro u pos seen s pad hl hok hrel hfit hrest hinv hag hsz hwc hpd hpl
    simp only [layoutUL, Option.map_eq_some_iff] at hl
    obtain ⟨u', hl', rfl⟩ := hl
    simp only [okUL, Bool.and_eq_true] at hok
    have hrel' : relationsHold C env' plen pad r = true := by simpa [relationsHold] using hrel
    obtain ⟨old, xs, hold, hgetf, hlen⟩ := hsz.sized (f := f) (by simp [recvFields])
    obtain ⟨xs2, hx2, hlt⟩ := hfit (.ints b w e f none) (List.mem_cons_self ..)
    have hxs : xs2 = xs := by rw [hgetf] at hx2; injection hx2 with h; injection h with h; exact h.symm
    subst hxs
    have hsb : slotBytes C env' (.ints b w e f none) = xs2.flatMap (intBytes w e) := by simp [slotBytes, hgetf]
    obtain ⟨pre, hblk, hoff⟩ := hinv.at (sl := .ints b w e f none) hok.1
    rw [hsb] at hblk
    have h1 : runUStmt C s (.forRangeInt b w e f) =
        .next { s with env := s.env.set f (.ns xs2), offset := s.offset + w * xs2.length } := by
      rw [runUStmt]
      simp only [hold]
      rw [(blk_eq_pick s b).trans hblk, hoff, hlen, readInts_layout w e _ _ xs2 pre [] hlt]
      simp
    have hinv' := hinv.step (sl := .ints b w e f none) hok.1
    rw [hsb, flatMap_intBytes_length] at hinv'
    have hsz' : Recv (recvFields r) s.env env' := fun x hx => hsz x (by simp [recvFields, hx])
    obtain ⟨d, hd, hseen, hagree⟩ := ih u' (pos.read b) (f :: seen)
      { s with env := s.env.set f (.ns xs2), offset := s.offset + w * xs2.length } pad hl' hok.2 hrel'
      (fun sl h => hfit sl (List.mem_cons_of_mem _ h)) (restOnlyLast_tail hrest) hinv'
      (hag.set f (.ns xs2) hgetf) (hsz'.set f (.ns xs2) hgetf) hwc.tail hpd hpl
    exact ⟨d, by rw [go_next r h1]; exact hd, fun g hg => hseen g (List.mem_cons_of_mem _ hg),
      fun hnf g hg => hagree hnf g (mem_shift hg)⟩
  | case20 b f g t size r ih =>
    intro u pos seen s pad hl hok hrel hfit hrest hinv hag hsz hwc hpd hpl
    simp only [recvFields] at hsz
    simp only [layoutUL, if_true, Option.map_eq_some_iff] at hl
    obtain ⟨u', hl', rfl⟩ := hl
    simp only [okUL, Bool.and_eq_true, List.contains_iff_mem, beq_iff_eq] at hok
    obtain ⟨vs, k, hgetf, hgetg, hlen, htup, hfix⟩ := rel_forCountSub hrel
    have hrel' : relationsHold C env' plen pad r = true := by
      have := rel_tail2 hrel; simpa [relationsHold] using this
    obtain ⟨vs2, hv2, hT, _⟩ := hfit (.subs b f t (some g) (some size)) (List.mem_cons_self ..)
    have hvs : vs2 = vs := by rw [hgetf] at hv2; injection hv2 with h; injection h with h; exact h.symm
    subst hvs
    have hfg : f ≠ g := by intro e; subst e; rw [hgetf] at hgetg; cases hgetg
    have helem : ∀ v ∈ vs2, ∃ bs, C.enc t v = .ok (bs, v) ∧ bs.length = size ∧ C.dec t bs = .ok (v, bs.length) :=
      fun v hv => elem_lawful hC hT hok.1.2 (htup v hv) (hfix v hv)
    have hsb : slotBytes C env' (.subs b f t (some g) (some size)) = vs2.flatMap (encBytes C t) :=
      slotBytes_subs C env' b f t _ _ vs2 hgetf
    obtain ⟨pre, hblk, hoff⟩ := hinv.at (sl := .subs b f t (some g) (some size)) hok.1.1.1
    rw [hsb] at hblk
    have hsg : s.env.get g = some (.n k) := by rw [hag g hok.1.1.2, hgetg]
    have h1 : runUStmt C s (.clear f) = .next { s with env := s.env.set f (.ts []) } := by rw [runUStmt]
    have h2 : runUStmt C { s with env := s.env.set f (.ts []) } (.forCountSub b f g t size) =
        .next { s with env := (s.env.set f (.ts [])).set f (.ts vs2), offset := s.offset + size * vs2.length } := by
      rw [runUStmt]
      simp only [Env.get_set_ne _ _ _ _ (Ne.symm hfg), hsg, Env.get_set_self]
      have hb : ({ s with env := s.env.set f (.ts []) } : UState).blk b = pre ++ (vs2.flatMap (encBytes C t) ++
          layoutBytes C env' (u'.filter (·.blk == b))) := (blk_eq_pick s b).trans hblk
      rw [hb, hoff, ← hlen, readSubsCounted_layout C t size _ _ vs2 pre [] helem]
      simp
    have hinv' := hinv.step (sl := .subs b f t (some g) (some size)) hok.1.1.1
    rw [hsb, flatMap_encBytes_length C t size vs2 (fun v hv => by
      obtain ⟨bs, he, hl, _⟩ := helem v hv; simp [encBytes, he, hl])] at hinv'
    have hgs : ∀ x, ((s.env.set f (.ts [])).set f (.ts vs2)).get x = (s.env.set f (.ts vs2)).get x := by
      intro x; simp only [Env.get_set]; split <;> rfl
    obtain ⟨d, hd, hseen, hagree⟩ := ih u' (pos.read b) (f :: seen)
      { s with env := (s.env.set f (.ts [])).set f (.ts vs2), offset := s.offset + size * vs2.length } pad hl' hok.2 hrel'
      (fun sl h => hfit sl (List.mem_cons_of_mem _ h)) (restOnlyLast_tail hrest) hinv'
      ((hag.set f (.ts vs2) hgetf).congr_left hgs) ((hsz.set f (.ts vs2) hgetf).congr_left hgs) hwc.tail hpd hpl
    exact ⟨d, by rw [go_next2 r h1 h2]; exact hd, fun g hg => hseen g (List.mem_cons_of_mem _ hg),
      fun hnf g hg => hagree hnf g (mem_shift hg)⟩
  | case21 f b f' g t size r hne => intro u pos seen s pad hl; simp [layoutUL, hne] at hl
  | case22 b f m =>
    intro u pos seen s pad hl hok hrel hfit hrest hinv hag hsz hwc hpd hpl
    simp only [layoutUL, Option.some.injEq] at hl
    subst hl
    simp only [okUL, Bool.and_eq_true] at hok
    obtain ⟨⟨bs, hget, heval⟩, _⟩ := rel_readBytes hrel (closed_ne_pad hok.2)
    have hsb : slotBytes C env' (.bytes b f (some m)) = bs := by simp [slotBytes, hget]
    obtain ⟨pre, hblk, hoff⟩ := hinv.at (sl := .bytes b f (some m)) hok.1
    rw [hsb] at hblk
    have hm : evalExpr s m = some bs.length := by rw [evalExpr_closed s env' seen hag m hok.2, heval]
    have h1 := step_readBytes C s b f m bs.length pre _ _ ((blk_eq_pick s b).trans hblk) hoff hm rfl
    have hag' := hag.set f (.b bs) hget
    refine ⟨s.env.set f (.b bs), by rw [go_next [] h1, go_nil], fun g hg => hag' g (List.mem_cons_of_mem _ hg), fun _ g hg => ?_⟩
    rcases hg with hg | hg
    · exact hag' g (List.mem_cons_of_mem _ hg)
    · simp only [List.map_cons, List.map_nil, List.mem_singleton, Slot.field] at hg
      subst hg
      exact hag' g (List.mem_cons_self ..)
  | case23 f0 k b n b' w e f m r hcond ih =>
    intro u pos seen s pad hl hok hrel hfit hrest hinv hag hsz hwc hpd hpl
    simp only [recvFields] at hsz
    obtain ⟨rfl, rfl, hn, hm⟩ := hcond
    subst hm
    subst hn
    simp only [layoutUL, and_self, if_true, Option.map_eq_some_iff] at hl
    obtain ⟨u', hl', rfl⟩ := hl
    simp only [okUL, Bool.and_eq_true] at hok
    have hrel' : relationsHold C env' plen pad r = true := by
      have h1 : relationsHold C env' plen pad
          (.ifWordCount k [.guard b (.lit n), .readInt b n e f0, .advance (.lit n)] :: r) = true := by
        simpa [relationsHold] using hrel
      unfold relationsHold at h1; rw [Bool.and_eq_true] at h1; exact h1.2
    obtain ⟨x, hx, hlt⟩ := hfit (.opt b n e f0 (some k)) (List.mem_cons_self ..)
    obtain ⟨pre, hblk, hoff⟩ := hinv.at (sl := .opt b n e f0 (some k)) hok.1
    have hiff := hwc.1 b n e f0 k (List.mem_cons_self ..) x hx
    -- `c.F = 0` first: whatever the receiver held is gone
    let s1 : UState := { s with env := s.env.set f0 (.n 0) }
    have h0 : runUStmt C s (.zeroInt f0) = .next s1 := by rw [runUStmt]
    by_cases hx0 : x = 0
    · -- the field is not on the wire, the word count says so, and the reset has put zero there
      have hne : ¬ s1.wordCount = k := fun h => (hiff.mp h) hx0
      have h1 : runUStmt C s1 (.ifWordCount k [.guard b (.lit n), .readInt b n e f0, .advance (.lit n)]) = .next s1 := by
        rw [runUStmt, if_neg hne]
      have hsb : slotBytes C env' (.opt b n e f0 (some k)) = [] := by simp [slotBytes, hx, hx0]
      have hinv' := hinv.step (sl := .opt b n e f0 (some k)) hok.1
      rw [hsb] at hinv'
      simp only [List.length_nil, Nat.add_zero] at hinv'
      have hx' : env'.get f0 = some (.n 0) := by rw [hx, hx0]
      obtain ⟨d, hd, hseen, hagree⟩ := ih u' (pos.read b) (f0 :: seen) s1 pad hl' hok.2 hrel'
        (fun sl h => hfit sl (List.mem_cons_of_mem _ h)) (restOnlyLast_tail hrest) hinv' (hag.set f0 (.n 0) hx')
        (hsz.set f0 (.n 0) hx') hwc.tail hpd hpl
      exact ⟨d, by rw [go_next2 r h0 h1]; exact hd, fun g hg => hseen g (List.mem_cons_of_mem _ hg),
        fun hnf g hg => hagree hnf g (mem_shift hg)⟩
    · -- the field is on the wire and the word count says so
      have heq : s1.wordCount = k := hiff.mpr hx0
      have hsb : slotBytes C env' (.opt b n e f0 (some k)) = intBytes n e x := by simp [slotBytes, hx, hx0]
      rw [hsb] at hblk
      have hblk' : s1.blk b = pre ++ (intBytes n e x ++ layoutBytes C env' (u'.filter (·.blk == b))) :=
        (blk_eq_pick s b).trans hblk
      have hg : runUStmt C s1 (.guard b (.lit n)) = .next s1 := by
        rw [runUStmt]
        simp only [evalExpr]
        rw [if_neg (by rw [hblk']; simp only [List.length_append, intBytes_length]; show ¬ _ < s.offset + n; omega)]
      have hr := step_readInt C s1 b n e f0 pre _ _ hblk' hoff (intBytes_length n e x).symm
      rw [intVal_intBytes n e x hlt] at hr
      have ha := step_advance C { s1 with env := s1.env.set f0 (.n x) } (.lit n) n rfl
      have h1 : runUStmt C s1 (.ifWordCount k [.guard b (.lit n), .readInt b n e f0, .advance (.lit n)]) =
          .next { s1 with env := s1.env.set f0 (.n x), offset := s1.offset + n } := by
        rw [runUStmt, if_pos heq]
        simp only [runUStmts, hg, hr, ha]
      have hinv' := hinv.step (sl := .opt b n e f0 (some k)) hok.1
      rw [hsb, intBytes_length] at hinv'
      have hgs : ∀ y, ((s.env.set f0 (.n 0)).set f0 (.n x)).get y = (s.env.set f0 (.n x)).get y := by
        intro y; simp only [Env.get_set]; split <;> rfl
      obtain ⟨d, hd, hseen, hagree⟩ := ih u' (pos.read b) (f0 :: seen)
        { s1 with env := s1.env.set f0 (.n x), offset := s1.offset + n } pad hl' hok.2 hrel'
        (fun sl h => hfit sl (List.mem_cons_of_mem _ h)) (restOnlyLast_tail hrest) hinv'
        ((hag.set f0 (.n x) hx).congr_left hgs) ((hsz.set f0 (.n x) hx).congr_left hgs) hwc.tail hpd hpl
      exact ⟨d, by rw [go_next2 r h0 h1]; exact hd, fun g hg => hseen g (List.mem_cons_of_mem _ hg),
        fun hnf g hg => hagree hnf g (mem_shift hg)⟩
  | case24 f0 k b n b' w e f m r hc => intro u pos seen s pad hl; simp [layoutUL, hc] at hl
  | case25 f0 n k b g b' f m r hcond ih =>
    intro u pos seen s pad hl hok hrel hfit hrest hinv hag hsz hwc hpd hpl
    simp only [recvFields] at hsz
    obtain ⟨rfl, rfl, rfl, rfl, rfl⟩ := hcond
    simp only [layoutUL, and_self, if_true, Option.map_eq_some_iff] at hl
    obtain ⟨u', hl', rfl⟩ := hl
    simp only [okUL, Bool.and_eq_true] at hok
    have hrel1 : relationsHold C env' plen pad
        (.ifWordCount k [.guard b (.lit 12), .readArr3 b f0, .advance (.lit 12)] :: r) = true := by
      simpa [relationsHold] using hrel
    unfold relationsHold at hrel1
    rw [Bool.and_eq_true] at hrel1
    obtain ⟨hbody, hrel'⟩ := hrel1
    obtain ⟨xs, hx, hlt⟩ := hfit (.optInts b 4 .le f0 3 (some k)) (List.mem_cons_self ..)
    have hlen3 : xs.length = 3 := by
      have hb2 : relationsHold C env' plen pad [.readArr3 b f0, .advance (.lit 12)] = true := by
        simpa [relationsHold] using hbody
      unfold relationsHold at hb2
      rw [Bool.and_eq_true] at hb2
      have := hb2.1
      rw [hx] at this
      simpa using this
    obtain ⟨pre, hblk, hoff⟩ := hinv.at (sl := .optInts b 4 .le f0 3 (some k)) hok.1
    have hiff := hwc.2 b 4 .le f0 3 k (List.mem_cons_self ..) xs hx hlen3
    -- `c.F = [3]T{0, 0, 0}` first: whatever the receiver held is gone
    let s1 : UState := { s with env := s.env.set f0 (.ns (List.replicate 3 0)) }
    have h0 : runUStmt C s (.zeroInts f0 3) = .next s1 := by rw [runUStmt]
    by_cases hany : xs.any (· != 0) = true
    · -- the array is on the wire and the word count says so
      have heq : s1.wordCount = k := hiff.mpr hany
      obtain ⟨x, y, z, rfl⟩ : ∃ x y z, xs = [x, y, z] := by
        match xs, hlen3 with
        | [x, y, z], _ => exact ⟨x, y, z, rfl⟩
      have hsb : slotBytes C env' (.optInts b 4 .le f0 3 (some k)) = [x, y, z].flatMap (intBytes 4 .le) := by
        simp only [slotBytes, hx, hany, if_true]
      rw [hsb] at hblk
      have hblk' : s1.blk b = pre ++ ([x, y, z].flatMap (intBytes 4 .le) ++ layoutBytes C env' (u'.filter (·.blk == b))) :=
        (blk_eq_pick s b).trans hblk
      have hl12 : ([x, y, z].flatMap (intBytes 4 .le)).length = 12 := by simp [List.flatMap_cons, intBytes_length]
      have hg : runUStmt C s1 (.guard b (.lit 12)) = .next s1 := by
        rw [runUStmt]
        simp only [evalExpr]
        rw [if_neg (by rw [hblk']; simp only [List.length_append, hl12]; show ¬ _ < s.offset + 12; omega)]
      have hr := step_readArr3 C s1 b f0 pre _ x y z (hlt x (by simp)) (hlt y (by simp)) (hlt z (by simp)) hblk' hoff
      have ha := step_advance C { s1 with env := s1.env.set f0 (.ns [x, y, z]) } (.lit 12) 12 rfl
      have h1 : runUStmt C s1 (.ifWordCount k [.guard b (.lit 12), .readArr3 b f0, .advance (.lit 12)]) =
          .next { s1 with env := s1.env.set f0 (.ns [x, y, z]), offset := s1.offset + 12 } := by
        rw [runUStmt, if_pos heq]
        simp only [runUStmts, hg, hr, ha]
      have hinv' := hinv.step (sl := .optInts b 4 .le f0 3 (some k)) hok.1
      rw [hsb, hl12] at hinv'
      have hgs : ∀ q, ((s.env.set f0 (.ns (List.replicate 3 0))).set f0 (.ns [x, y, z])).get q = (s.env.set f0 (.ns [x, y, z])).get q := by
        intro q; simp only [Env.get_set]; split <;> rfl
      obtain ⟨d, hd, hseen, hagree⟩ := ih u' (pos.read b) (f0 :: seen)
        { s1 with env := s1.env.set f0 (.ns [x, y, z]), offset := s1.offset + 12 } pad hl' hok.2 hrel'
        (fun sl h => hfit sl (List.mem_cons_of_mem _ h)) (restOnlyLast_tail hrest) hinv'
        ((hag.set f0 (.ns [x, y, z]) hx).congr_left hgs) ((hsz.set f0 (.ns [x, y, z]) hx).congr_left hgs) hwc.tail hpd hpl
      exact ⟨d, by rw [go_next2 r h0 h1]; exact hd, fun g hg => hseen g (List.mem_cons_of_mem _ hg),
        fun hnf g hg => hagree hnf g (mem_shift hg)⟩
    · -- no element is set: the array is not on the wire, the word count says so, and the reset has put the zeros there
      have hne : ¬ s1.wordCount = k := fun h => hany (hiff.mp h)
      have h1 : runUStmt C s1 (.ifWordCount k [.guard b (.lit 12), .readArr3 b f0, .advance (.lit 12)]) = .next s1 := by
        rw [runUStmt, if_neg hne]
      have hsb : slotBytes C env' (.optInts b 4 .le f0 3 (some k)) = [] := by
        simp only [slotBytes, hx, hany, Bool.false_eq_true, if_false]
      have hinv' := hinv.step (sl := .optInts b 4 .le f0 3 (some k)) hok.1
      rw [hsb] at hinv'
      simp only [List.length_nil, Nat.add_zero] at hinv'
      have hz : xs = List.replicate 3 0 := by
        have hall : ∀ q ∈ xs, q = 0 := by
          intro q hq
          by_cases hq0 : q = 0
          · exact hq0
          · exact absurd (List.any_eq_true.2 ⟨q, hq, by simpa using hq0⟩) hany
        match xs, hlen3, hall with
        | [x, y, z], _, hall =>
          rw [hall x (by simp), hall y (by simp), hall z (by simp)]; rfl
      have hx' : env'.get f0 = some (.ns (List.replicate 3 0)) := by rw [hx, hz]
      obtain ⟨d, hd, hseen, hagree⟩ := ih u' (pos.read b) (f0 :: seen) s1 pad hl' hok.2 hrel'
        (fun sl h => hfit sl (List.mem_cons_of_mem _ h)) (restOnlyLast_tail hrest) hinv' (hag.set f0 _ hx')
        (hsz.set f0 _ hx') hwc.tail hpd hpl
      exact ⟨d, by rw [go_next2 r h0 h1]; exact hd, fun g hg => hseen g (List.mem_cons_of_mem _ hg),
        fun hnf g hg => hagree hnf g (mem_shift hg)⟩
  | case26 f0 n k b g b' f m r hc => intro u pos seen s pad hl; simp [layoutUL, hc] at hl
  | case27 e r ih =>
    intro u pos seen s pad hl hok hrel hfit hrest hinv hag hsz hwc hpd hpl
    simp only [recvFields] at hsz
    simp only [layoutUL] at hl
    simp only [okUL, Bool.and_eq_true] at hok
    unfold relationsHold at hrel
    split at hrel
    · rename_i n hn
      have hev : evalExpr s e = some n := by rw [evalExpr_closed s env' seen hag e hok.1, hn]
      have h1 : runUStmt C s (.setPad e) = .next { s with pad := n } := by rw [runUStmt, hev]
      rw [go_next r h1]
      exact ih u pos seen { s with pad := n } n hl hok.2 hrel hfit hrest hinv hag hsz hwc rfl hpl
    · cases hrel
  | case28 r ih =>
    intro u pos seen s pad hl hok hrel hfit hrest hinv hag hsz hwc hpd hpl
    simp only [recvFields] at hsz
    simp only [layoutUL] at hl
    simp only [okUL] at hok
    subst hpd
    unfold relationsHold at hrel
    have h1 : runUStmt C s .padRoundUp = .next { s with pad := if s.pad % 2 = 1 then s.pad + 1 else s.pad } := by rw [runUStmt]
    rw [go_next r h1]
    exact ih u pos seen _ _ hl hok hrel hfit hrest hinv hag hsz hwc rfl hpl
  | case29 r ih =>
    intro u pos seen s pad hl hok hrel hfit hrest hinv hag hsz hwc hpd hpl
    simp only [recvFields] at hsz
    simp only [layoutUL] at hl
    simp only [okUL] at hok
    subst hpd
    subst hpl
    unfold relationsHold at hrel
    have h1 : runUStmt C s .padIfPOdd = .next { s with pad := if (s.P.length + 3) % 2 = 1 then 1 else s.pad } := by rw [runUStmt]
    rw [go_next r h1]
    exact ih u pos seen _ _ hl hok hrel hfit hrest hinv hag hsz hwc rfl rfl
  | case30 b f t ck st m r ih =>
    intro u pos seen s pad hl hok hrel hfit hrest hinv hag hsz hwc hpd hpl
    simp only [recvFields] at hsz
    simp only [layoutUL, if_true, Option.map_eq_some_iff] at hl
    obtain ⟨u', hl', rfl⟩ := hl
    simp only [okUL, Bool.and_eq_true, beq_iff_eq] at hok
    obtain ⟨⟨v2, hget2, htup⟩, hrel1⟩ := rel_readSub hrel
    have hrel' : relationsHold C env' plen pad r = true := by simpa [relationsHold] using hrel1
    obtain ⟨v, bs, hget, henc, hT⟩ := hfit (.sub b f t (some m)) (List.mem_cons_self ..)
    have hv : v2 = v := by rw [hget] at hget2; injection hget2 with h; injection h with h; exact h.symm
    subst hv
    have hsb : slotBytes C env' (.sub b f t (some m)) = bs := by simp [slotBytes, hget, henc]
    obtain ⟨pre, hblk, hoff⟩ := hinv.at (sl := .sub b f t (some m)) hok.1.1
    rw [hsb] at hblk
    have hfs : fixedSize t = some m := hok.1.2
    have hm : m = bs.length := (hC.size t m v2 bs v2 hT hfs henc).symm
    have hdec : C.dec t bs = .ok (v2, bs.length) := by
      have := hC.rt t v2 bs v2 hT henc htup [] (Or.inl rfl)
      rwa [List.append_nil] at this
    have h1 := step_readSubWin C s b f t m ck st pre bs _ v2 ((blk_eq_pick s b).trans hblk) hoff hm hdec
    have h2 := step_advance C { s with env := s.env.set f (.t v2), bytesRead := if st then bs.length else s.bytesRead }
      (.lit m) m rfl
    have hinv' := hinv.step (sl := .sub b f t (some m)) hok.1.1
    rw [hsb, ← hm] at hinv'
    obtain ⟨d, hd, hseen, hagree⟩ := ih u' (pos.read b) (f :: seen)
      { s with env := s.env.set f (.t v2), bytesRead := if st then bs.length else s.bytesRead, offset := s.offset + m } pad hl' hok.2 hrel'
      (fun sl h => hfit sl (List.mem_cons_of_mem _ h)) (restOnlyLast_tail hrest) hinv' (hag.set f (.t v2) hget) (hsz.set f (.t v2) hget) hwc.tail hpd hpl
    exact ⟨d, by rw [go_next2 r h1 h2]; exact hd, fun g hg => hseen g (List.mem_cons_of_mem _ hg),
      fun hnf g hg => hagree hnf g (mem_shift hg)⟩
  | case31 b f t n ck st m r hne => intro u pos seen s pad hl; simp [layoutUL, hne] at hl
  | case32 head tail h1 h2 h3 h4 h5 h6 h7 h8 h9 h10 h11 h12 h13 h14 h15 h16 h17 h18 h19 h20 =>
    intro u pos seen s pad hl
    rw [layoutUL] at hl
    · cases hl
    all_goals assumption

end Manticore.SmbIR
