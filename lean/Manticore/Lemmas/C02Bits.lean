/-
  Helper lemmas for C02: the bit-level facts about `ParityAdjust` / `createDesKey` (exhaustive per byte
  by `decide +kernel`, regrouping by bit extensionality).
-/
import Manticore.Model.C02
import Manticore.Lemmas.Bits
namespace Manticore.C02
open Manticore
theorem and_one_cases (y : UInt8) : y &&& 1 = 0 ∨ y &&& 1 = 1 := by
  have : ∀ n : Fin 256, (UInt8.ofNat n.val) &&& 1 = 0 ∨ (UInt8.ofNat n.val) &&& 1 = 1 := by decide +kernel
  have h := this ⟨y.toNat, y.toNat_lt⟩
  simpa using h

theorem ite_bit (y acc t : UInt8) :
    (if y &&& 1 = 1 then acc ||| (1 <<< t) else acc) = acc ||| ((y &&& 1) <<< t) := by
  rcases and_one_cases y with h | h
  · rw [h]; simp
  · rw [h]; simp

/-- exhaustive over the 256 byte values: OR-ing `ParityBit` into a byte whose low bit is clear keeps its
    upper seven bits and makes its parity odd -/
theorem parity_byte (p : UInt8) (h : p &&& 1 = 0) :
    Spec.oddParity (p ||| UInt8.ofNat (parityBit p.toNat)) = true ∧
    Spec.top7 (p ||| UInt8.ofNat (parityBit p.toNat)) = Spec.top7 p := by
  have : ∀ n : Fin 256, (UInt8.ofNat n.val) &&& 1 = 0 →
      Spec.oddParity ((UInt8.ofNat n.val) ||| UInt8.ofNat (parityBit (UInt8.ofNat n.val).toNat)) = true ∧
      Spec.top7 ((UInt8.ofNat n.val) ||| UInt8.ofNat (parityBit (UInt8.ofNat n.val).toNat)) = Spec.top7 (UInt8.ofNat n.val) := by
    decide +kernel
  have h' := this ⟨p.toNat, p.toNat_lt⟩
  simp only [UInt8.ofNat_toNat] at h'
  exact h' h

/-- the seven bits of a group, packed as `ParityAdjust` packs them -/
def packed (y0 y1 y2 y3 y4 y5 y6 : UInt8) : UInt8 :=
  ((y0 &&& 1) <<< 7) ||| ((y1 &&& 1) <<< 6) ||| ((y2 &&& 1) <<< 5) ||| ((y3 &&& 1) <<< 4) |||
  ((y4 &&& 1) <<< 3) ||| ((y5 &&& 1) <<< 2) ||| ((y6 &&& 1) <<< 1)

theorem packBits7 (y0 y1 y2 y3 y4 y5 y6 : UInt8) :
    packBits [y0 &&& 1, y1 &&& 1, y2 &&& 1, y3 &&& 1, y4 &&& 1, y5 &&& 1, y6 &&& 1] 0 0 = packed y0 y1 y2 y3 y4 y5 y6 := by
  simp only [packBits, ite_bit, packed]
  simp

theorem packed_low (y0 y1 y2 y3 y4 y5 y6 : UInt8) : packed y0 y1 y2 y3 y4 y5 y6 &&& 1 = 0 := by
  apply UInt8.eq_of_toBitVec_eq
  simp only [packed, UInt8.toBitVec_and, UInt8.toBitVec_or, UInt8.toBitVec_shiftLeft]
  bv_bits8

theorem top7_packed (y0 y1 y2 y3 y4 y5 y6 : UInt8) :
    Spec.top7 (packed y0 y1 y2 y3 y4 y5 y6) = [y0 &&& 1, y1 &&& 1, y2 &&& 1, y3 &&& 1, y4 &&& 1, y5 &&& 1, y6 &&& 1] := by
  simp only [Spec.top7, List.cons.injEq, and_true]
  refine ⟨?_, ?_, ?_, ?_, ?_, ?_, ?_⟩ <;>
  · apply UInt8.eq_of_toBitVec_eq
    simp only [packed, UInt8.toBitVec_and, UInt8.toBitVec_or, UInt8.toBitVec_shiftLeft, UInt8.toBitVec_shiftRight]
    bv_bits8

theorem adjustByte_bits (y0 y1 y2 y3 y4 y5 y6 : UInt8) :
    adjustByte [y0 &&& 1, y1 &&& 1, y2 &&& 1, y3 &&& 1, y4 &&& 1, y5 &&& 1, y6 &&& 1] =
      packed y0 y1 y2 y3 y4 y5 y6 ||| UInt8.ofNat (parityBit (packed y0 y1 y2 y3 y4 y5 y6).toNat) := by
  simp only [adjustByte, packBits7]

theorem adjustByte_spec (y0 y1 y2 y3 y4 y5 y6 : UInt8) :
    Spec.oddParity (adjustByte [y0 &&& 1, y1 &&& 1, y2 &&& 1, y3 &&& 1, y4 &&& 1, y5 &&& 1, y6 &&& 1]) = true ∧
    Spec.top7 (adjustByte [y0 &&& 1, y1 &&& 1, y2 &&& 1, y3 &&& 1, y4 &&& 1, y5 &&& 1, y6 &&& 1]) =
      [y0 &&& 1, y1 &&& 1, y2 &&& 1, y3 &&& 1, y4 &&& 1, y5 &&& 1, y6 &&& 1] := by
  rw [adjustByte_bits]
  have := parity_byte _ (packed_low y0 y1 y2 y3 y4 y5 y6)
  exact ⟨this.1, by rw [this.2, top7_packed]⟩

/-- the bits of a byte, most significant first, put back together -/
theorem pack_bits_of_byte (k : UInt8) :
    (((k >>> 7) &&& 1) <<< 7) ||| (((k >>> 6) &&& 1) <<< 6) ||| (((k >>> 5) &&& 1) <<< 5) ||| (((k >>> 4) &&& 1) <<< 4) |||
    (((k >>> 3) &&& 1) <<< 3) ||| (((k >>> 2) &&& 1) <<< 2) ||| (((k >>> 1) &&& 1) <<< 1) ||| ((k >>> 0) &&& 1) = k := by
  apply UInt8.eq_of_toBitVec_eq
  simp only [UInt8.toBitVec_and, UInt8.toBitVec_or, UInt8.toBitVec_shiftLeft, UInt8.toBitVec_shiftRight]
  bv_bits8

theorem parityAdjust7 (k0 k1 k2 k3 k4 k5 k6 : UInt8) :
    parityAdjust [k0, k1, k2, k3, k4, k5, k6] =
      [adjustByte [(k0 >>> 7) &&& 1, (k0 >>> 6) &&& 1, (k0 >>> 5) &&& 1, (k0 >>> 4) &&& 1, (k0 >>> 3) &&& 1, (k0 >>> 2) &&& 1, (k0 >>> 1) &&& 1],
       adjustByte [(k0 >>> 0) &&& 1, (k1 >>> 7) &&& 1, (k1 >>> 6) &&& 1, (k1 >>> 5) &&& 1, (k1 >>> 4) &&& 1, (k1 >>> 3) &&& 1, (k1 >>> 2) &&& 1],
       adjustByte [(k1 >>> 1) &&& 1, (k1 >>> 0) &&& 1, (k2 >>> 7) &&& 1, (k2 >>> 6) &&& 1, (k2 >>> 5) &&& 1, (k2 >>> 4) &&& 1, (k2 >>> 3) &&& 1],
       adjustByte [(k2 >>> 2) &&& 1, (k2 >>> 1) &&& 1, (k2 >>> 0) &&& 1, (k3 >>> 7) &&& 1, (k3 >>> 6) &&& 1, (k3 >>> 5) &&& 1, (k3 >>> 4) &&& 1],
       adjustByte [(k3 >>> 3) &&& 1, (k3 >>> 2) &&& 1, (k3 >>> 1) &&& 1, (k3 >>> 0) &&& 1, (k4 >>> 7) &&& 1, (k4 >>> 6) &&& 1, (k4 >>> 5) &&& 1],
       adjustByte [(k4 >>> 4) &&& 1, (k4 >>> 3) &&& 1, (k4 >>> 2) &&& 1, (k4 >>> 1) &&& 1, (k4 >>> 0) &&& 1, (k5 >>> 7) &&& 1, (k5 >>> 6) &&& 1],
       adjustByte [(k5 >>> 5) &&& 1, (k5 >>> 4) &&& 1, (k5 >>> 3) &&& 1, (k5 >>> 2) &&& 1, (k5 >>> 1) &&& 1, (k5 >>> 0) &&& 1, (k6 >>> 7) &&& 1],
       adjustByte [(k6 >>> 6) &&& 1, (k6 >>> 5) &&& 1, (k6 >>> 4) &&& 1, (k6 >>> 3) &&& 1, (k6 >>> 2) &&& 1, (k6 >>> 1) &&& 1, (k6 >>> 0) &&& 1]] := rfl

/-- exhaustive over the 256 byte values: the parity rule of `createDesKey` and `ParityBit` agree -/
theorem setParity_eq (y : UInt8) (h : y &&& 1 = 0) :
    (if bitCount8 y % 2 = 0 then y ||| 1 else y) = y ||| UInt8.ofNat (parityBit y.toNat) := by
  have : ∀ n : Fin 256, (UInt8.ofNat n.val) &&& 1 = 0 →
      (if bitCount8 (UInt8.ofNat n.val) % 2 = 0 then (UInt8.ofNat n.val) ||| 1 else (UInt8.ofNat n.val)) =
        (UInt8.ofNat n.val) ||| UInt8.ofNat (parityBit (UInt8.ofNat n.val).toNat) := by
    decide +kernel
  have h' := this ⟨y.toNat, y.toNat_lt⟩
  simp only [UInt8.ofNat_toNat] at h'
  exact h' h

theorem setParity_packed (x : UInt8) (y0 y1 y2 y3 y4 y5 y6 : UInt8) (h : x <<< 1 = packed y0 y1 y2 y3 y4 y5 y6) :
    setParity x = adjustByte [y0 &&& 1, y1 &&& 1, y2 &&& 1, y3 &&& 1, y4 &&& 1, y5 &&& 1, y6 &&& 1] := by
  rw [adjustByte_bits, setParity]
  simp only [h]
  exact setParity_eq _ (packed_low _ _ _ _ _ _ _)

macro "shift_bits" : tactic => `(tactic|
  (apply UInt8.eq_of_toBitVec_eq
   simp only [packed, UInt8.toBitVec_and, UInt8.toBitVec_or, UInt8.toBitVec_shiftLeft, UInt8.toBitVec_shiftRight]
   bv_bits8))


theorem parity_adjust_strip (k0 k1 k2 k3 k4 k5 k6 : UInt8) :
    Spec.stripParity (parityAdjust [k0, k1, k2, k3, k4, k5, k6]) = [k0, k1, k2, k3, k4, k5, k6] := by
  rw [parityAdjust7]
  simp only [Spec.stripParity, List.flatMap_cons, List.flatMap_nil, (adjustByte_spec _ _ _ _ _ _ _).2,
      List.cons_append, List.nil_append, List.append_nil, Spec.pack8, pack_bits_of_byte]

theorem parity_adjust_odd (k0 k1 k2 k3 k4 k5 k6 : UInt8) :
    ∀ o ∈ parityAdjust [k0, k1, k2, k3, k4, k5, k6], Spec.oddParity o = true := by
  rw [parityAdjust7]
  intro o ho
  simp only [List.mem_cons, List.not_mem_nil, or_false] at ho
  rcases ho with rfl | rfl | rfl | rfl | rfl | rfl | rfl | rfl <;> exact (adjustByte_spec _ _ _ _ _ _ _).1

macro "shift_bits" : tactic => `(tactic|
  (apply UInt8.eq_of_toBitVec_eq
   simp only [packed, UInt8.toBitVec_and, UInt8.toBitVec_or, UInt8.toBitVec_shiftLeft, UInt8.toBitVec_shiftRight]
   bv_bits8))

theorem createDesKey_eq (k0 k1 k2 k3 k4 k5 k6 : UInt8) :
    createDesKey [k0, k1, k2, k3, k4, k5, k6] = .ok (parityAdjust [k0, k1, k2, k3, k4, k5, k6]) := by
  rw [parityAdjust7]
  simp only [createDesKey, List.map_cons, List.map_nil]
  rw [setParity_packed (k0 >>> 1) (k0 >>> 7) (k0 >>> 6) (k0 >>> 5) (k0 >>> 4) (k0 >>> 3) (k0 >>> 2) (k0 >>> 1) (by shift_bits),
    setParity_packed _ (k0 >>> 0) (k1 >>> 7) (k1 >>> 6) (k1 >>> 5) (k1 >>> 4) (k1 >>> 3) (k1 >>> 2) (by shift_bits),
    setParity_packed _ (k1 >>> 1) (k1 >>> 0) (k2 >>> 7) (k2 >>> 6) (k2 >>> 5) (k2 >>> 4) (k2 >>> 3) (by shift_bits),
    setParity_packed _ (k2 >>> 2) (k2 >>> 1) (k2 >>> 0) (k3 >>> 7) (k3 >>> 6) (k3 >>> 5) (k3 >>> 4) (by shift_bits),
    setParity_packed _ (k3 >>> 3) (k3 >>> 2) (k3 >>> 1) (k3 >>> 0) (k4 >>> 7) (k4 >>> 6) (k4 >>> 5) (by shift_bits),
    setParity_packed _ (k4 >>> 4) (k4 >>> 3) (k4 >>> 2) (k4 >>> 1) (k4 >>> 0) (k5 >>> 7) (k5 >>> 6) (by shift_bits),
    setParity_packed _ (k5 >>> 5) (k5 >>> 4) (k5 >>> 3) (k5 >>> 2) (k5 >>> 1) (k5 >>> 0) (k6 >>> 7) (by shift_bits),
    setParity_packed _ (k6 >>> 6) (k6 >>> 5) (k6 >>> 4) (k6 >>> 3) (k6 >>> 2) (k6 >>> 1) (k6 >>> 0) (by shift_bits)]

end Manticore.C02
