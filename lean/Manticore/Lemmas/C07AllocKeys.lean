/-
  C07, allocation clause, for the key-credential decoders (models of C14 / C15):
  what each decoding entry point returns, and what its Go code has allocated when it returns, is
  bounded by a linear function of the input length with the constants stated in each theorem.

  The size measures and the `…AllocOf` functions are in Model/C14Alloc.lean; they follow the Go
  statements of /repo/windows/keycredential (read on this run) in their order.  Summary:

    entry point                          size of the result ≤            allocated (all inputs) ≤
    DNWithBinary.Parse                   |raw|                           |raw|   (+ 2|raw| of short-lived copies)
    CustomKeyInformation.FromBytes       2|b| + 56   (zero receiver)     |b|
    RSAKeyMaterial.FromBytes             2|v|                            0 (views spanning ≤ |v| - 24 bytes)
    KeyCredential.FromBytes              3|b| + 160  (zero receiver)     2|b|
    ConvertToBinaryIdentifier            |s|  (hex |s|/2, base64 3|s|/4) |s|
    KeyCredentialVersion.FromBytes       20                              0
    GUID.FromRawBytes                    40                              0
    ConvertFromBinaryTime                24                              0

  None of these functions sizes a `make` by a number read from the input before comparing that
  number with the input: the one announced count of the family (`DNWithBinary.Parse`, the `<n>` of
  `B:<n>:<hex>:<dn>`) is only compared with the decoded length.  `dnAllocEager` / `rsaAllocEager`
  are models of the defect; the examples show that they break the bounds proved here.

  Core Lean only.
-/
import Manticore.Model.C14Alloc
import Manticore.Lemmas.SmbCodecsAlloc
import Manticore.Lemmas.C14Total
import Manticore.Props.C14
namespace Manticore.C07A.Keys
open Manticore Manticore.C14

/-! ## `DNWithBinary.Parse` -/

theorem dnAllocOf_le (raw : Bytes) : dnAllocOf raw ≤ raw.length := by
  unfold dnAllocOf
  split
  · next p0 r1 h1 =>
    split
    · next p1 r2 h2 =>
      split
      · next p2 p3 h3 =>
        have l1 := splitColon_length _ _ _ h1
        have l2 := splitColon_length _ _ _ h2
        have l3 := splitColon_length _ _ _ h3
        split
        · split
          · split <;> omega
          · omega
        · omega
      · omega
    · omega
  · omega

theorem dnTransientOf_le (raw : Bytes) : dnTransientOf raw ≤ 2 * raw.length := by
  unfold dnTransientOf
  split
  · next p0 r1 h1 =>
    split
    · next p1 r2 h2 =>
      split
      · next p2 p3 h3 =>
        have l1 := splitColon_length _ _ _ h1
        have l2 := splitColon_length _ _ _ h2
        have l3 := splitColon_length _ _ _ h3
        split
        · show p1.length + (p2.length + p2.length) ≤ 2 * raw.length
          omega
        · omega
      · omega
    · omega
  · omega

theorem dnParse_alloc (raw bin dn : Bytes) (h : dnParse raw = .ok (bin, dn)) :
    dnSize (bin, dn) = dnAllocOf raw := by
  unfold dnParse at h
  unfold dnAllocOf dnSize
  split at h
  · next p0 r1 h1 =>
    simp only [h1]
    split at h
    · next p1 r2 h2 =>
      simp only [h2]
      split at h
      · next p2 p3 h3 =>
        simp only [h3]
        split at h
        · next size hs =>
          simp only [hs]
          split at h
          · next b hb =>
            simp only [hb]
            split at h
            · cases h
            · next hc =>
              simp only [Outcome.ok.injEq, Prod.mk.injEq] at h
              obtain ⟨rfl, rfl⟩ := h
              rw [if_neg hc]
              have l4 := hexDecode_length _ _ hb
              omega
          · cases h
        · cases h
      · cases h
    · cases h
  · cases h

/-- **`DNWithBinary.Parse`** (`dnParse`, text `B:<n>:<hex>:<dn>`).
    Size of the result: `|BinaryData| + |DistinguishedName|`.  Allocation (`dnAllocOf`): the buffer of
    `hex.DecodeString` (`make([]byte, len(parts[2])/2)`, reached only after `Atoi` accepted `<n>`) and
    the copy `string(parts[3])` behind the comparison `len(binaryPart)*2 != size`.
    For every input the allocation is at most `|raw|` (linear, c1 = 1, c0 = 0), and a returned value
    is exactly what was allocated.  The announced `<n>` never sizes anything. -/
theorem dnParse_alloc_bound (raw : Bytes) :
    dnAllocOf raw ≤ raw.length ∧
    ∀ bin dn, dnParse raw = .ok (bin, dn) →
      dnSize (bin, dn) = dnAllocOf raw ∧ dnSize (bin, dn) ≤ raw.length := by
  refine ⟨dnAllocOf_le raw, fun bin dn h => ?_⟩
  have h1 := dnParse_alloc raw bin dn h
  have h2 := dnAllocOf_le raw
  exact ⟨h1, by omega⟩

/-- the short-lived copies `DNWithBinary.Parse` makes on the way (`string(parts[1])`,
    `string(parts[2])`, `[]byte(s)` in `hex.DecodeString`) are copies of disjoint pieces of the input,
    the second piece twice: at most `2·|raw|` -/
theorem dnParse_transient_bound (raw : Bytes) : dnTransientOf raw ≤ 2 * raw.length := dnTransientOf_le raw

/-- the clause is not vacuous: were `make([]byte, size/2)` placed right after `Atoi`, in front of
    the comparison, the 17-byte input `B:4000000000:00:x` would cost 2 000 000 000 bytes; the code as
    it is allocates one byte on it and returns an error -/
example : dnAllocEager [66,58,52,48,48,48,48,48,48,48,48,48,58,48,48,58,120] = 2000000000 := by decide
example : ¬ dnAllocEager [66,58,52,48,48,48,48,48,48,48,48,48,58,48,48,58,120]
    ≤ [66,58,52,48,48,48,48,48,48,48,48,48,58,48,48,58,120].length := by decide
example : dnAllocOf [66,58,52,48,48,48,48,48,48,48,48,48,58,48,48,58,120] = 1 := by decide
example : dnParse [66,58,52,48,48,48,48,48,48,48,48,48,58,48,48,58,120] = .err := by decide
/-- a successful parse (`B:2:41:x`): one byte of binary data and one of DN were allocated -/
example : dnParse [66,58,50,58,52,49,58,120] = .ok ([0x41], [120]) := by decide
example : dnAllocOf [66,58,50,58,52,49,58,120] = 2 := by decide

/-! ## `CustomKeyInformation.FromBytes` -/

theorem ckiAllocOf_le (b : Bytes) : ckiAllocOf b ≤ b.length := by
  unfold ckiAllocOf
  split
  · repeat' split
    all_goals omega
  · omega

/-- the fields of the result, case by case on the ladder -/
theorem cki_fromBytes_fields (c : CKI) (b : Bytes) :
    (c.fromBytes b).1.rawBytes = b ∧
    (c.fromBytes b).1.reserved.length + (c.fromBytes b).1.extended.length ≤
      c.reserved.length + c.extended.length + ckiAllocOf b ∧
    (c.reserved.length + c.extended.length = 0 → (c.fromBytes b).1.reserved.length + (c.fromBytes b).1.extended.length = ckiAllocOf b) := by
  unfold CKI.fromBytes ckiAllocOf
  split
  · next v f rest =>
    simp only []
    split
    · simp
    · repeat' split
      all_goals refine ⟨rfl, ?_, ?_⟩
      all_goals simp only [List.length_take, List.length_drop, List.length_cons] at *
      all_goals omega
  · simp

/-- **`CustomKeyInformation.FromBytes`** (`CKI.fromBytes`; the function has no failing slice and its
    model is a plain function).  Allocation (`ckiAllocOf`): `Reserved = make([]byte, 10)` from 19 bytes
    on and `EncodedExtendedCKI = make([]byte, RawBytesSize-19)` above 19; both lengths come from
    `len(blob)`, none from the content.  For every input the allocation is at most `|b|` (in fact
    `|b| - 9`); the two owned fields of the result are the receiver's or what was allocated (exactly
    what was allocated for a receiver that owned nothing); the size of the result (7 numbers, `RawBytes`
    = the input as a view, the two copies) is at most the receiver's size plus `2·|b|`. -/
theorem cki_fromBytes_alloc_bound (c : CKI) (b : Bytes) :
    ckiAllocOf b ≤ b.length ∧
    (c.fromBytes b).1.owned ≤ c.owned + ckiAllocOf b ∧
    (c.owned = 0 → (c.fromBytes b).1.owned = ckiAllocOf b) ∧
    (c.fromBytes b).1.size ≤ c.size + 2 * b.length := by
  obtain ⟨h1, h2, h3⟩ := cki_fromBytes_fields c b
  have h4 := ckiAllocOf_le b
  refine ⟨h4, h2, h3, ?_⟩
  simp only [CKI.size, h1]
  omega

/-- on the zero receiver (the callers' case): size `≤ 2·|b| + 56`, and what the value owns is
    exactly what was allocated -/
theorem cki_fromBytes_alloc_bound_zero (b : Bytes) :
    (({} : CKI).fromBytes b).1.size ≤ 2 * b.length + 56 ∧
    (({} : CKI).fromBytes b).1.owned = ckiAllocOf b := by
  obtain ⟨_, _, h3, h4⟩ := cki_fromBytes_alloc_bound {} b
  exact ⟨by simpa [CKI.size, Nat.add_comm] using h4, h3 rfl⟩

example : ckiAllocOf [1, 0, 0, 0, 0, 0, 0, 0, 0, 0, 0, 0, 0, 0, 0, 0, 0, 0, 0, 7, 7] = 12 := by decide
example : (({} : CKI).fromBytes [1, 0, 0, 0, 0, 0, 0, 0, 0, 0, 0, 0, 0, 0, 0, 0, 0, 0, 0, 7, 7]).1.extended = [7, 7] := by decide
example : ckiAllocOf [1, 0, 0, 0, 0, 0, 0, 0, 0] = 0 := by decide

/-! ## `RSAKeyMaterial.FromBytes` -/

theorem rsaAllocOf_le (v : Bytes) : rsaAllocOf v + 24 ≤ v.length ∨ rsaAllocOf v = 0 := by
  unfold rsaAllocOf
  simp only []
  split
  · exact Or.inr rfl
  split
  · exact Or.inr rfl
  split
  · exact Or.inr rfl
  · left; omega

theorem rsa_fromBytes_alloc (rk r : RSAKeyMaterial) (v e : Bytes) (flag : Bool)
    (h : RSAKeyMaterial.fromBytes rk v e = .ok (r, flag)) :
    r.rawBytes = v ∧
    (flag = false → r.modulus.length + r.prime1.length + r.prime2.length = rsaAllocOf v) ∧
    (flag = true → r.modulus = rk.modulus ∧ r.prime1 = rk.prime1 ∧ r.prime2 = rk.prime2 ∧ rsaAllocOf v = 0) := by
  unfold RSAKeyMaterial.fromBytes at h
  unfold rsaAllocOf
  simp only [] at h ⊢
  split at h
  · next h1 =>
    simp only [Outcome.ok.injEq, Prod.mk.injEq] at h
    obtain ⟨rfl, rfl⟩ := h
    simp [h1]
  split at h
  · next h1 h2 =>
    simp only [Outcome.ok.injEq, Prod.mk.injEq] at h
    obtain ⟨rfl, rfl⟩ := h
    simp [h1, h2]
  split at h
  · next h1 h2 h3 =>
    simp only [Outcome.ok.injEq, Prod.mk.injEq] at h
    obtain ⟨rfl, rfl⟩ := h
    simp [h1, h2, h3]
  · next h1 h2 h3 =>
    simp only [Outcome.ok.injEq, Prod.mk.injEq] at h
    obtain ⟨rfl, rfl⟩ := h
    rw [if_neg h1, if_neg h2, if_neg h3]
    refine ⟨rfl, fun _ => ?_, fun hf => by cases hf⟩
    simp only [List.length_take, List.length_drop]
    omega

/-- **`RSAKeyMaterial.FromBytes`** (`RSAKeyMaterial.fromBytes`; result = receiver and error flag).
    The function contains no `make`: `Modulus`, `Prime1`, `Prime2` are slice views whose lengths are
    read from the header, created behind the check `eSize+mSize+p1Size+p2Size ≤ len(value)-24`
    (uint64 arithmetic, RSAKeyMaterial.go:78).  `rsaAllocOf` counts the bytes these views span.
    For every input they span at most `|v|` bytes (`|v| - 24` when there are any).  Without error the
    three fields are exactly those views and the size of the result (3 numbers, the three fields,
    `RawBytes` = the input) is at most `2·|v|`; with an error nothing was sliced and the result is the
    receiver with `RawBytes` replaced: at most the receiver's size plus `|v|`. -/
theorem rsa_fromBytes_alloc_bound (rk r : RSAKeyMaterial) (v e : Bytes) (flag : Bool)
    (h : RSAKeyMaterial.fromBytes rk v e = .ok (r, flag)) :
    rsaAllocOf v ≤ v.length ∧
    (flag = false → r.modulus.length + r.prime1.length + r.prime2.length = rsaAllocOf v ∧
      r.size ≤ 2 * v.length) ∧
    (flag = true → rsaAllocOf v = 0 ∧ r.size ≤ rk.size + v.length) := by
  obtain ⟨h1, h2, h3⟩ := rsa_fromBytes_alloc rk r v e flag h
  have h4 := rsaAllocOf_le v
  refine ⟨by omega, fun hf => ?_, fun hf => ?_⟩
  · have := h2 hf
    subst hf
    have hb := (rsa_fromBytes_bounded rk r v e h).2
    refine ⟨this, ?_⟩
    simp only [RSAKeyMaterial.size, h1]
    omega
  · obtain ⟨a, b, c, d⟩ := h3 hf
    refine ⟨d, ?_⟩
    simp only [RSAKeyMaterial.size, h1, a, b, c]
    omega

/-- the allocation bound holds for every input, successful or not -/
theorem rsaAllocOf_bound (v : Bytes) : rsaAllocOf v ≤ v.length := by
  have := rsaAllocOf_le v; omega

/-- the clause is not vacuous: a 24-byte header that announces a 4 GiB modulus.  With the fields
    sized before the check of line 78 it would cost 4 294 967 295 bytes; the code as it is returns an
    error before any slice -/
example : rsaAllocEager [82, 83, 65, 49, 0,0,0,0, 0,0,0,0, 0xff,0xff,0xff,0xff, 0,0,0,0, 0,0,0,0] = 4294967295 := by decide
example : rsaAllocOf [82, 83, 65, 49, 0,0,0,0, 0,0,0,0, 0xff,0xff,0xff,0xff, 0,0,0,0, 0,0,0,0] = 0 := by decide
example : (RSAKeyMaterial.fromBytes {} [82, 83, 65, 49, 0,0,0,0, 0,0,0,0, 0xff,0xff,0xff,0xff, 0,0,0,0, 0,0,0,0] []).isOk = true := by decide
/-- a successful parse: exponent size 1, modulus size 2 -/
example : rsaAllocOf [82, 83, 65, 49, 0,8,0,0, 1,0,0,0, 2,0,0,0, 0,0,0,0, 0,0,0,0, 3, 0xAA, 0xBB] = 2 := by decide

/-! ## `KeyCredential.FromBytes` -/

theorem b64Encode_length : ∀ b : Bytes, (b64Encode b).length = 4 * ((b.length + 2) / 3)
  | [] => by simp [b64Encode]
  | [_] => by simp [b64Encode]
  | [_, _] => by simp [b64Encode]
  | a :: b :: c :: rest => by
    simp only [b64Encode, List.length_cons, b64Encode_length rest]
    omega

theorem fromBinaryId_length_le (d : Bytes) (v : UInt32) : (fromBinaryId d v).length ≤ 2 * d.length + 3 := by
  unfold fromBinaryId
  split
  · rw [hexEncode_length]; omega
  · rw [b64Encode_length]; omega

theorem applyEntry_size (k k' : KeyCredential) (t : UInt8) (d e : Bytes) (h : applyEntry k t d e = .ok k') :
    k'.rawBytes = k.rawBytes ∧ k'.version = k.version ∧
    k'.size ≤ k.size + 2 * d.length + 3 ∧
    k'.owned ≤ k.owned + entryAllocOf k.version t d := by
  unfold applyEntry at h
  unfold entryAllocOf
  split at h
  · next h1 =>
    cases h
    have := fromBinaryId_length_le d k.version
    refine ⟨rfl, rfl, ?_, ?_⟩ <;> simp only [KeyCredential.size, KeyCredential.owned, if_pos h1] <;> omega
  next h1 =>
  rw [if_neg h1]
  split at h
  · cases h
    refine ⟨rfl, rfl, ?_, ?_⟩ <;> simp only [KeyCredential.size, KeyCredential.owned] <;> omega
  next h2 =>
  split at h
  · next h3 =>
    split at h
    · next m hm =>
      cases h
      obtain ⟨hr, hb⟩ := rsa_fromBytes_bounded _ _ _ _ hm
      refine ⟨rfl, rfl, ?_, ?_⟩ <;> simp only [KeyCredential.size, KeyCredential.owned, RSAKeyMaterial.size, hr] <;> omega
    all_goals cases h
  next h3 =>
  split at h
  · next h4 =>
    rw [if_pos h4]
    split at h
    · cases h
      refine ⟨rfl, rfl, ?_, ?_⟩ <;> simp only [KeyCredential.size, KeyCredential.owned] <;> omega
    · next hne =>
      cases h
      refine ⟨rfl, rfl, ?_, ?_⟩
      · simp only [KeyCredential.size]; omega
      · split
        · exact absurd rfl (hne _)
        · simp only [KeyCredential.owned]; omega
  next h4 =>
  rw [if_neg h4]
  split at h
  · split at h
    · cases h
      refine ⟨rfl, rfl, ?_, ?_⟩ <;> simp only [KeyCredential.size, KeyCredential.owned] <;> (try split) <;> omega
    · cases h
  split at h
  · split at h
    · cases h
    · split at h
      · cases h
        refine ⟨rfl, rfl, ?_, ?_⟩ <;> simp only [KeyCredential.size, KeyCredential.owned, Guid.size] <;> (try split) <;> omega
      all_goals cases h
  split at h
  · next h7 =>
    cases h
    obtain ⟨c1, c2, _⟩ := cki_fromBytes_fields k.cki d
    rw [if_pos h7]
    have := ckiAllocOf_le d
    refine ⟨rfl, rfl, ?_, ?_⟩ <;> simp only [KeyCredential.size, KeyCredential.owned, CKI.size, CKI.owned, c1] <;> omega
  next h7 =>
  rw [if_neg h7]
  split at h
  · split at h
    · cases h
    · split at h
      · cases h
        refine ⟨rfl, rfl, ?_, ?_⟩ <;> simp only [KeyCredential.size, KeyCredential.owned] <;> omega
      all_goals cases h
  split at h
  · split at h
    · cases h
    · split at h
      · cases h
        refine ⟨rfl, rfl, ?_, ?_⟩ <;> simp only [KeyCredential.size, KeyCredential.owned] <;> omega
      all_goals cases h
  · cases h
    refine ⟨rfl, rfl, ?_, ?_⟩ <;> omega

theorem entryAllocOf_le (v : UInt32) (t : UInt8) (d : Bytes) : entryAllocOf v t d ≤ 2 * d.length + 3 := by
  unfold entryAllocOf
  have := fromBinaryId_length_le d v
  have := ckiAllocOf_le d
  repeat' split
  all_goals omega

theorem parseLoopAllocOf_le (k : KeyCredential) (rem : Bytes) : parseLoopAllocOf k rem ≤ 2 * rem.length := by
  induction h : rem.length using Nat.strongRecOn generalizing k rem with
  | _ n ih =>
    unfold parseLoopAllocOf
    split
    · next l0 l1 t x rest' =>
      simp only []
      split
      · omega
      · next hn =>
        have he := entryAllocOf_le k.version t (List.take (le16 l0 l1).toNat (x :: rest'))
        have hl : (List.take (le16 l0 l1).toNat (x :: rest')).length = (le16 l0 l1).toNat := by
          simp only [List.length_take]; omega
        have hd : (List.drop (le16 l0 l1).toNat (x :: rest')).length = (x :: rest').length - (le16 l0 l1).toNat := by
          simp only [List.length_drop]
        split
        · next k' _ =>
          have := ih _ (by subst h; simp only [List.length_drop, List.length_cons]; omega) k' (List.drop (le16 l0 l1).toNat (x :: rest')) rfl
          subst h
          simp only [List.length_cons] at *
          omega
        · subst h
          simp only [List.length_cons] at *
          omega
        · omega
    · omega

theorem parseLoop_size (k k' : KeyCredential) (rem : Bytes) (hp : parseLoop k rem = .ok k') :
    k'.rawBytes = k.rawBytes ∧ k'.size ≤ k.size + 2 * rem.length ∧
    k'.owned ≤ k.owned + parseLoopAllocOf k rem := by
  induction h : rem.length using Nat.strongRecOn generalizing k rem with
  | _ n ih =>
    unfold parseLoop at hp
    unfold parseLoopAllocOf
    split at hp
    · next l0 l1 t x rest' =>
      simp only [] at hp ⊢
      split at hp
      · cases hp
      · next hn =>
        rw [if_neg hn]
        have hl : (List.take (le16 l0 l1).toNat (x :: rest')).length = (le16 l0 l1).toNat := by
          simp only [List.length_take]; omega
        have hd : (List.drop (le16 l0 l1).toNat (x :: rest')).length = (x :: rest').length - (le16 l0 l1).toNat := by
          simp only [List.length_drop]
        split at hp
        · next k1 ha =>
          simp only [ha]
          obtain ⟨a1, a2, a3, a4⟩ := applyEntry_size _ _ _ _ _ ha
          obtain ⟨b1, b2, b3⟩ := ih _ (by subst h; simp only [List.length_drop, List.length_cons]; omega) k1 (List.drop (le16 l0 l1).toNat (x :: rest')) hp rfl
          subst h
          refine ⟨b1.trans a1, ?_, ?_⟩
          · simp only [List.length_cons] at *; omega
          · omega
        · cases hp
        · cases hp
    · cases hp
      exact ⟨rfl, by omega, by omega⟩

theorem kcAllocOf_le (k : KeyCredential) (b : Bytes) : kcAllocOf k b ≤ 2 * b.length := by
  unfold kcAllocOf
  split
  · refine Nat.le_trans (parseLoopAllocOf_le _ _) ?_
    simp only [List.length_cons]
    omega
  · omega

/-- **`KeyCredential.FromBytes`** (`KeyCredential.fromBytes k b`, `k` the receiver).
    Size of a credential: 6 numbers, every byte string (identifier text, key hash, legacy usage,
    `RawBytes`), and the sizes of the nested `RSAKeyMaterial`, `CustomKeyInformation`, `GUID`.
    Allocation (`kcAllocOf`): the sum, over the entries the loop went through, of the identifier text
    (`hex.EncodeToString`: `2n`; `base64.StdEncoding.EncodeToString`: `4·⌈n/3⌉`), `string(entryData)`
    for a legacy usage and the two `make`s of `CustomKeyInformation.FromBytes`; the entry length is
    checked against the rest of the blob before the entry is touched; every other field is a view of
    the blob or a number.  Linear:
    * for every input (error returns included) at most `2·|b|` bytes are allocated;
    * what the result owns is at most what the receiver owned plus what was allocated;
    * the size of the result is at most the receiver's size plus `3·|b|` (`|b|` for `RawBytes`, and
      `2·(3+n)` for an entry of `3+n` bytes). -/
theorem keyCredential_fromBytes_alloc_bound (k : KeyCredential) (b : Bytes) :
    kcAllocOf k b ≤ 2 * b.length ∧
    ∀ k', KeyCredential.fromBytes k b = .ok k' →
      k'.owned ≤ k.owned + kcAllocOf k b ∧ k'.size + 8 ≤ k.size + 3 * b.length := by
  refine ⟨kcAllocOf_le k b, fun k' h => ?_⟩
  unfold KeyCredential.fromBytes at h
  unfold kcAllocOf
  split at h
  · next v0 v1 v2 v3 rest =>
    obtain ⟨a1, a2, a3⟩ := parseLoop_size _ _ _ h
    refine ⟨a3, ?_⟩
    simp only [KeyCredential.size, List.length_cons] at a2 ⊢
    omega
  · cases h

/-- on the zero receiver (what the callers pass): size `≤ 3·|b| + 160`, owned part `≤` allocated `≤ 2·|b|` -/
theorem keyCredential_fromBytes_alloc_bound_zero (b : Bytes) (k' : KeyCredential)
    (h : KeyCredential.fromBytes {} b = .ok k') :
    k'.size ≤ 3 * b.length + 160 ∧ k'.owned ≤ kcAllocOf {} b ∧ kcAllocOf {} b ≤ 2 * b.length := by
  obtain ⟨h1, h2⟩ := keyCredential_fromBytes_alloc_bound {} b
  obtain ⟨h3, h4⟩ := h2 k' h
  have hs : ({} : KeyCredential).size = 168 := by decide
  have ho : ({} : KeyCredential).owned = 0 := by decide
  omega

/-- non-vacuity: version 0 (hexadecimal identifiers), one KeyID entry of two bytes: the identifier
    text of four characters is the one allocation (`parseLoop` is a well-founded recursion, hence
    `simp` and not `decide`) -/
example : (KeyCredential.fromBytes {} [0, 0, 0, 0, 2, 0, 1, 0xAA, 0xBB]).isOk = true := by
  simp [KeyCredential.fromBytes, parseLoop, le16, applyEntry, Outcome.isOk]
example : kcAllocOf {} [0, 0, 0, 0, 2, 0, 1, 0xAA, 0xBB] = 4 := by
  simp [kcAllocOf, parseLoopAllocOf, le16, applyEntry, entryAllocOf, fromBinaryId, isHexVersion, le32, hexEncode]
/-- an entry that announces 65535 bytes allocates nothing: the loop returns the error first -/
example : kcAllocOf {} [0, 2, 0, 0, 0xff, 0xff, 1, 0] = 0 := by
  simp [kcAllocOf, parseLoopAllocOf, le16]
example : KeyCredential.fromBytes {} [0, 2, 0, 0, 0xff, 0xff, 1, 0] = .err := by
  simp [KeyCredential.fromBytes, parseLoop, le16]

/-! ## `ConvertToBinaryIdentifier` -/

private theorem mapM_some_length {α β : Type} (f : α → Option β) : ∀ (l : List α) (r : List β), l.mapM f = some r → r.length = l.length
  | [], r, h => by simp at h; subst h; rfl
  | a :: l, r, h => by
    rw [List.mapM_cons] at h
    cases hf : f a with
    | none => simp [hf] at h
    | some y =>
      cases hl : l.mapM f with
      | none => simp [hf, hl] at h
      | some ys =>
        simp [hf, hl] at h
        subst h
        simp [mapM_some_length f l ys hl]

theorem b64Sextets_length : ∀ (l : List Nat) (r : Bytes), b64Sextets l = some r → r.length = b64RawDecodedLen l.length
  | [], r, h => by simp [b64Sextets] at h; subst h; rfl
  | [_], r, h => by simp [b64Sextets] at h
  | [_, _], r, h => by simp [b64Sextets] at h; subst h; simp [b64RawDecodedLen]
  | [_, _, _], r, h => by simp [b64Sextets] at h; subst h; simp [b64RawDecodedLen]
  | s0 :: s1 :: s2 :: s3 :: rest, r, h => by
    unfold b64Sextets at h
    split at h
    · next r' hr =>
      cases h
      have := b64Sextets_length rest r' hr
      simp only [List.length_cons, this, b64RawDecodedLen]
      omega
    · cases h

theorem b64RawDecodedLen_mono {m n : Nat} (h : m ≤ n) : b64RawDecodedLen m ≤ b64RawDecodedLen n := by
  unfold b64RawDecodedLen; omega

theorem b64RawDecodedLen_le (n : Nat) : 4 * b64RawDecodedLen n ≤ 3 * n := by
  unfold b64RawDecodedLen; omega

theorem trimRightEq_length_le (s : Bytes) : (trimRightEq s).length ≤ s.length := by
  unfold trimRightEq
  rw [List.length_reverse]
  have := (List.dropWhile_sublist (· == (61 : UInt8)) (l := s.reverse)).length_le
  simpa using this

theorem b64DecodeRaw_length (s r : Bytes) (h : b64DecodeRaw s = some r) : r.length ≤ b64RawDecodedLen s.length := by
  unfold b64DecodeRaw at h
  split at h
  · next vals hv =>
    have h1 := mapM_some_length _ _ _ hv
    have h2 := b64Sextets_length _ _ h
    have h3 := List.length_filter_le (fun c : UInt8 => c != 10 && c != 13) s
    rw [h2]
    exact b64RawDecodedLen_mono (by omega)
  · cases h

theorem toBinaryIdAllocOf_le (s : Bytes) (v : UInt32) : toBinaryIdAllocOf s v ≤ s.length := by
  unfold toBinaryIdAllocOf
  have := trimRightEq_length_le s
  have := b64RawDecodedLen_le (trimRightEq s).length
  split <;> omega

theorem toBinaryId_alloc (s b : Bytes) (v : UInt32) (h : toBinaryId s v = some b) :
    b.length ≤ toBinaryIdAllocOf s v := by
  unfold toBinaryId at h
  unfold toBinaryIdAllocOf
  split at h
  · next hv => rw [if_pos hv]; have := hexDecode_length _ _ h; omega
  · next hv => rw [if_neg hv]; exact b64DecodeRaw_length _ _ h

/-- **`ConvertToBinaryIdentifier`** (`toBinaryId s v : Option Bytes`).  Allocation
    (`toBinaryIdAllocOf`): the destination of `hex.DecodeString` (`make([]byte, len(s)/2)`) for the
    versions 0 and 0x100, of `base64.RawStdEncoding.DecodeString` on the text without its trailing `=`
    (`make([]byte, n/4*3 + n%4*6/8)`) otherwise: at most `|s|` for every text (hex `|s|/2`, base64
    `3·|s|/4`), and a returned identifier is no longer than that buffer. -/
theorem toBinaryId_alloc_bound (s : Bytes) (v : UInt32) :
    toBinaryIdAllocOf s v ≤ s.length ∧
    ∀ b, toBinaryId s v = some b → b.length ≤ toBinaryIdAllocOf s v ∧ b.length ≤ s.length := by
  refine ⟨toBinaryIdAllocOf_le s v, fun b h => ?_⟩
  have h1 := toBinaryId_alloc s b v h
  have h2 := toBinaryIdAllocOf_le s v
  exact ⟨h1, by omega⟩

/-- the ratios: two characters per byte in hexadecimal, at least four characters per three bytes in base64 -/
theorem toBinaryId_ratio (s b : Bytes) (v : UInt32) (h : toBinaryId s v = some b) :
    (isHexVersion v = true → 2 * b.length = s.length) ∧ (isHexVersion v = false → 4 * b.length ≤ 3 * s.length) := by
  have h1 := toBinaryId_alloc s b v h
  unfold toBinaryIdAllocOf at h1
  unfold toBinaryId at h
  constructor
  · intro hv; rw [if_pos hv] at h; exact hexDecode_length _ _ h
  · intro hv
    have hv' : ¬ isHexVersion v = true := by simp [hv]
    rw [if_neg hv'] at h1
    have := trimRightEq_length_le s
    have := b64RawDecodedLen_le (trimRightEq s).length
    omega

example : toBinaryId [52, 49, 52, 50] 0 = some [0x41, 0x42] := by decide
example : toBinaryIdAllocOf [52, 49, 52, 50] 0 = 2 := by decide
example : toBinaryId [81, 85, 73, 61] 0x200 = some [0x41, 0x42] := by decide
example : toBinaryIdAllocOf [81, 85, 73, 61] 0x200 = 2 := by decide

/-! ## fixed-size results -/

/-- **`KeyCredentialVersion.FromBytes`** (`versionFromBytes`): two numbers and the view
    `RawBytes = value[:4]`: at most 20, nothing allocated; `RawBytesSize` never exceeds the input -/
theorem versionFromBytes_alloc_bound (b : Bytes) : versionSize (versionFromBytes b) ≤ 20 ∧ (versionFromBytes b).2 ≤ b.length := by
  unfold versionFromBytes versionSize
  split <;> simp

/-- **`GUID.FromRawBytes`** (`Guid.fromRawBytes`): five numbers, nothing allocated -/
theorem guid_fromRawBytes_alloc_bound (d : Bytes) (g : Guid) (_ : Guid.fromRawBytes d = .ok g) : g.size = 40 := rfl

/-- **`ConvertFromBinaryTime`** (`C15.convertFromBinaryTime`): `Ticks` and the two numbers of `Time`, nothing
    allocated; and the result never is the "read the clock" value of `NewDateTime(0)` -/
theorem convertFromBinaryTime_alloc_bound (raw : Bytes) (t : Manticore.C15.KcTime)
    (h : Manticore.C15.convertFromBinaryTime raw = .ok t) :
    kcTimeSize t = 24 ∧ t ≠ .now := by
  refine ⟨rfl, ?_⟩
  unfold Manticore.C15.convertFromBinaryTime at h
  split at h
  · simp only [] at h
    split at h
    · cases h; simp
    · next hne =>
      unfold Manticore.C15.newDateTime at h
      rw [if_neg hne] at h
      cases h; simp
  · cases h; simp

end Manticore.C07A.Keys
