/-
  Facts about the byte-level model of `strings.TrimSpace` (`Manticore.C20.trimGen`), proved once for
  the generic left-to-right stripper and instantiated for the forward (TrimLeft) and the reversed
  (TrimRight) direction.
-/
import Manticore.Model.C20
namespace Manticore.C20
open Manticore

/-- a concatenation of white-space encodings as recognised by `p2`/`p3` -/
inductive WsG (p2 : UInt8 → UInt8 → Bool) (p3 : UInt8 → UInt8 → UInt8 → Bool) : Bytes → Prop
  | nil : WsG p2 p3 []
  | one (a : UInt8) (w : Bytes) : isAsciiSpace a = true → WsG p2 p3 w → WsG p2 p3 (a :: w)
  | two (a b : UInt8) (w : Bytes) : p2 a b = true → WsG p2 p3 w → WsG p2 p3 (a :: b :: w)
  | three (a b c : UInt8) (w : Bytes) : p3 a b c = true → WsG p2 p3 w → WsG p2 p3 (a :: b :: c :: w)

/-- what the stripper needs to know about the recognisers: multi-byte encodings do not start with
    an ASCII space, and a 3-byte encoding does not start with a 2-byte one -/
structure Coherent (p2 : UInt8 → UInt8 → Bool) (p3 : UInt8 → UInt8 → UInt8 → Bool) : Prop where
  two_not_ascii : ∀ a b, p2 a b = true → isAsciiSpace a = false
  three_not_ascii : ∀ a b c, p3 a b c = true → isAsciiSpace a = false
  three_not_two : ∀ a b c, p3 a b c = true → p2 a b = false

variable {p2 : UInt8 → UInt8 → Bool} {p3 : UInt8 → UInt8 → UInt8 → Bool}

theorem trimGen_space (a : UInt8) (r : Bytes) (h : isAsciiSpace a = true) :
    trimGen p2 p3 (a :: r) = trimGen p2 p3 r := by
  match r with
  | [] => simp [trimGen, h]
  | [b] => simp [trimGen, h]
  | b :: c :: r => simp [trimGen, h]

theorem trimGen_two (a b : UInt8) (r : Bytes) (h1 : isAsciiSpace a = false) (h2 : p2 a b = true) :
    trimGen p2 p3 (a :: b :: r) = trimGen p2 p3 r := by
  match r with
  | [] => simp [trimGen, h1, h2]
  | c :: r => simp [trimGen, h1, h2]

theorem trimGen_three (a b c : UInt8) (r : Bytes) (h1 : isAsciiSpace a = false) (h2 : p2 a b = false)
    (h3 : p3 a b c = true) : trimGen p2 p3 (a :: b :: c :: r) = trimGen p2 p3 r := by
  simp [trimGen, h1, h2, h3]

theorem trimGen_stop1 (a : UInt8) (h1 : isAsciiSpace a = false) : trimGen p2 p3 [a] = [a] := by
  simp [trimGen, h1]
theorem trimGen_stop2 (a b : UInt8) (h1 : isAsciiSpace a = false) (h2 : p2 a b = false) :
    trimGen p2 p3 [a, b] = [a, b] := by
  simp [trimGen, h1, h2]
theorem trimGen_stop3 (a b c : UInt8) (r : Bytes) (h1 : isAsciiSpace a = false) (h2 : p2 a b = false)
    (h3 : p3 a b c = false) : trimGen p2 p3 (a :: b :: c :: r) = a :: b :: c :: r := by
  simp [trimGen, h1, h2, h3]

theorem WsG.append {w v : Bytes} (hw : WsG p2 p3 w) (hv : WsG p2 p3 v) : WsG p2 p3 (w ++ v) := by
  induction hw with
  | nil => exact hv
  | one a w h _ ih => exact .one a _ h ih
  | two a b w h _ ih => exact .two a b _ h ih
  | three a b c w h _ ih => exact .three a b c _ h ih

/-- (A) leading white space is removed entirely -/
theorem trimGen_ws_append (hc : Coherent p2 p3) {w : Bytes} (hw : WsG p2 p3 w) (x : Bytes) :
    trimGen p2 p3 (w ++ x) = trimGen p2 p3 x := by
  induction hw with
  | nil => rfl
  | one a w h _ ih => rw [List.cons_append, trimGen_space _ _ h, ih]
  | two a b w h _ ih =>
    rw [List.cons_append, List.cons_append, trimGen_two _ _ _ (hc.two_not_ascii a b h) h, ih]
  | three a b c w h _ ih =>
    rw [List.cons_append, List.cons_append, List.cons_append,
      trimGen_three _ _ _ _ (hc.three_not_ascii a b c h) (hc.three_not_two a b c h) h, ih]

theorem trimGen_ws (hc : Coherent p2 p3) {w : Bytes} (hw : WsG p2 p3 w) : trimGen p2 p3 w = [] := by
  have := trimGen_ws_append hc hw []
  simpa [trimGen] using this

/-- a byte that can begin white space -/
def First (p2 : UInt8 → UInt8 → Bool) (p3 : UInt8 → UInt8 → UInt8 → Bool) (b : UInt8) : Prop :=
  isAsciiSpace b = true ∨ (∃ c, p2 b c = true) ∨ (∃ c d, p3 b c d = true)

theorem WsG.first {b : UInt8} {r : Bytes} (h : WsG p2 p3 (b :: r)) : First p2 p3 b := by
  cases h with
  | one _ _ h _ => exact .inl h
  | two _ c _ h _ => exact .inr (.inl ⟨c, h⟩)
  | three _ c d _ h _ => exact .inr (.inr ⟨c, d, h⟩)

/-- bytes that can begin white space never continue a multi-byte encoding -/
structure Separated (p2 : UInt8 → UInt8 → Bool) (p3 : UInt8 → UInt8 → UInt8 → Bool) : Prop where
  second2 : ∀ a b, First p2 p3 b → p2 a b = false
  second3 : ∀ a b c, First p2 p3 b → p3 a b c = false
  third3 : ∀ a b c, First p2 p3 c → p3 a b c = false

/-- (C) white space appended to a string does not change what is stripped from its front, unless
    the string is white space altogether -/
theorem trimGen_append_ws (hc : Coherent p2 p3) (hs : Separated p2 p3) {w : Bytes} (hw : WsG p2 p3 w) :
    ∀ x : Bytes, trimGen p2 p3 (x ++ w) =
      if trimGen p2 p3 x = [] then [] else trimGen p2 p3 x ++ w := by
  intro x
  induction x using trimGen.induct p2 p3 with
  | case1 => simp [trimGen, trimGen_ws hc hw]
  | case2 a r1 ha ih => rw [List.cons_append, trimGen_space _ _ ha, trimGen_space _ _ ha, ih]
  | case3 a ha =>
    have ha' : isAsciiSpace a = false := by simpa using ha
    rw [trimGen_stop1 a ha']
    match w, hw with
    | [], _ => simp [trimGen_stop1 a ha']
    | [b], hw => simp [trimGen_stop2 a b ha' (hs.second2 a b hw.first)]
    | b :: c :: r, hw =>
      simp [trimGen_stop3 a b c r ha' (hs.second2 a b hw.first) (hs.second3 a b c hw.first)]
  | case4 a ha b r2 hb ih =>
    have ha' : isAsciiSpace a = false := by simpa using ha
    rw [List.cons_append, List.cons_append, trimGen_two _ _ _ ha' hb, trimGen_two _ _ _ ha' hb, ih]
  | case5 a ha b hb =>
    have ha' : isAsciiSpace a = false := by simpa using ha
    have hb' : p2 a b = false := by simpa using hb
    rw [trimGen_stop2 a b ha' hb']
    match w, hw with
    | [], _ => simp [trimGen_stop2 a b ha' hb']
    | c :: r, hw => simp [trimGen_stop3 a b c r ha' hb' (hs.third3 a b c hw.first)]
  | case6 a ha b hb c r3 hcc ih =>
    have ha' : isAsciiSpace a = false := by simpa using ha
    have hb' : p2 a b = false := by simpa using hb
    rw [List.cons_append, List.cons_append, List.cons_append, trimGen_three _ _ _ _ ha' hb' hcc,
      trimGen_three _ _ _ _ ha' hb' hcc, ih]
  | case7 a ha b hb c r3 hcc =>
    have ha' : isAsciiSpace a = false := by simpa using ha
    have hb' : p2 a b = false := by simpa using hb
    have hc' : p3 a b c = false := by simpa using hcc
    rw [List.cons_append, List.cons_append, List.cons_append, trimGen_stop3 _ _ _ _ ha' hb' hc',
      trimGen_stop3 _ _ _ _ ha' hb' hc']
    simp

/-- a string that starts with a byte which begins no white space is left alone -/
theorem trimGen_plain (a : UInt8) (r : Bytes) (h : ¬ First p2 p3 a) : trimGen p2 p3 (a :: r) = a :: r := by
  have h1 : isAsciiSpace a = false := by
    cases hh : isAsciiSpace a with
    | false => rfl
    | true => exact absurd (.inl hh) h
  have h2 : ∀ b, p2 a b = false := fun b => by
    cases hh : p2 a b with
    | false => rfl
    | true => exact absurd (.inr (.inl ⟨b, hh⟩)) h
  have h3 : ∀ b c, p3 a b c = false := fun b c => by
    cases hh : p3 a b c with
    | false => rfl
    | true => exact absurd (.inr (.inr ⟨b, c, hh⟩)) h
  match r with
  | [] => exact trimGen_stop1 a h1
  | [b] => exact trimGen_stop2 a b h1 (h2 b)
  | b :: c :: r => exact trimGen_stop3 a b c r h1 (h2 b) (h3 b c)

/-- stripping commutes with a bytewise map that the recognisers cannot see -/
theorem trimGen_map (f : UInt8 → UInt8) (h1 : ∀ a, isAsciiSpace (f a) = isAsciiSpace a)
    (h2 : ∀ a b, p2 (f a) (f b) = p2 a b) (h3 : ∀ a b c, p3 (f a) (f b) (f c) = p3 a b c) :
    ∀ x : Bytes, trimGen p2 p3 (x.map f) = (trimGen p2 p3 x).map f := by
  intro x
  induction x using trimGen.induct p2 p3 with
  | case1 => rfl
  | case2 a r1 ha ih =>
    rw [List.map_cons, trimGen_space _ _ (by rw [h1]; exact ha), trimGen_space _ _ ha, ih]
  | case3 a ha =>
    have ha' : isAsciiSpace a = false := by simpa using ha
    rw [List.map_cons, List.map_nil, trimGen_stop1 _ (by rw [h1]; exact ha'), trimGen_stop1 _ ha']; rfl
  | case4 a ha b r2 hb ih =>
    have ha' : isAsciiSpace a = false := by simpa using ha
    rw [List.map_cons, List.map_cons, trimGen_two _ _ _ (by rw [h1]; exact ha') (by rw [h2]; exact hb),
      trimGen_two _ _ _ ha' hb, ih]
  | case5 a ha b hb =>
    have ha' : isAsciiSpace a = false := by simpa using ha
    have hb' : p2 a b = false := by simpa using hb
    rw [List.map_cons, List.map_cons, List.map_nil, trimGen_stop2 _ _ (by rw [h1]; exact ha') (by rw [h2]; exact hb'),
      trimGen_stop2 _ _ ha' hb']; rfl
  | case6 a ha b hb c r3 hcc ih =>
    have ha' : isAsciiSpace a = false := by simpa using ha
    have hb' : p2 a b = false := by simpa using hb
    rw [List.map_cons, List.map_cons, List.map_cons,
      trimGen_three _ _ _ _ (by rw [h1]; exact ha') (by rw [h2]; exact hb') (by rw [h3]; exact hcc),
      trimGen_three _ _ _ _ ha' hb' hcc, ih]
  | case7 a ha b hb c r3 hcc =>
    have ha' : isAsciiSpace a = false := by simpa using ha
    have hb' : p2 a b = false := by simpa using hb
    have hc' : p3 a b c = false := by simpa using hcc
    rw [List.map_cons, List.map_cons, List.map_cons,
      trimGen_stop3 _ _ _ _ (by rw [h1]; exact ha') (by rw [h2]; exact hb') (by rw [h3]; exact hc'),
      trimGen_stop3 _ _ _ _ ha' hb' hc']; rfl

/-! ### the two instances: `TrimLeft` and (reversed) `TrimRight` -/

theorem isAsciiSpace_iff (a : UInt8) :
    isAsciiSpace a = true ↔ (9 ≤ a.toNat ∧ a.toNat ≤ 13) ∨ a.toNat = 32 := by
  simp only [isAsciiSpace, Bool.or_eq_true, beq_iff_eq, ← UInt8.toNat_inj]
  simp only [UInt8.toNat_ofNat, Nat.reducePow, Nat.reduceMod]
  omega

theorem isSpace2_iff (a b : UInt8) :
    isSpace2 a b = true ↔ a.toNat = 194 ∧ (b.toNat = 133 ∨ b.toNat = 160) := by
  simp only [isSpace2, Bool.and_eq_true, Bool.or_eq_true, beq_iff_eq, ← UInt8.toNat_inj]
  simp only [UInt8.toNat_ofNat, Nat.reducePow, Nat.reduceMod]

theorem isSpace3_iff (a b c : UInt8) :
    isSpace3 a b c = true ↔
      (a.toNat = 225 ∧ b.toNat = 154 ∧ c.toNat = 128) ∨
      (a.toNat = 226 ∧ b.toNat = 128 ∧ ((128 ≤ c.toNat ∧ c.toNat ≤ 138) ∨ c.toNat = 168 ∨ c.toNat = 169 ∨ c.toNat = 175)) ∨
      (a.toNat = 226 ∧ b.toNat = 129 ∧ c.toNat = 159) ∨
      (a.toNat = 227 ∧ b.toNat = 128 ∧ c.toNat = 128) := by
  simp only [isSpace3, Bool.and_eq_true, Bool.or_eq_true, beq_iff_eq, decide_eq_true_eq, ← UInt8.toNat_inj,
    UInt8.le_iff_toNat_le]
  simp only [UInt8.toNat_ofNat, Nat.reducePow, Nat.reduceMod]
  omega

theorem eq_false_of_not {b : Bool} (h : ¬ b = true) : b = false := by simpa using h

def r2 : UInt8 → UInt8 → Bool := fun a b => isSpace2 b a
def r3 : UInt8 → UInt8 → UInt8 → Bool := fun a b c => isSpace3 c b a

theorem coherent_fwd : Coherent isSpace2 isSpace3 where
  two_not_ascii a b h := by
    apply eq_false_of_not; rw [isAsciiSpace_iff]; rw [isSpace2_iff] at h; omega
  three_not_ascii a b c h := by
    apply eq_false_of_not; rw [isAsciiSpace_iff]; rw [isSpace3_iff] at h; omega
  three_not_two a b c h := by
    apply eq_false_of_not; rw [isSpace2_iff]; rw [isSpace3_iff] at h; omega

theorem coherent_rev : Coherent r2 r3 where
  two_not_ascii a b h := by
    apply eq_false_of_not; rw [isAsciiSpace_iff]; unfold r2 at h; rw [isSpace2_iff] at h; omega
  three_not_ascii a b c h := by
    apply eq_false_of_not; rw [isAsciiSpace_iff]; unfold r3 at h; rw [isSpace3_iff] at h; omega
  three_not_two a b c h := by
    apply eq_false_of_not; unfold r2; rw [isSpace2_iff]; unfold r3 at h; rw [isSpace3_iff] at h; omega

theorem first_fwd (b : UInt8) (h : First isSpace2 isSpace3 b) :
    (9 ≤ b.toNat ∧ b.toNat ≤ 13) ∨ b.toNat = 32 ∨ b.toNat = 194 ∨ b.toNat = 225 ∨ b.toNat = 226 ∨ b.toNat = 227 := by
  rcases h with h | ⟨c, h⟩ | ⟨c, d, h⟩
  · rw [isAsciiSpace_iff] at h; omega
  · rw [isSpace2_iff] at h; omega
  · rw [isSpace3_iff] at h; omega

theorem first_rev (b : UInt8) (h : First r2 r3 b) :
    (9 ≤ b.toNat ∧ b.toNat ≤ 13) ∨ b.toNat = 32 ∨ (128 ≤ b.toNat ∧ b.toNat < 192) := by
  rcases h with h | ⟨c, h⟩ | ⟨c, d, h⟩
  · rw [isAsciiSpace_iff] at h; omega
  · unfold r2 at h; rw [isSpace2_iff] at h; omega
  · unfold r3 at h; rw [isSpace3_iff] at h; omega

theorem separated_fwd : Separated isSpace2 isSpace3 where
  second2 a b h := by
    apply eq_false_of_not; rw [isSpace2_iff]; have := first_fwd b h; omega
  second3 a b c h := by
    apply eq_false_of_not; rw [isSpace3_iff]; have := first_fwd b h; omega
  third3 a b c h := by
    apply eq_false_of_not; rw [isSpace3_iff]; have := first_fwd c h; omega

theorem ws_fwd {w : Bytes} (h : Spec.Ws w) : WsG isSpace2 isSpace3 w := by
  induction h with
  | nil => exact .nil
  | one a w h _ ih => exact .one a w h ih
  | two a b w h _ ih => exact .two a b w h ih
  | three a b c w h _ ih => exact .three a b c w h ih

theorem ws_rev {w : Bytes} (h : Spec.Ws w) : WsG r2 r3 w.reverse := by
  induction h with
  | nil => exact .nil
  | one a w h _ ih =>
    rw [List.reverse_cons]; exact ih.append (.one a [] h .nil)
  | two a b w h _ ih =>
    rw [List.reverse_cons, List.reverse_cons, List.append_assoc]
    exact ih.append (.two b a [] (by simpa [r2] using h) .nil)
  | three a b c w h _ ih =>
    rw [List.reverse_cons, List.reverse_cons, List.reverse_cons, List.append_assoc, List.append_assoc]
    exact ih.append (.three c b a [] (by simpa [r3] using h) .nil)

theorem trimRight_def (s : Bytes) : trimRight s = (trimGen r2 r3 s.reverse).reverse := rfl

/-- (A) -/
theorem trimLeft_ws_append {w : Bytes} (hw : Spec.Ws w) (x : Bytes) : trimLeft (w ++ x) = trimLeft x :=
  trimGen_ws_append coherent_fwd (ws_fwd hw) x

/-- (B) -/
theorem trimRight_append_ws {w : Bytes} (hw : Spec.Ws w) (x : Bytes) : trimRight (x ++ w) = trimRight x := by
  rw [trimRight_def, trimRight_def, List.reverse_append, trimGen_ws_append coherent_rev (ws_rev hw)]

/-- (C) -/
theorem trimLeft_append_ws {w : Bytes} (hw : Spec.Ws w) (x : Bytes) :
    trimLeft (x ++ w) = if trimLeft x = [] then [] else trimLeft x ++ w :=
  trimGen_append_ws coherent_fwd separated_fwd (ws_fwd hw) x

/-- white space around a string does not change what `TrimSpace` returns -/
theorem trimSpace_pad {w1 w2 : Bytes} (h1 : Spec.Ws w1) (h2 : Spec.Ws w2) (s : Bytes) :
    trimSpace (w1 ++ s ++ w2) = trimSpace s := by
  unfold trimSpace
  rw [List.append_assoc, trimLeft_ws_append h1, trimLeft_append_ws h2]
  split
  · rename_i h; rw [h]
  · rw [trimRight_append_ws h2]

/-- `TrimSpace` is the identity on a string whose first and last bytes are printable ASCII -/
theorem trimSpace_core (s : Bytes) (hf : ∀ a ∈ s.head?, a.toNat < 128 ∧ isAsciiSpace a = false)
    (hl : ∀ a ∈ s.getLast?, a.toNat < 128 ∧ isAsciiSpace a = false) : trimSpace s = s := by
  unfold trimSpace
  have e1 : trimLeft s = s := by
    match s, hf with
    | [], _ => rfl
    | a :: r, hf =>
      have ⟨h1, h2⟩ := hf a (by simp)
      apply trimGen_plain
      intro hF
      have := first_fwd a hF
      have h3 : ¬ isAsciiSpace a = true := by simp [h2]
      rw [isAsciiSpace_iff] at h3
      omega
  rw [e1, trimRight_def]
  match hs : s.reverse with
  | [] => rw [List.reverse_eq_nil_iff] at hs; subst hs; rfl
  | a :: r =>
    have hlast : s.getLast? = some a := by
      rw [List.getLast?_eq_head?_reverse, hs]; rfl
    have ⟨h1, h2⟩ := hl a (by simp [hlast])
    rw [trimGen_plain a r]
    · rw [← hs, List.reverse_reverse]
    · intro hF
      have := first_rev a hF
      have h3 : ¬ isAsciiSpace a = true := by simp [h2]
      rw [isAsciiSpace_iff] at h3
      omega
end Manticore.C20
